package main

import (
	"os/exec"
	"crypto/sha1"
	"encoding/json"
	"fmt"
	"go/ast"
	"os"
	"path/filepath"
	"regexp"
	"sort"
	"strings"
	"time"

	"gosym/interp"
	"gosym/sym"
)

type verdict struct {
	Harness   string `json:"harness"`
	Kind      string `json:"kind"`
	Label     string `json:"label"`
	Msg       string `json:"msg"`
	Replay    string `json:"replay"`
	Native    string `json:"native_outcome"`
	Class     string `json:"class"` // violation, known, spurious, inconclusive
	KnownKey  string `json:"known_key,omitempty"`
	CrossZ3   string `json:"z3_new,omitempty"`
	CrossCVC5 string `json:"cvc5,omitempty"`
}

type report struct {
	prop, tier   string
	knownText    map[string]string
	verdicts     []verdict
	vacuous      []string
	mismatches   []string
	notes        []string
	validated    int
	witnessTried int
	inconclusive int
	unsupported  int
	samples      []interface{}
}

func labelHash(parts ...string) string {
	h := sha1.Sum([]byte(strings.Join(parts, "|")))
	return fmt.Sprintf("%x", h[:5])
}

var reachRe = regexp.MustCompile(`verifReach\("([^"]+)"\)`)

// staticReachLabels extracts the verifReach labels written in the harness body.
// repoRevision: HEAD of the repository under check, with a marker when the working tree differs.
func repoRevision() string {
	out, err := exec.Command("git", "-C", *repo, "rev-parse", "--short", "HEAD").Output()
	if err != nil {
		return "unknown"
	}
	rev := strings.TrimSpace(string(out))
	if st, err := exec.Command("git", "-C", *repo, "status", "--porcelain").Output(); err == nil && len(strings.TrimSpace(string(st))) > 0 {
		rev += "+modified"
	}
	return rev
}

func tapeRounded(tape []interp.TapeEnt) bool {
	for _, e := range tape {
		if strings.Contains(e.N, "(rounded") || strings.Contains(e.N, "(inexact") {
			return true
		}
	}
	return false
}

func staticReachLabels(h *harnessInfo) []string { return staticLabels(h, "verifReach") }

// staticSupportLabels: labels of verifSupport calls. Such a label states that an outcome HAS
// positive probability; if no path of a complete exploration reaches it the property (not the
// harness) is violated.
func staticSupportLabels(h *harnessInfo) []string { return staticLabels(h, "verifSupport") }

func staticLabels(h *harnessInfo, fname string) []string {
	decl, ok := h.fn.Syntax().(*ast.FuncDecl)
	if !ok {
		return nil
	}
	var out []string
	ast.Inspect(decl, func(n ast.Node) bool {
		call, ok := n.(*ast.CallExpr)
		if !ok {
			return true
		}
		if id, ok := call.Fun.(*ast.Ident); ok && id.Name == fname && len(call.Args) == 1 {
			if lit, ok := call.Args[0].(*ast.BasicLit); ok {
				out = append(out, strings.Trim(lit.Value, `"`))
			}
		}
		return true
	})
	return out
}

func (r *report) evaluate(hs []*harnessInfo, stats []*interp.HarnessStats, rb *replayBuilder) int {
	rdir := filepath.Join(*verifDir, "replays", r.prop+os.Getenv("GOSYM_BUILD_SUFFIX"))
	if *filter == "" {
		os.RemoveAll(rdir)
	}
	os.MkdirAll(rdir, 0o755)
	var knownKeys []string
	for k := range r.knownText {
		knownKeys = append(knownKeys, k)
	}
	sort.Strings(knownKeys)
	violation := false
	for k, h := range hs {
		st := stats[k]
		isK := strings.HasPrefix(h.fn.Name(), "K_")
		isW := strings.HasPrefix(h.fn.Name(), "W_") || h.expect == "violation"
		// group candidate findings by (kind,label)
		groups := map[string][]interp.Finding{}
		var order []string
		for _, f := range st.Findings {
			switch f.Kind {
			case "assert", "panic", "exit", "deadlock", "hang", "race":
				key := f.Kind + "|" + f.Label
				if f.Kind != "assert" {
					key = f.Kind + "|" + f.Msg
				}
				if f.Kind == "hang" {
					// group by the location of the loop, not by the step count
					key = f.Kind + "|" + f.Msg
				}
				if _, ok := groups[key]; !ok {
					order = append(order, key)
				}
				groups[key] = append(groups[key], f)
			default:
				r.inconclusive++
				r.notes = append(r.notes, fmt.Sprintf("INCONCLUSIVE %s: %s %s: %s", h.fn.Name(), f.Kind, f.Label, f.Msg))
			}
		}
		found := false
		for _, key := range order {
			fs := groups[key]
			sort.SliceStable(fs, func(a, b int) bool { return len(fs[a].Tape) < len(fs[b].Tape) })
			var v verdict
			tried := 0
			for _, f := range fs {
				if tried >= 3 {
					break
				}
				tried++
				name := fmt.Sprintf("%s-%s.json", h.fn.Name(), labelHash(f.Kind, f.Label, f.Msg, fmt.Sprint(f.Tape)))
				path := filepath.Join(rdir, name)
				data, _ := json.MarshalIndent(map[string]interface{}{
					"property": r.prop, "harness": f.Harness, "kind": f.Kind, "label": f.Label, "msg": f.Msg,
					"tape": f.Tape, "decisions": f.Decs, "reaches": f.Reaches, "observed": f.Observed,
				}, "", " ")
				os.WriteFile(path, data, 0o644)
				if f.Script != "" {
					os.WriteFile(strings.TrimSuffix(path, ".json")+".smt2", []byte(f.Script), 0o644)
				}
				v = verdict{Harness: h.fn.Name(), Kind: f.Kind, Label: f.Label, Msg: f.Msg, Replay: path}
				if *crossCheck && f.Script != "" {
					r1, _ := sym.OneShot("z3-new", f.Script+"\n", 120)
					v.CrossZ3 = r1.String()
					cs := strings.ReplaceAll(f.Script, "(bv2int ", "(bv2nat ")
					r2, _ := sym.OneShot("cvc5", "(set-logic ALL)\n"+cs+"\n", 120)
					v.CrossCVC5 = r2.String()
				}
				if *noReplay {
					v.Native = "not replayed"
					v.Class = "violation"
					break
				}
				wd := 10 * time.Second
				if f.Kind == "hang" {
					wd = 5 * time.Second
				}
				res, err := rb.run(h.pkgDir, path, knownKeys, wd)
				// schedule-dependent events cannot be forced natively: repeat the run
				for rep := 0; err == nil && rep < 40 && ((f.Kind == "race" && !res.Race) ||
					(f.Kind == "deadlock" && res.Outcome == "ok") ||
					(h.cfg.MapOrder && f.Kind == "assert" && !(res.Outcome == "assert" && res.Label == f.Label))); rep++ {
					res, err = rb.run(h.pkgDir, path, knownKeys, wd)
				}
				if err != nil {
					v.Native = "replay failed: " + err.Error()
					v.Class = "inconclusive"
					continue
				}
				v.Native = res.Outcome
				if res.Label != "" {
					v.Native += ":" + res.Label
				}
				if res.Msg != "" {
					v.Native += " (" + firstLine(res.Msg) + ")"
				}
				ok := false
				switch f.Kind {
				case "assert":
					ok = res.Outcome == "assert" && res.Label == f.Label
				case "panic":
					ok = res.Outcome == "panic"
				case "exit":
					ok = res.Outcome == "exit"
				case "race":
					ok = res.Race
				case "hang":
					ok = res.Outcome == "hang"
				case "deadlock":
					ok = res.Outcome == "hang" || (res.Outcome == "panic" && strings.Contains(res.Raw+res.Msg, "deadlock"))
				}
				if ok {
					v.Class = "violation"
					break
				}
				v.Class = "spurious"
			}
			switch {
			case v.Class == "violation" && isK:
				v.Class = "known"
				v.KnownKey = h.known
				found = true
			case v.Class == "violation" && isW:
				v.Class = "witness"
				found = true
			case v.Class == "violation":
				violation = true
			case v.Class == "spurious" || v.Class == "inconclusive":
				r.inconclusive++
			}
			r.verdicts = append(r.verdicts, v)
		}
		if isK && !found {
			r.notes = append(r.notes, fmt.Sprintf("NOTE: known finding %s (%s) did not reproduce in this run", h.known, h.fn.Name()))
		}
		if isW && !found {
			r.vacuous = append(r.vacuous, h.fn.Name()+": reachability twin found no violation")
		}
		// vacuity: every verifReach label must have been reached on some path
		complete := st.Paths["skipped(maxpaths)"] == 0 && st.Msgs["deadline reached before the exploration finished"] == 0
		if complete && !isK {
			for _, lab := range staticReachLabels(h) {
				if st.Reaches[lab] == 0 {
					r.vacuous = append(r.vacuous, fmt.Sprintf("%s: label %q never reached", h.fn.Name(), lab))
				}
			}
		}
		// support claims: an outcome that no path of the complete exploration produces
		if sl := staticSupportLabels(h); len(sl) > 0 && !isK {
			exhaustive := complete
			for status := range st.Paths {
				switch status {
				case "ok", "assume", "stopped":
				default:
					exhaustive = false
				}
			}
			for _, lab := range sl {
				if st.Reaches[lab] > 0 {
					continue
				}
				if !exhaustive {
					r.inconclusive++
					r.notes = append(r.notes, fmt.Sprintf("INCONCLUSIVE %s: outcome %q not reached, but the exploration was not exhaustive", h.fn.Name(), lab))
					continue
				}
				npaths := 0
				for _, n := range st.Paths {
					npaths += n
				}
				msg := fmt.Sprintf("no outcome of the random draws produces it (%d paths, exploration exhaustive within the bounds)", npaths)
				path := filepath.Join(rdir, fmt.Sprintf("%s-%s.json", h.fn.Name(), labelHash("support", lab, "", "")))
				data, _ := json.MarshalIndent(map[string]interface{}{
					"property": r.prop, "harness": h.fn.Name(), "kind": "support", "label": lab, "msg": msg, "tape": []interface{}{},
				}, "", " ")
				os.WriteFile(path, data, 0o644)
				v := verdict{Harness: h.fn.Name(), Kind: "support", Label: lab, Msg: msg, Replay: path, Class: "violation", Native: "not replayed"}
				if !*noReplay {
					reachedNatively, n, err := rb.sample(h.pkgDir, path, knownKeys, lab)
					switch {
					case err != nil:
						v.Class, v.Native = "inconclusive", "sampling failed: "+err.Error()
					case reachedNatively:
						v.Class, v.Native = "spurious", fmt.Sprintf("the native build produced the outcome within %d random runs", n)
					default:
						v.Native = fmt.Sprintf("outcome not produced in %d native runs with the real generator", n)
					}
				}
				switch v.Class {
				case "violation":
					if isW {
						v.Class = "witness"
					} else {
						violation = true
					}
				default:
					r.inconclusive++
				}
				r.verdicts = append(r.verdicts, v)
			}
		}
		// inconclusive paths
		for m, n := range st.Msgs {
			if strings.HasPrefix(m, "unsupported:") || strings.HasPrefix(m, "init:") {
				// the code now does something the engine cannot execute: the property was NOT
				// decided for those paths; that is a failure of the check, not a pass
				r.unsupported += n
			}
			r.inconclusive += n
			r.notes = append(r.notes, fmt.Sprintf("INCONCLUSIVE %s: %s (x%d)", h.fn.Name(), m, n))
		}
		// witness validation against the real code
		if !*noReplay {
			for wi, w := range st.Witnesses {
				name := fmt.Sprintf("witness-%s-%d.json", h.fn.Name(), wi)
				path := filepath.Join(rdir, name)
				data, _ := json.MarshalIndent(map[string]interface{}{
					"property": r.prop, "harness": w.Harness, "kind": "witness", "tape": w.Tape,
					"reaches": w.Reaches, "observed": w.Observed,
				}, "", " ")
				os.WriteFile(path, data, 0o644)
				res, err := rb.run(h.pkgDir, path, knownKeys, 10*time.Second)
				r.witnessTried++
				if err != nil {
					r.mismatches = append(r.mismatches, fmt.Sprintf("%s: witness replay failed: %v", h.fn.Name(), err))
					continue
				}
				if res.Outcome == "ok" && eqStrs(res.Reached, w.Reaches) && eqObs(res.Observed, w.Observed) {
					r.validated++
					os.Remove(path)
				} else if tapeRounded(w.Tape) {
					// the solver's witness is a real number that is not a float64: the native run was fed
					// the nearest double and is not the same input; such a witness validates nothing
					r.notes = append(r.notes, fmt.Sprintf("NOTE: %s: a witness with a real-valued input that is not a float64 was not used for validation", h.fn.Name()))
					os.Remove(path)
				} else {
					r.mismatches = append(r.mismatches, fmt.Sprintf("%s: engine predicted ok/%v/%v, native %s:%s %s /%v/%v (replay=%s)",
						h.fn.Name(), w.Reaches, w.Observed, res.Outcome, res.Label, firstLine(res.Msg), res.Reached, res.Observed, path))
				}
				if len(r.samples) < 6 {
					r.samples = append(r.samples, map[string]interface{}{"harness": w.Harness, "input_tape": compactTape(w.Tape), "reached": w.Reaches, "observed": w.Observed})
				}
			}
		}
	}
	for _, v := range r.verdicts {
		switch v.Class {
		case "violation":
			fmt.Printf("VIOLATION property=%s replay=%s\n", r.prop, v.Replay)
			fmt.Printf("  harness=%s %s %q %s native=%s\n", v.Harness, v.Kind, v.Label, firstLine(v.Msg), v.Native)
		case "known":
			fmt.Printf("KNOWN-FINDING: %s\n", r.knownText[v.KnownKey])
		case "spurious":
			fmt.Printf("INCONCLUSIVE property=%s harness=%s %s %q: solver model did not reproduce natively (%s) replay=%s\n",
				r.prop, v.Harness, v.Kind, v.Label, v.Native, v.Replay)
		}
	}
	for _, n := range r.notes {
		fmt.Println(n)
	}
	for _, m := range r.mismatches {
		fmt.Println("ENGINE-MISMATCH", m)
	}
	for _, m := range r.vacuous {
		fmt.Println("VACUOUS", m)
	}
	if violation {
		return 1
	}
	if len(r.vacuous) > 0 || len(r.mismatches) > 0 {
		return 2
	}
	if r.unsupported > 0 {
		fmt.Printf("UNDECIDED property=%s: %d path(s) ended in an operation the engine cannot execute; the property is not decided for them\n", r.prop, r.unsupported)
		return 2
	}
	return 0
}

func firstLine(s string) string {
	if k := strings.IndexByte(s, '\n'); k >= 0 {
		s = s[:k]
	}
	if len(s) > 200 {
		s = s[:200] + "..."
	}
	return s
}

func eqStrs(a, b []string) bool {
	if len(a) != len(b) {
		return false
	}
	for k := range a {
		if a[k] != b[k] {
			return false
		}
	}
	return true
}

// eqObs compares observations; entries the engine could not render ("?") are skipped.
func eqObs(native, engine []string) bool {
	if len(native) != len(engine) {
		return false
	}
	for k := range native {
		if strings.Contains(engine[k], "?") {
			continue
		}
		if native[k] != engine[k] {
			return false
		}
	}
	return true
}

func compactTape(t []interp.TapeEnt) string {
	var parts []string
	for _, e := range t {
		parts = append(parts, e.T+":"+e.V)
	}
	s := strings.Join(parts, " ")
	if len(s) > 400 {
		s = s[:400] + "..."
	}
	return s
}

func (r *report) print(hs []*harnessInfo, stats []*interp.HarnessStats, solv *sym.Stats, loadS, exploreS float64) {
	fmt.Printf("== %s tier=%s: %d harnesses, load %.1fs, total %.1fs, solver: %d queries (%d sat, %d unsat, %d unknown, %d errors) %.1fs\n",
		r.prop, r.tier, len(hs), loadS, exploreS, solv.Queries, solv.Sat, solv.Unsat, solv.Unknown, solv.Errors, solv.Seconds)
	for k, h := range hs {
		st := stats[k]
		var ps []string
		for s, n := range st.Paths {
			ps = append(ps, fmt.Sprintf("%s=%d", s, n))
		}
		sort.Strings(ps)
		fmt.Printf("  %-40s paths{%s} decisions=%d steps=%d depth=%d findings=%d wall=%.1fs\n", h.fn.Name(), strings.Join(ps, " "), st.Decisions, st.Steps, st.MaxDepth, len(st.Findings), st.WallSecs)
		for _, mp := range []map[string]int{st.ForkSites, st.MergeFails} {
			type kv struct {
				k string
				n int
			}
			var kvs []kv
			for k, n := range mp {
				kvs = append(kvs, kv{k, n})
			}
			sort.Slice(kvs, func(a, b int) bool { return kvs[a].n > kvs[b].n })
			for j, e := range kvs {
				if j >= 12 {
					break
				}
				fmt.Printf("      %6d %s\n", e.n, e.k)
			}
			if len(kvs) > 0 {
				fmt.Println("      --")
			}
		}
	}
	fmt.Printf("   traces validated against the native build: %d/%d; inconclusive items: %d\n", r.validated, r.witnessTried, r.inconclusive)
}

var boundsRe = regexp.MustCompile(`(?m)^//\s*bounds:\s*(.*)$`)
var assumeRe = regexp.MustCompile(`(?m)^//\s*assumes:\s*(.*)$`)

func docLines(h *harnessInfo, prefix string) []string {
	decl, ok := h.fn.Syntax().(*ast.FuncDecl)
	if !ok || decl.Doc == nil {
		return nil
	}
	var out []string
	for _, c := range decl.Doc.List {
		txt := strings.TrimSpace(strings.TrimPrefix(c.Text, "//"))
		if strings.HasPrefix(txt, prefix) {
			out = append(out, strings.TrimSpace(strings.TrimPrefix(txt, prefix)))
		}
	}
	return out
}

func (r *report) writeEvidence(hs []*harnessInfo, stats []*interp.HarnessStats, solv *sym.Stats, loadS, wall float64) error {
	states, transitions := 0, int64(0)
	var harnesses []map[string]interface{}
	funcs := map[string]int64{}
	assumptions := map[string]bool{}
	for k, h := range hs {
		st := stats[k]
		n := 0
		for s, c := range st.Paths {
			if !strings.HasPrefix(s, "skipped") {
				n += c
			}
		}
		states += n
		transitions += st.Decisions
		var fl []string
		for f, c := range st.Funcs {
			if strings.Contains(f, "goalign") && !strings.Contains(f, "zz_verif") && !strings.HasSuffix(f, ".init") {
				funcs[f] += c
				fl = append(fl, f)
			}
		}
		sort.Strings(fl)
		for _, a := range docLines(h, "assumes:") {
			assumptions[a] = true
		}
		harnesses = append(harnesses, map[string]interface{}{
			"name": h.fn.Name(), "package": h.fn.Pkg.Pkg.Path(), "paths_by_status": st.Paths,
			"decisions": st.Decisions, "ssa_instructions_executed": st.Steps, "max_decision_depth": st.MaxDepth,
			"reach_labels": st.Reaches, "bounds": docLines(h, "bounds:"), "outside": docLines(h, "outside:"),
			"functions_encoded": fl, "inconclusive": st.Msgs,
			"options": map[string]interface{}{"merge": h.cfg.Merge, "map_order": h.cfg.MapOrder, "schedules": h.cfg.Schedules, "race_detection": h.cfg.RaceDetect, "query_timeout_ms": h.cfg.QueryTimeout, "max_steps": h.cfg.MaxSteps},
		})
	}
	var fnames []string
	for f := range funcs {
		fnames = append(fnames, f)
	}
	sort.Strings(fnames)
	samples := r.samples
	for _, v := range r.verdicts {
		samples = append(samples, v)
	}
	if len(samples) == 0 {
		samples = append(samples, map[string]interface{}{"note": "no witness sampled (replay disabled)"})
	}
	nviol := 0
	for _, v := range r.verdicts {
		if v.Class == "violation" {
			nviol++
		}
	}
	var as []string
	for a := range assumptions {
		as = append(as, a)
	}
	sort.Strings(as)
	as = append(as,
		"bounded claim: holds for every value of the symbolic inputs within the bounds listed per harness; nothing is claimed outside them",
		"stubs/models of DESIGN.md §2.6 (bytealg, math UFs with axioms, math/rand as nondeterministic contract stubs, fmt/log as native call-outs or no-ops, sync primitives as engine objects)",
		"floating point abstracted to extended reals (no rounding, no signed zero)",
		"solver: "+*solverBin+" (z3-new = z3 5.1.0) via one persistent pipe per worker, unknown answers retried in a fresh process; (error lines and unknown are reported as inconclusive, never as success; every violation is replayed against the native build before it is reported; repo revision "+repoRevision()+")")
	ev := map[string]interface{}{
		"property_id": r.prop,
		"tier":        r.tier,
		"seed":        seedFromEnv(),
		"level":       "model_checking",
		"wall_s":      wall,
		"violations":  nviol,
		"assumptions": as,
		"coverage": map[string]interface{}{
			"states":                        states,
			"transitions":                   transitions,
			"traces_validated_against_impl": r.validated,
			"samples":                       samples,
			"exhaustive":                    r.inconclusive == 0,
			"explanation":                   "states = execution paths of the harnesses explored to their end by the symbolic executor (each path covers every input satisfying its path condition); transitions = path decisions (branch outcomes, shape choices, map orders, schedules); each assertion on each path is one solver query over all inputs of that path",
			"harnesses":                     harnesses,
			"functions_encoded":             fnames,
			"solver": map[string]interface{}{
				"queries": solv.Queries, "sat": solv.Sat, "unsat": solv.Unsat, "unknown": solv.Unknown,
				"errors": solv.Errors, "seconds": solv.Seconds, "restarts": solv.Restarts,
			},
			"load_and_ssa_build_s": loadS,
			"inconclusive_items":   r.inconclusive,
			"vacuity_failures":     r.vacuous,
			"engine_mismatches":    r.mismatches,
			"verdicts":             r.verdicts,
			"notes":                r.notes,
		},
	}
	data, err := json.MarshalIndent(ev, "", " ")
	if err != nil {
		return err
	}
	edir := filepath.Join(*verifDir, "evidence")
	os.MkdirAll(edir, 0o755)
	return os.WriteFile(filepath.Join(edir, r.prop+".json"), data, 0o644)
}

func seedFromEnv() int {
	var n int
	fmt.Sscanf(os.Getenv("VERIF_SEED"), "%d", &n)
	return n
}
