// gosym: bounded symbolic execution of goalign harnesses (see /verif/DESIGN.md).
package main

import (
	"bufio"
	"encoding/json"
	"flag"
	"fmt"
	"go/ast"
	"os"
	"os/exec"
	"path/filepath"
	"regexp"
	"runtime"
	"runtime/pprof"
	"sort"
	"strconv"
	"strings"
	"sync"
	"time"

	"golang.org/x/tools/go/ssa"

	"gosym/interp"
	"gosym/sym"
)

var (
	repo       = flag.String("repo", "/repo", "repository working tree")
	verifDir   = flag.String("verif", "/verif", "verification directory")
	prop       = flag.String("prop", "", "property id (C01..)")
	tier       = flag.String("tier", "quick", "quick | thorough")
	workers    = flag.Int("workers", 0, "worker count (default: min(16, NumCPU))")
	filter     = flag.String("filter", "", "only harnesses whose name contains this")
	debug      = flag.Bool("debug", false, "crash on engine errors")
	trace      = flag.Bool("trace", false, "trace")
	noReplay   = flag.Bool("noreplay", false, "skip native replay")
	deadline   = flag.Duration("deadline", 0, "wall-clock limit for the exploration")
	solverBin  = flag.String("solver", "z3-new", "solver binary (z3-new = z3 5.1.0; z3 = 4.8.12; cvc5)")
	maxPaths   = flag.Int("maxpaths", 0, "per-harness path cap (debugging)")
	noEvidence = flag.Bool("noevidence", false, "do not write the evidence file")
	crossCheck = flag.Bool("crosscheck", false, "re-run deciding queries of findings on z3-new and cvc5")
	listOnly   = flag.Bool("list", false, "list harnesses and exit")
	cpuProf    = flag.String("cpuprofile", "", "write a CPU profile")
	progress   = flag.Duration("progress", 0, "print exploration progress to stderr at this interval")
	replayFile = flag.String("replayfile", "", "replay a counterexample file natively and report the outcome")
)

const modPath = "github.com/evolbioinfo/goalign"

type harnessInfo struct {
	fn      *ssa.Function
	cfg     interp.Config
	pkgDir  string // relative to repo
	tierMin string
	known   string // for K_ harnesses: the known-finding key
	expect  string // "" or "violation" (reachability twins)
}

func main() {
	flag.Parse()
	sym.SlowDump = os.Getenv("GOSYM_SLOWDUMP")
	if *workers == 0 {
		*workers = runtime.NumCPU()
		if *workers > 16 {
			*workers = 16
		}
	}
	if mp := os.Getenv("GOSYM_MEMPROF"); mp != "" {
		go func() {
			for {
				time.Sleep(60 * time.Second)
				if f, err := os.Create(mp); err == nil {
					pprof.WriteHeapProfile(f)
					f.Close()
				}
			}
		}()
	}
	if *cpuProf != "" {
		f, _ := os.Create(*cpuProf)
		pprof.StartCPUProfile(f)
		rc := run()
		pprof.StopCPUProfile()
		f.Close()
		os.Exit(rc)
	}
	os.Exit(run())
}

// buildOverlay maps every harness file under <verif>/harness/<pkg path>/ into the repo tree and
// adds a copy of the runtime file to each harness package.
func buildOverlay(forReplay bool) (map[string][]byte, map[string][]string, error) {
	hroot := filepath.Join(*verifDir, "harness")
	overlay := map[string][]byte{}
	pkgFiles := map[string][]string{} // pkg dir (relative) -> harness file names
	rt, err := os.ReadFile(filepath.Join(hroot, "_rt", "zz_verif_rt.go"))
	if err != nil {
		return nil, nil, err
	}
	rtTest, err := os.ReadFile(filepath.Join(hroot, "_rt", "zz_verif_replay_test.go"))
	if err != nil {
		return nil, nil, err
	}
	err = filepath.Walk(hroot, func(path string, info os.FileInfo, err error) error {
		if err != nil {
			return err
		}
		if info.IsDir() {
			if strings.HasPrefix(info.Name(), "_") {
				return filepath.SkipDir
			}
			return nil
		}
		if !strings.HasSuffix(path, ".go") {
			return nil
		}
		rel, _ := filepath.Rel(hroot, path)
		// only the files of this property (zz_verif_cNN*.go) and shared helpers (zz_verif_common*.go)
		base := filepath.Base(rel)
		if *prop != "" && !strings.HasPrefix(base, "zz_verif_common") && !strings.HasPrefix(base, "zz_verif_"+strings.ToLower(*prop)) {
			return nil
		}
		data, err := os.ReadFile(path)
		if err != nil {
			return err
		}
		overlay[filepath.Join(*repo, rel)] = data
		d := filepath.Dir(rel)
		pkgFiles[d] = append(pkgFiles[d], filepath.Base(rel))
		return nil
	})
	if err != nil {
		return nil, nil, err
	}
	pkgRe := regexp.MustCompile(`(?m)^package\s+(\w+)`)
	for d, files := range pkgFiles {
		src := overlay[filepath.Join(*repo, d, files[0])]
		m := pkgRe.FindSubmatch(src)
		if m == nil {
			return nil, nil, fmt.Errorf("no package clause in %s/%s", d, files[0])
		}
		name := string(m[1])
		overlay[filepath.Join(*repo, d, "zz_verif_rt.go")] = []byte(strings.Replace(string(rt), "PKGNAME", name, 1))
		if forReplay {
			overlay[filepath.Join(*repo, d, "zz_verif_replay_test.go")] = []byte(strings.Replace(string(rtTest), "PKGNAME", name, 1))
			// registry of harness functions
			var sb strings.Builder
			sb.WriteString("//go:build verif\n\npackage " + name + "\n\nvar vfHarnesses = map[string]func(){\n")
			fnRe := regexp.MustCompile(`(?m)^func ((?:H|K|W|Conf)_\w+)\(\)`)
			for _, f := range files {
				for _, mm := range fnRe.FindAllSubmatch(overlay[filepath.Join(*repo, d, f)], -1) {
					fmt.Fprintf(&sb, "\t%q: %s,\n", mm[1], mm[1])
				}
			}
			sb.WriteString("}\n")
			overlay[filepath.Join(*repo, d, "zz_verif_registry_test.go")] = []byte(sb.String())
		}
	}
	return overlay, pkgFiles, nil
}

// parseDirectives reads "//verif: k=v ..." lines from the doc comment of a harness.
func parseDirectives(fn *ssa.Function, h *harnessInfo) {
	decl, ok := fn.Syntax().(*ast.FuncDecl)
	if !ok || decl.Doc == nil {
		return
	}
	for _, c := range decl.Doc.List {
		txt := strings.TrimSpace(strings.TrimPrefix(c.Text, "//"))
		if !strings.HasPrefix(txt, "verif:") {
			continue
		}
		for _, kv := range strings.Fields(strings.TrimPrefix(txt, "verif:")) {
			k, v, _ := strings.Cut(kv, "=")
			switch k {
			case "merge":
				h.cfg.Merge = v != "0"
			case "maporder":
				h.cfg.MapOrder = v != "0"
			case "sched":
				h.cfg.Schedules = v != "0"
			case "race":
				h.cfg.RaceDetect = v != "0"
			case "maxrand":
				n, _ := strconv.Atoi(v)
				h.cfg.MaxRand = n
			case "preempt":
				n, _ := strconv.Atoi(v)
				h.cfg.MaxPreempt = n
			case "maxsteps":
				n, _ := strconv.ParseInt(v, 10, 64)
				h.cfg.MaxSteps = n
			case "timeout":
				n, _ := strconv.Atoi(v)
				h.cfg.QueryTimeout = n
			case "allowexit":
				h.cfg.AllowExit = true
			case "tier":
				h.tierMin = v
			case "known":
				h.known = v
			case "expect":
				h.expect = v
			}
		}
	}
}

type knownEntry struct {
	kind string // known | fixed
	prop string
	key  string
	text string
}

func readKnown() []knownEntry {
	var out []knownEntry
	f, err := os.Open(filepath.Join(*verifDir, "known_findings.txt"))
	if err != nil {
		return nil
	}
	defer f.Close()
	sc := bufio.NewScanner(f)
	for sc.Scan() {
		line := strings.TrimSpace(sc.Text())
		if line == "" || strings.HasPrefix(line, "#") {
			continue
		}
		kind, rest, ok := strings.Cut(line, ":")
		if !ok {
			continue
		}
		e := knownEntry{kind: strings.TrimSpace(kind), text: strings.TrimSpace(rest)}
		for _, f := range strings.Fields(rest) {
			if strings.HasPrefix(f, "property=") {
				e.prop = strings.TrimPrefix(f, "property=")
			}
			if strings.HasPrefix(f, "key=") {
				e.key = strings.TrimPrefix(f, "key=")
			}
		}
		out = append(out, e)
	}
	return out
}

// replayOnly rebuilds the native replay binary of the harness named in the file and runs it.
func replayOnly() int {
	data, err := os.ReadFile(*replayFile)
	if err != nil {
		fmt.Fprintln(os.Stderr, err)
		return 2
	}
	var rf struct {
		Harness string `json:"harness"`
		Kind    string `json:"kind"`
		Label   string `json:"label"`
	}
	if err := json.Unmarshal(data, &rf); err != nil {
		fmt.Fprintln(os.Stderr, err)
		return 2
	}
	overlay, _, err := buildOverlay(false)
	if err != nil {
		fmt.Fprintln(os.Stderr, err)
		return 2
	}
	dir := ""
	usesSched := false
	for virt, src := range overlay {
		if strings.Contains(string(src), "func "+rf.Harness+"()") {
			dir, _ = filepath.Rel(*repo, filepath.Dir(virt))
			usesSched = strings.Contains(string(src), "race=1")
		}
	}
	if dir == "" {
		fmt.Fprintf(os.Stderr, "harness %s not found for property %s\n", rf.Harness, *prop)
		return 2
	}
	rb := &replayBuilder{bins: map[string]string{}, errs: map[string]string{}, race: usesSched}
	rb.build(map[string]bool{dir: true})
	var knownKeys []string
	for _, e := range readKnown() {
		if e.kind == "known" && e.key != "" {
			knownKeys = append(knownKeys, e.key)
		}
	}
	if rf.Kind == "support" {
		reached, n, err := rb.sample(dir, *replayFile, knownKeys, rf.Label)
		if err != nil {
			fmt.Fprintln(os.Stderr, "replay:", err)
			return 2
		}
		fmt.Printf("replay of %s (support %q): outcome produced in %d native runs with the real generator: %v\n", rf.Harness, rf.Label, n, reached)
		if reached {
			return 0
		}
		fmt.Printf("VIOLATION property=%s replay=%s\n", *prop, *replayFile)
		return 1
	}
	res, err := rb.run(dir, *replayFile, knownKeys, 10*time.Second)
	if err != nil {
		fmt.Fprintln(os.Stderr, "replay:", err)
		return 2
	}
	fmt.Printf("replay of %s (%s %q): native outcome=%s label=%q race=%v msg=%s\n", rf.Harness, rf.Kind, rf.Label, res.Outcome, res.Label, res.Race, firstLine(res.Msg))
	if res.Outcome == "ok" && !res.Race {
		return 0
	}
	fmt.Printf("VIOLATION property=%s replay=%s\n", *prop, *replayFile)
	return 1
}

func run() int {
	if *replayFile != "" {
		return replayOnly()
	}
	t0 := time.Now()
	if *prop == "" && !*listOnly {
		fmt.Fprintln(os.Stderr, "usage: gosym -prop C06 [-tier quick|thorough]")
		return 2
	}
	overlay, pkgFiles, err := buildOverlay(false)
	if err != nil {
		fmt.Fprintln(os.Stderr, "overlay:", err)
		return 2
	}
	// packages that contain harnesses for this property
	needle := "_" + *prop + "_"
	var patterns []string
	for d, files := range pkgFiles {
		hit := false
		for _, f := range files {
			if strings.Contains(string(overlay[filepath.Join(*repo, d, f)]), needle) {
				hit = true
			}
		}
		if hit || *listOnly {
			patterns = append(patterns, "./"+d)
		}
	}
	sort.Strings(patterns)
	if len(patterns) == 0 {
		fmt.Fprintf(os.Stderr, "no harness package for %s\n", *prop)
		return 2
	}
	prog, err := interp.Load(*repo, overlay, patterns, "verif,noasm")
	if err != nil {
		fmt.Fprintln(os.Stderr, "cannot load/type-check the tree with the harnesses:", err)
		return 2
	}
	known := map[string]bool{}
	knownText := map[string]string{}
	for _, e := range readKnown() {
		if e.kind == "known" && e.key != "" {
			known[e.key] = true
			knownText[e.key] = e.text
		}
	}
	var hs []*harnessInfo
	for _, pfx := range []string{"H" + needle, "K" + needle, "W" + needle} {
		for _, fn := range prog.Harnesses(pfx) {
			if *filter != "" && !strings.Contains(fn.Name(), *filter) {
				continue
			}
			h := &harnessInfo{fn: fn}
			h.cfg = interp.Config{Merge: true, MaxSteps: 20_000_000, QueryTimeout: 20000, Known: known, MaxPreempt: 2}
			if *tier == "thorough" {
				h.cfg.QueryTimeout = 120000
				h.cfg.MaxSteps = 200_000_000
			}
			parseDirectives(fn, h)
			h.pkgDir = strings.TrimPrefix(strings.TrimPrefix(fn.Pkg.Pkg.Path(), modPath), "/")
			if h.tierMin == "thorough" && *tier != "thorough" {
				continue
			}
			if strings.HasPrefix(fn.Name(), "K_") && !known[h.known] {
				continue // witness harness of a finding that is not (or no longer) listed
			}
			hs = append(hs, h)
		}
	}
	if *listOnly {
		for _, h := range hs {
			fmt.Println(h.fn.String())
		}
		return 0
	}
	if len(hs) == 0 {
		fmt.Fprintf(os.Stderr, "no harness functions for %s\n", *prop)
		return 2
	}
	fns := make([]*ssa.Function, len(hs))
	cfgs := make([]interp.Config, len(hs))
	for k, h := range hs {
		fns[k] = h.fn
		cfgs[k] = h.cfg
	}
	// build the native replay binaries in the background
	var replayWG sync.WaitGroup
	rb := &replayBuilder{bins: map[string]string{}, errs: map[string]string{}}
	for _, h := range hs {
		if h.cfg.RaceDetect {
			rb.race = true // the native replay then runs under Go's race detector
		}
	}
	if !*noReplay {
		dirs := map[string]bool{}
		for _, h := range hs {
			dirs[h.pkgDir] = true
		}
		replayWG.Add(1)
		go func() {
			defer replayWG.Done()
			rb.build(dirs)
		}()
	}
	opt := interp.ExploreOpts{Workers: *workers, SolverBin: *solverBin, MaxPaths: *maxPaths, Debug: *debug, Trace: *trace, WitnessPer: 3, Progress: *progress}
	if *deadline > 0 {
		opt.Deadline = time.Now().Add(*deadline)
	}
	stats, solv, err := prog.Explore(fns, cfgs, opt)
	if err != nil {
		fmt.Fprintln(os.Stderr, "explore:", err)
		return 2
	}
	exploreSecs := time.Since(t0).Seconds()
	replayWG.Wait()

	rep := &report{prop: *prop, tier: *tier, knownText: knownText}
	rc := rep.evaluate(hs, stats, rb)
	rep.print(hs, stats, solv, prog.LoadSecs, exploreSecs)
	if !*noEvidence {
		if err := rep.writeEvidence(hs, stats, solv, prog.LoadSecs, time.Since(t0).Seconds()); err != nil {
			fmt.Fprintln(os.Stderr, "evidence:", err)
			return 2
		}
	}
	return rc
}

// ---------------------------------------------------------------- native replay

type replayBuilder struct {
	race bool
	mu   sync.Mutex
	bins map[string]string
	errs map[string]string
}

func (rb *replayBuilder) build(dirs map[string]bool) {
	overlay, _, err := buildOverlay(true)
	if err != nil {
		for d := range dirs {
			rb.errs[d] = err.Error()
		}
		return
	}
	bdir := filepath.Join(*verifDir, "build", "replay-"+*prop+os.Getenv("GOSYM_BUILD_SUFFIX"))
	os.MkdirAll(bdir, 0o755)
	repl := map[string]string{}
	for virt, data := range overlay {
		rel, _ := filepath.Rel(*repo, virt)
		real := filepath.Join(bdir, "src", rel)
		os.MkdirAll(filepath.Dir(real), 0o755)
		os.WriteFile(real, data, 0o644)
		repl[virt] = real
	}
	// harnesses of randomised operations: replay math/rand outcomes from the tape
	usesRand := false
	for _, data := range overlay {
		if strings.Contains(string(data), "verif-uses-rand") {
			usesRand = true
		}
	}
	if usesRand {
		goroot := strings.TrimSpace(goEnv("GOROOT"))
		randSrc := filepath.Join(goroot, "src", "math", "rand", "rand.go")
		if src, err := os.ReadFile(randSrc); err == nil {
			out := filepath.Join(bdir, "rand_overlay.go.txt")
			os.WriteFile(out, []byte(patchRand(string(src))), 0o644)
			repl[randSrc] = out
		}
		// per-package hook installation
		for virt := range overlay {
			if strings.HasSuffix(virt, "zz_verif_rt.go") {
				d := filepath.Dir(virt)
				name := pkgNameOf(string(overlay[virt]))
				hook := "//go:build verif\n\npackage " + name + "\n\nimport \"math/rand\"\n\nfunc init() { rand.VerifNext = vfNextRand }\n"
				rel, _ := filepath.Rel(*repo, filepath.Join(d, "zz_verif_randhook_test.go"))
				real := filepath.Join(bdir, "src", rel)
				os.MkdirAll(filepath.Dir(real), 0o755)
				os.WriteFile(real, []byte(hook), 0o644)
				repl[filepath.Join(d, "zz_verif_randhook_test.go")] = real
			}
		}
	}
	ov, _ := json.Marshal(map[string]interface{}{"Replace": repl})
	ovPath := filepath.Join(bdir, "overlay.json")
	os.WriteFile(ovPath, ov, 0o644)
	var wg sync.WaitGroup
	for d := range dirs {
		wg.Add(1)
		go func(d string) {
			defer wg.Done()
			bin := filepath.Join(bdir, strings.ReplaceAll(d, "/", "_")+".test")
			args := []string{"test", "-c", "-tags", "verif", "-vet=off", "-overlay", ovPath, "-o", bin}
			if rb.race {
				args = append(args, "-race")
			}
			cmd := exec.Command("go", append(args, "./"+d)...)
			cmd.Dir = *repo
			cmd.Env = append(os.Environ(), "GOFLAGS=-mod=mod", "GOPROXY=off", "GOSUMDB=off", "GOTOOLCHAIN=local")
			out, err := cmd.CombinedOutput()
			rb.mu.Lock()
			if err != nil {
				rb.errs[d] = string(out)
			} else {
				rb.bins[d] = bin
			}
			rb.mu.Unlock()
		}(d)
	}
	wg.Wait()
}

func goEnv(k string) string {
	out, _ := exec.Command("go", "env", k).Output()
	return string(out)
}

func pkgNameOf(src string) string {
	m := regexp.MustCompile(`(?m)^package\s+(\w+)`).FindStringSubmatch(src)
	if m == nil {
		return "main"
	}
	return m[1]
}

// patchRand rewrites the top-level functions of math/rand so that they first consult a hook
// (installed by the replay driver) which returns recorded outcomes.
func patchRand(src string) string {
	src = strings.Replace(src, "func Int63() int64 { return globalRand().Int63() }",
		"// VerifNext, when set, supplies recorded outcomes (kind \"rand.int\" or \"rand.f64\").\nvar VerifNext func(kind string, n int64) (int64, float64, bool)\n\nfunc Int63() int64 {\n\tif VerifNext != nil {\n\t\tif v, _, ok := VerifNext(\"rand.int\", 0); ok {\n\t\t\treturn v\n\t\t}\n\t}\n\treturn globalRand().Int63()\n}", 1)
	intHook := func(name, sig, conv, call string) {
		bound := "0"
		if strings.HasSuffix(call, "(n)") {
			bound = "int64(n)"
		}
		old := "func " + name + sig + " { return globalRand()." + call + " }"
		neu := "func " + name + sig + " {\n\tif VerifNext != nil {\n\t\tif v, _, ok := VerifNext(\"rand.int\", " + bound + "); ok {\n\t\t\treturn " + conv + "(v)\n\t\t}\n\t}\n\treturn globalRand()." + call + "\n}"
		src = strings.Replace(src, old, neu, 1)
	}
	intHook("Int", "() int", "int", "Int()")
	intHook("Int63n", "(n int64) int64", "int64", "Int63n(n)")
	intHook("Int31n", "(n int32) int32", "int32", "Int31n(n)")
	intHook("Intn", "(n int) int", "int", "Intn(n)")
	fHook := func(name string) {
		old := "func " + name + "() float64 { return globalRand()." + name + "() }"
		neu := "func " + name + "() float64 {\n\tif VerifNext != nil {\n\t\tif _, f, ok := VerifNext(\"rand.f64\", 0); ok {\n\t\t\treturn f\n\t\t}\n\t}\n\treturn globalRand()." + name + "()\n}"
		src = strings.Replace(src, old, neu, 1)
	}
	fHook("Float64")
	fHook("NormFloat64")
	fHook("ExpFloat64")
	src = strings.Replace(src, "func Perm(n int) []int { return globalRand().Perm(n) }",
		"func Perm(n int) []int {\n\tif VerifNext != nil {\n\t\tm := make([]int, n)\n\t\tgood := true\n\t\tfor i := range m {\n\t\t\tv, _, ok := VerifNext(\"rand.int\", int64(n))\n\t\t\tif !ok {\n\t\t\t\tgood = false\n\t\t\t\tbreak\n\t\t\t}\n\t\t\tm[i] = int(v)\n\t\t}\n\t\tif good {\n\t\t\treturn m\n\t\t}\n\t}\n\treturn globalRand().Perm(n)\n}", 1)
	src = strings.Replace(src, "func Shuffle(n int, swap func(i, j int)) { globalRand().Shuffle(n, swap) }",
		"func Shuffle(n int, swap func(i, j int)) {\n\tif VerifNext != nil {\n\t\tfor i := n - 1; i > 0; i-- {\n\t\t\tv, _, ok := VerifNext(\"rand.int\", int64(i+1))\n\t\t\tif !ok {\n\t\t\t\tpanic(\"verif: rand tape exhausted in Shuffle\")\n\t\t\t}\n\t\t\tswap(i, int(v))\n\t\t}\n\t\treturn\n\t}\n\tglobalRand().Shuffle(n, swap)\n}", 1)
	return src
}

type replayResult struct {
	Outcome  string   `json:"outcome"`
	Label    string   `json:"label"`
	Msg      string   `json:"msg"`
	Reached  []string `json:"reached"`
	Observed []string `json:"observed"`
	ExitCode int      `json:"-"`
	Race     bool     `json:"-"`
	Raw      string   `json:"-"`
}

// sample runs the harness natively many times with the real random generator and random
// values for the harness's own nondet inputs, and reports whether the label was ever reached
// (confirmation of a support violation; the deciding step is the exhaustive exploration).
func (rb *replayBuilder) sample(dir, replayFile string, knownKeys []string, label string) (bool, int, error) {
	const runs = 20000
	os.Setenv("VERIF_REPEAT", strconv.Itoa(runs))
	defer os.Unsetenv("VERIF_REPEAT")
	res, err := rb.run(dir, replayFile, knownKeys, 100*time.Second)
	if err != nil {
		return false, 0, err
	}
	if res.Outcome != "ok" {
		return false, 0, fmt.Errorf("native sampling ended with %s %s %s", res.Outcome, res.Label, firstLine(res.Msg))
	}
	done := runs
	fmt.Sscanf(res.Msg, "%d runs", &done)
	for _, l := range res.Reached {
		if l == label {
			return true, done, nil
		}
	}
	return false, done, nil
}

func (rb *replayBuilder) run(dir, replayFile string, knownKeys []string, watchdog time.Duration) (*replayResult, error) {
	bin, ok := rb.bins[dir]
	if !ok {
		return nil, fmt.Errorf("no replay binary for %s: %s", dir, rb.errs[dir])
	}
	// run under an address-space limit so that an out-of-memory class failure shows up as a
	// fatal error of the test binary instead of exhausting the machine
	limit := "ulimit -v 6000000; "
	if rb.race {
		limit = "" // the race detector reserves a huge shadow address space
	}
	cmd := exec.Command("bash", "-c", limit+"exec \"$0\" \"$@\"", bin, "-test.run", "^TestVerifReplay$", "-test.v", "-test.timeout", "120s")
	cmd.Dir = filepath.Join(*repo, dir)
	if _, err := os.Stat(cmd.Dir); err != nil {
		cmd.Dir = *repo
	}
	cmd.Env = append(os.Environ(), "VERIF_REPLAY="+replayFile, "VERIF_KNOWN="+strings.Join(knownKeys, ","),
		"VERIF_WATCHDOG="+watchdog.String())
	out, err := cmd.CombinedOutput()
	res := &replayResult{Raw: string(out)}
	res.Race = strings.Contains(string(out), "WARNING: DATA RACE")
	for _, l := range strings.Split(string(out), "\n") {
		if strings.HasPrefix(l, "VERIF-RESULT ") {
			if e := json.Unmarshal([]byte(strings.TrimPrefix(l, "VERIF-RESULT ")), res); e == nil {
				return res, nil
			}
		}
	}
	if err != nil {
		if ee, ok := err.(*exec.ExitError); ok {
			res.Outcome = "exit"
			res.ExitCode = ee.ExitCode()
			if strings.Contains(string(out), "fatal error:") || strings.Contains(string(out), "panic:") {
				res.Outcome = "panic"
				res.Msg = lastLines(string(out), 6)
			}
			return res, nil
		}
		return nil, err
	}
	res.Outcome = "noresult"
	return res, nil
}

func lastLines(s string, n int) string {
	ls := strings.Split(strings.TrimSpace(s), "\n")
	if len(ls) > n {
		ls = ls[:n]
	}
	return strings.Join(ls, " | ")
}

var _ = sym.Sat
