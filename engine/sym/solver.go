package sym

import (
	"bufio"
	"fmt"
	"io"
	"math/big"
	"os"
	"os/exec"
	"strings"
	"time"
)

// Val is a model value.
type Val struct {
	Sort Sort
	U    uint64
	R    *big.Rat // nil when the solver printed something we cannot parse exactly (algebraic numbers)
	Raw  string
}

func (v Val) String() string {
	switch v.Sort.K {
	case KBool:
		return fmt.Sprint(v.U == 1)
	case KBV:
		return fmt.Sprintf("%d", v.U)
	}
	if v.R != nil {
		return v.R.RatString()
	}
	return v.Raw
}

// SlowDump, when set, is a path prefix for dumps of queries slower than 0.5 s.
var SlowDump string
var slowN int

type Result int

const (
	Unsat Result = iota
	Sat
	Unknown
)

func (r Result) String() string { return [...]string{"unsat", "sat", "unknown"}[r] }

type Stats struct {
	Queries  int
	Sat      int
	Unsat    int
	Unknown  int
	Errors   int
	Seconds  float64
	Restarts int
	FreshRetries int
}

// Solver is a persistent SMT solver process fed through a pipe.
type Solver struct {
	ctx     *Ctx
	bin     string
	args    []string
	cvc5    bool
	cmd     *exec.Cmd
	in      io.WriteCloser
	out     *bufio.Reader
	emitted map[int]bool // term IDs whose define-fun has been sent
	nvars   int
	nfuns   int
	St      Stats
	LastErr string
	// Axioms are assertions added at base level (after their definitions) - used for UF axioms.
	pendingAxioms []*Term
	axioms        []*Term
	LogQueries    bool
	LastScript    string
	NoTactic      bool
	NoFresh       bool
	pureMemo      map[int]bool
}

func NewSolver(ctx *Ctx, bin string) (*Solver, error) {
	s := &Solver{ctx: ctx, bin: bin}
	switch {
	case strings.Contains(bin, "cvc5"):
		s.cvc5 = true
		s.args = []string{"--incremental", "--produce-models", "--lang=smt2"}
	default:
		s.args = []string{"-in", "-smt2"}
	}
	if err := s.start(); err != nil {
		return nil, err
	}
	return s, nil
}

func (s *Solver) start() error {
	s.cmd = exec.Command(s.bin, s.args...)
	in, err := s.cmd.StdinPipe()
	if err != nil {
		return err
	}
	out, err := s.cmd.StdoutPipe()
	if err != nil {
		return err
	}
	s.cmd.Stderr = s.cmd.Stdout
	if err := s.cmd.Start(); err != nil {
		return err
	}
	s.in = in
	s.out = bufio.NewReaderSize(out, 1<<20)
	s.emitted = map[int]bool{}
	s.nvars, s.nfuns = 0, 0
	if s.cvc5 {
		fmt.Fprintln(s.in, "(set-logic ALL)")
	}
	fmt.Fprintln(s.in, "(set-option :produce-models true)")
	if !s.cvc5 && os.Getenv("GOSYM_S2T") != "" {
		// fall back to the tactic-based solver when the incremental core is slow
		fmt.Fprintf(s.in, "(set-option :combined_solver.solver2_timeout %s)\n", os.Getenv("GOSYM_S2T"))
	}
	// re-assert axioms after restart
	s.pendingAxioms = append(append([]*Term{}, s.axioms...), s.pendingAxioms...)
	s.axioms = nil
	return nil
}

func (s *Solver) Close() {
	if s.cmd != nil {
		s.in.Close()
		s.cmd.Process.Kill()
		s.cmd.Wait()
		s.cmd = nil
	}
}

func (s *Solver) restart() {
	s.Close()
	s.St.Restarts++
	if err := s.start(); err != nil {
		panic(err)
	}
}

// AddAxiom registers a base-level assertion (holds for every later query).
func (s *Solver) AddAxiom(t *Term) { s.pendingAxioms = append(s.pendingAxioms, t) }

func (s *Solver) emitDecls(sb *strings.Builder) {
	for ; s.nvars < len(s.ctx.Vars); s.nvars++ {
		v := s.ctx.Vars[s.nvars]
		fmt.Fprintf(sb, "(declare-const %s %s)\n", v.Name, v.Sort)
	}
	for ; s.nfuns < len(s.ctx.FunsOrder); s.nfuns++ {
		d := s.ctx.Funs[s.ctx.FunsOrder[s.nfuns]]
		sb.WriteString("(declare-fun " + d.Name + " (")
		for i, a := range d.Args {
			if i > 0 {
				sb.WriteString(" ")
			}
			sb.WriteString(a.String())
		}
		sb.WriteString(") " + d.Ret.String() + ")\n")
	}
}

func (s *Solver) emitDefs(sb *strings.Builder, t *Term, done map[int]bool) {
	if t.Op == OConst || t.Op == OVar || done[t.ID] {
		return
	}
	// iterative post-order to survive deep ite chains
	type fr struct {
		t *Term
		i int
	}
	st := []fr{{t, 0}}
	for len(st) > 0 {
		top := &st[len(st)-1]
		if top.i < len(top.t.Args) {
			a := top.t.Args[top.i]
			top.i++
			if a.Op != OConst && a.Op != OVar && !done[a.ID] {
				st = append(st, fr{a, 0})
			}
			continue
		}
		if !done[top.t.ID] {
			done[top.t.ID] = true
			fmt.Fprintf(sb, "(define-fun %s () %s %s)\n", top.t.ref(), top.t.Sort, top.t.body(s.cvc5))
		}
		st = st[:len(st)-1]
	}
}

// markDone marks every non-leaf node reachable from t as already defined.
func (s *Solver) markDone(t *Term, done map[int]bool) {
	if t.Op == OConst || t.Op == OVar || done[t.ID] {
		return
	}
	done[t.ID] = true
	for _, a := range t.Args {
		s.markDone(a, done)
	}
}

// Script renders a standalone SMT-LIB2 script for the given assertions.
func (c *Ctx) Script(assertions []*Term, axioms []*Term, cvc5 bool) string {
	var sb strings.Builder
	if cvc5 {
		sb.WriteString("(set-logic ALL)\n")
	}
	for _, v := range c.Vars {
		fmt.Fprintf(&sb, "(declare-const %s %s)\n", v.Name, v.Sort)
	}
	for _, n := range c.FunsOrder {
		d := c.Funs[n]
		sb.WriteString("(declare-fun " + d.Name + " (")
		for i, a := range d.Args {
			if i > 0 {
				sb.WriteString(" ")
			}
			sb.WriteString(a.String())
		}
		sb.WriteString(") " + d.Ret.String() + ")\n")
	}
	tmp := &Solver{ctx: c, cvc5: cvc5}
	done := map[int]bool{}
	for _, a := range axioms {
		tmp.emitDefs(&sb, a, done)
		fmt.Fprintf(&sb, "(assert %s)\n", a.ref())
	}
	for _, a := range assertions {
		tmp.emitDefs(&sb, a, done)
		fmt.Fprintf(&sb, "(assert %s)\n", a.ref())
	}
	sb.WriteString("(check-sat)\n")
	return sb.String()
}

func (s *Solver) Axioms() []*Term { return append(append([]*Term{}, s.axioms...), s.pendingAxioms...) }

const endMark = "@@END@@"

// Check decides the conjunction of assertions. If values is non-empty and the result is Sat,
// the values of those terms in the model are returned (same order).
func (s *Solver) Check(assertions []*Term, timeoutMs int, values []*Term) (Result, []Val) {
	for _, a := range assertions {
		if a.IsFalse() {
			return Unsat, nil
		}
	}
	if len(s.emitted) > 400000 {
		s.restart()
	}
	var sb strings.Builder
	s.emitDecls(&sb)
	for _, a := range s.pendingAxioms {
		s.emitDefs(&sb, a, s.emitted)
		fmt.Fprintf(&sb, "(assert %s)\n", a.ref())
	}
	s.axioms = append(s.axioms, s.pendingAxioms...)
	s.pendingAxioms = nil
	for _, a := range assertions {
		s.emitDefs(&sb, a, s.emitted)
	}
	for _, v := range values {
		s.emitDefs(&sb, v, s.emitted)
	}
	sb.WriteString("(push 1)\n")
	for _, a := range assertions {
		if a.IsTrue() {
			continue
		}
		fmt.Fprintf(&sb, "(assert %s)\n", a.ref())
	}
	if !s.cvc5 {
		fmt.Fprintf(&sb, "(set-option :timeout %d)\n", timeoutMs)
	}
	// pure Bool/BitVec queries go straight to bit-blasting: z3's incremental core is an order
	// of magnitude slower on wide sums of ite terms (measured); on unknown the query is repeated
	// with the default strategy below
	pure := !s.cvc5 && !s.NoTactic
	if pure {
		for _, a := range assertions {
			if !s.pureBV(a) {
				pure = false
				break
			}
		}
		for _, a := range s.axioms {
			if !s.pureBV(a) {
				pure = false
				break
			}
		}
	}
	if pure {
		sb.WriteString("(check-sat-using (then simplify bit-blast sat))\n")
	} else {
		sb.WriteString("(check-sat)\n")
	}
	fmt.Fprintf(&sb, "(echo \"%s1\")\n", endMark)
	t0 := time.Now()
	if _, err := io.WriteString(s.in, sb.String()); err != nil {
		s.St.Errors++
		s.LastErr = err.Error()
		s.restart()
		return Unknown, nil
	}
	lines, ok := s.readUntil(endMark + "1")
	res := Unknown
	if !ok {
		s.St.Errors++
		s.restart()
		s.St.Queries++
		s.St.Unknown++
		s.St.Seconds += time.Since(t0).Seconds()
		return Unknown, nil
	}
	hasErr := false
	for _, l := range lines {
		switch strings.TrimSpace(l) {
		case "sat":
			res = Sat
		case "unsat":
			res = Unsat
		case "unknown":
			res = Unknown
		default:
			if strings.Contains(l, "(error") {
				hasErr = true
				s.LastErr = l
			}
		}
	}
	if hasErr {
		s.St.Errors++
		res = Unknown
	}
	if pure && res == Unknown && !hasErr {
		// retry with the default strategy
		fmt.Fprintf(s.in, "(check-sat)\n(echo \"%s3\")\n", endMark)
		if l3, ok := s.readUntil(endMark + "3"); ok {
			for _, l := range l3 {
				switch strings.TrimSpace(l) {
				case "sat":
					res = Sat
				case "unsat":
					res = Unsat
				}
			}
		}
	}
	// last resort for unknown: a fresh solver process with the full tactic pipeline (the
	// incremental core of a long-lived process is sometimes much weaker; measured)
	if res == Unknown && !hasErr && !s.cvc5 && !s.NoFresh {
		script := s.ctx.Script(assertions, s.axioms, false)
		if len(values) > 0 {
			var q strings.Builder
			q.WriteString("(get-value (")
			for _, v := range values {
				// values may be non-leaf terms: they are defined in the script only if reachable
				// from the assertions, so define them as well
				q.WriteString(v.ref() + " ")
			}
			q.WriteString("))\n")
			var defs strings.Builder
			done := map[int]bool{}
			tmp := &Solver{ctx: s.ctx}
			for _, a := range assertions {
				tmp.markDone(a, done)
			}
			for _, a := range s.axioms {
				tmp.markDone(a, done)
			}
			for _, v := range values {
				tmp.emitDefs(&defs, v, done)
			}
			script = strings.Replace(script, "(check-sat)\n", defs.String()+"(check-sat)\n"+q.String(), 1)
		}
		fr, out := OneShot(s.bin, script, timeoutMs/1000+2)
		s.St.FreshRetries++
		if fr == Unsat {
			res = Unsat
		} else if fr == Sat {
			if len(values) == 0 {
				res = Sat
			} else if k := strings.Index(out, "(("); k >= 0 {
				if fv := parseValues(out[k:], values); fv != nil {
					res = Sat
					s.St.Queries++
					s.St.Seconds += time.Since(t0).Seconds()
					s.St.Sat++
					if s.cmd != nil {
						io.WriteString(s.in, "(pop 1)\n")
					}
					return res, fv
				}
			}
		}
	}
	var vals []Val
	if res == Sat && len(values) > 0 {
		var q strings.Builder
		q.WriteString("(get-value (")
		for _, v := range values {
			q.WriteString(v.ref() + " ")
		}
		q.WriteString("))\n")
		fmt.Fprintf(&q, "(echo \"%s2\")\n", endMark)
		io.WriteString(s.in, q.String())
		vl, ok := s.readUntil(endMark + "2")
		if ok {
			vals = parseValues(strings.Join(vl, "\n"), values)
			if vals == nil {
				s.LastErr = "cannot parse model: " + strings.Join(vl, " ")
				s.St.Errors++
				res = Unknown
			}
		} else {
			s.St.Errors++
			s.restart()
			res = Unknown
		}
	}
	if s.cmd != nil {
		io.WriteString(s.in, "(pop 1)\n")
	}
	s.St.Queries++
	s.St.Seconds += time.Since(t0).Seconds()
	if SlowDump != "" && time.Since(t0).Seconds() > 0.5 {
		slowN++
		os.WriteFile(fmt.Sprintf("%s-%d-%d.smt2", SlowDump, os.Getpid(), slowN), []byte(fmt.Sprintf("; %.2fs %s\n", time.Since(t0).Seconds(), res)+s.ctx.Script(assertions, s.axioms, false)), 0o644)
	}
	switch res {
	case Sat:
		s.St.Sat++
	case Unsat:
		s.St.Unsat++
	default:
		s.St.Unknown++
	}
	return res, vals
}

// pureBV reports whether t contains only Bool and BitVec operations.
func (s *Solver) pureBV(t *Term) bool {
	if s.pureMemo == nil {
		s.pureMemo = map[int]bool{}
	}
	if v, ok := s.pureMemo[t.ID]; ok {
		return v
	}
	ok := t.Sort.K == KBool || t.Sort.K == KBV
	switch t.Op {
	case OApp, OBv2Nat, OInt2Bv, OToReal, OToInt:
		ok = false
	}
	if ok {
		for _, a := range t.Args {
			if !s.pureBV(a) {
				ok = false
				break
			}
		}
	}
	s.pureMemo[t.ID] = ok
	return ok
}

func (s *Solver) readUntil(mark string) ([]string, bool) {
	var lines []string
	for {
		l, err := s.out.ReadString('\n')
		if strings.Contains(l, mark) {
			return lines, true
		}
		if err != nil {
			s.LastErr = "solver pipe: " + err.Error() + " " + strings.Join(lines, " ")
			return lines, false
		}
		lines = append(lines, strings.TrimRight(l, "\n"))
	}
}

// ---------------------------------------------------------------- s-expression parsing of models

type sx struct {
	atom string
	list []*sx
}

func parseSx(s string) []*sx {
	var stack [][]*sx
	cur := []*sx{}
	i := 0
	for i < len(s) {
		ch := s[i]
		switch {
		case ch == '(':
			stack = append(stack, cur)
			cur = []*sx{}
			i++
		case ch == ')':
			if len(stack) == 0 {
				return nil
			}
			l := &sx{list: cur}
			if l.list == nil {
				l.list = []*sx{}
			}
			cur = append(stack[len(stack)-1], l)
			stack = stack[:len(stack)-1]
			i++
		case ch == ' ' || ch == '\n' || ch == '\t' || ch == '\r':
			i++
		case ch == '|':
			j := strings.IndexByte(s[i+1:], '|')
			if j < 0 {
				return nil
			}
			cur = append(cur, &sx{atom: s[i+1 : i+1+j]})
			i += j + 2
		default:
			j := i
			for j < len(s) && !strings.ContainsRune("() \n\t\r", rune(s[j])) {
				j++
			}
			cur = append(cur, &sx{atom: s[i:j]})
			i = j
		}
	}
	if len(stack) != 0 {
		return nil
	}
	return cur
}

func sxRat(e *sx) *big.Rat {
	if e.list == nil {
		a := strings.TrimSuffix(e.atom, "?")
		r, ok := new(big.Rat).SetString(a)
		if !ok {
			return nil
		}
		return r
	}
	if len(e.list) == 0 || e.list[0].list != nil {
		return nil
	}
	switch e.list[0].atom {
	case "-":
		if len(e.list) == 2 {
			r := sxRat(e.list[1])
			if r == nil {
				return nil
			}
			return r.Neg(r)
		}
		if len(e.list) == 3 {
			a, b := sxRat(e.list[1]), sxRat(e.list[2])
			if a == nil || b == nil {
				return nil
			}
			return a.Sub(a, b)
		}
	case "/":
		if len(e.list) == 3 {
			a, b := sxRat(e.list[1]), sxRat(e.list[2])
			if a == nil || b == nil || b.Sign() == 0 {
				return nil
			}
			return a.Quo(a, b)
		}
	case "to_real":
		if len(e.list) == 2 {
			return sxRat(e.list[1])
		}
	}
	return nil
}

func parseValues(out string, terms []*Term) []Val {
	top := parseSx(out)
	if len(top) != 1 || top[0].list == nil || len(top[0].list) != len(terms) {
		return nil
	}
	vals := make([]Val, len(terms))
	for i, pair := range top[0].list {
		if pair.list == nil || len(pair.list) != 2 {
			return nil
		}
		v := pair.list[1]
		t := terms[i]
		val := Val{Sort: t.Sort}
		switch t.Sort.K {
		case KBool:
			if v.atom == "true" {
				val.U = 1
			} else if v.atom != "false" {
				return nil
			}
		case KBV:
			switch {
			case strings.HasPrefix(v.atom, "#x"):
				n, ok := new(big.Int).SetString(v.atom[2:], 16)
				if !ok {
					return nil
				}
				val.U = n.Uint64()
			case strings.HasPrefix(v.atom, "#b"):
				n, ok := new(big.Int).SetString(v.atom[2:], 2)
				if !ok {
					return nil
				}
				val.U = n.Uint64()
			case v.list != nil && len(v.list) == 3 && strings.HasPrefix(v.list[1].atom, "bv"):
				n, ok := new(big.Int).SetString(v.list[1].atom[2:], 10)
				if !ok {
					return nil
				}
				val.U = n.Uint64()
			default:
				return nil
			}
		default:
			val.R = sxRat(v)
			if val.R == nil {
				val.Raw = fmt.Sprint(v)
			}
		}
		vals[i] = val
	}
	return vals
}

// OneShot runs a standalone script on another solver binary and returns its verdict.
func OneShot(bin string, script string, timeoutS int) (Result, string) {
	var args []string
	switch {
	case strings.Contains(bin, "cvc5"):
		args = []string{"--lang=smt2", fmt.Sprintf("--tlimit=%d", timeoutS*1000)}
	default:
		args = []string{"-in", "-smt2", fmt.Sprintf("-T:%d", timeoutS)}
	}
	cmd := exec.Command(bin, args...)
	cmd.Stdin = strings.NewReader(script)
	out, _ := cmd.CombinedOutput()
	o := string(out)
	// the verdict is the first sat/unsat line; an error line BEFORE it makes the run inconclusive
	// (an error after "unsat" is just the get-value that has no model to read)
	for _, l := range strings.Split(o, "\n") {
		t := strings.TrimSpace(l)
		switch {
		case t == "sat":
			return Sat, o
		case t == "unsat":
			return Unsat, o
		case strings.Contains(t, "(error"):
			return Unknown, o
		}
	}
	return Unknown, o
}
