// Package sym implements hash-consed SMT terms (bit-vectors, booleans, reals,
// integers, uninterpreted functions), a light simplifier with Go semantics for
// constant folding, and an SMT-LIB2 printer.
package sym

import (
	"fmt"
	"math/big"
	"strings"
)

type Kind uint8

const (
	KBool Kind = iota
	KBV
	KReal
	KInt
)

type Sort struct {
	K Kind
	W uint16 // bit-vector width
}

var (
	Bool = Sort{K: KBool}
	Real = Sort{K: KReal}
	Int  = Sort{K: KInt}
)

func BV(w int) Sort { return Sort{K: KBV, W: uint16(w)} }

func (s Sort) String() string {
	switch s.K {
	case KBool:
		return "Bool"
	case KBV:
		return fmt.Sprintf("(_ BitVec %d)", s.W)
	case KReal:
		return "Real"
	case KInt:
		return "Int"
	}
	return "?"
}

type Op uint8

const (
	OConst Op = iota
	OVar
	ONot
	OAnd
	OOr
	OEq
	OIte
	OBvAdd
	OBvSub
	OBvMul
	OBvUDiv
	OBvSDiv
	OBvURem
	OBvSRem
	OBvAnd
	OBvOr
	OBvXor
	OBvNot
	OBvNeg
	OBvShl
	OBvLShr
	OBvAShr
	OBvUlt
	OBvUle
	OBvSlt
	OBvSle
	OZExt
	OSExt
	OExtract // P0 = hi, P1 = lo
	OAdd     // real/int
	OSub
	OMul
	ODiv // real division
	ONeg
	OLt
	OLe
	OToReal  // int -> real
	OToInt   // real -> int (floor)
	OBv2Nat  // bv -> int (unsigned)
	OInt2Bv  // int -> bv (P0 = width)
	OApp     // uninterpreted function application (Name)
	OIntDiv  // integer division (SMT div)
	OIntMod  // integer mod
)

var opNames = map[Op]string{
	ONot: "not", OAnd: "and", OOr: "or", OEq: "=", OIte: "ite",
	OBvAdd: "bvadd", OBvSub: "bvsub", OBvMul: "bvmul", OBvUDiv: "bvudiv", OBvSDiv: "bvsdiv",
	OBvURem: "bvurem", OBvSRem: "bvsrem", OBvAnd: "bvand", OBvOr: "bvor", OBvXor: "bvxor",
	OBvNot: "bvnot", OBvNeg: "bvneg", OBvShl: "bvshl", OBvLShr: "bvlshr", OBvAShr: "bvashr",
	OBvUlt: "bvult", OBvUle: "bvule", OBvSlt: "bvslt", OBvSle: "bvsle",
	OAdd: "+", OSub: "-", OMul: "*", ODiv: "/", ONeg: "-", OLt: "<", OLe: "<=",
	OToReal: "to_real", OToInt: "to_int", OBv2Nat: "bv2nat", OIntDiv: "div", OIntMod: "mod",
}

// Term is an immutable hash-consed term. Terms from different Ctx must not be mixed.
type Term struct {
	Op     Op
	Sort   Sort
	Args   []*Term
	U      uint64   // BV constant value (masked) / bool const (0/1)
	R      *big.Rat // real or int constant
	Name   string   // variable / function name
	P0, P1 int      // extract hi/lo, ext amount, int2bv width
	ID     int
}

type Ctx struct {
	table map[string]*Term
	next  int
	Vars  []*Term            // declared variables in creation order
	Funs  map[string]FunDecl // uninterpreted functions
	FunsOrder []string
	true_, false_ *Term
	rangeMemo  map[int][3]uint64
	structMemo map[int]*Term
}

type FunDecl struct {
	Name string
	Args []Sort
	Ret  Sort
}

func NewCtx() *Ctx {
	c := &Ctx{table: map[string]*Term{}, Funs: map[string]FunDecl{}}
	c.true_ = c.mk(&Term{Op: OConst, Sort: Bool, U: 1})
	c.false_ = c.mk(&Term{Op: OConst, Sort: Bool, U: 0})
	return c
}

func (c *Ctx) key(t *Term) string {
	var sb strings.Builder
	fmt.Fprintf(&sb, "%d|%d.%d|%d|%d|%d|%s|", t.Op, t.Sort.K, t.Sort.W, t.U, t.P0, t.P1, t.Name)
	if t.R != nil {
		sb.WriteString(t.R.String())
	}
	for _, a := range t.Args {
		fmt.Fprintf(&sb, ",%d", a.ID)
	}
	return sb.String()
}

func (c *Ctx) mk(t *Term) *Term {
	k := c.key(t)
	if e, ok := c.table[k]; ok {
		return e
	}
	c.next++
	t.ID = c.next
	c.table[k] = t
	return t
}

func (c *Ctx) NumTerms() int { return c.next }

func mask(w uint16) uint64 {
	if w >= 64 {
		return ^uint64(0)
	}
	return (uint64(1) << w) - 1
}

func (c *Ctx) True() *Term  { return c.true_ }
func (c *Ctx) False() *Term { return c.false_ }
func (c *Ctx) BoolC(b bool) *Term {
	if b {
		return c.true_
	}
	return c.false_
}
func (c *Ctx) BVC(w int, v uint64) *Term {
	return c.mk(&Term{Op: OConst, Sort: BV(w), U: v & mask(uint16(w))})
}
func (c *Ctx) RealC(r *big.Rat) *Term {
	return c.mk(&Term{Op: OConst, Sort: Real, R: new(big.Rat).Set(r)})
}
func (c *Ctx) RealI(n int64) *Term { return c.RealC(new(big.Rat).SetInt64(n)) }
func (c *Ctx) RealF(f float64) *Term {
	r := new(big.Rat)
	if r.SetFloat64(f) == nil {
		panic("RealF: non-finite")
	}
	return c.RealC(r)
}
func (c *Ctx) IntC(n int64) *Term {
	return c.mk(&Term{Op: OConst, Sort: Int, R: new(big.Rat).SetInt64(n)})
}

// Var creates (or returns) the variable with the given name.
func (c *Ctx) Var(name string, s Sort) *Term {
	n := c.next
	t := c.mk(&Term{Op: OVar, Sort: s, Name: name})
	if c.next != n {
		c.Vars = append(c.Vars, t)
	}
	return t
}

func (t *Term) IsConst() bool { return t.Op == OConst }
func (t *Term) IsTrue() bool  { return t.Op == OConst && t.Sort.K == KBool && t.U == 1 }
func (t *Term) IsFalse() bool { return t.Op == OConst && t.Sort.K == KBool && t.U == 0 }

// SignedVal returns the constant's value as a sign-extended int64.
func (t *Term) SignedVal() int64 {
	w := t.Sort.W
	if w >= 64 {
		return int64(t.U)
	}
	if t.U&(uint64(1)<<(w-1)) != 0 {
		return int64(t.U | ^mask(w))
	}
	return int64(t.U)
}

// ---------------------------------------------------------------- booleans

func (c *Ctx) Not(a *Term) *Term {
	if a.IsConst() {
		return c.BoolC(a.U == 0)
	}
	if a.Op == ONot {
		return a.Args[0]
	}
	return c.mk(&Term{Op: ONot, Sort: Bool, Args: []*Term{a}})
}

func (c *Ctx) And(as ...*Term) *Term {
	var out []*Term
	seen := map[int]bool{}
	for _, a := range as {
		if a.IsFalse() {
			return c.false_
		}
		if a.IsTrue() || seen[a.ID] {
			continue
		}
		if a.Op == OAnd {
			for _, b := range a.Args {
				if !seen[b.ID] {
					seen[b.ID] = true
					out = append(out, b)
				}
			}
			continue
		}
		seen[a.ID] = true
		out = append(out, a)
	}
	for _, a := range out {
		if a.Op == ONot && seen[a.Args[0].ID] {
			return c.false_
		}
	}
	switch len(out) {
	case 0:
		return c.true_
	case 1:
		return out[0]
	}
	return c.mk(&Term{Op: OAnd, Sort: Bool, Args: out})
}

func (c *Ctx) Or(as ...*Term) *Term {
	var out []*Term
	seen := map[int]bool{}
	for _, a := range as {
		if a.IsTrue() {
			return c.true_
		}
		if a.IsFalse() || seen[a.ID] {
			continue
		}
		if a.Op == OOr {
			for _, b := range a.Args {
				if !seen[b.ID] {
					seen[b.ID] = true
					out = append(out, b)
				}
			}
			continue
		}
		seen[a.ID] = true
		out = append(out, a)
	}
	for _, a := range out {
		if a.Op == ONot && seen[a.Args[0].ID] {
			return c.true_
		}
	}
	switch len(out) {
	case 0:
		return c.false_
	case 1:
		return out[0]
	}
	return c.mk(&Term{Op: OOr, Sort: Bool, Args: out})
}

func (c *Ctx) Implies(a, b *Term) *Term { return c.Or(c.Not(a), b) }

func (c *Ctx) Eq(a, b *Term) *Term {
	if a == b {
		return c.true_
	}
	if a.Sort != b.Sort {
		panic(fmt.Sprintf("Eq: sort mismatch %v %v", a.Sort, b.Sort))
	}
	if a.IsConst() && b.IsConst() {
		switch a.Sort.K {
		case KBool, KBV:
			return c.BoolC(a.U == b.U)
		default:
			return c.BoolC(a.R.Cmp(b.R) == 0)
		}
	}
	if a.Sort.K == KBool {
		if a.IsConst() {
			a, b = b, a
		}
		if b.IsTrue() {
			return a
		}
		if b.IsFalse() {
			return c.Not(a)
		}
	}
	// ite(c, k1, k2) == k  with constants
	if b.IsConst() && a.Op == OIte {
		a, b = b, a
	}
	if a.IsConst() && b.Op == OIte && (b.Args[1].IsConst() || b.Args[2].IsConst()) {
		return c.Ite(b.Args[0], c.Eq(a, b.Args[1]), c.Eq(a, b.Args[2]))
	}
	if a.Sort.K == KBV && a.IsConst() {
		// zero_extend(x) == const  -> x == const' or false
		if b.Op == OZExt {
			inner := b.Args[0]
			if a.U&^mask(inner.Sort.W) != 0 {
				return c.false_
			}
			return c.Eq(c.BVC(int(inner.Sort.W), a.U), inner)
		}
	}
	if b.Sort.K == KBV && b.IsConst() && a.Op == OZExt {
		return c.Eq(b, a)
	}
	if a.ID > b.ID {
		a, b = b, a
	}
	return c.mk(&Term{Op: OEq, Sort: Bool, Args: []*Term{a, b}})
}

func (c *Ctx) Ite(cond, a, b *Term) *Term {
	if cond.IsTrue() {
		return a
	}
	if cond.IsFalse() {
		return b
	}
	if a == b {
		return a
	}
	if a.Sort != b.Sort {
		panic(fmt.Sprintf("Ite: sort mismatch %v %v", a.Sort, b.Sort))
	}
	if a.Sort.K == KBool {
		if a.IsTrue() && b.IsFalse() {
			return cond
		}
		if a.IsFalse() && b.IsTrue() {
			return c.Not(cond)
		}
		if a.IsTrue() {
			return c.Or(cond, b)
		}
		if a.IsFalse() {
			return c.And(c.Not(cond), b)
		}
		if b.IsTrue() {
			return c.Or(c.Not(cond), a)
		}
		if b.IsFalse() {
			return c.And(cond, a)
		}
	}
	if cond.Op == ONot {
		return c.Ite(cond.Args[0], b, a)
	}
	// ite(c, x, ite(c, y, z)) = ite(c, x, z)
	if b.Op == OIte && b.Args[0] == cond {
		return c.Ite(cond, a, b.Args[2])
	}
	if a.Op == OIte && a.Args[0] == cond {
		return c.Ite(cond, a.Args[1], b)
	}
	return c.mk(&Term{Op: OIte, Sort: a.Sort, Args: []*Term{cond, a, b}})
}

// ---------------------------------------------------------------- bit-vectors

func (c *Ctx) bvBin(op Op, a, b *Term) *Term {
	if a.Sort != b.Sort || a.Sort.K != KBV {
		panic(fmt.Sprintf("bvBin %s: sort mismatch %v %v", opNames[op], a.Sort, b.Sort))
	}
	w := a.Sort.W
	m := mask(w)
	if a.IsConst() && b.IsConst() {
		x, y := a.U, b.U
		sx, sy := a.SignedVal(), b.SignedVal()
		var r uint64
		ok := true
		switch op {
		case OBvAdd:
			r = x + y
		case OBvSub:
			r = x - y
		case OBvMul:
			r = x * y
		case OBvUDiv:
			if y == 0 {
				r = m
			} else {
				r = x / y
			}
		case OBvURem:
			if y == 0 {
				r = x
			} else {
				r = x % y
			}
		case OBvSDiv:
			if sy == 0 {
				ok = false
			} else if sy == -1 {
				r = uint64(-sx)
			} else {
				r = uint64(sx / sy)
			}
		case OBvSRem:
			if sy == 0 {
				ok = false
			} else if sy == -1 {
				r = 0
			} else {
				r = uint64(sx % sy)
			}
		case OBvAnd:
			r = x & y
		case OBvOr:
			r = x | y
		case OBvXor:
			r = x ^ y
		case OBvShl:
			if y >= uint64(w) {
				r = 0
			} else {
				r = x << y
			}
		case OBvLShr:
			if y >= uint64(w) {
				r = 0
			} else {
				r = x >> y
			}
		case OBvAShr:
			if y >= uint64(w) {
				if sx < 0 {
					r = m
				} else {
					r = 0
				}
			} else {
				r = uint64(sx >> y)
			}
		default:
			ok = false
		}
		if ok {
			return c.BVC(int(w), r)
		}
	}
	// identities
	switch op {
	case OBvAdd, OBvOr, OBvXor:
		if a.IsConst() && a.U == 0 {
			return b
		}
		if b.IsConst() && b.U == 0 {
			return a
		}
	case OBvSub, OBvShl, OBvLShr, OBvAShr:
		if b.IsConst() && b.U == 0 {
			return a
		}
		if op == OBvSub && a == b {
			return c.BVC(int(w), 0)
		}
	case OBvMul:
		if a.IsConst() && a.U == 1 {
			return b
		}
		if b.IsConst() && b.U == 1 {
			return a
		}
		if (a.IsConst() && a.U == 0) || (b.IsConst() && b.U == 0) {
			return c.BVC(int(w), 0)
		}
	case OBvAnd:
		if a == b {
			return a
		}
		if (a.IsConst() && a.U == 0) || (b.IsConst() && b.U == 0) {
			return c.BVC(int(w), 0)
		}
		if a.IsConst() && a.U == m {
			return b
		}
		if b.IsConst() && b.U == m {
			return a
		}
	}
	if op == OBvOr && a == b {
		return a
	}
	// push through ite when one side constant and ite arms constant (keeps table lookups small)
	if b.IsConst() && a.Op == OIte && a.Args[1].IsConst() && a.Args[2].IsConst() {
		return c.Ite(a.Args[0], c.bvBin(op, a.Args[1], b), c.bvBin(op, a.Args[2], b))
	}
	if a.IsConst() && b.Op == OIte && b.Args[1].IsConst() && b.Args[2].IsConst() {
		return c.Ite(b.Args[0], c.bvBin(op, a, b.Args[1]), c.bvBin(op, a, b.Args[2]))
	}
	switch op {
	case OBvAdd, OBvMul, OBvAnd, OBvOr, OBvXor:
		if a.ID > b.ID {
			a, b = b, a
		}
	}
	return c.mk(&Term{Op: op, Sort: a.Sort, Args: []*Term{a, b}})
}

func (c *Ctx) BvAdd(a, b *Term) *Term  { return c.bvBin(OBvAdd, a, b) }
func (c *Ctx) BvSub(a, b *Term) *Term  { return c.bvBin(OBvSub, a, b) }
func (c *Ctx) BvMul(a, b *Term) *Term  { return c.bvBin(OBvMul, a, b) }
func (c *Ctx) BvUDiv(a, b *Term) *Term { return c.bvBin(OBvUDiv, a, b) }
func (c *Ctx) BvSDiv(a, b *Term) *Term { return c.bvBin(OBvSDiv, a, b) }
func (c *Ctx) BvURem(a, b *Term) *Term { return c.bvBin(OBvURem, a, b) }
func (c *Ctx) BvSRem(a, b *Term) *Term { return c.bvBin(OBvSRem, a, b) }
func (c *Ctx) BvAnd(a, b *Term) *Term  { return c.bvBin(OBvAnd, a, b) }
func (c *Ctx) BvOr(a, b *Term) *Term   { return c.bvBin(OBvOr, a, b) }
func (c *Ctx) BvXor(a, b *Term) *Term  { return c.bvBin(OBvXor, a, b) }
func (c *Ctx) BvShl(a, b *Term) *Term  { return c.bvBin(OBvShl, a, b) }
func (c *Ctx) BvLShr(a, b *Term) *Term { return c.bvBin(OBvLShr, a, b) }
func (c *Ctx) BvAShr(a, b *Term) *Term { return c.bvBin(OBvAShr, a, b) }

func (c *Ctx) BvNot(a *Term) *Term {
	if a.IsConst() {
		return c.BVC(int(a.Sort.W), ^a.U)
	}
	return c.mk(&Term{Op: OBvNot, Sort: a.Sort, Args: []*Term{a}})
}
func (c *Ctx) BvNeg(a *Term) *Term {
	if a.IsConst() {
		return c.BVC(int(a.Sort.W), -a.U)
	}
	return c.mk(&Term{Op: OBvNeg, Sort: a.Sort, Args: []*Term{a}})
}

func (c *Ctx) bvCmp(op Op, a, b *Term) *Term {
	if a.Sort != b.Sort || a.Sort.K != KBV {
		panic(fmt.Sprintf("bvCmp: sort mismatch %v %v", a.Sort, b.Sort))
	}
	if a.IsConst() && b.IsConst() {
		switch op {
		case OBvUlt:
			return c.BoolC(a.U < b.U)
		case OBvUle:
			return c.BoolC(a.U <= b.U)
		case OBvSlt:
			return c.BoolC(a.SignedVal() < b.SignedVal())
		case OBvSle:
			return c.BoolC(a.SignedVal() <= b.SignedVal())
		}
	}
	if a == b {
		return c.BoolC(op == OBvUle || op == OBvSle)
	}
	// comparisons of zero-extended values against constants reduce to the narrow width
	if a.Op == OZExt && b.IsConst() {
		in := a.Args[0]
		iw := in.Sort.W
		if b.SignedVal() >= 0 || op == OBvUlt || op == OBvUle {
			if b.U > mask(iw) {
				// a <= mask < b
				if b.SignedVal() < 0 && (op == OBvSlt || op == OBvSle) {
					return c.false_
				}
				return c.true_
			}
			nop := op
			if op == OBvSlt {
				nop = OBvUlt
			} else if op == OBvSle {
				nop = OBvUle
			}
			return c.bvCmp(nop, in, c.BVC(int(iw), b.U))
		}
		return c.false_ // non-negative vs negative signed
	}
	if b.Op == OZExt && a.IsConst() {
		in := b.Args[0]
		iw := in.Sort.W
		if a.SignedVal() >= 0 || op == OBvUlt || op == OBvUle {
			if a.U > mask(iw) {
				if a.SignedVal() < 0 && (op == OBvSlt || op == OBvSle) {
					return c.true_
				}
				return c.false_
			}
			nop := op
			if op == OBvSlt {
				nop = OBvUlt
			} else if op == OBvSle {
				nop = OBvUle
			}
			return c.bvCmp(nop, c.BVC(int(iw), a.U), in)
		}
		return c.true_
	}
	if b.IsConst() && a.Op == OIte && a.Args[1].IsConst() && a.Args[2].IsConst() {
		return c.Ite(a.Args[0], c.bvCmp(op, a.Args[1], b), c.bvCmp(op, a.Args[2], b))
	}
	if a.IsConst() && b.Op == OIte && b.Args[1].IsConst() && b.Args[2].IsConst() {
		return c.Ite(b.Args[0], c.bvCmp(op, a, b.Args[1]), c.bvCmp(op, a, b.Args[2]))
	}
	return c.mk(&Term{Op: op, Sort: Bool, Args: []*Term{a, b}})
}

func (c *Ctx) BvUlt(a, b *Term) *Term { return c.bvCmp(OBvUlt, a, b) }
func (c *Ctx) BvUle(a, b *Term) *Term { return c.bvCmp(OBvUle, a, b) }
func (c *Ctx) BvSlt(a, b *Term) *Term { return c.bvCmp(OBvSlt, a, b) }
func (c *Ctx) BvSle(a, b *Term) *Term { return c.bvCmp(OBvSle, a, b) }

func (c *Ctx) ZExt(a *Term, w int) *Term {
	aw := int(a.Sort.W)
	if w == aw {
		return a
	}
	if w < aw {
		return c.Extract(a, w-1, 0)
	}
	if a.IsConst() {
		return c.BVC(w, a.U)
	}
	if a.Op == OZExt {
		return c.ZExt(a.Args[0], w)
	}
	if a.Op == OIte && a.Args[1].IsConst() && a.Args[2].IsConst() {
		return c.Ite(a.Args[0], c.ZExt(a.Args[1], w), c.ZExt(a.Args[2], w))
	}
	return c.mk(&Term{Op: OZExt, Sort: BV(w), Args: []*Term{a}, P0: w - aw})
}

func (c *Ctx) SExt(a *Term, w int) *Term {
	aw := int(a.Sort.W)
	if w == aw {
		return a
	}
	if w < aw {
		return c.Extract(a, w-1, 0)
	}
	if a.IsConst() {
		return c.BVC(w, uint64(a.SignedVal()))
	}
	if a.Op == OZExt { // sign bit known zero
		return c.ZExt(a.Args[0], w)
	}
	if a.Op == OIte && a.Args[1].IsConst() && a.Args[2].IsConst() {
		return c.Ite(a.Args[0], c.SExt(a.Args[1], w), c.SExt(a.Args[2], w))
	}
	return c.mk(&Term{Op: OSExt, Sort: BV(w), Args: []*Term{a}, P0: w - aw})
}

func (c *Ctx) Extract(a *Term, hi, lo int) *Term {
	aw := int(a.Sort.W)
	if lo == 0 && hi == aw-1 {
		return a
	}
	w := hi - lo + 1
	if a.IsConst() {
		return c.BVC(w, a.U>>uint(lo))
	}
	if (a.Op == OZExt || a.Op == OSExt) && lo == 0 {
		in := a.Args[0]
		if w <= int(in.Sort.W) {
			return c.Extract(in, hi, 0)
		}
		if a.Op == OZExt {
			return c.ZExt(in, w)
		}
		return c.SExt(in, w)
	}
	if a.Op == OIte && a.Args[1].IsConst() && a.Args[2].IsConst() {
		return c.Ite(a.Args[0], c.Extract(a.Args[1], hi, lo), c.Extract(a.Args[2], hi, lo))
	}
	return c.mk(&Term{Op: OExtract, Sort: BV(w), Args: []*Term{a}, P0: hi, P1: lo})
}

// ---------------------------------------------------------------- reals / ints

func (c *Ctx) constR(s Sort, r *big.Rat) *Term {
	return c.mk(&Term{Op: OConst, Sort: s, R: r})
}

func (c *Ctx) arith(op Op, a, b *Term) *Term {
	if a.Sort != b.Sort || (a.Sort.K != KReal && a.Sort.K != KInt) {
		panic(fmt.Sprintf("arith %s: sort mismatch %v %v", opNames[op], a.Sort, b.Sort))
	}
	if a.IsConst() && b.IsConst() {
		r := new(big.Rat)
		switch op {
		case OAdd:
			return c.constR(a.Sort, r.Add(a.R, b.R))
		case OSub:
			return c.constR(a.Sort, r.Sub(a.R, b.R))
		case OMul:
			return c.constR(a.Sort, r.Mul(a.R, b.R))
		case ODiv:
			if b.R.Sign() != 0 {
				return c.constR(a.Sort, r.Quo(a.R, b.R))
			}
		}
	}
	switch op {
	case OAdd:
		if a.IsConst() && a.R.Sign() == 0 {
			return b
		}
		if b.IsConst() && b.R.Sign() == 0 {
			return a
		}
	case OSub:
		if b.IsConst() && b.R.Sign() == 0 {
			return a
		}
		if a == b {
			return c.constR(a.Sort, new(big.Rat))
		}
	case OMul:
		one := big.NewRat(1, 1)
		if a.IsConst() {
			if a.R.Sign() == 0 {
				return a
			}
			if a.R.Cmp(one) == 0 {
				return b
			}
		}
		if b.IsConst() {
			if b.R.Sign() == 0 {
				return b
			}
			if b.R.Cmp(one) == 0 {
				return a
			}
		}
	case ODiv:
		if b.IsConst() && b.R.Cmp(big.NewRat(1, 1)) == 0 {
			return a
		}
		if b.IsConst() && b.R.Sign() != 0 {
			// x / k = x * (1/k): keeps the problem linear
			return c.arith(OMul, a, c.constR(a.Sort, new(big.Rat).Inv(b.R)))
		}
	}
	if (op == OAdd || op == OMul) && a.ID > b.ID {
		a, b = b, a
	}
	return c.mk(&Term{Op: op, Sort: a.Sort, Args: []*Term{a, b}})
}

func (c *Ctx) Add(a, b *Term) *Term { return c.arith(OAdd, a, b) }
func (c *Ctx) Sub(a, b *Term) *Term { return c.arith(OSub, a, b) }
func (c *Ctx) Mul(a, b *Term) *Term { return c.arith(OMul, a, b) }
func (c *Ctx) Div(a, b *Term) *Term { return c.arith(ODiv, a, b) }
func (c *Ctx) Neg(a *Term) *Term {
	if a.IsConst() {
		return c.constR(a.Sort, new(big.Rat).Neg(a.R))
	}
	if a.Op == ONeg {
		return a.Args[0]
	}
	return c.mk(&Term{Op: ONeg, Sort: a.Sort, Args: []*Term{a}})
}
func (c *Ctx) Lt(a, b *Term) *Term {
	if a.IsConst() && b.IsConst() {
		return c.BoolC(a.R.Cmp(b.R) < 0)
	}
	if a == b {
		return c.false_
	}
	return c.mk(&Term{Op: OLt, Sort: Bool, Args: []*Term{a, b}})
}
func (c *Ctx) Le(a, b *Term) *Term {
	if a.IsConst() && b.IsConst() {
		return c.BoolC(a.R.Cmp(b.R) <= 0)
	}
	if a == b {
		return c.true_
	}
	return c.mk(&Term{Op: OLe, Sort: Bool, Args: []*Term{a, b}})
}

func (c *Ctx) IntDiv(a, b *Term) *Term {
	return c.mk(&Term{Op: OIntDiv, Sort: Int, Args: []*Term{a, b}})
}
func (c *Ctx) IntMod(a, b *Term) *Term {
	return c.mk(&Term{Op: OIntMod, Sort: Int, Args: []*Term{a, b}})
}

func (c *Ctx) ToReal(a *Term) *Term {
	if a.Sort.K == KReal {
		return a
	}
	if a.IsConst() {
		return c.constR(Real, a.R)
	}
	return c.mk(&Term{Op: OToReal, Sort: Real, Args: []*Term{a}})
}

// ToInt is floor for reals.
func (c *Ctx) ToInt(a *Term) *Term {
	if a.IsConst() {
		n := new(big.Int).Div(a.R.Num(), a.R.Denom()) // Euclidean: floor for positive denom
		return c.constR(Int, new(big.Rat).SetInt(n))
	}
	if a.Op == OToReal {
		return a.Args[0]
	}
	return c.mk(&Term{Op: OToInt, Sort: Int, Args: []*Term{a}})
}

func (c *Ctx) Bv2Nat(a *Term) *Term {
	if a.IsConst() {
		return c.constR(Int, new(big.Rat).SetInt(new(big.Int).SetUint64(a.U)))
	}
	return c.mk(&Term{Op: OBv2Nat, Sort: Int, Args: []*Term{a}})
}

// Bv2Int interprets a as signed if signed is set.
func (c *Ctx) Bv2Int(a *Term, signed bool) *Term {
	if !signed {
		return c.Bv2Nat(a)
	}
	if a.IsConst() {
		return c.IntC(a.SignedVal())
	}
	if a.Op == OZExt {
		return c.Bv2Nat(a.Args[0])
	}
	w := int(a.Sort.W)
	neg := c.BvSlt(a, c.BVC(w, 0))
	pow := new(big.Rat).SetInt(new(big.Int).Lsh(big.NewInt(1), uint(w)))
	return c.Ite(neg, c.Sub(c.Bv2Nat(a), c.constR(Int, pow)), c.Bv2Nat(a))
}

func (c *Ctx) Int2Bv(a *Term, w int) *Term {
	if a.IsConst() {
		n := new(big.Int).Set(a.R.Num())
		m := new(big.Int).Lsh(big.NewInt(1), uint(w))
		n.Mod(n, m)
		return c.BVC(w, n.Uint64())
	}
	return c.mk(&Term{Op: OInt2Bv, Sort: BV(w), Args: []*Term{a}, P0: w})
}

// App applies an uninterpreted function, declaring it on first use.
func (c *Ctx) App(name string, ret Sort, args ...*Term) *Term {
	if _, ok := c.Funs[name]; !ok {
		d := FunDecl{Name: name, Ret: ret}
		for _, a := range args {
			d.Args = append(d.Args, a.Sort)
		}
		c.Funs[name] = d
		c.FunsOrder = append(c.FunsOrder, name)
	}
	return c.mk(&Term{Op: OApp, Sort: ret, Name: name, Args: args})
}

// ---------------------------------------------------------------- printing

func ratString(r *big.Rat, isInt bool) string {
	neg := r.Sign() < 0
	a := new(big.Rat).Abs(r)
	var s string
	if isInt {
		s = a.Num().String()
	} else if a.IsInt() {
		s = a.Num().String() + ".0"
	} else {
		s = "(/ " + a.Num().String() + ".0 " + a.Denom().String() + ".0)"
	}
	if neg {
		return "(- " + s + ")"
	}
	return s
}

// head prints the term with its arguments referenced by name (tN) when they are
// non-leaf, or inline when leaf.
func (t *Term) ref() string {
	switch t.Op {
	case OConst:
		switch t.Sort.K {
		case KBool:
			if t.U == 1 {
				return "true"
			}
			return "false"
		case KBV:
			if t.Sort.W%4 == 0 {
				return fmt.Sprintf("#x%0*x", int(t.Sort.W)/4, t.U)
			}
			return fmt.Sprintf("#b%0*b", int(t.Sort.W), t.U)
		case KReal:
			return ratString(t.R, false)
		case KInt:
			return ratString(t.R, true)
		}
	case OVar:
		return t.Name
	}
	return fmt.Sprintf("t!%d", t.ID)
}

func (t *Term) body(cvc5 bool) string {
	var sb strings.Builder
	switch t.Op {
	case OZExt:
		fmt.Fprintf(&sb, "((_ zero_extend %d) %s)", t.P0, t.Args[0].ref())
	case OSExt:
		fmt.Fprintf(&sb, "((_ sign_extend %d) %s)", t.P0, t.Args[0].ref())
	case OExtract:
		fmt.Fprintf(&sb, "((_ extract %d %d) %s)", t.P0, t.P1, t.Args[0].ref())
	case OInt2Bv:
		fmt.Fprintf(&sb, "((_ int2bv %d) %s)", t.P0, t.Args[0].ref())
	case OBv2Nat:
		if cvc5 {
			fmt.Fprintf(&sb, "(bv2nat %s)", t.Args[0].ref())
		} else {
			fmt.Fprintf(&sb, "(bv2int %s)", t.Args[0].ref())
		}
	case OApp:
		if len(t.Args) == 0 {
			sb.WriteString(t.Name)
			break
		}
		sb.WriteString("(" + t.Name)
		for _, a := range t.Args {
			sb.WriteString(" " + a.ref())
		}
		sb.WriteString(")")
	default:
		sb.WriteString("(" + opNames[t.Op])
		for _, a := range t.Args {
			sb.WriteString(" " + a.ref())
		}
		sb.WriteString(")")
	}
	return sb.String()
}

// String renders a term as a nested s-expression (for diagnostics; may be large).
func (t *Term) String() string {
	if t.Op == OConst || t.Op == OVar {
		return t.ref()
	}
	var sb strings.Builder
	switch t.Op {
	case OZExt:
		fmt.Fprintf(&sb, "((_ zero_extend %d)", t.P0)
	case OSExt:
		fmt.Fprintf(&sb, "((_ sign_extend %d)", t.P0)
	case OExtract:
		fmt.Fprintf(&sb, "((_ extract %d %d)", t.P0, t.P1)
	case OInt2Bv:
		fmt.Fprintf(&sb, "((_ int2bv %d)", t.P0)
	case OApp:
		sb.WriteString("(" + t.Name)
	case OBv2Nat:
		sb.WriteString("(bv2int")
	default:
		sb.WriteString("(" + opNames[t.Op])
	}
	for _, a := range t.Args {
		sb.WriteString(" " + a.String())
	}
	sb.WriteString(")")
	return sb.String()
}

// Size returns the number of distinct nodes (capped).
func (t *Term) Size(cap int) int {
	seen := map[int]bool{}
	var rec func(*Term)
	rec = func(x *Term) {
		if seen[x.ID] || len(seen) > cap {
			return
		}
		seen[x.ID] = true
		for _, a := range x.Args {
			rec(a)
		}
	}
	rec(t)
	return len(seen)
}

// ---------------------------------------------------------------- concrete evaluation

// Eval evaluates a Bool/BitVec term under an assignment of variable IDs to values. ok is false
// when the term contains reals, integers or uninterpreted functions, or an unassigned variable.
// memo must be a fresh map per assignment.
func (t *Term) Eval(env map[int]uint64, memo map[int]uint64) (uint64, bool) {
	switch t.Op {
	case OConst:
		if t.Sort.K == KBool || t.Sort.K == KBV {
			return t.U, true
		}
		return 0, false
	case OVar:
		v, ok := env[t.ID]
		return v, ok
	}
	if v, ok := memo[t.ID]; ok {
		return v, true
	}
	var a [3]uint64
	if t.Op != OAnd && t.Op != OOr && t.Op != OIte {
		if len(t.Args) > 3 {
			return 0, false
		}
		for k, x := range t.Args {
			v, ok := x.Eval(env, memo)
			if !ok {
				return 0, false
			}
			a[k] = v
		}
	}
	b2u := func(b bool) uint64 {
		if b {
			return 1
		}
		return 0
	}
	var r uint64
	w := t.Sort.W
	var aw uint16
	if len(t.Args) > 0 {
		aw = t.Args[0].Sort.W
	}
	sx := func(v uint64, w uint16) int64 {
		if w >= 64 {
			return int64(v)
		}
		if v&(uint64(1)<<(w-1)) != 0 {
			return int64(v | ^mask(w))
		}
		return int64(v)
	}
	switch t.Op {
	case ONot:
		r = 1 - a[0]
	case OAnd:
		r = 1
		for _, x := range t.Args {
			v, ok := x.Eval(env, memo)
			if !ok {
				return 0, false
			}
			if v == 0 {
				r = 0
				break
			}
		}
	case OOr:
		r = 0
		for _, x := range t.Args {
			v, ok := x.Eval(env, memo)
			if !ok {
				return 0, false
			}
			if v == 1 {
				r = 1
				break
			}
		}
	case OIte:
		c, ok := t.Args[0].Eval(env, memo)
		if !ok {
			return 0, false
		}
		var v uint64
		if c == 1 {
			v, ok = t.Args[1].Eval(env, memo)
		} else {
			v, ok = t.Args[2].Eval(env, memo)
		}
		if !ok {
			return 0, false
		}
		r = v
	case OEq:
		if t.Args[0].Sort.K != KBool && t.Args[0].Sort.K != KBV {
			return 0, false
		}
		r = b2u(a[0] == a[1])
	case OBvAdd:
		r = a[0] + a[1]
	case OBvSub:
		r = a[0] - a[1]
	case OBvMul:
		r = a[0] * a[1]
	case OBvUDiv:
		if a[1] == 0 {
			r = mask(w)
		} else {
			r = a[0] / a[1]
		}
	case OBvURem:
		if a[1] == 0 {
			r = a[0]
		} else {
			r = a[0] % a[1]
		}
	case OBvSDiv:
		x, y := sx(a[0], w), sx(a[1], w)
		switch {
		case y == 0:
			if x < 0 {
				r = 1
			} else {
				r = mask(w)
			}
		case y == -1:
			r = uint64(-x)
		default:
			r = uint64(x / y)
		}
	case OBvSRem:
		x, y := sx(a[0], w), sx(a[1], w)
		switch {
		case y == 0:
			r = a[0]
		case y == -1:
			r = 0
		default:
			r = uint64(x % y)
		}
	case OBvAnd:
		r = a[0] & a[1]
	case OBvOr:
		r = a[0] | a[1]
	case OBvXor:
		r = a[0] ^ a[1]
	case OBvNot:
		r = ^a[0]
	case OBvNeg:
		r = -a[0]
	case OBvShl:
		if a[1] >= uint64(w) {
			r = 0
		} else {
			r = a[0] << a[1]
		}
	case OBvLShr:
		if a[1] >= uint64(w) {
			r = 0
		} else {
			r = a[0] >> a[1]
		}
	case OBvAShr:
		x := sx(a[0], w)
		if a[1] >= uint64(w) {
			if x < 0 {
				r = mask(w)
			}
		} else {
			r = uint64(x >> a[1])
		}
	case OBvUlt:
		r = b2u(a[0] < a[1])
	case OBvUle:
		r = b2u(a[0] <= a[1])
	case OBvSlt:
		r = b2u(sx(a[0], aw) < sx(a[1], aw))
	case OBvSle:
		r = b2u(sx(a[0], aw) <= sx(a[1], aw))
	case OZExt:
		r = a[0]
	case OSExt:
		r = uint64(sx(a[0], aw))
	case OExtract:
		r = a[0] >> uint(t.P1)
	default:
		return 0, false
	}
	if t.Sort.K == KBV {
		r &= mask(w)
	}
	memo[t.ID] = r
	return r, true
}

// ---------------------------------------------------------------- counters: BV -> Int without bv2int

// URange returns an unsigned value range of t when it can be derived structurally (constants,
// ite, zero-extension, non-overflowing additions); used to convert "counter" terms to integers
// without the expensive bv2int.
func (c *Ctx) URange(t *Term) (lo, hi uint64, ok bool) {
	if c.rangeMemo == nil {
		c.rangeMemo = map[int][3]uint64{}
	}
	if r, seen := c.rangeMemo[t.ID]; seen {
		return r[0], r[1], r[2] == 1
	}
	defer func() {
		okv := uint64(0)
		if ok {
			okv = 1
		}
		c.rangeMemo[t.ID] = [3]uint64{lo, hi, okv}
	}()
	if t.Sort.K != KBV {
		return 0, 0, false
	}
	switch t.Op {
	case OConst:
		return t.U, t.U, true
	case OIte:
		l1, h1, ok1 := c.URange(t.Args[1])
		l2, h2, ok2 := c.URange(t.Args[2])
		if !ok1 || !ok2 {
			return 0, 0, false
		}
		if l2 < l1 {
			l1 = l2
		}
		if h2 > h1 {
			h1 = h2
		}
		return l1, h1, true
	case OZExt:
		return c.URange(t.Args[0])
	case OBvAdd:
		l1, h1, ok1 := c.URange(t.Args[0])
		l2, h2, ok2 := c.URange(t.Args[1])
		if !ok1 || !ok2 {
			return 0, 0, false
		}
		m := mask(t.Sort.W)
		if h1 > m-h2 { // may wrap
			return 0, 0, false
		}
		return l1 + l2, h1 + h2, true
	case OVar:
		if t.Sort.W <= 16 {
			return 0, mask(t.Sort.W), true
		}
	}
	return 0, 0, false
}

// Bv2IntSmart converts a bit-vector term to an integer term; counter-like terms (sums of ite
// over constants that provably do not wrap) are converted structurally into pure integer
// arithmetic, everything else goes through bv2int.
func (c *Ctx) Bv2IntSmart(a *Term, signed bool) *Term {
	_, hi, ok := c.URange(a)
	if !ok || (signed && a.Sort.W <= 64 && hi >= uint64(1)<<(a.Sort.W-1)) || hi > 1<<40 {
		return c.Bv2Int(a, signed)
	}
	return c.bv2intStruct(a)
}

func (c *Ctx) bv2intStruct(a *Term) *Term {
	if c.structMemo == nil {
		c.structMemo = map[int]*Term{}
	}
	if r, ok := c.structMemo[a.ID]; ok {
		return r
	}
	var r *Term
	switch a.Op {
	case OConst:
		r = c.IntC(int64(a.U))
	case OIte:
		r = c.Ite(a.Args[0], c.bv2intStruct(a.Args[1]), c.bv2intStruct(a.Args[2]))
	case OZExt:
		r = c.bv2intStruct(a.Args[0])
	case OBvAdd:
		r = c.Add(c.bv2intStruct(a.Args[0]), c.bv2intStruct(a.Args[1]))
	default:
		r = c.Bv2Nat(a)
	}
	c.structMemo[a.ID] = r
	return r
}
