package interp

import (
	"fmt"
	"go/types"
	"math"
	"math/big"
	"strconv"
	"strings"

	"golang.org/x/tools/go/ssa"

	"gosym/sym"
)

type externalFn func(fr *frame, args []value) value

// intrinsic returns the engine implementation of a harness primitive, keyed by bare name;
// the primitives are declared (with native bodies for replay) in zz_verif_rt.go of each
// harness package.
func (i *interpreter) intrinsic(fn *ssa.Function) externalFn {
	if fn.Pkg == nil || fn.Signature.Recv() != nil {
		return nil
	}
	path := fn.Pkg.Pkg.Path()
	if !strings.HasPrefix(path, "github.com/evolbioinfo/goalign") {
		return nil
	}
	f, ok := intrinsics[fn.Name()]
	if !ok {
		return nil
	}
	// only functions declared in the harness runtime file
	pos := i.prog.Fset.Position(fn.Pos())
	if !strings.Contains(pos.Filename, "zz_verif_rt") {
		return nil
	}
	return f
}

var intrinsics map[string]externalFn

func init() {
	intrinsics = map[string]externalFn{
		"nondetByte":    intrNondetByte,
		"nondetBool":    intrNondetBool,
		"nondetInt":     intrNondetInt,
		"nondetRange":   intrNondetRange,
		"nondetFloat":   intrNondetFloat,
		"nondetDyadic":  intrNondetDyadic,
		"assume":        intrAssume,
		"verifAssert":   intrAssert,
		"verifReach":    intrReach,
		"verifSupport":  intrReach,
		"verifObserve":  intrObserve,
		"verifKnown":    intrKnown,
		"verifAllowExit": intrAllowExit,
		"verifSymbolic": func(fr *frame, args []value) value { return true },
		// verifRandMark / verifRandRewind: "re-seed with the same seed". Draws after the mark are
		// logged; after the rewind the same outcomes are delivered again (see randVar).
		"verifRandMark": func(fr *frame, args []value) value {
			fr.i.noSpec("rand mark")
			fr.i.randLog, fr.i.randLogging, fr.i.randReplay = nil, true, -1
			return nil
		},
		"verifRandRewind": func(fr *frame, args []value) value {
			fr.i.noSpec("rand rewind")
			fr.i.randReplay = 0
			return nil
		},
		"verifMapOrder": func(fr *frame, args []value) value {
			fr.i.mapOrderExplore = args[0].(bool)
			return nil
		},
	}
}

func (i *interpreter) freshName(kind string) string {
	i.nondetCount++
	return fmt.Sprintf("%s!%d", kind, i.nondetCount)
}

func (i *interpreter) noSpec(what string) {
	if i.specDepth > 0 {
		i.mergeAbort(what + " inside a merged region")
	}
}

func intrNondetByte(fr *frame, args []value) value {
	i := fr.i
	i.noSpec("nondet")
	t := i.ctx.Var(i.freshName("b"), sym.BV(8))
	i.tape = append(i.tape, tapeVar{kind: "u8", term: t, name: t.Name})
	return t
}

func intrNondetBool(fr *frame, args []value) value {
	i := fr.i
	i.noSpec("nondet")
	t := i.ctx.Var(i.freshName("p"), sym.Bool)
	i.tape = append(i.tape, tapeVar{kind: "bool", term: t, name: t.Name})
	return t
}

func intrNondetInt(fr *frame, args []value) value {
	i := fr.i
	i.noSpec("nondet")
	t := i.ctx.Var(i.freshName("n"), sym.BV(64))
	i.tape = append(i.tape, tapeVar{kind: "i64", term: t, name: t.Name})
	return t
}

// nondetRange(lo, hi) returns a concrete int in [lo, hi]: a shape choice (case split).
func intrNondetRange(fr *frame, args []value) value {
	i := fr.i
	i.noSpec("nondet")
	lo, hi := asInt64(args[0]), asInt64(args[1])
	if hi < lo {
		panic(pathAbort{kind: abAssume, msg: "empty range"})
	}
	k := i.choose(int(hi-lo+1), "range")
	v := int(lo) + k
	i.tape = append(i.tape, tapeVar{kind: "i64", conc: strconv.Itoa(v), name: i.freshName("r")})
	return v
}

// nondetFloat returns an arbitrary finite real.
func intrNondetFloat(fr *frame, args []value) value {
	i := fr.i
	i.noSpec("nondet")
	t := i.ctx.Var(i.freshName("x"), sym.Real)
	f := i.finite(t)
	i.tape = append(i.tape, tapeVar{kind: "f64", term: t, name: t.Name})
	return f
}

// nondetDyadic(den, lo, hi) returns k/den for an arbitrary integer k in [lo, hi].
func intrNondetDyadic(fr *frame, args []value) value {
	i := fr.i
	i.noSpec("nondet")
	den, lo, hi := asInt64(args[0]), asInt64(args[1]), asInt64(args[2])
	k := i.ctx.Var(i.freshName("k"), sym.Int)
	i.addPC(i.ctx.Le(i.ctx.IntC(lo), k))
	i.addPC(i.ctx.Le(k, i.ctx.IntC(hi)))
	v := i.ctx.Div(i.ctx.ToReal(k), i.ctx.RealI(den))
	i.tape = append(i.tape, tapeVar{kind: "f64", term: v, name: k.Name})
	return i.finite(v)
}

func intrAssume(fr *frame, args []value) value {
	i := fr.i
	switch c := args[0].(type) {
	case bool:
		if !c {
			if i.specDepth > 0 {
				i.mergeAbort("assume inside a merged region")
			}
			panic(pathAbort{kind: abAssume, msg: "assumption false"})
		}
	case *sym.Term:
		i.noSpec("assume")
		r := i.feasible(c)
		if r == sym.Unsat {
			panic(pathAbort{kind: abAssume, msg: "assumption infeasible"})
		}
		if r == sym.Unknown {
			i.sawUnknown = true
			i.Stats.UnknownFeas++
		}
		i.addPC(c)
	}
	return nil
}

func intrReach(fr *frame, args []value) value {
	i := fr.i
	i.noSpec("verifReach")
	i.reached = append(i.reached, args[0].(string))
	return nil
}

func intrAllowExit(fr *frame, args []value) value {
	fr.i.allowExit = true
	return nil
}

func intrKnown(fr *frame, args []value) value {
	return fr.i.cfg.Known[args[0].(string)]
}

type obsEnt struct {
	label string
	vals  []iface
}

func intrObserve(fr *frame, args []value) value {
	i := fr.i
	i.noSpec("verifObserve")
	e := obsEnt{label: args[0].(string)}
	for _, a := range args[1].([]value) {
		it := a.(iface)
		it.v = deepCopyObs(it.v) // the memory it aliases is rolled back at the end of the path
		e.vals = append(e.vals, it)
	}
	i.obs = append(i.obs, e)
	return nil
}

func deepCopyObs(v value) value {
	switch x := v.(type) {
	case []value:
		out := make([]value, len(x))
		for k := range x {
			out[k] = deepCopyObs(x[k])
		}
		return out
	case array:
		out := make(array, len(x))
		for k := range x {
			out[k] = deepCopyObs(x[k])
		}
		return out
	case structure:
		out := make(structure, len(x))
		for k := range x {
			out[k] = deepCopyObs(x[k])
		}
		return out
	}
	return v
}

// obsTerms lists the symbolic terms inside observed values (in a fixed order).
func (i *interpreter) obsTerms() []*sym.Term {
	var out []*sym.Term
	var walk func(v value)
	walk = func(v value) {
		switch x := v.(type) {
		case *sym.Term:
			out = append(out, x)
		case *FV:
			out = append(out, x.Nan, x.Inf, x.V)
		case sstr:
			for _, b := range x {
				walk(b)
			}
		case []value:
			for _, b := range x {
				walk(b)
			}
		case array:
			for _, b := range x {
				walk(b)
			}
		}
	}
	for _, e := range i.obs {
		for _, v := range e.vals {
			walk(v.v)
		}
	}
	return out
}

// renderObs prints observed values the way fmt.Sprint prints them natively, reading symbolic
// parts from the model values vals (ordered as obsTerms).
func (i *interpreter) renderObs(vals []sym.Val) []string {
	k := 0
	var render func(t types.Type, v value) string
	render = func(t types.Type, v value) string {
		switch x := v.(type) {
		case *sym.Term:
			mv := vals[k]
			k++
			if x.Sort.K == sym.KBool {
				return fmt.Sprint(mv.U == 1)
			}
			signed := true
			if t != nil {
				_, signed, _ = intInfo(t)
			}
			if signed {
				return fmt.Sprint(i.ctx.BVC(int(x.Sort.W), mv.U).SignedVal())
			}
			return fmt.Sprint(mv.U)
		case *FV:
			nan, inf, rv := vals[k], vals[k+1], vals[k+2]
			k += 3
			switch {
			case nan.U == 1:
				return "NaN"
			case inf.U == 1 && rv.R != nil && rv.R.Sign() < 0:
				return "-Inf"
			case inf.U == 1:
				return "+Inf"
			case rv.R != nil:
				return fmt.Sprint(ratToFloat(rv.R))
			}
			return "?"
		case sstr:
			bs := make([]byte, len(x))
			for j, b := range x {
				switch c := b.(type) {
				case uint8:
					bs[j] = c
				case *sym.Term:
					bs[j] = byte(vals[k].U)
					k++
				}
			}
			return string(bs)
		case []value:
			var et types.Type
			if t != nil {
				if st, ok := t.Underlying().(*types.Slice); ok {
					et = st.Elem()
				}
			}
			parts := make([]string, len(x))
			for j, b := range x {
				parts[j] = render(et, b)
			}
			return "[" + strings.Join(parts, " ") + "]"
		case array:
			return render(t, []value(x))
		}
		n, ok := i.toNative(v)
		if !ok {
			return "?"
		}
		return fmt.Sprint(n)
	}
	var out []string
	for _, e := range i.obs {
		parts := make([]string, len(e.vals))
		for j, v := range e.vals {
			parts[j] = render(v.t, v.v)
		}
		out = append(out, e.label+"="+strings.Join(parts, ","))
	}
	return out
}

// solveModel finds a model of the assertions and renders the tape and the observations.
func (i *interpreter) solveModel(as []*sym.Term) (sym.Result, []TapeEnt, []string) {
	tt := i.tapeTerms()
	ot := i.obsTerms()
	r, vals := i.solver.Check(as, i.cfg.QueryTimeout, append(append([]*sym.Term{}, tt...), ot...))
	if r != sym.Sat {
		return r, nil, nil
	}
	return r, i.tapeFromModel(vals[:len(tt)]), i.renderObs(vals[len(tt):])
}

// verifAssert(cond, label): the property. A violation is a model of pc ∧ ¬cond.
func intrAssert(fr *frame, args []value) value {
	i := fr.i
	i.noSpec("verifAssert")
	label := args[1].(string)
	switch c := args[0].(type) {
	case bool:
		if c {
			return nil
		}
		i.recordFinding("assert", label, "assertion is false on this path", i.ctx.True())
		panic(pathAbort{kind: abStop, msg: "assertion failed: " + label})
	case *sym.Term:
		nc := i.ctx.Not(c)
		i.Stats.AssertQueries++
		as := append(append([]*sym.Term{}, i.pc...), nc)
		r, tape, obs := i.solveModel(as)
		switch r {
		case sym.Unsat:
		case sym.Sat:
			i.recordFindingModel("assert", label, "assertion can be false", tape, obs, as)
		default:
			// second opinion: the same query in fresh processes of the other installed solvers. Only
			// "unsat" is taken from them (the assertion holds on this path); anything else leaves the
			// item inconclusive.
			if i.secondOpinionUnsat(as) {
				i.Stats.SecondOpinions++
			} else {
				i.recordInconclusive("unknown", label, "solver returned unknown on the assertion query: "+i.solver.LastErr)
			}
		}
		// if the assertion cannot hold at all on this path, stop here
		if r == sym.Sat && i.feasible(c) == sym.Unsat {
			panic(pathAbort{kind: abStop, msg: "assertion always false on this path: " + label})
		}
		i.addPC(c)
	}
	return nil
}

func (i *interpreter) tapeTerms() []*sym.Term {
	var out []*sym.Term
	for _, t := range i.tape {
		if t.term != nil {
			out = append(out, t.term)
		}
	}
	return out
}

func (i *interpreter) tapeFromModel(vals []sym.Val) []TapeEnt {
	var out []TapeEnt
	k := 0
	for _, t := range i.tape {
		e := TapeEnt{T: t.kind, N: t.name}
		if t.term == nil {
			e.V = t.conc
		} else {
			v := vals[k]
			k++
			switch t.kind {
			case "u8":
				e.V = strconv.FormatUint(v.U, 10)
			case "i64":
				e.V = strconv.FormatInt(int64(v.U), 10)
			case "bool":
				e.V = strconv.FormatBool(v.U == 1)
			case "rand.int":
				e.V = strconv.FormatInt(int64(v.U), 10)
			case "f64", "rand.f64":
				if v.R != nil {
					f, exact := v.R.Float64()
					if t.kind == "rand.f64" && f >= 1 {
						f = math.Nextafter(1, 0) // rand.Float64() is < 1; the model value rounded up to 1
					}
					e.V = strconv.FormatFloat(f, 'x', -1, 64)
					e.N += " = " + v.R.RatString()
					if !exact {
						e.N += " (rounded: not a float64)"
					}
				} else {
					e.V = "0x0p+00"
					e.N += " (inexact: " + v.Raw + ")"
				}
			default:
				if v.Sort.K == sym.KBV {
					e.V = strconv.FormatInt(int64(v.U), 10)
				} else if v.R != nil {
					e.V = v.R.RatString()
				}
			}
		}
		out = append(out, e)
	}
	return out
}

func (i *interpreter) recordFinding(kind, label, msg string, extra *sym.Term) {
	as := append(append([]*sym.Term{}, i.pc...), extra)
	r, tape, obs := i.solveModel(as)
	if r != sym.Sat {
		if r == sym.Unknown {
			i.recordInconclusive("unknown", label, "cannot produce a model for a "+kind+" event: "+msg)
		}
		return
	}
	i.recordFindingModel(kind, label, msg, tape, obs, as)
}

func (i *interpreter) recordFindingModel(kind, label, msg string, tape []TapeEnt, obs []string, as []*sym.Term) {
	f := Finding{Kind: kind, Label: label, Msg: msg, Harness: i.harness,
		Tape: tape, Decs: append([]Decision{}, i.decs...),
		Observed: obs, Reaches: append([]string{}, i.reached...)}
	f.Script = i.ctx.Script(as, i.solver.Axioms(), false)
	i.findings = append(i.findings, f)
}

func (i *interpreter) recordInconclusive(kind, label, msg string) {
	i.findings = append(i.findings, Finding{Kind: kind, Label: label, Msg: msg, Harness: i.harness,
		Decs: append([]Decision{}, i.decs...)})
}

// ---------------------------------------------------------------- helpers shared by models

func (i *interpreter) goString(v value, what string) string {
	s, ok := v.(string)
	if !ok {
		i.unsupported(what + " with symbolic string")
	}
	return s
}

func ratToFloat(r *big.Rat) float64 {
	f, _ := r.Float64()
	return f
}

var _ = math.Pi

// secondOpinionUnsat asks z3 4.8.12 and cvc5 whether the assertions are unsatisfiable.
func (i *interpreter) secondOpinionUnsat(as []*sym.Term) bool {
	script := i.ctx.Script(as, i.solver.Axioms(), false)
	t := i.cfg.QueryTimeout / 1000
	if t < 20 {
		t = 20
	}
	if r, _ := sym.OneShot("z3", script+"\n", t); r == sym.Unsat {
		return true
	}
	cs := strings.ReplaceAll(script, "(bv2int ", "(bv2nat ")
	if r, _ := sym.OneShot("cvc5", "(set-logic ALL)\n"+cs+"\n", t); r == sym.Unsat {
		return true
	}
	return false
}
