package interp

import (
	"fmt"
	"go/token"
)

// Cooperative threads: every interpreted goroutine runs on its own host goroutine but only
// the holder of the baton executes. Switching happens when the current thread blocks
// (deterministic mode) or at every synchronisation operation (schedule exploration).

type thread struct {
	id      int
	resume  chan struct{}
	done    bool
	blocked bool
	waitOn  string
	vc      []uint32
	started bool
}

type channel struct {
	buf     []value
	cap     int
	closed  bool
	// rendezvous for unbuffered channels
	pendingSend []*sendReq
	recvWaiting int
	vc          []uint32 // clock of close
	id          int
}

type sendReq struct {
	v     value
	taken bool
	vc    []uint32
}

func (i *interpreter) resetThreads() {
	i.threads = []*thread{{id: 0, resume: make(chan struct{}), started: true, vc: []uint32{1}}}
	i.cur = i.threads[0]
	i.killing = false
	i.preempts = 0
	i.pendingAbort = nil
	i.hostDone = make(chan struct{}, 4096)
	i.wgs, i.mus = nil, nil
	i.raceCells = nil
	i.Races = i.Races[:0]
}

func (i *interpreter) newVC(parent []uint32, n int) []uint32 {
	vc := make([]uint32, n)
	copy(vc, parent)
	return vc
}

func vcJoin(a, b []uint32) []uint32 {
	if len(b) > len(a) {
		a = append(a, make([]uint32, len(b)-len(a))...)
	}
	for k := range b {
		if b[k] > a[k] {
			a[k] = b[k]
		}
	}
	return a
}

func (i *interpreter) tick() {
	t := i.cur
	for len(t.vc) <= t.id {
		t.vc = append(t.vc, 0)
	}
	t.vc[t.id]++
}

// spawn implements the go statement.
func (i *interpreter) spawn(pos token.Pos, fn value, args []value) {
	if i.specDepth > 0 {
		i.mergeAbort("go statement inside a merged region")
	}
	t := &thread{id: len(i.threads), resume: make(chan struct{})}
	i.tick()
	t.vc = append([]uint32{}, i.cur.vc...)
	for len(t.vc) <= t.id {
		t.vc = append(t.vc, 0)
	}
	t.vc[t.id] = 1
	i.threads = append(i.threads, t)
	go func() {
		<-t.resume
		t.started = true
		defer func() {
			r := recover()
			t.done = true
			if r != nil {
				if pa, ok := r.(pathAbort); ok && pa.kind == abKill {
					i.hostDone <- struct{}{}
					return
				}
				// propagate to the main thread
				if i.pendingAbort == nil {
					i.pendingAbort = r
				}
				i.hostDone <- struct{}{}
				m := i.threads[0]
				i.cur = m
				m.resume <- struct{}{}
				return
			}
			i.hostDone <- struct{}{}
			i.handoff()
		}()
		if i.killing {
			panic(pathAbort{kind: abKill})
		}
		call(i, nil, pos, fn, args)
		i.tick()
	}()
	i.syncPoint("go")
}

// handoff passes the baton from a finished thread to some runnable thread.
func (i *interpreter) handoff() {
	next := i.pickNext(nil)
	if next == nil {
		// nobody runnable: wake main so that it can report the deadlock
		i.pendingAbort = pathAbort{kind: abDeadlock, msg: i.deadlockMsg()}
		next = i.threads[0]
	}
	i.cur = next
	next.resume <- struct{}{}
}

func (i *interpreter) deadlockMsg() string {
	s := "all goroutines are asleep:"
	for _, t := range i.threads {
		if !t.done {
			s += fmt.Sprintf(" g%d[%s]", t.id, t.waitOn)
		}
	}
	return s
}

func (i *interpreter) runnable() []*thread {
	var out []*thread
	for _, t := range i.threads {
		if !t.done && !t.blocked {
			out = append(out, t)
		}
	}
	return out
}

// pickNext chooses the next thread to run. self (may be nil) is the calling thread.
func (i *interpreter) pickNext(self *thread) *thread {
	rs := i.runnable()
	if len(rs) == 0 {
		return nil
	}
	if i.cfg.Schedules && !i.killing && len(rs) > 1 {
		// Delay-bounded exploration (Emmi, Qadeer, Rakamaric 2011): the default scheduler keeps the
		// running thread, or the lowest-numbered runnable thread when it blocks; every deviation
		// from that choice costs one unit of the budget.
		def := rs[0]
		if self != nil && !self.blocked && !self.done {
			def = self
		}
		if i.preempts >= i.cfg.MaxPreempt {
			return def
		}
		// alternatives: default first
		order := []*thread{def}
		for _, t := range rs {
			if t != def {
				order = append(order, t)
			}
		}
		k := i.choose(len(order), "sched")
		if k > 0 {
			i.preempts++
		}
		return order[k]
	}
	if self != nil && !self.blocked && !self.done {
		return self
	}
	return rs[0]
}

// syncPoint is called at synchronisation operations; in schedule exploration mode it
// allows a context switch.
func (i *interpreter) syncPoint(what string) {
	if !i.cfg.Schedules || len(i.threads) == 1 {
		return
	}
	i.yield()
}

// yield gives up the baton; returns when this thread is scheduled again.
func (i *interpreter) yield() {
	if i.specDepth > 0 {
		i.mergeAbort("thread switch inside a merged region")
	}
	self := i.cur
	next := i.pickNext(self)
	if next == nil {
		panic(pathAbort{kind: abDeadlock, msg: i.deadlockMsg()})
	}
	if next == self {
		return
	}
	i.cur = next
	next.resume <- struct{}{}
	<-self.resume
	i.cur = self
	i.afterResume()
}

func (i *interpreter) afterResume() {
	if i.killing && i.cur.id != 0 {
		panic(pathAbort{kind: abKill})
	}
	if i.cur.id == 0 && i.pendingAbort != nil {
		r := i.pendingAbort
		i.pendingAbort = nil
		panic(r)
	}
}

// block marks the current thread blocked and switches; returns when rescheduled (the caller
// re-checks its condition).
func (i *interpreter) block(what string) {
	self := i.cur
	self.blocked = true
	self.waitOn = what
	i.yield()
}

func (i *interpreter) wakeAll() {
	for _, t := range i.threads {
		t.blocked = false
	}
}

// killThreads terminates every parked thread at the end of a path.
func (i *interpreter) killThreads() {
	i.killing = true
	i.cur = i.threads[0]
	for _, t := range i.threads[1:] {
		if t.done {
			continue
		}
		// the thread is parked on <-t.resume (either never started or yielded)
		t.blocked = false
		func() {
			defer func() { recover() }()
			t.resume <- struct{}{}
			// it panics with abKill, marks itself done and signals hostDone
		}()
	}
	// wait for host goroutines that were signalled
	for _, t := range i.threads[1:] {
		_ = t
	}
	for k := 0; k < len(i.threads)-1; k++ {
		<-i.hostDone
	}
	i.killing = false
}

// ---------------------------------------------------------------- channels

var chanCounter int

func (i *interpreter) makeChan(capacity int) *channel {
	return &channel{cap: capacity}
}

func (i *interpreter) chanSend(ch *channel, v value) {
	if ch == nil {
		i.block("send on nil channel")
		panic(pathAbort{kind: abDeadlock, msg: "send on nil channel"})
	}
	i.syncPoint("send")
	i.tick()
	if ch.closed {
		panic(targetPanic{i.rtErr("send on closed channel")})
	}
	if ch.cap > 0 {
		for len(ch.buf) >= ch.cap {
			i.block("chan send")
			if ch.closed {
				panic(targetPanic{i.rtErr("send on closed channel")})
			}
		}
		ch.buf = append(ch.buf, &sendReq{v: v, vc: append([]uint32{}, i.cur.vc...)})
		i.wakeAll()
		return
	}
	req := &sendReq{v: v, vc: append([]uint32{}, i.cur.vc...)}
	ch.pendingSend = append(ch.pendingSend, req)
	i.wakeAll()
	for !req.taken {
		i.block("chan send")
		if ch.closed && !req.taken {
			panic(targetPanic{i.rtErr("send on closed channel")})
		}
	}
}

// chanRecv returns (value, ok).
func (i *interpreter) chanRecv(ch *channel, zeroV value) (value, bool) {
	if ch == nil {
		i.block("receive from nil channel")
		panic(pathAbort{kind: abDeadlock, msg: "receive from nil channel"})
	}
	i.syncPoint("recv")
	i.tick()
	for {
		if ch.cap > 0 && len(ch.buf) > 0 {
			req := ch.buf[0].(*sendReq)
			ch.buf = ch.buf[1:]
			i.cur.vc = vcJoin(i.cur.vc, req.vc)
			i.wakeAll()
			return req.v, true
		}
		if ch.cap == 0 && len(ch.pendingSend) > 0 {
			req := ch.pendingSend[0]
			ch.pendingSend = ch.pendingSend[1:]
			req.taken = true
			i.cur.vc = vcJoin(i.cur.vc, req.vc)
			i.wakeAll()
			return req.v, true
		}
		if ch.closed {
			i.cur.vc = vcJoin(i.cur.vc, ch.vc)
			return zeroV, false
		}
		i.block("chan receive")
	}
}

func (i *interpreter) chanClose(ch *channel) {
	if ch == nil {
		panic(targetPanic{i.rtErr("close of nil channel")})
	}
	i.syncPoint("close")
	i.tick()
	if ch.closed {
		panic(targetPanic{i.rtErr("close of closed channel")})
	}
	ch.closed = true
	ch.vc = append([]uint32{}, i.cur.vc...)
	i.wakeAll()
}

func (i *interpreter) rtErr0(msg string) value {
	return iface{t: i.runtimeErrorString, v: msg}
}

// ---------------------------------------------------------------- sync models (operate on the
// interpreted struct values of sync.WaitGroup / sync.Mutex through side tables keyed by address)

type wgState struct {
	n  int
	vc []uint32
}
type muState struct {
	locked  bool
	rlocks  int
	vc      []uint32
}

func (i *interpreter) wg(p *value) *wgState {
	if i.wgs == nil {
		i.wgs = map[*value]*wgState{}
	}
	s := i.wgs[p]
	if s == nil {
		s = &wgState{}
		i.wgs[p] = s
	}
	return s
}

func (i *interpreter) mu(p *value) *muState {
	if i.mus == nil {
		i.mus = map[*value]*muState{}
	}
	s := i.mus[p]
	if s == nil {
		s = &muState{}
		i.mus[p] = s
	}
	return s
}

func (i *interpreter) wgAdd(p *value, delta int) {
	i.syncPoint("wg.Add")
	i.tick()
	s := i.wg(p)
	s.n += delta
	if delta < 0 {
		s.vc = vcJoin(s.vc, i.cur.vc)
	}
	if s.n < 0 {
		panic(targetPanic{i.strPanic("sync: negative WaitGroup counter")})
	}
	if s.n == 0 {
		i.wakeAll()
	}
}

func (i *interpreter) wgWait(p *value) {
	i.syncPoint("wg.Wait")
	i.tick()
	s := i.wg(p)
	for s.n > 0 {
		i.block("WaitGroup.Wait")
	}
	i.cur.vc = vcJoin(i.cur.vc, s.vc)
}

func (i *interpreter) muLock(p *value) {
	i.syncPoint("mu.Lock")
	i.tick()
	s := i.mu(p)
	for s.locked || s.rlocks > 0 {
		i.block("Mutex.Lock")
	}
	s.locked = true
	i.cur.vc = vcJoin(i.cur.vc, s.vc)
}

func (i *interpreter) muUnlock(p *value) {
	i.tick()
	s := i.mu(p)
	if !s.locked {
		panic(targetPanic{i.strPanic("sync: unlock of unlocked mutex")})
	}
	s.locked = false
	s.vc = vcJoin(s.vc, i.cur.vc)
	i.wakeAll()
	i.syncPoint("mu.Unlock")
}

func (i *interpreter) strPanic(msg string) value {
	return iface{t: tString, v: msg}
}

// ---------------------------------------------------------------- happens-before race detection

type raceCell struct {
	wTid int
	wClk uint32
	wPos string
	reads map[int]uint32
	rPos  map[int]string
	has  bool
}

// Race is a detected pair of conflicting unordered accesses.
type Race struct {
	A, B string
}

func (i *interpreter) raceOn() bool { return i.cfg.RaceDetect && len(i.threads) > 1 }

func (i *interpreter) posStr() string {
	if i.curFrame != nil && i.curFrame.curInstr != nil {
		return i.prog.Fset.Position(i.curFrame.curInstr.Pos()).String()
	}
	return "?"
}

func (i *interpreter) raceRead(p *value) {
	if !i.raceOn() {
		return
	}
	if i.raceCells == nil {
		i.raceCells = map[*value]*raceCell{}
	}
	c := i.raceCells[p]
	if c == nil {
		c = &raceCell{reads: map[int]uint32{}, rPos: map[int]string{}}
		i.raceCells[p] = c
	}
	t := i.cur
	if c.has && c.wTid != t.id && !(c.wTid < len(t.vc) && t.vc[c.wTid] >= c.wClk) {
		i.reportRace(c.wPos+" (write)", i.posStr()+" (read)")
	}
	c.reads[t.id] = t.vc[t.id]
	c.rPos[t.id] = i.posStr()
}

func (i *interpreter) raceWrite(p *value) {
	if !i.raceOn() {
		return
	}
	if i.raceCells == nil {
		i.raceCells = map[*value]*raceCell{}
	}
	c := i.raceCells[p]
	if c == nil {
		c = &raceCell{reads: map[int]uint32{}, rPos: map[int]string{}}
		i.raceCells[p] = c
	}
	t := i.cur
	if c.has && c.wTid != t.id && !(c.wTid < len(t.vc) && t.vc[c.wTid] >= c.wClk) {
		i.reportRace(c.wPos+" (write)", i.posStr()+" (write)")
	}
	for tid, clk := range c.reads {
		if tid != t.id && !(tid < len(t.vc) && t.vc[tid] >= clk) {
			i.reportRace(c.rPos[tid]+" (read)", i.posStr()+" (write)")
		}
	}
	c.has = true
	c.wTid = t.id
	c.wClk = t.vc[t.id]
	c.wPos = i.posStr()
	c.reads = map[int]uint32{}
	c.rPos = map[int]string{}
}

func (i *interpreter) reportRace(a, b string) {
	for _, r := range i.Races {
		if r.A == a && r.B == b {
			return
		}
	}
	i.Races = append(i.Races, Race{a, b})
}
