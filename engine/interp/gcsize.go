package interp

// Capacities as the gc runtime of the pinned toolchain (go1.23, amd64) computes them. The Go
// specification leaves append's growth open, but whether two slices share a backing array
// after an append — and therefore whether an aliasing bug manifests — depends on it, and the
// native replay runs on that runtime. Sources: runtime/slice.go (growslice, nextslicecap),
// runtime/msize.go (roundupsize), runtime/sizeclasses.go, runtime/string.go (rawbyteslice).
//
// Not modelled: the 32-byte stack buffer the compiler uses for non-escaping []byte(string)
// conversions (escape analysis is not available here); the heap path is used for all.

import "go/types"

var gcClassToSize = [...]uint16{0, 8, 16, 24, 32, 48, 64, 80, 96, 112, 128, 144, 160, 176, 192, 208, 224, 240, 256, 288, 320, 352, 384, 416, 448, 480, 512, 576, 640, 704, 768, 896, 1024, 1152, 1280, 1408, 1536, 1792, 2048, 2304, 2688, 3072, 3200, 3456, 4096, 4864, 5376, 6144, 6528, 6784, 6912, 8192, 9472, 9728, 10240, 10880, 12288, 13568, 14336, 16384, 18432, 19072, 20480, 21760, 24576, 27264, 28672, 32768}

const (
	gcMaxSmallSize           = 32768
	gcMallocHeaderSize       = 8
	gcMinSizeForMallocHeader = 512
	gcPageSize               = 8192
)

// gcRoundupSize: size of the block mallocgc hands out for a request of size bytes.
func gcRoundupSize(size uintptr, noscan bool) uintptr {
	req := size
	if req <= gcMaxSmallSize-gcMallocHeaderSize {
		if !noscan && req > gcMinSizeForMallocHeader {
			req += gcMallocHeaderSize
		}
		for _, c := range gcClassToSize {
			if uintptr(c) >= req {
				return uintptr(c) - (req - size)
			}
		}
	}
	req += gcPageSize - 1
	if req < size {
		return size
	}
	return req &^ (gcPageSize - 1)
}

func gcNextSliceCap(newLen, oldCap int) int {
	newcap := oldCap
	doublecap := newcap + newcap
	if newLen > doublecap {
		return newLen
	}
	const threshold = 256
	if oldCap < threshold {
		return doublecap
	}
	for {
		newcap += (newcap + 3*threshold) >> 2
		if uint(newcap) >= uint(newLen) {
			break
		}
	}
	if newcap <= 0 {
		return newLen
	}
	return newcap
}

var gcSizes = types.SizesFor("gc", "amd64")

// gcHasPointers: does a value of type t contain pointers (the allocation is scanned).
func gcHasPointers(t types.Type) bool {
	switch u := t.Underlying().(type) {
	case *types.Basic:
		return u.Kind() == types.String || u.Kind() == types.UnsafePointer
	case *types.Array:
		return u.Len() > 0 && gcHasPointers(u.Elem())
	case *types.Struct:
		for k := 0; k < u.NumFields(); k++ {
			if gcHasPointers(u.Field(k).Type()) {
				return true
			}
		}
		return false
	}
	return true // pointers, slices, maps, chans, funcs, interfaces
}

// gcGrowCap: capacity of the slice growslice returns when a slice of capacity oldCap and
// element type elem must hold newLen elements.
func gcGrowCap(newLen, oldCap int, elem types.Type) int {
	newcap := gcNextSliceCap(newLen, oldCap)
	if elem == nil {
		return newcap
	}
	es := uintptr(gcSizes.Sizeof(elem))
	if es == 0 {
		return newcap
	}
	mem := gcRoundupSize(uintptr(newcap)*es, !gcHasPointers(elem))
	c := int(mem / es)
	if c < newLen {
		return newLen
	}
	return c
}

// gcBytesOfString: []byte(s) on the heap path: len(s) bytes in a block of the rounded-up size.
func gcBytesOfString(b []value) []value {
	n := len(b)
	c := int(gcRoundupSize(uintptr(n), true))
	if c < n {
		c = n
	}
	out := make([]value, n, c)
	copy(out, b)
	spare := out[n:c]
	for k := range spare {
		spare[k] = uint8(0)
	}
	return out
}
