package interp

import (
	"fmt"
	"go/token"
	"go/types"
	"math"

	"gosym/sym"
)

// intInfo returns the width and signedness of a Go integer/bool basic kind.
func intInfo(t types.Type) (w int, signed bool, ok bool) {
	b, isB := t.Underlying().(*types.Basic)
	if !isB {
		return 0, false, false
	}
	switch b.Kind() {
	case types.Int, types.Int64, types.UntypedInt:
		return 64, true, true
	case types.Int8:
		return 8, true, true
	case types.Int16:
		return 16, true, true
	case types.Int32, types.UntypedRune:
		return 32, true, true
	case types.Uint, types.Uint64, types.Uintptr:
		return 64, false, true
	case types.Uint8:
		return 8, false, true
	case types.Uint16:
		return 16, false, true
	case types.Uint32:
		return 32, false, true
	}
	return 0, false, false
}

func isFloatType(t types.Type) bool {
	b, ok := t.Underlying().(*types.Basic)
	return ok && b.Info()&types.IsFloat != 0
}

// lift converts a concrete scalar to a term; terms pass through.
func (i *interpreter) lift(v value) *sym.Term {
	c := i.ctx
	switch x := v.(type) {
	case *sym.Term:
		return x
	case bool:
		return c.BoolC(x)
	case int:
		return c.BVC(64, uint64(x))
	case int8:
		return c.BVC(8, uint64(x))
	case int16:
		return c.BVC(16, uint64(x))
	case int32:
		return c.BVC(32, uint64(x))
	case int64:
		return c.BVC(64, uint64(x))
	case uint:
		return c.BVC(64, uint64(x))
	case uint8:
		return c.BVC(8, uint64(x))
	case uint16:
		return c.BVC(16, uint64(x))
	case uint32:
		return c.BVC(32, uint64(x))
	case uint64:
		return c.BVC(64, x)
	case uintptr:
		return c.BVC(64, uint64(x))
	}
	panic(fmt.Sprintf("lift: %T", v))
}

// signedDyn reports whether a concrete integer value has a signed Go type.
func signedDyn(v value) (bool, bool) {
	switch v.(type) {
	case int, int8, int16, int32, int64:
		return true, true
	case uint, uint8, uint16, uint32, uint64, uintptr:
		return false, true
	}
	return false, false
}

// concretize converts a constant term back to the Go value of type t.
func (i *interpreter) termToGo(t types.Type, x *sym.Term) value {
	if !x.IsConst() {
		return x
	}
	if x.Sort.K == sym.KBool {
		return x.U == 1
	}
	b, ok := t.Underlying().(*types.Basic)
	if !ok {
		return x
	}
	switch b.Kind() {
	case types.Int, types.UntypedInt:
		return int(x.SignedVal())
	case types.Int8:
		return int8(x.SignedVal())
	case types.Int16:
		return int16(x.SignedVal())
	case types.Int32, types.UntypedRune:
		return int32(x.SignedVal())
	case types.Int64:
		return int64(x.SignedVal())
	case types.Uint:
		return uint(x.U)
	case types.Uint8:
		return uint8(x.U)
	case types.Uint16:
		return uint16(x.U)
	case types.Uint32:
		return uint32(x.U)
	case types.Uint64:
		return uint64(x.U)
	case types.Uintptr:
		return uintptr(x.U)
	}
	return x
}

// goIntOfWidth builds the Go integer value of a kind described by (w, signed).
func goIntOf(w int, signed bool, u uint64) value {
	switch {
	case signed && w == 64:
		return int(int64(u)) // note: int and int64 share the representation; callers use typed variants
	case signed && w == 32:
		return int32(u)
	case signed && w == 16:
		return int16(u)
	case signed && w == 8:
		return int8(u)
	case w == 64:
		return uint64(u)
	case w == 32:
		return uint32(u)
	case w == 16:
		return uint16(u)
	}
	return uint8(u)
}

// symBinop handles binary operators when at least one operand is symbolic.
func (i *interpreter) symBinop(op token.Token, t types.Type, x, y value) value {
	c := i.ctx
	// strings
	switch x.(type) {
	case string, sstr:
		return i.symStrBinop(op, x, y)
	}
	if _, ok := y.(sstr); ok {
		return i.symStrBinop(op, x, y)
	}
	// floats
	if _, ok := x.(*FV); ok {
		return i.fBinop(op, i.toFV(x), i.toFV(y))
	}
	if _, ok := y.(*FV); ok {
		return i.fBinop(op, i.toFV(x), i.toFV(y))
	}
	// bools
	if xb, ok := x.(bool); ok {
		x = c.BoolC(xb)
	}
	if yb, ok := y.(bool); ok {
		y = c.BoolC(yb)
	}
	if xt, ok := x.(*sym.Term); ok && xt.Sort.K == sym.KBool {
		yt := i.lift(y)
		switch op {
		case token.EQL:
			return simp(c.Eq(xt, yt))
		case token.NEQ:
			return simp(c.Not(c.Eq(xt, yt)))
		case token.AND, token.LAND:
			return simp(c.And(xt, yt))
		case token.OR, token.LOR:
			return simp(c.Or(xt, yt))
		}
		panic(fmt.Sprintf("symBinop: bool op %s", op))
	}
	// integers
	signed := false
	if t != nil {
		_, signed, _ = intInfo(t)
	} else if s, ok := signedDyn(x); ok {
		signed = s
	} else if s, ok := signedDyn(y); ok {
		signed = s
	}
	switch op {
	case token.SHL, token.SHR:
		xt := i.lift(x)
		w := int(xt.Sort.W)
		// shift count may have a different width and signedness
		var yt *sym.Term
		ysigned := false
		if yc, ok := y.(*sym.Term); ok {
			yt = yc
			ysigned = i.shiftCountSigned
		} else {
			ysigned, _ = signedDyn(y)
			yt = i.lift(y)
		}
		if ysigned {
			neg := c.BvSlt(yt, c.BVC(int(yt.Sort.W), 0))
			if i.decide(neg) {
				panic(targetPanic{i.rtErr("negative shift amount")})
			}
		}
		// normalise count to width w, saturating
		yw := int(yt.Sort.W)
		var cnt *sym.Term
		if yw <= w {
			cnt = c.ZExt(yt, w)
		} else {
			big := c.BvUle(c.BVC(yw, uint64(w)), yt)
			cnt = c.Ite(big, c.BVC(w, uint64(w)), c.Extract(yt, w-1, 0))
		}
		var r *sym.Term
		if op == token.SHL {
			r = c.BvShl(xt, cnt)
		} else if signed {
			r = c.BvAShr(xt, cnt)
		} else {
			r = c.BvLShr(xt, cnt)
		}
		return i.termToGoDyn(r, x, signed)
	}
	xt, yt := i.lift(x), i.lift(y)
	if xt.Sort != yt.Sort {
		panic(fmt.Sprintf("symBinop %s: sort mismatch %v vs %v (%T, %T)", op, xt.Sort, yt.Sort, x, y))
	}
	w := int(xt.Sort.W)
	var r *sym.Term
	switch op {
	case token.ADD:
		r = c.BvAdd(xt, yt)
	case token.SUB:
		r = c.BvSub(xt, yt)
	case token.MUL:
		r = c.BvMul(xt, yt)
	case token.QUO, token.REM:
		zero := c.Eq(yt, c.BVC(w, 0))
		if i.decide(zero) {
			panic(targetPanic{i.rtErr("integer divide by zero")})
		}
		switch {
		case op == token.QUO && signed:
			r = c.BvSDiv(xt, yt)
		case op == token.QUO:
			r = c.BvUDiv(xt, yt)
		case signed:
			r = c.BvSRem(xt, yt)
		default:
			r = c.BvURem(xt, yt)
		}
	case token.AND:
		r = c.BvAnd(xt, yt)
	case token.OR:
		r = c.BvOr(xt, yt)
	case token.XOR:
		r = c.BvXor(xt, yt)
	case token.AND_NOT:
		r = c.BvAnd(xt, c.BvNot(yt))
	case token.EQL:
		return simp(c.Eq(xt, yt))
	case token.NEQ:
		return simp(c.Not(c.Eq(xt, yt)))
	case token.LSS:
		if signed {
			return simp(c.BvSlt(xt, yt))
		}
		return simp(c.BvUlt(xt, yt))
	case token.LEQ:
		if signed {
			return simp(c.BvSle(xt, yt))
		}
		return simp(c.BvUle(xt, yt))
	case token.GTR:
		if signed {
			return simp(c.BvSlt(yt, xt))
		}
		return simp(c.BvUlt(yt, xt))
	case token.GEQ:
		if signed {
			return simp(c.BvSle(yt, xt))
		}
		return simp(c.BvUle(yt, xt))
	default:
		panic(fmt.Sprintf("symBinop: unexpected op %s", op))
	}
	return i.termToGoDyn(r, x, signed)
}

// termToGoDyn converts constant results back to concrete Go values using type information
// from t (if present) or a concrete operand.
func (i *interpreter) termToGoDyn(r *sym.Term, like value, signed bool) value {
	if !r.IsConst() {
		return r
	}
	if _, ok := like.(*sym.Term); ok || like == nil {
		// cannot distinguish int from int64 etc.: keep as a (constant) term; lift() is idempotent on it
		return r
	}
	return castLike(like, r.U)
}

// castLike produces a Go integer of the same dynamic type as like with bits u.
func castLike(like value, u uint64) value {
	switch like.(type) {
	case int:
		return int(u)
	case int8:
		return int8(u)
	case int16:
		return int16(u)
	case int32:
		return int32(u)
	case int64:
		return int64(u)
	case uint:
		return uint(u)
	case uint8:
		return uint8(u)
	case uint16:
		return uint16(u)
	case uint32:
		return uint32(u)
	case uint64:
		return uint64(u)
	case uintptr:
		return uintptr(u)
	}
	panic(fmt.Sprintf("castLike: %T", like))
}

func (i *interpreter) symStrBinop(op token.Token, x, y value) value {
	switch op {
	case token.ADD:
		return mkStr(append(append([]value{}, strBytes(x)...), strBytes(y)...))
	case token.EQL:
		return i.strEq(x, y)
	case token.NEQ:
		return i.not(i.strEq(x, y))
	case token.LSS:
		return i.strLess(x, y, false)
	case token.LEQ:
		return i.strLess(x, y, true)
	case token.GTR:
		return i.strLess(y, x, false)
	case token.GEQ:
		return i.strLess(y, x, true)
	}
	panic(fmt.Sprintf("symStrBinop: %s", op))
}

// strLess computes x < y (or x <= y) lexicographically.
func (i *interpreter) strLess(x, y value, orEq bool) value {
	xb, yb := strBytes(x), strBytes(y)
	c := i.ctx
	n := len(xb)
	if len(yb) < n {
		n = len(yb)
	}
	// tail: all of the common prefix equal
	var tail *sym.Term
	if len(xb) < len(yb) {
		tail = c.True()
	} else if len(xb) == len(yb) {
		tail = c.BoolC(orEq)
	} else {
		tail = c.False()
	}
	acc := tail
	for k := n - 1; k >= 0; k-- {
		a, b := i.lift(xb[k]), i.lift(yb[k])
		acc = c.Ite(c.BvUlt(a, b), c.True(), c.Ite(c.Eq(a, b), acc, c.False()))
	}
	return simp(acc)
}

func (i *interpreter) symUnop(op token.Token, t types.Type, x value) value {
	c := i.ctx
	switch x := x.(type) {
	case *FV:
		if op == token.SUB {
			return i.fNeg(x)
		}
	case *sym.Term:
		switch op {
		case token.NOT:
			return simp(c.Not(x))
		case token.SUB:
			return c.BvNeg(x)
		case token.XOR:
			return c.BvNot(x)
		}
	}
	panic(fmt.Sprintf("symUnop: %s %T", op, x))
}

// symConv converts symbolic scalars between numeric types.
func (i *interpreter) symConv(t_dst, t_src types.Type, x value) value {
	c := i.ctx
	ud := t_dst.Underlying()
	switch xv := x.(type) {
	case *sym.Term:
		if xv.Sort.K == sym.KBool {
			return xv
		}
		_, ssigned, _ := intInfo(t_src)
		if dw, _, ok := intInfo(t_dst); ok {
			var r *sym.Term
			if ssigned {
				r = c.SExt(xv, dw)
			} else {
				r = c.ZExt(xv, dw)
			}
			return i.termToGo(t_dst, r)
		}
		if isFloatType(t_dst) {
			return &FV{Nan: c.False(), Inf: c.False(), V: c.ToReal(c.Bv2IntSmart(xv, ssigned))}
		}
		if b, ok := ud.(*types.Basic); ok && b.Kind() == types.String {
			// string(rune) of a symbolic value: only ASCII supported
			w := int(xv.Sort.W)
			ascii := c.BvUlt(xv, c.BVC(w, 0x80))
			if i.decide(ascii) {
				return mkStr([]value{value(c.Extract(xv, 7, 0))})
			}
			i.unsupported("string(rune) of a symbolic non-ASCII value")
		}
	case *FV:
		if isFloatType(t_dst) {
			return xv
		}
		if dw, dsigned, ok := intInfo(t_dst); ok {
			return i.fToInt(xv, dw, dsigned)
		}
	}
	panic(fmt.Sprintf("symConv: unsupported %s -> %s (%T)", t_src, t_dst, x))
}

// iteVal merges two values under condition cond: ite(cond, a, b). ok=false if not mergeable.
func (i *interpreter) iteVal(cond *sym.Term, a, b value) (value, bool) {
	if a == nil && b == nil {
		return nil, true
	}
	c := i.ctx
	switch av := a.(type) {
	case *sym.Term:
		switch b.(type) {
		case *sym.Term, bool, int, int8, int16, int32, int64, uint, uint8, uint16, uint32, uint64, uintptr:
			bt := i.lift(b)
			if av.Sort != bt.Sort {
				return nil, false
			}
			r := c.Ite(cond, av, bt)
			if r.IsConst() {
				if _, isT := b.(*sym.Term); !isT {
					if r.Sort.K == sym.KBool {
						return r.U == 1, true
					}
					return castLike(b, r.U), true
				}
			}
			return r, true
		}
		return nil, false
	case bool, int, int8, int16, int32, int64, uint, uint8, uint16, uint32, uint64, uintptr:
		switch bv := b.(type) {
		case *sym.Term:
			at := i.lift(a)
			if at.Sort != bv.Sort {
				return nil, false
			}
			r := c.Ite(cond, at, bv)
			if r.IsConst() {
				if r.Sort.K == sym.KBool {
					return r.U == 1, true
				}
				return castLike(a, r.U), true
			}
			return r, true
		case bool, int, int8, int16, int32, int64, uint, uint8, uint16, uint32, uint64, uintptr:
			if a == b {
				return a, true
			}
			if fmt.Sprintf("%T", a) != fmt.Sprintf("%T", b) {
				return nil, false
			}
			r := c.Ite(cond, i.lift(a), i.lift(b))
			return r, true
		}
		return nil, false
	case float64, float32, *FV:
		switch b.(type) {
		case float64, float32, *FV:
			if af, ok := a.(float64); ok {
				if bf, ok := b.(float64); ok && (af == bf || (af != af && bf != bf)) && math.Signbit(af) == math.Signbit(bf) {
					return a, true
				}
			}
			fa, fb := i.toFV(a), i.toFV(b)
			return &FV{Nan: c.Ite(cond, fa.Nan, fb.Nan), Inf: c.Ite(cond, fa.Inf, fb.Inf), V: c.Ite(cond, fa.V, fb.V)}, true
		}
		return nil, false
	case string, sstr:
		switch b.(type) {
		case string, sstr:
			ab, bb := strBytes(a), strBytes(b)
			if len(ab) != len(bb) {
				return nil, false
			}
			out := make([]value, len(ab))
			for k := range ab {
				v, ok := i.iteVal(cond, ab[k], bb[k])
				if !ok {
					return nil, false
				}
				out[k] = v
			}
			return mkStr(out), true
		}
		return nil, false
	case structure:
		bs, ok := b.(structure)
		if !ok || len(bs) != len(av) {
			return nil, false
		}
		out := make(structure, len(av))
		for k := range av {
			v, ok := i.iteVal(cond, av[k], bs[k])
			if !ok {
				return nil, false
			}
			out[k] = v
		}
		return out, true
	case array:
		bs, ok := b.(array)
		if !ok || len(bs) != len(av) {
			return nil, false
		}
		out := make(array, len(av))
		for k := range av {
			v, ok := i.iteVal(cond, av[k], bs[k])
			if !ok {
				return nil, false
			}
			out[k] = v
		}
		return out, true
	case tuple:
		bs, ok := b.(tuple)
		if !ok || len(bs) != len(av) {
			return nil, false
		}
		out := make(tuple, len(av))
		for k := range av {
			v, ok := i.iteVal(cond, av[k], bs[k])
			if !ok {
				return nil, false
			}
			out[k] = v
		}
		return out, true
	case iface:
		bi, ok := b.(iface)
		if !ok || !sameType(av.t, bi.t) {
			return nil, false
		}
		if av.t == nil {
			return a, true
		}
		v, ok := i.iteVal(cond, av.v, bi.v)
		if !ok {
			return nil, false
		}
		return iface{t: av.t, v: v}, true
	case *value:
		if bp, ok := b.(*value); ok && bp == av {
			return a, true
		}
		return nil, false
	case []value:
		if bs, ok := b.([]value); ok && len(bs) == len(av) && cap(bs) == cap(av) && (len(av) == 0 && (av == nil) == (bs == nil) || len(av) > 0 && &av[0] == &bs[0]) {
			return a, true
		}
		return nil, false
	case *omap:
		if bm, ok := b.(*omap); ok && bm == av {
			return a, true
		}
		return nil, false
	case *channel:
		if bm, ok := b.(*channel); ok && bm == av {
			return a, true
		}
		return nil, false
	case *closure:
		if bm, ok := b.(*closure); ok && bm == av {
			return a, true
		}
		return nil, false
	}
	// functions and other identity-compared values
	defer func() { recover() }()
	if a == b {
		return a, true
	}
	return nil, false
}
