package interp

import (
	"fmt"
	"go/token"
	"go/types"
	"os"
	"sort"
	"strings"
	"sync"
	"time"

	"golang.org/x/tools/go/packages"
	"golang.org/x/tools/go/ssa"
	"golang.org/x/tools/go/ssa/ssautil"

	"gosym/sym"
)

var (
	tokADD = token.ADD
	tInt   = types.Typ[types.Int]
)

// Program is a loaded and SSA-built view of the repository plus overlay harnesses.
type Program struct {
	Prog     *ssa.Program
	Pkgs     []*packages.Package
	SSAPkgs  []*ssa.Package
	LoadSecs float64
}

// Load type-checks and builds SSA for the given package patterns of the module in dir.
func Load(dir string, overlay map[string][]byte, patterns []string, tags string) (*Program, error) {
	t0 := time.Now()
	cfg := &packages.Config{
		Mode:       packages.LoadAllSyntax,
		Dir:        dir,
		Overlay:    overlay,
		BuildFlags: []string{"-tags=" + tags},
		Env:        append(os.Environ(), "GOFLAGS=-mod=mod", "GOPROXY=off", "GOSUMDB=off", "GOTOOLCHAIN=local"),
	}
	pkgs, err := packages.Load(cfg, patterns...)
	if err != nil {
		return nil, err
	}
	var errs []string
	packages.Visit(pkgs, nil, func(p *packages.Package) {
		for _, e := range p.Errors {
			errs = append(errs, e.Error())
		}
	})
	if len(errs) > 0 {
		return nil, fmt.Errorf("load errors:\n%s", strings.Join(errs, "\n"))
	}
	prog, spkgs := ssautil.AllPackages(pkgs, ssa.InstantiateGenerics)
	prog.Build()
	return &Program{Prog: prog, Pkgs: pkgs, SSAPkgs: spkgs, LoadSecs: time.Since(t0).Seconds()}, nil
}

// Harnesses lists package-level functions whose name starts with prefix.
func (p *Program) Harnesses(prefix string) []*ssa.Function {
	var out []*ssa.Function
	for _, sp := range p.SSAPkgs {
		if sp == nil {
			continue
		}
		for name, m := range sp.Members {
			if fn, ok := m.(*ssa.Function); ok && strings.HasPrefix(name, prefix) && fn.Signature.Params().Len() == 0 {
				out = append(out, fn)
			}
		}
	}
	sort.Slice(out, func(a, b int) bool { return out[a].String() < out[b].String() })
	return out
}

// ---------------------------------------------------------------- workers

// Worker is one exploration thread: an interpreter with its own term context and solver.
type Worker struct {
	i *interpreter
}

func (p *Program) NewWorker(solverBin string) (*Worker, error) {
	i := &interpreter{
		prog:     p.Prog,
		globals:  make(map[*ssa.Global]*value),
		sizes:    &types.StdSizes{WordSize: 8, MaxAlign: 8},
		ctx:      sym.NewCtx(),
		qcache:   map[string]sym.Result{},
		varsMemo: map[int]map[int]struct{}{},
		concCap:  4096,
	}
	s, err := sym.NewSolver(i.ctx, solverBin)
	if err != nil {
		return nil, err
	}
	i.solver = s
	runtimePkg := p.Prog.ImportedPackage("runtime")
	if runtimePkg == nil {
		return nil, fmt.Errorf("ssa.Program doesn't include runtime package")
	}
	i.runtimeErrorString = runtimePkg.Type("errorString").Object().Type()
	for _, pkg := range p.Prog.AllPackages() {
		for _, m := range pkg.Members {
			if g, ok := m.(*ssa.Global); ok {
				cell := zero(mustDeref(g.Type()))
				i.globals[g] = &cell
			}
		}
	}
	return &Worker{i: i}, nil
}

func (w *Worker) Close() { w.i.solver.Close() }

// InitPackage runs the package initialiser (and, recursively, those of whitelisted imports).
func (w *Worker) InitPackage(pkg *ssa.Package) (err error) {
	i := w.i
	i.cfg = Config{MaxSteps: 1 << 40, QueryTimeout: 10000}
	i.resetThreads()
	defer func() {
		if r := recover(); r != nil {
			err = fmt.Errorf("init of %s failed: %v", pkg.Pkg.Path(), r)
			if tp, ok := r.(targetPanic); ok {
				err = fmt.Errorf("init of %s panicked: %s", pkg.Pkg.Path(), i.panicString(tp.v))
			}
		}
	}()
	i.pc = nil
	call(i, nil, token.NoPos, pkg.Func("init"), nil)
	// facts established while initialising package-level variables (brackets of transcendental
	// functions applied to constants, e.g. var x = math.Log(c)) hold on every path
	i.initPC = append(i.initPC, i.pc...)
	i.pc = nil
	return nil
}

// HarnessStats aggregates exploration results for one harness.
type HarnessStats struct {
	Name      string
	Paths     map[string]int // by status
	Decisions int64
	Steps     int64
	MaxDepth  int
	Findings  []Finding
	Reaches   map[string]int
	Funcs     map[string]int64
	Witnesses []Witness
	Msgs      map[string]int // inconclusive messages
	Races     []Race
	ForkSites map[string]int
	MergeFails map[string]int
	WallSecs  float64
	eventSeen map[string]int
	mu        sync.Mutex
}

// Witness is a concrete input for an explored path together with the engine's predictions.
type Witness struct {
	Harness  string    `json:"harness"`
	Tape     []TapeEnt `json:"tape"`
	Reaches  []string  `json:"reaches"`
	Observed []string  `json:"observed"`
	Status   string    `json:"status"`
}

type workItem struct {
	h      int
	prefix []Decision // materialised when the item is taken
	alt    *Alt
}

// ExploreOpts control a run over several harnesses.
type ExploreOpts struct {
	Workers       int
	SolverBin     string
	Deadline      time.Time
	MaxPaths      int // per harness; 0 = unlimited
	WitnessPer    int // witnesses to keep per harness
	Debug, Trace  bool
	Progress      time.Duration
	Overrides     map[string]map[string]string // harness -> function -> override kind
}

// Explore runs all harnesses to completion (or deadline) over a shared work queue.
func (p *Program) Explore(fns []*ssa.Function, cfgs []Config, opt ExploreOpts) ([]*HarnessStats, *sym.Stats, error) {
	stats := make([]*HarnessStats, len(fns))
	for k, fn := range fns {
		stats[k] = &HarnessStats{Name: fn.Name(), Paths: map[string]int{}, Reaches: map[string]int{}, Funcs: map[string]int64{}, Msgs: map[string]int{}, eventSeen: map[string]int{}}
	}
	var mu sync.Mutex
	cond := sync.NewCond(&mu)
	var queue []workItem
	for k := range fns {
		queue = append(queue, workItem{h: k})
	}
	active := 0
	pathsStarted := make([]int, len(fns))
	starts := make([]time.Time, len(fns))
	var firstErr error
	total := &sym.Stats{}
	var wg sync.WaitGroup
	nw := opt.Workers
	if nw < 1 {
		nw = 1
	}
	timedOut := false
	for wk := 0; wk < nw; wk++ {
		wg.Add(1)
		go func(wk int) {
			defer wg.Done()
			w, err := p.NewWorker(opt.SolverBin)
			if err != nil {
				mu.Lock()
				firstErr = err
				mu.Unlock()
				return
			}
			defer func() { w.Close() }()
			w.i.Debug, w.i.Trace = opt.Debug, opt.Trace
			if opt.Trace {
				w.i.ForkSites = map[string]int{}
				w.i.MergeFails = map[string]int{}
			}
			inited := map[*ssa.Package]bool{}
			for {
				mu.Lock()
				for len(queue) == 0 && active > 0 {
					cond.Wait()
				}
				if len(queue) == 0 && active == 0 {
					mu.Unlock()
					cond.Broadcast()
					break
				}
				if !opt.Deadline.IsZero() && time.Now().After(opt.Deadline) {
					timedOut = true
					queue = nil
					mu.Unlock()
					cond.Broadcast()
					break
				}
				it := queue[len(queue)-1]
				queue = queue[:len(queue)-1]
				if opt.MaxPaths > 0 && pathsStarted[it.h] >= opt.MaxPaths {
					stats[it.h].mu.Lock()
					stats[it.h].Paths["skipped(maxpaths)"]++
					stats[it.h].mu.Unlock()
					mu.Unlock()
					continue
				}
				if pathsStarted[it.h] == 0 {
					starts[it.h] = time.Now()
				}
				pathsStarted[it.h]++
				active++
				mu.Unlock()

				if it.alt != nil {
					it.prefix = it.alt.Prefix()
					it.alt = nil
				}
				// the term table, the solver's definitions and the query cache of a worker only grow:
				// start afresh from time to time (paths are executed from the harness start anyway)
				if w.i.ctx.NumTerms() > 1500000 || len(w.i.qcache) > 2000000 {
					st := w.i.solver.St
					mu.Lock()
					total.Queries += st.Queries
					total.Sat += st.Sat
					total.Unsat += st.Unsat
					total.Unknown += st.Unknown
					total.Errors += st.Errors
					total.Seconds += st.Seconds
					total.Restarts += st.Restarts
					mu.Unlock()
					fresh, err := p.NewWorker(opt.SolverBin)
					if err == nil {
						fresh.i.Debug, fresh.i.Trace = w.i.Debug, w.i.Trace
						fresh.i.ForkSites, fresh.i.MergeFails = w.i.ForkSites, w.i.MergeFails
						w.Close()
						w = fresh
						inited = map[*ssa.Package]bool{}
					}
				}
				fn := fns[it.h]
				hs := stats[it.h]
				if !inited[fn.Pkg] {
					inited[fn.Pkg] = true
					if err := w.InitPackage(fn.Pkg); err != nil {
						hs.mu.Lock()
						hs.Msgs["init: "+err.Error()]++
						hs.mu.Unlock()
					}
				}
				i := w.i
				i.cfg = cfgs[it.h]
				i.harness = fn.Name()
				i.mapOrderExplore = i.cfg.MapOrder
				i.funcsHit = map[*ssa.Function]int64{}
				i.findings = nil
				res, alts := i.runPath(fn, it.prefix)

				hs.mu.Lock()
				status := res.Status
				if status == "ok" && i.sawUnknown {
					status = "ok(unknown-feasibility)"
				}
				if res.Status == "exit" && !i.allowExit {
					status = "exit(unexpected)"
				}
				hs.Paths[status]++
				hs.Decisions += int64(len(res.Decisions))
				hs.Steps += res.Steps
				if len(res.Decisions) > hs.MaxDepth {
					hs.MaxDepth = len(res.Decisions)
				}
				for _, r := range res.Reached {
					hs.Reaches[r]++
				}
				for f, n := range i.funcsHit {
					hs.Funcs[f.String()] += n
				}
				switch res.Status {
				case "unsupported", "unknown":
					hs.Msgs[res.Status+": "+res.Msg]++
				}
				if i.ForkSites != nil {
					if hs.ForkSites == nil {
						hs.ForkSites = map[string]int{}
						hs.MergeFails = map[string]int{}
					}
					for k, n := range i.ForkSites {
						hs.ForkSites[k] += n
					}
					for k, n := range i.MergeFails {
						hs.MergeFails[k] += n
					}
					i.ForkSites = map[string]int{}
					i.MergeFails = map[string]int{}
				}
				hs.Findings = append(hs.Findings, i.findings...)
				hs.Races = append(hs.Races, i.Races...)
				hs.WallSecs = time.Since(starts[it.h]).Seconds()
				hs.mu.Unlock()

				// keep a few concrete witnesses of explored paths for validation against the real code
				if res.Status == "ok" && !i.sawUnknown {
					hs.mu.Lock()
					need := len(hs.Witnesses) < opt.WitnessPer
					hs.mu.Unlock()
					if need {
						if r, tape, obs := i.solveModel(i.pc); r == sym.Sat {
							hs.mu.Lock()
							hs.Witnesses = append(hs.Witnesses, Witness{Harness: i.harness, Tape: tape,
								Reaches: res.Reached, Observed: obs, Status: "ok"})
							hs.mu.Unlock()
						}
					}
				}
				// data races detected on this path (happens-before) become findings
				for _, rc := range i.Races {
					key := "race: " + rc.A + " <-> " + rc.B
					hs.mu.Lock()
					seen := hs.eventSeen[key]
					hs.eventSeen[key]++
					hs.mu.Unlock()
					if seen < 2 { // a model for the first occurrences only
						res2 := res
						res2.Status = "race"
						res2.Msg = rc.A + " <-> " + rc.B
						w.eventFinding(hs, res2, it.prefix)
					}
				}
				// events that end a path abnormally become findings with a model
				switch res.Status {
				case "panic", "deadlock", "budget":
					key := res.Status + ": " + res.Msg
					hs.mu.Lock()
					seen := hs.eventSeen[key]
					hs.eventSeen[key]++
					hs.mu.Unlock()
					if seen < 3 {
						w.eventFinding(hs, res, it.prefix)
					}
				case "exit":
					if !i.allowExit {
						w.eventFinding(hs, res, it.prefix)
					}
				}

				mu.Lock()
				for k := range alts {
					queue = append(queue, workItem{h: it.h, alt: &alts[k]})
				}
				active--
				mu.Unlock()
				cond.Broadcast()
			}
			mu.Lock()
			st := w.i.solver.St
			total.Queries += st.Queries
			total.Sat += st.Sat
			total.Unsat += st.Unsat
			total.Unknown += st.Unknown
			total.Errors += st.Errors
			total.Seconds += st.Seconds
			total.Restarts += st.Restarts
			mu.Unlock()
		}(wk)
	}
	stopProg := make(chan struct{})
	if opt.Progress > 0 {
		go func() {
			tk := time.NewTicker(opt.Progress)
			defer tk.Stop()
			for {
				select {
				case <-stopProg:
					return
				case <-tk.C:
					mu.Lock()
					q := len(queue)
					var parts []string
					for k, hs := range stats {
						hs.mu.Lock()
						n := 0
						for _, c := range hs.Paths {
							n += c
						}
						hs.mu.Unlock()
						if pathsStarted[k] > n || (n > 0 && pathsStarted[k] == n && q > 0) {
							parts = append(parts, fmt.Sprintf("%s=%d", hs.Name, n))
						}
					}
					mu.Unlock()
					fmt.Fprintf(os.Stderr, "[progress] queue=%d active: %s\n", q, strings.Join(parts, " "))
				}
			}
		}()
	}
	wg.Wait()
	close(stopProg)
	if timedOut {
		for _, hs := range stats {
			hs.Msgs["deadline reached before the exploration finished"]++
		}
	}
	return stats, total, firstErr
}

// eventFinding re-derives a model for a path that ended in a panic/exit/deadlock. The path
// state (pc, tape) is still available in the interpreter right after runPath.
func (w *Worker) eventFinding(hs *HarnessStats, res PathResult, prefix []Decision) {
	i := w.i
	kind := res.Status
	if kind == "budget" {
		kind = "hang" // confirmed (or not) by the native replay under a watchdog
	}
	as := append([]*sym.Term{}, i.pc...)
	r, tape, obs := i.solveModel(as)
	f := Finding{Kind: kind, Label: kind, Msg: res.Msg, Harness: i.harness, Decs: res.Decisions,
		Reaches: res.Reached, Observed: obs}
	if r == sym.Sat {
		f.Tape = tape
		f.Script = i.ctx.Script(as, i.solver.Axioms(), false)
	} else {
		f.Kind = "unknown"
		f.Msg = "no model for " + kind + " event: " + res.Msg
	}
	hs.mu.Lock()
	hs.Findings = append(hs.Findings, f)
	hs.mu.Unlock()
}
