package interp

import (
	"fmt"
	"go/types"

	"gosym/sym"
)

// omap is the engine's map: an insertion-ordered association list with an index for
// concrete scalar keys. Keys may be symbolic; the invariant on every path is that
// the live keys are pairwise distinct under the path condition.
type omap struct {
	keyT, elemT types.Type
	ents        []ment
	idx         map[interface{}]int // concrete comparable keys -> position in ents
	live        int
	nsym        int // live entries with symbolic keys
}

type ment struct {
	k    value
	vp   *value // value cell (stable address: updates go through setCell)
	dead bool
}

func newOmap(keyT, elemT types.Type) *omap {
	return &omap{keyT: keyT, elemT: elemT, idx: map[interface{}]int{}}
}

// indexable reports whether k can be used as a Go map key directly.
func indexable(k value) bool {
	switch k.(type) {
	case bool, int, int8, int16, int32, int64, uint, uint8, uint16, uint32, uint64, uintptr,
		float32, float64, complex64, complex128, string, *value, *channel, *omap:
		return true
	}
	return false
}

func (m *omap) len() int {
	if m == nil {
		return 0
	}
	return m.live
}

// find returns candidates for key: an exact (concretely equal) position or -1, and the list of
// (condition, position) pairs for entries whose equality with key is symbolic.
type mcand struct {
	cond *sym.Term
	pos  int
}

func (i *interpreter) mapFind(m *omap, key value) (exact int, cands []mcand) {
	exact = -1
	if m == nil {
		return
	}
	keySym := isSymDeep(key)
	if !keySym && m.nsym == 0 && indexable(key) {
		if p, ok := m.idx[key]; ok {
			exact = p
		}
		return
	}
	if !keySym && indexable(key) {
		if p, ok := m.idx[key]; ok {
			exact = p
			return // distinctness invariant: no symbolic key can equal it
		}
		// only symbolic keys can match
		for p := range m.ents {
			e := &m.ents[p]
			if e.dead || !isSymDeep(e.k) {
				continue
			}
			switch c := i.equals(m.keyT, key, e.k).(type) {
			case bool:
				if c {
					exact = p
					return
				}
			case *sym.Term:
				cands = append(cands, mcand{c, p})
			}
		}
		return
	}
	for p := range m.ents {
		e := &m.ents[p]
		if e.dead {
			continue
		}
		switch c := i.equals(m.keyT, key, e.k).(type) {
		case bool:
			if c {
				exact = p
				return
			}
		case *sym.Term:
			cands = append(cands, mcand{c, p})
		}
	}
	return
}

func isSymDeep(v value) bool {
	switch x := v.(type) {
	case *sym.Term, *FV, sstr:
		return true
	case structure:
		for _, e := range x {
			if isSymDeep(e) {
				return true
			}
		}
	case array:
		for _, e := range x {
			if isSymDeep(e) {
				return true
			}
		}
	case iface:
		return isSymDeep(x.v)
	}
	return false
}

// mapLookup returns (value, ok). ok is bool or *sym.Term.
func (i *interpreter) mapLookup(m *omap, key value, elemT types.Type) (value, value) {
	exact, cands := i.mapFind(m, key)
	if len(cands) == 0 {
		if exact >= 0 {
			i.raceRead(m.ents[exact].vp)
			return copyVal(*m.ents[exact].vp), true
		}
		if elemT == nil {
			return iface{}, false
		}
		return zero(elemT), false
	}
	// try an ite chain
	var res value
	var ok value
	if exact >= 0 {
		res, ok = copyVal(*m.ents[exact].vp), true
	} else if elemT == nil {
		res, ok = iface{}, false
	} else {
		res, ok = zero(elemT), false
	}
	merged := true
	for k := len(cands) - 1; k >= 0; k-- {
		cd := cands[k]
		r, good := i.iteVal(cd.cond, copyVal(*m.ents[cd.pos].vp), res)
		if !good {
			merged = false
			break
		}
		res = r
		ok = i.or(cd.cond, ok)
	}
	if merged {
		return res, ok
	}
	// fall back to path decisions
	for _, cd := range cands {
		if i.decide(cd.cond) {
			return copyVal(*m.ents[cd.pos].vp), true
		}
	}
	if exact >= 0 {
		return copyVal(*m.ents[exact].vp), true
	}
	if elemT == nil {
		return iface{}, false
	}
	return zero(elemT), false
}

func (i *interpreter) mapUpdate(m *omap, key, v value) {
	if m == nil {
		panic(targetPanic{i.rtErr("assignment to entry in nil map")})
	}
	exact, cands := i.mapFind(m, key)
	for _, cd := range cands {
		if i.decide(cd.cond) {
			i.mapSetAt(m, cd.pos, v)
			return
		}
	}
	if exact >= 0 {
		i.mapSetAt(m, exact, v)
		return
	}
	i.mapInsert(m, key, v)
}

func (i *interpreter) mapSetAt(m *omap, pos int, v value) {
	i.setCell(m.ents[pos].vp, copyVal(v))
}

func (i *interpreter) mapInsert(m *omap, key, v value) {
	if i.specDepth > 0 {
		i.mergeAbort("map insertion inside a merged region")
	}
	pos := len(m.ents)
	cell := new(value)
	*cell = copyVal(v)
	m.ents = append(m.ents, ment{k: copyVal(key), vp: cell})
	m.live++
	sym := isSymDeep(key)
	if sym {
		m.nsym++
	} else if indexable(key) {
		m.idx[key] = pos
	}
	if i.trailOn {
		i.trail = append(i.trail, trailEnt{undo: func() {
			m.ents = m.ents[:pos]
			m.live--
			if sym {
				m.nsym--
			} else if indexable(key) {
				delete(m.idx, key)
			}
		}})
	}
}

func (i *interpreter) mapDelete(m *omap, key value) {
	if m == nil {
		return
	}
	exact, cands := i.mapFind(m, key)
	pos := -1
	for _, cd := range cands {
		if i.decide(cd.cond) {
			pos = cd.pos
			break
		}
	}
	if pos < 0 {
		pos = exact
	}
	if pos < 0 {
		return
	}
	if i.specDepth > 0 {
		i.mergeAbort("map deletion inside a merged region")
	}
	e := &m.ents[pos]
	k := e.k
	sym := isSymDeep(k)
	e.dead = true
	m.live--
	if sym {
		m.nsym--
	} else if indexable(k) {
		delete(m.idx, k)
	}
	if i.trailOn {
		i.trail = append(i.trail, trailEnt{undo: func() {
			m.ents[pos].dead = false
			m.live++
			if sym {
				m.nsym++
			} else if indexable(k) {
				m.idx[k] = pos
			}
		}})
	}
}

// mapIter iterates in an order chosen by the interpreter's map-order policy.
type mapIter struct {
	i     *interpreter
	m     *omap
	order []int // positions still to visit (computed at creation)
	k     int
}

func (i *interpreter) newMapIter(m *omap) *mapIter {
	it := &mapIter{i: i, m: m}
	if m == nil {
		return it
	}
	for p := range m.ents {
		if !m.ents[p].dead {
			it.order = append(it.order, p)
		}
	}
	if i.mapOrderExplore && len(it.order) >= 2 {
		it.order = i.chooseOrder(it.order)
	}
	return it
}

func (it *mapIter) next() tuple {
	for it.k < len(it.order) {
		p := it.order[it.k]
		it.k++
		if p < len(it.m.ents) && !it.m.ents[p].dead {
			e := it.m.ents[p]
			return tuple{true, copyVal(e.k), copyVal(*e.vp)}
		}
	}
	// entries appended during iteration are visited last (permitted by the spec)
	if it.m != nil {
		seen := map[int]bool{}
		for _, p := range it.order {
			seen[p] = true
		}
		for p := range it.m.ents {
			if !seen[p] && !it.m.ents[p].dead {
				it.order = append(it.order, p)
				it.k = len(it.order)
				e := it.m.ents[p]
				return tuple{true, copyVal(e.k), copyVal(*e.vp)}
			}
		}
	}
	return tuple{false, nil, nil}
}

// chooseOrder picks an iteration order as path decisions: all permutations for up to 4
// entries, rotations of insertion order and its reverse above that.
func (i *interpreter) chooseOrder(pos []int) []int {
	n := len(pos)
	if n <= 4 {
		rest := append([]int{}, pos...)
		var out []int
		for len(rest) > 1 {
			k := i.choose(len(rest), "maporder")
			out = append(out, rest[k])
			rest = append(rest[:k:k], rest[k+1:]...)
		}
		return append(out, rest[0])
	}
	k := i.choose(2*n, "maporder")
	out := make([]int, n)
	if k < n {
		for j := 0; j < n; j++ {
			out[j] = pos[(j+k)%n]
		}
	} else {
		k -= n
		for j := 0; j < n; j++ {
			out[j] = pos[((n-1-j)+k)%n]
		}
	}
	return out
}

func (i *interpreter) rangeIter(x value, t types.Type) iter {
	switch x := x.(type) {
	case *omap:
		return i.newMapIter(x)
	case string, sstr:
		return &stringIter{i: i, b: strBytes(x)}
	}
	panic(fmt.Sprintf("cannot range over %T", x))
}
