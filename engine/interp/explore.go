package interp

import (
	"encoding/binary"
	"hash/fnv"
	"fmt"
	"go/types"
	"sort"
	"strings"

	"golang.org/x/tools/go/ssa"

	"gosym/sym"
)

// ---------------------------------------------------------------- internal control-flow panics

type abortKind int

const (
	abAssume      abortKind = iota // assumption infeasible: path silently pruned
	abUnsupported                  // the engine cannot execute something: path inconclusive
	abBudget                       // step / unwinding budget exceeded
	abMerge                        // speculative merge must be abandoned
	abExit                         // os.Exit reached
	abStop                         // path intentionally stopped (after violation)
	abKill                         // thread killed at path end
	abDeadlock
	abUnknown // solver returned unknown on a feasibility query needed to continue
	abBound   // a declared bound of the harness was reached (e.g. number of random draws): path cut, outside the claim
)

type pathAbort struct {
	kind abortKind
	msg  string
	code int
}

func (i *interpreter) unsupported(msg string) {
	if i.specDepth > 0 {
		panic(pathAbort{kind: abMerge, msg: msg})
	}
	panic(pathAbort{kind: abUnsupported, msg: msg + i.where()})
}

func (i *interpreter) mergeAbort(msg string) { panic(pathAbort{kind: abMerge, msg: msg}) }

func (i *interpreter) where() string {
	if i.curFrame == nil {
		return ""
	}
	fr := i.curFrame
	s := " in " + fr.fn.String()
	if fr.curInstr != nil {
		s += " at " + i.prog.Fset.Position(fr.curInstr.Pos()).String()
	}
	return s
}

func isInternal(r interface{}) bool {
	_, ok := r.(pathAbort)
	return ok
}

// rtErr builds the value of a Go runtime error (for target panics).
func (i *interpreter) rtErr(msg string) value {
	return iface{t: i.runtimeErrorString, v: msg}
}

// ---------------------------------------------------------------- decisions

// A Decision records one nondeterministic choice on a path.
type Decision struct {
	Kind   string  `json:"k"`           // "if", "choose:<what>", "conc", "merge"
	Choice int64   `json:"c"`           // alternative taken / concrete value
	Excl   []int64 `json:"x,omitempty"` // for pending "conc": values already explored
	Pend   bool    `json:"p,omitempty"` // unresolved alternative (must query the solver)
	N      int     `json:"n,omitempty"`
}

type trailEnt struct {
	addr *value
	old  value
	undo func()
}

// Finding is an assertion failure / panic / other event discovered on a path.
type Finding struct {
	Kind     string            `json:"kind"` // assert, panic, exit, deadlock, race, hang, unsupported, unknown, budget
	Label    string            `json:"label"`
	Msg      string            `json:"msg"`
	Harness  string            `json:"harness"`
	Tape     []TapeEnt         `json:"tape"`
	Decs     []Decision        `json:"decisions"`
	Observed []string          `json:"observed,omitempty"`
	Model    map[string]string `json:"model,omitempty"`
	Script   string            `json:"-"`
	Reaches  []string          `json:"reaches,omitempty"`
}

// TapeEnt is one nondeterministic input (consumed by the native replay in order).
type TapeEnt struct {
	T string `json:"t"` // u8, i64, bool, f64, rand
	V string `json:"v"` // decimal (ints), true/false, %x-style float hex
	N string `json:"n,omitempty"`
}

type tapeVar struct {
	kind string
	term *sym.Term // symbolic variable (nil for concrete choices)
	fv   *FV
	conc string // concrete value
	name string
}

// PathResult summarises a finished path.
type PathResult struct {
	Status    string // ok, pruned, panic, exit, unsupported, budget, deadlock, unknown, stopped
	Msg       string
	Decisions []Decision
	Steps     int64
	Reached   []string
}

// Config carries per-harness exploration options.
type Config struct {
	Merge        bool
	MapOrder     bool
	Schedules    bool
	RaceDetect   bool
	MaxPreempt   int // schedule exploration: bound on preemptive context switches per path
	MaxRand      int // bound on math/rand draws per path (0 = unbounded); paths beyond it are cut and counted as "bounded"
	MaxSteps     int64
	QueryTimeout int // ms
	AllowExit    bool
	Known        map[string]bool // known-finding keys treated as listed
}

func (i *interpreter) pcTerms() []*sym.Term { return i.pc }

func (i *interpreter) addPC(t *sym.Term) {
	if t.IsTrue() {
		return
	}
	i.pc = append(i.pc, t)
}

// feasibleQuick answers like feasible but only from the cache and the byte-domain procedure
// (never calls the solver); ok is false when neither applies.
func (i *interpreter) feasibleQuick(t *sym.Term) (sym.Result, bool) {
	if t.IsTrue() {
		return sym.Sat, true
	}
	if t.IsFalse() {
		return sym.Unsat, true
	}
	rel := i.slicePC(t)
	key := cacheKey(rel, t)
	if r, ok := i.qcache[key]; ok {
		return r, true
	}
	if r, ok := i.byteDomainCheck(rel, t); ok {
		i.Stats.DomainChecks++
		i.qcache[key] = r
		return r, true
	}
	return 0, false
}

// feasible checks satisfiability of pc ∧ t using the sliced path condition and a cache.
func (i *interpreter) feasible(t *sym.Term) sym.Result {
	if t.IsTrue() {
		return sym.Sat
	}
	if t.IsFalse() {
		return sym.Unsat
	}
	rel := i.slicePC(t)
	key := cacheKey(rel, t)
	if r, ok := i.qcache[key]; ok {
		i.Stats.CacheHits++
		return r
	}
	if r, ok := i.byteDomainCheck(rel, t); ok {
		i.Stats.DomainChecks++
		i.qcache[key] = r
		return r
	}
	as := append(append([]*sym.Term{}, rel...), t)
	r, _ := i.solver.Check(as, i.cfg.QueryTimeout, nil)
	i.Stats.FeasQueries++
	if r != sym.Unknown {
		i.qcache[key] = r
	}
	return r
}

// byteDomainCheck decides pc-slice ∧ t by enumeration when the only variable involved is a single
// 8-bit (or boolean) variable: a complete decision procedure for that fragment (DESIGN §2.3).
// Verdicts on assertions never come from here; it only prunes branches.
func (i *interpreter) byteDomainCheck(rel []*sym.Term, t *sym.Term) (sym.Result, bool) {
	vs := i.termVars(t)
	if len(vs) != 1 {
		return 0, false
	}
	var vid int
	for v := range vs {
		vid = v
	}
	if vid < 0 {
		return 0, false
	}
	// conjuncts that mention only this variable constrain its domain; the others are skipped:
	// dropping conjuncts only enlarges the set of models, so an Unsat answer stays sound, while
	// a Sat answer is only returned when nothing was skipped
	partial := false
	var own []*sym.Term
	for _, r := range rel {
		rv := i.termVars(r)
		if _, ok := rv[vid]; ok && len(rv) == 1 {
			own = append(own, r)
		} else {
			partial = true
		}
	}
	vt := i.varByID(vid)
	if vt == nil {
		return 0, false
	}
	n := 0
	switch {
	case vt.Sort.K == sym.KBool:
		n = 2
	case vt.Sort.K == sym.KBV && vt.Sort.W == 8:
		n = 256
	default:
		return 0, false
	}
	dom := i.domainOf(vid, n, own)
	if dom == nil {
		return 0, false
	}
	env := map[int]uint64{}
	for x := 0; x < n; x++ {
		if !dom[x] {
			continue
		}
		env[vid] = uint64(x)
		v, ok := t.Eval(env, map[int]uint64{})
		if !ok {
			return 0, false
		}
		if v == 1 {
			if partial {
				return 0, false
			}
			return sym.Sat, true
		}
	}
	return sym.Unsat, true
}

func (i *interpreter) varByID(id int) *sym.Term {
	if i.varIndex == nil {
		i.varIndex = map[int]*sym.Term{}
	}
	if t, ok := i.varIndex[id]; ok {
		return t
	}
	for k := i.varIndexed; k < len(i.ctx.Vars); k++ {
		i.varIndex[i.ctx.Vars[k].ID] = i.ctx.Vars[k]
	}
	i.varIndexed = len(i.ctx.Vars)
	return i.varIndex[id]
}

// domainOf returns the set of values of variable vid allowed by the conjuncts (each conjunct's
// truth table is memoised).
func (i *interpreter) domainOf(vid, n int, rel []*sym.Term) []bool {
	if i.truthTab == nil {
		i.truthTab = map[int][]bool{}
	}
	dom := make([]bool, n)
	for x := range dom {
		dom[x] = true
	}
	for _, r := range rel {
		tt, ok := i.truthTab[r.ID]
		if !ok {
			tt = make([]bool, n)
			env := map[int]uint64{}
			good := true
			for x := 0; x < n; x++ {
				env[vid] = uint64(x)
				v, ok := r.Eval(env, map[int]uint64{})
				if !ok {
					good = false
					break
				}
				tt[x] = v == 1
			}
			if !good {
				tt = nil
			}
			i.truthTab[r.ID] = tt
		}
		if tt == nil {
			return nil
		}
		for x := range dom {
			dom[x] = dom[x] && tt[x]
		}
	}
	return dom
}

func cacheKey(rel []*sym.Term, t *sym.Term) string {
	ids := make([]int, len(rel))
	for k, r := range rel {
		ids[k] = r.ID
	}
	sort.Ints(ids)
	// the key is a 128-bit digest of the sorted conjunct ids and the condition id (the ids
	// themselves made keys of kilobytes; a collision is as unlikely as a hardware fault)
	h := fnv.New128a()
	var b [8]byte
	for _, id := range ids {
		binary.LittleEndian.PutUint64(b[:], uint64(id))
		h.Write(b[:])
	}
	binary.LittleEndian.PutUint64(b[:], ^uint64(t.ID))
	h.Write(b[:])
	return string(h.Sum(nil))
}

// termVars returns the set of variable IDs (and UF names as negative pseudo-ids) in t, memoised.
func (i *interpreter) termVars(t *sym.Term) map[int]struct{} {
	if s, ok := i.varsMemo[t.ID]; ok {
		return s
	}
	s := map[int]struct{}{}
	switch t.Op {
	case sym.OVar:
		s[t.ID] = struct{}{}
	case sym.OApp:
		s[-1] = struct{}{} // all UF applications are linked through axioms
	}
	for _, a := range t.Args {
		for v := range i.termVars(a) {
			s[v] = struct{}{}
		}
	}
	i.varsMemo[t.ID] = s
	return s
}

// slicePC returns the conjuncts of the path condition transitively sharing variables with t.
func (i *interpreter) slicePC(t *sym.Term) []*sym.Term {
	if len(i.pc) == 0 {
		return nil
	}
	vars := map[int]struct{}{}
	for v := range i.termVars(t) {
		vars[v] = struct{}{}
	}
	used := make([]bool, len(i.pc))
	var out []*sym.Term
	for changed := true; changed; {
		changed = false
		for k, p := range i.pc {
			if used[k] {
				continue
			}
			pv := i.termVars(p)
			hit := false
			for v := range pv {
				if _, ok := vars[v]; ok {
					hit = true
					break
				}
			}
			if hit {
				used[k] = true
				out = append(out, p)
				for v := range pv {
					if _, ok := vars[v]; !ok {
						vars[v] = struct{}{}
						changed = true
					}
				}
			}
		}
	}
	return out
}

// decide resolves a symbolic (or concrete) boolean into a concrete one, forking the path
// when both outcomes are feasible.
func (i *interpreter) decide(cv value) bool {
	switch c := cv.(type) {
	case bool:
		return c
	case *sym.Term:
		if c.IsConst() {
			return c.U == 1
		}
		return i.decideTerm(c)
	}
	panic(fmt.Sprintf("decide: %T", cv))
}

func (i *interpreter) decideTerm(c *sym.Term) bool {
	if i.specDepth > 0 {
		i.mergeAbort("path decision inside a merged region")
	}
	nc := i.ctx.Not(c)
	if i.dpos < len(i.prefix) {
		d := i.prefix[i.dpos]
		if !strings.HasPrefix(d.Kind, "if") {
			panic(fmt.Sprintf("decision replay mismatch at %d: have %s want if%s", i.dpos, d.Kind, i.where()))
		}
		i.dpos++
		i.decs = append(i.decs, d)
		if d.Choice == 1 {
			i.addPC(c)
			return true
		}
		i.addPC(nc)
		return false
	}
	var ft, ff sym.Result
	if r, ok := i.feasibleQuick(nc); ok && r == sym.Unsat {
		ft, ff = sym.Sat, sym.Unsat // pc is satisfiable by invariant, so c is the only feasible side
	} else if r, ok := i.feasibleQuick(c); ok && r == sym.Unsat {
		ft, ff = sym.Unsat, sym.Sat
	} else {
		ft = i.feasible(c)
		if ft == sym.Unsat {
			ff = sym.Sat // pc is satisfiable by invariant
		} else {
			ff = i.feasible(nc)
		}
	}
	if ft == sym.Unknown || ff == sym.Unknown {
		i.Stats.UnknownFeas++
		// treat unknown as feasible; the path is flagged so that its results are inconclusive
		i.sawUnknown = true
	}
	tOK, fOK := ft != sym.Unsat, ff != sym.Unsat
	switch {
	case tOK && fOK:
		if i.ForkSites != nil {
			i.ForkSites[i.where()]++
		}
		i.decs = append(i.decs, Decision{Kind: "if", Choice: 1})
		i.push(i.decs[:len(i.decs)-1], Decision{Kind: "if", Choice: 0})
		i.dpos = len(i.decs)
		i.prefix = i.decs
		i.addPC(c)
		return true
	case tOK:
		i.decs = append(i.decs, Decision{Kind: "if1", Choice: 1})
		i.dpos = len(i.decs)
		i.prefix = i.decs
		i.addPC(c)
		return true
	case fOK:
		i.decs = append(i.decs, Decision{Kind: "if1", Choice: 0})
		i.dpos = len(i.decs)
		i.prefix = i.decs
		i.addPC(nc)
		return false
	}
	panic(pathAbort{kind: abAssume, msg: "path condition became infeasible"})
}

// choose picks one of n alternatives (all assumed feasible), forking for the others.
func (i *interpreter) choose(n int, what string) int {
	if n <= 1 {
		return 0
	}
	if i.specDepth > 0 {
		i.mergeAbort("choice inside a merged region")
	}
	kind := "choose:" + what
	if i.dpos < len(i.prefix) {
		d := i.prefix[i.dpos]
		if d.Kind != kind {
			panic(fmt.Sprintf("decision replay mismatch at %d: have %s want %s%s", i.dpos, d.Kind, kind, i.where()))
		}
		i.dpos++
		i.decs = append(i.decs, d)
		return int(d.Choice)
	}
	base := i.decs[:len(i.decs):len(i.decs)]
	for k := n - 1; k >= 1; k-- {
		i.push(base, Decision{Kind: kind, Choice: int64(k), N: n})
	}
	i.decs = append(i.decs, Decision{Kind: kind, Choice: 0, N: n})
	i.dpos = len(i.decs)
	i.prefix = i.decs
	return 0
}

// concretize enumerates the feasible values of an integer term as separate paths.
func (i *interpreter) concretize(t *sym.Term, signed bool, what string) int64 {
	if t.IsConst() {
		if signed {
			return t.SignedVal()
		}
		return int64(t.U)
	}
	if i.specDepth > 0 {
		i.mergeAbort("concretisation inside a merged region")
	}
	w := int(t.Sort.W)
	mkc := func(v int64) *sym.Term { return i.ctx.BVC(w, uint64(v)) }
	if i.dpos < len(i.prefix) {
		d := i.prefix[i.dpos]
		if d.Kind != "conc" {
			panic(fmt.Sprintf("decision replay mismatch at %d: have %s want conc%s", i.dpos, d.Kind, i.where()))
		}
		i.dpos++
		i.decs = append(i.decs, d)
		i.addPC(i.ctx.Eq(t, mkc(d.Choice)))
		return d.Choice
	}
	// enumerate all feasible values now (model, block, repeat)
	rel := i.slicePC(t)
	as := append([]*sym.Term{}, rel...)
	var vals []int64
	for {
		if len(vals) > i.concCap {
			panic(pathAbort{kind: abBudget, msg: fmt.Sprintf("concretisation of %s exceeded %d values%s", what, i.concCap, i.where())})
		}
		r, mv := i.solver.Check(as, i.cfg.QueryTimeout, []*sym.Term{t})
		i.Stats.FeasQueries++
		if r == sym.Unsat {
			break
		}
		if r == sym.Unknown {
			panic(pathAbort{kind: abUnknown, msg: "solver unknown while concretising " + what + i.where()})
		}
		var v int64
		if signed {
			v = i.ctx.BVC(w, mv[0].U).SignedVal()
		} else {
			v = int64(mv[0].U)
		}
		vals = append(vals, v)
		as = append(as, i.ctx.Not(i.ctx.Eq(t, mkc(v))))
	}
	if len(vals) == 0 {
		panic(pathAbort{kind: abAssume, msg: "no feasible value"})
	}
	sort.Slice(vals, func(a, b int) bool { return vals[a] < vals[b] })
	if i.ForkSites != nil && len(vals) > 1 {
		i.ForkSites[fmt.Sprintf("conc(%s)x%d%s", what, len(vals), i.where())]++
	}
	base := i.decs[:len(i.decs):len(i.decs)]
	for k := len(vals) - 1; k >= 1; k-- {
		i.push(base, Decision{Kind: "conc", Choice: vals[k]})
	}
	v := vals[0]
	i.decs = append(i.decs, Decision{Kind: "conc", Choice: v})
	i.dpos = len(i.decs)
	i.prefix = i.decs
	i.addPC(i.ctx.Eq(t, mkc(v)))
	return v
}

// Alt is a pending alternative: the decisions of the path that found it up to the fork (shared,
// never modified afterwards: decision vectors only grow by appending) plus the other choice. It
// is turned into a decision prefix only when a worker takes it, so that a path with d decisions
// costs O(d) memory for all its alternatives together instead of O(d) for each.
type Alt struct {
	base []Decision
	last Decision
}

// Prefix materialises the alternative.
func (a Alt) Prefix() []Decision {
	p := make([]Decision, 0, len(a.base)+1)
	p = append(p, a.base...)
	return append(p, a.last)
}

func (i *interpreter) push(base []Decision, last Decision) {
	i.pending = append(i.pending, Alt{base: base[:len(base):len(base)], last: last})
}

// ---------------------------------------------------------------- path execution

// RunPath executes the harness once following prefix; returns the result and newly
// discovered alternative prefixes.
func (i *interpreter) runPath(fn *ssa.Function, prefix []Decision) (res PathResult, alts []Alt) {
	i.prefix = prefix
	i.dpos = 0
	i.decs = nil
	i.pc = append([]*sym.Term(nil), i.initPC...)
	i.pending = nil
	i.tape = nil
	i.steps = 0
	i.sawUnknown = false
	i.reached = nil
	i.obs = nil
	i.allowExit = i.cfg.AllowExit
	i.trail = i.trail[:0]
	i.trailOn = true
	i.specDepth = 0
	i.nondetCount = 0
	i.lnArgs, i.expArgs = nil, nil
	i.axiomSeen = nil
	i.randDraws = 0
	i.randLog, i.randLogging, i.randReplay = nil, false, -1
	i.resetThreads()
	defer func() {
		r := recover()
		i.killThreads()
		// undo all memory effects of the path
		i.trailOn = false
		for k := len(i.trail) - 1; k >= 0; k-- {
			e := i.trail[k]
			if e.undo != nil {
				e.undo()
			} else {
				*e.addr = e.old
			}
		}
		i.trail = i.trail[:0]
		res.Decisions = i.decs
		res.Steps = i.steps
		res.Reached = i.reached
		alts = i.pending
		if r == nil {
			return
		}
		switch p := r.(type) {
		case pathAbort:
			switch p.kind {
			case abAssume:
				res.Status = "pruned"
			case abUnsupported:
				res.Status = "unsupported"
			case abBudget:
				res.Status = "budget"
			case abExit:
				res.Status = "exit"
			case abStop:
				res.Status = "stopped"
			case abDeadlock:
				res.Status = "deadlock"
			case abUnknown:
				res.Status = "unknown"
			case abBound:
				res.Status = "bounded"
			case abMerge:
				res.Status = "unsupported"
				p.msg = "stray merge abort: " + p.msg
			default:
				res.Status = "unsupported"
			}
			res.Msg = p.msg
		case targetPanic:
			res.Status = "panic"
			res.Msg = i.panicString(p.v)
		default:
			res.Status = "unsupported"
			res.Msg = fmt.Sprintf("engine error: %v%s", r, i.where())
			if i.Debug {
				panic(r)
			}
		}
	}()
	i.callTop(fn)
	res.Status = "ok"
	return
}

func (i *interpreter) panicString(v value) string {
	if itf, ok := v.(iface); ok {
		if itf.t == nil {
			return "nil"
		}
		if s, ok := itf.v.(string); ok {
			if itf.t == i.runtimeErrorString {
				return "runtime error: " + s
			}
			return s
		}
		if st, ok := itf.v.(structure); ok && len(st) == 1 {
			if s, ok := st[0].(string); ok {
				return s
			}
		}
		// error values: try the Error method
		if m := i.errorString(itf); m != "" {
			return m
		}
	}
	return toString(v)
}

// errorString calls Error() on an interface value if it has one (concrete result only).
func (i *interpreter) errorString(itf iface) (out string) {
	defer func() {
		if r := recover(); r != nil {
			out = ""
		}
	}()
	if itf.t == nil {
		return ""
	}
	if o, ok := itf.v.(*opaque); ok {
		return o.what
	}
	ms := i.prog.MethodSets.MethodSet(itf.t)
	sel := ms.Lookup(nil, "Error")
	if sel == nil {
		return ""
	}
	fn := i.prog.MethodValue(sel)
	if fn == nil {
		return ""
	}
	r := call(i, nil, 0, fn, []value{itf.v})
	if s, ok := r.(string); ok {
		return s
	}
	return toString(r)
}

var _ = types.Typ
