package interp

import (
	"slices"

	"golang.org/x/tools/go/ssa"

	"gosym/sym"
)

// ---------------------------------------------------------------- post-dominators

type pdomInfo struct {
	// ipdom[b.Index] = immediate post-dominator block, nil = function exit, absent(-2) = none
	ipdom []*ssa.BasicBlock
	toExit []bool // ipdom is the virtual exit
	valid  []bool
}

func (i *interpreter) pdomOf(fn *ssa.Function) *pdomInfo {
	if i.pdom == nil {
		i.pdom = map[*ssa.Function]*pdomInfo{}
	}
	if p, ok := i.pdom[fn]; ok {
		return p
	}
	n := len(fn.Blocks)
	exit := n
	// reverse graph: preds in reverse = succs in original
	succs := make([][]int, n+1) // original successors (+ edge to exit)
	preds := make([][]int, n+1)
	for _, b := range fn.Blocks {
		if len(b.Succs) == 0 {
			succs[b.Index] = append(succs[b.Index], exit)
			preds[exit] = append(preds[exit], b.Index)
		}
		for _, s := range b.Succs {
			succs[b.Index] = append(succs[b.Index], s.Index)
			preds[s.Index] = append(preds[s.Index], b.Index)
		}
	}
	// postorder of reverse graph from exit
	order := []int{}
	seen := make([]bool, n+1)
	var dfs func(int)
	dfs = func(u int) {
		seen[u] = true
		for _, v := range preds[u] {
			if !seen[v] {
				dfs(v)
			}
		}
		order = append(order, u)
	}
	dfs(exit)
	rpoNum := make([]int, n+1)
	for k := range rpoNum {
		rpoNum[k] = -1
	}
	for k, u := range order {
		rpoNum[u] = k // postorder number
	}
	idom := make([]int, n+1)
	for k := range idom {
		idom[k] = -1
	}
	idom[exit] = exit
	intersect := func(a, b int) int {
		for a != b {
			for rpoNum[a] < rpoNum[b] {
				a = idom[a]
			}
			for rpoNum[b] < rpoNum[a] {
				b = idom[b]
			}
		}
		return a
	}
	for changed := true; changed; {
		changed = false
		for k := len(order) - 2; k >= 0; k-- { // reverse postorder, skipping exit
			u := order[k]
			nd := -1
			for _, s := range succs[u] { // predecessors in the reverse graph
				if idom[s] == -1 {
					continue
				}
				if nd == -1 {
					nd = s
				} else {
					nd = intersect(nd, s)
				}
			}
			if nd != -1 && idom[u] != nd {
				idom[u] = nd
				changed = true
			}
		}
	}
	p := &pdomInfo{ipdom: make([]*ssa.BasicBlock, n), toExit: make([]bool, n), valid: make([]bool, n)}
	for k := 0; k < n; k++ {
		switch {
		case idom[k] == -1:
		case idom[k] == exit:
			p.valid[k] = true
			p.toExit[k] = true
		default:
			p.valid[k] = true
			p.ipdom[k] = fn.Blocks[idom[k]]
		}
	}
	i.pdom[fn] = p
	return p
}

// ---------------------------------------------------------------- If handling

func (i *interpreter) visitIf(fr *frame, instr *ssa.If) continuation {
	cv := fr.get(instr.Cond)
	var b bool
	switch c := cv.(type) {
	case bool:
		b = c
	case *sym.Term:
		if c.IsConst() {
			b = c.U == 1
			break
		}
		if k, done := i.tryMerge(fr, instr, c); done {
			return k
		}
		b = i.decideTerm(c)
	default:
		panic("visitIf: condition is not boolean")
	}
	succ := 1
	if b {
		succ = 0
	}
	fr.prevBlock, fr.block = fr.block, fr.block.Succs[succ]
	return kJump
}

const (
	maxSpecDepth = 48
	maxSpecSteps = 400000
)

type armResult struct {
	regs     map[ssa.Value]value // pre-existing registers overwritten inside the arm (loop phis etc.)
	returned bool
	result   value
	prev     *ssa.BasicBlock
	writes   map[*value]value
	order    []*value
	phis     []value
}

// tryMerge attempts to execute both arms of a symbolic If speculatively and to join their
// effects with ite terms. It returns done=true when control has been transferred.
func (i *interpreter) tryMerge(fr *frame, instr *ssa.If, c *sym.Term) (continuation, bool) {
	if !i.cfg.Merge {
		return 0, false
	}
	top := i.specDepth == 0
	replay := false
	if top {
		if len(i.threads) > 1 {
			return 0, false
		}
		if i.dpos < len(i.prefix) {
			if i.prefix[i.dpos].Kind != "merge" {
				return 0, false
			}
			replay = true
		} else if i.isLoopHeader(fr.block) {
			// a loop condition: merge only when both sides are feasible (otherwise the
			// speculation would unroll the loop without bound)
			if i.feasible(c) != sym.Sat || i.feasible(i.ctx.Not(c)) != sym.Sat {
				return 0, false
			}
		}
		// other branches are merged without asking the solver first: an infeasible arm only
		// contributes an unreachable ite branch. When the answer is available without the
		// solver (single-byte conditions, cache) an infeasible side is not merged at all, which
		// keeps values such as buffer offsets concrete.
		if !replay {
			if r, ok := i.feasibleQuick(c); ok && r == sym.Unsat {
				return 0, false
			}
			if r, ok := i.feasibleQuick(i.ctx.Not(c)); ok && r == sym.Unsat {
				return 0, false
			}
		}
	} else if i.specDepth >= maxSpecDepth {
		i.mergeAbort("nesting too deep")
	} else {
		// nested branch: if one side is infeasible under the path condition alone (decided
		// without the solver), just follow the other side. The outcome depends on the worker's
		// cache, so it is logged in the merge decision and replayed from there.
		var choice int64
		if i.mergeReplay {
			if i.mergeLogPos < len(i.mergeLog) {
				choice = i.mergeLog[i.mergeLogPos]
			}
			i.mergeLogPos++
		} else {
			if r, ok := i.feasibleQuick(c); ok && r == sym.Unsat {
				choice = 1
			} else if r, ok := i.feasibleQuick(i.ctx.Not(c)); ok && r == sym.Unsat {
				choice = 2
			}
			i.mergeLog = append(i.mergeLog, choice)
		}
		switch choice {
		case 1:
			fr.prevBlock, fr.block = fr.block, fr.block.Succs[1]
			return kJump, true
		case 2:
			fr.prevBlock, fr.block = fr.block, fr.block.Succs[0]
			return kJump, true
		}
	}
	pd := i.pdomOf(fr.fn)
	bi := fr.block.Index
	if !pd.valid[bi] {
		if !top {
			i.mergeAbort("no join point")
		}
		return 0, false
	}
	join := pd.ipdom[bi] // nil => function exit
	ifBlock := fr.block

	savedStopAt, savedStopped := fr.stopAt, fr.stopped
	savedPrev := fr.prevBlock
	mark := len(i.trail)
	nside := len(i.sideConds)
	stepMark := i.steps
	var ok bool
	var resK continuation

	savedEnv := make(map[ssa.Value]value, len(fr.env))
	for k, v := range fr.env {
		savedEnv[k] = v
	}
	resetEnv := func() {
		// SSA registers are overwritten when a block is executed again (loops, phis): each arm
		// must start from the registers as they were at the If.
		env := make(map[ssa.Value]value, len(savedEnv)+8)
		for k, v := range savedEnv {
			env[k] = v
		}
		fr.env = env
	}
	restore := func() {
		i.undoTo(mark)
		resetEnv()
		fr.block, fr.prevBlock = ifBlock, savedPrev
		fr.stopAt, fr.stopped = savedStopAt, savedStopped
		fr.result = nil
		fr.skipPhis = false
		i.curFrame = fr
		fr.curInstr = instr
	}

	if top {
		defer func() {
			if ok {
				return
			}
			r := recover()
			if r == nil {
				return
			}
			pa, isPA := r.(pathAbort)
			// any path-ending event raised inside the speculative region (exit, assumption,
			// unsupported operation, ...) abandons the merge: the forked execution meets it
			// again with the arm's guard in the path condition
			if !isPA || pa.kind == abBudget || pa.kind == abKill {
				i.specDepth = 0
				i.specGuard = nil
				i.sideConds = nil
				panic(r)
			}
			// abandon the merge; the caller falls back to forking
			i.specDepth = 0
			i.specGuard = nil
			i.sideConds = nil
			restore()
			i.Stats.MergeAborts++
			if i.MergeFails != nil {
				i.MergeFails[pa.msg+i.where()]++
			}
			if i.Trace {
				_ = 0
			}
			if replay {
				panic("merge replay failed: " + pa.msg)
			}
		}()
	}

	if top {
		i.mergeReplay = replay
		i.mergeLogPos = 0
		if replay {
			i.mergeLog = i.prefix[i.dpos].Excl
		} else {
			i.mergeLog = nil
		}
	}
	i.specDepth++
	runArm := func(cond *sym.Term, succ *ssa.BasicBlock) armResult {
		i.specGuard = append(i.specGuard, cond)
		fr.prevBlock, fr.block = ifBlock, succ
		fr.stopAt, fr.stopped = join, false
		if succ != join {
			for fr.block != nil && !fr.stopped {
				runFrame(fr)
				if i.steps-stepMark > maxSpecSteps {
					i.mergeAbort("speculative step limit")
				}
			}
		}
		i.curFrame = fr
		var ar armResult
		if fr.block == nil {
			ar.returned = true
			ar.result = fr.result
		} else {
			ar.prev = fr.prevBlock
			// phi inputs at the join (already evaluated when a nested merge ended exactly here)
			pred := -1
			if !fr.skipPhis {
				pred = slices.Index(join.Preds, ar.prev)
			}
			for _, in := range join.Instrs {
				phi, isPhi := in.(*ssa.Phi)
				if !isPhi {
					break
				}
				if fr.skipPhis {
					ar.phis = append(ar.phis, fr.env[phi])
				} else {
					ar.phis = append(ar.phis, fr.get(phi.Edges[pred]))
				}
			}
			fr.skipPhis = false
		}
		// collect final values of written cells, then undo
		ar.writes = map[*value]value{}
		for k := mark; k < len(i.trail); k++ {
			e := i.trail[k]
			if e.addr == nil {
				i.mergeAbort("non-cell side effect inside a merged region")
			}
			if _, seen := ar.writes[e.addr]; !seen {
				ar.order = append(ar.order, e.addr)
			}
			ar.writes[e.addr] = *e.addr
		}
		i.undoTo(mark)
		// registers that existed at the If and were overwritten in the arm (blocks executed
		// again, e.g. loop headers) may be read after the join without a phi: merge them too
		for k, old := range savedEnv {
			// only registers that can be read after the join matter: their defining block
			// dominates the join (everything else is dead there by SSA dominance)
			if join == nil {
				break
			}
			if in, isInstr := k.(ssa.Instruction); !isInstr || in.Block() == nil || !in.Block().Dominates(join) {
				continue
			}
			if nv, ok := fr.env[k]; ok && !identicalVal(nv, old) {
				if ar.regs == nil {
					ar.regs = map[ssa.Value]value{}
				}
				ar.regs[k] = nv
			}
		}
		resetEnv()
		i.specGuard = i.specGuard[:len(i.specGuard)-1]
		fr.stopAt, fr.stopped = savedStopAt, savedStopped
		return ar
	}
	aT := runArm(c, ifBlock.Succs[0])
	aF := runArm(i.ctx.Not(c), ifBlock.Succs[1])
	i.specDepth--

	if aT.returned != aF.returned {
		i.mergeAbort("arms leave the region differently")
	}
	if aT.returned && join != nil {
		i.mergeAbort("return before the join point")
	}
	if !aT.returned && join == nil {
		i.mergeAbort("arm did not return")
	}
	// merge heap writes
	type cw struct {
		addr *value
		v    value
	}
	var commits []cw
	seen := map[*value]bool{}
	for _, lst := range [][]*value{aT.order, aF.order} {
		for _, addr := range lst {
			if seen[addr] {
				continue
			}
			seen[addr] = true
			vT, okT := aT.writes[addr]
			if !okT {
				vT = *addr
			}
			vF, okF := aF.writes[addr]
			if !okF {
				vF = *addr
			}
			m, good := i.iteVal(c, vT, vF)
			if !good {
				i.mergeAbort("unmergeable memory cell")
			}
			commits = append(commits, cw{addr, m})
		}
	}
	type rw struct {
		k ssa.Value
		v value
	}
	var regCommits []rw
	if !aT.returned {
		for _, regs := range []map[ssa.Value]value{aT.regs, aF.regs} {
			for k := range regs {
				done := false
				for _, rc := range regCommits {
					if rc.k == k {
						done = true
					}
				}
				if done {
					continue
				}
				vT, okT := aT.regs[k]
				if !okT {
					vT = savedEnv[k]
				}
				vF, okF := aF.regs[k]
				if !okF {
					vF = savedEnv[k]
				}
				m, good := i.iteVal(c, vT, vF)
				if !good {
					i.mergeAbort("unmergeable register")
				}
				regCommits = append(regCommits, rw{k, m})
			}
		}
	}
	var phiVals []value
	var result value
	if aT.returned {
		r, good := i.iteVal(c, aT.result, aF.result)
		if !good {
			i.mergeAbort("unmergeable results")
		}
		result = r
	} else {
		for k := range aT.phis {
			r, good := i.iteVal(c, aT.phis[k], aF.phis[k])
			if !good {
				i.mergeAbort("unmergeable phi")
			}
			phiVals = append(phiVals, r)
		}
	}
	// side conditions (possible panics inside the arms) are discharged once, at the outermost level
	if top && !replay && len(i.sideConds) > nside {
		bad := i.ctx.Or(i.sideConds[nside:]...)
		if i.feasible(bad) != sym.Unsat {
			i.mergeAbort("a panic is feasible inside the region")
		}
	}
	if top {
		i.sideConds = i.sideConds[:nside]
	}
	// commit
	for _, cm := range commits {
		i.setCell(cm.addr, cm.v)
	}
	if aT.returned {
		fr.result = result
		fr.block = nil
		resK = kReturn
	} else {
		for _, rc := range regCommits {
			fr.env[rc.k] = rc.v
		}
		k := 0
		for _, in := range join.Instrs {
			phi, isPhi := in.(*ssa.Phi)
			if !isPhi {
				break
			}
			fr.env[phi] = phiVals[k]
			k++
		}
		fr.prevBlock, fr.block = nil, join
		fr.skipPhis = true
		resK = kJump
	}
	if top {
		i.Stats.Merges++
		d := Decision{Kind: "merge", Excl: append([]int64{}, i.mergeLog...)}
		i.decs = append(i.decs, d)
		if replay {
			i.dpos++
		} else {
			i.dpos = len(i.decs)
			i.prefix = i.decs
		}
	}
	ok = true
	return resK, true
}

func (i *interpreter) undoTo(mark int) {
	for k := len(i.trail) - 1; k >= mark; k-- {
		e := i.trail[k]
		if e.undo != nil {
			e.undo()
		} else {
			*e.addr = e.old
		}
	}
	i.trail = i.trail[:mark]
}

// isLoopHeader reports whether b has a back edge (a predecessor it dominates).
func (i *interpreter) isLoopHeader(b *ssa.BasicBlock) bool {
	if i.loopHdr == nil {
		i.loopHdr = map[*ssa.BasicBlock]bool{}
	}
	if v, ok := i.loopHdr[b]; ok {
		return v
	}
	r := false
	for _, p := range b.Preds {
		if b.Dominates(p) {
			r = true
		}
	}
	i.loopHdr[b] = r
	return r
}

// sideCond records a condition under which the speculative region would panic.
func (i *interpreter) sideCond(bad *sym.Term) {
	g := append(append([]*sym.Term{}, i.specGuard...), bad)
	i.sideConds = append(i.sideConds, i.ctx.And(g...))
}

// identicalVal reports whether two register values are the same object/value (no deep semantics:
// a conservative "unchanged" test).
func identicalVal(a, b value) (same bool) {
	defer func() {
		if recover() != nil {
			same = false
		}
	}()
	switch x := a.(type) {
	case []value:
		y, ok := b.([]value)
		if !ok || len(x) != len(y) || cap(x) != cap(y) {
			return false
		}
		if cap(x) == 0 {
			return (x == nil) == (y == nil)
		}
		return &x[:1][0] == &y[:1][0]
	case structure:
		y, ok := b.(structure)
		if !ok || len(x) != len(y) {
			return false
		}
		for k := range x {
			if !identicalVal(x[k], y[k]) {
				return false
			}
		}
		return true
	case array:
		y, ok := b.(array)
		if !ok || len(x) != len(y) {
			return false
		}
		for k := range x {
			if !identicalVal(x[k], y[k]) {
				return false
			}
		}
		return true
	case tuple:
		y, ok := b.(tuple)
		if !ok || len(x) != len(y) {
			return false
		}
		for k := range x {
			if !identicalVal(x[k], y[k]) {
				return false
			}
		}
		return true
	case sstr:
		y, ok := b.(sstr)
		if !ok || len(x) != len(y) {
			return false
		}
		for k := range x {
			if !identicalVal(x[k], y[k]) {
				return false
			}
		}
		return true
	case iface:
		y, ok := b.(iface)
		return ok && sameType(x.t, y.t) && identicalVal(x.v, y.v)
	case *FV:
		y, ok := b.(*FV)
		return ok && (x == y || (x.Nan == y.Nan && x.Inf == y.Inf && x.V == y.V))
	case float64:
		y, ok := b.(float64)
		return ok && (x == y || (x != x && y != y))
	}
	return a == b
}
