// Copyright 2013 The Go Authors. All rights reserved.
// Use of this source code is governed by a BSD-style
// license that can be found in the LICENSE file.
//
// Derived from golang.org/x/tools/go/ssa/interp (v0.29.0). This fork executes SSA
// symbolically: values may be SMT terms, branches on symbolic conditions are path
// decisions or merged regions, and nondeterminism (inputs, randomness, map order,
// goroutine schedules) is controlled by the exploration engine.

package interp

import (
	"fmt"
	"go/token"
	"go/types"
	"runtime"
	"slices"
	"strings"

	"golang.org/x/tools/go/ssa"

	"gosym/sym"
)

// mustDeref returns the element type of a pointer type.
func mustDeref(t types.Type) types.Type {
	if p, ok := t.Underlying().(*types.Pointer); ok {
		return p.Elem()
	}
	panic(fmt.Sprintf("mustDeref: %s is not a pointer", t))
}

type continuation int

const (
	kNext continuation = iota
	kReturn
	kJump
)

var tString = types.Typ[types.String]

// Stats are per-interpreter exploration counters.
type Stats struct {
	FeasQueries   int
	AssertQueries int
	SecondOpinions int // assertion queries answered unsat by z3 4.8.12 or cvc5 after the primary solver said unknown
	CacheHits     int
	DomainChecks  int
	UnknownFeas   int
	Merges        int
	MergeAborts   int
	Instrs        int64
}

// State of one exploration worker (one harness at a time).
type interpreter struct {
	prog               *ssa.Program
	globals            map[*ssa.Global]*value // addresses of global variables
	runtimeErrorString types.Type
	sizes              types.Sizes

	ctx    *sym.Ctx
	solver *sym.Solver
	cfg    Config
	Debug  bool
	Trace  bool

	// per-path state
	pc          []*sym.Term
	prefix      []Decision
	dpos        int
	decs        []Decision
	pending     []Alt
	tape        []tapeVar
	trail       []trailEnt
	trailOn     bool
	specDepth   int
	specGuard   []*sym.Term
	sideConds   []*sym.Term
	mergeLog    []int64
	mergeLogPos int
	mergeReplay bool
	steps       int64
	sawUnknown  bool
	reached     []string
	obs         []obsEnt
	allowExit   bool
	nondetCount int
	curFrame    *frame
	concCap     int

	shiftCountSigned bool

	// solver-side caches (persist across paths)
	qcache    map[string]sym.Result
	varsMemo  map[int]map[int]struct{}
	axiomSeen map[string]bool
	axioms    []*sym.Term
	initPC    []*sym.Term // path-condition conjuncts produced by package initialisers
	lnArgs    []*sym.Term
	expArgs   []*sym.Term

	// threads
	threads      []*thread
	cur          *thread
	killing      bool
	preempts     int
	randDraws    int
	randLog      []randEnt // draws since verifRandMark (replayed after verifRandRewind)
	randLogging  bool
	randReplay   int // index of the next logged draw to deliver again, -1 when not replaying
	pendingAbort interface{}
	hostDone     chan struct{}
	wgs          map[*value]*wgState
	mus          map[*value]*muState
	raceCells    map[*value]*raceCell
	Races        []Race

	mapOrderExplore bool

	// results
	Stats     Stats
	findings  []Finding
	harness   string
	funcsHit  map[*ssa.Function]int64
	overrides map[string]externalFn

	varIndex   map[int]*sym.Term
	varIndexed int
	truthTab   map[int][]bool
	ForkSites map[string]int
	MergeFails map[string]int
	pdom  map[*ssa.Function]*pdomInfo
	onces map[*value]bool
	syncMaps map[*value]*omap
	loopHdr map[*ssa.BasicBlock]bool
}

type deferred struct {
	fn    value
	args  []value
	instr *ssa.Defer
	tail  *deferred
}

type frame struct {
	i                *interpreter
	caller           *frame
	fn               *ssa.Function
	block, prevBlock *ssa.BasicBlock
	env              map[ssa.Value]value // dynamic values of SSA variables
	locals           []value
	defers           *deferred
	result           value
	panicking        bool
	panic            interface{}
	phitemps         []value // temporaries for parallel phi assignment
	curInstr         ssa.Instruction
	stopAt           *ssa.BasicBlock // speculative execution: stop when this block is reached
	stopped          bool
	skipPhis         bool
}

func (fr *frame) get(key ssa.Value) value {
	switch key := key.(type) {
	case nil:
		return nil
	case *ssa.Function, *ssa.Builtin:
		return key
	case *ssa.Const:
		return constValue(key)
	case *ssa.Global:
		if r, ok := fr.i.globals[key]; ok {
			return r
		}
	}
	if r, ok := fr.env[key]; ok {
		return r
	}
	panic(fmt.Sprintf("get: no value for %T: %v", key, key.Name()))
}

// outermostTarget names the outermost goalign (non-harness) function on the call stack.
func outermostTarget(fr *frame) string {
	name := "?"
	for f := fr; f != nil; f = f.caller {
		if f.fn.Pkg == nil {
			continue
		}
		p := f.fn.Pkg.Pkg.Path()
		if strings.HasPrefix(p, "github.com/evolbioinfo/goalign") && !strings.Contains(p, "zz_verif") &&
			!strings.HasPrefix(f.fn.Name(), "H_") && !strings.HasPrefix(f.fn.Name(), "vf") && !strings.HasPrefix(f.fn.Name(), "K_") {
			name = f.fn.String()
		}
	}
	return name
}

// runDefer runs a deferred call d.
func (fr *frame) runDefer(d *deferred) {
	var ok bool
	defer func() {
		if !ok {
			r := recover()
			if isInternal(r) {
				panic(r)
			}
			fr.panicking = true
			fr.panic = r
		}
	}()
	call(fr.i, fr, d.instr.Pos(), d.fn, d.args)
	ok = true
}

func (fr *frame) runDefers() {
	if fr.i.specDepth > 0 && fr.defers != nil {
		fr.i.mergeAbort("deferred calls inside a merged region")
	}
	for d := fr.defers; d != nil; d = d.tail {
		fr.runDefer(d)
	}
	fr.defers = nil
	if fr.panicking {
		panic(fr.panic) // new panic, or still panicking
	}
}

func lookupMethod(i *interpreter, typ types.Type, meth *types.Func) *ssa.Function {
	return i.prog.LookupMethod(typ, meth.Pkg(), meth.Name())
}

// visitInstr interprets a single ssa.Instruction within the activation record frame.
func visitInstr(fr *frame, instr ssa.Instruction) continuation {
	i := fr.i
	fr.curInstr = instr
	i.steps++
	if i.steps > i.cfg.MaxSteps {
		panic(pathAbort{kind: abBudget, msg: fmt.Sprintf("step budget %d exceeded below %s", i.cfg.MaxSteps, outermostTarget(fr))})
	}
	switch instr := instr.(type) {
	case *ssa.DebugRef:
		// no-op

	case *ssa.UnOp:
		fr.env[instr] = i.unop(instr, fr.get(instr.X))

	case *ssa.BinOp:
		if instr.Op == token.SHL || instr.Op == token.SHR {
			_, i.shiftCountSigned, _ = intInfo(instr.Y.Type())
		}
		fr.env[instr] = i.binop(instr.Op, instr.X.Type(), fr.get(instr.X), fr.get(instr.Y))

	case *ssa.Call:
		fn, args := prepareCall(fr, &instr.Call)
		fr.env[instr] = call(fr.i, fr, instr.Pos(), fn, args)
		i.curFrame = fr

	case *ssa.ChangeInterface:
		fr.env[instr] = fr.get(instr.X)

	case *ssa.ChangeType:
		fr.env[instr] = fr.get(instr.X) // (can't fail)

	case *ssa.Convert:
		fr.env[instr] = i.conv(instr.Type(), instr.X.Type(), fr.get(instr.X))

	case *ssa.SliceToArrayPointer:
		fr.env[instr] = i.sliceToArrayPointer(instr.Type(), instr.X.Type(), fr.get(instr.X))

	case *ssa.MakeInterface:
		fr.env[instr] = iface{t: instr.X.Type(), v: fr.get(instr.X)}

	case *ssa.Extract:
		fr.env[instr] = fr.get(instr.Tuple).(tuple)[instr.Index]

	case *ssa.Slice:
		fr.env[instr] = i.slice(fr.get(instr.X), fr.get(instr.Low), fr.get(instr.High), fr.get(instr.Max))

	case *ssa.Return:
		switch len(instr.Results) {
		case 0:
		case 1:
			fr.result = fr.get(instr.Results[0])
		default:
			var res []value
			for _, r := range instr.Results {
				res = append(res, fr.get(r))
			}
			fr.result = tuple(res)
		}
		fr.block = nil
		return kReturn

	case *ssa.RunDefers:
		fr.runDefers()
		i.curFrame = fr

	case *ssa.Panic:
		panic(targetPanic{fr.get(instr.X)})

	case *ssa.Send:
		i.chanSend(fr.get(instr.Chan).(*channel), fr.get(instr.X))

	case *ssa.Store:
		if sa, ok := fr.get(instr.Addr).(symAddr); ok {
			i.symStore(sa, fr.get(instr.Val))
			break
		}
		i.store(mustDeref(instr.Addr.Type()), fr.get(instr.Addr).(*value), fr.get(instr.Val))

	case *ssa.If:
		return i.visitIf(fr, instr)

	case *ssa.Jump:
		fr.prevBlock, fr.block = fr.block, fr.block.Succs[0]
		return kJump

	case *ssa.Defer:
		if i.specDepth > 0 {
			i.mergeAbort("defer inside a merged region")
		}
		fn, args := prepareCall(fr, &instr.Call)
		defers := &fr.defers
		if into := fr.get(instr.DeferStack); into != nil {
			defers = into.(**deferred)
		}
		*defers = &deferred{
			fn:    fn,
			args:  args,
			instr: instr,
			tail:  *defers,
		}

	case *ssa.Go:
		fn, args := prepareCall(fr, &instr.Call)
		i.spawn(instr.Pos(), fn, args)

	case *ssa.MakeChan:
		n := i.needInt(fr.get(instr.Size), "channel capacity")
		fr.env[instr] = i.makeChan(int(n))

	case *ssa.Alloc:
		var addr *value
		if instr.Heap {
			addr = new(value)
			fr.env[instr] = addr
			*addr = zero(mustDeref(instr.Type()))
		} else {
			addr = fr.env[instr].(*value)
			i.setCell(addr, zero(mustDeref(instr.Type())))
		}

	case *ssa.MakeSlice:
		ln := i.allocSize(fr.get(instr.Len), "make: len")
		cp := i.allocSize(fr.get(instr.Cap), "make: cap")
		if cp < ln {
			panic(targetPanic{i.rtErr("makeslice: cap out of range")})
		}
		slice := make([]value, cp)
		tElt := instr.Type().Underlying().(*types.Slice).Elem()
		for k := range slice {
			slice[k] = zero(tElt)
		}
		fr.env[instr] = slice[:ln]

	case *ssa.MakeMap:
		if instr.Reserve != nil {
			i.needInt(fr.get(instr.Reserve), "make: map size")
		}
		mt := instr.Type().Underlying().(*types.Map)
		fr.env[instr] = newOmap(mt.Key(), mt.Elem())

	case *ssa.Range:
		fr.env[instr] = i.rangeIter(fr.get(instr.X), instr.X.Type())

	case *ssa.Next:
		fr.env[instr] = fr.get(instr.Iter).(iter).next()

	case *ssa.FieldAddr:
		p := fr.get(instr.X).(*value)
		if p == nil {
			panic(targetPanic{i.rtErr("invalid memory address or nil pointer dereference")})
		}
		fr.env[instr] = &(*p).(structure)[instr.Field]

	case *ssa.Field:
		fr.env[instr] = fr.get(instr.X).(structure)[instr.Field]

	case *ssa.IndexAddr:
		x := fr.get(instr.X)
		idx := fr.get(instr.Index)
		var cells []value
		switch x := x.(type) {
		case []value:
			cells = x
		case *value: // *array
			if x == nil {
				panic(targetPanic{i.rtErr("invalid memory address or nil pointer dereference")})
			}
			cells = []value((*x).(array))
		default:
			panic(fmt.Sprintf("unexpected x type in IndexAddr: %T", x))
		}
		if it, ok := idx.(*sym.Term); ok && !it.IsConst() && len(cells) > 1 && onlyLoadStore(instr) {
			// symbolic element address used only by loads/stores: keep it symbolic
			inb := i.inBounds(it, len(cells))
			if i.specDepth > 0 {
				i.sideCond(i.ctx.Not(inb))
			} else if !i.decide(inb) {
				panic(targetPanic{i.rtErr(fmt.Sprintf("index out of range [symbolic] with length %d", len(cells)))})
			}
			fr.env[instr] = symAddr{cells: cells, idx: it, t: instr.Index.Type()}
			break
		}
		k := i.indexFor(idx, instr.Index.Type(), len(cells))
		fr.env[instr] = &cells[k]

	case *ssa.Index:
		x := fr.get(instr.X)
		idx := fr.get(instr.Index)
		switch x := x.(type) {
		case array:
			fr.env[instr] = i.indexLoad([]value(x), idx, instr.Index.Type())
		case string:
			if k, ok := idx.(int); ok && k >= 0 && k < len(x) {
				fr.env[instr] = x[k]
			} else {
				fr.env[instr] = i.indexLoad(strBytes(x), idx, instr.Index.Type())
			}
		case sstr:
			fr.env[instr] = i.indexLoad([]value(x), idx, instr.Index.Type())
		default:
			panic(fmt.Sprintf("unexpected x type in Index: %T", x))
		}

	case *ssa.Lookup:
		fr.env[instr] = i.lookup(instr, fr.get(instr.X), fr.get(instr.Index))

	case *ssa.MapUpdate:
		m := fr.get(instr.Map).(*omap)
		i.mapUpdate(m, fr.get(instr.Key), fr.get(instr.Value))

	case *ssa.TypeAssert:
		fr.env[instr] = typeAssert(fr.i, instr, fr.get(instr.X).(iface))

	case *ssa.MakeClosure:
		var bindings []value
		for _, binding := range instr.Bindings {
			bindings = append(bindings, fr.get(binding))
		}
		fr.env[instr] = &closure{instr.Fn.(*ssa.Function), bindings}

	case *ssa.Phi:
		panic("unreachable: phis are processed at block entry")

	case *ssa.Select:
		i.unsupported("select statement")

	default:
		panic(fmt.Sprintf("unexpected instruction: %T", instr))
	}
	return kNext
}

const (
	maxAlloc  = 1 << 22 // elements the engine is willing to allocate
	hugeAlloc = 1 << 28 // elements above which a Go program panics (len out of range) or dies (out of memory)
)

// allocSize resolves the size of a make(): negative or huge sizes are the Go panic / fatal
// out-of-memory class (one representative path, constrained to that region); other symbolic
// sizes are enumerated.
func (i *interpreter) allocSize(v value, what string) int64 {
	if t, ok := v.(*sym.Term); ok && !t.IsConst() {
		w := int(t.Sort.W)
		if i.decide(i.ctx.BvSlt(t, i.ctx.BVC(w, 0))) {
			panic(targetPanic{i.rtErr("makeslice: len out of range")})
		}
		// prefer the most extreme feasible region so that the native replay shows the failure
		for _, th := range []uint64{1 << 62, 1 << 47, hugeAlloc} {
			if i.decide(i.ctx.BvSlt(i.ctx.BVC(w, th), t)) {
				panic(targetPanic{i.rtErr(fmt.Sprintf("makeslice: len out of range or out of memory (size > %d elements)", th))})
			}
		}
		return i.concretize(t, true, what)
	}
	n := asInt64(v)
	if n < 0 {
		panic(targetPanic{i.rtErr("makeslice: len out of range")})
	}
	if n > hugeAlloc {
		panic(targetPanic{i.rtErr(fmt.Sprintf("makeslice: len out of range or out of memory (%d elements)", n))})
	}
	if n > maxAlloc {
		i.unsupported(fmt.Sprintf("allocation of %d elements is beyond the engine's limit", n))
	}
	return n
}

// needInt demands a concrete integer (enumerating feasible values of a symbolic one).
func (i *interpreter) needInt(v value, what string) int64 {
	if t, ok := v.(*sym.Term); ok {
		return i.concretize(t, true, what)
	}
	return asInt64(v)
}

// indexFor checks bounds (a Go panic when violated) and returns a concrete index; a
// symbolic index is enumerated over its feasible values.
func (i *interpreter) indexFor(idx value, t types.Type, n int) int {
	if it, ok := idx.(*sym.Term); ok && !it.IsConst() {
		// unsigned comparison covers negative values too
		inb := i.inBounds(it, n)
		if !i.decide(inb) {
			panic(targetPanic{i.rtErr(fmt.Sprintf("index out of range [symbolic] with length %d", n))})
		}
		return int(i.concretize(it, false, "index"))
	}
	k := asInt64(idx)
	if _, signed, _ := intInfo(t); !signed && k < 0 {
		k = int64(n) // huge unsigned
	}
	if k < 0 || k >= int64(n) {
		panic(targetPanic{i.rtErr(fmt.Sprintf("index out of range [%d] with length %d", k, n))})
	}
	return int(k)
}

// symAddr is the address of cells[idx] for a symbolic in-range index.
type symAddr struct {
	cells []value
	idx   *sym.Term
	t     types.Type
}

// onlyLoadStore reports whether the address computed by instr is used only to load from or
// store to it.
func onlyLoadStore(instr *ssa.IndexAddr) bool {
	refs := instr.Referrers()
	if refs == nil {
		return false
	}
	for _, r := range *refs {
		switch r := r.(type) {
		case *ssa.UnOp:
			if r.Op != token.MUL {
				return false
			}
		case *ssa.Store:
			if r.Addr != instr {
				return false
			}
		case *ssa.DebugRef:
		default:
			return false
		}
	}
	return true
}

// symStore writes v to cells[idx]: every cell becomes ite(idx == k, v, old).
func (i *interpreter) symStore(sa symAddr, v value) {
	w := int(sa.idx.Sort.W)
	news := make([]value, len(sa.cells))
	for k := range sa.cells {
		r, ok := i.iteVal(i.ctx.Eq(sa.idx, i.ctx.BVC(w, uint64(k))), v, sa.cells[k])
		if !ok {
			// not a scalar cell: enumerate the index instead
			j := i.concretize(sa.idx, false, "index")
			i.storeRec(&sa.cells[j], v)
			return
		}
		news[k] = r
	}
	for k := range sa.cells {
		i.setCell(&sa.cells[k], news[k])
	}
}

// inBounds builds 0 <= it < n (unsigned view), taking care of n not representable in the width.
func (i *interpreter) inBounds(it *sym.Term, n int) *sym.Term {
	w := int(it.Sort.W)
	if w < 64 && uint64(n) > (uint64(1)<<uint(w))-1 {
		return i.ctx.True()
	}
	return i.ctx.BvUlt(it, i.ctx.BVC(w, uint64(n)))
}

// indexLoad reads xs[idx]; a symbolic index over scalar elements becomes an ite chain.
func (i *interpreter) indexLoad(xs []value, idx value, t types.Type) value {
	it, ok := idx.(*sym.Term)
	if !ok || it.IsConst() {
		return copyVal(xs[i.indexFor(idx, t, len(xs))])
	}
	inb := i.inBounds(it, len(xs))
	if i.specDepth > 0 {
		i.sideCond(i.ctx.Not(inb))
	} else if !i.decide(inb) {
		panic(targetPanic{i.rtErr(fmt.Sprintf("index out of range [symbolic] with length %d", len(xs)))})
	}
	return i.indexLoadNoCheck(xs, it, t)
}

// indexLoadNoCheck builds the ite chain for xs[it] assuming it is in range.
func (i *interpreter) indexLoadNoCheck(xs []value, it *sym.Term, t types.Type) value {
	w := int(it.Sort.W)
	if len(xs) == 0 {
		i.unsupported("index into empty sequence")
	}
	// rows of a table (slices of equal length with scalar cells): a fresh read-only row whose
	// cells are the element-wise selections
	if row0, ok := xs[0].([]value); ok && i.specDepth >= 0 {
		same := true
		for _, x := range xs {
			r, ok := x.([]value)
			if !ok || len(r) != len(row0) {
				same = false
				break
			}
		}
		if same && len(row0) > 0 {
			out := make([]value, len(row0))
			good := true
			for c := range row0 {
				col := make([]value, len(xs))
				for k := range xs {
					col[k] = xs[k].([]value)[c]
				}
				switch col[0].(type) {
				case []value, *value, *omap, structure, array, iface:
					good = false
				}
				if !good {
					break
				}
				out[c] = i.indexLoadNoCheck(col, it, t)
			}
			if good {
				return out
			}
		}
	}
	res := copyVal(xs[len(xs)-1])
	for k := len(xs) - 2; k >= 0; k-- {
		r, good := i.iteVal(i.ctx.Eq(it, i.ctx.BVC(w, uint64(k))), copyVal(xs[k]), res)
		if !good {
			return copyVal(xs[i.concretize(it, false, "index")])
		}
		res = r
	}
	return res
}

// prepareCall determines the function value and argument values for a call.
func prepareCall(fr *frame, call *ssa.CallCommon) (fn value, args []value) {
	v := fr.get(call.Value)
	if call.Method == nil {
		fn = v
	} else {
		recv := v.(iface)
		if recv.t == nil {
			panic(targetPanic{fr.i.rtErr("invalid memory address or nil pointer dereference (method call on nil interface)")})
		}
		if f := lookupMethod(fr.i, recv.t, call.Method); f == nil {
			panic(fmt.Sprintf("method set for dynamic type %v does not contain %s", recv.t, call.Method))
		} else {
			fn = f
		}
		args = append(args, recv.v)
	}
	for _, arg := range call.Args {
		args = append(args, fr.get(arg))
	}
	return
}

// call interprets a call to a function (function, builtin or closure).
func call(i *interpreter, caller *frame, callpos token.Pos, fn value, args []value) value {
	switch fn := fn.(type) {
	case *ssa.Function:
		if fn == nil {
			panic(targetPanic{i.rtErr("invalid memory address or nil pointer dereference (call of nil func)")})
		}
		return callSSA(i, caller, callpos, fn, args, nil)
	case *closure:
		return callSSA(i, caller, callpos, fn.Fn, args, fn.Env)
	case *ssa.Builtin:
		return i.callBuiltin(caller, callpos, fn, args)
	}
	panic(fmt.Sprintf("cannot call %T", fn))
}

func (i *interpreter) callTop(fn *ssa.Function) {
	call(i, nil, token.NoPos, fn, nil)
}

// callSSA interprets a call to function fn with arguments args and lexical environment env.
func callSSA(i *interpreter, caller *frame, callpos token.Pos, fn *ssa.Function, args []value, env []value) value {
	fr := &frame{
		i:      i,
		caller: caller, // for panic/recover
		fn:     fn,
	}
	if fn.Parent() == nil {
		name := fn.String()
		if ov := i.overrides[name]; ov != nil {
			return ov(fr, args)
		}
		if ext := externals[name]; ext != nil {
			return ext(fr, args)
		}
		if fn.Pkg != nil && fn.Synthetic == "package initializer" {
			if !i.initAllowed(fn.Pkg) {
				return nil
			}
		}
		if intr := i.intrinsic(fn); intr != nil {
			return intr(fr, args)
		}
		if fn.Blocks == nil {
			i.unsupported("no code for function: " + name)
		}
		if fn.Pkg != nil && !i.interpretable(fn.Pkg) {
			i.unsupported("call into unmodelled package: " + name)
		}
	}
	if fn.TypeParams().Len() > 0 && len(fn.TypeArgs()) == 0 {
		panic("interp requires ssa.BuilderMode to include InstantiateGenerics to execute generics")
	}
	if i.funcsHit != nil {
		i.funcsHit[fn]++
	}
	i.curFrame = fr
	fr.env = make(map[ssa.Value]value, len(fn.Params)+len(fn.Locals)+8)
	fr.block = fn.Blocks[0]
	fr.locals = make([]value, len(fn.Locals))
	for k, l := range fn.Locals {
		fr.locals[k] = zero(mustDeref(l.Type()))
		fr.env[l] = &fr.locals[k]
	}
	for k, p := range fn.Params {
		fr.env[p] = args[k]
	}
	for k, fv := range fn.FreeVars {
		fr.env[fv] = env[k]
	}
	for fr.block != nil {
		runFrame(fr)
	}
	i.curFrame = caller
	return fr.result
}

// runFrame executes SSA instructions starting at fr.block and continuing until a return,
// a panic, or a recovered panic.
func runFrame(fr *frame) {
	defer func() {
		if fr.block == nil {
			return // normal return
		}
		if fr.stopped {
			return
		}
		r := recover()
		if r == nil {
			return
		}
		if isInternal(r) {
			panic(r)
		}
		// classify host panics: explicit target panics keep their value; anything else is
		// an engine problem, never a behaviour of the code under test.
		switch p := r.(type) {
		case targetPanic:
		case runtime.Error:
			if fr.i.Debug {
				panic(r)
			}
			panic(pathAbort{kind: abUnsupported, msg: "engine error: " + p.Error() + fr.i.where()})
		default:
			if fr.i.Debug {
				panic(r)
			}
			panic(pathAbort{kind: abUnsupported, msg: fmt.Sprintf("engine error: %v%s", r, fr.i.where())})
		}
		if fr.i.specDepth > 0 {
			panic(pathAbort{kind: abMerge, msg: "panic inside a merged region"})
		}
		fr.panicking = true
		fr.panic = r
		fr.runDefers()
		fr.block = fr.fn.Recover
	}()

	for {
		nonPhis := executePhis(fr)
		for _, instr := range nonPhis {
			if visitInstr(fr, instr) == kReturn {
				return
			}
			// Inv: kNext (continue) or kJump (last instr)
		}
		if fr.stopAt != nil && fr.block == fr.stopAt {
			fr.stopped = true
			return
		}
	}
}

// executePhis executes the phi-nodes at the start of the current block and returns the
// non-phi instructions.
func executePhis(fr *frame) []ssa.Instruction {
	firstNonPhi := -1
	for i, instr := range fr.block.Instrs {
		if _, ok := instr.(*ssa.Phi); !ok {
			firstNonPhi = i
			break
		}
	}
	nonPhis := fr.block.Instrs[firstNonPhi:]
	if fr.skipPhis {
		fr.skipPhis = false
		return nonPhis
	}
	if firstNonPhi > 0 {
		phis := fr.block.Instrs[:firstNonPhi]
		predIndex := slices.Index(fr.block.Preds, fr.prevBlock)
		fr.phitemps = fr.phitemps[:0]
		for _, phi := range phis {
			phi := phi.(*ssa.Phi)
			fr.phitemps = append(fr.phitemps, fr.get(phi.Edges[predIndex]))
		}
		for i, phi := range phis {
			fr.env[phi.(*ssa.Phi)] = fr.phitemps[i]
		}
	}
	return nonPhis
}

// doRecover implements the recover() built-in.
func doRecover(caller *frame) value {
	if caller != nil && !caller.panicking &&
		caller.caller != nil && caller.caller.panicking {
		caller.caller.panicking = false
		p := caller.caller.panic
		caller.caller.panic = nil
		switch p := p.(type) {
		case targetPanic:
			return p.v
		default:
			panic(fmt.Sprintf("unexpected panic type %T in target call to recover()", p))
		}
	}
	return iface{}
}

// ---------------------------------------------------------------- package initialisation policy

// initWhitelist lists package path prefixes whose initialisers are executed and whose
// functions are interpreted from source.
var initPrefixes = []string{
	"github.com/evolbioinfo/goalign",
	"github.com/armon/go-radix",
	"gonum.org/v1/gonum/mat", "gonum.org/v1/gonum/blas", "gonum.org/v1/gonum/floats", "gonum.org/v1/gonum/internal",
	"gonum.org/v1/gonum/lapack",
}

var initExact = map[string]bool{
	"io": true, "bufio": true, "bytes": true, "strings": true, "strconv": true, "unicode": true, "unicode/utf8": true,
	"unicode/utf16": true, "sort": true, "slices": true, "math": true, "math/bits": true, "math/cmplx": true,
	"regexp": true, "regexp/syntax": true, "errors": true, "cmp": true, "container/heap": true, "container/list": true,
	"internal/stringslite": true, "internal/bytealg": true, "internal/itoa": true, "iter": true, "maps": true,
}

var neverInit = map[string]bool{
	"errors": true, "internal/bytealg": true,
}

func pkgListed(path string) bool {
	if initExact[path] {
		return true
	}
	for _, p := range initPrefixes {
		if path == p || strings.HasPrefix(path, p+"/") {
			return true
		}
	}
	return false
}

func (i *interpreter) initAllowed(p *ssa.Package) bool {
	path := p.Pkg.Path()
	if neverInit[path] {
		return false
	}
	return pkgListed(path)
}

func (i *interpreter) interpretable(p *ssa.Package) bool {
	return pkgListed(p.Pkg.Path())
}
