package interp

// Models of functions that cannot be interpreted from source (no Go body, unsafe, reflect,
// OS) or whose source-level execution would add nothing to the properties. Every entry is
// part of the trusted base (DESIGN.md §2.6). Keys are ssa.Function.String().

import (
	"errors"
	"fmt"
	"math"
	"strconv"
	"strings"

	"golang.org/x/tools/go/ssa"

	"gosym/sym"
)

var externals = map[string]externalFn{}

func init() {
	for k, v := range map[string]externalFn{
		// internal/bytealg (assembly on amd64)
		"internal/bytealg.IndexByte":       extIndexByte,
		"internal/bytealg.IndexByteString": extIndexByte,
		"internal/bytealg.Count":           extCountByte,
		"internal/bytealg.CountString":     extCountByte,
		"internal/bytealg.Equal":           extBytesEqual,
		"internal/bytealg.Compare":         extBytesCompare,
		"internal/bytealg.MakeNoZero":      extMakeNoZero,
		"internal/bytealg.Index":           extIndex,
		"internal/bytealg.IndexString":     extIndex,
		"internal/stringslite.Index":       nil,
		"bytes.Equal":                      extBytesEqual,
		"bytes.Compare":                    extBytesCompare,
		"strings.Compare":                  extBytesCompare,
		"bytes.IndexByte":                  extIndexByte,
		"strings.IndexByte":                extIndexByte,
		"internal/stringslite.IndexByte":   extIndexByte,

		// math
		"math.Log":             func(fr *frame, a []value) value { return fr.i.mathLog(a[0]) },
		"math.log":             func(fr *frame, a []value) value { return fr.i.mathLog(a[0]) },
		"math.Exp":             func(fr *frame, a []value) value { return fr.i.mathExp(a[0]) },
		"math.exp":             func(fr *frame, a []value) value { return fr.i.mathExp(a[0]) },
		"math.Pow":             func(fr *frame, a []value) value { return fr.i.mathPow(a[0], a[1]) },
		"math.pow":             func(fr *frame, a []value) value { return fr.i.mathPow(a[0], a[1]) },
		"math.Sqrt":            func(fr *frame, a []value) value { return fr.i.mathSqrt(a[0]) },
		"math.sqrt":            func(fr *frame, a []value) value { return fr.i.mathSqrt(a[0]) },
		"math.Abs":             func(fr *frame, a []value) value { return fr.i.mathAbs(a[0]) },
		"math.IsNaN":           func(fr *frame, a []value) value { return fr.i.mathIsNaN(a[0]) },
		"math.IsInf":           func(fr *frame, a []value) value { return fr.i.mathIsInf(a[0], a[1]) },
		"math.Max":             func(fr *frame, a []value) value { return fr.i.mathMaxMin(a[0], a[1], true) },
		"math.Min":             func(fr *frame, a []value) value { return fr.i.mathMaxMin(a[0], a[1], false) },
		"math.NaN":             func(fr *frame, a []value) value { return math.NaN() },
		"math.Inf":             func(fr *frame, a []value) value { return math.Inf(int(asInt64(a[0]))) },
		"math.Float64bits":     func(fr *frame, a []value) value { return math.Float64bits(fr.i.needFloat(a[0], "math.Float64bits")) },
		"math.Float64frombits": func(fr *frame, a []value) value { return math.Float64frombits(a[0].(uint64)) },
		"math.Float32bits":     func(fr *frame, a []value) value { return math.Float32bits(a[0].(float32)) },
		"math.Float32frombits": func(fr *frame, a []value) value { return math.Float32frombits(a[0].(uint32)) },
		"math.Floor":           extFloor,
		"math.floor":           extFloor,
		"math.Ceil":            extCeil,
		"math.ceil":            extCeil,
		"math.Log10":           func(fr *frame, a []value) value { return math.Log10(fr.i.needFloat(a[0], "math.Log10")) },
		"math.Log2":            func(fr *frame, a []value) value { return math.Log2(fr.i.needFloat(a[0], "math.Log2")) },
		"math.Gamma":           func(fr *frame, a []value) value { return math.Gamma(fr.i.needFloat(a[0], "math.Gamma")) },
		"math.Lgamma":          func(fr *frame, a []value) value { r, s := math.Lgamma(fr.i.needFloat(a[0], "math.Lgamma")); return tuple{r, s} },
		"math.Nextafter":       func(fr *frame, a []value) value { return math.Nextafter(fr.i.needFloat(a[0], "Nextafter"), fr.i.needFloat(a[1], "Nextafter")) },
		"math.Pow10":           func(fr *frame, a []value) value { return math.Pow10(int(asInt64(a[0]))) },
		"math.Mod":             func(fr *frame, a []value) value { return math.Mod(fr.i.needFloat(a[0], "math.Mod"), fr.i.needFloat(a[1], "math.Mod")) },
		"math.Trunc":           func(fr *frame, a []value) value { return math.Trunc(fr.i.needFloat(a[0], "math.Trunc")) },
		"math.Modf":            func(fr *frame, a []value) value { x, y := math.Modf(fr.i.needFloat(a[0], "math.Modf")); return tuple{x, y} },
		"math.Frexp":           func(fr *frame, a []value) value { x, y := math.Frexp(fr.i.needFloat(a[0], "math.Frexp")); return tuple{x, y} },
		"math.Ldexp":           func(fr *frame, a []value) value { return math.Ldexp(fr.i.needFloat(a[0], "math.Ldexp"), int(asInt64(a[1]))) },
		"math.Copysign":        func(fr *frame, a []value) value { return math.Copysign(fr.i.needFloat(a[0], "Copysign"), fr.i.needFloat(a[1], "Copysign")) },
		"math.Signbit":         func(fr *frame, a []value) value { return math.Signbit(fr.i.needFloat(a[0], "Signbit")) },
		"math.Hypot":           func(fr *frame, a []value) value { return math.Hypot(fr.i.needFloat(a[0], "Hypot"), fr.i.needFloat(a[1], "Hypot")) },
		"math.Sin":             func(fr *frame, a []value) value { return math.Sin(fr.i.needFloat(a[0], "Sin")) },
		"math.Cos":             func(fr *frame, a []value) value { return math.Cos(fr.i.needFloat(a[0], "Cos")) },
		"math.FMA":             func(fr *frame, a []value) value { return math.FMA(fr.i.needFloat(a[0], "FMA"), fr.i.needFloat(a[1], "FMA"), fr.i.needFloat(a[2], "FMA")) },

		// math/rand: nondeterministic stubs constrained by the documented contract only
		"math/rand.Intn":    extRandIntn,
		"math/rand.Int63n":  extRandIntn,
		"math/rand.Int31n":  extRandIntn,
		"math/rand.Int":     extRandInt,
		"math/rand.Int63":   extRandInt,
		"math/rand.Float64": extRandFloat64,
		"math/rand.Perm":    extRandPerm,
		"math/rand.Shuffle": extRandShuffle,
		"math/rand.Seed":    func(fr *frame, a []value) value { return nil },
		"math/rand.ExpFloat64":  extRandExp,
		"math/rand.NormFloat64": extRandNorm,

		// formatting and messages
		"fmt.Sprintf":  extSprintf,
		"fmt.Sprint":   extSprint,
		"fmt.Sprintln": extSprint,
		"fmt.Errorf":   extErrorf,
		"fmt.Println":  extNop,
		"fmt.Printf":   extNop,
		"fmt.Print":    extNop,
		"fmt.Fprintf":  extFprintf,
		"fmt.Fprint":   extFprint,
		"fmt.Fprintln": extFprint,
		"log.Print":    extNop,
		"log.Println":  extNop,
		"log.Printf":   extNop,
		"log.Fatal":    extExit1,
		"log.Fatalf":   extExit1,
		"os.Exit": func(fr *frame, a []value) value {
			panic(pathAbort{kind: abExit, code: int(asInt64(a[0])), msg: "os.Exit"})
		},
		"github.com/evolbioinfo/goalign/io.PrintMessage":       extNop,
		"github.com/evolbioinfo/goalign/io.PrintSimpleMessage": extNop,
		"github.com/evolbioinfo/goalign/io.LogError":           extNop,
		"github.com/evolbioinfo/goalign/io.LogInfo":            extNop,
		"github.com/evolbioinfo/goalign/io.LogWarning":         extNop,
		"github.com/evolbioinfo/goalign/io.ExitWithMessage": func(fr *frame, a []value) value {
			msg := "io.ExitWithMessage"
			if e, ok := a[0].(iface); ok {
				msg += ": " + fr.i.errorString(e)
			}
			panic(pathAbort{kind: abExit, code: 1, msg: msg})
		},
		"runtime.Caller":     func(fr *frame, a []value) value { return tuple{uintptr(0), "?", 0, false} },
		"runtime.GOMAXPROCS": func(fr *frame, a []value) value { return 1 },
		"runtime.NumCPU":     func(fr *frame, a []value) value { return 1 },
		"runtime.Gosched":    func(fr *frame, a []value) value { fr.i.syncPoint("gosched"); return nil },
		"runtime.GC":         extNop,
		"runtime.KeepAlive":  extNop,
		"time.Sleep":         extNop,

		// sync
		"(*sync.Mutex).Lock":       func(fr *frame, a []value) value { fr.i.muLock(a[0].(*value)); return nil },
		"(*sync.Mutex).Unlock":     func(fr *frame, a []value) value { fr.i.muUnlock(a[0].(*value)); return nil },
		"(*sync.Mutex).TryLock":    nil,
		"(*sync.RWMutex).Lock":     func(fr *frame, a []value) value { fr.i.muLock(a[0].(*value)); return nil },
		"(*sync.RWMutex).Unlock":   func(fr *frame, a []value) value { fr.i.muUnlock(a[0].(*value)); return nil },
		"(*sync.RWMutex).RLock":    func(fr *frame, a []value) value { fr.i.muLock(a[0].(*value)); return nil },
		"(*sync.RWMutex).RUnlock":  func(fr *frame, a []value) value { fr.i.muUnlock(a[0].(*value)); return nil },
		"(*sync.WaitGroup).Add":    func(fr *frame, a []value) value { fr.i.wgAdd(a[0].(*value), int(asInt64(a[1]))); return nil },
		"(*sync.WaitGroup).Done":   func(fr *frame, a []value) value { fr.i.wgAdd(a[0].(*value), -1); return nil },
		"(*sync.WaitGroup).Wait":   func(fr *frame, a []value) value { fr.i.wgWait(a[0].(*value)); return nil },
		"(*sync.Pool).Get":         extPoolGet,
		"(*sync.Pool).Put":         extNop,
		"(*sync.Once).Do":          extOnceDo,
		"(*sync.Once).doSlow":      nil,
		"sync/atomic.LoadInt32":    extAtomicLoad,
		"sync/atomic.LoadInt64":    extAtomicLoad,
		"sync/atomic.LoadUint32":   extAtomicLoad,
		"sync/atomic.LoadUint64":   extAtomicLoad,
		"sync/atomic.LoadPointer":  extAtomicLoad,
		"sync/atomic.StoreInt32":   extAtomicStore,
		"sync/atomic.StoreInt64":   extAtomicStore,
		"sync/atomic.StoreUint32":  extAtomicStore,
		"sync/atomic.StoreUint64":  extAtomicStore,
		"sync/atomic.AddInt32":     extAtomicAdd,
		"sync/atomic.AddInt64":     extAtomicAdd,
		"sync/atomic.AddUint32":    extAtomicAdd,
		"sync/atomic.AddUint64":    extAtomicAdd,
		"sync/atomic.CompareAndSwapInt32":  extAtomicCAS,
		"sync/atomic.CompareAndSwapInt64":  extAtomicCAS,
		"sync/atomic.CompareAndSwapUint32": extAtomicCAS,
		"sync/atomic.CompareAndSwapUint64": extAtomicCAS,
		"(*sync/atomic.Int32).Load":  extAtomicTLoad,
		"(*sync/atomic.Int32).Store": extAtomicTStore,
		"(*sync/atomic.Int32).Add":   extAtomicTAdd,
		"(*sync/atomic.Int32).CompareAndSwap": extAtomicTCAS,
		"(*sync/atomic.Uint32).Load":  extAtomicTLoad,
		"(*sync/atomic.Uint32).Store": extAtomicTStore,
		"(*sync/atomic.Bool).Load":  func(fr *frame, a []value) value { return asInt64(extAtomicTLoad(fr, a)) != 0 },

		"(*strings.Builder).copyCheck": extNop,
		"strings.Clone":                func(fr *frame, a []value) value { return a[0] },
		"internal/stringslite.Clone":   func(fr *frame, a []value) value { return a[0] },
		"bytes.Clone":                  nil,
		"internal/abi.NoEscape":        func(fr *frame, a []value) value { return a[0] },
		"internal/abi.Escape":          func(fr *frame, a []value) value { return a[0] },

		// sort (reflect-based swapper)
		"sort.Slice":       extSortSlice,
		"sort.SliceStable": extSortSlice,

		// errors
		"errors.Is": extErrorsIs,

		// sync.Map as an engine map (sequential semantics with a schedule point)
		"(*sync.Map).Load": func(fr *frame, a []value) value {
			fr.i.syncPoint("sync.Map")
			v, ok := fr.i.mapLookup(fr.i.syncMap(a[0].(*value)), a[1], nil)
			if okb, isB := ok.(bool); isB {
				if !okb {
					return tuple{iface{}, false}
				}
				return tuple{v, true}
			}
			if fr.i.decide(ok) {
				return tuple{v, true}
			}
			return tuple{iface{}, false}
		},
		"(*sync.Map).Store": func(fr *frame, a []value) value {
			fr.i.syncPoint("sync.Map")
			fr.i.mapUpdate(fr.i.syncMap(a[0].(*value)), a[1], a[2])
			return nil
		},
		"(*sync.Map).LoadOrStore": func(fr *frame, a []value) value {
			i := fr.i
			i.syncPoint("sync.Map")
			m := i.syncMap(a[0].(*value))
			v, ok := i.mapLookup(m, a[1], nil)
			if i.decide(ok) {
				return tuple{v, true}
			}
			i.mapUpdate(m, a[1], a[2])
			return tuple{a[2], false}
		},
		"(*sync.Map).Delete": func(fr *frame, a []value) value {
			fr.i.syncPoint("sync.Map")
			fr.i.mapDelete(fr.i.syncMap(a[0].(*value)), a[1])
			return nil
		},
		"(*sync.Map).Range": func(fr *frame, a []value) value {
			i := fr.i
			it := i.newMapIter(i.syncMap(a[0].(*value)))
			for {
				t := it.next()
				if !t[0].(bool) {
					break
				}
				if !i.decide(call(i, fr, 0, a[1], []value{t[1], t[2]})) {
					break
				}
			}
			return nil
		},

		// only used to size (un)marshalling headers in package initialisers
		"encoding/binary.Size": func(fr *frame, a []value) value { return 8 },
	} {
		if v != nil {
			externals[k] = v
		}
	}
}

func extNop(fr *frame, args []value) value { return nil }

// syncMap returns the engine map standing for the sync.Map at address p.
func (i *interpreter) syncMap(p *value) *omap {
	if i.syncMaps == nil {
		i.syncMaps = map[*value]*omap{}
	}
	m := i.syncMaps[p]
	if m == nil {
		m = newOmap(nil, nil)
		i.syncMaps[p] = m
	}
	return m
}

func extExit1(fr *frame, args []value) value {
	panic(pathAbort{kind: abExit, code: 1, msg: "log.Fatal"})
}

func (i *interpreter) needFloat(v value, what string) float64 {
	switch x := v.(type) {
	case float64:
		return x
	case float32:
		return float64(x)
	case *FV:
		if f, ok := i.fApprox(x); ok {
			return f
		}
	}
	i.unsupported(what + " of a symbolic float")
	return 0
}

func extFloor(fr *frame, a []value) value {
	i := fr.i
	if f, ok := a[0].(float64); ok {
		return math.Floor(f)
	}
	x := i.toFV(a[0])
	c := i.ctx
	return i.fSimp(&FV{Nan: x.Nan, Inf: x.Inf, V: c.Ite(x.Inf, x.V, c.ToReal(c.ToInt(x.V)))})
}

func extCeil(fr *frame, a []value) value {
	i := fr.i
	if f, ok := a[0].(float64); ok {
		return math.Ceil(f)
	}
	x := i.toFV(a[0])
	c := i.ctx
	return i.fSimp(&FV{Nan: x.Nan, Inf: x.Inf, V: c.Ite(x.Inf, x.V, c.Neg(c.ToReal(c.ToInt(c.Neg(x.V)))))})
}

// ---------------------------------------------------------------- bytes

func seqBytes(v value) []value {
	switch s := v.(type) {
	case []value:
		return s
	case string, sstr:
		return strBytes(s)
	}
	panic(fmt.Sprintf("seqBytes: %T", v))
}

// extIndexByte: first index of c in s or -1, as a term when bytes are symbolic.
func extIndexByte(fr *frame, args []value) value {
	i := fr.i
	s := seqBytes(args[0])
	c := args[1]
	var res value = -1
	for k := len(s) - 1; k >= 0; k-- {
		eq := i.equals(nil, s[k], c)
		switch e := eq.(type) {
		case bool:
			if e {
				res = k
			}
		case *sym.Term:
			r, _ := i.iteVal(e, k, res)
			res = r
		}
	}
	return res
}

func extCountByte(fr *frame, args []value) value {
	i := fr.i
	s := seqBytes(args[0])
	c := args[1]
	var res value = 0
	for k := range s {
		eq := i.equals(nil, s[k], c)
		switch e := eq.(type) {
		case bool:
			if e {
				res = i.binop(tokADD, tInt, res, 1)
			}
		case *sym.Term:
			inc := i.binop(tokADD, tInt, res, 1)
			r, _ := i.iteVal(e, inc, res)
			res = r
		}
	}
	return res
}

func extBytesEqual(fr *frame, args []value) value {
	return fr.i.strEq(mkStr(seqBytes(args[0])), mkStr(seqBytes(args[1])))
}

func extBytesCompare(fr *frame, args []value) value {
	i := fr.i
	a, b := mkStr(seqBytes(args[0])), mkStr(seqBytes(args[1]))
	lt := i.strLess(a, b, false)
	eq := i.strEq(a, b)
	if l, ok := lt.(bool); ok {
		if e, ok := eq.(bool); ok {
			switch {
			case l:
				return -1
			case e:
				return 0
			}
			return 1
		}
	}
	r1, _ := i.iteVal(i.toBoolTerm(eq), 0, 1)
	r2, _ := i.iteVal(i.toBoolTerm(lt), -1, r1)
	return r2
}

func extMakeNoZero(fr *frame, args []value) value {
	n := fr.i.needInt(args[0], "MakeNoZero")
	out := make([]value, n)
	for k := range out {
		out[k] = uint8(0)
	}
	return out
}

// extIndex: substring search; concrete operands only (symbolic ones use the Go fallbacks).
func extIndex(fr *frame, args []value) value {
	i := fr.i
	a, b := mkStr(seqBytes(args[0])), mkStr(seqBytes(args[1]))
	as, ok1 := a.(string)
	bs, ok2 := b.(string)
	if ok1 && ok2 {
		return strings.Index(as, bs)
	}
	// generic: first position where all bytes match
	ab, bb := strBytes(a), strBytes(b)
	var res value = -1
	for k := len(ab) - len(bb); k >= 0; k-- {
		eq := i.strEq(mkStr(ab[k:k+len(bb)]), b)
		switch e := eq.(type) {
		case bool:
			if e {
				res = k
			}
		case *sym.Term:
			r, _ := i.iteVal(e, k, res)
			res = r
		}
	}
	return res
}

// ---------------------------------------------------------------- rand

// randEnt is one logged draw: same seed = same sequence of outcomes for the same sequence of
// requests (kind, width, bound).
type randEnt struct {
	kind  string
	sort  sym.Sort
	bound *sym.Term
	t     *sym.Term
}

// randVar returns the outcome of the next draw. Between verifRandMark and verifRandRewind the
// draws are logged; after verifRandRewind the logged outcomes are delivered again for as long as
// the requests are the same as in the first run (the generator re-seeded with the same seed); a
// different request, or the end of the log, ends the replay and later draws are fresh again.
func (i *interpreter) randVar(kind string, s sym.Sort, bound *sym.Term) *sym.Term {
	i.noSpec("rand")
	i.randDraws++
	if i.cfg.MaxRand > 0 && i.randDraws > i.cfg.MaxRand {
		panic(pathAbort{kind: abBound, msg: fmt.Sprintf("more than %d random draws", i.cfg.MaxRand)})
	}
	if i.randReplay >= 0 {
		if i.randReplay < len(i.randLog) {
			e := i.randLog[i.randReplay]
			if e.kind == kind && e.sort == s && i.sameBound(e.bound, bound) {
				i.randReplay++
				return e.t
			}
		}
		i.randReplay = -1
	}
	// the name encodes the sort: names are reused across paths and must keep their sort
	pfx := "rndf"
	if s.K == sym.KBV {
		pfx = fmt.Sprintf("rndi%d", s.W)
	}
	t := i.ctx.Var(i.freshName(pfx), s)
	i.tape = append(i.tape, tapeVar{kind: kind, term: t, name: t.Name})
	if i.randLogging {
		i.randLog = append(i.randLog, randEnt{kind, s, bound, t})
	}
	return t
}

func (i *interpreter) sameBound(a, b *sym.Term) bool {
	if a == nil || b == nil {
		return a == b
	}
	if a == b {
		return true
	}
	if a.Sort != b.Sort {
		return false
	}
	return i.decide(i.ctx.Eq(a, b))
}

func extRandIntn(fr *frame, args []value) value {
	i := fr.i
	n := args[0]
	w := 64
	switch n.(type) {
	case int32:
		w = 32
	}
	nt := i.lift(n)
	if i.decide(i.ctx.BvSle(nt, i.ctx.BVC(w, 0))) {
		panic(targetPanic{i.strPanic("invalid argument to Intn")})
	}
	r := i.randVar("rand.int", sym.BV(w), nt)
	i.addPC(i.ctx.BvUlt(r, nt))
	return i.termToGoDyn(r, n, true)
}

func extRandInt(fr *frame, args []value) value {
	i := fr.i
	r := i.randVar("rand.int", sym.BV(64), nil)
	i.addPC(i.ctx.BvSle(i.ctx.BVC(64, 0), r))
	return r
}

func extRandFloat64(fr *frame, args []value) value {
	i := fr.i
	r := i.randVar("rand.f64", sym.Real, nil)
	i.addPC(i.ctx.Le(i.ctx.RealI(0), r))
	i.addPC(i.ctx.Lt(r, i.ctx.RealI(1)))
	return i.finite(r)
}

func extRandExp(fr *frame, args []value) value {
	i := fr.i
	r := i.randVar("rand.f64", sym.Real, nil)
	i.addPC(i.ctx.Lt(i.ctx.RealI(0), r))
	return i.finite(r)
}

func extRandNorm(fr *frame, args []value) value {
	i := fr.i
	r := i.randVar("rand.f64", sym.Real, nil)
	return i.finite(r)
}

// rand.Perm(n): n values in [0,n), pairwise distinct.
func extRandPerm(fr *frame, args []value) value {
	i := fr.i
	n := int(i.needInt(args[0], "rand.Perm"))
	if n < 0 {
		panic(targetPanic{i.strPanic("invalid argument to Perm")})
	}
	out := make([]value, n)
	ts := make([]*sym.Term, n)
	for k := 0; k < n; k++ {
		r := i.randVar("rand.int", sym.BV(64), i.ctx.BVC(64, uint64(n)))
		i.addPC(i.ctx.BvUlt(r, i.ctx.BVC(64, uint64(n))))
		for j := 0; j < k; j++ {
			i.addPC(i.ctx.Not(i.ctx.Eq(r, ts[j])))
		}
		ts[k] = r
		out[k] = r
	}
	return out
}

// rand.Shuffle(n, swap): Fisher-Yates with nondeterministic draws, as documented.
func extRandShuffle(fr *frame, args []value) value {
	i := fr.i
	n := int(i.needInt(args[0], "rand.Shuffle"))
	if n < 0 {
		panic(targetPanic{i.strPanic("invalid argument to Shuffle")})
	}
	for k := n - 1; k > 0; k-- {
		r := i.randVar("rand.int", sym.BV(64), i.ctx.BVC(64, uint64(k+1)))
		i.addPC(i.ctx.BvUlt(r, i.ctx.BVC(64, uint64(k+1))))
		j := i.concretize(r, false, "shuffle index")
		call(i, fr, 0, args[1], []value{k, int(j)})
	}
	return nil
}

// ---------------------------------------------------------------- fmt

// toNative converts an interpreter value to a Go value for fmt.
func (i *interpreter) toNative(v value) (interface{}, bool) {
	switch x := v.(type) {
	case nil:
		return nil, true
	case bool, int, int8, int16, int32, int64, uint, uint8, uint16, uint32, uint64, uintptr, float32, float64, string, complex128:
		return x, true
	case *sym.Term:
		if x.IsConst() {
			if x.Sort.K == sym.KBool {
				return x.U == 1, true
			}
			return x.SignedVal(), true
		}
		return nil, false
	case *FV:
		if f, ok := i.fApprox(x); ok {
			return f, true
		}
		return nil, false
	case sstr:
		return nil, false
	case iface:
		if x.t == nil {
			return nil, true
		}
		if o, ok := x.v.(*opaque); ok {
			return errors.New(o.what), true
		}
		// error or Stringer
		if s := i.errorString(x); s != "" {
			return errors.New(s), true
		}
		if s, ok := i.stringerString(x); ok {
			return s, true
		}
		return i.toNative(x.v)
	case []value:
		out := make([]interface{}, len(x))
		for k := range x {
			n, ok := i.toNative(x[k])
			if !ok {
				return nil, false
			}
			out[k] = n
		}
		// byte slices print as such
		allBytes := len(x) > 0
		for _, e := range out {
			if _, ok := e.(uint8); !ok {
				allBytes = false
			}
		}
		if allBytes {
			bs := make([]byte, len(out))
			for k, e := range out {
				bs[k] = e.(uint8)
			}
			return bs, true
		}
		return out, true
	case array:
		return i.toNative([]value(x))
	case *value:
		if x == nil {
			return nil, true
		}
		return fmt.Sprintf("%p", x), true
	case structure:
		out := make([]interface{}, len(x))
		for k := range x {
			n, ok := i.toNative(x[k])
			if !ok {
				return nil, false
			}
			out[k] = n
		}
		return out, true
	}
	return fmt.Sprintf("<%T>", v), true
}

func (i *interpreter) stringerString(itf iface) (out string, ok bool) {
	defer func() {
		if r := recover(); r != nil {
			if isInternal(r) {
				panic(r)
			}
			ok = false
		}
	}()
	ms := i.prog.MethodSets.MethodSet(itf.t)
	sel := ms.Lookup(nil, "String")
	if sel == nil {
		return "", false
	}
	fn := i.prog.MethodValue(sel)
	if fn == nil || fn.Signature.Params().Len() != 0 {
		return "", false
	}
	r := call(i, nil, 0, fn, []value{itf.v})
	s, isS := r.(string)
	return s, isS
}

func (i *interpreter) nativeArgs(vs []value) ([]interface{}, bool) {
	out := make([]interface{}, len(vs))
	for k, v := range vs {
		n, ok := i.toNative(v)
		if !ok {
			return nil, false
		}
		out[k] = n
	}
	return out, true
}

func extSprintf(fr *frame, args []value) value {
	i := fr.i
	format := i.goString(args[0], "fmt.Sprintf format")
	na, ok := i.nativeArgs(args[1].([]value))
	if !ok {
		return i.symSprintf(format, args[1].([]value))
	}
	return fmt.Sprintf(format, na...)
}

// symSprintf supports the simple verbs %s %c %v %d with symbolic strings/bytes by splicing.
func (i *interpreter) symSprintf(format string, args []value) value {
	var out []value
	ai := 0
	for k := 0; k < len(format); k++ {
		ch := format[k]
		if ch != '%' || k+1 >= len(format) {
			out = append(out, ch)
			continue
		}
		k++
		// flags, width and precision are passed through to fmt for concrete operands
		specStart := k
		for k < len(format) && strings.IndexByte("+-# 0123456789.", format[k]) >= 0 {
			k++
		}
		if k >= len(format) {
			i.unsupported("fmt.Sprintf: truncated verb")
		}
		spec := format[specStart:k]
		verb := format[k]
		if verb == '%' {
			out = append(out, uint8('%'))
			continue
		}
		if ai >= len(args) {
			i.unsupported("fmt.Sprintf: missing argument with symbolic operands")
		}
		a := args[ai].(iface).v
		ai++
		if n, ok := i.toNative(a); ok {
			out = append(out, strBytes(fmt.Sprintf("%"+spec+string(verb), n))...)
			continue
		}
		if spec != "" {
			i.unsupported("fmt.Sprintf verb %" + spec + string(verb) + " with a symbolic operand")
		}
		switch verb {
		case 's', 'v', 'c', 'd', 'q':
			switch x := a.(type) {
			case string, sstr:
				if verb == 'd' {
					i.unsupported("fmt.Sprintf %d of string")
				}
				if verb == 'q' {
					// quoting of a symbolic string: the bytes between quotes, without escapes (only
					// used in messages, whose content is never the subject of a property)
					out = append(out, uint8('"'))
					out = append(out, strBytes(x)...)
					out = append(out, uint8('"'))
					break
				}
				out = append(out, strBytes(x)...)
			case *sym.Term:
				if verb == 'c' && x.Sort.K == sym.KBV {
					out = append(out, value(i.ctx.Extract(x, 7, 0)))
				} else {
					i.unsupported("fmt.Sprintf of a symbolic number")
				}
			default:
				n, ok := i.toNative(a)
				if !ok {
					i.unsupported("fmt.Sprintf with symbolic operand")
				}
				out = append(out, strBytes(fmt.Sprintf("%"+string(verb), n))...)
			}
		default:
			i.unsupported("fmt.Sprintf verb %" + string(verb) + " with symbolic operands")
		}
	}
	return mkStr(out)
}

func extSprint(fr *frame, args []value) value {
	i := fr.i
	na, ok := i.nativeArgs(args[0].([]value))
	if !ok {
		i.unsupported("fmt.Sprint with symbolic operand")
	}
	if strings.HasSuffix(fr.fn.Name(), "ln") {
		return fmt.Sprintln(na...)
	}
	return fmt.Sprint(na...)
}

// newError builds an interpreted error value through the real errors.New.
func (i *interpreter) newError(msg string) value {
	pkg := i.prog.ImportedPackage("errors")
	if pkg != nil {
		if fn := pkg.Func("New"); fn != nil && fn.Blocks != nil {
			return callSSA(i, nil, 0, fn, []value{msg}, nil)
		}
	}
	return iface{t: tString, v: &opaque{what: msg}}
}

func extErrorf(fr *frame, args []value) value {
	i := fr.i
	format, okf := args[0].(string)
	if okf {
		if na, ok := i.nativeArgs(args[1].([]value)); ok {
			return i.newError(fmt.Errorf(format, na...).Error())
		}
	}
	// symbolic operands: the message content is never the subject of a property
	return i.newError("error with symbolic operands: " + fmt.Sprint(args[0]))
}

// writeTo sends bytes to an io.Writer held in an interface value by calling its Write method.
func (i *interpreter) writeTo(fr *frame, w value, s value) {
	itf, ok := w.(iface)
	if !ok || itf.t == nil {
		panic(targetPanic{i.rtErr("invalid memory address or nil pointer dereference")})
	}
	if strings.Contains(itf.t.String(), "os.File") {
		return // stdout/stderr: output is not the subject
	}
	ms := i.prog.MethodSets.MethodSet(itf.t)
	sel := ms.Lookup(nil, "Write")
	if sel == nil {
		i.unsupported("fmt.Fprint to a writer without Write")
	}
	fn := i.prog.MethodValue(sel)
	call(i, fr, 0, fn, []value{itf.v, append([]value{}, strBytes(s)...)})
}

func extFprintf(fr *frame, args []value) value {
	i := fr.i
	s := extSprintf(fr, args[1:])
	i.writeTo(fr, args[0], s)
	return tuple{strLen(s), iface{}}
}

func extFprint(fr *frame, args []value) value {
	i := fr.i
	s := extSprint(fr, args[1:])
	i.writeTo(fr, args[0], s)
	return tuple{strLen(s), iface{}}
}

// ---------------------------------------------------------------- sync helpers

func extPoolGet(fr *frame, args []value) value {
	// sync.Pool{New: f}: call New when set, else nil (a pool may always miss)
	p := args[0].(*value)
	st := (*p).(structure)
	switch f := st[len(st)-1].(type) {
	case *closure:
		if f != nil {
			return call(fr.i, fr, 0, f, nil)
		}
	case *ssa.Function:
		if f != nil {
			return call(fr.i, fr, 0, f, nil)
		}
	}
	return iface{}
}

func extOnceDo(fr *frame, args []value) value {
	i := fr.i
	p := args[0].(*value)
	if i.onces == nil {
		i.onces = map[*value]bool{}
	}
	if i.onces[p] {
		return nil
	}
	i.onces[p] = true
	if i.trailOn {
		i.trail = append(i.trail, trailEnt{undo: func() { delete(i.onces, p) }})
	}
	call(i, fr, 0, args[1], nil)
	return nil
}

func extAtomicLoad(fr *frame, a []value) value {
	fr.i.syncPoint("atomic")
	return fr.i.load(nil, a[0].(*value))
}
func extAtomicStore(fr *frame, a []value) value {
	fr.i.syncPoint("atomic")
	fr.i.store(nil, a[0].(*value), a[1])
	return nil
}
func extAtomicAdd(fr *frame, a []value) value {
	i := fr.i
	i.syncPoint("atomic")
	p := a[0].(*value)
	n := i.binop(tokADD, nil, *p, a[1])
	i.setCell(p, n)
	return n
}
func extAtomicCAS(fr *frame, a []value) value {
	i := fr.i
	i.syncPoint("atomic")
	p := a[0].(*value)
	if i.decide(i.equals(nil, *p, a[1])) {
		i.setCell(p, a[2])
		return true
	}
	return false
}
func atomicField(a []value) *value {
	p := a[0].(*value)
	st := (*p).(structure)
	return &st[len(st)-1]
}
func extAtomicTLoad(fr *frame, a []value) value {
	fr.i.syncPoint("atomic")
	return *atomicField(a)
}
func extAtomicTStore(fr *frame, a []value) value {
	fr.i.syncPoint("atomic")
	fr.i.setCell(atomicField(a), a[1])
	return nil
}
func extAtomicTAdd(fr *frame, a []value) value {
	i := fr.i
	i.syncPoint("atomic")
	p := atomicField(a)
	n := i.binop(tokADD, nil, *p, a[1])
	i.setCell(p, n)
	return n
}
func extAtomicTCAS(fr *frame, a []value) value {
	i := fr.i
	i.syncPoint("atomic")
	p := atomicField(a)
	if i.decide(i.equals(nil, *p, a[1])) {
		i.setCell(p, a[2])
		return true
	}
	return false
}

// ---------------------------------------------------------------- sort.Slice

// extSortSlice sorts with a stable insertion sort driven by the interpreted less function
// (one admissible behaviour of sort.Slice; stability is what sort.SliceStable promises).
func extSortSlice(fr *frame, args []value) value {
	i := fr.i
	itf := args[0].(iface)
	s, ok := itf.v.([]value)
	if !ok {
		i.unsupported("sort.Slice on a non-slice")
	}
	less := args[1]
	n := len(s)
	for a := 1; a < n; a++ {
		for b := a; b > 0; b-- {
			r := call(i, fr, 0, less, []value{b, b - 1})
			if !i.decide(r) {
				break
			}
			x, y := copyVal(s[b]), copyVal(s[b-1])
			i.storeRec(&s[b], y)
			i.storeRec(&s[b-1], x)
		}
	}
	return nil
}

func extErrorsIs(fr *frame, args []value) value {
	i := fr.i
	a, b := args[0].(iface), args[1].(iface)
	r := i.equals(nil, a, b)
	if rb, ok := r.(bool); ok {
		return rb
	}
	return i.decide(r)
}

var _ = strconv.Itoa
