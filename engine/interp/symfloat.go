package interp

import (
	"fmt"
	"go/token"
	"math"
	"math/big"

	"gosym/sym"
)

// FV is a symbolic float64 in the extended-real abstraction (DESIGN.md §2.4):
// NaN, ±Inf (sign carried by V = ±1) or a finite real V. There is no signed zero
// and no rounding: arithmetic on finite values is exact real arithmetic.
type FV struct {
	Nan, Inf *sym.Term // Bool
	V        *sym.Term // Real
}

func (i *interpreter) liftF(f float64) *FV {
	c := i.ctx
	switch {
	case f != f:
		return &FV{Nan: c.True(), Inf: c.False(), V: c.RealI(0)}
	case math.IsInf(f, 1):
		return &FV{Nan: c.False(), Inf: c.True(), V: c.RealI(1)}
	case math.IsInf(f, -1):
		return &FV{Nan: c.False(), Inf: c.True(), V: c.RealI(-1)}
	}
	return &FV{Nan: c.False(), Inf: c.False(), V: c.RealF(f)}
}

func (i *interpreter) toFV(v value) *FV {
	switch x := v.(type) {
	case *FV:
		return x
	case float64:
		return i.liftF(x)
	case float32:
		return i.liftF(float64(x))
	}
	panic(fmt.Sprintf("toFV: %T", v))
}

func (i *interpreter) finite(v *sym.Term) *FV {
	return &FV{Nan: i.ctx.False(), Inf: i.ctx.False(), V: v}
}

// fConcrete returns the float64 if the FV is fully constant and exactly representable.
func (i *interpreter) fConcrete(f *FV) (float64, bool) {
	if !f.Nan.IsConst() || !f.Inf.IsConst() || !f.V.IsConst() {
		return 0, false
	}
	if f.Nan.IsTrue() {
		return math.NaN(), true
	}
	if f.Inf.IsTrue() {
		return math.Inf(f.V.R.Sign()), true
	}
	x, exact := f.V.R.Float64()
	if exact {
		return x, true
	}
	return 0, false
}

// fApprox returns the nearest float64 of a fully constant FV (for formatting and for models that
// need a concrete argument).
func (i *interpreter) fApprox(f *FV) (float64, bool) {
	if !f.Nan.IsConst() || !f.Inf.IsConst() || !f.V.IsConst() {
		return 0, false
	}
	if f.Nan.IsTrue() {
		return math.NaN(), true
	}
	if f.Inf.IsTrue() {
		return math.Inf(f.V.R.Sign()), true
	}
	x, _ := f.V.R.Float64()
	return x, true
}

func (i *interpreter) fSimp(f *FV) value {
	if x, ok := i.fConcrete(f); ok {
		return x
	}
	return f
}

func (i *interpreter) sign(v *sym.Term) *sym.Term {
	c := i.ctx
	z := c.RealI(0)
	return c.Ite(c.Lt(z, v), c.RealI(1), c.Ite(c.Lt(v, z), c.RealI(-1), z))
}

func (i *interpreter) fNeg(a *FV) value {
	return i.fSimp(&FV{Nan: a.Nan, Inf: a.Inf, V: i.ctx.Neg(a.V)})
}

func (i *interpreter) fAdd(a, b *FV) *FV {
	c := i.ctx
	z := c.RealI(0)
	opp := c.And(a.Inf, b.Inf, c.Not(c.Eq(c.Lt(z, a.V), c.Lt(z, b.V))))
	nan := c.Or(a.Nan, b.Nan, opp)
	inf := c.And(c.Not(nan), c.Or(a.Inf, b.Inf))
	v := c.Ite(a.Inf, a.V, c.Ite(b.Inf, b.V, c.Add(a.V, b.V)))
	return &FV{Nan: nan, Inf: inf, V: v}
}

func (i *interpreter) fMul(a, b *FV) *FV {
	c := i.ctx
	z := c.RealI(0)
	az := c.And(c.Not(a.Inf), c.Eq(a.V, z))
	bz := c.And(c.Not(b.Inf), c.Eq(b.V, z))
	nan := c.Or(a.Nan, b.Nan, c.And(a.Inf, bz), c.And(b.Inf, az))
	inf := c.And(c.Not(nan), c.Or(a.Inf, b.Inf))
	var v *sym.Term
	if a.Inf.IsFalse() && b.Inf.IsFalse() {
		v = c.Mul(a.V, b.V)
	} else {
		v = c.Ite(c.Or(a.Inf, b.Inf), c.Mul(i.sign(a.V), i.sign(b.V)), c.Mul(a.V, b.V))
	}
	return &FV{Nan: nan, Inf: inf, V: v}
}

func (i *interpreter) fDiv(a, b *FV) *FV {
	c := i.ctx
	z := c.RealI(0)
	az := c.And(c.Not(a.Inf), c.Eq(a.V, z))
	bz := c.And(c.Not(b.Inf), c.Eq(b.V, z))
	nan := c.Or(a.Nan, b.Nan, c.And(az, bz), c.And(a.Inf, b.Inf))
	inf := c.And(c.Not(nan), c.Or(a.Inf, bz))
	// finite / inf = 0 ; x / 0 = ±inf with sign of x (no signed zero: +0 assumed)
	var quo *sym.Term
	if b.V.IsConst() && b.V.R.Sign() != 0 {
		quo = c.Div(a.V, b.V)
	} else {
		// guard the division so that the term is total
		quo = c.Div(a.V, c.Ite(c.Eq(b.V, z), c.RealI(1), b.V))
	}
	v := c.Ite(bz, i.sign(a.V),
		c.Ite(a.Inf, c.Mul(i.sign(a.V), i.sign(b.V)),
			c.Ite(b.Inf, z, quo)))
	return &FV{Nan: nan, Inf: inf, V: v}
}

// fLt: a < b (false if any NaN)
func (i *interpreter) fLt(a, b *FV) *sym.Term {
	c := i.ctx
	z := c.RealI(0)
	aNegInf := c.And(a.Inf, c.Lt(a.V, z))
	bNegInf := c.And(b.Inf, c.Lt(b.V, z))
	bPosInf := c.And(b.Inf, c.Lt(z, b.V))
	core := c.Ite(a.Inf, c.And(aNegInf, c.Not(bNegInf)),
		c.Ite(b.Inf, bPosInf, c.Lt(a.V, b.V)))
	return c.And(c.Not(a.Nan), c.Not(b.Nan), core)
}

func (i *interpreter) fEq(a, b *FV) *sym.Term {
	c := i.ctx
	z := c.RealI(0)
	same := c.Ite(a.Inf, c.And(b.Inf, c.Eq(c.Lt(z, a.V), c.Lt(z, b.V))),
		c.And(c.Not(b.Inf), c.Eq(a.V, b.V)))
	return c.And(c.Not(a.Nan), c.Not(b.Nan), same)
}

func (i *interpreter) fBinop(op token.Token, a, b *FV) value {
	c := i.ctx
	switch op {
	case token.ADD:
		return i.fSimp(i.fAdd(a, b))
	case token.SUB:
		nb := &FV{Nan: b.Nan, Inf: b.Inf, V: c.Neg(b.V)}
		return i.fSimp(i.fAdd(a, nb))
	case token.MUL:
		return i.fSimp(i.fMul(a, b))
	case token.QUO:
		return i.fSimp(i.fDiv(a, b))
	case token.LSS:
		return simp(i.fLt(a, b))
	case token.GTR:
		return simp(i.fLt(b, a))
	case token.LEQ:
		return simp(c.Or(i.fLt(a, b), i.fEq(a, b)))
	case token.GEQ:
		return simp(c.Or(i.fLt(b, a), i.fEq(a, b)))
	case token.EQL:
		return simp(i.fEq(a, b))
	case token.NEQ:
		return simp(c.Not(i.fEq(a, b)))
	}
	panic(fmt.Sprintf("fBinop: %s", op))
}

// fToInt converts to an integer of width w (truncation toward zero). Out-of-range and
// non-finite inputs are implementation-defined in Go; they are reported as unsupported.
func (i *interpreter) fToInt(a *FV, w int, signed bool) value {
	c := i.ctx
	if i.decide(c.Or(a.Nan, a.Inf)) {
		i.unsupported("conversion of NaN/Inf float to integer")
	}
	z := c.RealI(0)
	fl := c.ToInt(a.V)
	tr := c.Ite(c.Le(z, a.V), fl, c.Neg(c.ToInt(c.Neg(a.V))))
	// range check
	lo, hi := new(big.Int), new(big.Int)
	if signed {
		hi.Lsh(big.NewInt(1), uint(w-1))
		lo.Neg(hi)
		hi.Sub(hi, big.NewInt(1))
	} else {
		hi.Lsh(big.NewInt(1), uint(w))
		hi.Sub(hi, big.NewInt(1))
	}
	loT := c.ToInt(c.RealC(new(big.Rat).SetInt(lo)))
	hiT := c.ToInt(c.RealC(new(big.Rat).SetInt(hi)))
	inRange := c.And(c.Le(loT, tr), c.Le(tr, hiT))
	if !i.decide(inRange) {
		i.unsupported("float to integer conversion out of range")
	}
	return c.Int2Bv(tr, w)
}

// ---------------------------------------------------------------- math models

// ufApp applies an uninterpreted real function and instantiates its axioms once.
func (i *interpreter) ufApp(name string, args ...*sym.Term) *sym.Term {
	return i.ctx.App(name, sym.Real, args...)
}

func (i *interpreter) axiomOnce(key string, t *sym.Term) {
	if i.axiomSeen == nil {
		i.axiomSeen = map[string]bool{}
	}
	if i.axiomSeen[key] {
		return
	}
	i.axiomSeen[key] = true
	// instantiated axioms are facts: they join the path condition, so they live exactly as long
	// as the path that applied the function (and are sliced like any other conjunct)
	i.addPC(t)
}

// mathLog models math.Log on the extended reals with ln uninterpreted.
// constBracket links an uninterpreted transcendental applied to a constant argument to the
// value the real library computes: |uf(c) - native| <= eps (sound: the Go math functions are
// accurate to well below this tolerance).
func (i *interpreter) constBracket(key string, app *sym.Term, native float64) {
	if native != native || math.IsInf(native, 0) {
		return
	}
	c := i.ctx
	eps := 1e-11*math.Abs(native) + 1e-14
	lo := new(big.Rat)
	hi := new(big.Rat)
	if lo.SetFloat64(native-eps) == nil || hi.SetFloat64(native+eps) == nil {
		return
	}
	i.axiomOnce(key, c.And(c.Le(c.RealC(lo), app), c.Le(app, c.RealC(hi))))
}

func (i *interpreter) mathLog(x value) value {
	if f, ok := x.(float64); ok {
		// special points stay concrete; other concrete arguments go through the same
		// uninterpreted ln as symbolic ones (bracketed by the native value), so that equal
		// arguments give equal results whichever way they were computed
		if f != f || f <= 0 || math.IsInf(f, 0) || f == 1 {
			return math.Log(f)
		}
	}
	a := i.toFV(x)
	c := i.ctx
	z := c.RealI(0)
	one := c.RealI(1)
	// guard the argument so ln is only applied to positive reals
	pos := c.And(c.Not(a.Inf), c.Lt(z, a.V))
	arg := c.Ite(pos, a.V, one)
	ln := i.ufApp("ln", arg)
	k := fmt.Sprint(arg.ID)
	if arg.IsConst() {
		af, _ := arg.R.Float64()
		i.constBracket("lnconst"+k, ln, math.Log(af))
	}
	// axioms at this application: ln 1 = 0; ln x <= x-1; ln x >= 1 - 1/x ; sign
	i.axiomOnce("ln1", c.Eq(i.ufApp("ln", one), z))
	i.axiomOnce("lnub"+k, c.Le(ln, c.Sub(arg, one)))
	i.axiomOnce("lnlb"+k, c.Implies(c.Lt(z, arg), c.Le(c.Sub(one, c.Div(one, c.Ite(c.Eq(arg, z), one, arg))), ln)))
	i.axiomOnce("lnsg"+k, c.Eq(c.Lt(arg, one), c.Lt(ln, z)))
	// monotonicity against earlier applications
	for _, prev := range i.lnArgs {
		if prev == arg {
			continue
		}
		pl := i.ufApp("ln", prev)
		i.axiomOnce(fmt.Sprintf("lnmono%d_%d", prev.ID, arg.ID),
			c.And(c.Eq(c.Lt(prev, arg), c.Lt(pl, ln)), c.Eq(c.Eq(prev, arg), c.Eq(pl, ln))))
	}
	seen := false
	for _, p := range i.lnArgs {
		if p == arg {
			seen = true
		}
	}
	if !seen {
		i.lnArgs = append(i.lnArgs, arg)
	}
	isZero := c.And(c.Not(a.Inf), c.Eq(a.V, z))
	neg := c.Or(c.And(c.Not(a.Inf), c.Lt(a.V, z)), c.And(a.Inf, c.Lt(a.V, z)))
	posInf := c.And(a.Inf, c.Lt(z, a.V))
	nan := c.Or(a.Nan, neg)
	inf := c.And(c.Not(nan), c.Or(isZero, posInf))
	v := c.Ite(isZero, c.RealI(-1), c.Ite(posInf, one, ln))
	return i.fSimp(&FV{Nan: nan, Inf: inf, V: v})
}

// mathExp models math.Exp with exp uninterpreted: exp x > 0, exp x >= 1 + x, exp 0 = 1, monotone.
func (i *interpreter) mathExp(x value) value {
	if f, ok := x.(float64); ok {
		if f != f || math.IsInf(f, 0) || f == 0 || math.Abs(f) > 700 {
			return math.Exp(f)
		}
	}
	a := i.toFV(x)
	c := i.ctx
	z := c.RealI(0)
	one := c.RealI(1)
	arg := c.Ite(a.Inf, z, a.V)
	ex := i.ufApp("exp", arg)
	k := fmt.Sprint(arg.ID)
	if arg.IsConst() {
		af, _ := arg.R.Float64()
		i.constBracket("expconst"+k, ex, math.Exp(af))
	}
	i.axiomOnce("exp0", c.Eq(i.ufApp("exp", z), one))
	i.axiomOnce("exppos"+k, c.Lt(z, ex))
	i.axiomOnce("explb"+k, c.Le(c.Add(one, arg), ex))
	i.axiomOnce("expsg"+k, c.Eq(c.Lt(arg, z), c.Lt(ex, one)))
	for _, prev := range i.expArgs {
		if prev == arg {
			continue
		}
		pl := i.ufApp("exp", prev)
		i.axiomOnce(fmt.Sprintf("expmono%d_%d", prev.ID, arg.ID),
			c.And(c.Eq(c.Lt(prev, arg), c.Lt(pl, ex)), c.Eq(c.Eq(prev, arg), c.Eq(pl, ex))))
	}
	seen := false
	for _, p := range i.expArgs {
		if p == arg {
			seen = true
		}
	}
	if !seen {
		i.expArgs = append(i.expArgs, arg)
	}
	posInf := c.And(a.Inf, c.Lt(z, a.V))
	negInf := c.And(a.Inf, c.Lt(a.V, z))
	v := c.Ite(posInf, one, c.Ite(negInf, z, ex))
	return i.fSimp(&FV{Nan: a.Nan, Inf: c.And(c.Not(a.Nan), posInf), V: v})
}

// mathPow models math.Pow(x, y) with pow uninterpreted on x > 0 finite, y finite.
func (i *interpreter) mathPow(x, y value) value {
	if f, ok := x.(float64); ok {
		if g, ok := y.(float64); ok {
			if !(f > 0 && !math.IsInf(f, 0) && !math.IsInf(g, 0) && g == g && f != 1 && g != math.Trunc(g)) {
				return math.Pow(f, g)
			}
		}
	}
	a, b := i.toFV(x), i.toFV(y)
	c := i.ctx
	z := c.RealI(0)
	one := c.RealI(1)
	// small constant integer exponents are exact for every base: repeated multiplication,
	// and a division for negative exponents (x = 0 gives +Inf as in math.Pow)
	if e, ok := i.fConcrete(b); ok && e == math.Trunc(e) && math.Abs(e) <= 4 && e != 0 {
		n := int(math.Abs(e))
		p := a
		for k := 1; k < n; k++ {
			p = i.fMul(p, a)
		}
		if e < 0 {
			p = i.fDiv(i.liftF(1), p)
			if n%2 == 0 {
				// 1/(+0) and 1/(-0) are both +Inf for even powers; the abstraction has no signed zero
				p = &FV{Nan: p.Nan, Inf: p.Inf, V: c.Ite(p.Inf, one, p.V)}
			}
		}
		return i.fSimp(p)
	}
	okDom := c.And(c.Not(a.Nan), c.Not(b.Nan), c.Not(a.Inf), c.Not(b.Inf), c.Lt(z, a.V))
	if !i.decide(okDom) {
		// outside the modelled domain: x <= 0 or non-finite operands
		// pow(x, y) for x == 0: y<0 -> +Inf, y>0 -> 0, y==0 -> 1 ; x<0: NaN unless y integer (unsupported)
		if i.decide(c.Or(a.Nan, b.Nan)) {
			return math.NaN()
		}
		if i.decide(c.Or(a.Inf, b.Inf)) {
			// the special cases documented for math.Pow (the sign of an infinity is the sign of V)
			mone := c.RealI(-1)
			if i.decide(b.Inf) {
				posY := i.decide(c.Lt(z, b.V))
				if i.decide(a.Inf) {
					if posY {
						return math.Inf(1)
					}
					return float64(0)
				}
				if i.decide(c.Or(c.Eq(a.V, one), c.Eq(a.V, mone))) {
					return float64(1) // Pow(±1, ±Inf) = 1
				}
				if i.decide(c.Or(c.Lt(one, a.V), c.Lt(a.V, mone))) == posY {
					return math.Inf(1) // |x|>1, y=+Inf or |x|<1, y=-Inf
				}
				return float64(0)
			}
			if i.decide(c.Lt(z, a.V)) { // Pow(+Inf, y)
				if i.decide(c.Eq(b.V, z)) {
					return float64(1)
				}
				if i.decide(c.Lt(z, b.V)) {
					return math.Inf(1)
				}
				return float64(0)
			}
			i.unsupported("math.Pow with base -Inf")
		}
		if i.decide(c.Eq(a.V, z)) {
			if i.decide(c.Lt(b.V, z)) {
				return math.Inf(1)
			}
			if i.decide(c.Eq(b.V, z)) {
				return float64(1)
			}
			return float64(0)
		}
		// x < 0
		if i.decide(c.Eq(c.ToReal(c.ToInt(b.V)), b.V)) {
			i.unsupported("math.Pow of negative base with integer exponent")
		}
		return math.NaN()
	}
	p := i.ufApp("pow", a.V, b.V)
	k := fmt.Sprintf("%d_%d", a.V.ID, b.V.ID)
	if a.V.IsConst() && b.V.IsConst() {
		af, _ := a.V.R.Float64()
		bf, _ := b.V.R.Float64()
		i.constBracket("powconst"+k, p, math.Pow(af, bf))
	}
	i.axiomOnce("powpos"+k, c.Implies(c.Lt(z, a.V), c.Lt(z, p)))
	i.axiomOnce("pow1"+k, c.Implies(c.Eq(a.V, one), c.Eq(p, one)))
	i.axiomOnce("pow0"+k, c.Implies(c.Eq(b.V, z), c.Eq(p, one)))
	// Bernoulli: x>0, e<=0 or e>=1  =>  x^e >= 1 + e(x-1)
	i.axiomOnce("powbern"+k, c.Implies(c.And(c.Lt(z, a.V), c.Or(c.Le(b.V, z), c.Le(one, b.V))),
		c.Le(c.Add(one, c.Mul(b.V, c.Sub(a.V, one))), p)))
	// monotone in base for fixed negative exponent / positive exponent vs 1
	i.axiomOnce("powsg"+k, c.Implies(c.And(c.Lt(z, a.V), c.Lt(b.V, z)), c.Eq(c.Lt(a.V, one), c.Lt(one, p))))
	i.axiomOnce("powsg2"+k, c.Implies(c.And(c.Lt(z, a.V), c.Lt(z, b.V)), c.Eq(c.Lt(a.V, one), c.Lt(p, one))))
	return i.fSimp(i.finite(p))
}

func (i *interpreter) mathSqrt(x value) value {
	if f, ok := x.(float64); ok {
		return math.Sqrt(f)
	}
	a := i.toFV(x)
	c := i.ctx
	z := c.RealI(0)
	nonneg := c.And(c.Not(a.Inf), c.Le(z, a.V))
	arg := c.Ite(nonneg, a.V, z)
	s := i.ufApp("sqrt", arg)
	k := fmt.Sprint(arg.ID)
	i.axiomOnce("sqrtnn"+k, c.Le(z, s))
	i.axiomOnce("sqrtsq"+k, c.Eq(c.Mul(s, s), arg))
	neg := c.Lt(a.V, z)
	nan := c.Or(a.Nan, neg)
	posInf := c.And(a.Inf, c.Lt(z, a.V))
	return i.fSimp(&FV{Nan: nan, Inf: c.And(c.Not(nan), posInf), V: c.Ite(posInf, c.RealI(1), s)})
}

func (i *interpreter) mathAbs(x value) value {
	if f, ok := x.(float64); ok {
		return math.Abs(f)
	}
	a := i.toFV(x)
	c := i.ctx
	z := c.RealI(0)
	return i.fSimp(&FV{Nan: a.Nan, Inf: a.Inf, V: c.Ite(c.Lt(a.V, z), c.Neg(a.V), a.V)})
}

func (i *interpreter) mathIsNaN(x value) value {
	if f, ok := x.(float64); ok {
		return f != f
	}
	return simp(i.toFV(x).Nan)
}

func (i *interpreter) mathIsInf(x value, sign value) value {
	sg, ok := sign.(int)
	if !ok {
		i.unsupported("math.IsInf with symbolic sign")
	}
	if f, ok := x.(float64); ok {
		return math.IsInf(f, sg)
	}
	a := i.toFV(x)
	c := i.ctx
	z := c.RealI(0)
	isInf := c.And(c.Not(a.Nan), a.Inf)
	switch {
	case sg > 0:
		return simp(c.And(isInf, c.Lt(z, a.V)))
	case sg < 0:
		return simp(c.And(isInf, c.Lt(a.V, z)))
	}
	return simp(isInf)
}

func (i *interpreter) mathMaxMin(x, y value, isMax bool) value {
	if f, ok := x.(float64); ok {
		if g, ok := y.(float64); ok {
			if isMax {
				return math.Max(f, g)
			}
			return math.Min(f, g)
		}
	}
	a, b := i.toFV(x), i.toFV(y)
	c := i.ctx
	// NaN if either NaN (Inf special cases of math.Max agree with the order-based choice)
	var pickA *sym.Term
	if isMax {
		pickA = i.fLt(b, a)
	} else {
		pickA = i.fLt(a, b)
	}
	nan := c.Or(a.Nan, b.Nan)
	return i.fSimp(&FV{Nan: nan, Inf: c.And(c.Not(nan), c.Ite(pickA, a.Inf, b.Inf)), V: c.Ite(pickA, a.V, b.V)})
}

// exactFloatOp keeps concrete float arithmetic consistent with the exact-real semantics of
// symbolic floats: when the IEEE result of + - * / on two finite doubles is not exact, the
// result is kept as an exact rational constant instead of the rounded double.
func (i *interpreter) exactFloatOp(op token.Token, x, y float64) (value, bool) {
	switch op {
	case token.ADD, token.SUB, token.MUL, token.QUO:
	default:
		return nil, false
	}
	if x != x || y != y || math.IsInf(x, 0) || math.IsInf(y, 0) {
		return nil, false
	}
	if op == token.QUO && y == 0 {
		return nil, false
	}
	rx, ry := new(big.Rat).SetFloat64(x), new(big.Rat).SetFloat64(y)
	r := new(big.Rat)
	switch op {
	case token.ADD:
		r.Add(rx, ry)
	case token.SUB:
		r.Sub(rx, ry)
	case token.MUL:
		r.Mul(rx, ry)
	case token.QUO:
		r.Quo(rx, ry)
	}
	if f, exact := r.Float64(); exact {
		return f, true
	}
	return i.finite(i.ctx.RealC(r)), true
}
