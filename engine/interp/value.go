// Copyright 2013 The Go Authors. All rights reserved.
// Use of this source code is governed by a BSD-style
// license that can be found in the LICENSE file.
//
// Derived from golang.org/x/tools/go/ssa/interp (v0.29.0); extended with
// symbolic values for the gosym engine.

package interp

// Values
//
// All interpreter values are "boxed" in the empty interface, value.
// The range of possible dynamic types within value are:
//
// - bool, numbers, string (concrete Go values)
// - *sym.Term --- a symbolic bool (sort Bool) or integer (sort BitVec w)
// - *FV       --- a symbolic float (extended real, see symfloat.go)
// - sstr      --- a string with at least one symbolic byte (concrete length)
// - *omap     --- maps
// - *channel  --- channels
// - []value --- slices
// - iface --- interfaces.
// - structure --- structs.
// - array --- arrays.
// - *value --- pointers.
// - *ssa.Function, *ssa.Builtin, *closure --- functions.
// - tuple --- as returned by Return, Next, "value,ok" modes, etc.
// - iter --- iterators from 'range' over map or string.
// - bad --- a poison pill for locals that have gone out of scope.
// - **deferred -- the address of a frame's defer stack for a Defer._Stack.

import (
	"bytes"
	"fmt"
	"go/types"
	"unicode/utf8"
	"unsafe"

	"golang.org/x/tools/go/ssa"
	"golang.org/x/tools/go/types/typeutil"

	"gosym/sym"
)

type value interface{}

type tuple []value

type array []value

type iface struct {
	t types.Type // never an "untyped" type
	v value
}

type structure []value

// sstr is a string containing symbolic bytes; elements are uint8 or *sym.Term (BV8).
type sstr []value

// For map, array, *array, slice, string or channel.
type iter interface {
	// next returns a Tuple (key, value, ok).
	next() tuple
}

type closure struct {
	Fn  *ssa.Function
	Env []value
}

type bad struct{}

// nativeErr wraps an opaque error produced by a model (fmt.Errorf with symbolic operands etc.)
type opaque struct{ what string }

var hasher = typeutil.MakeHasher()

func isSym(v value) bool {
	switch v.(type) {
	case *sym.Term, *FV, sstr:
		return true
	}
	return false
}

// strBytes returns the bytes of a string value (concrete or symbolic).
func strBytes(v value) []value {
	switch s := v.(type) {
	case string:
		out := make([]value, len(s))
		for i := 0; i < len(s); i++ {
			out[i] = s[i]
		}
		return out
	case sstr:
		return []value(s)
	}
	panic(fmt.Sprintf("strBytes: %T", v))
}

func strLen(v value) int {
	switch s := v.(type) {
	case string:
		return len(s)
	case sstr:
		return len(s)
	}
	panic(fmt.Sprintf("strLen: %T", v))
}

// mkStr builds a string value from bytes, normalising to a Go string when concrete.
func mkStr(b []value) value {
	conc := true
	for _, x := range b {
		if _, ok := x.(uint8); !ok {
			conc = false
			break
		}
	}
	if conc {
		bs := make([]byte, len(b))
		for i, x := range b {
			bs[i] = x.(uint8)
		}
		return string(bs)
	}
	out := make(sstr, len(b))
	copy(out, b)
	return out
}

func sameType(x, y types.Type) bool {
	if x == nil {
		return y == nil
	}
	return y != nil && types.Identical(x, y)
}

// ---------------------------------------------------------------- equality

// equals returns x == y as a concrete bool or a *sym.Term.
func (i *interpreter) equals(t types.Type, x, y value) value {
	switch x := x.(type) {
	case bool:
		if yt, ok := y.(*sym.Term); ok {
			return i.ctx.Eq(i.ctx.BoolC(x), yt)
		}
		return x == y.(bool)
	case int, int8, int16, int32, int64, uint, uint8, uint16, uint32, uint64, uintptr:
		if yt, ok := y.(*sym.Term); ok {
			return simp(i.ctx.Eq(i.lift(x), yt))
		}
		return x == y
	case float32:
		if yf, ok := y.(*FV); ok {
			return simp(i.fEq(i.liftF(float64(x)), yf))
		}
		return x == y.(float32)
	case float64:
		if yf, ok := y.(*FV); ok {
			return simp(i.fEq(i.liftF(x), yf))
		}
		return x == y.(float64)
	case *FV:
		return simp(i.fEq(x, i.toFV(y)))
	case *sym.Term:
		return simp(i.ctx.Eq(x, i.lift(y)))
	case complex64:
		return x == y.(complex64)
	case complex128:
		return x == y.(complex128)
	case string:
		if ys, ok := y.(string); ok {
			return x == ys
		}
		return i.strEq(x, y)
	case sstr:
		return i.strEq(x, y)
	case *value:
		return x == y.(*value)
	case *channel:
		return x == y.(*channel)
	case *omap:
		return x == y.(*omap)
	case unsafe.Pointer:
		return x == y.(unsafe.Pointer)
	case structure:
		ys := y.(structure)
		tStruct := t.Underlying().(*types.Struct)
		var acc value = true
		for k, n := 0, tStruct.NumFields(); k < n; k++ {
			if f := tStruct.Field(k); f.Name() != "_" {
				acc = i.and(acc, i.equals(f.Type(), x[k], ys[k]))
				if acc == false {
					return false
				}
			}
		}
		return acc
	case array:
		ya := y.(array)
		tElt := t.Underlying().(*types.Array).Elem()
		var acc value = true
		for k := range x {
			acc = i.and(acc, i.equals(tElt, x[k], ya[k]))
			if acc == false {
				return false
			}
		}
		return acc
	case iface:
		yi := y.(iface)
		if !sameType(x.t, yi.t) {
			return false
		}
		if x.t == nil {
			return true
		}
		return i.equals(x.t, x.v, yi.v)
	case *opaque:
		yo, ok := y.(*opaque)
		return ok && x == yo
	}
	panic(targetPanic{i.rtErr(fmt.Sprintf("comparing uncomparable type %s", t))})
}

func (i *interpreter) strEq(x, y value) value {
	xb, yb := strBytes(x), strBytes(y)
	if len(xb) != len(yb) {
		return false
	}
	var acc value = true
	for k := range xb {
		acc = i.and(acc, i.equals(nil, xb[k], yb[k]))
		if acc == false {
			return false
		}
	}
	return acc
}

// simp converts constant terms back to concrete bools.
func simp(t *sym.Term) value {
	if t.IsConst() && t.Sort.K == sym.KBool {
		return t.U == 1
	}
	return t
}

func (i *interpreter) toBoolTerm(v value) *sym.Term {
	switch v := v.(type) {
	case bool:
		return i.ctx.BoolC(v)
	case *sym.Term:
		return v
	}
	panic(fmt.Sprintf("toBoolTerm: %T", v))
}

func (i *interpreter) and(a, b value) value {
	if a == false || b == false {
		return false
	}
	if a == true {
		return b
	}
	if b == true {
		return a
	}
	return simp(i.ctx.And(i.toBoolTerm(a), i.toBoolTerm(b)))
}

func (i *interpreter) or(a, b value) value {
	if a == true || b == true {
		return true
	}
	if a == false {
		return b
	}
	if b == false {
		return a
	}
	return simp(i.ctx.Or(i.toBoolTerm(a), i.toBoolTerm(b)))
}

func (i *interpreter) not(a value) value {
	if b, ok := a.(bool); ok {
		return !b
	}
	return simp(i.ctx.Not(a.(*sym.Term)))
}

// ---------------------------------------------------------------- load / store

// load returns the value of type T in *addr.
func (i *interpreter) load(T types.Type, addr *value) value {
	if addr == nil {
		panic(targetPanic{i.rtErr("invalid memory address or nil pointer dereference")})
	}
	i.raceRead(addr)
	return copyVal(*addr)
}

// copyVal makes an unaliased copy of aggregate values.
func copyVal(v value) value {
	switch v := v.(type) {
	case structure:
		a := make(structure, len(v))
		for k := range v {
			a[k] = copyVal(v[k])
		}
		return a
	case array:
		a := make(array, len(v))
		for k := range v {
			a[k] = copyVal(v[k])
		}
		return a
	}
	return v
}

// store stores value v of type T into *addr (recursively for aggregates so that
// addresses of fields/elements stay valid).
func (i *interpreter) store(T types.Type, addr *value, v value) {
	if addr == nil {
		panic(targetPanic{i.rtErr("invalid memory address or nil pointer dereference")})
	}
	i.storeRec(addr, v)
}

func (i *interpreter) storeRec(addr *value, v value) {
	switch rhs := v.(type) {
	case structure:
		lhs, ok := (*addr).(structure)
		if !ok {
			i.setCell(addr, copyVal(v))
			return
		}
		for k := range lhs {
			i.storeRec(&lhs[k], rhs[k])
		}
	case array:
		lhs, ok := (*addr).(array)
		if !ok {
			i.setCell(addr, copyVal(v))
			return
		}
		for k := range lhs {
			i.storeRec(&lhs[k], rhs[k])
		}
	default:
		i.setCell(addr, v)
	}
}

// setCell is the single point through which memory cells are written.
func (i *interpreter) setCell(addr *value, v value) {
	if i.trailOn {
		i.trail = append(i.trail, trailEnt{addr: addr, old: *addr})
	}
	i.raceWrite(addr)
	*addr = v
}

// ---------------------------------------------------------------- printing

func writeValue(buf *bytes.Buffer, v value) {
	switch v := v.(type) {
	case nil, bool, int, int8, int16, int32, int64, uint, uint8, uint16, uint32, uint64, uintptr, float32, float64, complex64, complex128, string:
		fmt.Fprintf(buf, "%v", v)
	case *sym.Term:
		s := v.String()
		if len(s) > 200 {
			s = s[:200] + "..."
		}
		buf.WriteString("<" + s + ">")
	case *FV:
		buf.WriteString("<float " + v.V.String() + ">")
	case sstr:
		buf.WriteString("\"")
		for _, b := range v {
			if c, ok := b.(uint8); ok {
				buf.WriteByte(c)
			} else {
				buf.WriteString("?")
			}
		}
		buf.WriteString("\"")
	case *omap:
		buf.WriteString("map[")
		sep := ""
		if v != nil {
			for _, e := range v.ents {
				if e.dead {
					continue
				}
				buf.WriteString(sep)
				sep = " "
				writeValue(buf, e.k)
				buf.WriteString(":")
				writeValue(buf, *e.vp)
			}
		}
		buf.WriteString("]")
	case *channel:
		fmt.Fprintf(buf, "%p", v)
	case *value:
		if v == nil {
			buf.WriteString("<nil>")
		} else {
			fmt.Fprintf(buf, "%p", v)
		}
	case iface:
		fmt.Fprintf(buf, "(%s, ", v.t)
		writeValue(buf, v.v)
		buf.WriteString(")")
	case structure:
		buf.WriteString("{")
		for i, e := range v {
			if i > 0 {
				buf.WriteString(" ")
			}
			writeValue(buf, e)
		}
		buf.WriteString("}")
	case array:
		buf.WriteString("[")
		for i, e := range v {
			if i > 0 {
				buf.WriteString(" ")
			}
			writeValue(buf, e)
		}
		buf.WriteString("]")
	case []value:
		buf.WriteString("[")
		for i, e := range v {
			if i > 0 {
				buf.WriteString(" ")
			}
			writeValue(buf, e)
		}
		buf.WriteString("]")
	case *ssa.Function, *ssa.Builtin, *closure:
		fmt.Fprintf(buf, "%p", v)
	case tuple:
		buf.WriteString("(")
		for i, e := range v {
			if i > 0 {
				buf.WriteString(", ")
			}
			writeValue(buf, e)
		}
		buf.WriteString(")")
	default:
		fmt.Fprintf(buf, "<%T>", v)
	}
}

func toString(v value) string {
	var b bytes.Buffer
	writeValue(&b, v)
	return b.String()
}

// ---------------------------------------------------------------- iterators

type stringIter struct {
	i   *interpreter
	b   []value
	pos int
}

func (it *stringIter) next() tuple {
	okv := make(tuple, 3)
	if it.pos >= len(it.b) {
		okv[0] = false
		return okv
	}
	okv[0] = true
	okv[1] = it.pos
	r, n := it.i.decodeRune(it.b[it.pos:])
	okv[2] = r
	it.pos += n
	return okv
}

// decodeRune decodes the first rune of b (non-empty). A symbolic leading byte is
// required to be ASCII: the non-ASCII side is a path decision.
func (i *interpreter) decodeRune(b []value) (value, int) {
	switch c := b[0].(type) {
	case uint8:
		if c < 0x80 {
			return int32(c), 1
		}
		// concrete multi-byte: need concrete continuation bytes
		n := 1
		buf := []byte{c}
		for n < len(b) && n < 4 {
			cb, ok := b[n].(uint8)
			if !ok {
				break
			}
			buf = append(buf, cb)
			n++
		}
		r, size := decodeRuneBytes(buf)
		return r, size
	case *sym.Term:
		isASCII := i.ctx.BvUlt(c, i.ctx.BVC(8, 0x80))
		if i.decide(isASCII) {
			return simpInt(i.ctx.ZExt(c, 32)), 1
		}
		i.unsupported("rune decoding of a symbolic byte >= 0x80")
	}
	panic("decodeRune")
}

func simpInt(t *sym.Term) value { return t }

func decodeRuneBytes(b []byte) (value, int) {
	r, n := utf8.DecodeRune(b)
	return int32(r), n
}
