module gosym

go 1.23

require (
	github.com/evolbioinfo/goalign v0.0.0
	golang.org/x/tools v0.29.0
)

replace github.com/evolbioinfo/goalign => /repo
