#!/usr/bin/env python3
"""Regenerates /verif/MANIFEST.json from the table below (kept in one place so that the claims,
the not-applicable list and DESIGN.md stay in step)."""
import json, sys

TECH = "bounded symbolic execution of the real Go code from go/ssa to SMT-LIB2, decided by z3 (bit-vectors, reals, uninterpreted log/exp/pow); solver models replayed natively"
NOTE_COMMON = ("Bounded claim: holds for every value of the symbolic inputs within the per-harness bounds written to the evidence file; "
               "trusted base: go/ssa lowering, the interpreter fork (validated per run by replaying sampled path witnesses natively), z3 5.1, and the stubs/models of DESIGN.md §2.6/§10. ")

CLAIMS = {
 "C01": ("Histories of 1 (quick) / 2 (thorough) container operations after a symbolic prefix of insertions are executed symbolically against a reference list model; after every step content, rectangularity, every access path and name distinctness are asserted for all residues/policies at once.",
         "k<=3 insertions, names from a concrete colliding pool, L<=2..6; longer histories and free-form names are outside."),
 "C02": ("Writer -> parser round trips of the real lexers/parsers (through bufio) with every residue a symbolic byte of the format's alphabet, lengths straddling the wrap widths; Phylip multi-alignment streams and format auto-detection.",
         "n<=2 rows (3 thorough), L from a list around 10/50/60/80; .gz/.xz files and the file layer are not encoded (not applicable part)."),
 "C03": ("Every single-byte mutation (symbolic byte 0..127 at every position), every truncation, every line deletion/duplication of valid template files, short fully symbolic inputs and boundary header numerals are pushed through the real parsers; termination is checked by a step budget whose overruns are replayed natively under a watchdog, panics are found as engine events, success is checked for well-formedness and, for Phylip, against the counts declared in the header of the very input.",
         "templates <= 160 bytes, free inputs <= 3..4 bytes, one mutation at a time, bytes < 0x80; a message-bearing process exit (io.ExitWithMessage) counts as an explicit error."),
 "C04": ("Site extraction/coordinate functions are executed with all integer arguments unconstrained 64-bit symbolic values and symbolic residues; results are compared with naive definitions, and the re-assembly identities are asserted; partition files are parsed from text with symbolic digits and compared with their intervals applied as written.",
         "n<=3 rows, L<=4 columns (6 thorough)."),
 "C05": ("Codon translation with symbolic codon bytes against NCBI tables transcribed independently (exhaustive over 256^3 byte triples in the thorough tier through the solver), frames/lengths, CodonAlign and TranslateByReference relations.",
         "sequence-level harnesses enumerate IUPAC classes concretely with symbolic case; L<=8; 3 genetic codes."),
 "C06": ("Reverse complement, case folding and un-aligning executed with all residues symbolic; involution, frame conditions and an independent bit-mask complement oracle; named subsets in every order with unknown names at every position.",
         "n<=3 rows, L<=5 (7 thorough)."),
 "C07": ("Pairwise counters against naive per-site definitions (symbolic codes, sites, weights); each estimator against its published closed form with log/pow as uninterpreted functions (proportions symbolic through symbolic weights, parameters at rational sample points); base-frequency estimation; matrix assembly.",
         "floats are exact extended reals (IEEE rounding outside the claim); parameters at sample points; L<=3..4 sites."),
 "C08": ("Relational harnesses (two executions in one query) for column permutation, replication/weights, reverse complement and row permutation; DistMatrix explored over all interleavings at synchronisation granularity within a preemption bound, with happens-before race detection, deadlock detection and comparison with the expected matrix; a 15-row run (105 pairs, more than the 100-slot pair channel buffers) under the default schedule with and without a failing evaluation.",
         "3 rows, <=2 workers, preemption bound 1 (quick) / 2 (thorough); races are confirmed natively under Go's race detector."),
 "C09": ("Smith-Waterman fill and trace-back executed with symbolic sequences and symbolic dyadic scoring parameters; validity, re-scoring and optimality against an independent Gotoh dynamic program (itself checked against explicit enumeration for lengths <= 2); the same for an arbitrary substitution matrix (every residue pair an independent symbolic score).",
         "lengths <= 3 (4 thorough), scores multiples of 1/2 in [-8,8], DNAfull/BLOSUM62 on 5-letter subsets."),
 "C10": ("Every randomised operation is executed once with math/rand replaced by nondeterministic stubs constrained only by the documented contract, so each assertion is proved for every outcome of the generator; support claims are existential queries (an outcome that no path of an exhaustive exploration produces is a violation, confirmed by 20000 native runs); replay from the seed is modelled by re-delivering the draws of the first run to a second run (verifRandMark/verifRandRewind) under every map iteration order.",
         "n<=3, L<=4; that math/rand maps a seed to a fixed stream is trusted (standard library)."),
 "C12": ("Cleaning functions against an integer-arithmetic oracle of the cutoff rule with exact dyadic cutoffs, all option combinations, both alphabets; ends mode, kept/removed partition and result content.",
         "n<=3, L<=3, residues from the critical symbol set, cutoffs k/8."),
 "C13": ("Deduplicate against a first-occurrence reference (map keyed by symbolic sequences case-split by the engine) and Compress through the real go-radix code against a column multiset oracle.",
         "n<=3 (4 thorough), L<=3..4."),
 "C14": ("Each statistic against its naive definition with symbolic residues and unconstrained site indices; determinism by executing twice under explored map iteration orders; entropy/PSSM with log uninterpreted.",
         "n<=3..4, L<=2; table-indexed statistics use enumerated contents."),
 "C15": ("Mask/MaskOccurences/MaskUnique against the per-cell selection rule with unconstrained window arguments, all replacement modes and protection flags; frame condition on every other cell.",
         "n<=3, L<=2..3."),
 "C16": ("Phase fan-out (real aligner, two short sequences, 2 workers) explored over interleavings within a delay bound, with race/deadlock detection and comparison with the sequential per-sequence computation; framing relations of the per-sequence aligners on mutated ORF copies with symbolic bases; longest-ORF search through the interpreted regexp engine on symbolic sequences; 1..5 workers for 2 sequences under the default schedule; phasing without reference on inputs holding any IUPAC code (U included) leaves them unmodified.",
         "delay bound 2 (3 thorough); ORF ATGGAA with one symbolic substitution and at most one symbolic flank base; sequences of 6..7 (8..9 thorough) symbolic bases for the ORF search."),
 "C17": ("PARTIAL: only what does not depend on the likelihood optimiser is decided: JC69 start values and site selection against the published formula, the zero matrix for alignments without unambiguous difference, symmetry / zero diagonal / range [0,20] of MLDist on pairs that do not reach the optimiser, and the empirical amino-acid frequencies against their definition (independent of row/column order). The core statement (the reported distance maximises the likelihood) depends on Brent iteration and gonum's LAPACK eigen-solver, which cannot be encoded: that part is not applicable and is NOT claimed.",
         "n<=3 rows, L<=2 columns, residues from {A,R,N,-,X,*,B}; one known finding (C17-mldist-minus-one)."),
 "C18": ("PARTIAL: closed-form eigen systems (JC, K2P with sample-point and symbolic kappa, F84) and the generic P(t) assembly (stub model, positivity floor) are decided symbolically: L*R=I, R diag(val) L equals the textbook rate matrix, rows of R diag(e) L sum to 1 for symbolic t, detailed balance, P(0)=I, stationary limit, semigroup law, analytic Pij equals the eigen form; inputs of the 7 protein models. P(t) of F81, TN93, GTR and the protein models goes through gonum's LAPACK eigen-solver, which cannot be encoded: not applicable and NOT claimed; entries in [0,1] only for JC.",
         "t symbolic in [1e-8,100] and t=0; parameters at rational sample points; comparisons within 1e-9."),
 "C19": ("Snapshot-call-snapshot for every listed query/copy operation with symbolic residues, independence of copies under symbolic writes to the copy and to the original, and a white-box inspection of the object graph of every copy (no shared sequence object or residue cell, name index pointing to own objects); the engine allocates slice capacities as the gc runtime of the pinned toolchain does (conformance harness).",
         "n<=3, L<=4."),
 "C20": ("PARTIAL: Dirichlet, Dirichlet1, the gamma sampler and the weight builders are decided for every outcome of the random draws (the generator is a nondeterministic stub): sums to the requested total, components positive and finite, one weight per site summing to L, invalid parameters rejected; IncompleteGamma domain values. Discrete-gamma rate categories need gonum's gamma quantile and the incomplete-gamma series needs unbounded floating-point iteration: not applicable and NOT claimed.",
         "n=3,4 (L=3,4); rejection loops cut after the number of draws stated per harness (maxrand); one known finding (C20-gamma-returns-zero)."),
}

# filled from the current state of the work: properties with a registered check
ALL = "C01,C02,C03,C04,C05,C06,C07,C08,C09,C10,C12,C13,C14,C15,C16,C17,C18,C19,C20"
REGISTERED = (sys.argv[1] if len(sys.argv) > 1 and sys.argv[1] else ALL).split(",")  # default: every claimed property
NA_REASON = {
 "C11": "whole-process property (two executions of the built binary across the OS boundary, cobra/pflag, files, GOMAXPROCS): no bounded symbolic encoding; its in-process kernels are decided under C02, C08, C10, C14, C16 (DESIGN.md C11)",
}
DEFAULT_NA = "check not registered yet (harnesses under construction; see DESIGN.md §10)"

def main():
    m = {
     "version": 1,
     "setup_cmd": "cd /verif/engine && GOFLAGS=-mod=mod GOPROXY=off GOSUMDB=off GOTOOLCHAIN=local go build -o ../build/gosym ./cmd/gosym",
     "hooks": {
      "guard": "verif",
      "enable": "harness files carry //go:build verif and are injected through go/packages overlays (engine) and go test -overlay (native replay); nothing guarded is committed to /repo",
      "baseline_off_cmd": "cd /repo && go test -vet=off -count=1 -timeout 25m ./...",
      "source_commits": [],
      "add_only": True,
     },
     "engines": [{"name": "gosym", "path": "engine", "serves_properties": REGISTERED,
                  "kind_free_text": "bounded symbolic executor for Go SSA (fork of x/tools go/ssa/interp v0.29.0) producing SMT-LIB2 queries for z3 5.1 (z3 4.8.12 / cvc5 as cross-checks); region merging, byte-domain pruning, nondeterministic math/rand, map-order and schedule exploration with happens-before race detection; native replay of every counterexample"}],
     "checks": [],
     "notes": "All checks: ./check <id> quick|thorough. Exit 0 = held on everything explored (inconclusive items, if any, are listed in the evidence), 1 = VIOLATION reproduced natively, 2 = broken check (tree does not build, vacuous harness, engine/native mismatch). Fixed defects are listed in known_findings.txt.",
     "not_applicable": [],
    }
    for pid in sorted(CLAIMS):
        if pid in REGISTERED:
            text, bounds = CLAIMS[pid]
            m["checks"].append({
             "property_id": pid,
             "quick_cmd": f"./check {pid} quick",
             "thorough_cmd": f"./check {pid} thorough",
             "evidence_file": f"evidence/{pid}.json",
             "replay_cmd_template": f"./check {pid} quick --replay {{path}}",
             "engine": "gosym",
             "level_claimed": {"category": "model_checking", "text": text, "design_ref": f"DESIGN.md §4 {pid} and §10"},
             "level_note": NOTE_COMMON + "Bounds: " + bounds,
             "technique": TECH,
            })
        else:
            m["not_applicable"].append({"property_id": pid, "reason": NA_REASON.get(pid, DEFAULT_NA)})
    m["not_applicable"].append({"property_id": "C11", "reason": NA_REASON["C11"]}) if "C11" not in CLAIMS else None
    m["not_applicable"].sort(key=lambda x: x["property_id"])
    json.dump(m, open("/verif/MANIFEST.json", "w"), indent=1)
    print("registered:", ",".join(REGISTERED))

main()
