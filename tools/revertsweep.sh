#!/bin/bash
# tools/revertsweep.sh — for every "fixed:" entry of known_findings.txt: revert that commit in a
# scratch worktree of /repo and run the property's quick check against it (gosym -repo): the
# violation must be reported again (a fixed entry suppresses nothing).
cd /verif
export GOFLAGS=-mod=mod GOPROXY=off GOSUMDB=off GOTOOLCHAIN=local
mkdir -p /tmp/revsweep
grep '^fixed:' known_findings.txt | while read -r _ propf commit rest; do
  prop=${propf#property=}
  wt=/tmp/revwt.$$.$commit
  git -C /repo worktree add -q $wt HEAD || continue
  if ! git -C $wt revert --no-commit $commit >/dev/null 2>&1; then
    echo "$prop $commit: revert conflicts with later commits (skipped)"
    git -C /repo worktree remove --force $wt; continue
  fi
  if ! (cd $wt && go build ./... >/dev/null 2>&1); then
    echo "$prop $commit: reverted tree does not build (skipped)"
    git -C /repo worktree remove --force $wt; continue
  fi
  s=$(date +%s)
  GOSYM_BUILD_SUFFIX=.rev$commit timeout 3000 ${GOSYM:-./build/gosym} -repo $wt -prop $prop -workers ${WORKERS:-8} -noevidence > /tmp/revsweep/$prop-$commit.out 2>&1; rc=$?
  e=$(date +%s)
  echo "$prop $commit: rc=$rc violations=$(grep -c '^VIOLATION' /tmp/revsweep/$prop-$commit.out) $((e-s))s"
  rm -rf build/replay-$prop.rev$commit replays/$prop.rev$commit
  git -C /repo worktree remove --force $wt
done
git -C /repo worktree prune
