#!/usr/bin/env python3
# Validates MANIFEST.json and every evidence file against the schemas (run with python3-vt).
import json, glob, sys
import jsonschema
ok = True
m = json.load(open('/verif/MANIFEST.json'))
jsonschema.validate(m, json.load(open('/root/.vp/MANIFEST.schema.json')))
es = json.load(open('/root/.vp/EVIDENCE.schema.json'))
for c in m['checks']:
    f = '/verif/' + c['evidence_file']
    try:
        ev = json.load(open(f))
        jsonschema.validate(ev, es)
        print('ok', f, ev['tier'], 'states', ev['coverage'].get('states'), 'validated', ev['coverage'].get('traces_validated_against_impl'), 'violations', ev.get('violations'))
    except Exception as e:
        ok = False
        print('BAD', f, str(e)[:200])
sys.exit(0 if ok else 1)
