#!/bin/bash
# tools/seedtest.sh <PROP> <dir with patch.diff demo_test.go meta.json> [pkgdir]
# 1. confirms the seeded change in a scratch worktree (builds, passes the suite, demo fails with / passes without)
# 2. applies it to /repo, runs the property's quick check, and undoes it.
set -u
export GOFLAGS=-mod=mod GOPROXY=off GOSUMDB=off GOTOOLCHAIN=local
prop=$1; d=$2; pkg=${3:-$(python3 -c "import json,sys;print(json.load(open(sys.argv[1])).get('pkgdir','align'))" $d/meta.json)}
wt=/tmp/seedwt.$$
git -C /repo worktree add -q $wt HEAD || exit 2
trap 'git -C /repo worktree remove --force '$wt' >/dev/null 2>&1' EXIT
cd $wt
tname=$(grep -o 'func TestSeeded_[A-Za-z0-9_]*' $d/demo_test.go | head -1 | sed 's/func //')
cp $d/demo_test.go $pkg/zz_seeded_demo_test.go
echo "--- demo on clean tree (must pass)"; go test -vet=off -count=1 -run "$tname" ./$pkg 2>&1 | tail -2
git apply $d/patch.diff || { echo "PATCH DOES NOT APPLY"; exit 2; }
echo "--- build + suite with patch (must pass; demo excluded)"; rm $pkg/zz_seeded_demo_test.go
go build ./... && go test -vet=off -count=1 ./... 2>&1 | grep -v "no test files" | grep -v "^ok" | head -5
cp $d/demo_test.go $pkg/zz_seeded_demo_test.go
echo "--- demo with patch (must FAIL)"; go test -vet=off -count=1 -run "$tname" ./$pkg 2>&1 | tail -3
cd /verif
GOSYM=${GOSYM:-./build/gosym}
if [ "${INWT:-0}" = 1 ]; then
  # pre-screening without touching /repo: run the check against the patched scratch worktree
  rm -f $wt/$pkg/zz_seeded_demo_test.go
  echo "--- check $prop on patched worktree $wt"
  GOSYM_BUILD_SUFFIX=.seed$$ timeout 3000 $GOSYM -repo $wt -prop $prop -workers ${WORKERS:-8} -noevidence 2>&1 | grep -E "^VIOLATION|^  harness|^==|INCONCL|MISMATCH|VACUOUS|UNDECIDED" | cut -c1-240 | head -${LINES_MAX:-12}
  rm -rf /verif/build/replay-$prop.seed$$ /verif/replays/$prop.seed$$
  exit 0
fi
git -C /repo apply $d/patch.diff || { echo "cannot apply to /repo"; exit 2; }
echo "--- check $prop on patched /repo"
timeout 3000 $GOSYM -prop $prop -workers ${WORKERS:-8} -noevidence 2>&1 | grep -E "^VIOLATION|^  harness|^==|INCONCL|MISMATCH|VACUOUS|UNDECIDED" | cut -c1-240 | head -${LINES_MAX:-12}
git -C /repo checkout -- .
git -C /repo status --short | head -3
