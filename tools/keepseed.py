#!/usr/bin/env python3
# keepseed.py <src dir> <id> <caught: yes|no|partly> <text: which harness/label caught it, what was run>
import json, shutil, sys, os
src, sid, caught, text = sys.argv[1:5]
dst = f"/verif/seeded/{sid}"
os.makedirs(dst, exist_ok=True)
for f in ("patch.diff", "demo_test.go"):
    shutil.copy(os.path.join(src, f), os.path.join(dst, f))
meta = json.load(open(os.path.join(src, "meta.json")))
meta["property"] = sid.split("-")[0]
meta["confirmed_by_me"] = "tools/seedtest.sh: patch applies to /repo HEAD, go build + full go test pass with it, the demo test fails with it and passes without it (scratch worktree, removed afterwards)"
meta["caught"] = caught
meta["check_result"] = text
json.dump(meta, open(os.path.join(dst, "meta.json"), "w"), indent=1)
print("kept", dst)
