#!/bin/bash
# tools/seedsweep.sh [id ...]  — regression over the kept seeded changes, the way the brief
# describes it: apply the patch to /repo, run the property's quick check (no evidence written),
# undo. Prints one line per seed: caught / NOT caught / alarm only.
cd /verif
export GOFLAGS=-mod=mod GOPROXY=off GOSUMDB=off GOTOOLCHAIN=local
ids="$@"; [ -z "$ids" ] && ids=$(ls seeded)
mkdir -p /tmp/sweep
for id in $ids; do
  d=seeded/$id; prop=${id%%-*}
  if ! git -C /repo apply --check $PWD/$d/patch.diff 2>/dev/null; then echo "$id: patch does not apply to /repo HEAD"; continue; fi
  git -C /repo apply $PWD/$d/patch.diff
  s=$(date +%s)
  timeout 3000 ./build/gosym -prop $prop -workers ${WORKERS:-16} -noevidence > /tmp/sweep/$id.out 2>&1; rc=$?
  git -C /repo checkout -- .
  e=$(date +%s)
  v=$(grep -c "^VIOLATION" /tmp/sweep/$id.out)
  echo "$id: rc=$rc violations=$v $((e-s))s expected=$(python3 -c "import json;print(json.load(open('$d/meta.json'))['caught'])")"
done
git -C /repo status --short | head -3
