//go:build verif

package stats

// verif-uses-rand

// H_C20_tmpd: x
// bounds: x
// outside: x
//verif: maxsteps=20000
func H_C20_tmpd() {
	s, err := Dirichlet(3, 1, 1, 1)
	verifAssert(err == nil, "no error")
	verifAssert(len(s) == 3, "n components")
	sum := 0.0
	for i := 0; i < 3; i++ {
		verifAssert(vfC20Finite(s[i]), "component is finite")
		verifAssert(s[i] > 0, "component is positive")
		sum += s[i]
	}
	verifAssert(vfC20Close(sum, 3), "components sum to factor")
	verifReach("sample")
}
