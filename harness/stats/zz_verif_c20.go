//go:build verif

package stats

// C20 — random site weights: Dirichlet samples.
//
// verif-uses-rand: the replay build overlays math/rand so that the recorded draws are replayed.
//
// Under the engine every top-level function of math/rand returns ANY value its contract allows
// (Float64: any real in [0,1)), so an assertion after a call holds for every seed.

import "math"

func vfC20Close(a, b float64) bool {
	if verifSymbolic() {
		return a == b
	}
	return math.Abs(a-b) <= 1e-9*math.Max(1, math.Abs(a))
}

func vfC20Finite(x float64) bool { return !math.IsNaN(x) && !math.IsInf(x, 0) }

// vfC20Factor: the requested total: any positive real up to 1e6.
func vfC20Factor() float64 {
	f := nondetFloat()
	assume(f > 0 && f <= 1e6)
	return f
}

// H_C20_dirichlet1: Dirichlet1(factor, n) (flat Dirichlet by sorted uniforms): n components, each >= 0 and finite, summing to factor; n <= 2 is an error.
// bounds: n in 0..4 (n <= 2: error); factor symbolic in (0, 1e6]; every outcome of the n-1 uniform draws
// outside: n > 4; strict positivity (two equal draws, or a draw equal to 0, give a component 0: probability-zero events that the contract of Float64 allows); IEEE rounding is outside the claim: floats are exact reals
func H_C20_dirichlet1() {
	n := nondetRange(0, 4)
	factor := vfC20Factor()
	s, err := Dirichlet1(factor, n)
	if n <= 2 {
		verifAssert(err != nil, "fewer than 3 values: error")
		verifReach("error")
		return
	}
	verifAssert(err == nil, "no error")
	verifAssert(len(s) == n, "n components")
	sum := 0.0
	for i := 0; i < n; i++ {
		verifAssert(vfC20Finite(s[i]), "component is finite")
		verifAssert(s[i] >= 0, "component is non-negative")
		sum += s[i]
	}
	verifAssert(vfC20Close(sum, factor), "components sum to factor")
	verifReach("sample")
}

// vfC20Shape: a shape parameter in the range of the property.
func vfC20Shape(lo, hi float64) float64 {
	a := nondetFloat()
	assume(a >= lo && a <= hi)
	return a
}

// vfC20CheckSample: the assertions on a Dirichlet sample.
func vfC20CheckSample(s []float64, err error, n int, factor float64) {
	verifAssert(err == nil, "valid parameters: no error")
	verifAssert(len(s) == n, "one component per parameter")
	if verifKnown("C20-gamma-returns-zero") {
		// known finding: the shape < 1 sampler returns exactly 0 when the generator returns 0.0
		// (K_C20_gamma_zero); the region "some component is exactly 0" is excluded.
		for i := 0; i < n; i++ {
			assume(s[i] != 0 && !math.IsNaN(s[i]))
		}
	}
	sum := 0.0
	for i := 0; i < n; i++ {
		verifAssert(vfC20Finite(s[i]), "component is finite")
		verifAssert(s[i] > 0, "component is strictly positive")
		sum += s[i]
	}
	verifAssert(vfC20Close(sum, factor), "components sum to factor")
	verifReach("sample")
}

// H_C20_dirichlet_errors: invalid Dirichlet parameters are errors: fewer than 3 parameters; a first parameter < 0 (= 0: H_C20_dirichlet_zero).
// bounds: n in 0..4; parameters symbolic; factor symbolic in (0,1e6]; the invalid parameter is the first one (no draw is made before the error)
// outside: an invalid parameter after a valid one (H_C20_dirichlet_errors_later); NaN parameters; IEEE rounding is outside the claim: floats are exact reals
func H_C20_dirichlet_errors() {
	n := nondetRange(0, 4)
	factor := vfC20Factor()
	alpha := make([]float64, n)
	for i := range alpha {
		alpha[i] = nondetFloat()
	}
	if n <= 2 {
		for i := range alpha {
			assume(alpha[i] > 0)
		}
		_, err := Dirichlet(factor, alpha...)
		verifAssert(err != nil, "fewer than 3 parameters: error")
		verifReach("too few")
		return
	}
	assume(alpha[0] < 0) // exactly 0: H_C20_dirichlet_zero
	_, err := Dirichlet(factor, alpha...)
	verifAssert(err != nil, "parameter < 0: error")
	verifReach("non-positive")
}

// H_C20_dirichlet_errors_later: a parameter < 0 at any position is an error (= 0: H_C20_dirichlet_zero).
// bounds: n = 3; the first invalid parameter at position 1 or 2, the valid ones before it symbolic in [0.01,100]; at most 4 draws of math/rand per path (every valid variate before the error accepted at its first proposal, or one rejection when fewer draws are needed)
// outside: longer rejection runs (they repeat the same loop body on fresh draws); IEEE rounding is outside the claim: floats are exact reals
//verif: maxrand=4 maxsteps=200000 timeout=60000
func H_C20_dirichlet_errors_later() {
	bad := nondetRange(1, 2)
	factor := vfC20Factor()
	alpha := make([]float64, 3)
	for i := range alpha {
		if i < bad {
			alpha[i] = vfC20Shape(0.01, 100)
		} else {
			alpha[i] = nondetFloat()
		}
	}
	assume(alpha[bad] < 0) // exactly 0: H_C20_dirichlet_zero
	_, err := Dirichlet(factor, alpha...)
	verifAssert(err != nil, "parameter < 0: error")
	verifReach("non-positive")
}

// H_C20_dirichlet_zero: the border of the parameter domain: a parameter that is exactly 0 (at any position) is an error.
// bounds: n = 3; one parameter exactly 0 at position 0, 1 or 2, the others 1 (exponential variates: one draw each); factor symbolic in (0,1e6]; at most 6 draws per path
// outside: other valid parameters around the zero one (H_C20_dirichlet_errors_later with symbolic ones)
//verif: maxrand=6 maxsteps=200000 timeout=20000
func H_C20_dirichlet_zero() {
	at := nondetRange(0, 2)
	factor := vfC20Factor()
	alpha := []float64{1, 1, 1}
	alpha[at] = 0
	_, err := Dirichlet(factor, alpha...)
	verifAssert(err != nil, "parameter = 0: error")
	verifReach("zero parameter")
}

// H_C20_dirichlet_unit: Dirichlet(factor, 1,...,1) (the call made by the weighted bootstrap; exponential variates): n strictly positive finite components summing to factor.
// bounds: n in {3,4}; factor symbolic in (0,1e6]; every outcome of the draws with at most n+2 draws of math/rand per path (rejection loop "u <= 1e-7" cut after 2 extra draws in total: longer rejection runs repeat the same body on fresh draws)
// outside: n > 4; IEEE rounding is outside the claim: floats are exact reals; ln uninterpreted (ln u < 0 on (0,1))
//verif: maxrand=6 maxsteps=200000 timeout=60000
func H_C20_dirichlet_unit() {
	n := nondetRange(3, 4)
	factor := vfC20Factor()
	alpha := make([]float64, n)
	for i := range alpha {
		alpha[i] = 1
	}
	s, err := Dirichlet(factor, alpha...)
	vfC20CheckSample(s, err, n, factor)
}

// (0.3 and 0.7 rather than 1/4 and 1/2: with 1/alpha a small integer the engine expands u^(1/alpha)
// into an exact polynomial and the queries become harder, measured)
var vfC20ShapesOne = []float64{0.3, 0.7, 1.5, 4}

func vfC20DirichletOne(shape float64) {
	k := nondetRange(0, 2)
	factor := vfC20Factor()
	alpha := []float64{1, 1, 1}
	alpha[k] = shape
	s, err := Dirichlet(factor, alpha...)
	vfC20CheckSample(s, err, 3, factor)
}

// H_C20_dirichlet_one: Dirichlet with one non-unit shape (samplers for shape < 1 and > 1) among unit shapes, at any position: n strictly positive finite components summing to factor.
// bounds: n = 3; one shape in {0.3, 0.7, 3/2, 4} at position 0, 1 or 2, the others 1; factor symbolic in (0,1e6]; at most 5 draws of math/rand per path (4 needed: one extra draw, i.e. one out-of-range / rejected uniform; a complete rejection of the two-draw samplers is covered for the sampler alone by H_C20_gamma and here by the thorough twin; longer rejection runs repeat the same body on fresh draws)
// outside: arbitrary shapes (the sampler itself for every shape in [0.01,100]: H_C20_gamma; symbolic shape here: thorough twin); several non-unit shapes (H_C20_dirichlet_lt1, thorough twins); IEEE rounding and underflow are outside the claim: floats are exact reals; ln/exp/pow/sqrt uninterpreted (DESIGN.md §2.4)
//verif: maxrand=5 maxsteps=200000 timeout=120000 merge=0
func H_C20_dirichlet_one() {
	vfC20DirichletOne(vfC20ShapesOne[nondetRange(0, len(vfC20ShapesOne)-1)])
}

// H_C20_dirichlet_one_rej: as H_C20_dirichlet_one with at most 6 draws (one complete rejection of the non-unit sampler), for the shapes below 1.
// bounds: the non-unit shape in {0.3, 0.7}; at most 6 draws per path
// outside: a complete rejection of Cheng's sampler (shape > 1) inside Dirichlet: the solver returns unknown on "components sum to factor" (measured: 4 of 300 paths, 90 s query timeout); covered for the sampler alone by H_C20_gamma; IEEE rounding and underflow are outside the claim: floats are exact reals
//verif: tier=thorough maxrand=6 maxsteps=200000 timeout=120000 merge=0
func H_C20_dirichlet_one_rej() {
	vfC20DirichletOne(vfC20ShapesOne[nondetRange(0, 1)])
}

// H_C20_dirichlet_one_deep: as H_C20_dirichlet_one with the non-unit shape symbolic.
// bounds: the shape symbolic in [0.01,100]; at most 5 draws per path
// outside: IEEE rounding and underflow are outside the claim: floats are exact reals
//verif: tier=thorough maxrand=5 maxsteps=200000 timeout=60000
func H_C20_dirichlet_one_deep() {
	vfC20DirichletOne(vfC20Shape(0.01, 100))
}

var vfC20CombosGe1 = [][]float64{{1.5, 4, 1}, {1, 1.5, 1.5}, {4, 1, 4}, {1.5, 4, 1.5}}

// H_C20_dirichlet_ge1: Dirichlet with shapes in {1, 3/2, 4} (Cheng's sampler above 1, the exponential at 1), four combinations with two or three shapes above 1: n strictly positive finite components summing to factor.
// bounds: n = 3; shapes (3/2,4,1), (1,3/2,3/2), (4,1,4), (3/2,4,3/2); factor = 3 (symbolic factor: H_C20_dirichlet_unit, H_C20_dirichlet_one); at most 6 draws per path (5 or 6 needed)
// outside: rejection runs; IEEE rounding is outside the claim: floats are exact reals
//verif: tier=thorough maxrand=6 maxsteps=200000 timeout=60000
func H_C20_dirichlet_ge1() {
	factor := 3.0
	alpha := vfC20CombosGe1[nondetRange(0, len(vfC20CombosGe1)-1)]
	s, err := Dirichlet(factor, alpha...)
	vfC20CheckSample(s, err, 3, factor)
}

// H_C20_dirichlet_two: Dirichlet with two arbitrary shapes and one unit shape.
// bounds: n = 3; shapes (a, b, 1) with a, b symbolic in [0.01,100]; factor = 3; at most 5 draws per path (3..5 needed)
// outside: IEEE rounding and underflow are outside the claim: floats are exact reals
//verif: tier=thorough maxrand=5 maxsteps=200000 timeout=60000
func H_C20_dirichlet_two() {
	factor := 3.0
	alpha := []float64{vfC20Shape(0.01, 100), vfC20Shape(0.01, 100), 1}
	s, err := Dirichlet(factor, alpha...)
	vfC20CheckSample(s, err, 3, factor)
}

// (harnesses with concrete shapes below 1 run with merge=0: with merging the engine stops 9-11
// paths with "engine error: merge replay failed: rand inside a merged region in stats.gamma")
func vfC20DirichletLt1(symbolic bool) {
	factor := vfC20Factor()
	alpha := make([]float64, 3)
	for i := range alpha {
		if symbolic {
			alpha[i] = vfC20Shape(0.01, 1)
			assume(alpha[i] < 1)
		} else {
			alpha[i] = []float64{0.3, 0.7}[nondetRange(0, 1)]
		}
	}
	s, err := Dirichlet(factor, alpha...)
	vfC20CheckSample(s, err, 3, factor)
}

// H_C20_dirichlet_lt1: Dirichlet with every shape below 1 (Kennedy & Gentle's sampler; Ahrens-Dieter GS): n strictly positive finite components summing to factor.
// bounds: n = 3; shapes in {0.3, 0.7}^3; factor symbolic in (0,1e6]; at most 6 draws per path (6 needed: every variate accepted at its first proposal, through either branch of the sampler; rejections and symbolic shapes: thorough twins; the sampler alone for every shape: H_C20_gamma)
// outside: rejection runs; IEEE rounding and underflow are outside the claim: floats are exact reals (natively u^(1/alpha) underflows to 0 for small alpha)
//verif: maxrand=6 maxsteps=200000 timeout=60000 merge=0
func H_C20_dirichlet_lt1() {
	vfC20DirichletLt1(false)
}

// H_C20_dirichlet_lt1_deep: as H_C20_dirichlet_lt1 with symbolic shapes.
// bounds: shapes symbolic in [0.01,1); at most 6 draws per path
// outside: IEEE rounding and underflow are outside the claim: floats are exact reals
//verif: tier=thorough maxrand=6 maxsteps=200000 timeout=90000
func H_C20_dirichlet_lt1_deep() {
	vfC20DirichletLt1(true)
}

// H_C20_dirichlet_lt1_rej: as H_C20_dirichlet_lt1 with at most 8 draws (one complete rejection).
// bounds: at most 8 draws per path
// outside: IEEE rounding and underflow are outside the claim: floats are exact reals
//verif: tier=thorough maxrand=8 maxsteps=200000 timeout=90000 merge=0
func H_C20_dirichlet_lt1_rej() {
	vfC20DirichletLt1(false)
}

// K_C20_gamma_zero: demonstrates the known finding C20-gamma-returns-zero: the shape < 1 sampler returns exactly 0 (not a positive variate) when the generator returns 0.0.
// bounds: shape 1/2, scale 1; at most 2 draws
// outside: IEEE rounding is outside the claim: floats are exact reals
//verif: known=C20-gamma-returns-zero maxrand=2 maxsteps=200000 expect=violation timeout=60000
func K_C20_gamma_zero() {
	x := Gamma(0.5, 1)
	verifReach("drawn")
	verifAssert(x > 0, "gamma variate is strictly positive")
}

// H_C20_gamma: stats.Gamma(alpha, beta): an accepted variate is finite and strictly positive, for the three samplers (shape > 1, = 1, < 1).
// bounds: shape symbolic in [0.01,100], scale symbolic in (0,1000]; at most 4 draws per path (one full rejection)
// outside: longer rejection runs; IEEE rounding is outside the claim: floats are exact reals
//verif: maxrand=4 maxsteps=200000 timeout=60000
func H_C20_gamma() {
	alpha := vfC20Shape(0.01, 100)
	beta := nondetFloat()
	assume(beta > 0 && beta <= 1000)
	x := Gamma(alpha, beta)
	if verifKnown("C20-gamma-returns-zero") {
		assume(!(alpha < 1 && x == 0))
	}
	verifAssert(vfC20Finite(x), "variate is finite")
	verifAssert(x > 0, "variate is strictly positive")
	verifReach("drawn")
}
