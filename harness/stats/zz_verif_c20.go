//go:build verif

package stats

// C20 — random site weights: Dirichlet samples.
//
// verif-uses-rand: the replay build overlays math/rand so that the recorded draws are replayed.
//
// Under the engine every top-level function of math/rand returns ANY value its contract allows
// (Float64: any real in [0,1)), so an assertion after a call holds for every seed.

import "math"

func vfC20Close(a, b float64) bool {
	if verifSymbolic() {
		return a == b
	}
	return math.Abs(a-b) <= 1e-9*math.Max(1, math.Abs(a))
}

func vfC20Finite(x float64) bool { return !math.IsNaN(x) && !math.IsInf(x, 0) }

// vfC20Factor: the requested total: any positive real up to 1e6.
func vfC20Factor() float64 {
	f := nondetFloat()
	assume(f > 0 && f <= 1e6)
	return f
}

// H_C20_dirichlet1: Dirichlet1(factor, n) (flat Dirichlet by sorted uniforms): n components, each >= 0 and finite, summing to factor; n <= 2 is an error.
// bounds: n in 0..4 (n <= 2: error); factor symbolic in (0, 1e6]; every outcome of the n-1 uniform draws
// outside: n > 4; strict positivity (two equal draws, or a draw equal to 0, give a component 0: probability-zero events that the contract of Float64 allows); IEEE rounding is outside the claim: floats are exact reals
func H_C20_dirichlet1() {
	n := nondetRange(0, 4)
	factor := vfC20Factor()
	s, err := Dirichlet1(factor, n)
	if n <= 2 {
		verifAssert(err != nil, "fewer than 3 values: error")
		verifReach("error")
		return
	}
	verifAssert(err == nil, "no error")
	verifAssert(len(s) == n, "n components")
	sum := 0.0
	for i := 0; i < n; i++ {
		verifAssert(vfC20Finite(s[i]), "component is finite")
		verifAssert(s[i] >= 0, "component is non-negative")
		sum += s[i]
	}
	verifAssert(vfC20Close(sum, factor), "components sum to factor")
	verifReach("sample")
}
