//go:build verif

package models

// C20 — rate categories (models/gamma.go).
//
// verif-uses-rand: the replay build overlays math/rand so that the recorded draws are replayed.

import "math"

// H_C20_rates_nogamma: GenerateRates without gamma (or with fewer than 2 categories) in discrete mode: one rate per site, all equal to 1 (non-negative, non-decreasing, mean 1), category 0.
// bounds: nsites in 0..4; gamma flag symbolic; ncat symbolic in [-2,8] (gamma with ncat >= 2 is excluded: it needs the gamma quantile); alpha symbolic in [0.01,100]
// outside: discrete gamma categories and continuous gamma rates (gonum distuv.Gamma.Quantile / Rand: not executable by the engine) — not applicable; IEEE rounding is outside the claim: floats are exact reals
func H_C20_rates_nogamma() {
	n := nondetRange(0, 4)
	gamma := nondetBool()
	ncat := nondetInt()
	assume(ncat >= -2 && ncat <= 8)
	assume(!gamma || ncat < 2)
	alpha := nondetFloat()
	assume(alpha >= 0.01 && alpha <= 100)
	rates, cats := GenerateRates(n, gamma, alpha, ncat, true)
	verifAssert(len(rates) == n && len(cats) == n, "one rate and one category per site")
	for i := 0; i < n; i++ {
		verifAssert(rates[i] == 1, "rate 1")
		verifAssert(cats[i] == 0, "category 0")
	}
	verifReach("rates")
}

// H_C20_incgamma_domain: IncompleteGamma outside its domain, and at 0: x = 0 gives 0; x < 0 or alpha <= 0 gives the documented error value -1.
// bounds: x, alpha, ln_gamma_alpha symbolic finite reals; only the argument checks (x = 0, x < 0, alpha <= 0)
// outside: the value for x > 0, alpha > 0 (series / continued fraction iterated to a floating-point tolerance: unbounded, not applicable); IEEE rounding is outside the claim: floats are exact reals (|x| < DBL_MIN is x = 0 up to denormals)
func H_C20_incgamma_domain() {
	x := nondetFloat()
	alpha := nondetFloat()
	lg := nondetFloat()
	assume(math.Abs(x) < DBL_MIN || x < 0 || alpha <= 0)
	v := IncompleteGamma(x, alpha, lg)
	if math.Abs(x) < DBL_MIN {
		verifAssert(v == 0, "I(0, alpha) = 0")
		verifReach("zero")
	} else {
		verifAssert(v == -1, "outside the domain: -1")
		verifReach("error")
	}
}
