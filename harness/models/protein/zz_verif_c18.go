//go:build verif

package protein

// C18 — protein models: the only part that can be reached without the LAPACK eigen-solver
// (InitModel builds the rate matrix and factorises it in one function; gonum's Eigen.Factorize
// cannot be executed by the engine) is the data every empirical model starts from: a matrix
// of exchangeabilities S and a frequency vector pi. The instantaneous rate matrix is
// q_ij = S_ij pi_j (PAML convention, Yang 2006 §2.2): it is reversible with respect to pi iff S
// is symmetric, a rate matrix iff S >= 0, and pi is a distribution iff positive with sum 1.

import "math"

// H_C18_protein_inputs: for each of the seven empirical models: S is 20x20, symmetric, non-negative; pi has 20 strictly positive entries summing to 1 (published frequencies are rounded to 6 decimals: within 1e-5); unknown model codes are an error.
// bounds: the seven models (concrete data), model codes -1 and 7 for the error
// outside: everything after Eigen.Factorize (eigen system, P(t)) — not applicable; user-supplied frequencies; IEEE rounding is outside the claim: floats are exact reals
func H_C18_protein_inputs() {
	code := nondetRange(-1, 7)
	m, err := NewProtModel(code, false, 1)
	if code < 0 || code > 6 {
		verifAssert(err != nil && m == nil, "unknown model code is an error")
		verifReach("unknown model")
		return
	}
	verifAssert(err == nil && m != nil, "known model: no error")
	verifAssert(m.NState() == 20 && len(m.pi) == 20, "20 states")
	r, c := m.mat.Dims()
	verifAssert(r == 20 && c == 20, "S is 20x20")
	sum := 0.0
	for i := 0; i < 20; i++ {
		verifAssert(m.pi[i] > 0 && m.pi[i] < 1, "frequencies strictly between 0 and 1")
		verifAssert(m.Pi(i) == m.pi[i], "Pi(i) reports the frequency")
		sum += m.pi[i]
		for j := 0; j < 20; j++ {
			verifAssert(m.mat.At(i, j) == m.mat.At(j, i), "exchangeabilities are symmetric (reversibility)")
			verifAssert(m.mat.At(i, j) >= 0, "exchangeabilities are non-negative")
		}
	}
	verifAssert(math.Abs(sum-1) <= 1e-5, "frequencies sum to 1 (within the 6-decimal rounding of the published values)")
	verifReach("model data")
}
