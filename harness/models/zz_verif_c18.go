//go:build verif

package models

// C18 — the generic assembly P(t) = R exp(Dt) L of models.NewPij / SetLength / Pij, with a stub
// Model whose eigen system is chosen by the harness (L = R^-1 by construction, stationary
// distribution pi, reversible). The eigenvalues and the branch length are symbolic, so
// exp(val_k t) is an application of the uninterpreted exp (0 < e <= 1).
//
// Oracle: spectral form of a reversible continuous-time Markov chain (Felsenstein 2004 ch. 13):
// P(t) = sum_k exp(lambda_k t) r_k l_k^T; rows sum to 1; P(0) = I; pi_i P_ij = pi_j P_ji.
// The library documents a positivity floor: an entry below DBL_MIN is reported as DBL_MIN; so
// for a valid chain (all true entries >= 0) every reported entry is within DBL_MIN of the true
// one, and the identities hold within n*DBL_MIN (natively: within 1e-9).

import (
	"errors"
	"math"

	"gonum.org/v1/gonum/mat"
)

type vfC18Stub struct {
	n          int
	val        []float64
	l, r       [][]float64
	analytical bool
	fail       bool
	eigenCalls int
	pijCalls   int
	lastL      float64
}

func (m *vfC18Stub) NState() int { return m.n }

func (m *vfC18Stub) dense(a [][]float64) *mat.Dense {
	d := make([]float64, 0, m.n*m.n)
	for i := 0; i < m.n; i++ {
		d = append(d, a[i]...)
	}
	return mat.NewDense(m.n, m.n, d)
}

func (m *vfC18Stub) Eigens() (val []float64, leftvectors, rightvectors *mat.Dense, err error) {
	m.eigenCalls++
	if m.fail {
		return nil, nil, nil, errors.New("no eigen system")
	}
	return m.val, m.dense(m.l), m.dense(m.r), nil
}

func (m *vfC18Stub) Analytical() bool { return m.analytical }

// Pij of the stub: a recognisable function of its arguments.
func (m *vfC18Stub) Pij(i, j int, l float64) float64 {
	m.pijCalls++
	m.lastL = l
	return float64(10*i+j) + l
}

// vfC18Within: |a-b| <= eps in real arithmetic; natively within 1e-9.
func vfC18Within(a, b, eps float64) bool {
	if verifSymbolic() {
		return math.Abs(a-b) <= eps
	}
	return math.Abs(a-b) <= 1e-9*math.Max(1, math.Abs(a))
}

// vfC18EigenForm: sum_k r_ik exp(val_k t) l_kj.
func vfC18EigenForm(m *vfC18Stub, t float64) [][]float64 {
	e := make([]float64, m.n)
	for k := 0; k < m.n; k++ {
		e[k] = math.Exp(m.val[k] * t)
	}
	p := make([][]float64, m.n)
	for i := 0; i < m.n; i++ {
		p[i] = make([]float64, m.n)
		for j := 0; j < m.n; j++ {
			v := 0.0
			for k := 0; k < m.n; k++ {
				v += m.r[i][k] * e[k] * m.l[k][j]
			}
			p[i][j] = v
		}
	}
	return p
}

// vfC18CheckLR: the stub system is a valid one (guards the harness itself).
func vfC18CheckLR(m *vfC18Stub, pi []float64) {
	for i := 0; i < m.n; i++ {
		for j := 0; j < m.n; j++ {
			v := 0.0
			for k := 0; k < m.n; k++ {
				v += m.l[i][k] * m.r[k][j]
			}
			id := 0.0
			if i == j {
				id = 1
			}
			verifAssert(vfC18Within(v, id, 0), "stub: L*R = I")
		}
		verifAssert(vfC18Within(m.l[0][i], pi[i], 0) && m.r[i][0] == 1, "stub: first left vector is pi, first right vector is 1")
	}
}

// vfC18CheckAssembly: the assertions on the matrix reported for branch length t.
// valid: every true entry is known to be >= 0 (then the floor moves an entry by at most DBL_MIN).
func vfC18CheckAssembly(pm *Pij, m *vfC18Stub, pi []float64, t float64, valid bool, reused bool) {
	n := m.n
	ef := vfC18EigenForm(m, t)
	nofloor := true
	p := make([][]float64, n)
	for i := 0; i < n; i++ {
		p[i] = make([]float64, n)
		for j := 0; j < n; j++ {
			p[i][j] = pm.Pij(i, j)
			verifAssert(p[i][j] >= DBL_MIN, "positivity floor: every reported entry is >= DBL_MIN > 0")
			want := ef[i][j]
			if want < DBL_MIN {
				want = DBL_MIN
				nofloor = false
			}
			// (tolerance 1e-290: how exponentials below the smallest normal double are handled is
			// IEEE behaviour, outside the claim; anything larger is a wrong entry)
			if reused {
				verifAssert(vfC18Within(p[i][j], want, 1e-290), "after SetLength on a used object: reported entry = max(DBL_MIN, sum_k R_ik exp(val_k t) L_kj)")
			} else {
				verifAssert(vfC18Within(p[i][j], want, 1e-290), "reported entry = max(DBL_MIN, sum_k R_ik exp(val_k t) L_kj)")
			}
			if valid {
				verifAssert(ef[i][j] >= 0, "true entry is non-negative")
				verifAssert(p[i][j] <= 1+DBL_MIN || !verifSymbolic(), "entry <= 1")
			}
		}
	}
	for i := 0; i < n; i++ {
		row := 0.0
		for j := 0; j < n; j++ {
			row += p[i][j]
		}
		if valid {
			verifAssert(vfC18Within(row, 1, float64(n)*DBL_MIN), "rows sum to 1 (within n*DBL_MIN)")
		}
		verifAssert(!nofloor || vfC18Within(row, 1, 0), "no entry floored => rows sum to 1")
		for j := i + 1; j < n; j++ {
			if valid {
				verifAssert(vfC18Within(pi[i]*p[i][j], pi[j]*p[j][i], DBL_MIN), "detailed balance (within DBL_MIN)")
			}
			verifAssert(!nofloor || vfC18Within(pi[i]*p[i][j], pi[j]*p[j][i], 0), "no entry floored => detailed balance")
		}
	}
	// (no reach label depending on nofloor: whether an entry is floored depends on the value of
	// the uninterpreted exp, which the native replay computes for real)
	verifReach("P(t)")
}

func vfC18CheckIdentity(pm *Pij, n int) {
	for i := 0; i < n; i++ {
		for j := 0; j < n; j++ {
			id := 0.0
			if i == j {
				id = 1
			}
			verifAssert(vfC18Within(pm.Pij(i, j), id, DBL_MIN), "P(0) = I (within the floor DBL_MIN)")
		}
	}
	verifReach("P(0)")
}

// vfC18T: branch length in the range of the property.
func vfC18T() float64 {
	t := nondetFloat()
	assume(t >= 1e-8 && t <= 100)
	return t
}

func vfC18Rate() float64 {
	x := nondetFloat()
	assume(x > 0 && x <= 1000)
	return x
}

// vfC18Stub2: the general reversible 2-state chain: stationary (p, 1-p), eigenvalues 0, -lambda.
func vfC18Stub2(p, lambda float64) (*vfC18Stub, []float64) {
	m := &vfC18Stub{n: 2,
		val: []float64{0, -lambda},
		r:   [][]float64{{1, 1 - p}, {1, -p}},
		l:   [][]float64{{p, 1 - p}, {1, -1}},
	}
	return m, []float64{p, 1 - p}
}

// vfC18Stub3: a reversible 3-state chain, stationary (1/2, 1/4, 1/4), pi-orthogonal right vectors
// (1,1,1), (1,-1,-1), (0,1,-1); eigenvalues 0, -l1, -l2.
func vfC18Stub3(l1, l2 float64) (*vfC18Stub, []float64) {
	m := &vfC18Stub{n: 3,
		val: []float64{0, -l1, -l2},
		r:   [][]float64{{1, 1, 0}, {1, -1, 1}, {1, -1, -1}},
		l:   [][]float64{{0.5, 0.25, 0.25}, {0.5, -0.25, -0.25}, {0, 0.5, -0.5}},
	}
	return m, []float64{0.5, 0.25, 0.25}
}

func vfC18Assembly(m *vfC18Stub, pi []float64, valid bool) {
	vfC18CheckLR(m, pi)
	t := vfC18T()
	pm, err := NewPij(m, t)
	verifAssert(err == nil && pm != nil, "NewPij: no error")
	vfC18CheckAssembly(pm, m, pi, t, valid, false)
	verifAssert(m.pijCalls == 0, "non-analytical model: Model.Pij is not consulted")
	// a second length on the same object replaces the first
	t2 := vfC18T()
	verifAssert(pm.SetLength(t2) == nil, "SetLength: no error")
	vfC18CheckAssembly(pm, m, pi, t2, valid, true)
	// and P(0) = I
	verifAssert(pm.SetLength(0) == nil, "SetLength(0): no error")
	vfC18CheckIdentity(pm, m.n)
	p0, err0 := NewPij(m, 0)
	verifAssert(err0 == nil, "NewPij(0): no error")
	vfC18CheckIdentity(p0, m.n)
}

// H_C18_assembly_2state: NewPij/SetLength/Pij on the general reversible 2-state chain: entries = eigen form with the positivity floor, in (0,1], rows sum to 1, detailed balance, P(0)=I, SetLength replaces the matrix.
// bounds: 2 states; stationary frequency p symbolic in (0,1) on the grid k/16; rate lambda symbolic in (0,1000]; branch lengths t, t2 symbolic in [1e-8,100] and t = 0
// outside: t = DBL_MIN (the initial value of the cached length: NewPij(m, DBL_MIN) does not compute anything); IEEE rounding is outside the claim: floats are exact reals
func H_C18_assembly_2state() {
	p := nondetDyadic(16, 1, 15)
	m, pi := vfC18Stub2(p, vfC18Rate())
	vfC18Assembly(m, pi, true)
}

// H_C18_assembly_3state_f81: the same on a 3-state chain with one repeated non-zero eigenvalue (F81-like: Q = lambda (1 pi^T - I)).
// bounds: 3 states, stationary (1/2,1/4,1/4); lambda symbolic in (0,1000]; t, t2 symbolic in [1e-8,100] and t = 0
// outside: IEEE rounding is outside the claim: floats are exact reals
func H_C18_assembly_3state_f81() {
	l := vfC18Rate()
	m, pi := vfC18Stub3(l, l)
	vfC18Assembly(m, pi, true)
}

// H_C18_assembly_3state: the same with two independent eigenvalues; the relation between the two exponentials is not known to the solver, so non-negativity of the true entries is not claimed: entries = floored eigen form, and rows sum to 1 / detailed balance whenever no entry was floored.
// bounds: 3 states, stationary (1/2,1/4,1/4); eigenvalues -l1, -l2 symbolic, rates in (0,1000]; t, t2 symbolic in [1e-8,100] and t = 0
// outside: entries in [0,1] (transcendental relation between exp(-l1 t) and exp(-l2 t)); IEEE rounding is outside the claim: floats are exact reals
func H_C18_assembly_3state() {
	m, pi := vfC18Stub3(vfC18Rate(), vfC18Rate())
	vfC18Assembly(m, pi, false)
}

// H_C18_assembly_analytical: for an analytical model Pij(i,j) is Model.Pij(i,j,length) with the current length and the eigen system is never requested; an error of Eigens() is returned by NewPij.
// bounds: stub with 2 states; lengths symbolic in [1e-8,100]
// outside: IEEE rounding is outside the claim: floats are exact reals
func H_C18_assembly_analytical() {
	m, _ := vfC18Stub2(0.25, 1)
	m.analytical = true
	t := vfC18T()
	pm, err := NewPij(m, t)
	verifAssert(err == nil, "NewPij: no error")
	for i := 0; i < 2; i++ {
		for j := 0; j < 2; j++ {
			verifAssert(pm.Pij(i, j) == float64(10*i+j)+t, "analytical: Pij(i,j) = Model.Pij(i,j,t)")
			verifAssert(m.lastL == t, "analytical: the current length is passed")
		}
	}
	t2 := vfC18T()
	verifAssert(pm.SetLength(t2) == nil, "SetLength: no error")
	verifAssert(pm.Pij(1, 0) == 10+t2, "analytical: SetLength changes the length used")
	verifAssert(m.eigenCalls == 0, "analytical: Eigens() never called")
	verifReach("analytical")

	f, _ := vfC18Stub2(0.25, 1)
	f.fail = true
	_, err = NewPij(f, t)
	verifAssert(err != nil, "error of Eigens() is reported by NewPij")
	verifReach("eigen error")
}
