//go:build verif

package dna

// C18 — substitution models yield valid, reversible Markov transition matrices: the three
// nucleotide models with a closed-form eigen system (JC, K2P, F84).
//
// Oracles (DESIGN.md §9.4, Felsenstein 2004 "Inferring phylogenies" ch. 13; Yang 2006 ch. 1):
//   rate matrix Q, state order A C G T, rows summing to 0, scaled so that -sum_i pi_i q_ii = 1
//     JC69  q_ij = 1/3
//     K80   q_ij = kappa (A<->G, C<->T), 1 (transversions), then scaled: divide by kappa + 2
//     F84   q_ij = (1 + kappa/pi_R) pi_j  (A<->G), (1 + kappa/pi_Y) pi_j (C<->T), pi_j otherwise,
//           then scaled
//   P(t) = exp(Qt) = R diag(exp(lambda_k t)) L  with  Q = R diag(lambda) L,  L R = I
//   stochastic: rows sum to 1; P(0) = I; reversible: pi_i P_ij = pi_j P_ji; P(t) -> 1 pi^T.
//
// The parameters are rational sample points (concrete, the engine then computes the eigen system
// with IEEE arithmetic exactly as the native code does); the branch length t is symbolic, so
// exp(lambda_k t) is an application of the uninterpreted exp: what is proved about P(t) is
// proved for every value in (0, 1] these exponentials may take, consistent with the axioms.
// Concrete coefficients carry IEEE rounding (1e-16): every comparison is within 1e-9.

import (
	"math"

	"github.com/evolbioinfo/goalign/models"
)

const vfC18Tol = 1e-9

func vfC18Close(a, b float64) bool {
	return math.Abs(a-b) <= vfC18Tol
}

// vfC18Sys: an eigen system as plain slices.
type vfC18Sys struct {
	val  []float64
	l, r [][]float64
}

func vfC18Get(m models.Model) vfC18Sys {
	val, lv, rv, err := m.Eigens()
	verifAssert(err == nil, "Eigens: no error")
	n := m.NState()
	verifAssert(n == 4, "four states")
	verifAssert(len(val) == n, "one eigenvalue per state")
	lr, lc := lv.Dims()
	rr, rc := rv.Dims()
	verifAssert(lr == n && lc == n && rr == n && rc == n, "eigenvector matrices are n x n")
	s := vfC18Sys{val: val, l: make([][]float64, n), r: make([][]float64, n)}
	for i := 0; i < n; i++ {
		s.l[i] = make([]float64, n)
		s.r[i] = make([]float64, n)
		for j := 0; j < n; j++ {
			s.l[i][j] = lv.At(i, j)
			s.r[i][j] = rv.At(i, j)
		}
	}
	return s
}

// vfC18TextbookQ scales a matrix of off-diagonal rates to a rate matrix with zero row sums and
// one expected substitution per unit time at stationarity.
func vfC18TextbookQ(off [4][4]float64, pi [4]float64) [4][4]float64 {
	var q [4][4]float64
	mu := 0.0
	for i := 0; i < 4; i++ {
		row := 0.0
		for j := 0; j < 4; j++ {
			if j != i {
				row += off[i][j]
			}
		}
		q[i][i] = -row
		mu += pi[i] * row
	}
	for i := 0; i < 4; i++ {
		for j := 0; j < 4; j++ {
			if i != j {
				q[i][j] = off[i][j]
			}
			q[i][j] /= mu
		}
	}
	return q
}

func vfC18IsTransition(i, j int) bool {
	return (i == 0 && j == 2) || (i == 2 && j == 0) || (i == 1 && j == 3) || (i == 3 && j == 1)
}

// vfC18CheckSystem: the t-independent identities of an eigen system against the textbook Q.
func vfC18CheckSystem(s vfC18Sys, q [4][4]float64, pi [4]float64) {
	n := 4
	// the oracle itself is a reversible, normalised rate matrix (guards against typos in it)
	mu := 0.0
	for i := 0; i < n; i++ {
		row := 0.0
		for j := 0; j < n; j++ {
			row += q[i][j]
			verifAssert(i == j || q[i][j] >= 0, "oracle: off-diagonal rates are non-negative")
			verifAssert(vfC18Close(pi[i]*q[i][j], pi[j]*q[j][i]), "oracle: textbook Q is reversible")
		}
		verifAssert(vfC18Close(row, 0), "oracle: rows of Q sum to 0")
		mu -= pi[i] * q[i][i]
	}
	verifAssert(vfC18Close(mu, 1), "oracle: one expected substitution per unit time")

	verifAssert(s.val[0] == 0, "first eigenvalue is 0")
	for k := 1; k < n; k++ {
		verifAssert(s.val[k] < 0, "other eigenvalues are negative")
	}
	for i := 0; i < n; i++ {
		for j := 0; j < n; j++ {
			lr := 0.0
			rdl := 0.0
			for k := 0; k < n; k++ {
				lr += s.l[i][k] * s.r[k][j]
				rdl += s.r[i][k] * s.val[k] * s.l[k][j]
			}
			id := 0.0
			if i == j {
				id = 1
			}
			verifAssert(vfC18Close(lr, id), "L*R = I")
			verifAssert(vfC18Close(rdl, q[i][j]), "R*diag(val)*L equals the normalised textbook rate matrix")
			// t -> infinity: only the term of eigenvalue 0 survives
			verifAssert(vfC18Close(s.r[i][0]*s.l[0][j], pi[j]), "limit t->inf: every row tends to the stationary frequencies")
		}
	}
	verifReach("system")
}

// vfC18EigenForm: R diag(e) L.
func vfC18EigenForm(s vfC18Sys, e []float64) [4][4]float64 {
	var p [4][4]float64
	for i := 0; i < 4; i++ {
		for j := 0; j < 4; j++ {
			v := 0.0
			for k := 0; k < 4; k++ {
				v += s.r[i][k] * e[k] * s.l[k][j]
			}
			p[i][j] = v
		}
	}
	return p
}

// vfC18Exps: e_k = exp(val_k * t), through math.Exp (uninterpreted under the engine: equal
// arguments give equal values, exp 0 = 1, 0 < exp x, monotone).
func vfC18Exps(s vfC18Sys, t float64) []float64 {
	e := make([]float64, 4)
	for k := 0; k < 4; k++ {
		e[k] = math.Exp(s.val[k] * t)
	}
	return e
}

// vfC18CheckP: the assertions on the transition probabilities the library reports for branch
// length t (models.NewPij(m, t).Pij(i, j): closed form for JC and K2P, eigen assembly for F84).
func vfC18CheckP(m models.Model, s vfC18Sys, pi [4]float64, t float64, bounds01 bool) {
	pm, err := models.NewPij(m, t)
	verifAssert(err == nil, "NewPij: no error")
	e := vfC18Exps(s, t)
	for k := 0; k < 4; k++ {
		verifAssert(e[k] > 0 && e[k] <= 1, "0 < exp(val_k t) <= 1")
	}
	ef := vfC18EigenForm(s, e)
	var p [4][4]float64
	for i := 0; i < 4; i++ {
		row := 0.0
		for j := 0; j < 4; j++ {
			p[i][j] = pm.Pij(i, j)
			row += p[i][j]
			verifAssert(vfC18Close(p[i][j], ef[i][j]), "reported P_ij(t) equals the eigen form R exp(Dt) L")
			if bounds01 {
				verifAssert(p[i][j] >= -vfC18Tol && p[i][j] <= 1+vfC18Tol, "P_ij(t) in [0,1]")
			}
		}
		verifAssert(vfC18Close(row, 1), "rows of P(t) sum to 1")
	}
	for i := 0; i < 4; i++ {
		for j := i + 1; j < 4; j++ {
			verifAssert(vfC18Close(pi[i]*p[i][j], pi[j]*p[j][i]), "detailed balance pi_i P_ij = pi_j P_ji")
		}
	}
	verifReach("P(t)")
}

// vfC18CheckP0: P(0) = I through the library.
func vfC18CheckP0(m models.Model) {
	pm, err := models.NewPij(m, 0)
	verifAssert(err == nil, "NewPij(0): no error")
	for i := 0; i < 4; i++ {
		for j := 0; j < 4; j++ {
			id := 0.0
			if i == j {
				id = 1
			}
			verifAssert(vfC18Close(pm.Pij(i, j), id), "P(0) = I")
		}
	}
	verifReach("P(0)")
}

// vfC18CheckSemigroup: P(s+t) = P(s) P(t), all three through the library. The functional
// equation of exp is instantiated for the three distinct arguments (DESIGN.md §2.4).
func vfC18CheckSemigroup(m models.Model, sy vfC18Sys, s, t float64) {
	for k := 0; k < 4; k++ {
		assume(math.Exp(sy.val[k]*(s+t)) == math.Exp(sy.val[k]*s)*math.Exp(sy.val[k]*t) || !verifSymbolic())
	}
	ps, err1 := models.NewPij(m, s)
	pt, err2 := models.NewPij(m, t)
	pst, err3 := models.NewPij(m, s+t)
	verifAssert(err1 == nil && err2 == nil && err3 == nil, "NewPij: no error")
	for i := 0; i < 4; i++ {
		for j := 0; j < 4; j++ {
			v := 0.0
			for k := 0; k < 4; k++ {
				v += ps.Pij(i, k) * pt.Pij(k, j)
			}
			verifAssert(vfC18Close(pst.Pij(i, j), v), "P(s+t) = P(s) P(t)")
		}
	}
	verifReach("semigroup")
}

// vfC18T: a symbolic branch length in the range of the property.
func vfC18T() float64 {
	t := nondetFloat()
	assume(t >= 1e-8 && t <= 100)
	return t
}

var vfC18Uniform = [4]float64{0.25, 0.25, 0.25, 0.25}

// ------------------------------------------------------------------------------------------ JC

func vfC18JCQ() [4][4]float64 {
	var off [4][4]float64
	for i := 0; i < 4; i++ {
		for j := 0; j < 4; j++ {
			if i != j {
				off[i][j] = 1
			}
		}
	}
	return vfC18TextbookQ(off, vfC18Uniform)
}

// H_C18_jc: JC69: eigen system against the textbook Q; P(t) stochastic with entries in [0,1], reversible, P(0)=I, analytic formula = eigen form.
// bounds: branch length t symbolic in [1e-8, 100] plus t = 0; exp(-4t/3) is any value the uninterpreted exp may take (0 < e <= 1)
// outside: IEEE rounding is outside the claim: floats are exact reals (comparisons within 1e-9 because the concrete coefficients are rounded doubles)
func H_C18_jc() {
	m := NewJCModel()
	verifAssert(m.InitModel() == nil, "InitModel: no error")
	s := vfC18Get(m)
	vfC18CheckSystem(s, vfC18JCQ(), vfC18Uniform)
	vfC18CheckP0(m)
	vfC18CheckP(m, s, vfC18Uniform, vfC18T(), true)
}

// H_C18_jc_semigroup: JC69: P(s+t) = P(s) P(t).
// bounds: s, t symbolic in [1e-8, 100]
// outside: IEEE rounding is outside the claim: floats are exact reals
// assumes: exp(a(s+t)) = exp(as) exp(at) for the eigenvalue a (instantiated functional equation of the uninterpreted exp)
func H_C18_jc_semigroup() {
	m := NewJCModel()
	s := vfC18Get(m)
	vfC18CheckSemigroup(m, s, vfC18T(), vfC18T())
}

// ----------------------------------------------------------------------------------------- K2P

func vfC18K2PQ(kappa float64) [4][4]float64 {
	var off [4][4]float64
	for i := 0; i < 4; i++ {
		for j := 0; j < 4; j++ {
			if i == j {
				continue
			}
			if vfC18IsTransition(i, j) {
				off[i][j] = kappa
			} else {
				off[i][j] = 1
			}
		}
	}
	return vfC18TextbookQ(off, vfC18Uniform)
}

var vfC18Kappas = []float64{0.5, 1, 2, 4}
var vfC18KappasThorough = []float64{0.125, 1.0 / 3.0, 0.75, 3, 10, 37.5}

func vfC18K2P(kappas []float64) {
	kappa := kappas[nondetRange(0, len(kappas)-1)]
	m := NewK2PModel()
	m.InitModel(kappa)
	s := vfC18Get(m)
	vfC18CheckSystem(s, vfC18K2PQ(kappa), vfC18Uniform)
	vfC18CheckP0(m)
	vfC18CheckP(m, s, vfC18Uniform, vfC18T(), false)
}

// H_C18_k2p: K80: eigen system against the textbook Q (transition/transversion ratio kappa); P(t) rows sum to 1, reversible, P(0)=I, analytic formula = eigen form.
// bounds: kappa in {1/2, 1, 2, 4}; t symbolic in [1e-8, 100] plus t = 0
// outside: other kappa (H_C18_k2p_symkappa: symbolic kappa); entries in [0,1] (needs a transcendental relation between the two exponentials: not applicable); IEEE rounding is outside the claim: floats are exact reals
func H_C18_k2p() {
	vfC18K2P(vfC18Kappas)
}

// H_C18_k2p_deep: as H_C18_k2p at more kappa.
// bounds: kappa in {1/8, 1/3, 3/4, 3, 10, 37.5}
// outside: IEEE rounding is outside the claim: floats are exact reals
//verif: tier=thorough
func H_C18_k2p_deep() {
	vfC18K2P(vfC18KappasThorough)
}

// H_C18_k2p_semigroup: K80: P(s+t) = P(s) P(t).
// bounds: kappa in {1/2, 1, 2, 4}; s, t symbolic in [1e-8, 100]
// outside: IEEE rounding is outside the claim: floats are exact reals
// assumes: exp(a(s+t)) = exp(as) exp(at) for each eigenvalue a
func H_C18_k2p_semigroup() {
	kappa := vfC18Kappas[nondetRange(0, len(vfC18Kappas)-1)]
	m := NewK2PModel()
	m.InitModel(kappa)
	vfC18CheckSemigroup(m, vfC18Get(m), vfC18T(), vfC18T())
}

// ----------------------------------------------------------------------------------------- F84

func vfC18F84Q(kappa float64, pi [4]float64) [4][4]float64 {
	piR := pi[0] + pi[2]
	piY := pi[1] + pi[3]
	var off [4][4]float64
	for i := 0; i < 4; i++ {
		for j := 0; j < 4; j++ {
			if i == j {
				continue
			}
			switch {
			case vfC18IsTransition(i, j) && (j == 0 || j == 2):
				off[i][j] = (1 + kappa/piR) * pi[j]
			case vfC18IsTransition(i, j):
				off[i][j] = (1 + kappa/piY) * pi[j]
			default:
				off[i][j] = pi[j]
			}
		}
	}
	return vfC18TextbookQ(off, pi)
}

var vfC18Pis = [][4]float64{
	{0.25, 0.25, 0.25, 0.25},
	{0.5, 0.25, 0.125, 0.125},
	{0.125, 0.125, 0.25, 0.5},
}
var vfC18PisThorough = [][4]float64{
	{0.1, 0.2, 0.3, 0.4},
	{0.0625, 0.0625, 0.125, 0.75},
	{0.375, 0.125, 0.375, 0.125},
	{0.01, 0.97, 0.01, 0.01},
}
var vfC18F84Kappas = []float64{0.5, 2}
var vfC18F84KappasThorough = []float64{0, 1, 4, 1.0 / 3.0, 25}

func vfC18F84(kappas []float64, pis [][4]float64) {
	kappa := kappas[nondetRange(0, len(kappas)-1)]
	pi := pis[nondetRange(0, len(pis)-1)]
	m := NewF84Model()
	m.InitModel(kappa, pi[0], pi[1], pi[2], pi[3])
	s := vfC18Get(m)
	vfC18CheckSystem(s, vfC18F84Q(kappa, pi), pi)
	vfC18CheckP0(m)
	vfC18CheckP(m, s, pi, vfC18T(), false)
}

// H_C18_f84: F84: eigen system against the textbook Q; P(t) (generic eigen assembly of models.Pij) rows sum to 1, reversible, P(0)=I.
// bounds: kappa in {1/2, 2}; base frequencies in {uniform, (1/2,1/4,1/8,1/8), (1/8,1/8,1/4,1/2)}; t symbolic in [1e-8, 100] plus t = 0
// outside: other parameters (thorough twin); entries in [0,1] (needs transcendental relations between the exponentials: not applicable); IEEE rounding is outside the claim: floats are exact reals
func H_C18_f84() {
	vfC18F84(vfC18F84Kappas, vfC18Pis)
}

// H_C18_f84_deep: as H_C18_f84 at more parameter points (kappa = 0 is F81).
// bounds: kappa in {0, 1, 4, 1/3, 25} x the three quick frequency points and (0.1,0.2,0.3,0.4), (1/16,1/16,1/8,3/4), (3/8,1/8,3/8,1/8), (0.01,0.97,0.01,0.01)
// outside: IEEE rounding is outside the claim: floats are exact reals
//verif: tier=thorough
func H_C18_f84_deep() {
	all := append(append([][4]float64{}, vfC18Pis...), vfC18PisThorough...)
	vfC18F84(append(append([]float64{}, vfC18F84Kappas...), vfC18F84KappasThorough...), all)
}

// vfC18CheckSemigroupEigen: the semigroup law on the eigen form R exp(Dt) L computed by the harness
// from Eigens() (the library's F84 probabilities are proved equal to that form, up to the
// positivity floor, by H_C18_f84; through the floored values the query is out of reach of the
// solver).
func vfC18CheckSemigroupEigen(sy vfC18Sys, s, t float64) {
	es, et, est := vfC18Exps(sy, s), vfC18Exps(sy, t), vfC18Exps(sy, s+t)
	for k := 0; k < 4; k++ {
		assume(est[k] == es[k]*et[k] || !verifSymbolic())
	}
	ps, pt, pst := vfC18EigenForm(sy, es), vfC18EigenForm(sy, et), vfC18EigenForm(sy, est)
	for i := 0; i < 4; i++ {
		for j := 0; j < 4; j++ {
			v := 0.0
			for k := 0; k < 4; k++ {
				v += ps[i][k] * pt[k][j]
			}
			verifAssert(vfC18Close(pst[i][j], v), "eigen form: P(s+t) = P(s) P(t)")
		}
	}
	verifReach("semigroup")
}

// H_C18_f84_semigroup: F84: P(s+t) = P(s) P(t) on the eigen form R exp(Dt) L built from Eigens().
// bounds: kappa in {1/2, 2}; base frequencies in {uniform, (1/2,1/4,1/8,1/8), (1/8,1/8,1/4,1/2)}; s, t symbolic in [1e-8, 100]
// outside: the floored values reported by models.Pij (equal to the eigen form by H_C18_f84; through the floor the nonlinear query does not finish); IEEE rounding is outside the claim: floats are exact reals
// assumes: exp(a(s+t)) = exp(as) exp(at) for each eigenvalue a
func H_C18_f84_semigroup() {
	kappa := vfC18F84Kappas[nondetRange(0, len(vfC18F84Kappas)-1)]
	pi := vfC18Pis[nondetRange(0, len(vfC18Pis)-1)]
	m := NewF84Model()
	m.InitModel(kappa, pi[0], pi[1], pi[2], pi[3])
	vfC18CheckSemigroupEigen(vfC18Get(m), vfC18T(), vfC18T())
}

// ------------------------------------------------------------------------- symbolic kappa twins

func vfC18Kappa() float64 {
	k := nondetFloat()
	assume(k >= 0.01 && k <= 100)
	return k
}

// H_C18_k2p_symkappa: as H_C18_k2p with a symbolic transition/transversion ratio.
// bounds: kappa symbolic in [0.01, 100]; t symbolic in [1e-8, 100] plus t = 0
// outside: entries in [0,1] (not applicable, see H_C18_k2p); IEEE rounding is outside the claim: floats are exact reals
//verif: timeout=60000
func H_C18_k2p_symkappa() {
	kappa := vfC18Kappa()
	m := NewK2PModel()
	m.InitModel(kappa)
	s := vfC18Get(m)
	vfC18CheckSystem(s, vfC18K2PQ(kappa), vfC18Uniform)
	vfC18CheckP0(m)
	vfC18CheckP(m, s, vfC18Uniform, vfC18T(), false)
}

// H_C18_f84_symkappa: as H_C18_f84 with a symbolic kappa (frequencies at the sample points).
// bounds: kappa symbolic in [0.01, 100]; base frequencies in {uniform, (1/2,1/4,1/8,1/8), (1/8,1/8,1/4,1/2)}; t symbolic in [1e-8, 100] plus t = 0
// outside: symbolic frequencies (out of reach of the solvers, DESIGN.md §2.4); IEEE rounding is outside the claim: floats are exact reals
//verif: tier=thorough timeout=60000
func H_C18_f84_symkappa() {
	kappa := vfC18Kappa()
	pi := vfC18Pis[nondetRange(0, len(vfC18Pis)-1)]
	m := NewF84Model()
	m.InitModel(kappa, pi[0], pi[1], pi[2], pi[3])
	s := vfC18Get(m)
	vfC18CheckSystem(s, vfC18F84Q(kappa, pi), pi)
	vfC18CheckP0(m)
	vfC18CheckP(m, s, pi, vfC18T(), false)
}
