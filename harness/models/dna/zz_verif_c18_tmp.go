//go:build verif

package dna

import "math"

// H_C18_tmpa: x
// bounds: x
// outside: x
func H_C18_tmpa() {
	var off [4][4]float64
	for i := 0; i < 4; i++ {
		for j := 0; j < 4; j++ {
			if i != j {
				off[i][j] = 1
			}
		}
	}
	verifAssert(off[0][1] == 1, "a1 nested array store")
	verifAssert(off[1][0] == 1, "a2 nested array store")
	q := vfC18TextbookQ(off, vfC18Uniform)
	verifAssert(off[0][1] == 1, "a3 arg unchanged")
	verifAssert(q[0][0] == -1, "a4 diag")
	verifAssert(q[0][1] == 1.0/3.0, "a5 offdiag")
	verifAssert(q[1][0] == 1.0/3.0, "a6 offdiag")
	verifAssert(q[3][2] == 1.0/3.0, "a7 offdiag")
	verifAssert(math.Abs(0.25*q[0][1]-0.25*q[1][0]) <= 1e-9, "a8")
	verifAssert(vfC18Close(vfC18Uniform[0]*q[0][1], vfC18Uniform[1]*q[1][0]), "a9")
	verifReach("end")
}
