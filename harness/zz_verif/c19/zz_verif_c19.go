//go:build verif

// Package c19 holds the harnesses of property C19 (queries never modify their input; copies
// share nothing with the original). It is an overlay-only package: it sees goalign through its
// exported API only, exactly like a client program.
// verif-uses-rand: the replay build overlays math/rand so that recorded draws are replayed.
package c19

import (
	"github.com/evolbioinfo/goalign/align"
	"github.com/evolbioinfo/goalign/io/clustal"
	"github.com/evolbioinfo/goalign/io/fasta"
	"github.com/evolbioinfo/goalign/io/nexus"
	"github.com/evolbioinfo/goalign/io/paml"
	"github.com/evolbioinfo/goalign/io/phylip"
	"github.com/evolbioinfo/goalign/io/stockholm"
)

var names = []string{"s0", "s1", "s2", "s3"}

func printable(c uint8) bool { return c >= 0x21 && c <= 0x7e }

// iupac: IUPAC nucleotide codes in both cases plus the gap (everything ReverseComplement accepts, U excluded).
func iupac(c uint8) bool {
	u := c
	if u >= 'a' && u <= 'z' {
		u -= 32
	}
	switch u {
	case 'A', 'C', 'G', 'T', 'R', 'Y', 'S', 'W', 'K', 'M', 'B', 'D', 'H', 'V', 'N':
		return true
	}
	return c == '-'
}

// snap is what a client can observe of a sequence set: names, residues, alignment length, alphabet.
type snap struct {
	names    []string
	seqs     [][]uint8
	length   int
	alphabet int
}

func snapshotBag(sb align.SeqBag) snap {
	var s snap
	n := sb.NbSequences()
	for i := 0; i < n; i++ {
		name, _ := sb.GetSequenceNameById(i)
		chars, _ := sb.GetSequenceCharById(i)
		cp := make([]uint8, len(chars))
		copy(cp, chars)
		s.names = append(s.names, name)
		s.seqs = append(s.seqs, cp)
	}
	s.alphabet = sb.Alphabet()
	return s
}

func snapshot(al align.Alignment) snap {
	s := snapshotBag(al)
	s.length = al.Length()
	return s
}

func same(a, b snap) bool {
	if len(a.names) != len(b.names) || a.length != b.length || a.alphabet != b.alphabet {
		return false
	}
	ok := true
	for i := range a.names {
		if a.names[i] != b.names[i] || len(a.seqs[i]) != len(b.seqs[i]) {
			return false
		}
		for j := range a.seqs[i] {
			ok = ok && a.seqs[i][j] == b.seqs[i][j]
		}
	}
	return ok
}

// symAlign builds an n x L alignment through the exported API; every residue is a symbolic byte satisfying ok.
// The slices handed to AddSequenceChar are not kept by the harness (the alignment stores them as they are).
func symAlign(alphabet, n, L int, ok func(uint8) bool) align.Alignment {
	al := align.NewAlign(alphabet)
	for i := 0; i < n; i++ {
		s := make([]uint8, L)
		for j := range s {
			s[j] = nondetByte()
			assume(ok(s[j]))
		}
		if err := al.AddSequenceChar(names[i], s, ""); err != nil {
			panic("harness: cannot build alignment: " + err.Error())
		}
	}
	return al
}

// symAlignPinned is symAlign for residues drawn from a small set, with an explicit case split per
// residue: on every path each residue is one concrete member of the set (to be used with merge=0
// by the harnesses of functions that tabulate all 130 character codes, where a symbolic table index
// makes every later table test a solver query).
func symAlignPinned(alphabet, n, L int, set []uint8) align.Alignment {
	al := align.NewAlign(alphabet)
	for i := 0; i < n; i++ {
		s := make([]uint8, L)
		for j := range s {
			b := nondetByte()
			found := false
			for _, c := range set {
				if b == c {
					s[j] = c
					found = true
					break
				}
			}
			assume(found)
		}
		if err := al.AddSequenceChar(names[i], s, ""); err != nil {
			panic("harness: cannot build alignment: " + err.Error())
		}
	}
	return al
}

var fewSet = []uint8{'A', 'C', 'a', 'N', '-'}

// query: build, snapshot, call, snapshot again.
func query(alphabet, minN, maxN, minL, maxL int, ok func(uint8) bool, call func(al align.Alignment, n, L int)) {
	n := nondetRange(minN, maxN)
	L := nondetRange(minL, maxL)
	al := symAlign(alphabet, n, L, ok)
	before := snapshot(al)
	call(al, n, L)
	verifReach("called")
	verifAssert(same(before, snapshot(al)), "input unchanged by the query")
}

// queryPinned is query with symAlignPinned (use with merge=0).
func queryPinned(alphabet, minN, maxN, minL, maxL int, set []uint8, call func(al align.Alignment, n, L int)) {
	n := nondetRange(minN, maxN)
	L := nondetRange(minL, maxL)
	al := symAlignPinned(alphabet, n, L, set)
	before := snapshot(al)
	call(al, n, L)
	verifReach("called")
	verifAssert(same(before, snapshot(al)), "input unchanged by the query")
}

var acgtSet = []uint8{'A', 'C', 'G', 'T', 'N', '-'}

// ---------------------------------------------------------------------------------------------
// writers

// H_C19_query_fasta: the FASTA alignment writer leaves its input unchanged.
// bounds: n<=3 rows, L<=4 columns, residues any printable ASCII byte, both alphabets
// outside: n>3, L>4 (line wrapping at 80 columns is not reached)
func H_C19_query_fasta() {
	alpha := []int{align.NUCLEOTIDS, align.AMINOACIDS}[nondetRange(0, 1)]
	query(alpha, 1, 3, 0, 4, printable, func(al align.Alignment, n, L int) {
		out := fasta.WriteAlignment(al)
		verifAssert(len(out) > 0, "something written")
	})
}

// H_C19_query_fasta_sequences: the gap-stripping FASTA writer (WriteSequences) leaves its input unchanged.
// bounds: n<=3, L<=3, residues printable ASCII (gaps anywhere)
// outside: n>3, L>3 (thorough twin: L=4)
func H_C19_query_fasta_sequences() {
	query(align.NUCLEOTIDS, 1, 3, 0, 3, printable, func(al align.Alignment, n, L int) {
		out := fasta.WriteSequences(al)
		verifAssert(len(out) > 0, "something written")
	})
}

// H_C19_query_fasta_sequences_deep: as H_C19_query_fasta_sequences with L=4.
// bounds: n<=3, L=4
// outside: larger shapes
//verif: tier=thorough
func H_C19_query_fasta_sequences_deep() {
	query(align.NUCLEOTIDS, 1, 3, 4, 4, printable, func(al align.Alignment, n, L int) {
		out := fasta.WriteSequences(al)
		verifAssert(len(out) > 0, "something written")
	})
}

// H_C19_query_phylip: the Phylip writer leaves its input unchanged, for the 8 option combinations.
// bounds: n<=3, L<=4, residues printable ASCII, strict/oneline/noblock all combinations
// outside: n>3, L>4 (blocks of 10 / lines of 60 are not reached)
func H_C19_query_phylip() {
	strict := nondetRange(0, 1) == 1
	oneline := nondetRange(0, 1) == 1
	noblock := nondetRange(0, 1) == 1
	query(align.NUCLEOTIDS, 1, 3, 0, 4, printable, func(al align.Alignment, n, L int) {
		out := phylip.WriteAlignment(al, strict, oneline, noblock)
		verifAssert(len(out) > 0, "something written")
	})
}

// H_C19_query_nexus: the Nexus writer leaves its input unchanged.
// bounds: n<=3, L<=4, residues printable ASCII, both alphabets
// outside: n>3, L>4
func H_C19_query_nexus() {
	alpha := []int{align.NUCLEOTIDS, align.AMINOACIDS}[nondetRange(0, 1)]
	query(alpha, 1, 3, 0, 4, printable, func(al align.Alignment, n, L int) {
		out := nexus.WriteAlignment(al)
		verifAssert(len(out) > 0, "something written")
	})
}

// H_C19_query_clustal: the Clustal writer (including its conservation line) leaves its input unchanged.
// bounds: n<=3, L<=3, residues printable ASCII, both alphabets
// outside: n>3, L>3 (thorough twin: L<=4)
func H_C19_query_clustal() {
	alpha := []int{align.NUCLEOTIDS, align.AMINOACIDS}[nondetRange(0, 1)]
	query(alpha, 1, 3, 0, 3, printable, func(al align.Alignment, n, L int) {
		out := clustal.WriteAlignment(al)
		verifAssert(len(out) > 0, "something written")
	})
}

// H_C19_query_clustal_deep: as H_C19_query_clustal with L<=4.
// bounds: n<=3, L<=4, residues printable ASCII
// outside: larger shapes
//verif: tier=thorough
func H_C19_query_clustal_deep() {
	alpha := []int{align.NUCLEOTIDS, align.AMINOACIDS}[nondetRange(0, 1)]
	query(alpha, 1, 3, 4, 4, printable, func(al align.Alignment, n, L int) {
		out := clustal.WriteAlignment(al)
		verifAssert(len(out) > 0, "something written")
	})
}

// H_C19_query_stockholm: the Stockholm writer leaves its input unchanged.
// bounds: n<=3, L<=4, residues printable ASCII
// outside: n>3, L>4
func H_C19_query_stockholm() {
	query(align.AMINOACIDS, 1, 3, 0, 4, printable, func(al align.Alignment, n, L int) {
		out := stockholm.WriteAlignment(al)
		verifAssert(len(out) > 0, "something written")
	})
}

// H_C19_query_paml: the PAML writer leaves its input unchanged.
// bounds: n<=3, L<=4, residues printable ASCII
// outside: n>3, L>4
func H_C19_query_paml() {
	query(align.NUCLEOTIDS, 1, 3, 0, 4, printable, func(al align.Alignment, n, L int) {
		out := paml.WriteAlignment(al)
		verifAssert(len(out) > 0, "something written")
	})
}

// ---------------------------------------------------------------------------------------------
// statistics (the functions of C14)

// H_C19_query_charstats: CharStats and UniqueCharacters leave their input unchanged.
// bounds: n<=2, L<=2, every residue any of {A, C, a, N, -} (explicit case split: 5^(n*L) residue assignments per shape)
// outside: n>2, L>2, other residues (the functions tabulate characters one by one; a larger residue set multiplies the cases, not the behaviours)
//verif: merge=0
func H_C19_query_charstats() {
	op := nondetRange(0, 1)
	n := nondetRange(1, 2)
	L := nondetRange(1, 2)
	al := symAlignPinned(align.NUCLEOTIDS, n, L, fewSet)
	before := snapshot(al)
	if op == 0 {
		m := al.CharStats()
		verifAssert(m != nil, "result")
	} else {
		al.UniqueCharacters()
	}
	verifReach("called")
	verifAssert(same(before, snapshot(al)), "input unchanged by the query")
}

// H_C19_query_charstats_row_site: CharStatsSeq and CharStatsSite leave their input unchanged.
// bounds: n<=3, L<=3, residues printable ASCII, every valid row / site index
// outside: n>3, L>3
func H_C19_query_charstats_row_site() {
	op := nondetRange(0, 1)
	query(align.NUCLEOTIDS, 1, 3, 1, 3, printable, func(al align.Alignment, n, L int) {
		if op == 0 {
			_, err := al.CharStatsSeq(nondetRange(0, n-1))
			verifAssert(err == nil, "valid row accepted")
		} else {
			_, err := al.CharStatsSite(nondetRange(0, L-1))
			verifAssert(err == nil, "valid site accepted")
		}
	})
}

// H_C19_query_maxchar: MaxCharStats and Consensus (all four flag combinations) leave their input unchanged.
// bounds: n<=3, L<=2, residues printable ASCII, both alphabets
// outside: n>3, L>2
func H_C19_query_maxchar() {
	alpha := []int{align.NUCLEOTIDS, align.AMINOACIDS}[nondetRange(0, 1)]
	cons := nondetRange(0, 1) == 1
	g := nondetRange(0, 1) == 1
	ns := nondetRange(0, 1) == 1
	query(alpha, 1, 3, 1, 2, printable, func(al align.Alignment, n, L int) {
		if cons {
			c := al.Consensus(g, ns)
			verifAssert(c.NbSequences() == 1, "one consensus row")
		} else {
			out, _, _ := al.MaxCharStats(g, ns)
			verifAssert(len(out) == L, "one character per site")
		}
	})
}

// H_C19_query_entropy: Entropy(site, removegaps) leaves its input unchanged.
// bounds: n<=3, L<=2, residues printable ASCII, every valid site, both flag values
// outside: n>3, L>2; the value of the entropy (logarithm uninterpreted)
func H_C19_query_entropy() {
	rg := nondetRange(0, 1) == 1
	query(align.AMINOACIDS, 1, 3, 1, 2, printable, func(al align.Alignment, n, L int) {
		_, err := al.Entropy(nondetRange(0, L-1), rg)
		verifAssert(err == nil, "valid site accepted")
	})
}

// H_C19_query_sitecounts: NbVariableSites and AvgAllelesPerSite leave their input unchanged.
// bounds: n<=3, L=1 and n<=2, L=2; residues printable ASCII, both alphabets
// outside: larger shapes
func H_C19_query_sitecounts() {
	op := nondetRange(0, 1)
	alpha := []int{align.NUCLEOTIDS, align.AMINOACIDS}[nondetRange(0, 1)]
	maxN, maxL := 3, 1
	if nondetRange(0, 1) == 1 {
		maxN, maxL = 2, 2
	}
	query(alpha, 1, maxN, maxL, maxL, printable, func(al align.Alignment, n, L int) {
		if op == 0 {
			al.NbVariableSites()
		} else {
			al.AvgAllelesPerSite()
		}
	})
}

// H_C19_query_informative: InformativeSites leaves its input unchanged.
// bounds: n<=3, L=1 and n<=2, L=2; every residue any of {A, C, a, N, -} (explicit case split); both alphabets
// outside: larger shapes, other residues
//verif: merge=0
func H_C19_query_informative() {
	alpha := []int{align.NUCLEOTIDS, align.AMINOACIDS}[nondetRange(0, 1)]
	maxN, maxL := 3, 1
	if nondetRange(0, 1) == 1 {
		maxN, maxL = 2, 2
	}
	queryPinned(alpha, 1, maxN, maxL, maxL, fewSet, func(al align.Alignment, n, L int) {
		al.InformativeSites()
	})
}

// H_C19_query_conservation: SiteConservation leaves its input unchanged.
// bounds: n<=2, L<=2, residues printable ASCII, both alphabets, every valid site
// outside: n>2, L>2 (the Clustal writer harness calls it with n<=3)
func H_C19_query_conservation() {
	alpha := []int{align.NUCLEOTIDS, align.AMINOACIDS}[nondetRange(0, 1)]
	query(alpha, 1, 2, 1, 2, printable, func(al align.Alignment, n, L int) {
		_, err := al.SiteConservation(nondetRange(0, L-1))
		verifAssert(err == nil, "valid site accepted")
	})
}

// H_C19_query_pssm: Pssm (every normalisation; plain counts without pseudo count, log scale with pseudo count 1/2) leaves its input unchanged.
// bounds: shapes 2x1, 1x2 and 1x1, every residue any of A C G T N - (explicit case split), nucleotide alphabet
// outside: larger shapes; numeric values (logarithm uninterpreted)
//verif: merge=0
func H_C19_query_pssm() {
	norm := nondetRange(0, 4)
	lg := nondetRange(0, 1) == 1
	pc := 0.0
	if lg {
		pc = 0.5
	}
	maxN, maxL := 2, 1
	if nondetRange(0, 1) == 1 {
		maxN, maxL = 1, 2
	}
	queryPinned(align.NUCLEOTIDS, 1, maxN, maxL, maxL, acgtSet, func(al align.Alignment, n, L int) {
		al.Pssm(lg, pc, norm)
	})
}

// H_C19_query_pssm_deep: as H_C19_query_pssm with n<=2, L<=2 and pseudo counts 0, 1/2, 1.
// bounds: n<=2, L<=2
// outside: larger shapes
//verif: tier=thorough merge=0
func H_C19_query_pssm_deep() {
	norm := nondetRange(0, 4)
	lg := nondetRange(0, 1) == 1
	pc := []float64{0, 0.5, 1}[nondetRange(0, 2)]
	queryPinned(align.NUCLEOTIDS, 1, 2, 1, 2, acgtSet, func(al align.Alignment, n, L int) {
		al.Pssm(lg, pc, norm)
	})
}

// H_C19_query_diffs: CountDifferences leaves its input unchanged.
// bounds: n in 1..3, L<=2, residues printable ASCII
// outside: n>3, L>2; n=0 (the function does not accept an empty alignment)
func H_C19_query_diffs() {
	query(align.NUCLEOTIDS, 1, 3, 1, 2, printable, func(al align.Alignment, n, L int) {
		al.CountDifferences()
	})
}

// H_C19_query_unique_gaps: NumGapsUniquePerSequence (without and with a profile computed from the alignment itself by NewCountProfileFromAlignment) leaves its input unchanged.
// bounds: n<=3, L=1 and n<=2, L=2; every residue any of {A, C, a, N, -} (explicit case split)
// outside: larger shapes, other residues
//verif: merge=0
func H_C19_query_unique_gaps() {
	withProfile := nondetRange(0, 1) == 1
	maxN, maxL := 3, 1
	if nondetRange(0, 1) == 1 {
		maxN, maxL = 2, 2
	}
	queryPinned(align.NUCLEOTIDS, 1, maxN, maxL, maxL, fewSet, func(al align.Alignment, n, L int) {
		var p *align.CountProfile
		if withProfile {
			p = align.NewCountProfileFromAlignment(al)
		}
		_, _, _, err := al.NumGapsUniquePerSequence(p)
		verifAssert(err == nil, "profile of the same length accepted")
	})
}

// H_C19_query_unique_mutations: NumMutationsUniquePerSequence (without and with a profile of the alignment itself) leaves its input unchanged.
// bounds: n<=3, L=1 and n<=2, L=2; every residue any of {A, C, a, N, -} (explicit case split)
// outside: larger shapes, other residues
//verif: merge=0
func H_C19_query_unique_mutations() {
	withProfile := nondetRange(0, 1) == 1
	maxN, maxL := 3, 1
	if nondetRange(0, 1) == 1 {
		maxN, maxL = 2, 2
	}
	queryPinned(align.NUCLEOTIDS, 1, maxN, maxL, maxL, fewSet, func(al align.Alignment, n, L int) {
		var p *align.CountProfile
		if withProfile {
			p = align.NewCountProfileFromAlignment(al)
		}
		_, _, _, err := al.NumMutationsUniquePerSequence(p)
		verifAssert(err == nil, "profile of the same length accepted")
	})
}

// H_C19_query_mutations: NumMutationsComparedToReferenceSequence and ListMutationsComparedToReferenceSequence (nucleotide mode) change neither the sequence nor the reference.
// bounds: 2 rows (sequence, reference), L<=3, residues IUPAC nucleotides both cases and '-'
// outside: L>3; the codon-wise (aa) mode
func H_C19_query_mutations() {
	op := nondetRange(0, 1)
	query(align.NUCLEOTIDS, 2, 2, 1, 3, iupac, func(al align.Alignment, n, L int) {
		s, _ := al.Sequence(0)
		ref, _ := al.Sequence(1)
		if op == 0 {
			s.NumMutationsComparedToReferenceSequence(align.NUCLEOTIDS, ref)
		} else {
			s.ListMutationsComparedToReferenceSequence(align.NUCLEOTIDS, ref, false)
		}
	})
}

// ---------------------------------------------------------------------------------------------
// pairwise aligner

// H_C19_query_pwalign: NewPwAligner(s1,s2,algo).Alignment() leaves both input sequences unchanged (Smith-Waterman and the reversed "ATG" mode).
// bounds: two sequences of 1..2 residues each out of A C G T N, both algorithms
// outside: longer sequences (thorough twin: up to 3), protein sequences
func H_C19_query_pwalign() { pwalignBody(2) }

// H_C19_query_pwalign_deep: as H_C19_query_pwalign with up to 3 residues.
// bounds: lengths 1..3
// outside: longer sequences
//verif: tier=thorough
func H_C19_query_pwalign_deep() { pwalignBody(3) }

func base(c uint8) bool { return c == 'A' || c == 'C' || c == 'G' || c == 'T' || c == 'N' }

func pwalignBody(maxL int) {
	l1 := nondetRange(1, maxL)
	l2 := nondetRange(1, maxL)
	algo := []int{align.ALIGN_ALGO_SW, align.ALIGN_ALGO_ATG}[nondetRange(0, 1)]
	b1 := make([]uint8, l1)
	b2 := make([]uint8, l2)
	o1 := make([]uint8, l1)
	o2 := make([]uint8, l2)
	for i := range b1 {
		b1[i] = nondetByte()
		assume(base(b1[i]))
		o1[i] = b1[i]
	}
	for i := range b2 {
		b2[i] = nondetByte()
		assume(base(b2[i]))
		o2[i] = b2[i]
	}
	s1 := align.NewSequence("s1", b1, "")
	s2 := align.NewSequence("s2", b2, "")
	pw := align.NewPwAligner(s1, s2, algo)
	_, err := pw.Alignment()
	verifReach("aligned")
	verifAssert(err == nil, "nucleotide sequences aligned")
	verifAssert(s1.Name() == "s1" && s2.Name() == "s2" && s1.Length() == l1 && s2.Length() == l2, "names and lengths unchanged")
	g1, g2 := s1.SequenceChar(), s2.SequenceChar()
	for i := 0; i < l1; i++ {
		verifAssert(g1[i] == o1[i], "first sequence unchanged by the aligner")
	}
	for i := 0; i < l2; i++ {
		verifAssert(g2[i] == o2[i], "second sequence unchanged by the aligner")
	}
}

// ---------------------------------------------------------------------------------------------
// copy-producing operations seen as queries

// H_C19_query_copies: SubAlign, SelectSites, Transpose, Clone, CloneSeqBag leave the alignment they are called on unchanged.
// bounds: n<=3, L<=4, residues printable ASCII; SubAlign: every valid window; SelectSites: every list of <=2 valid sites
// outside: n>3, L>4, longer site lists
func H_C19_query_copies() {
	op := nondetRange(0, 4)
	query(align.AMINOACIDS, 1, 3, 1, 4, printable, func(al align.Alignment, n, L int) {
		var err error
		switch op {
		case 0:
			start := nondetRange(0, L)
			_, err = al.SubAlign(start, nondetRange(0, L-start))
		case 1:
			k := nondetRange(0, 2)
			sites := make([]int, k)
			for i := range sites {
				sites[i] = nondetRange(0, L-1)
			}
			_, err = al.SelectSites(sites)
		case 2:
			_, err = al.Transpose()
		case 3:
			_, err = al.Clone()
		case 4:
			_, err = al.CloneSeqBag()
		}
		verifAssert(err == nil, "valid arguments accepted")
	})
}

// H_C19_query_unalign: Unalign leaves the alignment it is called on unchanged.
// bounds: n<=3, L<=3, residues printable ASCII (gaps anywhere)
// outside: n>3, L>3 (thorough twin: L=4)
func H_C19_query_unalign() {
	query(align.AMINOACIDS, 1, 3, 0, 3, printable, func(al align.Alignment, n, L int) {
		u := al.Unalign()
		verifAssert(u.NbSequences() == n, "one unaligned sequence per row")
	})
}

// H_C19_query_unalign_deep: as H_C19_query_unalign with L=4.
// bounds: n<=3, L=4
// outside: larger shapes
//verif: tier=thorough
func H_C19_query_unalign_deep() {
	query(align.AMINOACIDS, 1, 3, 4, 4, printable, func(al align.Alignment, n, L int) {
		u := al.Unalign()
		verifAssert(u.NbSequences() == n, "one unaligned sequence per row")
	})
}

// H_C19_query_seqclone: Sequence.Clone leaves the sequence (and the alignment holding it) unchanged.
// bounds: n<=3 rows, L<=4, residues printable ASCII, every row
// outside: larger shapes
func H_C19_query_seqclone() {
	query(align.NUCLEOTIDS, 1, 3, 0, 4, printable, func(al align.Alignment, n, L int) {
		s, ok := al.Sequence(nondetRange(0, n-1))
		verifAssert(ok, "row exists")
		c := s.Clone()
		verifAssert(c.Length() == L && c.Name() == s.Name(), "clone has the same name and length")
	})
}

func acgtgap(c uint8) bool { return c == 'A' || c == 'C' || c == 'G' || c == 'T' || c == '-' }

// H_C19_query_seqtranslate: Sequence.Translate leaves the sequence (and the alignment holding it) unchanged.
// bounds: n<=2 rows (the last one is translated), L in 3..4, residues A C G T -; phase 0..1, the three genetic codes
// outside: longer sequences, IUPAC ambiguity codes
func H_C19_query_seqtranslate() {
	phase := nondetRange(0, 1)
	code := []int{align.GENETIC_CODE_STANDARD, align.GENETIC_CODE_VETEBRATE_MITO, align.GENETIC_CODE_INVETEBRATE_MITO}[nondetRange(0, 2)]
	query(align.NUCLEOTIDS, 1, 2, 3, 4, acgtgap, func(al align.Alignment, n, L int) {
		s, ok := al.Sequence(n - 1)
		verifAssert(ok, "row exists")
		tr, err := s.Translate(phase, code)
		if L >= 3+phase {
			verifReach("translated")
			verifAssert(err == nil && tr != nil, "nucleotide sequence translated")
		} else {
			verifAssert(err != nil, "sequence shorter than one codon after the phase is rejected")
		}
	})
}

// ---------------------------------------------------------------------------------------------
// independence of copies

// mutate applies one in-place mutation to sb (al is the same object as an Alignment, or nil when
// only the SeqBag interface is available). rows/cols is the shape of sb.
func mutate(how int, sb align.SeqBag, al align.Alignment, rows, cols int) {
	switch how {
	case 0: // SetSequenceChar at a symbolic (row, site)
		i, j := nondetInt(), nondetInt()
		assume(i >= 0 && i < rows && j >= 0 && j < cols)
		verifAssert(sb.SetSequenceChar(i, j, nondetByte()) == nil, "write inside the shape accepted")
	case 1: // ReplaceChar by name at a symbolic site
		name, _ := sb.GetSequenceNameById(nondetRange(0, rows-1))
		j := nondetInt()
		assume(j >= 0 && j < cols)
		verifAssert(al.ReplaceChar(name, j, nondetByte()) == nil, "write inside the shape accepted")
	case 2:
		verifAssert(sb.ReverseComplement() == nil, "nucleotide set reverse complemented")
	case 3:
		sb.ToLower()
	}
}

const (
	cpClone = iota
	cpCloneSeqBag
	cpSubAlign
	cpSelectSites
	cpTranspose
)

// independent: original -> copy; mutate the copy, the original must not change; mutate the original, the copy must not change.
func independent(op, maxN, maxL int) {
	n := nondetRange(1, maxN)
	L := nondetRange(1, maxL)
	al := symAlign(align.NUCLEOTIDS, n, L, iupac)
	var cp align.SeqBag
	var cpal align.Alignment
	var err error
	rows, cols := n, L
	switch op {
	case cpClone:
		cpal, err = al.Clone()
		cp = cpal
	case cpCloneSeqBag:
		cp, err = al.CloneSeqBag()
	case cpSubAlign:
		start := nondetRange(0, L-1)
		cols = nondetRange(1, L-start)
		cpal, err = al.SubAlign(start, cols)
		cp = cpal
	case cpSelectSites:
		cols = nondetRange(1, 2)
		sites := make([]int, cols)
		for i := range sites {
			sites[i] = nondetRange(0, L-1)
		}
		cpal, err = al.SelectSites(sites)
		cp = cpal
	case cpTranspose:
		cpal, err = al.Transpose()
		cp = cpal
		rows, cols = L, n
	}
	verifAssert(err == nil && cp != nil, "copy produced")
	verifAssert(cp.NbSequences() == rows, "copy has the expected number of rows")
	nmut := 4
	if cpal == nil {
		nmut = 3 // no ReplaceChar on a SeqBag
	}
	how := nondetRange(0, nmut-1)
	if cpal == nil && how >= 1 {
		how++
	}
	so := snapshot(al)
	mutate(how, cp, cpal, rows, cols)
	verifReach("copy mutated")
	verifAssert(same(so, snapshot(al)), "mutating the copy leaves the original unchanged")
	sc := snapshotBag(cp)
	mutate(how, al, al, n, L)
	verifReach("original mutated")
	verifAssert(same(sc, snapshotBag(cp)), "mutating the original leaves the copy unchanged")
}

// H_C19_independent_clone: a Clone shares nothing with its source.
// bounds: n<=3, L<=4, residues IUPAC nucleotides both cases and '-'; one mutation of the copy then one of the original out of SetSequenceChar(symbolic row, site, byte), ReplaceChar(row name, symbolic site, byte), ReverseComplement, ToLower
// outside: n>3, L>4, sequences of several mutations
func H_C19_independent_clone() { independent(cpClone, 3, 4) }

// H_C19_independent_cloneseqbag: a CloneSeqBag shares nothing with its source.
// bounds: n<=3, L<=4, residues IUPAC nucleotides and '-'; mutations SetSequenceChar(symbolic), ReverseComplement, ToLower
// outside: n>3, L>4
func H_C19_independent_cloneseqbag() { independent(cpCloneSeqBag, 3, 4) }

// H_C19_independent_subalign: a SubAlign (every valid non-empty window) shares nothing with its source.
// bounds: n<=3, L<=4, residues IUPAC nucleotides and '-'; the four mutations
// outside: n>3, L>4
func H_C19_independent_subalign() { independent(cpSubAlign, 3, 4) }

// H_C19_independent_selectsites: a SelectSites result (1..2 sites, repeats allowed) shares nothing with its source.
// bounds: n<=3, L<=4, residues IUPAC nucleotides and '-'; the four mutations
// outside: n>3, L>4, longer site lists
func H_C19_independent_selectsites() { independent(cpSelectSites, 3, 4) }

// H_C19_independent_transpose: a Transpose result shares nothing with its source.
// bounds: n<=3, L<=4, residues IUPAC nucleotides and '-'; the four mutations
// outside: n>3, L>4
func H_C19_independent_transpose() { independent(cpTranspose, 3, 4) }

// H_C19_independent_deep: the five copy operations with n<=4, L<=5.
// bounds: n<=4, L<=5, residues IUPAC nucleotides and '-'
// outside: larger shapes
//verif: tier=thorough
func H_C19_independent_deep() { independent(nondetRange(0, 4), 4, 5) }

// H_C19_independent_seqclone: a Sequence.Clone shares nothing with the sequence: writing into / reversing / complementing the clone leaves the alignment unchanged and vice versa.
// bounds: n<=3, L<=4, residues IUPAC nucleotides and '-'
// outside: n>3, L>4
func H_C19_independent_seqclone() {
	n := nondetRange(1, 3)
	L := nondetRange(1, 4)
	al := symAlign(align.NUCLEOTIDS, n, L, iupac)
	r := nondetRange(0, n-1)
	s, _ := al.Sequence(r)
	c := s.Clone()
	so := snapshot(al)
	how := nondetRange(0, 2)
	switch how {
	case 0:
		j := nondetInt()
		assume(j >= 0 && j < L)
		c.SequenceChar()[j] = nondetByte()
	case 1:
		c.Reverse()
	case 2:
		verifAssert(c.Complement() == nil, "complemented")
	}
	verifReach("clone mutated")
	verifAssert(same(so, snapshot(al)), "mutating the cloned sequence leaves the alignment unchanged")
	before := make([]uint8, L)
	copy(before, c.SequenceChar())
	j := nondetInt()
	assume(j >= 0 && j < L)
	verifAssert(al.SetSequenceChar(r, j, nondetByte()) == nil, "write accepted")
	verifReach("original mutated")
	after := c.SequenceChar()
	verifAssert(len(after) == L, "clone keeps its length")
	for k := 0; k < L; k++ {
		verifAssert(after[k] == before[k], "mutating the alignment leaves the cloned sequence unchanged")
	}
}

// ---------------------------------------------------------------------------------------------
// operations drawing from math/rand

// randIndependent: al -> random copy; input unchanged by the call; then independence both ways.
func randIndependent(al align.Alignment, cp align.Alignment, before snap, n, L int) {
	verifReach("called")
	verifAssert(same(before, snapshot(al)), "input unchanged by the call")
	rows, cols := cp.NbSequences(), cp.Length()
	verifAssert(rows >= 1 && cols >= 1, "non-empty result")
	i, j := nondetInt(), nondetInt()
	assume(i >= 0 && i < rows && j >= 0 && j < cols)
	verifAssert(cp.SetSequenceChar(i, j, nondetByte()) == nil, "write inside the copy accepted")
	verifReach("copy mutated")
	verifAssert(same(before, snapshot(al)), "mutating the result leaves the original unchanged")
	sc := snapshot(cp)
	i2, j2 := nondetInt(), nondetInt()
	assume(i2 >= 0 && i2 < n && j2 >= 0 && j2 < L)
	verifAssert(al.SetSequenceChar(i2, j2, nondetByte()) == nil, "write inside the original accepted")
	verifReach("original mutated")
	verifAssert(same(sc, snapshot(cp)), "mutating the original leaves the result unchanged")
}

// H_C19_rand_bootstrap: BuildBootstrap leaves its input unchanged and returns an alignment that shares nothing with it.
// bounds: n<=2, L<=3, residues printable ASCII, frac=1, every outcome of the random draws
// outside: n>2, L>3, partial bootstraps
func H_C19_rand_bootstrap() {
	n := nondetRange(1, 2)
	L := nondetRange(1, 3)
	al := symAlign(align.AMINOACIDS, n, L, printable)
	before := snapshot(al)
	cp := al.BuildBootstrap(1.0)
	randIndependent(al, cp, before, n, L)
}

// H_C19_rand_randsubalign: RandSubAlign (consecutive or not) leaves its input unchanged and returns an alignment that shares nothing with it.
// bounds: n<=2, L<=3, every valid length 1..L, both modes, every outcome of the random draws
// outside: n>2, L>3
func H_C19_rand_randsubalign() {
	n := nondetRange(1, 2)
	L := nondetRange(1, 3)
	length := nondetRange(1, L)
	consecutive := nondetRange(0, 1) == 1
	al := symAlign(align.AMINOACIDS, n, L, printable)
	before := snapshot(al)
	cp, err := al.RandSubAlign(length, consecutive)
	verifAssert(err == nil, "valid length accepted")
	randIndependent(al, cp, before, n, L)
}

// H_C19_rand_sample: Sample(nb) leaves its input unchanged and returns an alignment that shares nothing with it.
// bounds: n<=3, L<=2, every valid nb 1..n, every outcome of the random permutation
// outside: n>3, L>2
func H_C19_rand_sample() {
	n := nondetRange(1, 3)
	L := nondetRange(1, 2)
	nb := nondetRange(1, n)
	al := symAlign(align.AMINOACIDS, n, L, printable)
	before := snapshot(al)
	cp, err := al.Sample(nb)
	verifAssert(err == nil, "valid sample size accepted")
	randIndependent(al, cp, before, n, L)
}
