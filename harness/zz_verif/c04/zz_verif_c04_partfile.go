//go:build verif

// Package c04: partition files (overlay-only package, exported API only).
//
// C04 quantifies over "partition maps including modulo/codon partitions": the map read from a
// partition file must be the one its text says. The interval semantics of PartitionSet.AddRange
// is the subject of H_C04_addrange* (package align); here the parser is compared with the
// harness's own reading of the text, applied through AddRange to a fresh set: every interval
// "a", "a-b", "a-b/m" of every line contributes AddRange(name, model, a-1, b-1, m) with b=a and
// m=1 when absent — in particular a "/m" never carries over to a later interval.
package c04

import (
	"strings"

	"github.com/evolbioinfo/goalign/align"
	"github.com/evolbioinfo/goalign/io/partition"
)

type vfInterval struct {
	a, b, m int // 1-based inclusive bounds and step as written (b, m defaulted)
	text    string
}

func vfDigit(lo, hi uint8) (int, string) {
	d := nondetByte()
	assume(d >= lo && d <= hi)
	return int(d - '0'), string([]byte{d})
}

// vfInterval: one interval in one of the three written forms, single symbolic digits.
func vfMakeInterval(maxd uint8, loShape, hiShape int) vfInterval {
	a, ta := vfDigit('1', maxd)
	switch nondetRange(loShape, hiShape) {
	case 0:
		return vfInterval{a, a, 1, ta}
	case 1:
		b, tb := vfDigit('1', maxd)
		return vfInterval{a, b, 1, ta + "-" + tb}
	}
	b, tb := vfDigit('1', maxd)
	m, tm := vfDigit('1', '3')
	return vfInterval{a, b, m, ta + "-" + tb + "/" + tm}
}

// H_C04_partition_file: the partition map parsed from a file is the one obtained by applying its intervals, as written, one after the other.
// bounds: alignment length 4; two lines ("M1,p1=I1,I2" and "M2,p2=I3"); I1 = "a-b/m", I2 = "a" or "a-b", I3 = "a", "a-b" or "a-b/m" (a plain interval after a modulo one, on the same and on the next line), symbolic single digits a,b in 1..4 and m in 1..3
// outside: more lines/intervals, longer alignments (thorough twin: length 6, every shape combination), multi-digit numbers (H_C03_partition_numbers covers their totality), blanks and comments
func H_C04_partition_file() {
	vfPartitionFile(4, vfMakeInterval('4', 2, 2), vfMakeInterval('4', 0, 1), vfMakeInterval('4', 0, 2))
}

// H_C04_partition_file_deep: as H_C04_partition_file for length 6 and all 27 combinations of the three written forms.
// bounds: alignment length 6, digits a,b in 1..6, m in 1..3, every interval in any of the three forms
//verif: tier=thorough
func H_C04_partition_file_deep() {
	vfPartitionFile(6, vfMakeInterval('6', 0, 2), vfMakeInterval('6', 0, 2), vfMakeInterval('6', 0, 2))
}

func vfPartitionFile(L int, i1, i2, i3 vfInterval) {
	in := "M1,p1=" + i1.text + "," + i2.text + "\nM2,p2=" + i3.text + "\n"
	got, err := partition.NewParser(strings.NewReader(in)).Parse(L)
	verifReach("parsed")
	ref := align.NewPartitionSet(L)
	var rerr error
	for k, iv := range []vfInterval{i1, i2, i3} {
		name, model := "p1", "M1"
		if k == 2 {
			name, model = "p2", "M2"
		}
		if rerr = ref.AddRange(name, model, iv.a-1, iv.b-1, iv.m); rerr != nil {
			break
		}
	}
	verifAssert((err == nil) == (rerr == nil), "the file is accepted exactly when its intervals, applied as written, are")
	if err == nil {
		verifReach("accepted")
		verifAssert(got != nil && got.AliLength() == L, "map over the declared length")
		for s := 0; s < L; s++ {
			verifAssert(got.Partition(s) == ref.Partition(s), "every site is in the partition the text puts it in")
		}
		verifAssert(got.NPartitions() == ref.NPartitions(), "same number of partitions")
	}
}
