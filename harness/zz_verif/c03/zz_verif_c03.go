//go:build verif

// Package c03: parser totality harnesses (overlay-only package, exported API only).
package c03

import (
	"strings"

	"github.com/evolbioinfo/goalign/align"
	"github.com/evolbioinfo/goalign/io/fasta"
)

// vfMutate returns tmpl with the byte at pos replaced by a symbolic ASCII byte (0..127).
func vfMutate(tmpl string, pos int) string {
	b := []byte(tmpl)
	c := nondetByte()
	assume(c < 0x80)
	b[pos] = c
	return string(b)
}

// vfFree returns a string of n symbolic ASCII bytes.
func vfFree(n int) string {
	b := make([]byte, n)
	for i := range b {
		b[i] = nondetByte()
		assume(b[i] < 0x80)
	}
	return string(b)
}

// vfWellFormed asserts the C03 post-condition for a successfully parsed alignment.
func vfWellFormed(al align.Alignment) {
	verifAssert(al != nil, "non-nil alignment on success")
	n := al.NbSequences()
	verifAssert(n >= 1, "success implies at least one sequence")
	L := al.Length()
	verifAssert(L >= 1, "success implies at least one column")
	for i := 0; i < n; i++ {
		s, ok := al.GetSequenceCharById(i)
		verifAssert(ok && len(s) == L, "rectangular")
		ni, _ := al.GetSequenceNameById(i)
		for j := 0; j < i; j++ {
			nj, _ := al.GetSequenceNameById(j)
			verifAssert(ni != nj, "names pairwise distinct")
		}
	}
}

const fastaTmpl = ">s1\nACGT\nAC\n>s2 x\nAC-TAC\n"

// H_C03_fasta_mutate1: every single-byte mutation of a valid FASTA file parses to an error or a well-formed alignment.
// bounds: template of 27 bytes, every position, replacement byte any of 0..127 (NUL included)
// outside: two simultaneous mutations, longer files, bytes >= 0x80
func H_C03_fasta_mutate1() {
	pos := nondetRange(0, len(fastaTmpl)-1)
	in := vfMutate(fastaTmpl, pos)
	al, err := fasta.NewParser(strings.NewReader(in)).Parse()
	verifReach("parsed")
	if err == nil {
		verifReach("accepted")
		vfWellFormed(al)
	}
}

// H_C03_fasta_truncate: every truncation of the template.
// bounds: all prefixes of the 27-byte template
func H_C03_fasta_truncate() {
	n := nondetRange(0, len(fastaTmpl))
	al, err := fasta.NewParser(strings.NewReader(fastaTmpl[:n])).Parse()
	verifReach("parsed")
	if err == nil {
		vfWellFormed(al)
	}
}

// H_C03_fasta_free: every ASCII input of up to 4 bytes.
// bounds: length 0..4, every byte 0..127
func H_C03_fasta_free() {
	n := nondetRange(0, 4)
	in := vfFree(n)
	al, err := fasta.NewParser(strings.NewReader(in)).Parse()
	verifReach("parsed")
	if err == nil {
		verifReach("accepted")
		vfWellFormed(al)
	}
}
