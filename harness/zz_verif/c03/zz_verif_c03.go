//go:build verif

// Package c03: parser totality harnesses (overlay-only package, exported API only).
//
// C03: for every byte string, every parser terminates promptly and either reports an
// explicit error or returns a well-formed result. Termination is checked through the
// engine's step budget (an exceeded budget is replayed natively under a watchdog), panics are
// reported by the engine as violations, and success is checked by vfWellFormed.
package c03

import (
	"strings"

	"github.com/evolbioinfo/goalign/align"
	"github.com/evolbioinfo/goalign/io/clustal"
	"github.com/evolbioinfo/goalign/io/fasta"
	"github.com/evolbioinfo/goalign/io/nexus"
	"github.com/evolbioinfo/goalign/io/partition"
	"github.com/evolbioinfo/goalign/io/phylip"
	"github.com/evolbioinfo/goalign/io/stockholm"
)

// vfMutate returns tmpl with the byte at pos replaced by a symbolic ASCII byte (0..127).
func vfMutate(tmpl string, pos int) string {
	b := []byte(tmpl)
	c := nondetByte()
	assume(c < 0x80)
	b[pos] = c
	return string(b)
}

// vfFree returns a string of n symbolic ASCII bytes.
func vfFree(n int) string {
	b := make([]byte, n)
	for i := range b {
		b[i] = nondetByte()
		assume(b[i] < 0x80)
	}
	return string(b)
}

// vfLines deletes (dup=false) or duplicates (dup=true) line k of tmpl.
func vfLines(tmpl string, k int, dup bool) string {
	ls := strings.SplitAfter(tmpl, "\n")
	var out []string
	for i, l := range ls {
		if i == k {
			if dup {
				out = append(out, l, l)
			}
			continue
		}
		out = append(out, l)
	}
	return strings.Join(out, "")
}

func vfNbLines(tmpl string) int { return len(strings.SplitAfter(tmpl, "\n")) }

// vfWellFormed asserts the C03 post-condition for a successfully parsed alignment.
func vfWellFormed(al align.Alignment) {
	verifAssert(al != nil, "non-nil alignment on success")
	n := al.NbSequences()
	verifAssert(n >= 1, "success implies at least one sequence")
	L := al.Length()
	verifAssert(L >= 1, "success implies at least one column")
	for i := 0; i < n; i++ {
		s, ok := al.GetSequenceCharById(i)
		verifAssert(ok && len(s) == L, "rectangular")
		ni, _ := al.GetSequenceNameById(i)
		for j := 0; j < i; j++ {
			nj, _ := al.GetSequenceNameById(j)
			verifAssert(ni != nj, "names pairwise distinct")
		}
	}
}

// vfPhylipDeclared reads the counts of a Phylip header line of the plain form
// blanks, digits, blanks, digits, blanks, newline (1..4 digits each). ok is false for any other
// first line: the check below then claims nothing.
func vfPhylipDeclared(in string) (n, L int, ok bool) {
	i := 0
	blanks := func() {
		for i < len(in) && (in[i] == ' ' || in[i] == '\t') {
			i++
		}
	}
	number := func() (int, bool) {
		v, d := 0, 0
		for i < len(in) && in[i] >= '0' && in[i] <= '9' {
			v = v*10 + int(in[i]-'0')
			i++
			d++
		}
		return v, d >= 1 && d <= 4
	}
	blanks()
	n, ok1 := number()
	j := i
	blanks()
	if i == j {
		return 0, 0, false
	}
	L, ok2 := number()
	blanks()
	if !ok1 || !ok2 || i >= len(in) || in[i] != '\n' {
		return 0, 0, false
	}
	return n, L, true
}

// vfMatchesPhylipHeader: a successfully parsed alignment does not contradict the counts declared
// in the header of its file.
func vfMatchesPhylipHeader(al align.Alignment, in string) {
	if n, L, ok := vfPhylipDeclared(in); ok {
		verifReach("header counts checked")
		verifAssert(al.NbSequences() == n, "number of sequences = count declared in the header")
		verifAssert(al.Length() == L, "length = length declared in the header")
	}
}

func vfWellFormedBag(sb align.SeqBag) {
	verifAssert(sb != nil, "non-nil sequence set on success")
	n := sb.NbSequences()
	verifAssert(n >= 1, "success implies at least one sequence")
	for i := 0; i < n; i++ {
		s, ok := sb.GetSequenceCharById(i)
		verifAssert(ok && len(s) >= 1, "no empty sequence")
		ni, _ := sb.GetSequenceNameById(i)
		for j := 0; j < i; j++ {
			nj, _ := sb.GetSequenceNameById(j)
			verifAssert(ni != nj, "names pairwise distinct")
		}
	}
}

// ------------------------------------------------------------------ drivers per format

const (
	fFasta = iota
	fFastaUnalign
	fPhylip
	fPhylipStrict
	fNexus
	fClustal
	fStockholm
)

func vfParse(format int, in string) {
	// The Phylip/Clustal lexers end the process with a message on a lone carriage return
	// (io.ExitWithMessage): an explicit, message-bearing error exit is accepted as "reports an
	// explicit error"; what C03 excludes is a panic, a hang or a malformed success.
	verifAllowExit()
	switch format {
	case fFasta:
		al, err := fasta.NewParser(strings.NewReader(in)).Parse()
		verifReach("parsed")
		if err == nil {
			vfWellFormed(al)
		}
	case fFastaUnalign:
		sb, err := fasta.NewParser(strings.NewReader(in)).ParseUnalign()
		verifReach("parsed")
		if err == nil {
			vfWellFormedBag(sb)
		}
	case fPhylip, fPhylipStrict:
		al, err := phylip.NewParser(strings.NewReader(in), format == fPhylipStrict).Parse()
		verifReach("parsed")
		if err == nil && al != nil { // (nil, nil) is the documented end-of-stream marker
			vfWellFormed(al)
			vfMatchesPhylipHeader(al, in)
		}
	case fNexus:
		al, err := nexus.NewParser(strings.NewReader(in)).Parse()
		verifReach("parsed")
		if err == nil {
			vfWellFormed(al)
		}
	case fClustal:
		al, err := clustal.NewParser(strings.NewReader(in)).Parse()
		verifReach("parsed")
		if err == nil {
			vfWellFormed(al)
		}
	case fStockholm:
		al, err := stockholm.NewParser(strings.NewReader(in)).Parse()
		verifReach("parsed")
		if err == nil {
			vfWellFormed(al)
		}
	}
}

// Templates: output of goalign's own writers for a 2x12 alignment (and a multi-block one), plus
// hand-written variants with comments / markup.
const (
	tFasta     = ">s1\nACGTACGTAC-T\n>seq2\nACGAACGTTCGT\n"
	tPhylip    = "   2   12\ns1  ACGTACGTAC -T\nseq2  ACGAACGTTC GT\n"
	tPhylipS   = "   2   12\ns1        ACGTACGTAC -T\nseq2      ACGAACGTTC GT\n"
	tPhylipBlk = "   2   25\na  ACGTACGTAC GTACGTACGT\nb  ACGTACGTAC GTACGTACGT\n\n   ACGTA\n   ACGTA\n"
	tNexus     = "#NEXUS\nbegin data;\ndimensions ntax=2 nchar=12;\nformat datatype=dna;\nmatrix\ns1 ACGTACGTAC-T\nseq2 ACGAACGTTCGT\n;\nend;\n"
	tNexusCmt  = "#NEXUS\n[c]\nbegin taxa;\ndimensions ntax=2;\ntaxlabels a b;\nend;\nbegin data;\ndimensions ntax=2 nchar=3;\nformat datatype=dna gap=- missing=?;\nmatrix\na AC-\nb A?G\n;\nend;\n"
	tClustal   = "CLUSTAL W (goalign version Unset)\n\ns1     ACGTACGTAC-T 12\nseq2   ACGAACGTTCGT 12\n       *** **** * *\n"
	tClustalBlk = "CLUSTAL W (x)\n\ns1     ACGTA 5\nseq2   ACGAA 5\n       *** *\n\ns1     CG-T 9\nseq2   CGTT 9\n       ** *\n"
	tStockholm = "# STOCKHOLM 1.0\n#=GF ID   Goalign generated alignment\ns1\tACGTACGTAC-T\nseq2\tACGAACGTTCGT\n//"
	tStockMark = "# STOCKHOLM 1.0\n#=GF ID x\n#=GS a AC 1\na AC-\n#=GR a SS ...\nb ACG\n#=GC SS_cons ...\n//\n"
)

func vfTemplate(format, variant int) string {
	switch format {
	case fFasta, fFastaUnalign:
		return tFasta
	case fPhylip:
		if variant == 1 {
			return tPhylipBlk
		}
		return tPhylip
	case fPhylipStrict:
		return tPhylipS
	case fNexus:
		if variant == 1 {
			return tNexusCmt
		}
		return tNexus
	case fClustal:
		if variant == 1 {
			return tClustalBlk
		}
		return tClustal
	case fStockholm:
		if variant == 1 {
			return tStockMark
		}
		return tStockholm
	}
	return ""
}

func vfNbVariants(format int) int {
	switch format {
	case fPhylip, fNexus, fStockholm, fClustal:
		return 2
	}
	return 1
}

// vfRunMutate: one symbolic ASCII byte at every position of every template of the format.
func vfRunMutate(format int) {
	tmpl := vfTemplate(format, nondetRange(0, vfNbVariants(format)-1))
	pos := nondetRange(0, len(tmpl)-1)
	vfParse(format, vfMutate(tmpl, pos))
}

// vfRunTruncate: every prefix of every template.
func vfRunTruncate(format int) {
	tmpl := vfTemplate(format, nondetRange(0, vfNbVariants(format)-1))
	n := nondetRange(0, len(tmpl))
	vfParse(format, tmpl[:n])
}

// vfRunLines: every single line deleted or duplicated.
func vfRunLines(format int) {
	tmpl := vfTemplate(format, nondetRange(0, vfNbVariants(format)-1))
	k := nondetRange(0, vfNbLines(tmpl)-1)
	dup := nondetRange(0, 1) == 1
	vfParse(format, vfLines(tmpl, k, dup))
}

// H_C03_fasta_mutate1: single-byte mutations of a valid FASTA file.
// bounds: 36-byte template, every position, replacement byte any of 0..127 (NUL = the lexers' EOF sentinel included)
// outside: two simultaneous mutations, longer files, bytes >= 0x80
//verif: maxsteps=3000000
func H_C03_fasta_mutate1() { vfRunMutate(fFasta) }

// H_C03_fastaunalign_mutate1: same through ParseUnalign.
// bounds: as H_C03_fasta_mutate1
//verif: maxsteps=3000000
func H_C03_fastaunalign_mutate1() { vfRunMutate(fFastaUnalign) }

// H_C03_phylip_mutate1: single-byte mutations of relaxed Phylip files (one-block and interleaved).
// bounds: 2 templates (46 and 66 bytes), every position, byte 0..127
// outside: two simultaneous mutations
//verif: maxsteps=3000000
func H_C03_phylip_mutate1() { vfRunMutate(fPhylip) }

// H_C03_phylipstrict_mutate1: single-byte mutations of a strict Phylip file.
// bounds: 1 template, every position, byte 0..127
//verif: maxsteps=3000000
func H_C03_phylipstrict_mutate1() { vfRunMutate(fPhylipStrict) }

// H_C03_nexus_mutate1: single-byte mutations of Nexus files (data block; taxa block + comment).
// bounds: 2 templates (~110 and ~160 bytes), every position, byte 0..127
//verif: maxsteps=3000000
func H_C03_nexus_mutate1() { vfRunMutate(fNexus) }

// H_C03_clustal_mutate1: single-byte mutations of a Clustal file.
// bounds: 1 template, every position, byte 0..127
//verif: maxsteps=3000000
func H_C03_clustal_mutate1() { vfRunMutate(fClustal) }

// H_C03_stockholm_mutate1: single-byte mutations of Stockholm files (plain; with #=GS/#=GR/#=GC markup).
// bounds: 2 templates, every position, byte 0..127
//verif: maxsteps=3000000
func H_C03_stockholm_mutate1() { vfRunMutate(fStockholm) }

// H_C03_truncate: every truncation of every template of every format.
// bounds: 7 parsers x their templates x every prefix length
//verif: maxsteps=3000000
func H_C03_truncate() { vfRunTruncate(nondetRange(fFasta, fStockholm)) }

// H_C03_lines: every single line deleted or duplicated, every template of every format.
// bounds: 7 parsers x their templates x every line x {delete, duplicate}
//verif: maxsteps=3000000
func H_C03_lines() { vfRunLines(nondetRange(fFasta, fStockholm)) }

// vfTokens: the template cut into maximal runs of blank (space, tab, newline) and non-blank bytes.
func vfTokens(tmpl string) []string {
	var out []string
	i := 0
	for i < len(tmpl) {
		j := i
		blank := tmpl[i] == ' ' || tmpl[i] == '\t' || tmpl[i] == '\n'
		for j < len(tmpl) && (tmpl[j] == ' ' || tmpl[j] == '\t' || tmpl[j] == '\n') == blank {
			j++
		}
		out = append(out, tmpl[i:j])
		i = j
	}
	return out
}

// vfRunTokens: token splices: one token (word or blank run) deleted, duplicated, or moved to
// the place of another one.
func vfRunTokens(format int) {
	tmpl := vfTemplate(format, nondetRange(0, vfNbVariants(format)-1))
	toks := vfTokens(tmpl)
	k := nondetRange(0, len(toks)-1)
	var out []string
	switch nondetRange(0, 2) {
	case 0: // delete
		out = append(append(out, toks[:k]...), toks[k+1:]...)
	case 1: // duplicate
		out = append(append(append(out, toks[:k+1]...), toks[k]), toks[k+1:]...)
	default: // overwrite token k by a copy of token m
		m := nondetRange(0, len(toks)-1)
		out = append(out, toks...)
		out[k] = toks[m]
	}
	vfParse(format, strings.Join(out, ""))
}

// H_C03_tokens_fasta_phylip: token splices of the FASTA and Phylip templates.
// bounds: every template of FASTA (both parsers), Phylip relaxed and strict; every token (word or blank run) deleted, duplicated, or replaced by a copy of any other token
//verif: maxsteps=3000000
func H_C03_tokens_fasta_phylip() { vfRunTokens(nondetRange(fFasta, fPhylipStrict)) }

// H_C03_tokens_other: token splices of the Nexus, Clustal and Stockholm templates.
// bounds: every template of the three formats; every token deleted, duplicated, or replaced by a copy of any other token
//verif: maxsteps=3000000
func H_C03_tokens_other() { vfRunTokens(nondetRange(fNexus, fStockholm)) }

// vfBody returns n symbolic bytes, each one of the listed characters.
func vfBody(n int, set string) string {
	b := make([]byte, n)
	for i := range b {
		c := nondetByte()
		ok := false
		for k := 0; k < len(set); k++ {
			ok = ok || c == set[k]
		}
		assume(ok)
		b[i] = c
	}
	return string(b)
}

// H_C03_body_free: a valid frame around a free body: the sequence block of each format filled with arbitrary short text over the characters that matter there (a name letter, residues, blank, newline, the format's own punctuation).
// bounds: Nexus "matrix ... ;" with and without a DIMENSIONS line, Clustal after the header line, Stockholm between header and "//", Phylip after a "2 2" header; body of 0..5 bytes over {a, C, -, space, newline} plus ';' (Nexus), '*' (Clustal), '#' and '/' (Stockholm)
// outside: longer bodies, other characters (covered one at a time by the *_mutate1 harnesses)
//verif: maxsteps=3000000
func H_C03_body_free() {
	n := nondetRange(0, 5)
	switch nondetRange(0, 4) {
	case 0:
		vfParse(fNexus, "#NEXUS\nbegin data;\ndimensions ntax=2 nchar=2;\nformat datatype=dna;\nmatrix\n"+vfBody(n, "aC- \n;")+"\n;\nend;\n")
	case 1:
		vfParse(fNexus, "#NEXUS\nbegin data;\nmatrix\n"+vfBody(n, "aC- \n;")+"\n;\nend;\n")
	case 2:
		vfParse(fClustal, "CLUSTAL W (x)\n\n"+vfBody(n, "aC- \n*"))
	case 3:
		vfParse(fStockholm, "# STOCKHOLM 1.0\n"+vfBody(n, "aC- \n#/")+"\n//\n")
	default:
		vfParse(nondetRange(fPhylip, fPhylipStrict), "2 2\n"+vfBody(n, "aC- \n"))
	}
}

// H_C03_nexus_symbols: a Nexus file that declares its own gap / missing / match symbol and uses it in the rows: success never contradicts the declared NTAX / NCHAR, whatever the byte length of the symbol.
// bounds: 2 rows of 3 residues with the symbol once per row; the symbol one of '-', '~', '%', a lone byte 0x80 (read as U+FFFD), the 2-byte character U+00A7 and the 3-byte character U+20AC (enumerated); NCHAR a symbolic digit 1..9; key in {gap, missing, matchchar}
// outside: other symbols (symbolic bytes >= 0x80 reach rune decoding the engine does not execute symbolically), longer rows
//verif: maxsteps=3000000
func H_C03_nexus_symbols() {
	key := []string{"gap", "missing", "matchchar"}[nondetRange(0, 2)]
	sym := []string{"-", "~", "%", "\x80", "\xc2\xa7", "\xe2\x82\xac"}[nondetRange(0, 5)]
	d := nondetByte()
	assume(d >= '1' && d <= '9')
	x := sym
	in := "#NEXUS\nbegin data;\ndimensions ntax=2 nchar=" + string([]byte{d}) + ";\nformat datatype=dna " + key + "=" + x + ";\nmatrix\na AC" + x + "\nb A" + x + "G\n;\nend;\n"
	verifAllowExit()
	al, err := nexus.NewParser(strings.NewReader(in)).Parse()
	verifReach("parsed")
	if err == nil {
		verifReach("accepted")
		vfWellFormed(al)
		verifAssert(al.NbSequences() == 2, "number of sequences = NTAX declared in the file")
		verifAssert(al.Length() == int(d-'0'), "length = NCHAR declared in the file")
	}
}

// H_C03_fasta_free: every ASCII input of up to 4 bytes through the FASTA parsers.
// bounds: length 0..4 (quick), every byte 0..127
// outside: longer inputs
//verif: maxsteps=3000000
func H_C03_fasta_free() {
	n := nondetRange(0, 4)
	vfParse(nondetRange(fFasta, fFastaUnalign), vfFree(n))
}

// H_C03_phylip_free: every ASCII input of up to 4 bytes through both Phylip parsers.
// bounds: length 0..4, every byte 0..127
//verif: maxsteps=3000000
func H_C03_phylip_free() {
	n := nondetRange(0, 4)
	vfParse(nondetRange(fPhylip, fPhylipStrict), vfFree(n))
}

// H_C03_other_free: every ASCII input of up to 3 bytes through Nexus, Clustal and Stockholm.
// bounds: length 0..3, every byte 0..127
//verif: maxsteps=3000000
func H_C03_other_free() {
	n := nondetRange(0, 3)
	vfParse(nondetRange(fNexus, fStockholm), vfFree(n))
}

// H_C03_suffix_free: a valid header followed by up to 3 arbitrary bytes (unterminated comments,
// markup at end of file, truncated blocks).
// bounds: fixed prefixes "#NEXUS\n", "#NEXUS\nbegin data;\n", "# STOCKHOLM 1.0\n", "CLUSTAL W\n\n", then 0..3 symbolic bytes 0..127
//verif: maxsteps=3000000
func H_C03_suffix_free() {
	k := nondetRange(0, 3)
	n := nondetRange(0, 3)
	switch k {
	case 0:
		vfParse(fNexus, "#NEXUS\n"+vfFree(n))
	case 1:
		vfParse(fNexus, "#NEXUS\nbegin data;\n"+vfFree(n))
	case 2:
		vfParse(fStockholm, "# STOCKHOLM 1.0\n"+vfFree(n))
	case 3:
		vfParse(fClustal, "CLUSTAL W\n\n"+vfFree(n))
	}
}

// vfNumeral returns a decimal numeral: one symbolic digit, two symbolic digits, or one of a
// list of concrete boundary values (symbolic 19-digit numerals make strconv's overflow
// arithmetic intractable for the solver; the concrete list covers the magnitudes that matter:
// allocation-size, int32, int64 overflow).
func vfNumeral() string {
	k := nondetRange(0, 7)
	switch k {
	case 0:
		d := nondetByte()
		assume(d >= '0' && d <= '9')
		return string([]byte{d})
	case 1:
		d1, d2 := nondetByte(), nondetByte()
		assume(d1 >= '0' && d1 <= '9' && d2 >= '0' && d2 <= '9')
		return string([]byte{d1, d2})
	case 2:
		return "3000000000"
	case 3:
		return "9000000000000000000"
	case 4:
		return "9223372036854775807"
	case 5:
		return "9223372036854775808"
	case 6:
		return "99999999999999999999"
	}
	return "4294967296"
}

// H_C03_phylip_header: header numerals replaced by symbolic decimal strings.
// bounds: number of sequences and length each: 1 symbolic digit, 2 symbolic digits, or one of 3000000000, 9000000000000000000, 2^63-1, 2^63, 99999999999999999999, 2^32; body of the 2x12 template
// outside: other numerals
//verif: maxsteps=3000000
func H_C03_phylip_header() {
	strict := nondetRange(0, 1) == 1
	in := "   " + vfNumeral() + "   " + vfNumeral() + "\ns1  ACGTACGTAC -T\nseq2  ACGAACGTTC GT\n"
	al, err := phylip.NewParser(strings.NewReader(in), strict).Parse()
	verifReach("parsed")
	if err == nil && al != nil {
		vfWellFormed(al)
	}
}

// H_C03_phylip_multi: ParseMultiple on a stream of two alignments with one mutated byte always
// closes the channel and reports well-formed alignments or an error.
// bounds: stream = template twice (92 bytes), one symbolic byte at every position
//verif: maxsteps=3000000
func H_C03_phylip_multi() {
	tmpl := tPhylip + tPhylip
	pos := nondetRange(0, len(tmpl)-1)
	in := vfMutate(tmpl, pos)
	verifAllowExit() // see vfParse: a message-bearing exit on a lone carriage return is an explicit error
	ch := &align.AlignChannel{Achan: make(chan align.Alignment, 15)}
	phylip.NewParser(strings.NewReader(in), false).ParseMultiple(ch)
	verifReach("returned")
	cnt := 0
	for al := range ch.Achan {
		vfWellFormed(al)
		cnt++
	}
	verifAssert(cnt <= 2, "no more alignments than written")
}

// vfPartitionOK: the partition map covers exactly the declared length with in-range codes.
func vfPartitionOK(ps *align.PartitionSet, L int) {
	verifAssert(ps != nil, "non-nil partition set on success")
	verifAssert(ps.AliLength() == L, "map over the declared length")
	// (a file whose only partition has an empty definition, e.g. "M1,p1=" cut short, yields a map with
	// every site unassigned: the property only asks for a map over the declared length)
	np := ps.NPartitions()
	for p := 0; p < L; p++ {
		c := ps.Partition(p)
		verifAssert(c >= -1 && c < np, "partition code in range")
	}
}

const tPartition = "M1,p1=1-3\nM2,p2=4-6/2,5-6/2\n"

// H_C03_partition_mutate1: single-byte mutations of a partition file.
// bounds: 28-byte template, every position, byte 0..127, declared length 6
//verif: maxsteps=3000000
func H_C03_partition_mutate1() {
	pos := nondetRange(0, len(tPartition)-1)
	ps, err := partition.NewParser(strings.NewReader(vfMutate(tPartition, pos))).Parse(6)
	verifReach("parsed")
	if err == nil {
		vfPartitionOK(ps, 6)
	}
}

// H_C03_partition_numbers: interval bounds and modulo replaced by symbolic decimal strings.
// bounds: "M,p=<a>-<b>/<m>" with a,b,m each: 1 symbolic digit or one of 3000000000, 2^63-1, 99999999999999999999; declared length 4
//verif: maxsteps=3000000
func H_C03_partition_numbers() {
	num := func() string {
		switch nondetRange(0, 3) {
		case 0:
			d := nondetByte()
			assume(d >= '0' && d <= '9')
			return string([]byte{d})
		case 1:
			return "3000000000"
		case 2:
			return "9223372036854775807"
		}
		return "99999999999999999999"
	}
	in := "M,p=" + num() + "-" + num() + "/" + num() + "\n"
	ps, err := partition.NewParser(strings.NewReader(in)).Parse(4)
	verifReach("parsed")
	if err == nil {
		vfPartitionOK(ps, 4)
	}
}

// H_C03_addrange: PartitionSet.AddRange with arbitrary integers never panics and never loops.
// bounds: alignment length 1..3, start/end/modulo arbitrary 64-bit integers
//verif: maxsteps=3000000
func H_C03_addrange() {
	L := nondetRange(1, 3)
	ps := align.NewPartitionSet(L)
	start, end, modulo := nondetInt(), nondetInt(), nondetInt()
	err := ps.AddRange("p", "M", start, end, modulo)
	verifReach("returned")
	if err == nil {
		for p := 0; p < L; p++ {
			c := ps.Partition(p)
			verifAssert(c >= -1 && c < 1, "partition code in range")
		}
	}
}
