//go:build verif

// Package c02: format round-trip harnesses (overlay-only package, exported API only).
//
// C02: for every alignment whose names and residues are representable in a format, writing it
// with goalign's writer and parsing the output back with goalign's parser yields the same
// sequence names in the same order, the same residues, the same length and the same detected
// alphabet. The .gz/.xz file layer (GetReader/OpenWriteFile) is not applicable (file system and
// compression libraries cannot be encoded); everything here goes writer -> string -> parser.
//
// Alphabet modes. goalign's detection (align.DetectAlphabet) knows three kinds of letters:
// letters that can be both (ACBRGDKSHMNVXTWY), nucleotide-only letters (U O) and protein-only
// letters (Q E I L F P Z); J is neither. An alignment has a well-defined alphabet iff all its
// letters are in the first two groups (NUCLEOTIDS) or all are in the first and third group with
// at least one of the third (AMINOACIDS). The harnesses quantify over exactly these two families
// (mode vfNt / vfAa) in both letter cases; the symbols - * ? count as "both".
package c02

import (
	"bufio"
	"io"
	"strings"

	"github.com/evolbioinfo/goalign/align"
	"github.com/evolbioinfo/goalign/io/clustal"
	"github.com/evolbioinfo/goalign/io/fasta"
	"github.com/evolbioinfo/goalign/io/nexus"
	"github.com/evolbioinfo/goalign/io/phylip"
	"github.com/evolbioinfo/goalign/io/stockholm"
	"github.com/evolbioinfo/goalign/io/utils"
)

// ------------------------------------------------------------------ residue classes

const (
	vfNt = 0 // nucleotide alignment: every letter is a "both" or a nucleotide-only letter
	vfAa = 1 // protein alignment: every letter is a "both" or a protein-only letter, at least one protein-only
)

func vfUp(c uint8) uint8 {
	if c >= 'a' && c <= 'z' {
		return c - 32
	}
	return c
}

// vfBothLetter: IUPAC letters that are nucleotide and amino-acid codes at the same time.
func vfBothLetter(c uint8) bool {
	switch vfUp(c) {
	case 'A', 'C', 'B', 'R', 'G', 'D', 'K', 'S', 'H', 'M', 'N', 'V', 'X', 'T', 'W', 'Y':
		return true
	}
	return false
}

func vfNtOnly(c uint8) bool {
	u := vfUp(c)
	return u == 'U' || u == 'O'
}

func vfAaOnly(c uint8) bool {
	switch vfUp(c) {
	case 'Q', 'E', 'I', 'L', 'F', 'P', 'Z':
		return true
	}
	return false
}

// vfSymbol: the non-letter residues of the property statement.
func vfSymbol(c uint8) bool { return c == '-' || c == '*' || c == '?' }

// vfResidueOK: is c a residue of an alignment of the given mode (syms: symbols allowed too).
func vfResidueOK(c uint8, mode int, syms bool) bool {
	if syms && vfSymbol(c) {
		return true
	}
	if vfBothLetter(c) {
		return true
	}
	if mode == vfNt {
		return vfNtOnly(c)
	}
	return vfAaOnly(c)
}

// ------------------------------------------------------------------ names

// vfPool: plain, numeric, mixed case with punctuation, exactly 10 characters (the strict Phylip limit).
var vfPool = []string{"s1", "12", "Seq_B", "Name.10chr"}

// vfNames returns n distinct names from the pool, starting at rot.
func vfNames(n, rot int) []string {
	out := make([]string, n)
	for i := range out {
		out[i] = vfPool[(rot+i)%len(vfPool)]
	}
	return out
}

// ------------------------------------------------------------------ alignment under test

type vfCase struct {
	al    align.Alignment
	names []string
	orig  [][]uint8
	L     int
	mode  int
}

// Letter-case policies. The Nexus, Clustal and Stockholm lexers call strings.ToUpper on every
// token, whose copy loop branches on the case of every byte: a token of L mixed-case symbolic
// letters costs 2^L paths. Long rows are therefore case-uniform per row (both cases occur, in
// different rows / variants); mixed case inside a row is checked on short rows.
const (
	csMixed = 0 // every residue in either case
	csUpper = 1 // row i upper case for even i, lower case for odd i
	csLower = 2 // row i lower case for even i, upper case for odd i
)

// vfBuild builds an n x L alignment with symbolic residues of the given mode. In protein mode the
// residue (0,0) is a protein-only letter (a fixed position keeps every assumption over one byte,
// which the engine decides without the solver); the alphabet is set by construction and
// cross-checked against goalign's own detection in vfSame.
func vfBuild(n, L, mode int, syms bool, rot, cs int) vfCase {
	return vfBuildPin(n, L, mode, syms, rot, cs, false)
}

// vfBuildPin: with pin, residue (0,0) of a nucleotide alignment is a nucleotide-only letter (U or O),
// which makes goalign's alphabet detection take one path instead of forking on "could also be
// protein" (at every residue in align.DetectAlphabet(string), used by the Clustal parser).
func vfBuildPin(n, L, mode int, syms bool, rot, cs int, pin bool) vfCase {
	names := vfNames(n, rot)
	var al align.Alignment
	if mode == vfNt {
		al = align.NewAlign(align.NUCLEOTIDS)
	} else {
		al = align.NewAlign(align.AMINOACIDS)
	}
	orig := make([][]uint8, n)
	for i := 0; i < n; i++ {
		s := make([]uint8, L)
		for j := range s {
			c := nondetByte()
			if mode == vfAa && i == 0 && j == 0 {
				assume(vfAaOnly(c))
			} else if pin && mode == vfNt && i == 0 && j == 0 {
				assume(vfNtOnly(c))
			} else {
				assume(vfResidueOK(c, mode, syms))
			}
			if cs != csMixed {
				if (i+cs)%2 == 1 {
					assume(c < 'a' || c > 'z')
				} else {
					assume(c < 'A' || c > 'Z')
				}
			}
			s[j] = c
		}
		orig[i] = make([]uint8, L)
		copy(orig[i], s)
		if err := al.AddSequenceChar(names[i], s, ""); err != nil {
			panic("harness: cannot build alignment: " + err.Error())
		}
	}
	return vfCase{al: al, names: names, orig: orig, L: L, mode: mode}
}

// vfSame asserts the C02 post-condition: got is the alignment that was written.
func vfSame(c vfCase, got align.Alignment, err error) {
	verifAssert(err == nil, "parsing the writer's output succeeds")
	if err != nil {
		return
	}
	verifAssert(got != nil, "parsing the writer's output yields an alignment")
	if got == nil {
		return
	}
	verifAssert(got.NbSequences() == len(c.names), "same number of rows")
	verifAssert(got.Length() == c.L, "same length")
	for i := range c.names {
		name, ok := got.GetSequenceNameById(i)
		verifAssert(ok && name == c.names[i], "same names in the same order")
		s, ok2 := got.GetSequenceCharById(i)
		verifAssert(ok2 && len(s) == c.L, "same row length")
		if !ok2 || len(s) != c.L {
			return
		}
		same := true
		for j := 0; j < c.L; j++ {
			if s[j] != c.orig[i][j] {
				same = false
			}
		}
		verifAssert(same, "same residues")
	}
	verifAssert(got.Alphabet() == c.al.Alphabet(), "same detected alphabet")
	// cross-check: the alphabet set by construction is the one goalign detects on the original
	if c.mode < 0 {
		return
	}
	c.al.AutoAlphabet()
	if c.mode == vfNt {
		verifAssert(c.al.Alphabet() == align.NUCLEOTIDS, "harness: nucleotide mode is detected as nucleotides")
	} else {
		verifAssert(c.al.Alphabet() == align.AMINOACIDS, "harness: protein mode is detected as amino acids")
	}
}

func vfReader(w string) io.Reader { return strings.NewReader(w) }

// vfShape: rows x columns of one case.
type vfShape struct{ n, L int }

// vfChoose picks a shape and its variant. Short rows (L <= 11) are run in every combination of
// alphabet family (and case policy when cased); long rows in one combination derived from the
// shape (unless full), because the cost of a case grows with (n*L)^2 while family and case do not
// interact with line wrapping; the long nucleotide cases also pin residue (0,0) to a nucleotide-only
// letter (vfBuildPin). The name rotation is derived from the shape.
func vfChoose(shapes []vfShape, cased, full bool) (n, L, mode, rot, cs int) {
	sh := shapes[nondetRange(0, len(shapes)-1)]
	n, L = sh.n, sh.L
	rot = (n + L) % len(vfPool)
	if L <= 11 || full {
		mode = nondetRange(vfNt, vfAa)
		if cased {
			cs = nondetRange(csUpper, csLower)
		}
	} else {
		mode = (n + L) % 2
		if cased {
			cs = csUpper + L%2
		}
	}
	return
}

// vfThorough: shapes of the thorough tier: every length of Ls with 1..3 rows up to 11 columns,
// 1..2 rows up to 61 columns, one row beyond (the cost of a case grows with (n*L)^2, and with
// symbolic symbols every '-'/'*'/'?' position forks in the lexers, so the thorough twins use
// symbols while n*L <= 6 and letters beyond: every residue that may be a symbol doubles the
// number of paths); rows from minn. (The first
// version allowed 3 rows up to 61 and 2 up to 81 columns: the Stockholm twin alone passed 30 000
// paths in 45 minutes.)
func vfThorough(minn int, Ls []int) []vfShape {
	var out []vfShape
	for _, L := range Ls {
		maxn := 3
		if L > 11 {
			maxn = 2
		}
		if L > 61 {
			maxn = 1
		}
		if maxn < minn {
			maxn = minn
		}
		for n := minn; n <= maxn; n++ {
			out = append(out, vfShape{n, L})
		}
	}
	return out
}

func vfPick(list []int) int { return list[nondetRange(0, len(list)-1)] }

var vfFullL = []int{1, 2, 3, 9, 10, 11, 49, 50, 51, 59, 60, 61, 79, 80, 81, 119, 120, 121}

// ------------------------------------------------------------------ FASTA

func vfFasta(shapes []vfShape, syms, full bool) {
	n, L, mode, rot, _ := vfChoose(shapes, false, full)
	c := vfBuildPin(n, L, mode, syms && (!full || n*L <= 6), rot, csMixed, L > 11 && !full)
	w := fasta.WriteAlignment(c.al)
	got, err := fasta.NewParser(vfReader(w)).Parse()
	verifReach("fasta round trip")
	vfSame(c, got, err)
}

// H_C02_fasta: FASTA writer -> parser is the identity (letters only; lines wrap at 80).
// bounds: shapes n x L in {1x1, 2x1, 2x2, 1x79, 1x80, 2x80, 1x81, 2x81}; residues = any letter of the nucleotide family or of the protein family (see package comment) in either case at every position; short shapes (L <= 11) in both families, long ones in one family with, for nucleotides, residue (0,0) = U or O; names from the pool {s1,12,Seq_B,Name.10chr}
// outside: other lengths (thorough twin), symbols - * ? (H_C02_fasta_syms), names outside the pool (H_C02_names_*), alignments mixing nucleotide-only and protein-only letters (no well-defined alphabet)
func H_C02_fasta() {
	vfFasta([]vfShape{{1, 1}, {2, 1}, {2, 2}, {1, 79}, {1, 80}, {2, 80}, {1, 81}, {2, 81}}, false, false)
}

// H_C02_fasta_syms: same with the symbols - * ? allowed at every position.
// bounds: shapes {1x1, 2x2, 1x81}; residues = letters of the family or - * ?
// outside: other lengths
func H_C02_fasta_syms() { vfFasta([]vfShape{{1, 1}, {2, 2}, {1, 81}}, true, false) }

// H_C02_fasta_thorough: full length list and three rows.
// bounds: L in {1,2,3,9,10,11,49,50,51,59,60,61,79,80,81,119,120,121,160,161} with n in 1..3 (L<=11), 1..2 (L<=61), 1 (beyond); letters, and symbols for n*L<=6; both families
// outside: L > 161, n > 3
//verif: tier=thorough
func H_C02_fasta_thorough() {
	vfFasta(vfThorough(1, append(append([]int{}, vfFullL...), 160, 161)), true, true)
}

// ------------------------------------------------------------------ Phylip

// vfPhylip: opts is the list of writer option combinations (bit 0 strict, bit 1 oneline, bit 2 noblock);
// the parser is given the same strictness as the writer.
func vfPhylip(shapes []vfShape, syms, full bool, opts []int) {
	n, L, mode, rot, _ := vfChoose(shapes, false, full)
	opt := vfPick(opts)
	strict, oneline, noblock := opt&1 != 0, opt&2 != 0, opt&4 != 0
	// every block of 10 that starts with '-' forks in the lexer (strconv.ParseInt's sign path):
	// symbols only in short rows
	c := vfBuildPin(n, L, mode, syms && L <= 11, rot, csMixed, L > 11 && !full)
	w := phylip.WriteAlignment(c.al, strict, oneline, noblock)
	got, err := phylip.NewParser(vfReader(w), strict).Parse()
	verifReach("phylip round trip")
	vfSame(c, got, err)
}

var vfPhylipShapes = []vfShape{{1, 1}, {2, 1}, {2, 10}, {2, 11}, {1, 60}, {2, 60}, {1, 61}, {2, 61}}

// H_C02_phylip_relaxed: relaxed Phylip (name, two blanks, sequence), the 4 oneline/noblock combinations.
// bounds: shapes {1x1, 2x1, 2x10, 2x11, 1x60, 2x60, 1x61, 2x61} (blocks of 10, lines of 60); letters of either family in either case; writer options strict=false x oneline x noblock, parser strict=false
// outside: other lengths (thorough twin), symbols (H_C02_phylip_syms), names with blanks (not representable)
func H_C02_phylip_relaxed() { vfPhylip(vfPhylipShapes, false, false, []int{0, 2, 4, 6}) }

// H_C02_phylip_strict: strict Phylip (names padded/cut to 10 columns), the 4 oneline/noblock combinations.
// bounds: same shapes; pool names are <= 10 characters, one is exactly 10; writer strict=true x oneline x noblock, parser strict=true
// outside: names longer than 10 characters (truncated by design, not representable), other lengths
func H_C02_phylip_strict() { vfPhylip(vfPhylipShapes, false, false, []int{1, 3, 5, 7}) }

// H_C02_phylip_syms: symbols - * ? allowed (a block that starts with '-' takes strconv.ParseInt's sign path in the lexer).
// bounds: shapes {1x1, 2x2, 1x11}; letters or - * ?; all 8 option combinations
// outside: longer rows with symbols
func H_C02_phylip_syms() {
	vfPhylip([]vfShape{{1, 1}, {2, 2}, {1, 11}}, true, false, []int{0, 1, 2, 3, 4, 5, 6, 7})
}

// H_C02_phylip_thorough: full length list, three rows, all 8 option combinations.
// bounds: L in the full list {1,2,3,9,10,11,49,50,51,59,60,61,79,80,81,119,120,121} with n in 1..3 (L<=11), 1..2 (L<=61), 1 (beyond); letters, and symbols for n*L<=6; both families; 8 option combinations
// outside: L > 121
//verif: tier=thorough
func H_C02_phylip_thorough() { vfPhylip(vfThorough(1, vfFullL), true, true, []int{0, 1, 2, 3, 4, 5, 6, 7}) }

var vfStreamShapes = []vfShape{{1, 2}, {1, 61}, {2, 11}}

// H_C02_phylip_multi: a stream of 2..3 Phylip alignments written one after the other parses back,
// through ParseMultiple, to exactly that list.
// bounds: k in 2..3 alignments with shapes taken in rotation from {1x2, 1x61, 2x11} (3 rotations), alternating nucleotide/protein, letters only, strict in {false,true}, default block layout
// outside: more than 3 alignments, other shapes, oneline/noblock layouts in a stream
func H_C02_phylip_multi() {
	k := nondetRange(2, 3)
	r := nondetRange(0, len(vfStreamShapes)-1)
	strict := nondetRange(0, 1) == 1
	cases := make([]vfCase, k)
	w := ""
	for a := 0; a < k; a++ {
		sh := vfStreamShapes[(r+a)%len(vfStreamShapes)]
		cases[a] = vfBuildPin(sh.n, sh.L, a%2, false, a, csMixed, sh.L > 11)
		w += phylip.WriteAlignment(cases[a].al, strict, false, false)
	}
	ch := &align.AlignChannel{Achan: make(chan align.Alignment, 15)}
	phylip.NewParser(vfReader(w), strict).ParseMultiple(ch)
	verifReach("phylip stream parsed")
	verifAssert(ch.Err == nil, "no error on a stream of written alignments")
	cnt := 0
	for got := range ch.Achan {
		verifAssert(cnt < k, "no more alignments than written")
		if cnt < k {
			vfSame(cases[cnt], got, nil)
		}
		cnt++
	}
	verifAssert(cnt == k, "as many alignments as written")
}

// ------------------------------------------------------------------ Nexus

// vfNexusKeywords: identifiers that the Nexus lexer turns into keyword tokens (case-insensitive).
var vfNexusKeywords = []string{"BEGIN", "DATA", "CHARACTERS", "TAXA", "TAXLABELS", "TREES", "TREE", "DIMENSIONS",
	"NTAX", "NCHAR", "FORMAT", "DATATYPE", "MISSING", "MATCHCHAR", "GAP", "MATRIX", "END"}

// vfIsWordCI: is row (case-insensitively) the word kw.
func vfIsWordCI(row []uint8, kw string) bool {
	if len(row) != len(kw) {
		return false
	}
	eq := true
	for j := range row {
		if vfUp(row[j]) != kw[j] {
			eq = false
		}
	}
	return eq
}

// vfNoKeywordRow restricts the case to rows that do not spell a Nexus lexer keyword.
func vfNoKeywordRow(c vfCase) {
	for i := range c.orig {
		for _, kw := range vfNexusKeywords {
			if len(kw) == c.L {
				assume(!vfIsWordCI(c.orig[i], kw))
			}
		}
	}
}

func vfNexus(shapes []vfShape, syms, full, mixed, exclKeywords bool) {
	n, L, mode, rot, cs := vfChoose(shapes, !mixed, full)
	c := vfBuildPin(n, L, mode, syms && (!full || n*L <= 6), rot, cs, L > 11 && !full)
	// known finding C02-nexus-keyword-token: a residue run (or name) that spells a Nexus lexer keyword is
	// tokenised as the keyword. When it is listed, exactly that input region is excluded here and
	// demonstrated by K_C02_nexus_kwrow / K_C02_nexus_kwname.
	if exclKeywords || verifKnown("C02-nexus-keyword-token") {
		vfNoKeywordRow(c)
	}
	w := nexus.WriteAlignment(c.al)
	got, err := nexus.NewParser(vfReader(w)).Parse()
	verifReach("nexus round trip")
	vfSame(c, got, err)
}

// H_C02_nexus: Nexus writer -> parser is the identity (the writer does not wrap; the lengths are the lexer's keyword lengths 3..5).
// bounds: shapes {1x1, 2x3, 2x4, 2x5}; letters of either family; every row in one case (upper or lower, alternating between rows, both starts)
// outside: other lengths (thorough twin), mixed case inside a row (H_C02_nexus_mixed), symbols (H_C02_nexus_syms), names that are Nexus keywords or contain [ ] ; = blanks
func H_C02_nexus() { vfNexus([]vfShape{{1, 1}, {2, 3}, {2, 4}, {2, 5}}, false, false, false, false) }

// H_C02_nexus_nokw: as H_C02_nexus plus longer rows, with the rows that spell a lexer keyword excluded (second
// variant: the keyword collision of H_C02_nexus is the only defect in these bounds, the rest stays checked).
// bounds: shapes {1x1, 2x2, 2x3, 2x4, 2x5, 2x6, 1x61}; assumes no row equals, case-insensitively, one of the 17 keywords of nexus_lexer.go
// outside: rows that spell a keyword (covered, and failing, in H_C02_nexus)
// assumes: the keyword list of io/nexus/nexus_lexer.go scanIdent
func H_C02_nexus_nokw() {
	vfNexus([]vfShape{{1, 1}, {2, 2}, {2, 3}, {2, 4}, {2, 5}, {2, 6}, {1, 61}}, false, false, false, true)
}

// H_C02_nexus_mixed: mixed case inside a row (short rows: the lexer's ToUpper forks on every letter's case).
// bounds: shapes {1x1, 1x3, 2x2}; letters of either family, any case at every position; keyword rows excluded
// outside: longer mixed-case rows
func H_C02_nexus_mixed() { vfNexus([]vfShape{{1, 1}, {1, 3}, {2, 2}}, false, false, true, true) }

// H_C02_nexus_syms: symbols - * ? allowed (* is Nexus' default missing character, - the gap).
// bounds: shapes {1x1, 2x2, 1x3}; letters (row-uniform case) or - * ?; keyword rows excluded
// outside: longer rows with symbols
func H_C02_nexus_syms() { vfNexus([]vfShape{{1, 1}, {2, 2}, {1, 3}}, true, false, false, true) }

var vfNexusThoroughL = []int{1, 2, 3, 4, 5, 6, 7, 8, 9, 10, 11, 60, 61, 121}

// vfNexusThoroughShapes: the Nexus lexer compares every token with its 17 keywords, so a symbolic
// row costs far more than in the other formats: 3 rows up to 3 columns, 2 rows up to 61, 1 beyond.
func vfNexusThoroughShapes() []vfShape {
	var out []vfShape
	for _, L := range vfNexusThoroughL {
		maxn := 2
		if L <= 3 {
			maxn = 3
		}
		if L > 61 {
			maxn = 1
		}
		for n := 1; n <= maxn; n++ {
			out = append(out, vfShape{n, L})
		}
	}
	return out
}

// H_C02_nexus_thorough: every length 1..11 (all keyword lengths) and long rows, three rows.
// bounds: L in {1..3} with n in 1..3, {4..11, 60, 61} with n in 1..2, 121 with n = 1; letters (row-uniform case), and symbols for n*L<=6; both families
//verif: tier=thorough
func H_C02_nexus_thorough() { vfNexus(vfNexusThoroughShapes(), true, true, false, false) }

// H_C02_nexus_nokw_thorough: thorough twin of H_C02_nexus_nokw.
// bounds: as H_C02_nexus_thorough, keyword rows excluded
//verif: tier=thorough
func H_C02_nexus_nokw_thorough() { vfNexus(vfNexusThoroughShapes(), true, true, false, true) }

// ------------------------------------------------------------------ Clustal

// The Clustal writer adds a conservation line computed from the residues (* identical column,
// : . conserved amino-acid groups): with several rows of unrestricted residues every column forks
// on that symbol, and for protein rows the writer compares every residue with ~60 group letters.
// Long shapes are therefore nucleotide rows in alternating case (no column is identical) with a
// nucleotide-only first residue (see vfBuildPin); one long protein row is checked separately and
// data-dependent conservation on short rows (H_C02_clustal_cons).
func vfClustal(shapes []vfShape, syms, full, mixed bool, modes []int) {
	n, L, mode, rot, cs := vfChoose(shapes, !mixed, full)
	if len(modes) == 1 {
		mode = modes[0]
	}
	c := vfBuildPin(n, L, mode, syms && (!full || n*L <= 6), rot, cs, L > 11 && !full)
	w := clustal.WriteAlignment(c.al)
	got, err := clustal.NewParser(vfReader(w)).Parse()
	verifReach("clustal round trip")
	vfSame(c, got, err)
}

// H_C02_clustal: Clustal writer -> parser is the identity, one row (blocks of 50 columns).
// bounds: shapes {1x1, 1x2} (both families, both cases) and {1x50, 1x51, 1x101} (nucleotide family, first residue U or O, row in one case)
// outside: more rows (H_C02_clustal_rows, H_C02_clustal_cons), long protein rows (H_C02_clustal_aa), mixed case and symbols (H_C02_clustal_syms)
func H_C02_clustal() {
	if nondetRange(0, 1) == 0 {
		vfClustal([]vfShape{{1, 1}, {1, 2}}, false, false, false, []int{vfNt, vfAa})
	} else {
		vfClustal([]vfShape{{1, 50}, {1, 51}, {1, 101}}, false, false, false, []int{vfNt})
	}
}

// H_C02_clustal_aa: one protein row across the block boundary.
// bounds: shape 1x51, protein family (first residue protein-only), upper case
// outside: other lengths (thorough)
func H_C02_clustal_aa() { vfClustal([]vfShape{{1, 51}}, false, false, false, []int{vfAa}) }

// H_C02_clustal_rows: several rows across a block boundary; nucleotides, rows alternate upper/lower case.
// bounds: shapes {2x1, 3x2} (both case starts) and {2x50, 2x51} (first residue U or O); nucleotide family; row i and row i+1 in different cases (so no column is identical)
// outside: identical columns and protein conservation groups (H_C02_clustal_cons, short rows)
func H_C02_clustal_rows() {
	vfClustal([]vfShape{{2, 1}, {3, 2}, {2, 50}, {2, 51}}, false, false, false, []int{vfNt})
}

// H_C02_clustal_cons: two rows, unrestricted residues: the conservation line (* : . blank) varies with the data.
// bounds: 2x1 (both families) and 2x2 (nucleotide family); letters in either case at every position
// outside: longer rows (the path count grows as 4^L)
func H_C02_clustal_cons() {
	if nondetRange(0, 1) == 0 {
		vfClustal([]vfShape{{2, 1}}, false, false, true, []int{vfNt, vfAa})
	} else {
		vfClustal([]vfShape{{2, 2}}, false, false, true, []int{vfNt})
	}
}

// H_C02_clustal_syms: symbols - * ? and mixed case in one row.
// bounds: shapes {1x1, 1x2, 1x3}; letters in either case or - * ?
// outside: longer rows with symbols
func H_C02_clustal_syms() {
	vfClustal([]vfShape{{1, 1}, {1, 2}, {1, 3}}, true, false, true, []int{vfNt, vfAa})
}

// H_C02_clustal_thorough: full length list, one row.
// bounds: n = 1, L in the full list, both families, row-uniform case, symbols for L<=6
//verif: tier=thorough
func H_C02_clustal_thorough() {
	var shapes []vfShape
	for _, L := range vfFullL {
		shapes = append(shapes, vfShape{1, L})
	}
	vfClustal(shapes, true, true, false, []int{vfNt, vfAa})
}

// H_C02_clustal_rows_thorough: full length list, 2..3 rows of nucleotides in alternating case.
// bounds: L in {1,2,3,9,10,11,49,50,51} with n in 2..3 (L<=11), n = 2 beyond; nucleotide family, rows alternate upper/lower case (two rows of 79..121 columns cost minutes per case: one row there, H_C02_clustal_thorough)
//verif: tier=thorough
func H_C02_clustal_rows_thorough() { vfClustal(vfThorough(2, vfFullL[:9]), false, true, false, []int{vfNt}) }

// ------------------------------------------------------------------ Stockholm

func vfStockholm(shapes []vfShape, syms, full, mixed bool) {
	n, L, mode, rot, cs := vfChoose(shapes, !mixed, full)
	c := vfBuildPin(n, L, mode, syms && (!full || n*L <= 6), rot, cs, L > 11 && !full)
	w := stockholm.WriteAlignment(c.al)
	got, err := stockholm.NewParser(vfReader(w)).Parse()
	verifReach("stockholm round trip")
	vfSame(c, got, err)
}

// H_C02_stockholm: Stockholm writer -> parser is the identity (no wrapping; 9 = length of the lexer keyword STOCKHOLM).
// bounds: shapes {1x1, 2x2, 2x9, 1x61}; letters of either family, every row in one case
// outside: mixed case and symbols (H_C02_stockholm_syms), names starting with # or equal to //
func H_C02_stockholm() { vfStockholm([]vfShape{{1, 1}, {2, 2}, {2, 9}, {1, 61}}, false, false, false) }

// H_C02_stockholm_syms: symbols - * ? and mixed case.
// bounds: shapes {1x1, 2x2, 1x3}; letters in either case or - * ?
// outside: longer rows with symbols or mixed case
func H_C02_stockholm_syms() { vfStockholm([]vfShape{{1, 1}, {2, 2}, {1, 3}}, true, false, true) }

// H_C02_stockholm_thorough: full length list, three rows.
// bounds: L in the full list with n in 1..3 (L<=11), 1..2 (L<=61), 1 (beyond); letters (row-uniform case), and symbols for n*L<=6; both families
//verif: tier=thorough
func H_C02_stockholm_thorough() { vfStockholm(vfThorough(1, vfFullL), true, true, false) }

// ------------------------------------------------------------------ auto-detection

// H_C02_autodetect: ParseAlignmentAuto selects the format that was written and returns the alignment.
// bounds: format in {fasta, nexus, clustal, phylip relaxed, phylip strict}; shapes {1x1, 2x11} (clustal: 1x1, 1x11); letters of either family, row-uniform case; Nexus keyword rows excluded
// outside: Stockholm (not auto-detected by design), longer alignments (covered per format)
func H_C02_autodetect() {
	f := nondetRange(0, 4)
	shapes := []vfShape{{1, 1}, {2, 11}}
	if f == 2 {
		shapes = []vfShape{{1, 1}, {1, 11}}
	}
	n, L, mode, rot, cs := vfChoose(shapes, true, false)
	c := vfBuild(n, L, mode, false, rot, cs)
	var w string
	want := 0
	strict := false
	switch f {
	case 0:
		w, want = fasta.WriteAlignment(c.al), align.FORMAT_FASTA
	case 1:
		vfNoKeywordRow(c) // known keyword collision, see H_C02_nexus
		w, want = nexus.WriteAlignment(c.al), align.FORMAT_NEXUS
	case 2:
		w, want = clustal.WriteAlignment(c.al), align.FORMAT_CLUSTAL
	case 3:
		w, want = phylip.WriteAlignment(c.al, false, false, false), align.FORMAT_PHYLIP
	case 4:
		strict = true
		w, want = phylip.WriteAlignment(c.al, true, false, false), align.FORMAT_PHYLIP
	}
	got, format, err := utils.ParseAlignmentAuto(bufio.NewReader(vfReader(w)), strict)
	verifReach("autodetect")
	verifAssert(err == nil, "auto-detected parse succeeds")
	verifAssert(format == want, "auto-detection selects the written format")
	vfSame(c, got, err)
}

// ------------------------------------------------------------------ symbolic names

const (
	fFasta = iota
	fPhylip
	fNexus
	fClustal
	fStockholm
)

func vfAlnum(c uint8) bool {
	return (c >= '0' && c <= '9') || (c >= 'A' && c <= 'Z') || (c >= 'a' && c <= 'z') || c == '_'
}

// vfNameCharOK: printable, non-blank, and not a delimiter of the format (FASTA: '>'; Nexus: the
// punctuation of its grammar [ ] ; = and quotes; Stockholm: '#', which starts a markup line).
func vfNameCharOK(c uint8, format int, alnum, stkLexDelims bool) bool {
	if c < 0x21 || c > 0x7e {
		return false
	}
	if alnum {
		return vfAlnum(c)
	}
	if vfAlnum(c) {
		return false
	}
	switch format {
	case fFasta:
		return c != '>'
	case fNexus:
		return c != '[' && c != ']' && c != ';' && c != '=' && c != '\'' && c != '"'
	case fStockholm:
		if stkLexDelims && (c == '[' || c == ']' || c == ';' || c == '=') {
			return false
		}
		return c != '#'
	}
	return true
}

// vfNames: round trip of a 2 x 4 nucleotide alignment whose first name is symbolic.
func vfNamesRT(format, maxlen int, alnum, stkLexDelims bool) {
	k := nondetRange(1, maxlen)
	b := make([]byte, k)
	for j := range b {
		b[j] = nondetByte()
		assume(vfNameCharOK(b[j], format, alnum, stkLexDelims))
	}
	name := string(b)
	assume(name != "zz9")
	if format == fStockholm {
		assume(name != "//") // end-of-alignment marker
	}
	if format == fNexus {
		// a name that spells a lexer keyword is rejected (demonstrated with concrete names in
		// H_C02_nexus_kwname; with a symbolic name the parser's error message cannot be formatted
		// by the engine)
		for _, kw := range vfNexusKeywords {
			assume(!vfIsWordCI(b, kw))
		}
	}
	names := []string{name, "zz9"}
	rows := []string{"ACGT", "TTGA"}
	al := align.NewAlign(align.NUCLEOTIDS)
	orig := make([][]uint8, 2)
	for i := range names {
		orig[i] = []uint8(rows[i])
		if err := al.AddSequence(names[i], rows[i], ""); err != nil {
			panic("harness: cannot build alignment: " + err.Error())
		}
	}
	c := vfCase{al: al, names: names, orig: orig, L: 4, mode: vfNt}
	var got align.Alignment
	var err error
	switch format {
	case fFasta:
		got, err = fasta.NewParser(vfReader(fasta.WriteAlignment(al))).Parse()
	case fPhylip:
		got, err = phylip.NewParser(vfReader(phylip.WriteAlignment(al, false, false, false)), false).Parse()
	case fNexus:
		got, err = nexus.NewParser(vfReader(nexus.WriteAlignment(al))).Parse()
	case fClustal:
		got, err = clustal.NewParser(vfReader(clustal.WriteAlignment(al))).Parse()
	case fStockholm:
		got, err = stockholm.NewParser(vfReader(stockholm.WriteAlignment(al))).Parse()
	}
	verifReach("names round trip")
	vfSame(c, got, err)
}

// H_C02_names_alnum: names made of letters, digits and '_' survive the round trip in every format.
// bounds: format in {fasta, phylip relaxed, nexus, clustal, stockholm}; first name = 1..3 symbolic characters of [A-Za-z0-9_], second name "zz9"; 2 x 4 concrete nucleotide rows; Nexus: names spelling a lexer keyword excluded (H_C02_nexus_kwname)
// outside: longer names, punctuation (H_C02_names_punct), strict Phylip (its writer pads names with fmt's %-10s, which the engine cannot apply to a symbolic string; pool names cover it)
func H_C02_names_alnum() { vfNamesRT(nondetRange(fFasta, fStockholm), 3, true, false) }

// H_C02_names_punct: names made of printable punctuation (without the format's own delimiters) survive the round trip.
// bounds: same formats; first name = 1..2 symbolic printable non-alphanumeric characters, excluding '>' (FASTA), [ ] ; = ' " (Nexus), '#' and the name "//" (Stockholm)
// outside: longer names, blanks, bytes >= 0x80
func H_C02_names_punct() { vfNamesRT(nondetRange(fFasta, fStockholm), 2, false, false) }

// H_C02_names_punct_nostk: second variant of H_C02_names_punct: additionally excludes, for Stockholm, the
// characters [ ] ; = that its lexer (copied from the Nexus one) treats as token separators although they mean
// nothing in Stockholm; shows that this is the only defect in these bounds.
// bounds: as H_C02_names_punct, Stockholm names without [ ] ; =
// outside: Stockholm names with [ ] ; = (covered, and failing, in H_C02_names_punct)
func H_C02_names_punct_nostk() { vfNamesRT(nondetRange(fFasta, fStockholm), 2, false, true) }

// K_C02_nexus_kwrow: demonstrates the known finding: a residue row that spells a Nexus lexer keyword does not survive the round trip.
// bounds: 2 rows x L in {3,4,5}, letters of either family in row-uniform case, at least one row spelling a keyword
//verif: known=C02-nexus-keyword-token expect=violation
func K_C02_nexus_kwrow() {
	n, L, mode, rot, cs := vfChoose([]vfShape{{2, 3}, {2, 4}, {2, 5}}, true, false)
	c := vfBuildPin(n, L, mode, false, rot, cs, false)
	isKw := false
	for i := range c.orig {
		for _, kw := range vfNexusKeywords {
			if len(kw) == c.L && vfIsWordCI(c.orig[i], kw) {
				isKw = true
			}
		}
	}
	assume(isKw)
	got, err := nexus.NewParser(vfReader(nexus.WriteAlignment(c.al))).Parse()
	verifReach("nexus keyword row")
	vfSame(c, got, err)
}

// K_C02_nexus_kwname: demonstrates the known finding: a sequence name that spells a Nexus lexer keyword (any case) does not survive the round trip.
// bounds: first name in {end, GAP, Data, matrix}, second name s1; 2 x 4 concrete nucleotide rows
// outside: other names
//verif: known=C02-nexus-keyword-token expect=violation
func K_C02_nexus_kwname() {
	names := []string{vfPick2([]string{"end", "GAP", "Data", "matrix"}), "s1"}
	rows := []string{"ACGT", "TTGA"}
	al := align.NewAlign(align.NUCLEOTIDS)
	orig := make([][]uint8, 2)
	for i := range names {
		orig[i] = []uint8(rows[i])
		if err := al.AddSequence(names[i], rows[i], ""); err != nil {
			panic("harness: cannot build alignment: " + err.Error())
		}
	}
	c := vfCase{al: al, names: names, orig: orig, L: 4, mode: vfNt}
	got, err := nexus.NewParser(vfReader(nexus.WriteAlignment(al))).Parse()
	verifReach("nexus keyword name")
	vfSame(c, got, err)
}

func vfPick2(list []string) string { return list[nondetRange(0, len(list)-1)] }

// H_C02_lexer_words: a row of arbitrary letters whose length is that of the start keyword of the format
// (CLUSTAL: 7 letters, STOCKHOLM: 9 letters) survives the round trip. Such rows mix nucleotide-only and
// protein-only letters (U/O with L), so goalign's detected alphabet is "unknown" on both sides.
// bounds: format in {clustal with L=7, stockholm with L=9}; one row; residues = any ASCII letter, the row in one case (upper or lower)
// outside: everything else (covered by the per-format harnesses)
func H_C02_lexer_words() {
	f := nondetRange(0, 1)
	cs := nondetRange(csUpper, csLower)
	L := 7
	if f == 1 {
		L = 9
	}
	al := align.NewAlign(align.UNKNOWN)
	s := make([]uint8, L)
	for j := range s {
		c := nondetByte()
		if cs == csUpper {
			assume(c >= 'A' && c <= 'Z')
		} else {
			assume(c >= 'a' && c <= 'z')
		}
		s[j] = c
	}
	orig := make([]uint8, L)
	copy(orig, s)
	// known finding C02-header-keyword-token: a residue row spelling the format's header keyword
	// (CLUSTAL / STOCKHOLM, any case) is tokenised as that keyword
	if verifKnown("C02-header-keyword-token") {
		if f == 0 {
			assume(!vfIsWordCI(orig, "CLUSTAL"))
		} else {
			assume(!vfIsWordCI(orig, "STOCKHOLM"))
		}
	}
	if err := al.AddSequenceChar("s1", s, ""); err != nil {
		panic("harness: cannot build alignment: " + err.Error())
	}
	al.AutoAlphabet()
	c := vfCase{al: al, names: []string{"s1"}, orig: [][]uint8{orig}, L: L, mode: -1}
	var got align.Alignment
	var err error
	if f == 0 {
		got, err = clustal.NewParser(vfReader(clustal.WriteAlignment(al))).Parse()
	} else {
		got, err = stockholm.NewParser(vfReader(stockholm.WriteAlignment(al))).Parse()
	}
	verifReach("lexer words round trip")
	vfSame(c, got, err)
}

// K_C02_header_keyword: demonstrates the known finding: the one-row alignments "CLUSTAL" (Clustal) and
// "STOCKHOLM" (Stockholm) are not read back.
// bounds: the two concrete rows, upper case
//verif: known=C02-header-keyword-token expect=violation
func K_C02_header_keyword() {
	f := nondetRange(0, 1)
	row := "CLUSTAL"
	if f == 1 {
		row = "STOCKHOLM"
	}
	al := align.NewAlign(align.UNKNOWN)
	if err := al.AddSequence("s1", row, ""); err != nil {
		panic("harness: cannot build alignment: " + err.Error())
	}
	al.AutoAlphabet()
	c := vfCase{al: al, names: []string{"s1"}, orig: [][]uint8{[]uint8(row)}, L: len(row), mode: -1}
	var got align.Alignment
	var err error
	if f == 0 {
		got, err = clustal.NewParser(vfReader(clustal.WriteAlignment(al))).Parse()
	} else {
		got, err = stockholm.NewParser(vfReader(stockholm.WriteAlignment(al))).Parse()
	}
	verifReach("header keyword row")
	vfSame(c, got, err)
}
