//go:build verif

// Package c02: format round-trip harnesses (overlay-only package, exported API only).
//
// C02: for every alignment whose names and residues are representable in a format, writing it
// with goalign's writer and parsing the output back with goalign's parser yields the same
// sequence names in the same order, the same residues, the same length and the same detected
// alphabet. The .gz/.xz file layer (GetReader/OpenWriteFile) is not applicable (file system and
// compression libraries cannot be encoded); everything here goes writer -> string -> parser.
//
// Alphabet modes. goalign's detection (align.DetectAlphabet) knows three kinds of letters:
// letters that can be both (ACBRGDKSHMNVXTWY), nucleotide-only letters (U O) and protein-only
// letters (Q E I L F P Z); J is neither. An alignment has a well-defined alphabet iff all its
// letters are in the first two groups (NUCLEOTIDS) or all are in the first and third group with
// at least one of the third (AMINOACIDS). The harnesses quantify over exactly these two families
// (mode vfNt / vfAa) in both letter cases; the symbols - * ? count as "both".
package c02

import (
	"bufio"
	"io"
	"strings"

	"github.com/evolbioinfo/goalign/align"
	"github.com/evolbioinfo/goalign/io/clustal"
	"github.com/evolbioinfo/goalign/io/fasta"
	"github.com/evolbioinfo/goalign/io/nexus"
	"github.com/evolbioinfo/goalign/io/phylip"
	"github.com/evolbioinfo/goalign/io/stockholm"
	"github.com/evolbioinfo/goalign/io/utils"
)

// ------------------------------------------------------------------ residue classes

const (
	vfNt = 0 // nucleotide alignment: every letter is a "both" or a nucleotide-only letter
	vfAa = 1 // protein alignment: every letter is a "both" or a protein-only letter, at least one protein-only
)

func vfUp(c uint8) uint8 {
	if c >= 'a' && c <= 'z' {
		return c - 32
	}
	return c
}

// vfBothLetter: IUPAC letters that are nucleotide and amino-acid codes at the same time.
func vfBothLetter(c uint8) bool {
	switch vfUp(c) {
	case 'A', 'C', 'B', 'R', 'G', 'D', 'K', 'S', 'H', 'M', 'N', 'V', 'X', 'T', 'W', 'Y':
		return true
	}
	return false
}

func vfNtOnly(c uint8) bool {
	u := vfUp(c)
	return u == 'U' || u == 'O'
}

func vfAaOnly(c uint8) bool {
	switch vfUp(c) {
	case 'Q', 'E', 'I', 'L', 'F', 'P', 'Z':
		return true
	}
	return false
}

// vfSymbol: the non-letter residues of the property statement.
func vfSymbol(c uint8) bool { return c == '-' || c == '*' || c == '?' }

// vfResidueOK: is c a residue of an alignment of the given mode (syms: symbols allowed too).
func vfResidueOK(c uint8, mode int, syms bool) bool {
	if syms && vfSymbol(c) {
		return true
	}
	if vfBothLetter(c) {
		return true
	}
	if mode == vfNt {
		return vfNtOnly(c)
	}
	return vfAaOnly(c)
}

// ------------------------------------------------------------------ names

// vfPool: plain, numeric, mixed case with punctuation, exactly 10 characters (the strict Phylip limit).
var vfPool = []string{"s1", "12", "Seq_B", "Name.10chr"}

// vfNames returns n distinct names from the pool, starting at rot.
func vfNames(n, rot int) []string {
	out := make([]string, n)
	for i := range out {
		out[i] = vfPool[(rot+i)%len(vfPool)]
	}
	return out
}

// ------------------------------------------------------------------ alignment under test

type vfCase struct {
	al    align.Alignment
	names []string
	orig  [][]uint8
	L     int
	mode  int
}

var vfDbg = false

func vfDbgPair(mode, i, j int) (uint8, uint8) {
	if mode == vfNt {
		if i%2 == 1 {
			return "data"[j%4], 'c'
		}
		return "DATA"[j%4], 'C'
	}
	if i == 0 && j == 0 {
		return 'E', 'Q'
	}
	if i%2 == 1 {
		return "endgap"[j%6], 'l'
	}
	return "ENDGAP"[j%6], 'L'
}

// vfBuild builds an n x L alignment with symbolic residues of the given mode. In protein mode the
// residue (0,0) is a protein-only letter (a fixed position keeps every path-condition conjunct
// over one byte, which the engine decides without the solver); the alphabet is set by
// construction and cross-checked against goalign's own detection in vfSame.
func vfBuild(n, L, mode int, syms bool, rot int) vfCase {
	names := vfNames(n, rot)
	var al align.Alignment
	if mode == vfNt {
		al = align.NewAlign(align.NUCLEOTIDS)
	} else {
		al = align.NewAlign(align.AMINOACIDS)
	}
	orig := make([][]uint8, n)
	for i := 0; i < n; i++ {
		s := make([]uint8, L)
		for j := range s {
			c := nondetByte()
			if vfDbg {
				a, b := vfDbgPair(mode, i, j)
				c = a
				if nondetBool() {
					c = b
				}
			} else if mode == vfAa && i == 0 && j == 0 {
				assume(vfAaOnly(c))
			} else {
				assume(vfResidueOK(c, mode, syms))
			}
			s[j] = c
		}
		orig[i] = make([]uint8, L)
		copy(orig[i], s)
		if err := al.AddSequenceChar(names[i], s, ""); err != nil {
			panic("harness: cannot build alignment: " + err.Error())
		}
	}
	return vfCase{al: al, names: names, orig: orig, L: L, mode: mode}
}

// vfSame asserts the C02 post-condition: got is the alignment that was written.
func vfSame(c vfCase, got align.Alignment, err error) {
	verifAssert(err == nil, "parsing the writer's output succeeds")
	if err != nil {
		return
	}
	verifAssert(got != nil, "parsing the writer's output yields an alignment")
	if got == nil {
		return
	}
	verifAssert(got.NbSequences() == len(c.names), "same number of rows")
	verifAssert(got.Length() == c.L, "same length")
	for i := range c.names {
		name, ok := got.GetSequenceNameById(i)
		verifAssert(ok && name == c.names[i], "same names in the same order")
		s, ok2 := got.GetSequenceCharById(i)
		verifAssert(ok2 && len(s) == c.L, "same row length")
		if !ok2 || len(s) != c.L {
			return
		}
		same := true
		for j := 0; j < c.L; j++ {
			if s[j] != c.orig[i][j] {
				same = false
			}
		}
		verifAssert(same, "same residues")
	}
	verifAssert(got.Alphabet() == c.al.Alphabet(), "same detected alphabet")
	// cross-check: the alphabet set by construction is the one goalign detects on the original
	c.al.AutoAlphabet()
	if c.mode == vfNt {
		verifAssert(c.al.Alphabet() == align.NUCLEOTIDS, "harness: nucleotide mode is detected as nucleotides")
	} else {
		verifAssert(c.al.Alphabet() == align.AMINOACIDS, "harness: protein mode is detected as amino acids")
	}
}

// vfSlowReader hands the written text to the parser one byte per Read call (like
// testing/iotest.OneByteReader). Every goalign parser takes an io.Reader and wraps it in a
// bufio.Reader, so this is an admissible input source; it is used instead of strings.Reader
// because with more than 3 unread bytes in the bufio buffer the engine merges the (infeasible)
// multi-byte arm of bufio.Reader.ReadRune into a symbolic read offset, which makes every later
// buffer access a solver query over all residues.
type vfSlowReader struct {
	s string
	i int
}

func (r *vfSlowReader) Read(p []byte) (int, error) {
	if r.i >= len(r.s) {
		return 0, io.EOF
	}
	if len(p) == 0 {
		return 0, nil
	}
	p[0] = r.s[r.i]
	r.i++
	return 1, nil
}

var vfSlow = false

func vfReader(w string) io.Reader {
	if vfSlow {
		return &vfSlowReader{s: w}
	}
	return strings.NewReader(w)
}

// vfPick returns one element of a concrete list (one case per element).
func vfPick(list []int) int { return list[nondetRange(0, len(list)-1)] }

var vfFullL = []int{1, 2, 3, 9, 10, 11, 49, 50, 51, 59, 60, 61, 79, 80, 81, 119, 120, 121}

// ------------------------------------------------------------------ FASTA

func vfFasta(maxn int, Ls []int, syms bool, nrot int) {
	n := nondetRange(1, maxn)
	L := vfPick(Ls)
	mode := nondetRange(vfNt, vfAa)
	rot := nondetRange(0, nrot-1)
	c := vfBuild(n, L, mode, syms, rot)
	w := fasta.WriteAlignment(c.al)
	got, err := fasta.NewParser(vfReader(w)).Parse()
	verifReach("fasta round trip")
	vfSame(c, got, err)
}

// H_C02_fasta: FASTA writer -> parser is the identity (letters only; lines wrap at 80).
// bounds: rows n in 1..2, L in {1,79,80,81}, residues = any letter of the nucleotide family or of the protein family (see package comment), both cases; 2 name rotations of the pool {s1,12,Seq_B,Name.10chr}
// outside: other lengths (thorough twin), symbols - * ? (H_C02_fasta_syms), names outside the pool, alignments mixing nucleotide-only and protein-only letters
func H_C02_fasta() { vfFasta(2, []int{1, 79, 80, 81}, false, 2) }

// H_C02_fasta_syms: same with the symbols - * ? allowed at every position.
// bounds: n in 1..2, L in {1,2,81}, residues = letters of the family or - * ?
// outside: other lengths
func H_C02_fasta_syms() { vfFasta(2, []int{1, 2, 81}, true, 1) }

// H_C02_fasta_thorough: full length list and three rows.
// bounds: n in 1..3, L in {1,2,3,9,10,11,49,50,51,59,60,61,79,80,81,119,120,121} plus 160,161, letters and symbols, 4 name rotations
// outside: L > 161, n > 3
//verif: tier=thorough
func H_C02_fasta_thorough() { vfFasta(3, append(append([]int{}, vfFullL...), 160, 161), true, 4) }

// ------------------------------------------------------------------ Phylip

// vfPhylip: opts is the list of writer option combinations (bit 0 strict, bit 1 oneline, bit 2 noblock);
// the parser is given the same strictness as the writer.
func vfPhylip(maxn int, Ls []int, syms bool, nrot int, opts []int) {
	n := nondetRange(1, maxn)
	L := vfPick(Ls)
	mode := nondetRange(vfNt, vfAa)
	rot := nondetRange(0, nrot-1)
	opt := vfPick(opts)
	strict, oneline, noblock := opt&1 != 0, opt&2 != 0, opt&4 != 0
	c := vfBuild(n, L, mode, syms, rot)
	w := phylip.WriteAlignment(c.al, strict, oneline, noblock)
	got, err := phylip.NewParser(vfReader(w), strict).Parse()
	verifReach("phylip round trip")
	vfSame(c, got, err)
}

// H_C02_phylip_relaxed: relaxed Phylip (name, two blanks, sequence), the 4 oneline/noblock combinations.
// bounds: n in 1..2, L in {1,10,11,60,61}, letters of either family in both cases, 2 name rotations, writer options strict=false x oneline x noblock, parser strict=false
// outside: other lengths (thorough twin), symbols (H_C02_phylip_syms), names with blanks (not representable)
func H_C02_phylip_relaxed() { vfPhylip(2, []int{1, 10, 11, 60, 61}, false, 2, []int{0, 2, 4, 6}) }

// H_C02_phylip_strict: strict Phylip (names padded/cut to 10 columns), the 4 oneline/noblock combinations.
// bounds: n in 1..2, L in {1,10,11,60,61}, letters of either family, 2 name rotations (pool names are <= 10 characters, one is exactly 10), writer strict=true x oneline x noblock, parser strict=true
// outside: names longer than 10 characters (truncated by design, not representable), other lengths
func H_C02_phylip_strict() { vfPhylip(2, []int{1, 10, 11, 60, 61}, false, 2, []int{1, 3, 5, 7}) }

// H_C02_phylip_syms: symbols - * ? allowed (a block that starts with '-' takes strconv.ParseInt's sign path in the lexer).
// bounds: n in 1..2, L in {1,2,11}, letters or - * ?, all 8 option combinations
// outside: longer rows with symbols
func H_C02_phylip_syms() { vfPhylip(2, []int{1, 2, 11}, true, 1, []int{0, 1, 2, 3, 4, 5, 6, 7}) }

// H_C02_phylip_thorough: full length list, three rows, all 8 option combinations.
// bounds: n in 1..3, L in the full list {1,2,3,9,10,11,49,50,51,59,60,61,79,80,81,119,120,121}, letters of either family, 4 name rotations, 8 option combinations
// outside: L > 121
//verif: tier=thorough
func H_C02_phylip_thorough() { vfPhylip(3, vfFullL, false, 4, []int{0, 1, 2, 3, 4, 5, 6, 7}) }

// vfShape: rows and columns of one alignment of a multi-alignment stream.
type vfShape struct{ n, L int }

var vfShapes = []vfShape{{1, 2}, {2, 61}, {2, 11}}

// H_C02_phylip_multi: a stream of 2..3 Phylip alignments written one after the other parses back,
// through ParseMultiple, to exactly that list.
// bounds: k in 2..3 alignments with shapes taken in rotation from {1x2, 2x61, 2x11} (3 rotations), alternating nucleotide/protein, letters only, strict in {false,true}, default block layout
// outside: more than 3 alignments, other shapes, oneline/noblock layouts in a stream
func H_C02_phylip_multi() {
	k := nondetRange(2, 3)
	r := nondetRange(0, len(vfShapes)-1)
	strict := nondetRange(0, 1) == 1
	cases := make([]vfCase, k)
	w := ""
	for a := 0; a < k; a++ {
		sh := vfShapes[(r+a)%len(vfShapes)]
		cases[a] = vfBuild(sh.n, sh.L, a%2, false, a)
		w += phylip.WriteAlignment(cases[a].al, strict, false, false)
	}
	ch := &align.AlignChannel{Achan: make(chan align.Alignment, 15)}
	phylip.NewParser(vfReader(w), strict).ParseMultiple(ch)
	verifReach("phylip stream parsed")
	verifAssert(ch.Err == nil, "no error on a stream of written alignments")
	cnt := 0
	for got := range ch.Achan {
		verifAssert(cnt < k, "no more alignments than written")
		if cnt < k {
			vfSame(cases[cnt], got, nil)
		}
		cnt++
	}
	verifAssert(cnt == k, "as many alignments as written")
}

// ------------------------------------------------------------------ Nexus

// vfNexusKeywords: identifiers that the Nexus lexer turns into keyword tokens (case-insensitive).
var vfNexusKeywords = []string{"BEGIN", "DATA", "CHARACTERS", "TAXA", "TAXLABELS", "TREES", "TREE", "DIMENSIONS",
	"NTAX", "NCHAR", "FORMAT", "DATATYPE", "MISSING", "MATCHCHAR", "GAP", "MATRIX", "END"}

// vfIsWordCI: is row (case-insensitively) the word kw.
func vfIsWordCI(row []uint8, kw string) bool {
	if len(row) != len(kw) {
		return false
	}
	eq := true
	for j := range row {
		if vfUp(row[j]) != kw[j] {
			eq = false
		}
	}
	return eq
}

func vfNexus(maxn int, Ls []int, syms bool, nrot int, exclKeywords bool) {
	n := nondetRange(1, maxn)
	L := vfPick(Ls)
	mode := nondetRange(vfNt, vfAa)
	rot := nondetRange(0, nrot-1)
	c := vfBuild(n, L, mode, syms, rot)
	if exclKeywords {
		for i := 0; i < n; i++ {
			for _, kw := range vfNexusKeywords {
				if len(kw) == L {
					assume(!vfIsWordCI(c.orig[i], kw))
				}
			}
		}
	}
	w := nexus.WriteAlignment(c.al)
	got, err := nexus.NewParser(vfReader(w)).Parse()
	verifReach("nexus round trip")
	vfSame(c, got, err)
}

// H_C02_nexus: Nexus writer -> parser is the identity (the writer does not wrap; lengths cover the lexer's keyword lengths 3..5).
// bounds: n in 1..2, L in {1,3,4,5}, letters of either family in both cases, 2 name rotations
// outside: other lengths (thorough twin), symbols (H_C02_nexus_syms), names that are Nexus keywords or contain [ ] ; = blanks
func H_C02_nexus() { vfNexus(2, []int{1, 3, 4, 5}, false, 2, false) }

// H_C02_nexus_nokw: as H_C02_nexus, with the rows that spell a lexer keyword excluded (second variant: shows that
// the keyword collision is the only defect in these bounds and keeps the remaining region checked).
// bounds: as H_C02_nexus plus L in {2,6,61}; assumes no row equals, case-insensitively, one of the 17 keywords of nexus_lexer.go
// outside: rows that spell a keyword (covered, and failing, in H_C02_nexus)
// assumes: the keyword list of io/nexus/nexus_lexer.go scanIdent
func H_C02_nexus_nokw() { vfNexus(2, []int{1, 2, 3, 4, 5, 6, 61}, false, 2, true) }

// H_C02_nexus_syms: symbols - * ? allowed (* is Nexus' default missing character, - the gap).
// bounds: n in 1..2, L in {1,2,3}, letters or - * ?, keyword rows excluded
// outside: longer rows with symbols
func H_C02_nexus_syms() { vfNexus(2, []int{1, 2, 3}, true, 1, true) }

// H_C02_nexus_thorough: every length 1..11 (all keyword lengths) and the long ones, three rows.
// bounds: n in 1..3, L in {1..11, 60, 61, 121}, letters and symbols, 4 name rotations
//verif: tier=thorough
func H_C02_nexus_thorough() {
	vfNexus(3, []int{1, 2, 3, 4, 5, 6, 7, 8, 9, 10, 11, 60, 61, 121}, true, 4, false)
}

// H_C02_nexus_nokw_thorough: thorough twin of H_C02_nexus_nokw.
// bounds: n in 1..3, L in {1..11, 60, 61, 121}, letters and symbols, keyword rows excluded
//verif: tier=thorough
func H_C02_nexus_nokw_thorough() {
	vfNexus(3, []int{1, 2, 3, 4, 5, 6, 7, 8, 9, 10, 11, 60, 61, 121}, true, 4, true)
}

// ------------------------------------------------------------------ Clustal

// vfClustal: caseSplit restricts row i to upper case (i even) / lower case (i odd) letters, so that
// no column is "identical" and the conservation line (which depends on the residues) is the same
// on all paths; without it every column forks on the conservation symbol.
func vfClustal(minn, maxn int, Ls []int, modes []int, syms bool, nrot int, caseSplit bool) {
	n := nondetRange(minn, maxn)
	L := vfPick(Ls)
	mode := vfPick(modes)
	rot := nondetRange(0, nrot-1)
	c := vfBuild(n, L, mode, syms, rot)
	if caseSplit {
		for i := 0; i < n; i++ {
			for j := 0; j < L; j++ {
				r := c.orig[i][j]
				if i%2 == 0 {
					assume(r >= 'A' && r <= 'Z')
				} else {
					assume(r >= 'a' && r <= 'z')
				}
			}
		}
	}
	w := clustal.WriteAlignment(c.al)
	got, err := clustal.NewParser(vfReader(w)).Parse()
	verifReach("clustal round trip")
	vfSame(c, got, err)
}

// H_C02_clustal: Clustal writer -> parser is the identity, one row (blocks of 50 columns).
// bounds: n = 1, L in {1,50,51,101}, letters of either family in both cases, 2 name rotations
// outside: more rows (H_C02_clustal_rows, H_C02_clustal_cons), symbols (H_C02_clustal_syms)
func H_C02_clustal() { vfClustal(1, 1, []int{1, 50, 51, 101}, []int{vfNt, vfAa}, false, 2, false) }

// H_C02_clustal_rows: several rows across block boundaries; nucleotides, rows alternate upper/lower case.
// bounds: n in 2..3, L in {1,50,51}, nucleotide family, row i upper case for even i and lower case for odd i (so the conservation line is blank in every column)
// outside: columns with identical residues and protein conservation groups (H_C02_clustal_cons, small L)
func H_C02_clustal_rows() { vfClustal(2, 3, []int{1, 50, 51}, []int{vfNt}, false, 2, true) }

// H_C02_clustal_cons: two rows, unrestricted residues: the conservation line (* : . blank) varies with the data.
// bounds: n = 2, L in {1,2}, letters of either family in both cases
// outside: longer rows (path count grows as 4^L)
func H_C02_clustal_cons() { vfClustal(2, 2, []int{1, 2}, []int{vfNt, vfAa}, false, 1, false) }

// H_C02_clustal_syms: symbols - * ? allowed.
// bounds: n in 1..2, L in {1,2} (n=2) and {1,2,51} (n=1): see body; letters or - * ?
// outside: longer rows with symbols
func H_C02_clustal_syms() {
	if nondetRange(0, 1) == 0 {
		vfClustal(1, 1, []int{1, 2, 51}, []int{vfNt, vfAa}, true, 1, false)
	} else {
		vfClustal(2, 2, []int{1, 2}, []int{vfNt}, true, 1, false)
	}
}

// H_C02_clustal_thorough: full length list.
// bounds: n = 1 with L in the full list (both families, symbols), n in 2..3 with L in the full list (nucleotides, case-split rows)
//verif: tier=thorough
func H_C02_clustal_thorough() {
	if nondetRange(0, 1) == 0 {
		vfClustal(1, 1, vfFullL, []int{vfNt, vfAa}, true, 4, false)
	} else {
		vfClustal(2, 3, vfFullL, []int{vfNt}, false, 4, true)
	}
}

// ------------------------------------------------------------------ Stockholm

func vfStockholm(maxn int, Ls []int, syms bool, nrot int) {
	n := nondetRange(1, maxn)
	L := vfPick(Ls)
	mode := nondetRange(vfNt, vfAa)
	rot := nondetRange(0, nrot-1)
	c := vfBuild(n, L, mode, syms, rot)
	w := stockholm.WriteAlignment(c.al)
	got, err := stockholm.NewParser(vfReader(w)).Parse()
	verifReach("stockholm round trip")
	vfSame(c, got, err)
}

// H_C02_stockholm: Stockholm writer -> parser is the identity (no wrapping; 9 = length of the lexer keyword STOCKHOLM).
// bounds: n in 1..2, L in {1,2,9,61}, letters of either family in both cases, 2 name rotations
// outside: symbols (H_C02_stockholm_syms), names starting with # or equal to //
func H_C02_stockholm() { vfStockholm(2, []int{1, 2, 9, 61}, false, 2) }

// H_C02_stockholm_syms: symbols - * ? allowed.
// bounds: n in 1..2, L in {1,2,3}, letters or - * ?
func H_C02_stockholm_syms() { vfStockholm(2, []int{1, 2, 3}, true, 1) }

// H_C02_stockholm_thorough: full length list, three rows.
// bounds: n in 1..3, L in the full list, letters and symbols, 4 name rotations
//verif: tier=thorough
func H_C02_stockholm_thorough() { vfStockholm(3, vfFullL, true, 4) }

// ------------------------------------------------------------------ auto-detection

// H_C02_autodetect: ParseAlignmentAuto selects the format that was written and returns the alignment.
// bounds: format in {fasta, nexus, clustal, phylip relaxed, phylip strict}, n in 1..2 (clustal: 1), L in {1,11}, letters of either family
// outside: Stockholm (not auto-detected by design), longer alignments (covered per format)
func H_C02_autodetect() {
	f := nondetRange(0, 4)
	maxn := 2
	if f == 2 {
		maxn = 1
	}
	n := nondetRange(1, maxn)
	L := vfPick([]int{1, 11})
	mode := nondetRange(vfNt, vfAa)
	c := vfBuild(n, L, mode, false, 0)
	var w string
	want := 0
	strict := false
	switch f {
	case 0:
		w, want = fasta.WriteAlignment(c.al), align.FORMAT_FASTA
	case 1:
		w, want = nexus.WriteAlignment(c.al), align.FORMAT_NEXUS
		for i := 0; i < n; i++ { // known keyword collision, see H_C02_nexus
			for _, kw := range vfNexusKeywords {
				if len(kw) == L {
					assume(!vfIsWordCI(c.orig[i], kw))
				}
			}
		}
	case 2:
		w, want = clustal.WriteAlignment(c.al), align.FORMAT_CLUSTAL
	case 3:
		w, want = phylip.WriteAlignment(c.al, false, false, false), align.FORMAT_PHYLIP
	case 4:
		strict = true
		w, want = phylip.WriteAlignment(c.al, true, false, false), align.FORMAT_PHYLIP
	}
	got, format, err := utils.ParseAlignmentAuto(bufio.NewReader(vfReader(w)), strict)
	verifReach("autodetect")
	verifAssert(err == nil, "auto-detected parse succeeds")
	verifAssert(format == want, "auto-detection selects the written format")
	vfSame(c, got, err)
}

// ------------------------------------------------------------------ symbolic names

const (
	fFasta = iota
	fPhylip
	fPhylipStrict
	fNexus
	fClustal
	fStockholm
)

func vfAlnum(c uint8) bool {
	return (c >= '0' && c <= '9') || (c >= 'A' && c <= 'Z') || (c >= 'a' && c <= 'z') || c == '_'
}

// vfNameCharOK: printable, non-blank, and not a delimiter of the format (FASTA: '>'; Nexus: the
// punctuation of its grammar [ ] ; = and quotes; Stockholm: '#', which starts a markup line).
func vfNameCharOK(c uint8, format int, alnum bool) bool {
	if c < 0x21 || c > 0x7e {
		return false
	}
	if alnum {
		return vfAlnum(c)
	}
	if vfAlnum(c) {
		return false
	}
	switch format {
	case fFasta:
		return c != '>'
	case fNexus:
		return c != '[' && c != ']' && c != ';' && c != '=' && c != '\'' && c != '"'
	case fStockholm:
		return c != '#'
	}
	return true
}

// vfNames: round trip of a 2 x 4 nucleotide alignment whose first name is symbolic.
func vfNamesRT(format, maxlen int, alnum bool) {
	k := nondetRange(1, maxlen)
	b := make([]byte, k)
	for j := range b {
		b[j] = nondetByte()
		assume(vfNameCharOK(b[j], format, alnum))
	}
	name := string(b)
	assume(name != "zz9")
	if format == fStockholm {
		assume(name != "//") // end-of-alignment marker
	}
	names := []string{name, "zz9"}
	rows := []string{"ACGT", "TTGA"}
	al := align.NewAlign(align.NUCLEOTIDS)
	orig := make([][]uint8, 2)
	for i := range names {
		orig[i] = []uint8(rows[i])
		if err := al.AddSequence(names[i], rows[i], ""); err != nil {
			panic("harness: cannot build alignment: " + err.Error())
		}
	}
	c := vfCase{al: al, names: names, orig: orig, L: 4, mode: vfNt}
	var got align.Alignment
	var err error
	switch format {
	case fFasta:
		got, err = fasta.NewParser(vfReader(fasta.WriteAlignment(al))).Parse()
	case fPhylip:
		got, err = phylip.NewParser(vfReader(phylip.WriteAlignment(al, false, false, false)), false).Parse()
	case fPhylipStrict:
		got, err = phylip.NewParser(vfReader(phylip.WriteAlignment(al, true, false, false)), true).Parse()
	case fNexus:
		got, err = nexus.NewParser(vfReader(nexus.WriteAlignment(al))).Parse()
	case fClustal:
		got, err = clustal.NewParser(vfReader(clustal.WriteAlignment(al))).Parse()
	case fStockholm:
		got, err = stockholm.NewParser(vfReader(stockholm.WriteAlignment(al))).Parse()
	}
	verifReach("names round trip")
	vfSame(c, got, err)
}

// H_C02_names_alnum: names made of letters, digits and '_' survive the round trip in every format.
// bounds: format in {fasta, phylip relaxed, phylip strict, nexus, clustal, stockholm}; first name = 1..3 symbolic characters of [A-Za-z0-9_], second name "zz9"; 2 x 4 concrete nucleotide rows
// outside: longer names, punctuation (H_C02_names_punct)
func H_C02_names_alnum() { vfNamesRT(nondetRange(fFasta, fStockholm), 3, true) }

// H_C02_names_punct: names made of printable punctuation (without the format's own delimiters) survive the round trip.
// bounds: same formats; first name = 1..2 symbolic printable non-alphanumeric characters, excluding '>' (FASTA), [ ] ; = ' " (Nexus), '#' and the name "//" (Stockholm)
// outside: longer names, blanks, bytes >= 0x80
func H_C02_names_punct() { vfNamesRT(nondetRange(fFasta, fStockholm), 2, false) }

// H_C02_dbg: scratch.
// bounds: scratch
// outside: scratch
func H_C02_dbg() { vfFasta(1, []int{vfDbgL}, false, 1) }

var vfDbgL = 40
