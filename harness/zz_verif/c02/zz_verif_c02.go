//go:build verif

// Package c02: format round-trip harnesses (overlay-only package, exported API only).
//
// C02: for every alignment whose names and residues are representable in a format, writing it
// with goalign's writer and parsing the output back with goalign's parser yields the same
// sequence names in the same order, the same residues, the same length and the same detected
// alphabet. The .gz/.xz file layer (GetReader/OpenWriteFile) is not applicable (file system and
// compression libraries cannot be encoded); everything here goes writer -> string -> parser.
//
// Alphabet modes. goalign's detection (align.DetectAlphabet) knows three kinds of letters:
// letters that can be both (ACBRGDKSHMNVXTWY), nucleotide-only letters (U O) and protein-only
// letters (Q E I L F P Z); J is neither. An alignment has a well-defined alphabet iff all its
// letters are in the first two groups (NUCLEOTIDS) or all are in the first and third group with
// at least one of the third (AMINOACIDS). The harnesses quantify over exactly these two families
// (mode vfNt / vfAa) in both letter cases; the symbols - * ? count as "both".
package c02

import (
	"bufio"
	"strings"

	"github.com/evolbioinfo/goalign/align"
	"github.com/evolbioinfo/goalign/io/clustal"
	"github.com/evolbioinfo/goalign/io/fasta"
	"github.com/evolbioinfo/goalign/io/nexus"
	"github.com/evolbioinfo/goalign/io/phylip"
	"github.com/evolbioinfo/goalign/io/stockholm"
	"github.com/evolbioinfo/goalign/io/utils"
)

// ------------------------------------------------------------------ residue classes

const (
	vfNt = 0 // nucleotide alignment: every letter is a "both" or a nucleotide-only letter
	vfAa = 1 // protein alignment: every letter is a "both" or a protein-only letter, at least one protein-only
)

func vfUp(c uint8) uint8 {
	if c >= 'a' && c <= 'z' {
		return c - 32
	}
	return c
}

// vfBothLetter: IUPAC letters that are nucleotide and amino-acid codes at the same time.
func vfBothLetter(c uint8) bool {
	switch vfUp(c) {
	case 'A', 'C', 'B', 'R', 'G', 'D', 'K', 'S', 'H', 'M', 'N', 'V', 'X', 'T', 'W', 'Y':
		return true
	}
	return false
}

func vfNtOnly(c uint8) bool {
	u := vfUp(c)
	return u == 'U' || u == 'O'
}

func vfAaOnly(c uint8) bool {
	switch vfUp(c) {
	case 'Q', 'E', 'I', 'L', 'F', 'P', 'Z':
		return true
	}
	return false
}

// vfSymbol: the non-letter residues of the property statement.
func vfSymbol(c uint8) bool { return c == '-' || c == '*' || c == '?' }

// vfResidueOK: is c a residue of an alignment of the given mode (syms: symbols allowed too).
func vfResidueOK(c uint8, mode int, syms bool) bool {
	if syms && vfSymbol(c) {
		return true
	}
	if vfBothLetter(c) {
		return true
	}
	if mode == vfNt {
		return vfNtOnly(c)
	}
	return vfAaOnly(c)
}

// ------------------------------------------------------------------ names

// vfPool: plain, numeric, mixed case with punctuation, exactly 10 characters (the strict Phylip limit).
var vfPool = []string{"s1", "12", "Seq_B", "Name.10chr"}

// vfNames returns n distinct names from the pool, starting at rot.
func vfNames(n, rot int) []string {
	out := make([]string, n)
	for i := range out {
		out[i] = vfPool[(rot+i)%len(vfPool)]
	}
	return out
}

// ------------------------------------------------------------------ alignment under test

type vfCase struct {
	al    align.Alignment
	names []string
	orig  [][]uint8
	L     int
}

// vfBuild builds an n x L alignment with symbolic residues of the given mode.
func vfBuild(n, L, mode int, syms bool, rot int) vfCase {
	names := vfNames(n, rot)
	al := align.NewAlign(align.UNKNOWN)
	orig := make([][]uint8, n)
	hasAa := false
	for i := 0; i < n; i++ {
		s := make([]uint8, L)
		for j := range s {
			c := nondetByte()
			assume(vfResidueOK(c, mode, syms))
			if vfAaOnly(c) {
				hasAa = true
			}
			s[j] = c
		}
		orig[i] = make([]uint8, L)
		copy(orig[i], s)
		if err := al.AddSequenceChar(names[i], s, ""); err != nil {
			panic("harness: cannot build alignment: " + err.Error())
		}
	}
	if mode == vfAa {
		assume(hasAa)
	}
	al.AutoAlphabet()
	if mode == vfNt {
		verifAssert(al.Alphabet() == align.NUCLEOTIDS, "harness: nucleotide mode is detected as nucleotides")
	} else {
		verifAssert(al.Alphabet() == align.AMINOACIDS, "harness: protein mode is detected as amino acids")
	}
	return vfCase{al: al, names: names, orig: orig, L: L}
}

// vfSame asserts the C02 post-condition: got is the alignment that was written.
func vfSame(c vfCase, got align.Alignment, err error) {
	verifAssert(err == nil, "parsing the writer's output succeeds")
	if err != nil {
		return
	}
	verifAssert(got != nil, "parsing the writer's output yields an alignment")
	if got == nil {
		return
	}
	verifAssert(got.NbSequences() == len(c.names), "same number of rows")
	verifAssert(got.Length() == c.L, "same length")
	for i := range c.names {
		name, ok := got.GetSequenceNameById(i)
		verifAssert(ok && name == c.names[i], "same names in the same order")
		s, ok2 := got.GetSequenceCharById(i)
		verifAssert(ok2 && len(s) == c.L, "same row length")
		if !ok2 || len(s) != c.L {
			return
		}
		same := true
		for j := 0; j < c.L; j++ {
			if s[j] != c.orig[i][j] {
				same = false
			}
		}
		verifAssert(same, "same residues")
	}
	verifAssert(got.Alphabet() == c.al.Alphabet(), "same detected alphabet")
}

// vfPick returns one element of a concrete list (one case per element).
func vfPick(list []int) int { return list[nondetRange(0, len(list)-1)] }

var vfFullL = []int{1, 2, 3, 9, 10, 11, 49, 50, 51, 59, 60, 61, 79, 80, 81, 119, 120, 121}

// ------------------------------------------------------------------ FASTA

func vfFasta(maxn int, Ls []int, syms bool, nrot int) {
	n := nondetRange(1, maxn)
	L := vfPick(Ls)
	mode := nondetRange(vfNt, vfAa)
	rot := nondetRange(0, nrot-1)
	c := vfBuild(n, L, mode, syms, rot)
	w := fasta.WriteAlignment(c.al)
	got, err := fasta.NewParser(strings.NewReader(w)).Parse()
	verifReach("fasta round trip")
	vfSame(c, got, err)
}

// H_C02_fasta: FASTA writer -> parser is the identity (letters only; lines wrap at 80).
// bounds: rows n in 1..2, L in {1,79,80,81}, residues = any letter of the nucleotide family or of the protein family (see package comment), both cases; 2 name rotations of the pool {s1,12,Seq_B,Name.10chr}
// outside: other lengths (thorough twin), symbols - * ? (H_C02_fasta_syms), names outside the pool, alignments mixing nucleotide-only and protein-only letters
func H_C02_fasta() { vfFasta(2, []int{1, 79, 80, 81}, false, 2) }

var (
	_ = bufio.NewReader
	_ = clustal.WriteAlignment
	_ = nexus.WriteAlignment
	_ = phylip.WriteAlignment
	_ = stockholm.WriteAlignment
	_ = utils.ParseAlignmentAuto
)
