//go:build verif

package PKGNAME

import (
	"encoding/json"
	"fmt"
	"os"
	"runtime/debug"
	"strconv"
	"testing"
	"time"
)

// TestVerifReplay runs one harness on the tape in $VERIF_REPLAY and reports the outcome on a
// single line starting with VERIF-RESULT.
func TestVerifReplay(t *testing.T) {
	path := os.Getenv("VERIF_REPLAY")
	if path == "" {
		t.Skip("no VERIF_REPLAY")
	}
	rf, err := vfLoad(path)
	if err != nil {
		t.Fatal(err)
	}
	fn, ok := vfHarnesses[rf.Harness]
	if !ok {
		t.Fatalf("unknown harness %s", rf.Harness)
	}
	type result struct {
		Outcome  string   `json:"outcome"` // ok, assert, assume, tape, panic, hang
		Label    string   `json:"label"`
		Msg      string   `json:"msg"`
		Reached  []string `json:"reached"`
		Observed []string `json:"observed"`
	}
	done := make(chan result, 1)
	if rep := os.Getenv("VERIF_REPEAT"); rep != "" {
		// sampling mode (confirmation of a support violation): run the harness many times with
		// the real generator and random values for the harness's own inputs; report the union of
		// the labels reached.
		n, _ := strconv.Atoi(rep)
		vfSampling = true
		seen := map[string]bool{}
		var union []string
		t0 := time.Now()
		runs := 0
		for ; runs < n && time.Since(t0) < 60*time.Second; runs++ {
			vfPos, vfReached, vfObserved = 0, nil, nil
			vfRandLog, vfRandLogging, vfRandReplay = nil, false, -1
			func() {
				defer func() {
					if r := recover(); r != nil {
						if _, ok := r.(vfStop); !ok {
							panic(r)
						}
					}
				}()
				fn()
			}()
			for _, l := range vfReached {
				if !seen[l] {
					seen[l] = true
					union = append(union, l)
				}
			}
		}
		out, _ := json.Marshal(result{Outcome: "ok", Msg: fmt.Sprintf("%d runs", runs), Reached: union})
		fmt.Printf("VERIF-RESULT %s\n", out)
		return
	}
	go func() {
		var res result
		defer func() {
			if r := recover(); r != nil {
				if st, ok := r.(vfStop); ok {
					res.Outcome, res.Label = st.kind, st.label
				} else {
					res.Outcome = "panic"
					res.Msg = fmt.Sprint(r)
					if os.Getenv("VERIF_STACK") != "" {
						res.Msg += "\n" + string(debug.Stack())
					}
				}
			}
			res.Reached, res.Observed = vfReached, vfObserved
			done <- res
		}()
		fn()
		res.Outcome = "ok"
	}()
	limit := 10 * time.Second
	if s := os.Getenv("VERIF_WATCHDOG"); s != "" {
		if d, err := time.ParseDuration(s); err == nil {
			limit = d
		}
	}
	var res result
	select {
	case res = <-done:
	case <-time.After(limit):
		res = result{Outcome: "hang", Msg: "no return within " + limit.String(), Reached: vfReached}
	}
	out, _ := json.Marshal(res)
	fmt.Printf("VERIF-RESULT %s\n", out)
}
