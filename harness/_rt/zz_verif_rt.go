//go:build verif

// Harness runtime. Under the symbolic engine every function below is intercepted by name
// (the bodies are never interpreted); natively they replay a recorded tape so that the very
// same harness is the replay test for a solver counterexample.
package PKGNAME

import (
	"math/rand"
	"time"
	"encoding/json"
	"fmt"
	"os"
	"strconv"
	"strings"
)

type vfTapeEnt struct {
	T string `json:"t"`
	V string `json:"v"`
	N string `json:"n"`
}

type vfReplayFile struct {
	Harness string      `json:"harness"`
	Kind    string      `json:"kind"`
	Label   string      `json:"label"`
	Tape    []vfTapeEnt `json:"tape"`
}

type vfStop struct {
	kind  string // assume, assert, tape
	label string
}

var (
	vfTape      []vfTapeEnt
	vfPos       int
	vfReached   []string
	vfObserved  []string
	vfAllowExit bool
	vfKnownSet  map[string]bool
)

func vfLoad(path string) (*vfReplayFile, error) {
	data, err := os.ReadFile(path)
	if err != nil {
		return nil, err
	}
	var rf vfReplayFile
	if err := json.Unmarshal(data, &rf); err != nil {
		return nil, err
	}
	vfTape = rf.Tape
	vfPos = 0
	vfReached = nil
	vfObserved = nil
	vfKnownSet = map[string]bool{}
	for _, k := range strings.Split(os.Getenv("VERIF_KNOWN"), ",") {
		if k != "" {
			vfKnownSet[k] = true
		}
	}
	return &rf, nil
}

type vfRandEnt struct {
	kind string
	n    int64
	i    int64
	f    float64
}

var (
	vfRandLog     []vfRandEnt
	vfRandLogging bool
	vfRandReplay  = -1
)

// verifRandMark / verifRandRewind model "seed the generator, run, seed it again with the same
// seed": the draws made after the mark are delivered again after the rewind, for as long as the
// requests (kind and bound) are those of the first run.
func verifRandMark() { vfRandLog, vfRandLogging, vfRandReplay = nil, true, -1 }

func verifRandRewind() { vfRandReplay = 0 }

// vfNextRand serves the math/rand overlay of the replay build (installed as rand.VerifNext):
// the outcome recorded for the next random draw. Draws and nondet inputs share one cursor,
// in program order.
func vfNextRand(kind string, n int64) (int64, float64, bool) {
	if vfRandReplay >= 0 {
		if vfRandReplay < len(vfRandLog) {
			e := vfRandLog[vfRandReplay]
			if e.kind == kind && e.n == n {
				vfRandReplay++
				return e.i, e.f, true
			}
		}
		vfRandReplay = -1
	}
	if vfPos >= len(vfTape) || vfTape[vfPos].T != kind {
		return 0, 0, false
	}
	e := vfTape[vfPos]
	vfPos++
	ent := vfRandEnt{kind: kind, n: n}
	if kind == "rand.f64" {
		ent.f, _ = strconv.ParseFloat(e.V, 64)
	} else {
		ent.i, _ = strconv.ParseInt(e.V, 10, 64)
	}
	if vfRandLogging {
		vfRandLog = append(vfRandLog, ent)
	}
	return ent.i, ent.f, true
}

// vfSampling: sampling mode. The harness's own inputs are drawn at random (private generator, the
// global one is left to the code under test).
var (
	vfSampling   bool
	vfRngVal *rand.Rand
)

func vfRng() *rand.Rand {
	if vfRngVal == nil {
		vfRngVal = rand.New(rand.NewSource(time.Now().UnixNano()))
	}
	return vfRngVal
}

func vfNext(kinds ...string) string {
	if vfPos >= len(vfTape) {
		panic(vfStop{kind: "tape", label: "tape exhausted"})
	}
	e := vfTape[vfPos]
	vfPos++
	for _, k := range kinds {
		if e.T == k {
			return e.V
		}
	}
	panic(vfStop{kind: "tape", label: fmt.Sprintf("tape entry %d has kind %s, want %v", vfPos-1, e.T, kinds)})
}

func nondetByte() uint8 {
	if vfSampling {
		return uint8(vfRng().Intn(256))
	}
	n, _ := strconv.ParseUint(vfNext("u8"), 10, 8)
	return uint8(n)
}

func nondetBool() bool {
	if vfSampling {
		return vfRng().Intn(2) == 1
	}
	return vfNext("bool") == "true"
}

func nondetInt() int {
	if vfSampling {
		return vfRng().Intn(17) - 8
	}
	n, _ := strconv.ParseInt(vfNext("i64"), 10, 64)
	return int(n)
}

// nondetRange returns an int in [lo, hi]; the engine enumerates every value (shape choice).
func nondetRange(lo, hi int) int {
	if vfSampling {
		if hi < lo {
			panic(vfStop{kind: "assume", label: "empty range"})
		}
		return lo + vfRng().Intn(hi-lo+1)
	}
	n, _ := strconv.ParseInt(vfNext("i64"), 10, 64)
	if int(n) < lo || int(n) > hi {
		panic(vfStop{kind: "tape", label: "range value outside bounds"})
	}
	return int(n)
}

// nondetFloat returns an arbitrary finite float64 (an arbitrary real under the engine).
func nondetFloat() float64 {
	if vfSampling {
		return float64(vfRng().Intn(65)-32) / 16
	}
	f, _ := strconv.ParseFloat(vfNext("f64"), 64)
	return f
}

// nondetDyadic returns k/den for an arbitrary integer k in [lo, hi].
func nondetDyadic(den, lo, hi int) float64 {
	if vfSampling {
		return float64(lo+vfRng().Intn(hi-lo+1)) / float64(den)
	}
	f, _ := strconv.ParseFloat(vfNext("f64"), 64)
	return f
}

func assume(b bool) {
	if !b {
		panic(vfStop{kind: "assume"})
	}
}

func verifAssert(b bool, label string) {
	if !b {
		panic(vfStop{kind: "assert", label: label})
	}
}

func verifReach(label string) { vfReached = append(vfReached, label) }

// verifSupport marks an outcome that must have positive probability: under the engine a label
// that no path reaches is a violation of the property (natively: recorded like verifReach).
func verifSupport(label string) { vfReached = append(vfReached, label) }

func verifObserve(label string, vals ...interface{}) {
	parts := make([]string, len(vals))
	for i, v := range vals {
		parts[i] = fmt.Sprint(v)
	}
	vfObserved = append(vfObserved, label+"="+strings.Join(parts, ","))
}

// verifKnown reports whether the known finding with this key is listed in known_findings.txt.
func verifKnown(key string) bool { return vfKnownSet[key] }

// verifAllowExit declares that an explicit error exit (io.ExitWithMessage) is acceptable.
func verifAllowExit() { vfAllowExit = true }

// verifSymbolic is true under the engine, false natively.
func verifSymbolic() bool { return false }

// verifMapOrder switches exploration of map iteration orders on or off (engine only).
func verifMapOrder(on bool) {}
