//go:build verif

package align

// C01 — alignments stay rectangular, uniquely named and index-consistent.
//
// This file holds the reference model (refBag: a plain list of (name, sequence) pairs plus
// alphabet and duplicate-name policy) and the generic post-state check. Every method of refBag
// implements the DOCUMENTED meaning of one public operation (doc comments of SeqBag/Alignment
// and of the methods in align/seqbag.go, align/align.go, and the statement of property C01);
// none of them looks at seqbag.seqmap, seqbag.seqs or align.length.

type refRow struct {
	name string
	seq  []uint8
}

type refBag struct {
	rows     []refRow
	alphabet int
	aligned  bool // Alignment (rows must have one length) or plain SeqBag
	policy   int  // IGNORE_NONE / IGNORE_NAME / IGNORE_SEQUENCE
	// dupOK is set once the CALLER asked for a renaming that gives two rows the same name; it
	// is the only situation in which C01 tolerates duplicate names.
	dupOK bool
	// ghosts: names that a row carried earlier (or that were mentioned in an argument). None of
	// them may resolve through a by-name lookup unless a row carries it now.
	ghosts []string
	// noIndex makes c01Check skip the by-name access paths. Only H_C01_rename_then sets it, for
	// the check between a renaming and the operation that follows, so that the consequences of a
	// name index that was not kept in step become visible one operation later.
	noIndex bool
}

func newRefBag(aligned bool, alphabet int) *refBag {
	return &refBag{aligned: aligned, alphabet: alphabet, policy: IGNORE_NONE}
}

func c01Copy(s []uint8) []uint8 {
	c := make([]uint8, len(s))
	copy(c, s)
	return c
}

func c01SameSeq(a, b []uint8) bool {
	if len(a) != len(b) {
		return false
	}
	eq := true
	for j := range a {
		eq = eq && a[j] == b[j]
	}
	return eq
}

// c01EqStr: the string s spells exactly the bytes b.
func c01EqStr(s string, b []uint8) bool {
	if len(s) != len(b) {
		return false
	}
	eq := true
	for j := range b {
		eq = eq && s[j] == b[j]
	}
	return eq
}

func c01Pad4(i int) string {
	return string([]byte{byte('0' + i/1000%10), byte('0' + i/100%10), byte('0' + i/10%10), byte('0' + i%10)})
}

func (m *refBag) find(name string) int {
	for i := range m.rows {
		if m.rows[i].name == name {
			return i
		}
	}
	return -1
}

func (m *refBag) count(name string) int {
	c := 0
	for i := range m.rows {
		if m.rows[i].name == name {
			c++
		}
	}
	return c
}

func (m *refBag) ghost(name string) {
	for _, g := range m.ghosts {
		if g == name {
			return
		}
	}
	m.ghosts = append(m.ghosts, name)
}

// length is the documented Length(): number of columns, -1 when the alignment is empty.
func (m *refBag) length() int {
	if len(m.rows) == 0 {
		return -1
	}
	return len(m.rows[0].seq)
}

func (m *refBag) clone() *refBag {
	c := &refBag{alphabet: m.alphabet, aligned: m.aligned, policy: m.policy, dupOK: m.dupOK}
	for _, r := range m.rows {
		c.rows = append(c.rows, refRow{r.name, c01Copy(r.seq)})
	}
	c.ghosts = append(c.ghosts, m.ghosts...)
	return c
}

func (m *refBag) noteDuplicates() {
	for i := range m.rows {
		for j := i + 1; j < len(m.rows); j++ {
			if m.rows[i].name == m.rows[j].name {
				m.dupOK = true
			}
		}
	}
}

// add: AddSequence / AddSequenceChar.
//   - IGNORE_NAME: a sequence whose name exists already is ignored (first one kept), no error;
//   - IGNORE_SEQUENCE: ignored when name AND sequence exist already;
//   - otherwise an existing name gets the first free 4-digit suffix _0001, _0002, ...;
//   - alignment only: a length different from the alignment's is rejected with an error and
//     nothing changes.
//
// Returns true when the insertion must be rejected with an error.
func (m *refBag) add(name string, s []uint8) (rejected bool) {
	i := m.find(name)
	if i >= 0 && m.policy == IGNORE_NAME {
		return false
	}
	if i >= 0 && m.policy == IGNORE_SEQUENCE && c01SameSeq(m.rows[i].seq, s) {
		return false
	}
	final := name
	for idx := 1; m.find(final) >= 0; idx++ {
		final = name + "_" + c01Pad4(idx)
	}
	if m.aligned && len(m.rows) > 0 && len(m.rows[0].seq) != len(s) {
		return true
	}
	m.rows = append(m.rows, refRow{final, c01Copy(s)})
	return false
}

// appendBag: Alignment.Append — "appends alignment sequences to this alignment": every row of
// o is added in order with the meaning of AddSequenceChar; the first rejected row stops it.
func (m *refBag) appendBag(o *refBag) (rejected bool) {
	for _, r := range o.rows {
		if m.add(r.name, r.seq) {
			return true
		}
	}
	return false
}

// concat: Alignment.Concat — rows present in both are joined; a row only in m gets a full-gap
// block of o's width; a row only in o is added (after the existing rows, in o's order) as a
// full-gap block of m's width followed by its residues. An empty alignment has no columns.
func (m *refBag) concat(o *refBag) {
	lm, lo := m.length(), o.length()
	if lm < 0 {
		lm = 0
	}
	if lo < 0 {
		lo = 0
	}
	for i := range m.rows {
		j := o.find(m.rows[i].name)
		if j >= 0 {
			m.rows[i].seq = append(c01Copy(m.rows[i].seq), o.rows[j].seq...)
		} else {
			m.rows[i].seq = append(c01Copy(m.rows[i].seq), c01Gaps(lo)...)
		}
	}
	nOld := len(m.rows)
	for _, r := range o.rows {
		known := false
		for i := 0; i < nOld; i++ {
			if m.rows[i].name == r.name {
				known = true
			}
		}
		if !known {
			m.rows = append(m.rows, refRow{r.name, append(c01Gaps(lm), r.seq...)})
		}
	}
}

func c01Gaps(n int) []uint8 {
	g := make([]uint8, n)
	for i := range g {
		g[i] = '-'
	}
	return g
}

// renameWith: every renaming operation (Rename, RenameRegexp, AppendSeqIdentifier, CleanNames,
// TrimNames, TrimNamesAuto) replaces the name of every row by f(old name), all rows at once.
func (m *refBag) renameWith(f func(old string) string) {
	for i := range m.rows {
		nn := f(m.rows[i].name)
		if nn != m.rows[i].name {
			m.ghost(m.rows[i].name)
		}
		m.rows[i].name = nn
	}
	m.noteDuplicates()
}

// sortByName: Sort — "sorts the sequences by name" (byte-wise string order; stable, which only
// matters when the caller created duplicate names).
func (m *refBag) sortByName() {
	for i := 1; i < len(m.rows); i++ {
		for j := i; j > 0 && m.rows[j].name < m.rows[j-1].name; j-- {
			m.rows[j], m.rows[j-1] = m.rows[j-1], m.rows[j]
		}
	}
}

func c01Canon(c uint8, alphabet int, nAsGap bool) uint8 {
	if nAsGap && ((alphabet == NUCLEOTIDS && c == 'N') || (alphabet == AMINOACIDS && c == 'X')) {
		return '-'
	}
	return c
}

// dedup: Deduplicate — keeps one copy of each sequence (the first found, with its name); with
// nAsGap, N (nucleotides) / X (amino acids) compare equal to a gap. Returns the groups of
// identical names, one group per kept row, in row order.
func (m *refBag) dedup(nAsGap bool) [][]string {
	var kept []refRow
	var groups [][]string
	for _, r := range m.rows {
		g := -1
		for k := range kept {
			same := len(kept[k].seq) == len(r.seq)
			if same {
				for j := range r.seq {
					same = same && c01Canon(kept[k].seq[j], m.alphabet, nAsGap) == c01Canon(r.seq[j], m.alphabet, nAsGap)
				}
			}
			if same && g < 0 {
				g = k
			}
		}
		if g < 0 {
			kept = append(kept, r)
			groups = append(groups, []string{r.name})
		} else {
			groups[g] = append(groups[g], r.name)
			m.ghost(r.name)
		}
	}
	m.rows = kept
	return groups
}

// removeRows keeps the rows for which drop is false; returns the number of removed rows.
func (m *refBag) removeRows(drop func(r refRow) bool) int {
	var kept []refRow
	removed := 0
	for _, r := range m.rows {
		if drop(r) {
			removed++
			m.ghost(r.name)
		} else {
			kept = append(kept, r)
		}
	}
	m.rows = kept
	return removed
}

// removeCols keeps the columns j with keep[j].
func (m *refBag) removeCols(keep []bool) {
	for i := range m.rows {
		var s []uint8
		for j, c := range m.rows[i].seq {
			if keep[j] {
				s = append(s, c)
			}
		}
		if s == nil {
			s = []uint8{}
		}
		m.rows[i].seq = s
	}
}

// trim: TrimSequences — removes t columns at the start or at the end; t<0 or t>=length is an error.
func (m *refBag) trim(t int, fromStart bool) (rejected bool) {
	if t < 0 || t >= m.length() {
		return true
	}
	for i := range m.rows {
		s := m.rows[i].seq
		if fromStart {
			m.rows[i].seq = c01Copy(s[t:])
		} else {
			m.rows[i].seq = c01Copy(s[:len(s)-t])
		}
	}
	return false
}

// filterLength: FilterLength — removes sequences whose length is < min or > max; a negative
// bound is not considered.
func (m *refBag) filterLength(min, max int) {
	m.removeRows(func(r refRow) bool {
		return (min >= 0 && len(r.seq) < min) || (max >= 0 && len(r.seq) > max)
	})
}

// unalign: Unalign — a new SeqBag with the same names, order and alphabet and every '-' removed.
func (m *refBag) unalign() *refBag {
	u := newRefBag(false, m.alphabet)
	for _, r := range m.rows {
		var s []uint8
		for _, c := range r.seq {
			if c != '-' {
				s = append(s, c)
			}
		}
		u.add(r.name, s)
	}
	return u
}

func (m *refBag) clear() {
	for _, r := range m.rows {
		m.ghost(r.name)
	}
	m.rows = nil
}

// ------------------------------------------------------------------ generic post-state check

// c01Check compares every observable of sb with the model:
//
//	(i)   names, row order, residues, alphabet, (alignment) Length() equal the model;
//	(ii)  rectangular: every row has Length() columns, Length()==-1 iff empty;
//	(iii) access paths agree: GetSequenceNameById / GetSequenceById / GetSequenceCharById /
//	      Sequence(i) / Sequences() / Iterate / IterateChar / IterateAll give row i, and for a
//	      name carried by exactly one row GetSequence / GetSequenceChar / GetSequenceByName /
//	      SequenceByName / GetSequenceIdByName give that same row; a name carried by no row is
//	      not found by any of them;
//	(iv)  names pairwise distinct unless the caller renamed two rows to one name.
func c01Check(sb SeqBag, m *refBag, ctx string) {
	n := len(m.rows)
	verifAssert(sb.NbSequences() == n, ctx+": number of rows equals the model")
	length := -1
	if m.aligned {
		length = sb.(Alignment).Length()
		verifAssert(length == m.length(), ctx+": Length() equals the model (-1 iff empty)")
	}
	// (i) + (ii)
	same := true
	for i := 0; i < n; i++ {
		name, ok := sb.GetSequenceNameById(i)
		verifAssert(ok && name == m.rows[i].name, ctx+": row names and order equal the model")
		chars, ok2 := sb.GetSequenceCharById(i)
		verifAssert(ok2, ctx+": GetSequenceCharById(i) finds row i")
		if m.aligned {
			verifAssert(len(chars) == length, ctx+": rectangular, every row has Length() columns")
		}
		verifAssert(len(chars) == len(m.rows[i].seq), ctx+": row length equals the model")
		for j := range chars {
			same = same && chars[j] == m.rows[i].seq[j]
		}
	}
	verifAssert(same, ctx+": residues equal the model")
	_, okOut := sb.GetSequenceNameById(n)
	_, okNeg := sb.GetSequenceCharById(-1)
	verifAssert(!okOut && !okNeg, ctx+": no row beyond NbSequences()")

	// (iv)
	for i := 0; i < n; i++ {
		for j := i + 1; j < n; j++ {
			if m.rows[i].name == m.rows[j].name {
				verifAssert(m.dupOK, ctx+": names pairwise distinct")
			}
		}
	}

	// (iii) index-based access paths and iteration
	byIdx := true
	seqs := sb.Sequences()
	verifAssert(len(seqs) == n, ctx+": Sequences() has one entry per row")
	for i := 0; i < n; i++ {
		s, ok := sb.GetSequenceById(i)
		verifAssert(ok, ctx+": GetSequenceById(i) finds row i")
		byIdx = byIdx && c01EqStr(s, m.rows[i].seq)
		sq, ok2 := sb.Sequence(i)
		verifAssert(ok2 && sq.Name() == m.rows[i].name, ctx+": Sequence(i) is row i")
		byIdx = byIdx && c01SameSeq(sq.SequenceChar(), m.rows[i].seq)
		verifAssert(seqs[i].Name() == m.rows[i].name, ctx+": Sequences()[i] is row i")
		byIdx = byIdx && c01SameSeq(seqs[i].SequenceChar(), m.rows[i].seq)
	}
	verifAssert(byIdx, ctx+": GetSequenceById / Sequence / Sequences give the residues of row i")

	var itNames []string
	var itSeqs []string
	sb.Iterate(func(name string, sequence string) bool {
		itNames = append(itNames, name)
		itSeqs = append(itSeqs, sequence)
		return false
	})
	verifAssert(len(itNames) == n, ctx+": Iterate visits every row once")
	iter := true
	for i := 0; i < n; i++ {
		verifAssert(itNames[i] == m.rows[i].name, ctx+": Iterate visits the rows in order")
		iter = iter && c01EqStr(itSeqs[i], m.rows[i].seq)
	}
	k := 0
	sb.IterateChar(func(name string, sequence []uint8) bool {
		verifAssert(k < n && name == m.rows[k].name, ctx+": IterateChar visits the rows in order")
		iter = iter && c01SameSeq(sequence, m.rows[k].seq)
		k++
		return false
	})
	verifAssert(k == n, ctx+": IterateChar visits every row once")
	k = 0
	sb.IterateAll(func(name string, sequence []uint8, comment string) bool {
		verifAssert(k < n && name == m.rows[k].name, ctx+": IterateAll visits the rows in order")
		iter = iter && c01SameSeq(sequence, m.rows[k].seq)
		k++
		return false
	})
	verifAssert(k == n, ctx+": IterateAll visits every row once")
	verifAssert(iter, ctx+": iteration gives the residues of the rows")

	// (iii) name-based access paths
	if m.noIndex {
		verifAssert(sb.Alphabet() == m.alphabet, ctx+": alphabet equals the model")
		return
	}
	byName := true
	for i := 0; i < n; i++ {
		nm := m.rows[i].name
		if m.count(nm) != 1 {
			continue // ambiguous by the caller's own renaming
		}
		verifAssert(sb.GetSequenceIdByName(nm) == i, ctx+": GetSequenceIdByName(name of row i) is i")
		s, ok := sb.GetSequence(nm)
		verifAssert(ok, ctx+": GetSequence(name of row i) finds a row")
		byName = byName && c01EqStr(s, m.rows[i].seq)
		ch, ok2 := sb.GetSequenceChar(nm)
		verifAssert(ok2, ctx+": GetSequenceChar(name of row i) finds a row")
		byName = byName && c01SameSeq(ch, m.rows[i].seq)
		sq, ok3 := sb.SequenceByName(nm)
		verifAssert(ok3 && sq.Name() == nm, ctx+": SequenceByName(name of row i) finds a row with that name")
		byName = byName && c01SameSeq(sq.SequenceChar(), m.rows[i].seq)
		sq2, ok4 := sb.GetSequenceByName(nm)
		verifAssert(ok4 && sq2.Name() == nm, ctx+": GetSequenceByName(name of row i) finds a row with that name")
		byName = byName && c01SameSeq(sq2.SequenceChar(), m.rows[i].seq)
	}
	verifAssert(byName, ctx+": by-name lookups give the residues of the row carrying the name")
	for _, g := range m.ghosts {
		if m.count(g) != 0 {
			continue
		}
		_, ok := sb.GetSequence(g)
		_, ok2 := sb.SequenceByName(g)
		_, ok3 := sb.GetSequenceChar(g)
		_, ok4 := sb.GetSequenceByName(g)
		verifAssert(!ok && !ok2 && !ok3 && !ok4, ctx+": a name carried by no row is not found by name")
		verifAssert(sb.GetSequenceIdByName(g) < 0, ctx+": GetSequenceIdByName of a name carried by no row is negative")
	}

	verifAssert(sb.Alphabet() == m.alphabet, ctx+": alphabet equals the model")
}
