//go:build verif

package align

// C12 — cleaning removes exactly the sites and sequences that meet the cutoff.
//
// Reference model (written from the documentation of RemoveCharacterSites & co. and from the
// property text, in integer arithmetic):
//
//   * a row (for the sequence variant: a column) is *excluded* from the fraction when it holds a
//     gap and gaps are ignored, or the wildcard of the alignment's OWN alphabet (N/n for
//     nucleotides, X/x for proteins) and wildcards are ignored;
//   * count = number of non-excluded cells that match the selection (member of the character
//     set, optionally case-insensitively, optionally inverted), total = number of non-excluded
//     cells;
//   * with the cutoff k/8: the site qualifies iff 8*count >= k*total, for k in 1..8, and iff
//     count > 0 when the cutoff is 0 (or outside [0,1], which is documented to mean 0);
//   * total == 0 leaves the fraction undefined: nothing is asserted about such a site.
//
// Known findings are excluded from the main harnesses only when listed in known_findings.txt:
//   C12-sites-wildcard-of-other-alphabet   RemoveCharacterSites ignores X/x in nucleotide and
//                                          N/n in protein alignments (constants swapped)
//   C12-ignored-cells-counted              cells excluded by the ignore options are still
//                                          counted as matching (numerator), fraction can exceed 1

const (
	vfC12KeyWild    = "C12-sites-wildcard-of-other-alphabet"
	vfC12KeyCounted = "C12-ignored-cells-counted"
)

// vfC12Res is the critical residue set: gap, both wildcards in both cases, a letter in both
// cases, a second letter, '.', and two non-letters standing for "any other printable".
func vfC12Res(c uint8) bool {
	switch c {
	case '-', 'N', 'n', 'X', 'x', 'A', 'a', 'C', '.', '?':
		return true
	}
	return false
}

func vfC12Printable(c uint8) bool { return c >= 0x21 && c <= 0x7e }

func vfC12Fold(c uint8) uint8 {
	if c >= 'A' && c <= 'Z' {
		return c + 32
	}
	return c
}

func vfC12Excluded(alphabet int, r uint8, ignoreGaps, ignoreNs bool) bool {
	w := uint8('N')
	if alphabet == AMINOACIDS {
		w = 'X'
	}
	return (ignoreGaps && r == '-') || (ignoreNs && (r == w || r == w+32))
}

func vfC12Selected(c []uint8, r uint8, ignoreCase, reverse bool) bool {
	in := false
	for _, x := range c {
		if x == r || (ignoreCase && vfC12Fold(x) == vfC12Fold(r)) {
			in = true
		}
	}
	return in != reverse
}

// vfC12Qualifies: fraction count/total >= k/8, in integers; k outside 1..8 means cutoff 0.
func vfC12Qualifies(count, total, k int) bool {
	if k <= 0 || k > 8 {
		return count > 0
	}
	return 8*count >= k*total
}

// Cutoffs are k/8 with a concrete k (one case per value): exactly representable, so the library's
// floating-point comparison is exact at ties. A symbolic k would make the library's
// cutoff*float64(total) a non-linear real product, which costs the solver far more than the split.

// vfC12Known reports whether the finding is listed in known_findings.txt.
func vfC12Known(key string) bool { return verifKnown(key) }

// vfC12Expect is the oracle's verdict in the form in which it is checked. It is computed BEFORE
// the call under test: the solver work for the reference model is then shared by all the paths
// through the library code, and after the call only plain assertions remain (the outcome of a
// call - which columns were removed, the two counts - is concrete on every path).
type vfC12Expect struct {
	okRemoved, okKept []bool // per column (per row for the sequence variant): is "removed" / "kept" a correct outcome
	okFirst, okLast   []bool // index v in 0..L: is v a correct leading / trailing count
}

// vfC12ExpectSites turns the per-column verdicts into expectations.
//   - not ends: column j must be removed iff qual[j] (nothing is asserted where !defined[j]);
//   - ends: exactly the maximal qualifying prefix and suffix must be removed;
//   - first / last must be the lengths of the maximal qualifying prefix / suffix.
//
// The two last items involve all columns and are asserted only when every column is defined.
func vfC12ExpectSites(L int, ends bool, qual, defined []bool) vfC12Expect {
	var e vfC12Expect
	allDef := true
	for j := 0; j < L; j++ {
		allDef = allDef && defined[j]
	}
	pre, suf := 0, 0
	run := true
	for j := 0; j < L; j++ {
		run = run && qual[j]
		if run {
			pre++
		}
	}
	run = true
	for j := L - 1; j >= 0; j-- {
		run = run && qual[j]
		if run {
			suf++
		}
	}
	for j := 0; j < L; j++ {
		if ends {
			want := j < pre || j >= L-suf
			e.okRemoved = append(e.okRemoved, !allDef || want)
			e.okKept = append(e.okKept, !allDef || !want)
		} else {
			e.okRemoved = append(e.okRemoved, !defined[j] || qual[j])
			e.okKept = append(e.okKept, !defined[j] || !qual[j])
		}
	}
	for v := 0; v <= L; v++ {
		e.okFirst = append(e.okFirst, !allDef || pre == v)
		e.okLast = append(e.okLast, !allDef || suf == v)
	}
	return e
}

// vfC12CheckSites asserts everything the property says about the outcome of a site-cleaning call.
func vfC12CheckSites(al *align, orig [][]uint8, n, L int, e vfC12Expect, first, last int, kept, rm []int) {
	// --- structure: kept and removed are sorted and partition 0..L-1
	prev := -1
	for _, p := range kept {
		verifAssert(p > prev && p < L, "kept indices strictly increasing and inside the alignment")
		prev = p
	}
	prev = -1
	for _, p := range rm {
		verifAssert(p > prev && p < L, "removed indices strictly increasing and inside the alignment")
		prev = p
	}
	verifAssert(len(kept)+len(rm) == L, "kept and removed together have L entries")
	inRm := make([]bool, L)
	for j := 0; j < L; j++ {
		c := 0
		for _, p := range kept {
			if p == j {
				c++
			}
		}
		for _, p := range rm {
			if p == j {
				c++
				inRm[j] = true
			}
		}
		verifAssert(c == 1, "every column is in exactly one of kept / removed")
	}
	// --- result = selection of the kept columns, names and order intact
	verifAssert(al.NbSequences() == n, "no sequence added or dropped")
	verifAssert(al.Length() == len(kept), "Length() is the number of kept columns")
	for i := 0; i < n; i++ {
		name, _ := al.GetSequenceNameById(i)
		verifAssert(name == vfNames[i], "names and order intact")
		got, _ := al.GetSequenceCharById(i)
		verifAssert(len(got) == len(kept), "row length is the number of kept columns")
		for t := 0; t < len(kept) && t < len(got); t++ {
			verifAssert(got[t] == orig[i][kept[t]], "result holds exactly the kept columns, in order")
		}
	}
	// --- which columns, and the two counts
	for j := 0; j < L; j++ {
		if inRm[j] {
			verifAssert(e.okRemoved[j], "a removed site qualifies (ends mode: lies in the maximal qualifying prefix or suffix)")
		} else {
			verifAssert(e.okKept[j], "a kept site does not qualify (ends mode: lies outside the maximal qualifying prefix and suffix)")
		}
	}
	if first < 0 || first > L || last < 0 || last > L {
		verifAssert(false, "leading/trailing counts inside 0..L")
		return
	}
	verifAssert(e.okFirst[first], "first = length of the maximal qualifying prefix")
	verifAssert(e.okLast[last], "last = length of the maximal qualifying suffix")
}

// vfC12Align builds an n x L alignment of fresh symbolic residues. The caller must assume the
// returned domain condition (one assume for all cells: every assume is a solver query).
func vfC12Align(alphabet, n, L int, ok func(uint8) bool) (*align, [][]uint8, bool) {
	al := NewAlign(alphabet)
	orig := make([][]uint8, n)
	dom := true
	for i := 0; i < n; i++ {
		s := make([]uint8, L)
		orig[i] = make([]uint8, L)
		for j := range s {
			s[j] = nondetByte()
			d := ok(s[j])
			dom = dom && d
			orig[i][j] = s[j]
		}
		if err := al.AddSequenceChar(vfNames[i], s, ""); err != nil {
			panic("harness: cannot build alignment: " + err.Error())
		}
	}
	return al, orig, dom
}

// vfC12Shape is one shape of the site/sequence harness bodies: n rows, L columns, the cutoffs
// (in eighths) tried on it, and whether two-character sets are tried besides single characters.
// ks == nil stands for a symbolic cutoff k/8 with k in 0..8 (nondetDyadic): all nine values in one
// path, at the price of a non-linear product cutoff*float64(total) in the library's comparison.
type vfC12Shape struct {
	n, L int
	ks   []int
	two  bool
}

// vfC12KsQuick: for n<=3 the attainable fractions are 0, 1/3, 1/2, 2/3, 1; the cutoffs 0, 3/8, 1/2,
// 5/8, 1 separate every pair of them and hit the exact ties 1/2 and 1.
var vfC12KsQuick = []int{0, 3, 4, 5, 8}
var vfC12KsAll = []int{0, 1, 2, 3, 4, 5, 6, 7, 8}

// vfC12SitesBody drives RemoveCharacterSites on one of the given shapes.
// mode 0: main harness; 1: only inputs of finding vfC12KeyWild; 2: only inputs of vfC12KeyCounted.
func vfC12SitesBody(ends bool, shapes []vfC12Shape, mode int) {
	sh := shapes[nondetRange(0, len(shapes)-1)]
	n, L := sh.n, sh.L
	alphabet := NUCLEOTIDS
	if nondetRange(0, 1) == 1 {
		alphabet = AMINOACIDS
	}
	nc := 1
	if sh.two {
		nc = nondetRange(1, 2)
	}
	// ignoreCase changes the control flow of the membership test a lot: explicit case split;
	// the other three flags are symbolic
	ignoreCase := nondetRange(0, 1) == 1
	al, orig, dom := vfC12Align(alphabet, n, L, vfC12Res)
	c := make([]uint8, nc)
	for t := range c {
		c[t] = nondetByte()
		d := vfC12Res(c[t])
		dom = dom && d
	}
	ignoreGaps, ignoreNs, reverse := nondetBool(), nondetBool(), nondetBool()

	// oracle: count and total per column
	count := make([]int, L)
	total := make([]int, L)
	wildRegion, countedRegion := false, false
	for j := 0; j < L; j++ {
		for i := 0; i < n; i++ {
			r := orig[i][j]
			ex := vfC12Excluded(alphabet, r, ignoreGaps, ignoreNs)
			sel := vfC12Selected(c, r, ignoreCase, reverse)
			if !ex {
				total[j]++
				if sel {
					count[j]++
				}
			} else if sel {
				countedRegion = true
			}
			if ignoreNs && (r == 'N' || r == 'n' || r == 'X' || r == 'x') {
				wildRegion = true
			}
		}
	}
	switch mode {
	case 0:
		if vfC12Known(vfC12KeyWild) {
			dom = dom && !wildRegion
		}
		if vfC12Known(vfC12KeyCounted) {
			dom = dom && !countedRegion
		}
	case 1:
		dom = dom && wildRegion && !countedRegion
	case 2:
		dom = dom && countedRegion && !wildRegion
	}
	assume(dom)
	// the cutoff is chosen last: the work above is shared by all cutoffs
	var k int
	var cutoff float64
	if sh.ks == nil {
		// symbolic cutoff k/8, k in 0..8 (see vfC12Shape)
		cutoff = nondetDyadic(8, 0, 8)
		k = int(cutoff * 8)
	} else {
		k = sh.ks[nondetRange(0, len(sh.ks)-1)]
		cutoff = float64(k) / 8
	}
	qual := make([]bool, L)
	defined := make([]bool, L)
	for j := 0; j < L; j++ {
		qual[j] = vfC12Qualifies(count[j], total[j], k)
		defined[j] = total[j] > 0
	}
	exp := vfC12ExpectSites(L, ends, qual, defined)

	first, last, kept, rm := al.RemoveCharacterSites(c, cutoff, ends, ignoreCase, ignoreGaps, ignoreNs, reverse)
	verifReach("cleaned")
	if len(rm) > 0 {
		verifReach("a site removed")
	}
	if len(kept) > 0 {
		verifReach("a site kept")
	}
	vfC12CheckSites(al, orig, n, L, exp, first, last, kept, rm)
}

// H_C12_sites: RemoveCharacterSites without ends mode removes a site iff it qualifies.
// bounds: nucleotide and protein alignments, one column (the rule is column-local), rows n<=3, residues and character set (1 character; also 2 characters for n<=2) over {- N n X x A a C . ?}, ignoreCase/ignoreGaps/ignoreNs/reverse all 16 combinations, cutoff in {0, 3/8, 1/2, 5/8, 1}
// outside: n>3, L>1 (see H_C12_sites_cols and the thorough twin), non-dyadic cutoffs (rounding at exact ties), sites whose rows are all excluded by the ignore options (0/0: nothing asserted), residues outside the critical set
func H_C12_sites() {
	vfC12SitesBody(false, []vfC12Shape{{1, 1, vfC12KsQuick, true}, {2, 1, vfC12KsQuick, true}, {3, 1, vfC12KsQuick, false}}, 0)
}

// H_C12_sites_cols: as H_C12_sites on two columns (every column judged on its own, result rebuilt from the kept ones).
// bounds: both alphabets, L=2, one row with cutoff in {0, 1/2, 1} and two rows with cutoff 1/2, one character, residues over {- N n X x A a C . ?}, all 16 option combinations
// outside: n>2, L>2, non-dyadic cutoffs, undefined fractions
func H_C12_sites_cols() {
	vfC12SitesBody(false, []vfC12Shape{{1, 2, []int{0, 4, 8}, false}, {2, 2, []int{4}, false}}, 0)
}

// H_C12_sites_deep: as H_C12_sites with all cutoffs k/8, two-character sets on three rows and two columns.
// bounds: as H_C12_sites with shapes 1x1, 2x1, 3x1, 1x2 (1-2 characters, cutoff k/8 for k in 0..8), 2x2 (one character, k in 0..8) and 3x2 (one character, cutoff 1/2)
// outside: n>3, L>2, non-dyadic cutoffs, undefined fractions
// verif: tier=thorough
func H_C12_sites_deep() {
	vfC12SitesBody(false, []vfC12Shape{{1, 1, vfC12KsAll, true}, {2, 1, vfC12KsAll, true}, {3, 1, vfC12KsAll, true},
		{1, 2, vfC12KsAll, true}, {2, 2, vfC12KsAll, false}, {3, 2, []int{4}, false}}, 0)
}

// H_C12_sites_ends: RemoveCharacterSites in ends mode removes exactly the maximal qualifying prefix and suffix.
// bounds: both alphabets, one row with L<=3 columns (cutoff 0 and 1/2 for L<=2, 1/2 for L=3; with one row every cutoff gives the same verdicts) and two rows with L=2 (cutoff 1/2), one character, residues over {- N n X x A a C . ?}, all 16 option combinations
// outside: L>3, n>2 (thorough twin), non-dyadic cutoffs, alignments with a site whose rows are all excluded (prefix/suffix undefined: only the structural assertions apply)
func H_C12_sites_ends() {
	vfC12SitesBody(true, []vfC12Shape{{1, 1, []int{0, 4}, false}, {1, 2, []int{0, 4}, false}, {1, 3, []int{4}, false}, {2, 2, []int{4}, false}}, 0)
}

// H_C12_sites_ends_deep: as H_C12_sites_ends, deeper.
// bounds: as H_C12_sites_ends with shapes 1x3 (1-2 characters), 1x4, 2x2 (cutoff k/8 for k in 0..8) and 2x3 (cutoff in {0, 1/2, 1})
// outside: n>2, L>4
// verif: tier=thorough
func H_C12_sites_ends_deep() {
	vfC12SitesBody(true, []vfC12Shape{{1, 3, vfC12KsAll, true}, {1, 4, vfC12KsAll, false}, {2, 2, vfC12KsAll, false}, {2, 3, []int{0, 4, 8}, false}}, 0)
}

// H_C12_sites_dyadic: as H_C12_sites with a symbolic cutoff k/8 (every k in 0..8 at once, ties included).
// bounds: both alphabets, one column, rows n in 2..3, one character, residues over {- N n X x A a C . ?}, all 16 option combinations, cutoff k/8 for every k in 0..8
// outside: n>3, L>1, non-dyadic cutoffs, undefined fractions
// assumes: thorough tier only - the non-linear queries sometimes exceed the 20 s quick-tier solver limit on a loaded machine
// verif: tier=thorough
func H_C12_sites_dyadic() {
	vfC12SitesBody(false, []vfC12Shape{{2, 1, nil, false}, {3, 1, nil, false}}, 0)
}

// H_C12_cutoff_range: a cutoff outside [0,1] behaves as the cutoff 0.
// bounds: both alphabets, n<=2, L=1, one character, cutoff in {-1/8, 9/8}, ends off, residues over {- N n X x A a C . ?}
// outside: other out-of-range values (NaN, infinities)
func H_C12_cutoff_range() {
	vfC12SitesBody(false, []vfC12Shape{{1, 1, []int{-1, 9}, false}, {2, 1, []int{-1, 9}, false}}, 0)
}

// K_C12_sites_wildcard: demonstrates that RemoveCharacterSites ignores the wildcard of the other alphabet.
// bounds: n<=2, L=1, ignoreNs with a wildcard residue present
// verif: known=C12-sites-wildcard-of-other-alphabet expect=violation
func K_C12_sites_wildcard() {
	vfC12SitesBody(false, []vfC12Shape{{1, 1, []int{4, 8}, false}, {2, 1, []int{4, 8}, false}}, 1)
}

// K_C12_sites_counted: demonstrates that cells excluded by the ignore options are still counted as matching.
// bounds: n<=2, L=1, an excluded cell matches the selection
// verif: known=C12-ignored-cells-counted expect=violation
func K_C12_sites_counted() {
	vfC12SitesBody(false, []vfC12Shape{{1, 1, []int{4, 8}, false}, {2, 1, []int{4, 8}, false}}, 2)
}

// H_C12_gapsites: RemoveGapSites(cutoff, ends) removes sites by their fraction of gaps over all rows.
// bounds: both alphabets, residues over {- N n X x A a C . ?}; ends off: one column with n<=3 rows and cutoff in {0, 3/8, 1/2, 5/8, 1, -1/8, 9/8}, 2x2 with cutoff 1/2; ends on: 1x3 and 2x2 with cutoff in {0, 1/2, 1}
// outside: n>3, L>3, non-dyadic cutoffs
func H_C12_gapsites() {
	ends := nondetRange(0, 1) == 1
	var shapes []vfC12Shape
	if ends {
		shapes = []vfC12Shape{{1, 3, []int{0, 4, 8}, false}, {2, 2, []int{0, 4, 8}, false}}
	} else {
		ks := []int{0, 3, 4, 5, 8, -1, 9}
		shapes = []vfC12Shape{{1, 1, ks, false}, {2, 1, ks, false}, {3, 1, ks, false}, {2, 2, []int{4}, false}}
	}
	sh := shapes[nondetRange(0, len(shapes)-1)]
	n, L := sh.n, sh.L
	alphabet := NUCLEOTIDS
	if nondetRange(0, 1) == 1 {
		alphabet = AMINOACIDS
	}
	al, orig, dom := vfC12Align(alphabet, n, L, vfC12Res)
	assume(dom)
	count := make([]int, L)
	for j := 0; j < L; j++ {
		for i := 0; i < n; i++ {
			if orig[i][j] == '-' {
				count[j]++
			}
		}
	}
	k := sh.ks[nondetRange(0, len(sh.ks)-1)]
	cutoff := float64(k) / 8
	qual := make([]bool, L)
	defined := make([]bool, L)
	for j := 0; j < L; j++ {
		qual[j] = vfC12Qualifies(count[j], n, k)
		defined[j] = true
	}
	exp := vfC12ExpectSites(L, ends, qual, defined)
	first, last, kept, rm := al.RemoveGapSites(cutoff, ends)
	verifReach("cleaned")
	vfC12CheckSites(al, orig, n, L, exp, first, last, kept, rm)
}

// vfC12MajorityBody drives RemoveMajorityCharacterSites.
func vfC12MajorityBody(shapes []vfC12Shape) {
	sh := shapes[nondetRange(0, len(shapes)-1)]
	n, L, ks := sh.n, sh.L, sh.ks
	alphabet := NUCLEOTIDS
	if nondetRange(0, 1) == 1 {
		alphabet = AMINOACIDS
	}
	ends := nondetRange(0, 1) == 1
	al, orig, dom := vfC12Align(alphabet, n, L, vfC12Res)
	ignoreGaps, ignoreNs := nondetBool(), nondetBool()

	best := make([]int, L)
	total := make([]int, L)
	for j := 0; j < L; j++ {
		for i := 0; i < n; i++ {
			r := orig[i][j]
			if vfC12Excluded(alphabet, r, ignoreGaps, ignoreNs) {
				continue
			}
			total[j]++
			// occurrences of this row's character in the column (rows holding the same
			// character are excluded or not together)
			occ := 0
			for i2 := 0; i2 < n; i2++ {
				r2 := orig[i2][j]
				if r2 == r {
					occ++
				} else if vfC12Fold(r2) == vfC12Fold(r) {
					// the property does not say whether the majority count folds case:
					// columns holding one letter in both cases are outside the claim
					dom = false
				}
			}
			if occ > best[j] {
				best[j] = occ
			}
		}
	}
	assume(dom)
	k := ks[nondetRange(0, len(ks)-1)]
	cutoff := float64(k) / 8
	qual := make([]bool, L)
	defined := make([]bool, L)
	for j := 0; j < L; j++ {
		qual[j] = vfC12Qualifies(best[j], total[j], k)
		defined[j] = total[j] > 0
	}
	exp := vfC12ExpectSites(L, ends, qual, defined)
	first, last, kept, rm := al.RemoveMajorityCharacterSites(cutoff, ends, ignoreGaps, ignoreNs)
	verifReach("cleaned")
	if len(rm) > 0 {
		verifReach("a site removed")
	}
	if len(kept) > 0 {
		verifReach("a site kept")
	}
	vfC12CheckSites(al, orig, n, L, exp, first, last, kept, rm)
}

// H_C12_majority: RemoveMajorityCharacterSites removes a site iff its most frequent character (among the rows not excluded) reaches the cutoff; ends mode as for characters.
// bounds: both alphabets, shapes 1x1, 2x1, 3x1 (cutoff in {0, 3/8, 1/2, 5/8, 1}) and 1x2, 2x2 (cutoff in {0, 1/2, 1}), residues over {- N n X x A a C . ?}, ends/ignoreGaps/ignoreNs all 8 combinations
// outside: n>3, L>2, non-dyadic cutoffs, sites whose rows are all excluded (nothing asserted), columns holding the same letter in both cases (the property does not say whether the majority count folds case)
func H_C12_majority() {
	ks3 := []int{0, 4, 8}
	vfC12MajorityBody([]vfC12Shape{{1, 1, vfC12KsQuick, false}, {2, 1, vfC12KsQuick, false}, {3, 1, vfC12KsQuick, false}, {1, 2, ks3, false}, {2, 2, ks3, false}})
}

// H_C12_majority_deep: as H_C12_majority, deeper.
// bounds: as H_C12_majority with shapes 3x1, 2x2 (cutoff k/8 for k in 0..8), 3x2 and 2x3 (cutoff in {0, 1/2, 1})
// outside: n>3, L>3
// verif: tier=thorough
func H_C12_majority_deep() {
	ks3 := []int{0, 4, 8}
	vfC12MajorityBody([]vfC12Shape{{3, 1, vfC12KsAll, false}, {2, 2, vfC12KsAll, false}, {3, 2, ks3, false}, {2, 3, ks3, false}})
}

// vfC12SeqsBody drives RemoveCharacterSeqs (gapVariant: RemoveGapSeqs).
func vfC12SeqsBody(gapVariant bool, shapes []vfC12Shape, mode int) {
	sh := shapes[nondetRange(0, len(shapes)-1)]
	n, L, ks := sh.n, sh.L, sh.ks
	alphabet := NUCLEOTIDS
	if nondetRange(0, 1) == 1 {
		alphabet = AMINOACIDS
	}
	c := uint8('-')
	ignoreCase, ignoreGaps := false, false
	if !gapVariant {
		ignoreCase = nondetRange(0, 1) == 1
	}
	al, orig, dom := vfC12Align(alphabet, n, L, vfC12Res)
	if !gapVariant {
		c = nondetByte()
		d := vfC12Res(c)
		dom = dom && d
		ignoreGaps = nondetBool()
	}
	ignoreNs := nondetBool()

	cs := []uint8{c}
	count := make([]int, n)
	total := make([]int, n)
	countedRegion := false
	for i := 0; i < n; i++ {
		for j := 0; j < L; j++ {
			r := orig[i][j]
			ex := vfC12Excluded(alphabet, r, ignoreGaps, ignoreNs)
			sel := vfC12Selected(cs, r, ignoreCase, false)
			if !ex {
				total[i]++
				if sel {
					count[i]++
				}
			} else if sel {
				countedRegion = true
			}
		}
	}
	switch mode {
	case 0:
		if vfC12Known(vfC12KeyCounted) {
			dom = dom && !countedRegion
		}
	case 2:
		dom = dom && countedRegion
	}
	assume(dom)
	k := ks[nondetRange(0, len(ks)-1)]
	cutoff := float64(k) / 8
	okRemoved := make([]bool, n)
	okKept := make([]bool, n)
	for i := 0; i < n; i++ {
		q := vfC12Qualifies(count[i], total[i], k)
		okRemoved[i] = total[i] == 0 || q
		okKept[i] = total[i] == 0 || !q
	}

	var nrm int
	if gapVariant {
		nrm = al.RemoveGapSeqs(cutoff, ignoreNs)
	} else {
		nrm = al.RemoveCharacterSeqs(c, cutoff, ignoreCase, ignoreGaps, ignoreNs)
	}
	verifReach("cleaned")
	nb := al.NbSequences()
	if nb > 0 {
		verifReach("a sequence kept")
	}
	if nb < n {
		verifReach("a sequence removed")
	}
	verifAssert(nrm == n-nb, "returned count is the number of removed sequences")
	if nb > 0 {
		verifAssert(al.Length() == L, "alignment length unchanged while sequences remain")
	}
	t := 0
	for i := 0; i < n; i++ {
		present := false
		if t < nb {
			name, _ := al.GetSequenceNameById(t)
			present = name == vfNames[i]
		}
		if present {
			verifAssert(okKept[i], "a kept sequence does not qualify")
			got, _ := al.GetSequenceCharById(t)
			verifAssert(len(got) == L, "kept sequence keeps its length")
			for j := 0; j < L && j < len(got); j++ {
				verifAssert(got[j] == orig[i][j], "kept sequence unchanged")
			}
			t++
		} else {
			verifAssert(okRemoved[i], "a removed sequence qualifies")
		}
	}
	verifAssert(t == nb, "result holds only original sequences, in the original order")
}

// H_C12_seqs: RemoveCharacterSeqs removes a sequence iff its fraction of the character reaches the cutoff; the others are kept intact and in order.
// bounds: both alphabets, shapes 1x1, 1x2, 1x3 (cutoff in {0, 3/8, 1/2, 5/8, 1}) and 2x1, 2x2 (cutoff in {0, 1/2, 1}), residues and the character over {- N n X x A a C . ?}, ignoreCase/ignoreGaps/ignoreNs all 8 combinations
// outside: n>2, L>3, non-dyadic cutoffs, sequences whose columns are all excluded (nothing asserted)
func H_C12_seqs() {
	ks3 := []int{0, 4, 8}
	vfC12SeqsBody(false, []vfC12Shape{{1, 1, vfC12KsQuick, false}, {1, 2, vfC12KsQuick, false}, {1, 3, vfC12KsQuick, false}, {2, 1, ks3, false}, {2, 2, ks3, false}}, 0)
}

// H_C12_seqs_deep: as H_C12_seqs, deeper.
// bounds: as H_C12_seqs with shapes 1x3, 2x2 (cutoff k/8 for k in 0..8), 2x3 and 3x2 (cutoff in {0, 1/2, 1})
// outside: n>3, L>3
// verif: tier=thorough
func H_C12_seqs_deep() {
	ks3 := []int{0, 4, 8}
	vfC12SeqsBody(false, []vfC12Shape{{1, 3, vfC12KsAll, false}, {2, 2, vfC12KsAll, false}, {2, 3, ks3, false}, {3, 2, ks3, false}}, 0)
}

// H_C12_gapseqs: RemoveGapSeqs(cutoff, ignoreNs) is the gap instance of the sequence rule.
// bounds: both alphabets, shapes 1x1, 1x2, 1x3, 2x1, 2x2, 2x3, residues over {- N n X x A a C . ?}, ignoreNs on/off, cutoff in {0, 3/8, 1/2, 5/8, 1} and the out-of-range values -1/8, 9/8
// outside: n>2, L>3, non-dyadic cutoffs, sequences made only of wildcards with ignoreNs (nothing asserted)
func H_C12_gapseqs() {
	ks := []int{0, 3, 4, 5, 8, -1, 9}
	vfC12SeqsBody(true, []vfC12Shape{{1, 1, ks, false}, {1, 2, ks, false}, {1, 3, ks, false}, {2, 1, ks, false}, {2, 2, ks, false}, {2, 3, ks, false}}, 0)
}

// K_C12_seqs_counted: demonstrates that RemoveCharacterSeqs counts cells excluded by the ignore options as matching.
// bounds: 1x1 and 1x2, an excluded cell matches the character
// verif: known=C12-ignored-cells-counted expect=violation
func K_C12_seqs_counted() {
	vfC12SeqsBody(false, []vfC12Shape{{1, 1, []int{4, 8}, false}, {1, 2, []int{4, 8}, false}}, 2)
}

// H_C12_kept_removed_partition: for every input the reported kept/removed indices partition the columns and the result is the selection of the kept columns (no oracle for which columns).
// bounds: both alphabets, shapes 1x1, 2x1, 1x2, 1x3, residues and the character (two characters on 1x1) any printable ASCII 0x21..0x7e, all 32 option combinations, cutoff in {0, 1/2, 9/8}
// outside: n>2, L>3, bytes >= 0x80
func H_C12_kept_removed_partition() {
	alphabet := NUCLEOTIDS
	if nondetRange(0, 1) == 1 {
		alphabet = AMINOACIDS
	}
	shapes := [][2]int{{1, 1}, {2, 1}, {1, 2}, {1, 3}}
	sh := shapes[nondetRange(0, len(shapes)-1)]
	n, L := sh[0], sh[1]
	nc := 1
	if n*L == 1 {
		nc = nondetRange(1, 2)
	}
	ends := nondetRange(0, 1) == 1
	ignoreCase := nondetRange(0, 1) == 1
	al, orig, dom := vfC12Align(alphabet, n, L, vfC12Printable)
	c := make([]uint8, nc)
	for t := range c {
		c[t] = nondetByte()
		d := vfC12Printable(c[t])
		dom = dom && d
	}
	assume(dom)
	ignoreGaps, ignoreNs, reverse := nondetBool(), nondetBool(), nondetBool()
	ks := []int{0, 4, 9}
	cutoff := float64(ks[nondetRange(0, len(ks)-1)]) / 8
	// no verdict about which columns: every outcome is acceptable to the oracle
	var exp vfC12Expect
	for j := 0; j <= L; j++ {
		exp.okRemoved = append(exp.okRemoved, true)
		exp.okKept = append(exp.okKept, true)
		exp.okFirst = append(exp.okFirst, true)
		exp.okLast = append(exp.okLast, true)
	}
	first, last, kept, rm := al.RemoveCharacterSites(c, cutoff, ends, ignoreCase, ignoreGaps, ignoreNs, reverse)
	verifReach("cleaned")
	vfC12CheckSites(al, orig, n, L, exp, first, last, kept, rm)
	// the leading / trailing counts are runs of removed columns at the two ends
	verifAssert(first >= 0 && first <= len(rm) && last >= 0 && last <= len(rm), "leading/trailing counts do not exceed the number of removed columns")
	for j := 0; j < len(rm); j++ {
		if j < first {
			verifAssert(rm[j] == j, "the leading count columns are removed")
		}
		if j < last {
			verifAssert(rm[len(rm)-1-j] == L-1-j, "the trailing count columns are removed")
		}
	}
	if ends {
		verifAssert(len(rm) <= first+last, "ends mode removes nothing but the leading and trailing runs")
	}
}
