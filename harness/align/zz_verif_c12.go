//go:build verif

package align

// C12 — cleaning removes exactly the sites and sequences that meet the cutoff.
//
// Reference model (written from the documentation of RemoveCharacterSites & co. and from the
// property text, in integer arithmetic):
//
//   * a row (for the sequence variant: a column) is *excluded* from the fraction when it holds a
//     gap and gaps are ignored, or the wildcard of the alignment's OWN alphabet (N/n for
//     nucleotides, X/x for proteins) and wildcards are ignored;
//   * count = number of non-excluded cells that match the selection (member of the character
//     set, optionally case-insensitively, optionally inverted), total = number of non-excluded
//     cells;
//   * with the cutoff k/8: the site qualifies iff 8*count >= k*total, for k in 1..8, and iff
//     count > 0 when the cutoff is 0 (or outside [0,1], which is documented to mean 0);
//   * total == 0 leaves the fraction undefined: nothing is asserted about such a site.
//
// Known findings are excluded from the main harnesses only when listed in known_findings.txt:
//   C12-sites-wildcard-of-other-alphabet   RemoveCharacterSites ignores X/x in nucleotide and
//                                          N/n in protein alignments (constants swapped)
//   C12-ignored-cells-counted              cells excluded by the ignore options are still
//                                          counted as matching (numerator), fraction can exceed 1

const (
	vfC12KeyWild    = "C12-sites-wildcard-of-other-alphabet"
	vfC12KeyCounted = "C12-ignored-cells-counted"
)

// vfC12Res is the critical residue set: gap, both wildcards in both cases, a letter in both
// cases, a second letter, '.', and two non-letters standing for "any other printable".
func vfC12Res(c uint8) bool {
	switch c {
	case '-', 'N', 'n', 'X', 'x', 'A', 'a', 'C', '.', '?':
		return true
	}
	return false
}

func vfC12Printable(c uint8) bool { return c >= 0x21 && c <= 0x7e }

func vfC12Fold(c uint8) uint8 {
	if c >= 'A' && c <= 'Z' {
		return c + 32
	}
	return c
}

func vfC12Excluded(alphabet int, r uint8, ignoreGaps, ignoreNs bool) bool {
	w := uint8('N')
	if alphabet == AMINOACIDS {
		w = 'X'
	}
	return (ignoreGaps && r == '-') || (ignoreNs && (r == w || r == w+32))
}

func vfC12Selected(c []uint8, r uint8, ignoreCase, reverse bool) bool {
	in := false
	for _, x := range c {
		if x == r || (ignoreCase && vfC12Fold(x) == vfC12Fold(r)) {
			in = true
		}
	}
	return in != reverse
}

// vfC12Qualifies: fraction count/total >= k/8, in integers; k outside 1..8 means cutoff 0.
func vfC12Qualifies(count, total, k int) bool {
	if k <= 0 || k > 8 {
		return count > 0
	}
	return 8*count >= k*total
}

// vfC12Cutoff returns a dyadic cutoff k/8 (exactly representable, so that the comparison with
// the fraction is exact at ties) and k. Every k in lo..hi is a separate case: a symbolic k makes
// the library's cutoff*float64(total) a non-linear real product, which costs the solver far more
// than the case split. lo/hi may reach outside 0..8 to cover "outside [0,1] means 0".
func vfC12Cutoff(lo, hi int) (float64, int) {
	k := nondetRange(lo, hi)
	return float64(k) / 8, k
}

// vfC12Known: DEBUG gate
func vfC12Known(key string) bool { return true || verifKnown(key) }

func vfC12B2I(b bool) int {
	if b {
		return 1
	}
	return 0
}

// vfC12CheckSites asserts everything the property says about the outcome of a site-cleaning
// call, given the oracle's verdict qual[j] for every column (valid where defined[j]).
func vfC12CheckSites(al *align, orig [][]uint8, n, L int, ends bool, qual, defined []bool,
	first, last int, kept, rm []int) {
	// --- structure: kept and removed are sorted and partition 0..L-1
	prev := -1
	for _, p := range kept {
		verifAssert(p > prev && p < L, "kept indices strictly increasing and inside the alignment")
		prev = p
	}
	prev = -1
	for _, p := range rm {
		verifAssert(p > prev && p < L, "removed indices strictly increasing and inside the alignment")
		prev = p
	}
	verifAssert(len(kept)+len(rm) == L, "kept and removed together have L entries")
	inRm := make([]bool, L)
	for j := 0; j < L; j++ {
		c := 0
		for _, p := range kept {
			if p == j {
				c++
			}
		}
		for _, p := range rm {
			if p == j {
				c++
				inRm[j] = true
			}
		}
		verifAssert(c == 1, "every column is in exactly one of kept / removed")
	}
	// --- result = selection of the kept columns, names and order intact
	verifAssert(al.NbSequences() == n, "no sequence added or dropped")
	verifAssert(al.Length() == len(kept), "Length() is the number of kept columns")
	for i := 0; i < n; i++ {
		name, _ := al.GetSequenceNameById(i)
		verifAssert(name == vfNames[i], "names and order intact")
		got, _ := al.GetSequenceCharById(i)
		verifAssert(len(got) == len(kept), "row length is the number of kept columns")
		for t := 0; t < len(kept) && t < len(got); t++ {
			verifAssert(got[t] == orig[i][kept[t]], "result holds exactly the kept columns, in order")
		}
	}
	// --- which columns: oracle (branch-free on symbolic values: 0/1 integers)
	allDef := 1
	for j := 0; j < L; j++ {
		d := vfC12B2I(defined[j])
		allDef &= d
	}
	pre, suf := 0, 0
	run := 1
	for j := 0; j < L; j++ {
		q := vfC12B2I(qual[j])
		run &= q
		pre += run
	}
	run = 1
	for j := L - 1; j >= 0; j-- {
		q := vfC12B2I(qual[j])
		run &= q
		suf += run
	}
	verifAssert(allDef == 0 || first == pre, "first = length of the maximal qualifying prefix")
	verifAssert(allDef == 0 || last == suf, "last = length of the maximal qualifying suffix")
	for j := 0; j < L; j++ {
		r := vfC12B2I(inRm[j])
		if ends {
			verifAssert(allDef == 0 || (r == 1) == (j < pre || j >= L-suf), "ends mode removes exactly the maximal qualifying prefix and suffix")
		} else {
			d := vfC12B2I(defined[j])
			q := vfC12B2I(qual[j])
			verifAssert(d == 0 || r == q, "site removed iff it qualifies")
		}
	}
}

// vfC12Cfg bounds one run of the site-cleaning harness body.
type vfC12Cfg struct {
	ends                   bool
	nmin, nmax, lmin, lmax int
	maxCells2              int   // two-character sets only while n*L <= maxCells2 (one character otherwise)
	ks                     []int // cutoffs, in eighths
	mode                   int   // 0 main; 1 only inputs of finding vfC12KeyWild; 2 only inputs of vfC12KeyCounted
}

// vfC12KsQuick: for n<=3 the attainable fractions are 0, 1/3, 1/2, 2/3, 1; the cutoffs 0, 3/8, 1/2,
// 5/8, 1 separate every pair of them and hit the exact ties 1/2 and 1.
var vfC12KsQuick = []int{0, 3, 4, 5, 8}
var vfC12KsAll = []int{0, 1, 2, 3, 4, 5, 6, 7, 8}

// vfC12SitesBody drives RemoveCharacterSites.
func vfC12SitesBody(cfg vfC12Cfg) {
	alphabet := NUCLEOTIDS
	if nondetRange(0, 1) == 1 {
		alphabet = AMINOACIDS
	}
	n := nondetRange(cfg.nmin, cfg.nmax)
	L := nondetRange(cfg.lmin, cfg.lmax)
	nc := 1
	if n*L <= cfg.maxCells2 {
		nc = nondetRange(1, 2)
	}
	// ignoreCase changes the control flow of the membership test a lot: explicit case split
	ignoreCase := nondetRange(0, 1) == 1
	k := cfg.ks[nondetRange(0, len(cfg.ks)-1)]
	cutoff := float64(k) / 8
	al, orig := vfSymAlign(alphabet, n, L, vfC12Res)
	c := make([]uint8, nc)
	for t := range c {
		c[t] = nondetByte()
		assume(vfC12Res(c[t]))
	}
	ignoreGaps, ignoreNs, reverse := nondetBool(), nondetBool(), nondetBool()

	// oracle
	qual := make([]bool, L)
	defined := make([]bool, L)
	wildRegion, countedRegion := false, false
	for j := 0; j < L; j++ {
		count, total := 0, 0
		for i := 0; i < n; i++ {
			r := orig[i][j]
			ex := vfC12Excluded(alphabet, r, ignoreGaps, ignoreNs)
			sel := vfC12Selected(c, r, ignoreCase, reverse)
			total += vfC12B2I(!ex)
			count += vfC12B2I(!ex && sel)
			countedRegion = countedRegion || (ex && sel)
			wildRegion = wildRegion || (ignoreNs && (r == 'N' || r == 'n' || r == 'X' || r == 'x'))
		}
		qual[j] = vfC12Qualifies(count, total, k)
		defined[j] = total > 0
	}
	switch cfg.mode {
	case 0:
		if vfC12Known(vfC12KeyWild) {
			assume(!wildRegion)
		}
		if vfC12Known(vfC12KeyCounted) {
			assume(!countedRegion)
		}
	case 1:
		assume(wildRegion && !countedRegion)
	case 2:
		assume(countedRegion && !wildRegion)
	}

	first, last, kept, rm := al.RemoveCharacterSites(c, cutoff, cfg.ends, ignoreCase, ignoreGaps, ignoreNs, reverse)
	verifReach("cleaned")
	if len(rm) > 0 && len(kept) > 0 {
		verifReach("some removed, some kept")
	}
	vfC12CheckSites(al, orig, n, L, cfg.ends, qual, defined, first, last, kept, rm)
}

// H_C12_sites: RemoveCharacterSites without ends mode removes a site iff it qualifies.
// bounds: nucleotide and protein alignments, one column (the rule is column-local), rows n<=3, residues and character set (1 character; 2 characters for n<=2) over {- N n X x A a C . ?}, ignoreCase/ignoreGaps/ignoreNs/reverse all 16 combinations, cutoff in {0, 3/8, 1/2, 5/8, 1}
// outside: n>3, L>1 (see H_C12_sites_cols and the thorough twin), non-dyadic cutoffs (rounding at exact ties), sites whose rows are all excluded by the ignore options (0/0: nothing asserted), residues outside the critical set
func H_C12_sites() {
	vfC12SitesBody(vfC12Cfg{ends: false, nmin: 1, nmax: 3, lmin: 1, lmax: 1, maxCells2: 2, ks: vfC12KsQuick})
}

// H_C12_sites_cols: as H_C12_sites on two columns (every column judged on its own, result rebuilt from the kept ones).
// bounds: both alphabets, L=2, n<=2, one character, residues over {- N n X x A a C . ?}, all 16 option combinations, cutoff in {0, 1/2, 1}
// outside: n>2, L>2, non-dyadic cutoffs, undefined fractions
func H_C12_sites_cols() {
	vfC12SitesBody(vfC12Cfg{ends: false, nmin: 1, nmax: 2, lmin: 2, lmax: 2, maxCells2: 0, ks: []int{0, 4, 8}})
}

// H_C12_sites_deep: as H_C12_sites with all cutoffs k/8 and up to two columns.
// bounds: as H_C12_sites with n<=3, L<=2, cutoff k/8 for k in 0..8, 2-character sets for n*L<=3
// outside: n>3, L>2, non-dyadic cutoffs, undefined fractions
//verif: tier=thorough
func H_C12_sites_deep() {
	vfC12SitesBody(vfC12Cfg{ends: false, nmin: 1, nmax: 3, lmin: 1, lmax: 2, maxCells2: 3, ks: vfC12KsAll})
}

// H_C12_sites_ends: RemoveCharacterSites in ends mode removes exactly the maximal qualifying prefix and suffix.
// bounds: both alphabets, one row with L<=3 columns and two rows with L=2, one character, residues over {- N n X x A a C . ?}, all 16 option combinations, cutoff in {0, 1/2, 1}
// outside: L>3, n>2 (thorough twin), non-dyadic cutoffs, alignments with a site whose rows are all excluded (prefix/suffix undefined: only the structural assertions apply)
func H_C12_sites_ends() {
	if nondetRange(0, 1) == 0 {
		vfC12SitesBody(vfC12Cfg{ends: true, nmin: 1, nmax: 1, lmin: 1, lmax: 3, maxCells2: 0, ks: []int{0, 4, 8}})
	} else {
		vfC12SitesBody(vfC12Cfg{ends: true, nmin: 2, nmax: 2, lmin: 2, lmax: 2, maxCells2: 0, ks: []int{0, 4, 8}})
	}
}

// H_C12_sites_ends_deep: as H_C12_sites_ends, deeper.
// bounds: as H_C12_sites_ends with n<=2, L<=4 (n*L<=6), cutoff k/8 for k in 0..8
// outside: n>2, L>4
//verif: tier=thorough
func H_C12_sites_ends_deep() {
	if nondetRange(0, 1) == 0 {
		vfC12SitesBody(vfC12Cfg{ends: true, nmin: 1, nmax: 1, lmin: 1, lmax: 4, maxCells2: 2, ks: vfC12KsAll})
	} else {
		vfC12SitesBody(vfC12Cfg{ends: true, nmin: 2, nmax: 2, lmin: 2, lmax: 3, maxCells2: 0, ks: vfC12KsAll})
	}
}

// H_C12_cutoff_range: a cutoff outside [0,1] behaves as the cutoff 0.
// bounds: both alphabets, n<=2, L<=2, one character, cutoff in {-1/8, 9/8}, ends off, residues over {- N n X x A a C . ?}
// outside: other out-of-range values (NaN, infinities)
func H_C12_cutoff_range() {
	vfC12SitesBody(vfC12Cfg{ends: false, nmin: 1, nmax: 2, lmin: 1, lmax: 1, maxCells2: 0, ks: []int{-1, 9}})
}

// K_C12_sites_wildcard: demonstrates that RemoveCharacterSites ignores the wildcard of the other alphabet.
// bounds: n<=2, L=1, ignoreNs with a wildcard residue present
//verif: known=C12-sites-wildcard-of-other-alphabet expect=violation
func K_C12_sites_wildcard() {
	vfC12SitesBody(vfC12Cfg{ends: false, nmin: 1, nmax: 2, lmin: 1, lmax: 1, maxCells2: 0, ks: []int{4, 8}, mode: 1})
}

// K_C12_sites_counted: demonstrates that cells excluded by the ignore options are still counted as matching.
// bounds: n<=2, L=1, an excluded cell matches the selection
//verif: known=C12-ignored-cells-counted expect=violation
func K_C12_sites_counted() {
	vfC12SitesBody(vfC12Cfg{ends: false, nmin: 1, nmax: 2, lmin: 1, lmax: 1, maxCells2: 0, ks: []int{4, 8}, mode: 2})
}

// H_C12_gapsites: RemoveGapSites(cutoff, ends) removes sites by their fraction of gaps over all rows.
// bounds: both alphabets, rows n<=3, columns L<=3, residues over {- N n X x A a C . ?}, ends on/off, cutoff k/8 for k in -1..9
// outside: n>3, L>3, non-dyadic cutoffs
func H_C12_gapsites() {
	alphabet := NUCLEOTIDS
	if nondetRange(0, 1) == 1 {
		alphabet = AMINOACIDS
	}
	ends := nondetRange(0, 1) == 1
	n := nondetRange(1, 3)
	L := nondetRange(1, 3)
	al, orig := vfSymAlign(alphabet, n, L, vfC12Res)
	cutoff, k := vfC12Cutoff(-1, 9)
	qual := make([]bool, L)
	defined := make([]bool, L)
	for j := 0; j < L; j++ {
		count := 0
		for i := 0; i < n; i++ {
			count += vfC12B2I(orig[i][j] == '-')
		}
		qual[j] = vfC12Qualifies(count, n, k)
		defined[j] = true
	}
	first, last, kept, rm := al.RemoveGapSites(cutoff, ends)
	verifReach("cleaned")
	vfC12CheckSites(al, orig, n, L, ends, qual, defined, first, last, kept, rm)
}

// vfC12MajorityBody drives RemoveMajorityCharacterSites.
func vfC12MajorityBody(nmin, nmax, lmin, lmax int) {
	alphabet := NUCLEOTIDS
	if nondetRange(0, 1) == 1 {
		alphabet = AMINOACIDS
	}
	ends := nondetRange(0, 1) == 1
	n := nondetRange(nmin, nmax)
	L := nondetRange(lmin, lmax)
	al, orig := vfSymAlign(alphabet, n, L, vfC12Res)
	ignoreGaps, ignoreNs := nondetBool(), nondetBool()
	cutoff, k := vfC12Cutoff(-1, 9)

	qual := make([]bool, L)
	defined := make([]bool, L)
	for j := 0; j < L; j++ {
		total, best := 0, 0
		for i := 0; i < n; i++ {
			r := orig[i][j]
			ex := vfC12Excluded(alphabet, r, ignoreGaps, ignoreNs)
			total += vfC12B2I(!ex)
			// occurrences of this row's character among the non-excluded rows
			occ := 0
			for i2 := 0; i2 < n; i2++ {
				r2 := orig[i2][j]
				occ += vfC12B2I(r2 == r)
				// the property does not say whether the majority count folds case: columns
				// holding one letter in both cases are outside the claim
				assume(r2 == r || vfC12Fold(r2) != vfC12Fold(r))
			}
			if !ex && occ > best {
				best = occ
			}
		}
		qual[j] = vfC12Qualifies(best, total, k)
		defined[j] = total > 0
	}
	first, last, kept, rm := al.RemoveMajorityCharacterSites(cutoff, ends, ignoreGaps, ignoreNs)
	verifReach("cleaned")
	if len(rm) > 0 && len(kept) > 0 {
		verifReach("some removed, some kept")
	}
	vfC12CheckSites(al, orig, n, L, ends, qual, defined, first, last, kept, rm)
}

// H_C12_majority: RemoveMajorityCharacterSites removes a site iff its most frequent character (among the rows not excluded) reaches the cutoff; ends mode as for characters.
// bounds: both alphabets, rows n<=3, columns L<=2, residues over {- N n X x A a C . ?}, ends/ignoreGaps/ignoreNs all 8 combinations, cutoff k/8 for k in -1..9
// outside: n>3, L>2 (thorough twin L=3), non-dyadic cutoffs, sites whose rows are all excluded (nothing asserted), columns holding the same letter in both cases (the property does not say whether the majority count folds case)
func H_C12_majority() { vfC12MajorityBody(1, 3, 1, 2) }

// H_C12_majority_deep: as H_C12_majority with three columns.
// bounds: as H_C12_majority with n in 2..3, L=3
// outside: n>3, L>3
//verif: tier=thorough
func H_C12_majority_deep() { vfC12MajorityBody(2, 3, 3, 3) }

// vfC12SeqsBody drives RemoveCharacterSeqs (gapVariant: RemoveGapSeqs).
func vfC12SeqsBody(gapVariant bool, nmin, nmax, lmin, lmax int, mode int) {
	alphabet := NUCLEOTIDS
	if nondetRange(0, 1) == 1 {
		alphabet = AMINOACIDS
	}
	n := nondetRange(nmin, nmax)
	L := nondetRange(lmin, lmax)
	al, orig := vfSymAlign(alphabet, n, L, vfC12Res)
	c := uint8('-')
	ignoreCase, ignoreGaps := false, false
	if !gapVariant {
		c = nondetByte()
		assume(vfC12Res(c))
		ignoreCase, ignoreGaps = nondetBool(), nondetBool()
	}
	ignoreNs := nondetBool()
	cutoff, k := vfC12Cutoff(-1, 9)

	cs := []uint8{c}
	qual := make([]bool, n)
	defined := make([]bool, n)
	countedRegion := false
	for i := 0; i < n; i++ {
		count, total := 0, 0
		for j := 0; j < L; j++ {
			r := orig[i][j]
			ex := vfC12Excluded(alphabet, r, ignoreGaps, ignoreNs)
			sel := vfC12Selected(cs, r, ignoreCase, false)
			total += vfC12B2I(!ex)
			count += vfC12B2I(!ex && sel)
			countedRegion = countedRegion || (ex && sel)
		}
		qual[i] = vfC12Qualifies(count, total, k)
		defined[i] = total > 0
	}
	switch mode {
	case 0:
		if vfC12Known(vfC12KeyCounted) {
			assume(!countedRegion)
		}
	case 2:
		assume(countedRegion)
	}

	var nrm int
	if gapVariant {
		nrm = al.RemoveGapSeqs(cutoff, ignoreNs)
	} else {
		nrm = al.RemoveCharacterSeqs(c, cutoff, ignoreCase, ignoreGaps, ignoreNs)
	}
	verifReach("cleaned")
	nb := al.NbSequences()
	if nb > 0 && nb < n {
		verifReach("some removed, some kept")
	}
	verifAssert(nrm == n-nb, "returned count is the number of removed sequences")
	if nb > 0 {
		verifAssert(al.Length() == L, "alignment length unchanged while sequences remain")
	}
	t := 0
	for i := 0; i < n; i++ {
		present := false
		if t < nb {
			name, _ := al.GetSequenceNameById(t)
			present = name == vfNames[i]
		}
		verifAssert(!defined[i] || present == !qual[i], "sequence removed iff it qualifies")
		if present {
			got, _ := al.GetSequenceCharById(t)
			verifAssert(len(got) == L, "kept sequence keeps its length")
			for j := 0; j < L && j < len(got); j++ {
				verifAssert(got[j] == orig[i][j], "kept sequence unchanged")
			}
			t++
		}
	}
	verifAssert(t == nb, "result holds only original sequences, in the original order")
}

// H_C12_seqs: RemoveCharacterSeqs removes a sequence iff its fraction of the character reaches the cutoff; the others are kept intact and in order.
// bounds: both alphabets, rows n<=2, columns L<=3, residues and the character over {- N n X x A a C . ?}, ignoreCase/ignoreGaps/ignoreNs all 8 combinations, cutoff k/8 for k in -1..9
// outside: n>2, L>3 (thorough twin n=3), non-dyadic cutoffs, sequences whose columns are all excluded (nothing asserted)
func H_C12_seqs() { vfC12SeqsBody(false, 1, 2, 1, 3, 0) }

// H_C12_seqs_deep: as H_C12_seqs with three rows.
// bounds: as H_C12_seqs with n=3, L in 2..3
// outside: n>3, L>3
//verif: tier=thorough
func H_C12_seqs_deep() { vfC12SeqsBody(false, 3, 3, 2, 3, 0) }

// H_C12_gapseqs: RemoveGapSeqs(cutoff, ignoreNs) is the gap instance of the sequence rule.
// bounds: both alphabets, rows n<=2, columns L<=3, residues over {- N n X x A a C . ?}, ignoreNs on/off, cutoff k/8 for k in -1..9
// outside: n>2, L>3, non-dyadic cutoffs, sequences made only of wildcards with ignoreNs (nothing asserted)
func H_C12_gapseqs() { vfC12SeqsBody(true, 1, 2, 1, 3, 0) }

// K_C12_seqs_counted: demonstrates that RemoveCharacterSeqs counts cells excluded by the ignore options as matching.
// bounds: n=1, L<=2, an excluded cell matches the character
//verif: known=C12-ignored-cells-counted expect=violation
func K_C12_seqs_counted() { vfC12SeqsBody(false, 1, 1, 1, 2, 2) }

// H_C12_kept_removed_partition: for every input the reported kept/removed indices partition the columns and the result is the selection of the kept columns (no oracle for which columns).
// bounds: both alphabets, rows n<=2, columns L<=4, residues and 1-2 characters any printable ASCII 0x21..0x7e, all 32 option combinations, cutoff k/8 for k in -1..9
// outside: n>2, L>4, bytes >= 0x80
func H_C12_kept_removed_partition() {
	alphabet := NUCLEOTIDS
	if nondetRange(0, 1) == 1 {
		alphabet = AMINOACIDS
	}
	n := nondetRange(1, 2)
	L := nondetRange(1, 4)
	nc := nondetRange(1, 2)
	al, orig := vfSymAlign(alphabet, n, L, vfC12Printable)
	c := make([]uint8, nc)
	for t := range c {
		c[t] = nondetByte()
		assume(vfC12Printable(c[t]))
	}
	ends, ignoreCase, ignoreGaps, ignoreNs, reverse := nondetBool(), nondetBool(), nondetBool(), nondetBool(), nondetBool()
	cutoff, _ := vfC12Cutoff(-1, 9)
	first, last, kept, rm := al.RemoveCharacterSites(c, cutoff, ends, ignoreCase, ignoreGaps, ignoreNs, reverse)
	verifReach("cleaned")
	// no verdict about which columns: mark every column undefined
	qual := make([]bool, L)
	defined := make([]bool, L)
	vfC12CheckSites(al, orig, n, L, false, qual, defined, first, last, kept, rm)
	// first/last are the lengths of the leading and trailing runs of removed columns when not in
	// ends mode, and bound them in ends mode
	verifAssert(first >= 0 && first <= L && last >= 0 && last <= L, "leading/trailing counts inside 0..L")
	for j := 0; j < len(rm); j++ {
		if j < first {
			verifAssert(rm[j] == j, "the leading count columns are removed")
		}
		if j < last {
			verifAssert(rm[len(rm)-1-j] == L-1-j, "the trailing count columns are removed")
		}
	}
	verifAssert(first <= len(rm) && last <= len(rm), "leading/trailing counts do not exceed the number of removed columns")
}
