//go:build verif

package align

// C04 (second part) — reference coordinates, concatenation by name, append, partitions and
// split, diff-to-first round trip. Oracles are written from the documentation of the public
// interface and from the property statement.

// vfSymAlignNamed builds an alignment whose rows carry the given names (in this order) and
// L symbolic residues each, all satisfying ok.
func vfSymAlignNamed(alphabet int, names []string, L int, ok func(uint8) bool) (*align, [][]uint8) {
	al := NewAlign(alphabet)
	orig := make([][]uint8, len(names))
	for i := range names {
		s := make([]uint8, L)
		for j := range s {
			s[j] = nondetByte()
			assume(ok(s[j]))
		}
		orig[i] = make([]uint8, L)
		copy(orig[i], s)
		if err := al.AddSequenceChar(names[i], s, ""); err != nil {
			panic("harness: cannot build alignment: " + err.Error())
		}
	}
	return al, orig
}

// vfRefcoordBody is shared by the quick and the thorough twin of H_C04_refcoord.
func vfRefcoordBody(maxL int) {
	L := nondetRange(0, maxL)
	// row 0 is a bystander, row 1 is the reference: the reference is looked up by name, not by rank
	al, orig := vfSymAlign(NUCLEOTIDS, 2, L, vfPrintable)
	ref := orig[1]
	refstart, reflen := nondetInt(), nondetInt()

	// ungapped length of the reference
	u := 0
	for j := 0; j < L; j++ {
		if ref[j] != '-' {
			u++
		}
	}
	alistart, alilen, err := al.RefCoordinates(vfNames[1], refstart, reflen)
	verifReach("called")

	if reflen == 0 {
		// An empty request: the documentation does not say whether it is an error; if it is
		// accepted the window must be empty and inside the alignment.
		if err == nil {
			verifAssert(alilen == 0 && alistart >= 0 && alistart <= L, "empty request accepted with a non-empty or outside window")
		}
		return
	}
	valid := refstart >= 0 && reflen > 0 && reflen <= u && refstart <= u-reflen
	if !valid {
		const maxInt = int(^uint(0) >> 1)
		if refstart >= 0 && reflen > 0 && refstart > maxInt-reflen {
			// both arguments acceptable on their own, the end of the request is beyond the integer range
			verifReach("huge")
			verifAssert(err != nil, "request whose end exceeds the integer range is rejected")
			return
		}
		verifAssert(err != nil, "coordinates outside the ungapped reference are rejected")
		return
	}
	verifReach("valid")
	verifAssert(err == nil, "valid reference coordinates accepted")

	// first / last: alignment columns of the refstart-th and the (refstart+reflen-1)-th residue
	first, last := -1, -1
	cnt := 0
	for j := 0; j < L; j++ {
		if ref[j] != '-' {
			if cnt == refstart {
				first = j
			}
			if cnt == refstart+reflen-1 {
				last = j
			}
			cnt++
		}
	}
	verifAssert(first >= 0 && last >= first, "harness: oracle window exists")
	verifAssert(alistart == first, "window starts on the first requested reference residue")
	verifAssert(alilen == last-first+1, "window ends on the last requested reference residue (smallest window)")
	// stated independently of first/last: the reference residues inside the window are exactly the requested ones
	verifAssert(alistart >= 0 && alilen >= 0 && alistart <= L && alilen <= L-alistart, "window inside the alignment")
	cnt = 0
	for j := 0; j < L; j++ {
		if ref[j] != '-' {
			inwin := j >= alistart && j < alistart+alilen
			req := cnt >= refstart && cnt < refstart+reflen
			verifAssert(inwin == req, "reference residues in the window are exactly the requested ones")
			cnt++
		}
	}
}

// H_C04_refcoord: RefCoordinates maps [refstart,refstart+reflen) of the ungapped reference to the smallest alignment window containing exactly these reference residues; anything else is an error.
// bounds: 2 rows (reference = second row), L<=4 columns, every residue any printable ASCII byte (so gaps anywhere in the reference, all-gap reference included), refstart/reflen arbitrary 64-bit ints
// outside: L>4; more than 2 rows (the other rows are not read)
func H_C04_refcoord() { vfRefcoordBody(4) }

// H_C04_refcoord_deep: as H_C04_refcoord with L<=6.
// bounds: 2 rows, L<=6, residues printable ASCII, refstart/reflen arbitrary 64-bit ints
// outside: L>6
//verif: tier=thorough
func H_C04_refcoord_deep() { vfRefcoordBody(6) }

// H_C04_refcoord_noname: an unknown reference name is an error.
// bounds: 1 row, L<=2, refstart/reflen arbitrary ints
// outside: L>2
func H_C04_refcoord_noname() {
	L := nondetRange(0, 2)
	al, _ := vfSymAlign(NUCLEOTIDS, 1, L, vfPrintable)
	_, _, err := al.RefCoordinates("nosuchname", nondetInt(), nondetInt())
	verifReach("called")
	verifAssert(err != nil, "unknown reference name rejected")
	_, err2 := al.RefSites("nosuchname", []int{nondetInt()})
	verifAssert(err2 != nil, "unknown reference name rejected by RefSites")
}

func vfRefsitesBody(maxL, maxK int) {
	L := nondetRange(0, maxL)
	k := nondetRange(0, maxK)
	al, orig := vfSymAlign(NUCLEOTIDS, 2, L, vfPrintable)
	ref := orig[1]
	u := 0
	for j := 0; j < L; j++ {
		if ref[j] != '-' {
			u++
		}
	}
	sites := make([]int, k)
	valid := true
	for j := range sites {
		sites[j] = nondetInt()
		if sites[j] < 0 || sites[j] >= u {
			valid = false
		}
	}
	got, err := al.RefSites(vfNames[1], sites)
	verifReach("called")
	if !valid {
		verifAssert(err != nil, "position outside the ungapped reference is rejected")
		return
	}
	verifReach("valid")
	verifAssert(err == nil, "valid reference positions accepted")
	// colOf(s): alignment column of the s-th residue of the reference
	colOf := func(s int) int {
		c, cnt := -1, 0
		for j := 0; j < L; j++ {
			if ref[j] != '-' {
				if cnt == s {
					c = j
				}
				cnt++
			}
		}
		return c
	}
	// every returned column is the column of a requested position ...
	for _, g := range got {
		found := false
		for _, s := range sites {
			if colOf(s) == g {
				found = true
			}
		}
		verifAssert(found, "every returned column is the column of a requested reference position")
	}
	// ... and every requested position is answered
	for _, s := range sites {
		c := colOf(s)
		found := false
		for _, g := range got {
			if g == c {
				found = true
			}
		}
		verifAssert(found, "every requested reference position is mapped to its alignment column")
	}
	// addressed order: the j-th answer belongs to the j-th request (repeats and any order included)
	verifAssert(len(got) == k, "one column per requested position")
	for j := 0; j < k && j < len(got); j++ {
		verifAssert(got[j] == colOf(sites[j]), "columns are returned in the requested order")
	}
}

// H_C04_refsites: RefSites maps each requested position of the ungapped reference to its alignment column, in the requested order; positions outside the ungapped reference are an error.
// bounds: 2 rows (reference = second row), L<=4, residues printable ASCII (gaps anywhere), k<=2 positions, arbitrary 64-bit ints, repeats and any order
// outside: L>4, k>2
func H_C04_refsites() { vfRefsitesBody(4, 2) }

// H_C04_refsites_deep: as H_C04_refsites with L<=5, k<=3.
// bounds: 2 rows, L<=5, k<=3 arbitrary ints
// outside: L>5, k>3
//verif: tier=thorough
func H_C04_refsites_deep() { vfRefsitesBody(5, 3) }

var vfPool = []string{"s0", "s1", "s2", "s3"}

// vfPickNames picks k distinct names of vfPool (every ordered choice is a separate case).
func vfPickNames(k int) []string {
	var out []string
	used := make([]bool, len(vfPool))
	for i := 0; i < k; i++ {
		c := nondetRange(0, len(vfPool)-1)
		assume(!used[c])
		used[c] = true
		out = append(out, vfPool[c])
	}
	return out
}

func vfIndexOf(names []string, n string) int {
	for i, x := range names {
		if x == n {
			return i
		}
	}
	return -1
}

// vfConcatCheck: a.Concat(c) against the documented behaviour.
func vfConcatCheck(a *align, c *align, an, cn []string, ao, co [][]uint8, La, Lc int) {
	err := a.Concat(c)
	verifReach("concat")
	verifAssert(err == nil, "concatenation of two alignments of the same alphabet succeeds")
	// expected rows: those of a in order, then those only in c
	nexp := len(an)
	for _, n := range cn {
		if vfIndexOf(an, n) < 0 {
			nexp++
		}
	}
	verifAssert(a.NbSequences() == nexp, "one row per name of the union")
	verifAssert(a.Length() == La+Lc, "length is the sum of the lengths")
	for i, n := range an {
		name, _ := a.GetSequenceNameById(i)
		verifAssert(name == n, "rows of the receiver keep their rank and name")
	}
	check := func(n string) {
		got, ok := a.GetSequenceChar(n)
		verifAssert(ok, "every name of either side is present")
		verifAssert(len(got) == La+Lc, "result is rectangular")
		ia, ic := vfIndexOf(an, n), vfIndexOf(cn, n)
		for j := 0; j < La && j < len(got); j++ {
			if ia >= 0 {
				verifAssert(got[j] == ao[ia][j], "left block is the receiver's row of that name")
			} else {
				verifAssert(got[j] == '-', "left block of a row absent from the receiver is gaps")
			}
		}
		for j := 0; j < Lc && La+j < len(got); j++ {
			if ic >= 0 {
				verifAssert(got[La+j] == co[ic][j], "right block is the argument's row of that name")
			} else {
				verifAssert(got[La+j] == '-', "right block of a row absent from the argument is gaps")
			}
		}
	}
	for _, n := range an {
		check(n)
	}
	for _, n := range cn {
		check(n)
	}
	// the argument is not modified
	for i := range cn {
		got, _ := c.GetSequenceCharById(i)
		verifAssert(len(got) == Lc, "argument keeps its length")
		for j := 0; j < Lc && j < len(got); j++ {
			verifAssert(got[j] == co[i][j], "argument unchanged")
		}
	}
}

// H_C04_concat: Concat pairs rows by name (whatever their rank), pads rows absent on either side with gaps, result rectangular.
// bounds: receiver 1..2 rows, argument 1..2 rows, names drawn from a pool of 4 in every order (shared, partly shared, disjoint), lengths 0..2 each, residues printable ASCII
// outside: more than 2 rows or 2 columns per side; empty alignments (H_C04_concat_empty); duplicate names inside one alignment
func H_C04_concat() {
	na := nondetRange(1, 2)
	nc := nondetRange(1, 2)
	La := nondetRange(0, 2)
	Lc := nondetRange(0, 2)
	an := vfPickNames(na)
	cn := vfPickNames(nc)
	a, ao := vfSymAlignNamed(AMINOACIDS, an, La, vfPrintable)
	c, co := vfSymAlignNamed(AMINOACIDS, cn, Lc, vfPrintable)
	vfConcatCheck(a, c, an, cn, ao, co, La, Lc)
}

// H_C04_concat_deep: as H_C04_concat with up to 3 rows per side and lengths 1 or 3.
// bounds: 1..3 rows per side, names from a pool of 4 in every order, lengths 1 or 3 on each side
// outside: larger shapes
//verif: tier=thorough
func H_C04_concat_deep() {
	na := nondetRange(1, 3)
	nc := nondetRange(1, 3)
	La := 1 + 2*nondetRange(0, 1)
	Lc := 1 + 2*nondetRange(0, 1)
	an := vfPickNames(na)
	cn := vfPickNames(nc)
	a, ao := vfSymAlignNamed(AMINOACIDS, an, La, vfPrintable)
	c, co := vfSymAlignNamed(AMINOACIDS, cn, Lc, vfPrintable)
	vfConcatCheck(a, c, an, cn, ao, co, La, Lc)
}

// H_C04_concat_empty: concatenating with an alignment that has no sequence yet: the non-empty side is the result (no crash).
// bounds: one side has 0 rows, the other 1..2 rows of length 0..2
// outside: larger shapes
func H_C04_concat_empty() {
	n := nondetRange(0, 2)
	L := nondetRange(0, 2)
	names := vfPickNames(n)
	full, fo := vfSymAlignNamed(AMINOACIDS, names, L, vfPrintable)
	empty := NewAlign(AMINOACIDS)
	var res *align
	var err error
	if nondetRange(0, 1) == 0 {
		verifReach("empty receiver")
		err = empty.Concat(full)
		res = empty
	} else {
		verifReach("empty argument")
		err = full.Concat(empty)
		res = full
	}
	verifAssert(err == nil, "concatenation with an empty alignment succeeds")
	verifAssert(res.NbSequences() == n, "rows are those of the non-empty side")
	for i, nm := range names {
		got, ok := res.GetSequenceChar(nm)
		verifAssert(ok && len(got) == L, "row present with its length")
		for j := 0; j < L && j < len(got); j++ {
			verifAssert(got[j] == fo[i][j], "row content kept")
		}
	}
	if n > 0 {
		verifAssert(res.Length() == L, "length is that of the non-empty side")
	}
}

// H_C04_concat_alphabet: alignments of different alphabets are not concatenated.
// bounds: 1 row each, L<=1
// outside: -
func H_C04_concat_alphabet() {
	a, ao := vfSymAlignNamed(AMINOACIDS, []string{"s0"}, 1, vfPrintable)
	c, _ := vfSymAlignNamed(NUCLEOTIDS, []string{"s0"}, 1, vfPrintable)
	err := a.Concat(c)
	verifReach("called")
	verifAssert(err != nil, "different alphabets rejected")
	got, _ := a.GetSequenceCharById(0)
	verifAssert(len(got) == 1 && got[0] == ao[0][0] && a.Length() == 1, "receiver unchanged after the error")
}

// H_C04_append: Append adds the rows of the argument below those of the receiver, names, order and content kept; a different length is an error.
// bounds: receiver 0..2 rows, argument 0..2 rows (distinct names on both sides), lengths 0..3 each (equal or not), residues printable ASCII
// outside: larger shapes; names present on both sides (H_C04_append_dupname)
func H_C04_append() {
	na := nondetRange(0, 2)
	nc := nondetRange(0, 2)
	La := nondetRange(0, 3)
	Lc := nondetRange(0, 3)
	an := []string{"a0", "a1"}[:na]
	cn := []string{"c0", "c1"}[:nc]
	a, ao := vfSymAlignNamed(AMINOACIDS, an, La, vfPrintable)
	c, co := vfSymAlignNamed(AMINOACIDS, cn, Lc, vfPrintable)
	err := a.Append(c)
	verifReach("called")
	if na > 0 && nc > 0 && La != Lc {
		verifReach("length mismatch")
		verifAssert(err != nil, "rows of another length are rejected")
		verifAssert(a.Length() == La, "length unchanged after the error")
		for i := 0; i < na; i++ {
			got, _ := a.GetSequenceCharById(i)
			verifAssert(len(got) == La, "receiver rows keep their length after the error")
		}
		return
	}
	verifReach("valid")
	verifAssert(err == nil, "rows of the same length are appended")
	verifAssert(a.NbSequences() == na+nc, "row count is the sum")
	for i := 0; i < na+nc; i++ {
		name, _ := a.GetSequenceNameById(i)
		got, _ := a.GetSequenceCharById(i)
		if i < na {
			verifAssert(name == an[i], "receiver rows first, in order")
			verifAssert(len(got) == La, "receiver row length")
			for j := 0; j < La && j < len(got); j++ {
				verifAssert(got[j] == ao[i][j], "receiver row content")
			}
		} else {
			verifAssert(name == cn[i-na], "appended rows follow, in order")
			verifAssert(len(got) == Lc, "appended row length")
			for j := 0; j < Lc && j < len(got); j++ {
				verifAssert(got[j] == co[i-na][j], "appended row content")
			}
		}
	}
	if nc > 0 {
		verifAssert(a.Length() == Lc, "length after append")
	} else if na > 0 {
		verifAssert(a.Length() == La, "length unchanged by an empty append")
	}
}

// H_C04_append_dupname: appending a row whose name already exists keeps both rows (the new one renamed name_0001), nothing is lost or overwritten.
// bounds: 1 row each, same name, L<=2
// outside: larger shapes
func H_C04_append_dupname() {
	L := nondetRange(1, 2)
	a, ao := vfSymAlignNamed(AMINOACIDS, []string{"s0"}, L, vfPrintable)
	c, co := vfSymAlignNamed(AMINOACIDS, []string{"s0"}, L, vfPrintable)
	err := a.Append(c)
	verifReach("called")
	verifAssert(err == nil, "append with an existing name succeeds")
	verifAssert(a.NbSequences() == 2, "both rows kept")
	n0, _ := a.GetSequenceNameById(0)
	n1, _ := a.GetSequenceNameById(1)
	verifAssert(n0 == "s0" && n1 == "s0_0001", "second row renamed with a 4 digit suffix")
	g0, _ := a.GetSequenceCharById(0)
	g1, _ := a.GetSequenceCharById(1)
	for j := 0; j < L; j++ {
		verifAssert(g0[j] == ao[0][j] && g1[j] == co[0][j], "both contents kept")
	}
}

// vfRangeHas: is p one of start, start+modulo, start+2*modulo, ... <= end (the documented meaning of a
// range with a step)? Only meaningful for 0 <= start, end < L <= 8 and modulo >= 1: a step larger than 8
// leaves the alignment at once, so it is clamped (no overflow, no symbolic division).
func vfRangeHas(p, start, end, modulo int) bool {
	if modulo > 8 {
		modulo = 8
	}
	in := false
	x := start
	for t := 0; t < 8; t++ {
		if x == p && x <= end {
			in = true
		}
		x += modulo
	}
	return in
}

// H_C04_addrange: AddRange(start,end,modulo) assigns exactly start,start+modulo,...<=end to the partition, rejects anything outside the alignment and a modulo <= 0; never panics; Partition(p) answers -1 outside.
// bounds: alignment length L<=4, one AddRange call on a fresh set, start/end/modulo arbitrary 64-bit ints, queried position arbitrary 64-bit int
// outside: L>4; a second range (H_C04_addrange_second)
func H_C04_addrange() {
	L := nondetRange(0, 4)
	ps := NewPartitionSet(L)
	verifAssert(ps.AliLength() == L && ps.NPartitions() == 0, "fresh partition set")
	for p := 0; p < L; p++ {
		verifAssert(ps.Partition(p) == -1, "no site assigned at the start")
	}
	s1, e1, m1 := nondetInt(), nondetInt(), nondetInt()
	err1 := ps.AddRange("p1", "m1", s1, e1, m1)
	verifReach("first")
	in1 := s1 >= 0 && e1 < L && m1 > 0
	if !in1 {
		verifAssert(err1 != nil, "range outside the alignment or modulo <= 0 rejected")
		for p := 0; p < L; p++ {
			verifAssert(ps.Partition(p) == -1, "nothing assigned by a rejected range")
		}
		return
	}
	verifReach("first valid")
	verifAssert(err1 == nil, "valid range accepted")
	for p := 0; p < L; p++ {
		if vfRangeHas(p, s1, e1, m1) {
			verifAssert(ps.Partition(p) == 0, "site of the range assigned to the partition")
		} else {
			verifAssert(ps.Partition(p) == -1, "site outside the range not assigned")
		}
	}
	q := nondetInt()
	if q < 0 || q >= L {
		verifAssert(ps.Partition(q) == -1, "Partition answers -1 outside the alignment")
	}
	if s1 <= e1 {
		verifAssert(ps.NPartitions() == 1, "one partition")
	}
}

func vfAddrangeSecondBody(maxL int) {
	L := nondetRange(1, maxL)
	ps := NewPartitionSet(L)
	s1, e1, m1 := nondetInt(), nondetInt(), nondetInt()
	assume(s1 >= 0 && s1 <= e1 && e1 < L && m1 >= 1 && m1 <= L)
	err1 := ps.AddRange("p1", "m1", s1, e1, m1)
	verifAssert(err1 == nil, "valid first range accepted")
	same := nondetRange(0, 1) == 1
	name2 := "p2"
	idx2 := 1
	if same {
		name2 = "p1"
		idx2 = 0
	}
	s2, e2, m2 := nondetInt(), nondetInt(), nondetInt()
	err2 := ps.AddRange(name2, "m1", s2, e2, m2)
	verifReach("second")
	in2 := s2 >= 0 && e2 < L && m2 > 0
	if !in2 {
		verifAssert(err2 != nil, "second range outside the alignment or modulo <= 0 rejected")
		return
	}
	overlap := false
	for p := 0; p < L; p++ {
		if vfRangeHas(p, s1, e1, m1) && vfRangeHas(p, s2, e2, m2) {
			overlap = true
		}
	}
	if overlap {
		verifReach("overlap")
		verifAssert(err2 != nil, "a site assigned twice is rejected")
		return
	}
	verifReach("second valid")
	verifAssert(err2 == nil, "valid disjoint range accepted")
	for p := 0; p < L; p++ {
		if vfRangeHas(p, s1, e1, m1) {
			verifAssert(ps.Partition(p) == 0, "first range kept")
		} else if vfRangeHas(p, s2, e2, m2) {
			verifAssert(ps.Partition(p) == idx2, "second range assigned")
		} else {
			verifAssert(ps.Partition(p) == -1, "other sites not assigned")
		}
	}
	if s2 <= e2 || same {
		verifAssert(ps.NPartitions() == idx2+1, "number of partitions")
	}
}

// H_C04_addrange_second: a second AddRange (same or another partition name) after a valid first one: outside the alignment / modulo <= 0 / a site assigned twice are errors, otherwise exactly its sites are assigned; never panics.
// bounds: L<=3, first range symbolic inside the alignment (0<=start<=end<L, 1<=modulo<=L), second start/end/modulo arbitrary 64-bit ints
// outside: L>3 (thorough twin: L<=4), more than two ranges
func H_C04_addrange_second() { vfAddrangeSecondBody(3) }

// H_C04_addrange_second_deep: as H_C04_addrange_second with L<=4.
// bounds: L<=4
// outside: L>4
//verif: tier=thorough
func H_C04_addrange_second_deep() { vfAddrangeSecondBody(4) }

// vfSplitCheck: Split against "block pi holds exactly the columns mapped to pi, in order, all rows, names kept",
// and, when every column is mapped, re-interleaving the blocks gives the alignment back.
func vfSplitCheck(al *align, orig [][]uint8, n, L int, ps *PartitionSet) {
	als, err := al.Split(ps)
	verifReach("split")
	if ps.NPartitions() <= 1 {
		verifAssert(err != nil, "fewer than two partitions rejected")
		return
	}
	verifReach("split valid")
	verifAssert(err == nil, "valid partition set accepted")
	np := ps.NPartitions()
	verifAssert(len(als) == np, "one block per partition")
	for pi := 0; pi < np && pi < len(als); pi++ {
		cnt := 0
		for pos := 0; pos < L; pos++ {
			if ps.Partition(pos) == pi {
				cnt++
			}
		}
		if cnt == 0 {
			// a partition without any column: nothing to extract
			verifAssert(als[pi] != nil, "block exists")
			for i := 0; i < als[pi].NbSequences(); i++ {
				got, _ := als[pi].GetSequenceCharById(i)
				verifAssert(len(got) == 0, "block of an empty partition has no column")
			}
			continue
		}
		verifAssert(als[pi].NbSequences() == n, "block keeps every row")
		verifAssert(als[pi].Length() == cnt, "block length is the number of columns mapped to the partition")
		for i := 0; i < n && i < als[pi].NbSequences(); i++ {
			name, _ := als[pi].GetSequenceNameById(i)
			verifAssert(name == vfNames[i], "block keeps names and row order")
			got, _ := als[pi].GetSequenceCharById(i)
			verifAssert(len(got) == cnt, "block row length")
			k := 0
			for pos := 0; pos < L; pos++ {
				if ps.Partition(pos) == pi {
					verifAssert(k < len(got) && got[k] == orig[i][pos], "block holds the mapped columns in order")
					k++
				}
			}
		}
	}
	// re-interleave
	if ps.CheckSites() == nil {
		verifReach("reinterleave")
		next := make([]int, np)
		for pos := 0; pos < L; pos++ {
			pi := ps.Partition(pos)
			verifAssert(pi >= 0 && pi < np, "every column mapped")
			for i := 0; i < n; i++ {
				got, _ := als[pi].GetSequenceCharById(i)
				verifAssert(next[pi] < len(got) && got[next[pi]] == orig[i][pos], "re-interleaving the blocks reproduces the alignment")
			}
			next[pi]++
		}
		for pi := 0; pi < np; pi++ {
			if next[pi] > 0 {
				verifAssert(als[pi].Length() == next[pi], "no column left over in a block")
			}
		}
	}
	// the input is not modified
	for i := 0; i < n; i++ {
		got, _ := al.GetSequenceCharById(i)
		for j := 0; j < L; j++ {
			verifAssert(got[j] == orig[i][j], "split leaves its input unchanged")
		}
	}
}

// H_C04_split: Split with an arbitrary column-to-partition map (every map of L columns to <=3 partitions, built column by column through AddRange).
// bounds: n<=2 rows, L in 1..4, every map {0..L-1} -> {unassigned, p0, p1, p2}, residues printable ASCII
// outside: L>4, more than 3 partitions
func H_C04_split() {
	n := nondetRange(1, 2)
	L := nondetRange(1, 4)
	al, orig := vfSymAlign(AMINOACIDS, n, L, vfPrintable)
	ps := NewPartitionSet(L)
	pn := []string{"p0", "p1", "p2"}
	for pos := 0; pos < L; pos++ {
		c := nondetRange(-1, 2)
		if c >= 0 {
			verifAssert(ps.AddRange(pn[c], "m", pos, pos, 1) == nil, "single-site range accepted")
		}
	}
	vfSplitCheck(al, orig, n, L, ps)
}

// H_C04_split_ranges: Split with partitions given as ranges with modulo (codon partitions included): symbolic start/end/modulo inside the alignment.
// bounds: n<=2, L in 1..4 (quick), three AddRange calls on 2 or 3 partition names with symbolic 0<=start, end<L, 1<=modulo<=L+1; ranges that collide are discarded
// outside: L>4, more than three ranges
func H_C04_split_ranges() {
	n := nondetRange(1, 2)
	L := nondetRange(1, 4)
	al, orig := vfSymAlign(AMINOACIDS, n, L, vfPrintable)
	ps := NewPartitionSet(L)
	pn := []string{"p0", "p1", "p2"}
	third := nondetRange(1, 2)
	for r := 0; r < 3; r++ {
		s, e, m := nondetInt(), nondetInt(), nondetInt()
		assume(s >= 0 && e < L && s <= e && m >= 1 && m <= L+1)
		name := pn[r]
		if r == 2 {
			name = pn[third]
		}
		err := ps.AddRange(name, "m", s, e, m)
		assume(err == nil)
	}
	verifReach("ranges")
	vfSplitCheck(al, orig, n, L, ps)
}

// H_C04_split_errors: a partition set made for another length is rejected.
// bounds: n=1, L<=3, partition-set length L' in 0..4 different from L
// outside: -
func H_C04_split_errors() {
	L := nondetRange(1, 3)
	Lp := nondetRange(0, 4)
	assume(Lp != L)
	al, _ := vfSymAlign(AMINOACIDS, 1, L, vfPrintable)
	ps := NewPartitionSet(Lp)
	pn := []string{"p0", "p1"}
	for pos := 0; pos < Lp; pos++ {
		verifAssert(ps.AddRange(pn[pos%2], "m", pos, pos, 1) == nil, "single-site range accepted")
	}
	_, err := al.Split(ps)
	verifReach("called")
	verifAssert(err != nil, "partition set of another length rejected")
}

func vfNoPoint(c uint8) bool { return c >= 0x21 && c <= 0x7e && c != '.' }

func vfDiffBody(maxN, maxL int) {
	n := nondetRange(1, maxN)
	L := nondetRange(0, maxL)
	al, orig := vfSymAlign(NUCLEOTIDS, n, L, vfNoPoint)
	al.DiffWithFirst()
	verifReach("diff")
	verifAssert(al.NbSequences() == n && al.Length() == L, "shape kept by the diff")
	for i := 0; i < n; i++ {
		got, _ := al.GetSequenceCharById(i)
		name, _ := al.GetSequenceNameById(i)
		verifAssert(name == vfNames[i] && len(got) == L, "names and lengths kept by the diff")
		for j := 0; j < L; j++ {
			if i > 0 && orig[i][j] == orig[0][j] {
				verifAssert(got[j] == '.', "residue identical to the first row becomes a match character")
			} else {
				verifAssert(got[j] == orig[i][j], "first row and differing residues untouched")
			}
		}
	}
	al.ReplaceMatchChars()
	verifReach("roundtrip")
	verifAssert(al.NbSequences() == n && al.Length() == L, "shape kept")
	for i := 0; i < n; i++ {
		got, _ := al.GetSequenceCharById(i)
		name, _ := al.GetSequenceNameById(i)
		verifAssert(name == vfNames[i] && len(got) == L, "names and lengths kept")
		for j := 0; j < L; j++ {
			verifAssert(got[j] == orig[i][j], "diff then replace-match-characters restores the alignment")
		}
	}
}

// H_C04_diff_roundtrip: DiffWithFirst marks exactly the residues equal to the first row; ReplaceMatchChars then restores the alignment.
// bounds: n<=3 rows, L<=3 columns, residues printable ASCII except '.'
// outside: alignments that already contain '.', L>3, n>3
func H_C04_diff_roundtrip() { vfDiffBody(3, 3) }

// H_C04_diff_roundtrip_deep: as H_C04_diff_roundtrip with n<=3, L<=5.
// bounds: n<=3, L<=5, residues printable ASCII except '.'
// outside: larger shapes
//verif: tier=thorough
func H_C04_diff_roundtrip_deep() { vfDiffBody(3, 5) }
