//go:build verif

package align

// C14 (continued) — residues unique in their column, differences with the first sequence,
// mutations relative to a reference sequence. Helpers are in zz_verif_c14.go.

// ---------------------------------------------------------------------------------------
// residues and gaps unique in their column

// vfC14Profile builds a count profile the way a profile file is loaded (header, then one
// count per character and site). counts[h][j] is the count of header[h] at site j.
func vfC14Profile(header []uint8, counts [][]int, plen int) *CountProfile {
	p := NewCountProfile()
	p.SetHeader(header)
	for j := 0; j < plen; j++ {
		for h := range header {
			if err := p.AppendCount(h, counts[h][j]); err != nil {
				panic("harness: cannot build profile")
			}
		}
	}
	return p
}

// vfC14SymProfile: profile over header with symbolic counts in 0..2 and plen sites.
func vfC14SymProfile(header []uint8, plen int) (*CountProfile, [][]int) {
	counts := make([][]int, len(header))
	for h := range header {
		counts[h] = make([]int, plen)
		for j := 0; j < plen; j++ {
			counts[h][j] = nondetInt()
			assume(counts[h][j] >= 0 && counts[h][j] <= 2)
		}
	}
	return vfC14Profile(header, counts, plen), counts
}

// vfC14ProfCount: the count of character c at site j in the profile (0 when c is not in the header).
func vfC14ProfCount(header []uint8, counts [][]int, c uint8, j int) int {
	r := 0
	for h := range header {
		if header[h] == c {
			r = counts[h][j]
		}
	}
	return r
}

func vfC14UniqueGaps(nmax, lmax int) {
	n := nondetRange(1, nmax)
	L := nondetRange(1, lmax)
	al, orig := vfSymAlign(NUCLEOTIDS, n, L, vfC14Print)
	var prof *CountProfile
	var header []uint8
	var counts [][]int
	plen := L
	switch nondetRange(0, 3) {
	case 1:
		header = []uint8{'A', '-'}
	case 2:
		header = []uint8{'A'} // gaps unknown to the profile
	case 3:
		header = []uint8{'A', '-'}
		plen = L + 1 // profile of another length: error expected
	}
	if header != nil {
		prof, counts = vfC14SymProfile(header, plen)
	}
	gu, gn, gb, gerr := al.NumGapsUniquePerSequence(prof)
	gu2, gn2, gb2, _ := al.NumGapsUniquePerSequence(prof)
	verifReach("unique gaps")
	if plen != L {
		verifReach("profile length mismatch")
		verifAssert(gerr != nil, "profile of another length is an error")
		return
	}
	verifAssert(gerr == nil, "no error")
	verifAssert(len(gu) == n && len(gn) == n && len(gb) == n, "one value per sequence")
	for i := 0; i < n; i++ {
		wu, wn, wb := 0, 0, 0
		for j := 0; j < L; j++ {
			if orig[i][j] != '-' {
				continue
			}
			cnt := 0
			for i2 := 0; i2 < n; i2++ {
				if orig[i2][j] == '-' {
					cnt++
				}
			}
			isNew := prof != nil && vfC14ProfCount(header, counts, '-', j) == 0
			if cnt == 1 {
				wu++
			}
			if isNew {
				wn++
			}
			if cnt == 1 && isNew {
				wb++
			}
		}
		verifAssert(gu[i] == wu, "NumGapsUniquePerSequence: gaps alone in their column")
		verifAssert(gn[i] == wn, "NumGapsUniquePerSequence: gaps not seen in the profile at that site")
		verifAssert(gb[i] == wb, "NumGapsUniquePerSequence: gaps both unique and new")
		verifAssert(gu2[i] == gu[i] && gn2[i] == gn[i] && gb2[i] == gb[i], "NumGapsUniquePerSequence: same answer twice")
	}
}

// H_C14_unique_gaps: per-sequence counts of gaps that are unique in their column, new with respect to a profile, or both.
// bounds: n<=3 rows, L<=2 columns, residues printable ASCII; profile absent, or with header {A,-} or {A} and any counts in 0..2 per site, of length L or L+1
// outside: n>3, L>2, profile counts > 2 (only zero / non-zero matters)
func H_C14_unique_gaps() { vfC14UniqueGaps(3, 2) }

func vfC14UniqueMut(n, L, alphabet int, alpha []uint8) {
	wild := vfC14Wild(alphabet)
	al, orig := vfC14EnumAlign(alphabet, n, L, alpha)
	var prof *CountProfile
	var header []uint8
	var counts [][]int
	plen := L
	switch nondetRange(0, 2) {
	case 1:
		header = []uint8{'A', wild, '-'} // the other residues are unknown to the profile
	case 2:
		header = []uint8{'A', wild, '-'}
		plen = L + 1
	}
	if header != nil {
		prof, counts = vfC14SymProfile(header, plen)
	}
	mu, mn, mb, merr := al.NumMutationsUniquePerSequence(prof)
	mu2, mn2, mb2, _ := al.NumMutationsUniquePerSequence(prof)
	verifReach("unique residues")
	if plen != L {
		verifReach("profile length mismatch")
		verifAssert(merr != nil, "profile of another length is an error")
		return
	}
	verifAssert(merr == nil, "no error")
	verifAssert(len(mu) == n && len(mn) == n && len(mb) == n, "one value per sequence")
	for i := 0; i < n; i++ {
		wu, wn, wb := 0, 0, 0
		for j := 0; j < L; j++ {
			c := orig[i][j]
			if c == '-' || c == wild {
				continue
			}
			cnt := 0
			for i2 := 0; i2 < n; i2++ {
				if orig[i2][j] == c {
					cnt++
				}
			}
			isNew := prof != nil && vfC14ProfCount(header, counts, c, j) == 0
			if cnt == 1 {
				wu++
			}
			if isNew {
				wn++
			}
			if cnt == 1 && isNew {
				wb++
			}
		}
		verifAssert(mu[i] == wu, "NumMutationsUniquePerSequence: residues (not gap, not N/X) alone in their column")
		verifAssert(mn[i] == wn, "NumMutationsUniquePerSequence: residues not seen in the profile at that site")
		verifAssert(mb[i] == wb, "NumMutationsUniquePerSequence: residues both unique and new")
		verifAssert(mu2[i] == mu[i] && mn2[i] == mn[i] && mb2[i] == mb[i], "NumMutationsUniquePerSequence: same answer twice")
	}
}

// H_C14_unique_mut: per-sequence counts of residues (gap and the wildcard N/X excepted) that are unique in their column, new with respect to a profile, or both.
// bounds: every content enumerated for: nucleotides n<=3, L=1 and n=2, L=2 over {A,C,N,-}; amino acids n=2, L=1 over {A,N,X,-}; profile absent, or with header {A, wildcard, -} and any counts in 0..2 per site, of length L or L+1
// outside: other shapes and residues, lower-case residues (n/x as wildcard not documented), bytes >= 0x80 (tables of 130 entries)
func H_C14_unique_mut() {
	switch nondetRange(0, 2) {
	case 0:
		vfC14UniqueMut(nondetRange(1, 3), 1, NUCLEOTIDS, []uint8{'A', 'C', 'N', '-'})
	case 1:
		vfC14UniqueMut(2, 2, NUCLEOTIDS, []uint8{'A', 'C', 'N', '-'})
	case 2:
		vfC14UniqueMut(2, 1, AMINOACIDS, []uint8{'A', 'N', 'X', '-'})
	}
}

// ---------------------------------------------------------------------------------------
// differences with the first sequence

// H_C14_countdiff: CountDifferences lists every (first,other) residue pair seen and counts it per sequence.
// bounds: n<=3 rows, L<=2 columns, residues printable ASCII
// outside: n>3, L>2, alignments without rows
func H_C14_countdiff() {
	n := nondetRange(1, 3)
	L := nondetRange(1, 2)
	al, orig := vfSymAlign(NUCLEOTIDS, n, L, vfC14Print)
	all, diffs := al.CountDifferences()
	all2, diffs2 := al.CountDifferences()
	verifReach("countdiff")
	verifAssert(len(diffs) == n-1 && len(diffs2) == n-1, "one table per sequence after the first")
	distinct := 0
	for i := 1; i < n; i++ {
		nd := 0
		for l := 0; l < L; l++ {
			a, b := orig[0][l], orig[i][l]
			if a == b {
				continue
			}
			nd++
			key := string([]uint8{a, b})
			want := 0
			for l2 := 0; l2 < L; l2++ {
				if orig[0][l2] == a && orig[i][l2] == b {
					want++
				}
			}
			verifAssert(diffs[i-1][key] == want, "count of the REF-NEW pair in that sequence")
			verifAssert(diffs2[i-1][key] == want, "same counts twice")
			cnt := 0
			for _, k := range all {
				if k == key {
					cnt++
				}
			}
			verifAssert(cnt == 1, "every pair seen is listed once")
			// first time this pair is seen (over sequences then positions)?
			seen := false
			for i2 := 1; i2 <= i; i2++ {
				for l2 := 0; l2 < L; l2++ {
					if (i2 < i || l2 < l) && orig[0][l2] == a && orig[i2][l2] == b {
						seen = true
					}
				}
			}
			if !seen {
				distinct++
			}
		}
		s := 0
		for _, v := range diffs[i-1] {
			s += v
		}
		verifAssert(s == nd, "counts sum to the number of positions that differ from the first sequence")
		verifAssert(len(diffs2[i-1]) == len(diffs[i-1]), "same tables twice")
	}
	verifAssert(len(all) == distinct, "nothing but pairs seen")
	verifAssert(len(all2) == len(all), "same list twice (size)")
	for k := range all {
		verifAssert(k < len(all2) && all[k] == all2[k], "same list twice")
	}
}

// ---------------------------------------------------------------------------------------
// mutations relative to a reference sequence

func vfC14IupacUpper(c uint8) bool {
	return c == '-' || (c >= 'A' && c <= 'Z' && vfMask(c) != 0 && c != 'U')
}

// vfC14Differs: the residue c of the compared sequence is a difference with respect to
// the reference residue r. Nucleotides: IUPAC codes sharing a nucleotide are compatible;
// '-' is compatible with '-' only.
func vfC14Differs(alphabet int, c, r uint8) bool {
	if c == r {
		return false
	}
	if alphabet == NUCLEOTIDS {
		return vfMask(c)&vfMask(r) == 0
	}
	return true
}

func vfC14RefMut(nmax, lmax int) {
	n := nondetRange(1, nmax)
	L := nondetRange(1, lmax)
	alphabet := vfC14Alphabet()
	wild := vfC14Wild(alphabet)
	ok := vfC14Plain
	if alphabet == NUCLEOTIDS {
		ok = vfC14IupacUpper
	}
	al, orig := vfSymAlign(alphabet, n, L, ok)
	refi := nondetRange(0, n-1)
	cmpi := nondetRange(0, n-1)
	ref, _ := al.Sequence(refi)
	s, _ := al.Sequence(cmpi)
	r, c := orig[refi], orig[cmpi]

	num, err := s.NumMutationsComparedToReferenceSequence(alphabet, ref)
	num2, _ := s.NumMutationsComparedToReferenceSequence(alphabet, ref)
	verifReach("nummut")
	verifAssert(err == nil, "NumMutations: no error on sequences of the same length")
	want := 0
	for j := 0; j < L; j++ {
		if c[j] != '-' && c[j] != wild && vfC14Differs(alphabet, c[j], r[j]) {
			want++
		}
	}
	verifAssert(num == want, "NumMutations: residues (not gap, not N/X) incompatible with the reference residue")
	verifAssert(num2 == num, "NumMutations: same answer twice")
	if refi == cmpi {
		verifAssert(num == 0, "NumMutations: a sequence has no mutation with respect to itself")
	}

	muts, lerr := s.ListMutationsComparedToReferenceSequence(alphabet, ref, false)
	muts2, _ := s.ListMutationsComparedToReferenceSequence(alphabet, ref, false)
	verifReach("listmut")
	verifAssert(lerr == nil, "ListMutations: no error on sequences of the same length")
	// expected list: walk the columns; columns where the reference has a gap extend the
	// current insertion (non-gap residues only); other columns first flush the insertion,
	// then list a substitution or deletion when the residue is not N/X and incompatible.
	k := 0
	pos := 0 // position on the reference without gaps
	var ins []uint8
	flush := func() {
		if len(ins) > 0 {
			verifReach("insertion")
			verifAssert(k < len(muts), "ListMutations: insertion listed")
			if k < len(muts) {
				mu := muts[k]
				verifAssert(mu.Ref == '-' && mu.Pos == pos, "ListMutations: insertion has reference '-' and the position of the next reference residue")
				verifAssert(len(mu.Alt) == len(ins), "ListMutations: consecutive inserted residues are grouped")
				for x := range ins {
					verifAssert(x < len(mu.Alt) && mu.Alt[x] == ins[x], "ListMutations: inserted residues in order")
				}
			}
			k++
			ins = nil
		}
	}
	for j := 0; j < L; j++ {
		if r[j] == '-' {
			if c[j] != '-' {
				ins = append(ins, c[j])
			}
			continue
		}
		flush()
		if c[j] != wild && vfC14Differs(alphabet, c[j], r[j]) {
			verifReach("substitution or deletion")
			verifAssert(k < len(muts), "ListMutations: substitution/deletion listed")
			if k < len(muts) {
				mu := muts[k]
				verifAssert(mu.Ref == r[j] && mu.Pos == pos, "ListMutations: reference residue and ungapped reference position")
				verifAssert(len(mu.Alt) == 1 && mu.Alt[0] == c[j], "ListMutations: alternative residue")
			}
			k++
		}
		pos++
	}
	flush()
	verifAssert(len(muts) == k, "ListMutations: nothing else is listed")
	verifAssert(len(muts2) == len(muts), "ListMutations: same answer twice (size)")
	for x := range muts {
		if x < len(muts2) {
			verifAssert(muts[x].Ref == muts2[x].Ref && muts[x].Pos == muts2[x].Pos && len(muts[x].Alt) == len(muts2[x].Alt), "ListMutations: same answer twice")
		}
	}
}

// H_C14_refmut: NumMutationsComparedToReferenceSequence and ListMutationsComparedToReferenceSequence (nucleotide-wise mode) against a chosen reference row.
// bounds: n<=2 rows, L<=3 columns; nucleotides: upper-case IUPAC codes and '-'; amino acids: printable ASCII without lower-case letters, '.', '*'; reference and compared row any pair (also the same row)
// outside: L>3; lower-case residues, U, X . * in nucleotide sequences (compatibility of non-IUPAC symbols not documented); codon-wise list (aa=true)
func H_C14_refmut() { vfC14RefMut(2, 3) }

// H_C14_refmut_deep: as H_C14_refmut with 4 columns (two separate insertions, insertion between two substitutions).
// bounds: n<=2 rows, L<=4 columns, residue sets as in H_C14_refmut
// outside: L>4
//verif: tier=thorough
func H_C14_refmut_deep() { vfC14RefMut(2, 4) }

// H_C14_refmut_len: sequences of different lengths are an error for both functions.
// bounds: two sequences of lengths 0..2, upper-case IUPAC residues, both alphabets
// outside: longer sequences
func H_C14_refmut_len() {
	alphabet := vfC14Alphabet()
	l1 := nondetRange(0, 2)
	l2 := nondetRange(0, 2)
	mk := func(l int) *seq {
		s := make([]uint8, l)
		for j := range s {
			s[j] = nondetByte()
			assume(vfC14IupacUpper(s[j]))
		}
		return NewSequence("s", s, "")
	}
	a, b := mk(l1), mk(l2)
	_, e1 := a.NumMutationsComparedToReferenceSequence(alphabet, b)
	_, e2 := a.ListMutationsComparedToReferenceSequence(alphabet, b, false)
	verifReach("len")
	if l1 != l2 {
		verifReach("different lengths")
		verifAssert(e1 != nil && e2 != nil, "different lengths are an error")
	} else {
		verifAssert(e1 == nil && e2 == nil, "same length accepted")
	}
}

// H_C14_compatible: EqualOrCompatible on IUPAC bit codes: equal or sharing a nucleotide; codes above 15 are an error.
// bounds: both codes any byte
// outside: nothing
func H_C14_compatible() {
	a, b := nondetByte(), nondetByte()
	ok, err := EqualOrCompatible(a, b)
	ok2, err2 := EqualOrCompatible(a, b)
	verifReach("compat")
	verifAssert(ok == ok2 && (err == nil) == (err2 == nil), "same answer twice")
	if a > 15 || b > 15 {
		verifReach("bad code")
		verifAssert(err != nil, "a code that is no IUPAC set is an error")
		return
	}
	verifAssert(err == nil, "valid codes accepted")
	verifAssert(ok == (a == b || a&b != 0), "compatible iff equal or sharing a nucleotide")
	okr, _ := EqualOrCompatible(b, a)
	verifAssert(ok == okr, "symmetric")
}
