//go:build verif

package align

// C04 — site extraction and coordinates address exactly the requested columns.

func vfPrintable(c uint8) bool { return c >= 0x21 && c <= 0x7e }

// H_C04_subalign: SubAlign(start,length) returns exactly columns [start,start+length) or an error.
// bounds: rows n<=2, columns L<=3, residues printable ASCII, start/length arbitrary 64-bit ints
// outside: L>3, n>2
func H_C04_subalign() {
	n := nondetRange(1, 2)
	L := nondetRange(1, 3)
	al, orig := vfSymAlign(AMINOACIDS, n, L, vfPrintable)
	start, length := nondetInt(), nondetInt()
	sub, err := al.SubAlign(start, length)
	verifReach("called")
	valid := start >= 0 && length >= 0 && start <= L && length <= L-start
	if !valid {
		verifAssert(err != nil, "window outside the alignment is rejected")
		return
	}
	verifAssert(err == nil, "valid window accepted")
	verifReach("valid")
	verifAssert(sub.NbSequences() == n, "row count kept")
	if length > 0 {
		verifAssert(sub.Length() == length, "length is the window length")
	}
	for i := 0; i < n; i++ {
		name, _ := sub.GetSequenceNameById(i)
		verifAssert(name == vfNames[i], "names and order kept")
		got, _ := sub.GetSequenceCharById(i)
		verifAssert(len(got) == length, "row has window length")
		for j := 0; j < length; j++ {
			verifAssert(got[j] == orig[i][start+j], "column content")
		}
	}
}

// H_C04_selectsites: SelectSites(list) returns the listed columns in the listed order; out-of-range is an error.
// bounds: n<=2, L<=3, list of k<=3 arbitrary 64-bit ints (repeats allowed)
func H_C04_selectsites() {
	n := nondetRange(1, 2)
	L := nondetRange(1, 3)
	k := nondetRange(0, 3)
	al, orig := vfSymAlign(AMINOACIDS, n, L, vfPrintable)
	sites := make([]int, k)
	valid := true
	for j := range sites {
		sites[j] = nondetInt()
		if sites[j] < 0 || sites[j] >= L {
			valid = false
		}
	}
	sub, err := al.SelectSites(sites)
	verifReach("called")
	if !valid {
		verifAssert(err != nil, "site outside the alignment is rejected")
		return
	}
	verifReach("valid")
	verifAssert(err == nil, "valid sites accepted")
	verifAssert(sub.NbSequences() == n, "row count kept")
	for i := 0; i < n; i++ {
		name, _ := sub.GetSequenceNameById(i)
		verifAssert(name == vfNames[i], "names and order kept")
		got, _ := sub.GetSequenceCharById(i)
		verifAssert(len(got) == k, "one residue per requested site")
		for j := 0; j < k; j++ {
			verifAssert(got[j] == orig[i][sites[j]], "column content in requested order")
		}
	}
}

// H_C04_invcoord: the window and its InverseCoordinates partition 0..L-1.
// bounds: L<=4, start/length arbitrary 64-bit ints
func H_C04_invcoord() {
	L := nondetRange(1, 4)
	al, _ := vfSymAlign(AMINOACIDS, 1, L, vfPrintable)
	start, length := nondetInt(), nondetInt()
	starts, lens, err := al.InverseCoordinates(start, length)
	verifReach("called")
	valid := start >= 0 && length >= 0 && start <= L && length <= L-start
	if !valid {
		verifAssert(err != nil, "invalid window rejected")
		return
	}
	verifReach("valid")
	verifAssert(err == nil, "valid window accepted")
	verifAssert(len(starts) == len(lens), "parallel slices")
	for p := 0; p < L; p++ {
		cnt := 0
		if p >= start && p < start+length {
			cnt++
		}
		for w := range starts {
			if p >= starts[w] && p < starts[w]+lens[w] {
				cnt++
			}
		}
		verifAssert(cnt == 1, "each column is in exactly one of window / inverse windows")
	}
	for w := range starts {
		verifAssert(lens[w] > 0 && starts[w] >= 0 && starts[w]+lens[w] <= L, "inverse windows are inside the alignment")
	}
}

// H_C04_invpos: sites and InversePositions(sites) partition 0..L-1; out-of-range sites are rejected.
// bounds: L<=4, k<=3 arbitrary ints
func H_C04_invpos() {
	L := nondetRange(1, 4)
	k := nondetRange(0, 3)
	al, _ := vfSymAlign(AMINOACIDS, 1, L, vfPrintable)
	sites := make([]int, k)
	valid := true
	for j := range sites {
		sites[j] = nondetInt()
		if sites[j] < 0 || sites[j] >= L {
			valid = false
		}
	}
	inv, err := al.InversePositions(sites)
	verifReach("called")
	if !valid {
		verifAssert(err != nil, "site outside the alignment is rejected")
		return
	}
	verifReach("valid")
	verifAssert(err == nil, "valid sites accepted")
	prev := -1
	for _, p := range inv {
		verifAssert(p > prev && p < L, "inverse positions sorted, distinct, in range")
		prev = p
	}
	for p := 0; p < L; p++ {
		in := false
		for _, s := range sites {
			if s == p {
				in = true
			}
		}
		ininv := false
		for _, s := range inv {
			if s == p {
				ininv = true
			}
		}
		verifAssert(in != ininv, "each column in exactly one of sites / inverse")
	}
}

// H_C04_trim: TrimSequences removes exactly trimsize leading or trailing columns.
// bounds: n<=2, L<=4, trimsize arbitrary int
func H_C04_trim() {
	n := nondetRange(1, 2)
	L := nondetRange(1, 4)
	al, orig := vfSymAlign(AMINOACIDS, n, L, vfPrintable)
	t := nondetInt()
	fromStart := nondetRange(0, 1) == 1
	err := al.TrimSequences(t, fromStart)
	verifReach("called")
	if t < 0 || t >= L {
		verifAssert(err != nil, "invalid trim size rejected")
		verifAssert(al.Length() == L, "length unchanged after error")
		return
	}
	verifReach("valid")
	verifAssert(err == nil, "valid trim accepted")
	verifAssert(al.Length() == L-t, "length updated")
	for i := 0; i < n; i++ {
		got, _ := al.GetSequenceCharById(i)
		verifAssert(len(got) == L-t, "row length")
		for j := 0; j < L-t; j++ {
			if fromStart {
				verifAssert(got[j] == orig[i][j+t], "suffix kept")
			} else {
				verifAssert(got[j] == orig[i][j], "prefix kept")
			}
		}
	}
}

// H_C04_prefix_suffix: SubAlign(0,k) ++ SubAlign(k,L-k) (Concat) reproduces the alignment.
// bounds: n<=2, L<=4, all k in 0..L
func H_C04_prefix_suffix() {
	n := nondetRange(1, 2)
	L := nondetRange(2, 4)
	k := nondetRange(1, L-1)
	al, orig := vfSymAlign(AMINOACIDS, n, L, vfPrintable)
	a, e1 := al.SubAlign(0, k)
	b, e2 := al.SubAlign(k, L-k)
	verifAssert(e1 == nil && e2 == nil, "valid windows accepted")
	e3 := a.Concat(b)
	verifReach("concat")
	verifAssert(e3 == nil, "concat of complementary windows")
	verifAssert(a.Length() == L && a.NbSequences() == n, "shape restored")
	for i := 0; i < n; i++ {
		got, _ := a.GetSequenceCharById(i)
		name, _ := a.GetSequenceNameById(i)
		verifAssert(name == vfNames[i], "names kept")
		for j := 0; j < L; j++ {
			verifAssert(got[j] == orig[i][j], "content restored")
		}
	}
}

// H_C04_transpose: transposing twice restores the alignment; one transpose swaps rows and columns.
// bounds: n<=3, L<=3
func H_C04_transpose() {
	n := nondetRange(1, 3)
	L := nondetRange(1, 3)
	al, orig := vfSymAlign(AMINOACIDS, n, L, vfPrintable)
	t, err := al.Transpose()
	verifReach("t")
	verifAssert(err == nil, "transpose ok")
	verifAssert(t.NbSequences() == L && t.Length() == n, "shape swapped")
	for i := 0; i < L; i++ {
		got, _ := t.GetSequenceCharById(i)
		for j := 0; j < n; j++ {
			verifAssert(got[j] == orig[j][i], "transposed content")
		}
	}
	tt, err2 := t.Transpose()
	verifAssert(err2 == nil, "second transpose ok")
	verifAssert(tt.NbSequences() == n && tt.Length() == L, "shape restored")
	for i := 0; i < n; i++ {
		got, _ := tt.GetSequenceCharById(i)
		for j := 0; j < L; j++ {
			verifAssert(got[j] == orig[i][j], "content restored")
		}
	}
}
