//go:build verif

package align

// C13 — de-duplication and site compression lose nothing but redundancy.
//
// Reference model (from the documentation of SeqBag.Deduplicate and Alignment.Compress and
// the property statement):
//   * two sequences are "the same" when they are byte-wise equal, after replacing the
//     alphabet's own wildcard (N for nucleotides, X for amino acids, nothing for an unknown
//     alphabet) by '-' when nAsGap is set;
//   * Deduplicate keeps the first row of every class, unchanged and in the original order;
//     identical[g] starts with the name of the g-th kept row and the groups partition the names;
//   * Compress emits every distinct column once; weights[i] is the number of original columns
//     equal to emitted column i.

func vfC13Residue(c uint8) bool {
	return c == 'A' || c == 'C' || c == 'N' || c == 'X' || c == '-'
}

// vfC13Canon is the comparison form of one residue.
func vfC13Canon(c uint8, alphabet int, nAsGap bool) uint8 {
	if nAsGap {
		if alphabet == NUCLEOTIDS && c == 'N' {
			return '-'
		}
		if alphabet == AMINOACIDS && c == 'X' {
			return '-'
		}
	}
	return c
}

func vfC13SameRow(a, b []uint8, alphabet int, nAsGap bool) bool {
	if len(a) != len(b) {
		return false
	}
	eq := true
	for j := range a {
		eq = eq && vfC13Canon(a[j], alphabet, nAsGap) == vfC13Canon(b[j], alphabet, nAsGap)
	}
	return eq
}

// vfC13CheckDedup checks the result of one Deduplicate call on sb against the original rows
// and returns the number of kept rows.
func vfC13CheckDedup(sb SeqBag, groups [][]string, orig [][]uint8, alphabet int, nAsGap bool) int {
	n := len(orig)
	rep := make([]int, n) // index of the group every original row must belong to
	k := 0
	for i := 0; i < n; i++ {
		firstSame := -1
		for j := i - 1; j >= 0; j-- {
			if vfC13SameRow(orig[i], orig[j], alphabet, nAsGap) {
				firstSame = j
			}
		}
		if firstSame >= 0 {
			rep[i] = rep[firstSame]
			continue
		}
		// row i is the first occurrence of its class: it must be the k-th kept row
		verifAssert(k < sb.NbSequences(), "every first occurrence is kept")
		name, _ := sb.GetSequenceNameById(k)
		verifAssert(name == vfNames[i], "kept rows are the first occurrences, in original order")
		got, _ := sb.GetSequenceCharById(k)
		verifAssert(len(got) == len(orig[i]), "kept row has its original length")
		for j := range orig[i] {
			verifAssert(got[j] == orig[i][j], "kept row has its original residues (not the N-as-gap form)")
		}
		verifAssert(k < len(groups), "one group per kept row")
		verifAssert(len(groups[k]) >= 1 && groups[k][0] == vfNames[i], "group is led by its kept representative")
		rep[i] = k
		k++
	}
	verifAssert(sb.NbSequences() == k, "nothing but first occurrences is kept")
	verifAssert(len(groups) == k, "as many groups as kept rows")
	total := 0
	for g := range groups {
		total += len(groups[g])
	}
	verifAssert(total == n, "groups contain as many names as the input")
	for i := 0; i < n; i++ {
		cnt := 0
		for g := range groups {
			for _, nm := range groups[g] {
				if nm == vfNames[i] {
					cnt++
					verifAssert(g == rep[i], "every name is in the group of its first identical row")
				}
			}
		}
		verifAssert(cnt == 1, "groups partition the input names")
	}
	return k
}

func vfC13Dedup(nmin, nmax, lmax, nalphabets int, residue func(uint8) bool) {
	n := nondetRange(nmin, nmax)
	L := nondetRange(1, lmax)
	alphabet := NUCLEOTIDS
	switch nondetRange(1, nalphabets) {
	case 2:
		alphabet = AMINOACIDS
	case 3:
		alphabet = UNKNOWN
	}
	nAsGap := nondetRange(0, 1) == 1
	al, orig := vfSymAlign(alphabet, n, L, residue)
	groups, err := al.Deduplicate(nAsGap)
	verifReach("dedup")
	verifAssert(err == nil, "no error")
	verifAssert(al.Alphabet() == alphabet, "alphabet kept")
	verifAssert(al.Length() == L, "alignment length kept")
	k := vfC13CheckDedup(al, groups, orig, alphabet, nAsGap)
	if k < n {
		verifReach("some duplicate removed")
	}
	if k > 1 {
		verifReach("several classes")
	}
	// idempotence
	first := vfSnapshot(al)
	groups2, err2 := al.Deduplicate(nAsGap)
	verifAssert(err2 == nil, "no error the second time")
	verifAssert(vfSameSnap(first, vfSnapshot(al)), "de-duplication is idempotent")
	verifAssert(len(groups2) == k, "second call: one group per row")
	for g := range groups2 {
		verifAssert(len(groups2[g]) == 1 && groups2[g][0] == first.names[g], "second call: only singleton groups")
	}
}

// H_C13_dedup: Deduplicate keeps exactly the first occurrences in order, groups partition the names, idempotent.
// bounds: alignment with n<=3 rows, L<=2 columns, residues in {A,C,N,X,-}, alphabet in {amino acids, nucleotides, unknown}, nAsGap in {false,true}
// outside: n>3, L>2, other residues (lower-case n/x: not stated whether they are wildcards), sequence comments
func H_C13_dedup() { vfC13Dedup(1, 3, 2, 3, vfC13Residue) }

// H_C13_dedup_deep: four rows (up to 15 ways of being pairwise identical), nucleotide alphabet only.
// bounds: n=4 rows, L<=2 columns, residues in {A,N,-}, nucleotide alphabet, nAsGap in {false,true}
// outside: n>4, L>2, other residues and alphabets (covered for n<=3 by H_C13_dedup)
//verif: tier=thorough
func H_C13_dedup_deep() {
	vfC13Dedup(4, 4, 2, 1, func(c uint8) bool { return c == 'A' || c == 'N' || c == '-' })
}

func vfC13DedupBag(nmin, nmax, lmax int) {
	n := nondetRange(nmin, nmax)
	alphabet := NUCLEOTIDS
	if nondetRange(0, 1) == 0 {
		alphabet = AMINOACIDS
	}
	nAsGap := nondetRange(0, 1) == 1
	sb := NewSeqBag(alphabet)
	orig := make([][]uint8, n)
	for i := 0; i < n; i++ {
		li := nondetRange(0, lmax)
		s := make([]uint8, li)
		orig[i] = make([]uint8, li)
		for j := range s {
			s[j] = nondetByte()
			assume(vfC13Residue(s[j]))
			orig[i][j] = s[j]
		}
		if err := sb.AddSequenceChar(vfNames[i], s, ""); err != nil {
			panic("harness: cannot build sequence set")
		}
	}
	groups, err := sb.Deduplicate(nAsGap)
	verifReach("dedup bag")
	verifAssert(err == nil, "no error")
	k := vfC13CheckDedup(sb, groups, orig, alphabet, nAsGap)
	if k < n {
		verifReach("some duplicate removed")
	}
	first := vfSnapshotBag(sb)
	groups2, err2 := sb.Deduplicate(nAsGap)
	verifAssert(err2 == nil, "no error the second time")
	verifAssert(vfSameSnap(first, vfSnapshotBag(sb)), "de-duplication is idempotent")
	verifAssert(len(groups2) == k, "second call: one group per row")
}

// H_C13_dedup_bag: Deduplicate on an unaligned sequence set (rows of different lengths, prefixes of one another, empty rows).
// bounds: n<=3 sequences of individual lengths 0..2, residues in {A,C,N,X,-}, alphabet amino acids or nucleotides, nAsGap in {false,true}
// outside: n>3, lengths>2
func H_C13_dedup_bag() { vfC13DedupBag(1, 3, 2) }

// H_C13_dedup_bag_deep: four sequences, each empty or of one residue.
// bounds: n=4 sequences of individual lengths 0..1, residues in {A,C,N,X,-}, alphabet amino acids or nucleotides, nAsGap in {false,true}
// outside: n>4, longer sequences (covered for n<=3 by H_C13_dedup_bag)
//verif: tier=thorough
func H_C13_dedup_bag_deep() { vfC13DedupBag(4, 4, 1) }

func vfC13SameCol(a [][]uint8, ca int, b [][]uint8, cb int) bool {
	eq := true
	for i := range a {
		eq = eq && a[i][ca] == b[i][cb]
	}
	return eq
}

func vfC13Compress(nmax, lmax int, ok func(uint8) bool) {
	n := nondetRange(1, nmax)
	L := nondetRange(1, lmax)
	al, orig := vfSymAlign(NUCLEOTIDS, n, L, ok)
	w := al.Compress()
	verifReach("compress")
	m := len(w)
	verifAssert(m >= 1 && m <= L, "between 1 and L patterns")
	verifAssert(al.Length() == m, "length is the number of patterns")
	verifAssert(al.NbSequences() == n, "rows kept")
	out := make([][]uint8, n)
	for i := 0; i < n; i++ {
		name, _ := al.GetSequenceNameById(i)
		verifAssert(name == vfNames[i], "names and order kept")
		got, _ := al.GetSequenceCharById(i)
		verifAssert(len(got) == m, "one residue per pattern in every row")
		out[i] = got
	}
	sum := 0
	for p := 0; p < m; p++ {
		sum += w[p]
		for q := 0; q < p; q++ {
			verifAssert(!vfC13SameCol(out, p, out, q), "patterns are pairwise distinct")
		}
		mult := 0
		for c := 0; c < L; c++ {
			if vfC13SameCol(out, p, orig, c) {
				mult++
			}
		}
		verifAssert(mult >= 1, "every emitted pattern is an original column")
		verifAssert(w[p] == mult, "weights[i] is the multiplicity of emitted column i")
	}
	verifAssert(sum == L, "weights sum to the original length")
	for c := 0; c < L; c++ {
		found := false
		for p := 0; p < m; p++ {
			if vfC13SameCol(out, p, orig, c) {
				found = true
			}
		}
		verifAssert(found, "every original column is present")
	}
	if m < L {
		verifReach("some column merged")
	}
	if m > 1 {
		verifReach("several patterns")
	}
}

// H_C13_compress: Compress returns pairwise distinct patterns with their exact multiplicities (through the real go-radix tree).
// bounds: n<=2 rows, L<=4 columns, residues any printable ASCII byte 0x21..0x7e
// outside: n>2, L>4, bytes >= 0x80 (a pattern is walked as a UTF-8 string), alignments without rows
func H_C13_compress() { vfC13Compress(2, 4, vfC13Printable) }

// H_C13_compress_rows: three rows (patterns sharing prefixes of length 1 and 2 in the radix tree: node splits).
// bounds: n<=3 rows, L<=3 columns, residues printable ASCII
// outside: n>3, L>3
func H_C13_compress_rows() { vfC13Compress(3, 3, vfC13Printable) }

// H_C13_compress_deep: as H_C13_compress_rows, deeper.
// bounds: n<=3 rows, L<=4 columns, residues printable ASCII
// outside: n>3, L>4
//verif: tier=thorough
func H_C13_compress_deep() { vfC13Compress(3, 4, vfC13Printable) }

func vfC13Printable(c uint8) bool { return c >= 0x21 && c <= 0x7e }
