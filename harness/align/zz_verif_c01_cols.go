//go:build verif

package align

// C01 — length bookkeeping after column removal in 'ends' mode (added after the seeded change
// C01-1 showed that no harness removed columns in ends mode on an alignment with an interior
// qualifying column, nor compared Length() with the rows afterwards).

// H_C01_step_cols_ends: after RemoveGapSites / RemoveCharacterSites / RemoveMajorityCharacterSites, in both modes,
// Length() equals the length of every row and the number of kept columns, kept and removed partition the
// columns, and the rows are the kept columns of the original.
// bounds: 2 rows, L in 3..4, residues symbolic over {A, C, -}; cutoff 1; operation and ends mode enumerated
// outside: other cutoffs and options (C12 decides which columns qualify), more rows, L>4
func H_C01_step_cols_ends() {
	L := nondetRange(3, 4)
	op := nondetRange(0, 2)
	ends := nondetRange(0, 1) == 1
	al, orig := vfSymAlign(NUCLEOTIDS, 2, L, func(c uint8) bool { return c == 'A' || c == 'C' || c == '-' })
	var kept, rm []int
	var first, last int
	switch op {
	case 0:
		first, last, kept, rm = al.RemoveGapSites(1.0, ends)
	case 1:
		first, last, kept, rm = al.RemoveCharacterSites([]uint8{'A'}, 1.0, ends, false, false, false, false)
	case 2:
		first, last, kept, rm = al.RemoveMajorityCharacterSites(1.0, ends, false, false)
	}
	verifReach("removed")
	if len(rm) > 0 && len(kept) > 0 {
		verifReach("some removed, some kept")
	}
	verifAssert(len(kept)+len(rm) == L, "kept and removed columns partition the original columns")
	// (when every column is removed the prefix and the suffix are both the whole alignment)
	verifAssert(first >= 0 && last >= 0 && first <= len(rm) && last <= len(rm), "leading/trailing counts do not exceed the removed columns")
	n := al.Length()
	verifAssert(n == len(kept), "Length() is the number of kept columns")
	for i := 0; i < 2; i++ {
		row, ok := al.GetSequenceCharById(i)
		verifAssert(ok && len(row) == n, "every row has Length() columns")
		for j := 0; j < len(row) && j < len(kept); j++ {
			verifAssert(kept[j] >= 0 && kept[j] < L && row[j] == orig[i][kept[j]], "rows are the kept columns of the original, in order")
		}
	}
	// a sequence of the reported length can still be added, one of the old length cannot (when they differ)
	if n > 0 {
		s := make([]uint8, n)
		for j := range s {
			s[j] = 'A'
		}
		verifAssert(al.AddSequenceChar("zz", s, "") == nil, "a sequence of the reported length is accepted afterwards")
	}
}
