//go:build verif

package align

// C05 — translation must not depend on what was translated before (added after the seeded change
// C05-1: a process-wide cache keyed by the codon only, so that a second translation of the same
// ambiguous / lower-case / RNA codon under ANOTHER genetic code returned the first code's result;
// every other C05 harness translates under one code per execution).

// H_C05_codes_history: the same codon translated successively under the three genetic codes (in every order) gives
// each code's own translation.
// bounds: one codon = two residues from {AG, AT, TG, ag, au, UG} (the codon families whose meaning differs between the three tables; DNA/RNA, both cases) and a symbolic third residue (any byte); all 6 orders of the three genetic codes
// outside: longer sequences, ambiguity codes in positions 1 and 2 (the codon-level harnesses cover them under a single code)
func H_C05_codes_history() {
	pairs := []string{"AG", "AT", "TG", "ag", "au", "UG"}
	p1 := pairs[nondetRange(0, len(pairs)-1)]
	x := nondetByte()
	in := []uint8{p1[0], p1[1], x}
	first := nondetRange(0, 2)
	second := nondetRange(0, 2)
	assume(first != second)
	third := 3 - first - second
	for _, sel := range []int{first, second, third} {
		cp := make([]uint8, len(in))
		copy(cp, in)
		aa, err := NewSequence("s", cp, "").Translate(0, sel)
		if err != nil {
			// a third residue that is not a nucleotide code makes the sequence non-nucleotidic: a
			// legitimate error, the same under every genetic code
			verifReach("rejected")
			return
		}
		verifReach("translated")
		got := aa.SequenceChar()
		verifAssert(len(got) == 1, "one residue")
		verifAssert(got[0] == vfRefCodon(in[0], in[1], in[2], vfNCBITable(sel)), "the codon follows the current genetic code whatever was translated before")
	}
}
