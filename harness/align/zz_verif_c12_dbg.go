//go:build verif

package align

// H_C12_dbg1: debug.
// bounds: tiny
// outside: all
func H_C12_dbg1() {
	vfC12SitesBody(vfC12Cfg{ends: false, nmin: 2, nmax: 2, lmin: 2, lmax: 2, maxCells2: 0, ks: []int{4}})
}
