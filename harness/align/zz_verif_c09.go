//go:build verif

package align

// C09 — pairwise local alignment (Smith-Waterman) is valid, self-consistent and optimal.
//
// Oracle (written from the property statement and the EMBOSS water convention, DESIGN.md §9.4):
// a local alignment is any sequence of columns residue/residue, residue/gap, gap/residue
// (never gap/gap) over a pair of substrings; its score is the sum of the substitution scores
// plus, for each maximal run of k gaps within one row, gapopen+(k-1)*gapextend. A gap run
// in one row directly followed by a gap run in the other row pays two openings.
//   vfSWGotoh  : three-matrix Gotoh recurrence M/X/Y (reference optimum)
//   vfSWEnum   : explicit enumeration of every local alignment (validates vfSWGotoh)
//   vfSWRescore: score of a given pair of gapped rows
// Positions: AlignStarts/AlignEnds are taken as 0-based, both inclusive.
//
// Every harness checks all three parts of the property in one run of the aligner (the run is the
// expensive part), with distinct assertion labels:
//   (1) structure  : labels "rows ...", "degapped ...", "matches+mismatches+gaps ...", "input ..."
//   (2) re-scoring : "score of the returned rows == MaxScore()"
//   (3) optimality : "MaxScore() >= optimum ...", "MaxScore() <= optimum ..."
//
// The *_masked variants exclude the regions of the three defects found on the pinned tree (see the
// comment on vfSWMask) so that everything outside them is still verified.

const (
	vfSWModeMM      = 0 // SetScore(match, mismatch); letters A C G T R Y K M (only equality matters)
	vfSWModeDNAfull = 1 // built-in EDNAFULL / NUC.4.4; letters A C G T N
	vfSWModeBlosum  = 2 // built-in BLOSUM62; letters W E I L F
	// full alphabets of the built-in matrices, scored by the independently transcribed tables of
	// zz_verif_c09_tables.go (used with concrete flanks around one symbolic residue per sequence)
	vfSWModeDNAfullAll = 3
	vfSWModeBlosumAll  = 4
)

const vfSWNeg = -1000000.0 // "minus infinity" for the reference recurrences (|scores| <= 11*4)

type vfSWScheme struct {
	mode            int
	match, mismatch float64
	open, ext       float64
}

// vfSWBlosum: BLOSUM62 restricted to W E I L F (published matrix, half-bit units).
var vfSWBlosum = [5][5]float64{
	//        W   E   I   L   F
	/* W */ {11, -3, -3, -2, 1},
	/* E */ {-3, 5, -3, -3, -3},
	/* I */ {-3, -3, 4, 2, 0},
	/* L */ {-2, -3, 2, 4, 0},
	/* F */ {1, -3, 0, 0, 6},
}

var vfSWBlosumLetters = [5]uint8{'W', 'E', 'I', 'L', 'F'}

// vfSWSub: substitution score of two residues under the scheme.
func vfSWSub(sc vfSWScheme, c1, c2 uint8) float64 {
	switch sc.mode {
	case vfSWModeMM:
		if c1 == c2 {
			return sc.match
		}
		return sc.mismatch
	case vfSWModeDNAfullAll:
		return float64(vfC09Ednafull[vfC09Pos(vfC09DnaOrder, c1)][vfC09Pos(vfC09DnaOrder, c2)])
	case vfSWModeBlosumAll:
		return float64(vfC09Blosum62[vfC09Pos(vfC09ProtOrder, c1)][vfC09Pos(vfC09ProtOrder, c2)])
	case vfSWModeDNAfull:
		// EDNAFULL: identical unambiguous bases 5, different -4, N against a base -2, N/N -1.
		if c1 == 'N' && c2 == 'N' {
			return -1
		}
		if c1 == 'N' || c2 == 'N' {
			return -2
		}
		if c1 == c2 {
			return 5
		}
		return -4
	}
	s := 0.0
	for a := 0; a < 5; a++ {
		for b := 0; b < 5; b++ {
			if c1 == vfSWBlosumLetters[a] && c2 == vfSWBlosumLetters[b] {
				s = vfSWBlosum[a][b]
			}
		}
	}
	return s
}

func vfSWLetterOK(mode int, c uint8) bool {
	switch mode {
	case vfSWModeMM:
		return c == 'A' || c == 'C' || c == 'G' || c == 'T' || c == 'R' || c == 'Y' || c == 'K' || c == 'M'
	case vfSWModeDNAfull:
		return c == 'A' || c == 'C' || c == 'G' || c == 'T' || c == 'N'
	case vfSWModeDNAfullAll:
		return vfC09Pos(vfC09DnaOrder, c) >= 0 && c < 'a'
	case vfSWModeBlosumAll:
		return vfC09Pos(vfC09ProtOrder, c) >= 0 && c < 'a' && c != '*'
	}
	return c == 'W' || c == 'E' || c == 'I' || c == 'L' || c == 'F'
}

func vfMaxF(a, b float64) float64 {
	if b > a {
		return b
	}
	return a
}

// vfSWSubMatrix: s[i][j] = substitution score of s1[i] against s2[j].
func vfSWSubMatrix(sc vfSWScheme, s1, s2 []uint8) [][]float64 {
	s := make([][]float64, len(s1))
	for i := range s1 {
		s[i] = make([]float64, len(s2))
		for j := range s2 {
			s[i][j] = vfSWSub(sc, s1[i], s2[j])
		}
	}
	return s
}

// vfSWGotoh: optimum local alignment score (0 when no alignment is positive), Gotoh M/X/Y.
// M: last column residue/residue; X: last column residue of seq1 over a gap; Y: gap over a
// residue of seq2. optInner is the best M over the cells with i>=1 and j>=1 only (0 if none),
// i.e. the best alignment whose last column is not in the first row/column of the matrix.
func vfSWGotoh(s [][]float64, open, ext float64) (opt, optInner float64) {
	l1 := len(s)
	l2 := len(s[0])
	M := make([][]float64, l1)
	X := make([][]float64, l1)
	Y := make([][]float64, l1)
	for i := 0; i < l1; i++ {
		M[i] = make([]float64, l2)
		X[i] = make([]float64, l2)
		Y[i] = make([]float64, l2)
		for j := 0; j < l2; j++ {
			prev := 0.0
			if i > 0 && j > 0 {
				prev = vfMaxF(prev, M[i-1][j-1])
				prev = vfMaxF(prev, X[i-1][j-1])
				prev = vfMaxF(prev, Y[i-1][j-1])
			}
			M[i][j] = s[i][j] + prev
			X[i][j] = vfSWNeg
			if i > 0 {
				X[i][j] = vfMaxF(M[i-1][j]+open, vfMaxF(Y[i-1][j]+open, X[i-1][j]+ext))
			}
			Y[i][j] = vfSWNeg
			if j > 0 {
				Y[i][j] = vfMaxF(M[i][j-1]+open, vfMaxF(X[i][j-1]+open, Y[i][j-1]+ext))
			}
			opt = vfMaxF(opt, M[i][j])
			if i > 0 && j > 0 {
				optInner = vfMaxF(optInner, M[i][j])
			}
		}
	}
	return opt, optInner
}

// vfSWEnum: explicit enumeration of every local alignment of every substring pair; returns the
// best score (0 for the empty alignment). last: 0 none, 1 residue/residue, 2 residue/gap, 3 gap/residue.
func vfSWEnum(s [][]float64, open, ext float64) float64 {
	l1 := len(s)
	l2 := len(s[0])
	best := 0.0
	var rec func(i, j, last int, score float64)
	rec = func(i, j, last int, score float64) {
		// the columns chosen so far form a complete local alignment: record it
		if score > best {
			best = score
		}
		if i < l1 && j < l2 {
			rec(i+1, j+1, 1, score+s[i][j])
		}
		if i < l1 {
			g := open
			if last == 2 {
				g = ext
			}
			rec(i+1, j, 2, score+g)
		}
		if j < l2 {
			g := open
			if last == 3 {
				g = ext
			}
			rec(i, j+1, 3, score+g)
		}
	}
	for i := 0; i <= l1; i++ {
		for j := 0; j <= l2; j++ {
			rec(i, j, 0, 0.0)
		}
	}
	return best
}

// vfSWRescore: score of the gapped rows under the scheme; ok=false if the rows are not a
// well-formed alignment (different lengths or an all-gap column).
func vfSWRescore(sc vfSWScheme, r1, r2 []uint8) (score float64, ok bool) {
	if len(r1) != len(r2) {
		return 0, false
	}
	ok = true
	last := 0
	for k := range r1 {
		g1 := r1[k] == '-'
		g2 := r2[k] == '-'
		if g1 && g2 {
			ok = false
		} else if g2 {
			if last == 2 {
				score += sc.ext
			} else {
				score += sc.open
			}
			last = 2
		} else if g1 {
			if last == 3 {
				score += sc.ext
			} else {
				score += sc.open
			}
			last = 3
		} else {
			score += vfSWSub(sc, r1[k], r2[k])
			last = 1
		}
	}
	return score, ok
}

// vfSWSymGaps: symbolic gap penalties, multiples of 1/2 in [-8,0), gapopen <= gapextend < 0.
func vfSWSymGaps(sc *vfSWScheme) {
	sc.open = nondetDyadic(2, -16, 16)
	sc.ext = nondetDyadic(2, -16, 16)
	assume(sc.ext < 0)
	assume(sc.open <= sc.ext)
}

// vfSWSymScheme: symbolic match/mismatch/gap parameters, multiples of 1/2 in [-8,8].
func vfSWSymScheme() vfSWScheme {
	var sc vfSWScheme
	sc.mode = vfSWModeMM
	sc.match = nondetDyadic(2, -16, 16)
	sc.mismatch = nondetDyadic(2, -16, 16)
	assume(sc.match > 0)
	assume(sc.mismatch < 0)
	vfSWSymGaps(&sc)
	return sc
}

// vfSWSymSeq: l symbolic residues of the mode's alphabet.
func vfSWSymSeq(mode, l int) []uint8 {
	s := make([]uint8, l)
	for i := range s {
		s[i] = nondetByte()
		assume(vfSWLetterOK(mode, s[i]))
	}
	return s
}

// vfSWSymPair: two symbolic sequences; in BLOSUM mode at least one residue is not W, because two
// all-W sequences are taken for nucleotides (IUPAC W) by the alphabet detection and get EDNAFULL.
func vfSWSymPair(mode, l1, l2 int) (s1, s2 []uint8) {
	s1 = vfSWSymSeq(mode, l1)
	s2 = vfSWSymSeq(mode, l2)
	if mode == vfSWModeBlosum {
		allW := true
		for _, c := range s1 {
			allW = allW && c == 'W'
		}
		for _, c := range s2 {
			allW = allW && c == 'W'
		}
		assume(!allW)
	}
	return s1, s2
}

type vfSWResult struct {
	r1, r2         []uint8
	st1, st2       int
	en1, en2       int
	max            float64
	nm, nmm, ng, n int
}

// vfSWRun: runs the aligner under test through its public interface and checks that the inputs
// are left unmodified.
func vfSWRun(sc vfSWScheme, s1, s2 []uint8, setGaps bool) vfSWResult {
	in1 := make([]uint8, len(s1))
	in2 := make([]uint8, len(s2))
	copy(in1, s1)
	copy(in2, s2)
	q1 := NewSequence("s1", in1, "c1")
	q2 := NewSequence("s2", in2, "c2")
	a := NewPwAligner(q1, q2, ALIGN_ALGO_SW)
	if sc.mode == vfSWModeMM {
		a.SetScore(sc.match, sc.mismatch)
	}
	if setGaps {
		a.SetGapOpenScore(sc.open)
		a.SetGapExtendScore(sc.ext)
	}
	al, err := a.Alignment()
	verifAssert(err == nil, "alignment of sequences over the alphabet succeeds")
	var r vfSWResult
	r.r1, r.r2 = a.Seq1Ali(), a.Seq2Ali()
	r.st1, r.st2 = a.AlignStarts()
	r.en1, r.en2 = a.AlignEnds()
	r.max = a.MaxScore()
	r.nm, r.nmm, r.ng, r.n = a.NbMatches(), a.NbMisMatches(), a.NbGaps(), a.Length()

	// inputs unmodified (the caller's slices and the Sequence objects)
	same := len(in1) == len(s1) && len(in2) == len(s2) && q1.Length() == len(s1) && q2.Length() == len(s2)
	verifAssert(same, "input lengths unchanged")
	for i := range s1 {
		same = same && in1[i] == s1[i] && q1.CharAt(i) == s1[i]
	}
	for i := range s2 {
		same = same && in2[i] == s2[i] && q2.CharAt(i) == s2[i]
	}
	verifAssert(same, "input residues unchanged")
	verifAssert(q1.Name() == "s1" && q2.Name() == "s2" && q1.Comment() == "c1" && q2.Comment() == "c2", "input names and comments unchanged")

	// the returned Alignment object carries the same two rows
	verifAssert(al.NbSequences() == 2, "result alignment has two rows")
	o1, _ := al.GetSequenceCharById(0)
	o2, _ := al.GetSequenceCharById(1)
	eq := len(o1) == len(r.r1) && len(o2) == len(r.r2)
	verifAssert(eq, "Alignment() rows have the length of Seq1Ali/Seq2Ali")
	for k := range r.r1 {
		eq = eq && o1[k] == r.r1[k]
	}
	for k := range r.r2 {
		eq = eq && o2[k] == r.r2[k]
	}
	verifAssert(eq, "Alignment() rows equal Seq1Ali/Seq2Ali")
	return r
}

// vfSWStructure: the structural part of the property.
func vfSWStructure(r vfSWResult, s1, s2 []uint8) {
	verifAssert(len(r.r1) == len(r.r2), "rows have equal length")
	verifAssert(len(r.r1) >= 1, "rows are not empty")
	verifAssert(r.n == len(r.r1), "Length() is the number of columns")
	verifAssert(r.nm >= 0 && r.nmm >= 0 && r.ng >= 0 && r.nm+r.nmm+r.ng == r.n, "matches+mismatches+gaps == Length()")
	verifAssert(r.st1 >= 0 && r.st1 <= r.en1 && r.en1 < len(s1), "0 <= start1 <= end1 < len(seq1)")
	verifAssert(r.st2 >= 0 && r.st2 <= r.en2 && r.en2 < len(s2), "0 <= start2 <= end2 < len(seq2)")
	allgap := false
	k1, k2 := r.st1, r.st2
	ok1, ok2 := true, true
	cm, cmm, cg := 0, 0, 0
	for k := range r.r1 {
		g1 := r.r1[k] == '-'
		g2 := r.r2[k] == '-'
		if g1 && g2 {
			allgap = true
		}
		if !g1 {
			if k1 <= r.en1 {
				ok1 = ok1 && r.r1[k] == s1[k1]
			} else {
				ok1 = false
			}
			k1++
		}
		if !g2 {
			if k2 <= r.en2 {
				ok2 = ok2 && r.r2[k] == s2[k2]
			} else {
				ok2 = false
			}
			k2++
		}
		if g1 || g2 {
			cg++
		} else if r.r1[k] == r.r2[k] {
			cm++
		} else {
			cmm++
		}
	}
	verifAssert(!allgap, "rows have no all-gap column")
	verifAssert(ok1 && k1 == r.en1+1, "degapped row 1 == seq1[start1..end1]")
	verifAssert(ok2 && k2 == r.en2+1, "degapped row 2 == seq2[start2..end2]")
	verifAssert(cg == r.ng, "NbGaps() counts the gap columns")
	verifAssert(cm == r.nm && cmm == r.nmm, "NbMatches()/NbMisMatches() count identical/different residue pairs")
}

// vfSWMask: assumptions that exclude the input regions of the three defects found on the pinned
// tree (align/aligner.go), used by the *_masked harnesses only:
//
//	D1 (fillMatrix_SW, loops at :187 and :224 never update maxscore/maxi/maxj): a best cell in the
//	   first row or first column of the score matrix is not recorded.
//	   Excluded by: the optimum is also attained by an alignment ending at i>=1 and j>=1.
//	D3 (fillMatrix_SW :211-217, maxa[j] initialised with +gapextend when the left neighbour is a
//	   gap cell): a gap opened below a first-row cell is charged 2*gapextend instead of gapopen.
//	   Needs a positive "gap" cell in the first row and 2*gapextend > gapopen.
//	   Excluded by: gapopen >= 2*gapextend, or best substitution score of seq1[0] + gapopen <= 0.
//	D2 (backTrack_SW stop test at :427 requires i>0 && j>0): the trace-back runs through a zero cell
//	   of the first row/column and prepends a column of negative score. This is excluded after the
//	   run, on the output (first returned column has a negative substitution score), see vfSWCheck.
func vfSWMask(sub [][]float64, sc vfSWScheme, opt, optInner float64) {
	assume(optInner == opt)
	top := sub[0][0]
	for j := 1; j < len(sub[0]); j++ {
		top = vfMaxF(top, sub[0][j])
	}
	assume(sc.open >= 2*sc.ext || top+sc.open <= 0)
}

// vfSWCheck: the complete property for one scheme and one pair of sequences.
func vfSWCheck(sc vfSWScheme, s1, s2 []uint8, setGaps, enum, masked bool) {
	sub := vfSWSubMatrix(sc, s1, s2)
	opt, optInner := vfSWGotoh(sub, sc.open, sc.ext)
	if enum {
		e := vfSWEnum(sub, sc.open, sc.ext)
		verifAssert(e == opt, "reference: Gotoh optimum == explicit enumeration of all local alignments")
	}
	if masked {
		vfSWMask(sub, sc, opt, optInner)
	}
	r := vfSWRun(sc, s1, s2, setGaps)
	verifReach("aligned")
	verifObserve("input, rows, starts, ends", s1, s2, r.r1, r.r2, r.st1, r.st2, r.en1, r.en2)
	vfSWStructure(r, s1, s2)
	if opt > 0 {
		verifReach("positive optimum")
		if masked && len(r.r1) > 0 && len(r.r2) > 0 && r.r1[0] != '-' && r.r2[0] != '-' {
			assume(vfSWSub(sc, r.r1[0], r.r2[0]) >= 0) // D2, see vfSWMask
		}
		score, ok := vfSWRescore(sc, r.r1, r.r2)
		verifAssert(ok, "rows can be re-scored")
		verifAssert(r.max >= opt, "MaxScore() >= optimum: no other local alignment scores higher")
		verifAssert(r.max <= opt, "MaxScore() <= optimum: the reported score is attainable")
		verifAssert(score == r.max, "score of the returned rows == MaxScore()")
		verifReach("scores checked")
	} else {
		verifReach("no positive alignment")
	}
}

// vfSWLengths: l1,l2 in 1..maxLen with max(l1,l2) >= minMax.
func vfSWLengths(minMax, maxLen int) (int, int) {
	l1 := nondetRange(1, maxLen)
	l2 := nondetRange(1, maxLen)
	assume(l1 >= minMax || l2 >= minMax)
	return l1, l2
}

// ---------------------------------------------------------------- reference self-check

// H_C09_ref_enum: the Gotoh reference equals the explicit enumeration of all local alignments for arbitrary substitution scores.
// bounds: lengths l1,l2 in 1..2; every substitution score s[i][j] an independent multiple of 1/2 in [-8,8] (any sign, not necessarily symmetric); gapopen<=gapextend<0 multiples of 1/2 in [-8,0)
// outside: lengths >2 (the reference is then used without this cross-check)
// assumes: nothing about goalign (no goalign code is executed); validates the oracle against the definition
func H_C09_ref_enum() {
	l1 := nondetRange(1, 2)
	l2 := nondetRange(1, 2)
	var sc vfSWScheme
	vfSWSymGaps(&sc)
	sub := make([][]float64, l1)
	for i := range sub {
		sub[i] = make([]float64, l2)
		for j := range sub[i] {
			sub[i][j] = nondetDyadic(2, -16, 16)
		}
	}
	opt, optInner := vfSWGotoh(sub, sc.open, sc.ext)
	e := vfSWEnum(sub, sc.open, sc.ext)
	verifReach("reference")
	verifAssert(e == opt, "reference: Gotoh optimum == explicit enumeration of all local alignments")
	verifAssert(optInner <= opt && optInner >= 0, "reference: inner optimum is between 0 and the optimum")
}

// ---------------------------------------------------------------- match/mismatch mode

// H_C09_sw_mm: match/mismatch scoring with a symbolic scheme, tiny lengths, all claims of C09 plus enumeration.
// bounds: lengths l1,l2 in 1..2; residues symbolic over {A,C,G,T,R,Y,K,M} (all equality patterns); match/mismatch/gapopen/gapextend any multiples of 1/2 in [-8,8] with match>0, mismatch<0, gapopen<=gapextend<0
// outside: lengths >2 (H_C09_sw_mm3, H_C09_sw_mm4); non-dyadic scores; letters outside the nucleotide alphabet (Alignment() returns an error); lower case; ATG mode
// assumes: AlignStarts/AlignEnds are 0-based inclusive positions
func H_C09_sw_mm() {
	l1, l2 := vfSWLengths(1, 2)
	sc := vfSWSymScheme()
	s1, s2 := vfSWSymPair(sc.mode, l1, l2)
	vfSWCheck(sc, s1, s2, true, true, false)
}

// H_C09_sw_mm3: as H_C09_sw_mm for the length pairs with max(l1,l2)=3 (no enumeration).
// bounds: lengths l1,l2 in 1..3 with max 3; residues and scheme as H_C09_sw_mm
// outside: lengths >3; non-dyadic scores
// assumes: Gotoh reference (validated by H_C09_ref_enum and H_C09_sw_mm for lengths <=2)
func H_C09_sw_mm3() {
	l1, l2 := vfSWLengths(3, 3)
	sc := vfSWSymScheme()
	s1, s2 := vfSWSymPair(sc.mode, l1, l2)
	vfSWCheck(sc, s1, s2, true, false, false)
}

// H_C09_sw_mm4: as H_C09_sw_mm3 for the length pairs with max(l1,l2)=4.
// bounds: lengths l1,l2 in 1..4 with max 4
// outside: lengths >4
//verif: tier=thorough
func H_C09_sw_mm4() {
	l1, l2 := vfSWLengths(4, 4)
	sc := vfSWSymScheme()
	s1, s2 := vfSWSymPair(sc.mode, l1, l2)
	vfSWCheck(sc, s1, s2, true, false, false)
}

// H_C09_sw_mm_masked: H_C09_sw_mm + H_C09_sw_mm3 outside the regions of the known defects D1-D3 (see vfSWMask).
// bounds: lengths l1,l2 in 2..3; residues and scheme as H_C09_sw_mm
// outside: inputs whose optimum is only reached in the first row/column of the matrix (D1); gapopen < 2*gapextend together with match+gapopen > 0 (D3); runs whose returned first column scores negative (D2); lengths 1 (always inside D1 when a positive alignment exists)
// assumes: see vfSWMask
func H_C09_sw_mm_masked() {
	l1 := nondetRange(2, 3)
	l2 := nondetRange(2, 3)
	sc := vfSWSymScheme()
	s1, s2 := vfSWSymPair(sc.mode, l1, l2)
	vfSWCheck(sc, s1, s2, true, false, true)
}

// H_C09_sw_mm4_masked: as H_C09_sw_mm_masked for the length pairs with max(l1,l2)=4.
// bounds: lengths l1,l2 in 2..4 with max 4
// outside: as H_C09_sw_mm_masked; lengths >4
// assumes: see vfSWMask
//verif: tier=thorough
func H_C09_sw_mm4_masked() {
	l1 := nondetRange(2, 4)
	l2 := nondetRange(2, 4)
	assume(l1 == 4 || l2 == 4)
	sc := vfSWSymScheme()
	s1, s2 := vfSWSymPair(sc.mode, l1, l2)
	vfSWCheck(sc, s1, s2, true, false, true)
}

// vfSWGrid: concrete match/mismatch schemes (cheaper than symbolic parameters at length 4).
//
//	0: 7/-6, gaps -2/-0.5   (gapopen < 2*gapextend and match+gapopen > 0: region of defect D3)
//	1: 2/-1, gaps -1/-1     (linear gap cost)
//	2: 5/-4, gaps -10/-0.5  (EMBOSS water defaults on a 5/-4 matrix)
//	3: 1/-1, gaps -1.5/-0.5
var vfSWGrid = [4]vfSWScheme{
	{mode: vfSWModeMM, match: 7, mismatch: -6, open: -2, ext: -0.5},
	{mode: vfSWModeMM, match: 2, mismatch: -1, open: -1, ext: -1},
	{mode: vfSWModeMM, match: 5, mismatch: -4, open: -10, ext: -0.5},
	{mode: vfSWModeMM, match: 1, mismatch: -1, open: -1.5, ext: -0.5},
}

// H_C09_sw_mm_grid: lengths 3x4 and 4x3 with one concrete scheme (7/-6, gaps -2/-0.5), all claims of C09.
// bounds: (l1,l2) in {(3,4),(4,3)}; residues symbolic over {A,C,G,T,R,Y,K,M}; scheme 0 of vfSWGrid
// outside: other schemes at these lengths (H_C09_sw_mm4, H_C09_sw_mm_grid4); lengths >4
// assumes: Gotoh reference (validated for lengths <=2)
func H_C09_sw_mm_grid() {
	l1 := nondetRange(3, 4)
	l2 := 7 - l1
	sc := vfSWGrid[0]
	s1, s2 := vfSWSymPair(sc.mode, l1, l2)
	vfSWCheck(sc, s1, s2, true, false, false)
}

// H_C09_sw_mm_grid4: all length pairs with max(l1,l2)=4 on the four concrete schemes of vfSWGrid.
// bounds: lengths l1,l2 in 1..4 with max 4; residues symbolic over {A,C,G,T,R,Y,K,M}; schemes vfSWGrid[0..3]
// outside: lengths >4
//verif: tier=thorough
func H_C09_sw_mm_grid4() {
	k := nondetRange(0, 3)
	l1, l2 := vfSWLengths(4, 4)
	sc := vfSWGrid[k]
	s1, s2 := vfSWSymPair(sc.mode, l1, l2)
	vfSWCheck(sc, s1, s2, true, false, false)
}

// ---------------------------------------------------------------- built-in matrices, symbolic gap penalties

// vfSWMatrixScheme: built-in matrix (no SetScore) with symbolic gap penalties.
func vfSWMatrixScheme(mode int) vfSWScheme {
	var sc vfSWScheme
	sc.mode = mode
	vfSWSymGaps(&sc)
	return sc
}

// H_C09_sw_dnafull: built-in EDNAFULL matrix (selected by the alphabet detection), symbolic gap penalties, all claims of C09.
// bounds: lengths l1,l2 in 1..3; residues symbolic over {A,C,G,T,N}; gapopen<=gapextend<0 any multiples of 1/2 in [-8,0); enumeration cross-check for lengths <=2
// outside: lengths >3 (H_C09_sw_dnafull4); other IUPAC codes, lower case; non-dyadic penalties
// assumes: reference substitution scores from the published EDNAFULL/NUC.4.4 (5/-4, N: -2, N/N: -1)
func H_C09_sw_dnafull() {
	l1, l2 := vfSWLengths(1, 3)
	sc := vfSWMatrixScheme(vfSWModeDNAfull)
	s1, s2 := vfSWSymPair(sc.mode, l1, l2)
	vfSWCheck(sc, s1, s2, true, l1 <= 2 && l2 <= 2, false)
}

// H_C09_sw_dnafull4: as H_C09_sw_dnafull for the length pairs with max(l1,l2)=4.
// bounds: lengths l1,l2 in 1..4 with max 4
// outside: lengths >4
//verif: tier=thorough
func H_C09_sw_dnafull4() {
	l1, l2 := vfSWLengths(4, 4)
	sc := vfSWMatrixScheme(vfSWModeDNAfull)
	s1, s2 := vfSWSymPair(sc.mode, l1, l2)
	vfSWCheck(sc, s1, s2, true, false, false)
}

// H_C09_sw_blosum: built-in BLOSUM62 matrix (selected by the alphabet detection), symbolic gap penalties, all claims of C09.
// bounds: lengths l1,l2 in 1..2; residues symbolic over {W,E,I,L,F}, not all of them W; gapopen<=gapextend<0 any multiples of 1/2 in [-8,0); enumeration cross-check
// outside: lengths >2 (H_C09_sw_blosum3, H_C09_sw_blosum4); the other 19 BLOSUM62 letters; two all-W sequences (detected as nucleotides); lower case
// assumes: reference substitution scores from the published BLOSUM62
func H_C09_sw_blosum() {
	l1, l2 := vfSWLengths(1, 2)
	sc := vfSWMatrixScheme(vfSWModeBlosum)
	s1, s2 := vfSWSymPair(sc.mode, l1, l2)
	vfSWCheck(sc, s1, s2, true, true, false)
}

// H_C09_sw_blosum3: as H_C09_sw_blosum for the length pairs with max(l1,l2)=3.
// bounds: lengths l1,l2 in 1..3 with max 3
// outside: lengths >3
//verif: tier=thorough
func H_C09_sw_blosum3() {
	l1, l2 := vfSWLengths(3, 3)
	sc := vfSWMatrixScheme(vfSWModeBlosum)
	s1, s2 := vfSWSymPair(sc.mode, l1, l2)
	vfSWCheck(sc, s1, s2, true, false, false)
}

// H_C09_sw_blosum4: as H_C09_sw_blosum for the length pairs (1,4) (2,4) (4,1) (4,2).
// bounds: one length 4, the other in 1..2
// outside: (3,4) (4,3) (4,4) with symbolic gap penalties (too slow with the 24x24 table: BLOSUM62 at these lengths is covered with the default penalties by H_C09_sw_defaults4); lengths >4
//verif: tier=thorough
func H_C09_sw_blosum4() {
	l1, l2 := vfSWLengths(4, 4)
	assume(l1 <= 2 || l2 <= 2)
	sc := vfSWMatrixScheme(vfSWModeBlosum)
	s1, s2 := vfSWSymPair(sc.mode, l1, l2)
	vfSWCheck(sc, s1, s2, true, false, false)
}

// H_C09_sw_dnafull_masked: EDNAFULL outside the regions of the known defects D1-D3 (see vfSWMask).
// bounds: lengths l1,l2 in 2..3; residues over {A,C,G,T,N}; symbolic gap penalties as H_C09_sw_dnafull
// outside: D1-D3 regions as in H_C09_sw_mm_masked (D3: gapopen < 2*gapextend together with best score of seq1[0] + gapopen > 0)
// assumes: see vfSWMask
func H_C09_sw_dnafull_masked() {
	l1 := nondetRange(2, 3)
	l2 := nondetRange(2, 3)
	sc := vfSWMatrixScheme(vfSWModeDNAfull)
	s1, s2 := vfSWSymPair(sc.mode, l1, l2)
	vfSWCheck(sc, s1, s2, true, false, true)
}

// H_C09_sw_blosum_masked: BLOSUM62 outside the regions of the known defects D1-D3 (see vfSWMask).
// bounds: lengths l1,l2 in 2..3; residues over {W,E,I,L,F}; symbolic gap penalties as H_C09_sw_blosum
// outside: D1-D3 regions as in H_C09_sw_mm_masked
// assumes: see vfSWMask
//verif: tier=thorough
func H_C09_sw_blosum_masked() {
	l1 := nondetRange(2, 3)
	l2 := nondetRange(2, 3)
	sc := vfSWMatrixScheme(vfSWModeBlosum)
	s1, s2 := vfSWSymPair(sc.mode, l1, l2)
	vfSWCheck(sc, s1, s2, true, false, true)
}

// ---------------------------------------------------------------- defaults

// vfSWDefaults: the defaults of NewPwAligner: built-in matrix, gap open -10, gap extend -0.5.
func vfSWDefaults(mode int) vfSWScheme {
	return vfSWScheme{mode: mode, open: -10, ext: -0.5}
}

// H_C09_sw_defaults: no Set* call at all: built-in matrix by alphabet detection, gap open -10, gap extend -0.5.
// bounds: lengths l1,l2 in 1..2; EDNAFULL over {A,C,G,T,N} or BLOSUM62 over {W,E,I,L,F} (not all W); enumeration cross-check
// outside: lengths >2 (H_C09_sw_defaults3, H_C09_sw_defaults4)
// assumes: the default penalties are -10 / -0.5 (EMBOSS water defaults, same as the flags of cmd/sw.go)
func H_C09_sw_defaults() {
	mode := nondetRange(vfSWModeDNAfull, vfSWModeBlosum)
	l1, l2 := vfSWLengths(1, 2)
	sc := vfSWDefaults(mode)
	s1, s2 := vfSWSymPair(sc.mode, l1, l2)
	vfSWCheck(sc, s1, s2, false, true, false)
}

// H_C09_sw_defaults3: as H_C09_sw_defaults for the length pairs with max(l1,l2)=3.
// bounds: lengths l1,l2 in 1..3 with max 3
// outside: lengths >3
//verif: tier=thorough
func H_C09_sw_defaults3() {
	mode := nondetRange(vfSWModeDNAfull, vfSWModeBlosum)
	l1, l2 := vfSWLengths(3, 3)
	sc := vfSWDefaults(mode)
	s1, s2 := vfSWSymPair(sc.mode, l1, l2)
	vfSWCheck(sc, s1, s2, false, false, false)
}

// H_C09_sw_defaults4: as H_C09_sw_defaults for the length pairs with max(l1,l2)=4 except (4,4) (BLOSUM62 with W/W=11 > 10 reaches defect D3 at 3x4).
// bounds: lengths l1,l2 in 1..4 with max 4 and l1+l2 <= 7
// outside: (4,4); lengths >4
//verif: tier=thorough
func H_C09_sw_defaults4() {
	mode := nondetRange(vfSWModeDNAfull, vfSWModeBlosum)
	l1, l2 := vfSWLengths(4, 4)
	assume(l1+l2 <= 7)
	sc := vfSWDefaults(mode)
	s1, s2 := vfSWSymPair(sc.mode, l1, l2)
	vfSWCheck(sc, s1, s2, false, false, false)
}
