//go:build verif

package align

// C10 — randomised operations keep their invariants, reach all outcomes, and are deterministic
// given the generator.
//
// verif-uses-rand: the replay build overlays math/rand so that the recorded draws are replayed.
//
// Every call of a randomised operation below is executed for EVERY outcome of math/rand that
// the documented contract of the generator allows (Intn(n): any value in [0,n); Float64: any real
// in [0,1); Perm(n): any n pairwise distinct values in [0,n)), so an assertion after the call is
// an assertion over all seeds. "Same seed reproduces the result" is checked as determinism given
// the draws: the complete result is handed to verifObserve, the engine predicts it from the rand
// tape and the native replay of the same tape must produce the same bytes.

// vfC10Res: residues used in the invariant harnesses: any printable ASCII byte (this includes
// the gap '-', the special characters '.' and '*', and letters outside the alphabet).
func vfC10Res(c uint8) bool { return c >= 0x21 && c <= 0x7e }

// vfC10SameMultiset: a and b hold the same bytes with the same multiplicities.
func vfC10SameMultiset(a, b []uint8) bool {
	if len(a) != len(b) {
		return false
	}
	ok := true
	for i := range a {
		ca, cb := 0, 0
		for k := range a {
			if a[k] == a[i] {
				ca++
			}
			if b[k] == a[i] {
				cb++
			}
		}
		ok = ok && ca == cb
	}
	return ok
}

// vfC10Column extracts column j of a snapshot.
func vfC10Column(rows [][]uint8, j int) []uint8 {
	col := make([]uint8, len(rows))
	for i := range rows {
		col[i] = rows[i][j]
	}
	return col
}

// vfC10SameRow: two rows are equal byte for byte.
func vfC10SameRow(a, b []uint8) bool {
	if len(a) != len(b) {
		return false
	}
	ok := true
	for j := range a {
		ok = ok && a[j] == b[j]
	}
	return ok
}

// vfC10NameIndex: index of name in vfNames[0:n], -1 if it is not one of them.
func vfC10NameIndex(name string, n int) int {
	for k := 0; k < n; k++ {
		if vfNames[k] == name {
			return k
		}
	}
	return -1
}

// vfC10Shape asserts that the operation kept the names, their order and the row lengths.
func vfC10Shape(al Alignment, n, L int) vfSnap {
	after := vfSnapshot(al)
	verifAssert(len(after.names) == n, "row count kept")
	verifAssert(after.length == L, "alignment length kept")
	for i := 0; i < n; i++ {
		verifAssert(after.names[i] == vfNames[i], "names and their order are fixed")
		verifAssert(len(after.seqs[i]) == L, "row length kept")
	}
	return after
}

// vfC10Observe hands the complete content to the engine/native comparison.
func vfC10Observe(s vfSnap) {
	for i := range s.names {
		verifObserve("row", s.names[i], s.seqs[i])
	}
}

// vfC10Concrete builds an n x L alignment with concrete, pairwise distinct residues per row:
// row 0 = "ABCD"[:L], row 1 = "abcd"[:L], row 2 = "0123"[:L], so that the origin (row and column) of
// every residue of a result can be read off the result.
func vfC10Concrete(n, L int) *align {
	al := NewAlign(AMINOACIDS)
	base := []uint8{'A', 'a', '0', 'k'}
	for i := 0; i < n; i++ {
		s := make([]uint8, L)
		for j := range s {
			s[j] = base[i] + uint8(j)
		}
		if err := al.AddSequenceChar(vfNames[i], s, ""); err != nil {
			panic("harness: cannot build alignment: " + err.Error())
		}
	}
	return al
}

// ------------------------------------------------------------------ ShuffleSequences

func vfC10ShuffleSeqs(n, L int) (moved bool, after vfSnap) {
	al, orig := vfSymAlign(AMINOACIDS, n, L, vfC10Res)
	al.ShuffleSequences()
	after = vfSnapshot(al)
	vfC10Observe(after)
	verifAssert(len(after.names) == n, "row count kept")
	verifAssert(al.Length() == L, "alignment length kept")
	seen := make([]bool, n)
	for i := 0; i < n; i++ {
		k := vfC10NameIndex(after.names[i], n)
		verifAssert(k >= 0, "every row carries an original name")
		verifAssert(!seen[k], "no original row appears twice")
		seen[k] = true
		verifAssert(vfC10SameRow(after.seqs[i], orig[k]), "the row keeps the sequence that belongs to its name")
		byname, found := al.GetSequenceChar(vfNames[i])
		verifAssert(found && vfC10SameRow(byname, orig[i]), "lookup by name still gives the original sequence")
		if k != i {
			moved = true
		}
	}
	return
}

// H_C10_shuffleseqs_invariant: ShuffleSequences is a row permutation (same multiset of (name, sequence) rows).
// bounds: rows n<=4, columns L<=2, residues any printable ASCII byte, names distinct; every outcome of the draws
// outside: n>4, L>2 (rows are moved as a whole), duplicate names (cannot be built through the API)
func H_C10_shuffleseqs_invariant() {
	n := nondetRange(1, 4)
	L := nondetRange(1, 2)
	moved, after := vfC10ShuffleSeqs(n, L)
	verifReach("shuffled")
	if moved {
		verifReach("order-changed")
	} else {
		verifReach("order-unchanged")
	}
	if n == 4 && after.names[0] == "s3" && after.names[3] == "s0" {
		verifReach("n=4 first and last exchanged")
	}
}

// H_C10_shuffleseqs_support: every one of the 3! row orders of a 3-row alignment can be produced.
// bounds: n=3, L=1, concrete residues; reachability of each order over all outcomes of the draws
// outside: n>3 (4! orders are covered by the invariant only)
func H_C10_shuffleseqs_support() {
	al := vfC10Concrete(3, 1)
	al.ShuffleSequences()
	a, _ := al.GetSequenceNameById(0)
	b, _ := al.GetSequenceNameById(1)
	c, _ := al.GetSequenceNameById(2)
	o := a + b + c
	if o == "s0s1s2" {
		verifSupport("order 0 1 2")
	}
	if o == "s0s2s1" {
		verifSupport("order 0 2 1")
	}
	if o == "s1s0s2" {
		verifSupport("order 1 0 2")
	}
	if o == "s1s2s0" {
		verifSupport("order 1 2 0")
	}
	if o == "s2s0s1" {
		verifSupport("order 2 0 1")
	}
	if o == "s2s1s0" {
		verifSupport("order 2 1 0")
	}
}

// ------------------------------------------------------------------ ShuffleSites

func vfC10ShuffleSites(n, L, maxrate8 int) {
	al, orig := vfSymAlign(AMINOACIDS, n, L, vfC10Res)
	rate := nondetDyadic(8, 0, maxrate8)
	roguerate := nondetDyadic(8, 0, 8)
	first := nondetBool()
	al.ShuffleSites(rate, roguerate, first)
	after := vfC10Shape(al, n, L)
	vfC10Observe(after)
	same := true
	for j := 0; j < L; j++ {
		verifAssert(vfC10SameMultiset(vfC10Column(orig, j), vfC10Column(after.seqs, j)), "every column keeps its multiset of characters")
		for i := 0; i < n; i++ {
			same = same && after.seqs[i][j] == orig[i][j]
		}
	}
	verifAssert(rate != 0 || same, "rate 0 shuffles nothing")
}

// H_C10_shufflesites_invariant: ShuffleSites permutes characters within columns only; names are fixed.
// bounds: shapes (n,L) with n<=3, L<=2 and (2,4) [the smallest L in which the extra shuffling of rogue rows happens: rate 1/2], residues any printable ASCII byte, rate and roguerate = k/8 for k in 0..8 (borders 0 and 1 included), both values of randroguefirst; every outcome of the draws
// outside: n>3, L=3, L>4, rates outside [0,1] (the documented reaction is a process exit), rates that are not multiples of 1/8
func H_C10_shufflesites_invariant() {
	n := nondetRange(1, 3)
	L := nondetRange(1, 2)
	if nondetRange(0, 1) == 1 {
		assume(n == 2 && L == 2)
		L = 4
		verifReach("n=2 L=4")
	}
	vfC10ShuffleSites(n, L, 8)
	verifReach("shuffled")
}

// H_C10_shufflesites_invariant_deep: as H_C10_shufflesites_invariant on the shapes with L in 3..4.
// bounds: rows n<=3, columns L in 3..4, residues any printable ASCII byte, rate = k/8 for k in 0..8 (k in 0..4 only on the 3x4 shape: at most 2 sites plus 1 rogue site), roguerate = k/8 for k in 0..8, both values of randroguefirst; every outcome of the draws
// outside: n>3, L>4, rate>1/2 on 3x4 (about 12000 paths), rates outside [0,1], rates that are not multiples of 1/8
//verif: tier=thorough
func H_C10_shufflesites_invariant_deep() {
	n := nondetRange(1, 3)
	L := nondetRange(3, 4)
	if n == 3 && L == 4 {
		vfC10ShuffleSites(n, L, 4)
	} else {
		vfC10ShuffleSites(n, L, 8)
	}
	verifReach("shuffled")
}

// H_C10_shufflesites_support: each site can be the shuffled one, each of the n! arrangements of a column can be produced, and the extra rogue shuffle can hit each remaining site.
// bounds: concrete residues; (a) n=2, L in {2,4}, rate 1/L (one site shuffled): each site; (b) n=3, L=1, rate 1: each of the 6 arrangements; (c) n=2, L=4, rate 1/2, roguerate 1: 3 columns exchanged
// outside: other shapes and rates (probabilities are not claimed, only that the outcome is possible)
func H_C10_shufflesites_support() {
	switch nondetRange(0, 3) {
	case 0:
		al := vfC10Concrete(2, 2)
		al.ShuffleSites(0.5, 0, false)
		r, _ := al.GetSequenceCharById(0)
		if r[0] == 'a' && r[1] == 'B' {
			verifSupport("L=2 site 0 shuffled")
		}
		if r[0] == 'A' && r[1] == 'b' {
			verifSupport("L=2 site 1 shuffled")
		}
		if r[0] == 'A' && r[1] == 'B' {
			verifSupport("L=2 identity arrangement")
		}
		verifAssert(!(r[0] == 'a' && r[1] == 'b'), "rate 1/2 of 2 sites shuffles one site only")
	case 1:
		al := vfC10Concrete(2, 4)
		al.ShuffleSites(0.25, 0, true)
		r, _ := al.GetSequenceCharById(0)
		if r[0] == 'a' {
			verifSupport("L=4 site 0 shuffled")
		}
		if r[1] == 'b' {
			verifSupport("L=4 site 1 shuffled")
		}
		if r[2] == 'c' {
			verifSupport("L=4 site 2 shuffled")
		}
		if r[3] == 'd' {
			verifSupport("L=4 site 3 shuffled")
		}
	case 2:
		al := vfC10Concrete(3, 1)
		al.ShuffleSites(1, 0, false)
		a, _ := al.GetSequenceCharById(0)
		b, _ := al.GetSequenceCharById(1)
		c, _ := al.GetSequenceCharById(2)
		o := string([]byte{a[0], b[0], c[0]})
		if o == "Aa0" {
			verifSupport("column A a 0")
		}
		if o == "A0a" {
			verifSupport("column A 0 a")
		}
		if o == "aA0" {
			verifSupport("column a A 0")
		}
		if o == "a0A" {
			verifSupport("column a 0 A")
		}
		if o == "0Aa" {
			verifSupport("column 0 A a")
		}
		if o == "0aA" {
			verifSupport("column 0 a A")
		}
	case 3:
		al := vfC10Concrete(2, 4)
		al.ShuffleSites(0.5, 1, false)
		r, _ := al.GetSequenceCharById(0)
		cnt := 0
		for j := 0; j < 4; j++ {
			if r[j] >= 'a' {
				cnt++
			}
		}
		verifAssert(cnt <= 3, "rate 1/2 of 4 sites: 2 sites plus 1 rogue site at most")
		if cnt == 3 {
			verifSupport("rogue shuffle changed a third site")
		}
		if cnt == 3 && r[3] == 'd' {
			verifSupport("last site among the three")
		}
	}
}

// ------------------------------------------------------------------ Swap

func vfC10Swap(n, L int) (swapped bool) {
	al, orig := vfSymAlign(AMINOACIDS, n, L, vfC10Res)
	rate := nondetDyadic(8, -1, 9)
	pos := nondetDyadic(8, -1, 9)
	err := al.Swap(rate, pos)
	after := vfC10Shape(al, n, L)
	vfC10Observe(after)
	same := true
	for j := 0; j < L; j++ {
		verifAssert(vfC10SameMultiset(vfC10Column(orig, j), vfC10Column(after.seqs, j)), "every column keeps its multiset of characters")
		for i := 0; i < n; i++ {
			same = same && after.seqs[i][j] == orig[i][j]
		}
	}
	bad := rate < 0 || rate > 1
	verifAssert(bad == (err != nil), "rate outside [0,1] is an error, rate inside is accepted")
	verifAssert(!bad || same, "nothing is swapped after an error")
	return !same
}

// H_C10_swap_invariant: Swap preserves every column's character multiset; names are fixed.
// bounds: rows n<=3 (one pair of rows), columns L<=3, residues any printable ASCII byte, rate and pos = k/8 for k in -1..9 (rate outside [0,1]: error; pos outside [0,1]: random position); every outcome of the draws
// outside: n>3 (two pairs need n=4: thorough twin), L>3, rate/pos that are not multiples of 1/8
func H_C10_swap_invariant() {
	n := nondetRange(1, 3)
	L := nondetRange(1, 3)
	changed := vfC10Swap(n, L)
	verifReach("called")
	if changed {
		verifReach("something swapped")
	}
}

// H_C10_swap_invariant_deep: as H_C10_swap_invariant with n=4 (two pairs of rows are swapped at rate 1).
// bounds: n=4, L<=2, otherwise as H_C10_swap_invariant
// outside: n>4, L>3
//verif: tier=thorough
func H_C10_swap_invariant_deep() {
	L := nondetRange(1, 2)
	vfC10Swap(4, L)
	verifReach("called")
}

// ------------------------------------------------------------------ SimulateRogue

func vfC10Rogue(n, L int, concrete bool) (nrogue int, changed bool) {
	var al *align
	var orig [][]uint8
	if concrete {
		al = vfC10Concrete(n, L)
		orig = vfSnapshot(al).seqs
	} else {
		al, orig = vfSymAlign(AMINOACIDS, n, L, vfC10Res)
	}
	prop := nondetDyadic(8, 0, 8)
	proplen := nondetDyadic(8, 0, 8)
	rogue, intact := al.SimulateRogue(prop, proplen)
	after := vfC10Shape(al, n, L)
	vfC10Observe(after)
	verifAssert(len(rogue)+len(intact) == n, "rogue and intact names together are as many as the rows")
	isRogue := make([]bool, n)
	seen := make([]bool, n)
	for _, name := range rogue {
		k := vfC10NameIndex(name, n)
		verifAssert(k >= 0, "a rogue name is a row name")
		verifAssert(!seen[k], "no name is reported twice")
		seen[k] = true
		isRogue[k] = true
	}
	for _, name := range intact {
		k := vfC10NameIndex(name, n)
		verifAssert(k >= 0, "an intact name is a row name")
		verifAssert(!seen[k], "no name is reported twice")
		seen[k] = true
	}
	same := true
	for i := 0; i < n; i++ {
		if isRogue[i] {
			verifAssert(vfC10SameMultiset(orig[i], after.seqs[i]), "a rogue row is a permutation of its own residues")
			same = same && vfC10SameRow(orig[i], after.seqs[i])
		} else {
			verifAssert(vfC10SameRow(orig[i], after.seqs[i]), "rows that are not chosen are untouched")
		}
	}
	return len(rogue), !same
}

// H_C10_rogue_invariant: SimulateRogue permutes residues within the chosen rows only; rogue and intact names partition the rows.
// bounds: rows n<=3, columns L<=3, residues any printable ASCII byte, prop and proplen = k/8 for k in 0..8 (borders included); every outcome of the draws
// outside: n>3, L>3, proportions outside [0,1] (nil,nil is returned), proportions that are not multiples of 1/8
func H_C10_rogue_invariant() {
	n := nondetRange(1, 3)
	L := nondetRange(1, 3)
	nr, changed := vfC10Rogue(n, L, false)
	verifReach("simulated")
	if nr == 0 {
		verifReach("no rogue")
	}
	if nr == n {
		verifReach("all rows rogue")
	}
	if nr > 0 && nr < n {
		verifReach("some rows rogue")
	}
	if changed {
		verifReach("a rogue row changed")
	}
}

// H_C10_rogue_invariant_deep: as H_C10_rogue_invariant with L=4, on an alignment of pairwise distinct concrete residues.
// bounds: rows n<=3, columns L=4, residues concrete and pairwise distinct (the origin of every residue of the result is visible), prop and proplen = k/8 for k in 0..8; every outcome of the draws
// outside: n>3, L>4; symbolic residues at L=4 (the solver times out on the multiset comparison of 4 symbolic bytes moved through symbolic positions)
// assumes: SimulateRogue does not look at residue values (true of the code: it only moves them), so distinct labels are representative
//verif: tier=thorough
func H_C10_rogue_invariant_deep() {
	n := nondetRange(1, 3)
	vfC10Rogue(n, 4, true)
	verifReach("simulated")
}

// ------------------------------------------------------------------ BuildBootstrap

// H_C10_bootstrap_invariant: every bootstrap column is an original column taken for all rows at once; the length is floor(frac*L).
// bounds: rows n<=3, columns L<=4, residues any printable ASCII byte, frac = k/8 for k in -1..9 (frac<=0 and frac>1 mean 1, as documented); every outcome of the draws
// outside: n>3, L>4, fractions that are not multiples of 1/8
func H_C10_bootstrap_invariant() {
	n := nondetRange(1, 3)
	L := nondetRange(1, 4)
	al, orig := vfSymAlign(AMINOACIDS, n, L, vfC10Res)
	frac := nondetDyadic(8, -1, 9)
	boot := al.BuildBootstrap(frac)
	verifReach("built")
	eff := frac
	if frac <= 0 || frac > 1 {
		eff = 1
		verifReach("fraction outside (0,1] means full length")
	}
	out := vfSnapshot(boot)
	vfC10Observe(out)
	m := len(out.seqs[0])
	verifAssert(len(out.names) == n, "one bootstrap row per original row")
	x := eff * float64(L)
	verifAssert(float64(m) <= x && x < float64(m+1), "bootstrap length is floor(frac*L)")
	verifAssert(m == 0 || boot.Length() == m, "Length() reports the bootstrap length")
	if m < L {
		verifReach("partial bootstrap")
	}
	for i := 0; i < n; i++ {
		verifAssert(out.names[i] == vfNames[i], "names and their order are fixed")
		verifAssert(len(out.seqs[i]) == m, "every row has the bootstrap length")
	}
	for j := 0; j < m; j++ {
		found := false
		for c := 0; c < L; c++ {
			match := true
			for i := 0; i < n; i++ {
				match = match && out.seqs[i][j] == orig[i][c]
			}
			found = found || match
		}
		verifAssert(found, "bootstrap column is one original column taken for all rows")
	}
}

// H_C10_bootstrap_support: every site (the last one included) can be drawn by the bootstrap, at the first and at the last position of the result.
// bounds: n=2, L<=4, concrete distinct columns, frac=1; reachability over all outcomes of the draws
// outside: L>4; probabilities other than non-zero
func H_C10_bootstrap_support() {
	L := nondetRange(1, 4)
	al := vfC10Concrete(2, L)
	boot := al.BuildBootstrap(1)
	r, _ := boot.GetSequenceCharById(0)
	verifAssert(len(r) == L, "full bootstrap has L columns")
	f, l := int(r[0]-'A'), int(r[L-1]-'A')
	switch L*10 + f {
	case 10:
		verifSupport("L=1 site 0 first")
	case 20:
		verifSupport("L=2 site 0 first")
	case 21:
		verifSupport("L=2 site 1 first")
	case 30:
		verifSupport("L=3 site 0 first")
	case 31:
		verifSupport("L=3 site 1 first")
	case 32:
		verifSupport("L=3 site 2 first")
	case 40:
		verifSupport("L=4 site 0 first")
	case 41:
		verifSupport("L=4 site 1 first")
	case 42:
		verifSupport("L=4 site 2 first")
	case 43:
		verifSupport("L=4 site 3 first")
	}
	switch L*10 + l {
	case 20:
		verifSupport("L=2 site 0 last")
	case 21:
		verifSupport("L=2 site 1 last")
	case 30:
		verifSupport("L=3 site 0 last")
	case 31:
		verifSupport("L=3 site 1 last")
	case 32:
		verifSupport("L=3 site 2 last")
	case 40:
		verifSupport("L=4 site 0 last")
	case 41:
		verifSupport("L=4 site 1 last")
	case 42:
		verifSupport("L=4 site 2 last")
	case 43:
		verifSupport("L=4 site 3 last")
	}
	if L == 4 && r[0] == 'D' && r[1] == 'D' && r[2] == 'D' && r[3] == 'D' {
		verifSupport("L=4 last site drawn four times (with replacement)")
	}
}

// ------------------------------------------------------------------ Sample

// H_C10_sample_invariant: Sample(nb) draws nb distinct original rows; nb<1 or nb>n is an error.
// bounds: rows n<=3, columns L<=2, residues any printable ASCII byte, nb any 64-bit integer; every outcome of the draws
// outside: n>3, L>2 (rows are taken as a whole)
func H_C10_sample_invariant() {
	n := nondetRange(1, 3)
	L := nondetRange(1, 2)
	al, orig := vfSymAlign(AMINOACIDS, n, L, vfC10Res)
	nb := nondetInt()
	sub, err := al.Sample(nb)
	verifReach("called")
	if nb < 1 || nb > n {
		verifReach("rejected")
		verifAssert(err != nil, "nb<1 or nb>n is an error")
		return
	}
	verifAssert(err == nil, "1<=nb<=n is accepted")
	out := vfSnapshot(sub)
	vfC10Observe(out)
	verifAssert(len(out.names) == nb, "nb rows are drawn")
	verifAssert(sub.Length() == L, "alignment length kept")
	seen := make([]bool, n)
	for i := 0; i < nb; i++ {
		k := vfC10NameIndex(out.names[i], n)
		verifAssert(k >= 0, "a sampled row carries an original name")
		verifAssert(!seen[k], "no row is drawn twice")
		seen[k] = true
		verifAssert(vfC10SameRow(out.seqs[i], orig[k]), "a sampled row is the original row of that name")
	}
	if nb == n {
		verifReach("all rows")
	}
	if nb < n {
		verifReach("proper subset")
	}
}

// H_C10_sample_support: every row (the last one included) can be the one drawn by Sample(1), and can be the one left out by Sample(n-1).
// bounds: n in 2..3, L=1, concrete residues; reachability over all outcomes of the draws
// outside: n>3
func H_C10_sample_support() {
	n := nondetRange(2, 3)
	al := vfC10Concrete(n, 1)
	if nondetRange(0, 1) == 0 {
		sub, err := al.Sample(1)
		verifAssert(err == nil && sub.NbSequences() == 1, "one row drawn")
		name, _ := sub.GetSequenceNameById(0)
		switch n*10 + vfC10NameIndex(name, n) {
		case 20:
			verifSupport("n=2 row 0 drawn")
		case 21:
			verifSupport("n=2 row 1 drawn")
		case 30:
			verifSupport("n=3 row 0 drawn")
		case 31:
			verifSupport("n=3 row 1 drawn")
		case 32:
			verifSupport("n=3 row 2 drawn")
		}
	} else {
		sub, err := al.Sample(n - 1)
		verifAssert(err == nil && sub.NbSequences() == n-1, "n-1 rows drawn")
		missing := -1
		for k := 0; k < n; k++ {
			if _, ok := sub.GetSequenceChar(vfNames[k]); !ok {
				missing = k
			}
		}
		switch n*10 + missing {
		case 20:
			verifSupport("n=2 row 0 left out")
		case 21:
			verifSupport("n=2 row 1 left out")
		case 30:
			verifSupport("n=3 row 0 left out")
		case 31:
			verifSupport("n=3 row 1 left out")
		case 32:
			verifSupport("n=3 row 2 left out")
		}
	}
}

// ------------------------------------------------------------------ RandSubAlign

// H_C10_randsubalign_invariant: RandSubAlign draws a contiguous window (consecutive) or distinct columns (otherwise), the same for all rows.
// bounds: rows n<=2, columns L<=4, residues any printable ASCII byte, length any 64-bit integer, both modes; every outcome of the draws
// outside: n>2, L>4
func H_C10_randsubalign_invariant() {
	n := nondetRange(1, 2)
	L := nondetRange(1, 4)
	consecutive := nondetRange(0, 1) == 1
	al, orig := vfSymAlign(AMINOACIDS, n, L, vfC10Res)
	length := nondetInt()
	sub, err := al.RandSubAlign(length, consecutive)
	verifReach("called")
	if length < 0 || length > L {
		verifReach("impossible length")
		verifAssert(err != nil, "a window longer than the alignment (or of negative length) cannot be drawn")
		return
	}
	if length == 0 {
		verifAssert(err != nil || sub.Length() <= 0, "length 0: an error or an empty result")
		return
	}
	verifAssert(err == nil, "1<=length<=L is accepted")
	out := vfSnapshot(sub)
	vfC10Observe(out)
	verifAssert(len(out.names) == n, "all rows are kept")
	verifAssert(sub.Length() == length, "result has the requested length")
	for i := 0; i < n; i++ {
		verifAssert(out.names[i] == vfNames[i], "names and their order are fixed")
		verifAssert(len(out.seqs[i]) == length, "row has the requested length")
	}
	if consecutive {
		verifReach("window")
		found := false
		for s := 0; s+length <= L; s++ {
			match := true
			for i := 0; i < n; i++ {
				for p := 0; p < length; p++ {
					match = match && out.seqs[i][p] == orig[i][s+p]
				}
			}
			found = found || match
		}
		verifAssert(found, "result is one contiguous window of the original, the same for all rows")
	} else {
		verifReach("columns")
		// distinct columns <=> the output columns are a sub-multiset of the original columns
		for p := 0; p < length; p++ {
			cout, corig := 0, 0
			for q := 0; q < length; q++ {
				eq := true
				for i := 0; i < n; i++ {
					eq = eq && out.seqs[i][q] == out.seqs[i][p]
				}
				if eq {
					cout++
				}
			}
			for c := 0; c < L; c++ {
				eq := true
				for i := 0; i < n; i++ {
					eq = eq && orig[i][c] == out.seqs[i][p]
				}
				if eq {
					corig++
				}
			}
			verifAssert(corig >= 1, "every result column is an original column taken for all rows")
			verifAssert(cout <= corig, "no original column is drawn more often than it occurs (columns are distinct)")
		}
	}
}

// H_C10_randsubalign_support: every window offset 0..L-len, THE LAST ONE INCLUDED, can be drawn; without 'consecutive' every column can be drawn.
// bounds: n=1, L<=4, every length 1..L, concrete distinct columns; reachability over all outcomes of the draws
// outside: L>4; probabilities other than non-zero
func H_C10_randsubalign_support() {
	L := nondetRange(1, 4)
	length := nondetRange(1, L)
	al := vfC10Concrete(1, L)
	if nondetRange(0, 1) == 1 {
		sub, err := al.RandSubAlign(length, true)
		verifAssert(err == nil, "valid length accepted")
		r, _ := sub.GetSequenceCharById(0)
		off := int(r[0] - 'A')
		verifAssert(off >= 0 && off+length <= L, "window inside the alignment")
		switch L*100 + length*10 + off {
		case 110:
			verifSupport("L=1 len=1 offset 0")
		case 210:
			verifSupport("L=2 len=1 offset 0")
		case 211:
			verifSupport("L=2 len=1 offset 1 (last)")
		case 220:
			verifSupport("L=2 len=2 offset 0")
		case 310:
			verifSupport("L=3 len=1 offset 0")
		case 311:
			verifSupport("L=3 len=1 offset 1")
		case 312:
			verifSupport("L=3 len=1 offset 2 (last)")
		case 320:
			verifSupport("L=3 len=2 offset 0")
		case 321:
			verifSupport("L=3 len=2 offset 1 (last)")
		case 330:
			verifSupport("L=3 len=3 offset 0")
		case 410:
			verifSupport("L=4 len=1 offset 0")
		case 411:
			verifSupport("L=4 len=1 offset 1")
		case 412:
			verifSupport("L=4 len=1 offset 2")
		case 413:
			verifSupport("L=4 len=1 offset 3 (last)")
		case 420:
			verifSupport("L=4 len=2 offset 0")
		case 421:
			verifSupport("L=4 len=2 offset 1")
		case 422:
			verifSupport("L=4 len=2 offset 2 (last)")
		case 430:
			verifSupport("L=4 len=3 offset 0")
		case 431:
			verifSupport("L=4 len=3 offset 1 (last)")
		case 440:
			verifSupport("L=4 len=4 offset 0")
		}
	} else {
		sub, err := al.RandSubAlign(length, false)
		verifAssert(err == nil, "valid length accepted")
		r, _ := sub.GetSequenceCharById(0)
		// the column found at the last position of the result
		c := int(r[length-1] - 'A')
		switch L*10 + c {
		case 10:
			verifSupport("L=1 column 0")
		case 20:
			verifSupport("L=2 column 0")
		case 21:
			verifSupport("L=2 column 1")
		case 30:
			verifSupport("L=3 column 0")
		case 31:
			verifSupport("L=3 column 1")
		case 32:
			verifSupport("L=3 column 2")
		case 40:
			verifSupport("L=4 column 0")
		case 41:
			verifSupport("L=4 column 1")
		case 42:
			verifSupport("L=4 column 2")
		case 43:
			verifSupport("L=4 column 3")
		}
		if L == 3 && length == 3 && r[0] == 'C' && r[1] == 'B' && r[2] == 'A' {
			verifSupport("L=3 columns in reverse order")
		}
	}
}

// ------------------------------------------------------------------ Mutate

// vfC10IsLetter: the letters of the alphabet: the 4 nucleotides, or the 20 standard amino acids.
func vfC10IsLetter(alphabet int, c uint8) bool {
	if alphabet == NUCLEOTIDS {
		return c == 'A' || c == 'C' || c == 'G' || c == 'T'
	}
	switch c {
	case 'A', 'R', 'N', 'D', 'C', 'Q', 'E', 'G', 'H', 'I', 'L', 'K', 'M', 'F', 'P', 'S', 'T', 'W', 'Y', 'V':
		return true
	}
	return false
}

func vfC10Mutate(n, L int) (changed bool) {
	alphabet := AMINOACIDS
	if nondetRange(0, 1) == 1 {
		alphabet = NUCLEOTIDS
	}
	al, orig := vfSymAlign(alphabet, n, L, vfC10Res)
	rate := nondetDyadic(8, -1, 9)
	al.Mutate(rate)
	after := vfC10Shape(al, n, L)
	vfC10Observe(after)
	same := true
	for i := 0; i < n; i++ {
		for j := 0; j < L; j++ {
			o, g := orig[i][j], after.seqs[i][j]
			verifAssert(o != '-' || g == '-', "a gap is never substituted")
			verifAssert((o != '.' && o != '*') || g == o, "the special characters . and * are never substituted")
			verifAssert(g == o || vfC10IsLetter(alphabet, g), "a substituted residue is a letter of the alphabet")
			same = same && g == o
		}
	}
	verifAssert(rate > 0 || same, "rate<=0 substitutes nothing")
	return !same
}

// H_C10_mutate_invariant: Mutate only replaces non-gap residues, and by letters of the alphabet.
// bounds: rows n<=2, columns L<=2, both alphabets, residues any printable ASCII byte (gaps, '.', '*' included), rate = k/8 for k in -1..9 (rate<=0: nothing, rate>1: 1); every outcome of the draws
// outside: n>2, L>2 (cells are treated independently), rates that are not multiples of 1/8
func H_C10_mutate_invariant() {
	n := nondetRange(1, 2)
	L := nondetRange(1, 2)
	changed := vfC10Mutate(n, L)
	verifReach("called")
	if n*L <= 2 && changed { // (the test forks the path: not repeated on the 2x2 shape)
		verifReach("a residue was substituted")
	}
}

// H_C10_mutate_support: every letter of the alphabet (the last one of the table included) can be the substitute, and a residue can survive rate<1.
// bounds: 1x1 alignment; nucleotide 'G' at rate 1, amino acid 'X' at rate 1/2; reachability over all outcomes of the draws
// outside: other shapes
func H_C10_mutate_support() {
	if nondetRange(0, 1) == 0 {
		al := NewAlign(NUCLEOTIDS)
		al.AddSequenceChar("s0", []uint8{'G'}, "")
		al.Mutate(1)
		r, _ := al.GetSequenceCharById(0)
		if r[0] == 'A' {
			verifSupport("nt A")
		}
		if r[0] == 'C' {
			verifSupport("nt C")
		}
		if r[0] == 'G' {
			verifSupport("nt G")
		}
		if r[0] == 'T' {
			verifSupport("nt T (last)")
		}
	} else {
		al := NewAlign(AMINOACIDS)
		al.AddSequenceChar("s0", []uint8{'X'}, "")
		al.Mutate(0.5)
		r, _ := al.GetSequenceCharById(0)
		if r[0] == 'A' {
			verifSupport("aa A (first)")
		}
		if r[0] == 'V' {
			verifSupport("aa V (last)")
		}
		if r[0] == 'W' {
			verifSupport("aa W")
		}
		if r[0] == 'X' {
			verifSupport("aa kept at rate 1/2")
		}
	}
}

// ------------------------------------------------------------------ AddGaps

func vfC10AddGaps(n, L int) (added bool) {
	al, orig := vfSymAlign(AMINOACIDS, n, L, vfC10Res)
	lenprop := nondetDyadic(8, -1, 9)
	prop := nondetDyadic(8, -1, 9)
	al.AddGaps(lenprop, prop)
	after := vfC10Shape(al, n, L)
	vfC10Observe(after)
	same := true
	for i := 0; i < n; i++ {
		for j := 0; j < L; j++ {
			o, g := orig[i][j], after.seqs[i][j]
			verifAssert(g == o || g == '-', "a cell is unchanged or has become a gap")
			same = same && g == o
		}
	}
	bad := prop < 0 || prop > 1 || lenprop < 0 || lenprop > 1
	verifAssert(!bad || same, "proportions outside [0,1]: nothing is done")
	return !same
}

// H_C10_addgaps_invariant: AddGaps only turns residues into gaps.
// bounds: rows n<=3, columns L<=3, residues any printable ASCII byte, lenprop and prop = k/8 for k in -1..9 (outside [0,1]: nothing is done); every outcome of the draws
// outside: n>3, L>3, proportions that are not multiples of 1/8
func H_C10_addgaps_invariant() {
	n := nondetRange(1, 3)
	L := nondetRange(1, 3)
	changed := vfC10AddGaps(n, L)
	verifReach("called")
	if changed {
		verifReach("a gap was added")
	}
}

// ------------------------------------------------------------------ Recombine

func vfC10Recombine(n, L int) (changed bool) {
	al, orig := vfSymAlign(AMINOACIDS, n, L, vfC10Res)
	prop := nondetDyadic(8, -1, 5)
	lenprop := nondetDyadic(8, -1, 9)
	swap := nondetBool()
	err := al.Recombine(prop, lenprop, swap)
	after := vfC10Shape(al, n, L)
	vfC10Observe(after)
	same := true
	for j := 0; j < L; j++ {
		for i := 0; i < n; i++ {
			g := after.seqs[i][j]
			from := false
			for k := 0; k < n; k++ {
				from = from || g == orig[k][j]
			}
			verifAssert(from, "every residue comes from some row at the same column")
			same = same && g == orig[i][j]
		}
		verifAssert(!swap || vfC10SameMultiset(vfC10Column(orig, j), vfC10Column(after.seqs, j)), "with swap the two portions are exchanged: column multisets are kept")
	}
	bad := prop < 0 || prop > 0.5 || lenprop < 0 || lenprop > 1
	verifAssert(bad == (err != nil), "a proportion outside its range is an error, inside it is accepted")
	verifAssert(!bad || same, "nothing is recombined after an error")
	return !same
}

// H_C10_recombine_invariant: Recombine only copies residues between rows at the same column (and exchanges them with swap=true).
// bounds: rows n<=3 (one donor/acceptor pair), columns L<=3, residues any printable ASCII byte, prop = k/8 for k in -1..5 (domain [0,1/2]), lenprop = k/8 for k in -1..9, both values of swap; every outcome of the draws
// outside: n>3 (two pairs need n=4: thorough twin), L>3
func H_C10_recombine_invariant() {
	n := nondetRange(1, 3)
	L := nondetRange(1, 3)
	changed := vfC10Recombine(n, L)
	verifReach("called")
	if changed {
		verifReach("a portion was copied")
	}
}

// H_C10_recombine_invariant_deep: as H_C10_recombine_invariant with n=4 (two donor/acceptor pairs) and L=4.
// bounds: (n,L) in {(4,2),(3,4)}, otherwise as H_C10_recombine_invariant
// outside: n>4, L>4
//verif: tier=thorough
func H_C10_recombine_invariant_deep() {
	if nondetRange(0, 1) == 0 {
		vfC10Recombine(4, 2)
	} else {
		vfC10Recombine(3, 4)
	}
	verifReach("recombined")
}

// ------------------------------------------------------------------ Rarefy

func vfC10Rarefy(n, L, maxcount, maxlast int) (rows int) {
	al, orig := vfSymAlign(AMINOACIDS, n, L, vfC10Res)
	counts := make(map[string]int)
	cnt := make([]int, n)
	total := 0
	for i := 0; i < n; i++ {
		if i == 2 {
			cnt[i] = nondetRange(0, maxlast)
		} else {
			cnt[i] = nondetRange(0, maxcount)
		}
		if cnt[i] > 0 {
			counts[vfNames[i]] = cnt[i]
		}
		total += cnt[i]
	}
	assume(total >= 1)
	nb := nondetRange(1, total)
	sub, err := al.Rarefy(nb, counts)
	if nb >= total {
		verifAssert(err != nil, "nb must be smaller than the sum of the counts")
		return -1
	}
	verifAssert(err == nil, "nb below the sum of the counts is accepted")
	out := vfSnapshot(sub)
	vfC10Observe(out)
	verifAssert(sub.Length() == L, "alignment length kept")
	seen := make([]bool, n)
	sum := 0
	for i := range out.names {
		k := vfC10NameIndex(out.names[i], n)
		verifAssert(k >= 0, "a kept row carries an original name")
		verifAssert(!seen[k], "no row is kept twice")
		seen[k] = true
		verifAssert(vfC10SameRow(out.seqs[i], orig[k]), "a kept row is the original row of that name")
		verifAssert(cnt[k] > 0, "a row without count (count 0) is never kept")
		sum += cnt[k]
	}
	verifAssert(len(out.names) >= 1 && len(out.names) <= nb, "between 1 and nb distinct rows are kept")
	verifAssert(sum >= nb, "nb draws without replacement need counts summing to nb at least")
	return len(out.names)
}

// H_C10_rarefy_invariant: Rarefy keeps rows of the original (distinct rows with a positive count, enough of them for nb draws without replacement); the result does not depend on the iteration order of the counts map.
// bounds: rows n<=3, columns L=1, residues any printable ASCII byte, counts 0..2 for rows 0 and 1, 0..1 for row 2 (0 = no entry in the map), nb in 1..sum (nb=sum must be an error); every outcome of the draws; every iteration order of the counts map
// outside: n>3, larger counts, nb<=0, counts<=0 present in the map, unknown names in the map
//verif: maporder=1
func H_C10_rarefy_invariant() {
	n := nondetRange(1, 3)
	rows := vfC10Rarefy(n, 1, 2, 1)
	verifReach("called")
	if rows < 0 {
		verifReach("nb = sum of counts rejected")
	}
	if rows == 1 {
		verifReach("one row kept")
	}
	if rows == 2 {
		verifReach("two rows kept")
	}
}

// H_C10_rarefy_invariant_deep: as H_C10_rarefy_invariant with counts 0..3 for rows 0 and 1, 0..2 for row 2, and L=2.
// bounds: n=3, L=2, counts 0..3 / 0..3 / 0..2, nb in 1..sum; every outcome of the draws; every iteration order of the counts map
// outside: n>3, larger counts, nb<=0, counts<=0 present in the map, unknown names in the map
//verif: maporder=1 tier=thorough
func H_C10_rarefy_invariant_deep() {
	vfC10Rarefy(3, 2, 3, 2)
	verifReach("called")
}

// H_C10_rarefy_support: every row with a positive count (the last one included) can be the one kept by Rarefy(1).
// bounds: n=3, L=1, counts 1,2,1, nb=1; reachability over all outcomes of the draw
// outside: other counts
//verif: maporder=1
func H_C10_rarefy_support() {
	al := vfC10Concrete(3, 1)
	sub, err := al.Rarefy(1, map[string]int{"s0": 1, "s1": 2, "s2": 1})
	verifAssert(err == nil && sub.NbSequences() == 1, "one row kept")
	name, _ := sub.GetSequenceNameById(0)
	if name == "s0" {
		verifSupport("row 0 kept")
	}
	if name == "s1" {
		verifSupport("row 1 kept")
	}
	if name == "s2" {
		verifSupport("row 2 kept (last)")
	}
}
