//go:build verif

package align

// C10 — randomised operations keep their invariants, reach all outcomes, and are deterministic
// given the generator.
//
// verif-uses-rand: the replay build overlays math/rand so that the recorded draws are replayed.
//
// Every call of a randomised operation below is executed for EVERY outcome of math/rand that
// the documented contract of the generator allows (Intn(n): any value in [0,n); Float64: any real
// in [0,1); Perm(n): any n pairwise distinct values in [0,n)), so an assertion after the call is
// an assertion over all seeds. "Same seed reproduces the result" is checked as determinism given
// the draws: the complete result is handed to verifObserve, the engine predicts it from the rand
// tape and the native replay of the same tape must produce the same bytes.

// vfC10Res: residues used in the invariant harnesses: any printable ASCII byte (this includes
// the gap '-', the special characters '.' and '*', and letters outside the alphabet).
func vfC10Res(c uint8) bool { return c >= 0x21 && c <= 0x7e }

// vfC10SameMultiset: a and b hold the same bytes with the same multiplicities.
func vfC10SameMultiset(a, b []uint8) bool {
	if len(a) != len(b) {
		return false
	}
	ok := true
	for i := range a {
		ca, cb := 0, 0
		for k := range a {
			if a[k] == a[i] {
				ca++
			}
			if b[k] == a[i] {
				cb++
			}
		}
		ok = ok && ca == cb
	}
	return ok
}

// vfC10Column extracts column j of a snapshot.
func vfC10Column(rows [][]uint8, j int) []uint8 {
	col := make([]uint8, len(rows))
	for i := range rows {
		col[i] = rows[i][j]
	}
	return col
}

// vfC10SameRow: two rows are equal byte for byte.
func vfC10SameRow(a, b []uint8) bool {
	if len(a) != len(b) {
		return false
	}
	ok := true
	for j := range a {
		ok = ok && a[j] == b[j]
	}
	return ok
}

// vfC10NameIndex: index of name in vfNames[0:n], -1 if it is not one of them.
func vfC10NameIndex(name string, n int) int {
	for k := 0; k < n; k++ {
		if vfNames[k] == name {
			return k
		}
	}
	return -1
}

// vfC10Shape asserts that the operation kept the names, their order and the row lengths.
func vfC10Shape(al Alignment, n, L int) vfSnap {
	after := vfSnapshot(al)
	verifAssert(len(after.names) == n, "row count kept")
	verifAssert(after.length == L, "alignment length kept")
	for i := 0; i < n; i++ {
		verifAssert(after.names[i] == vfNames[i], "names and their order are fixed")
		verifAssert(len(after.seqs[i]) == L, "row length kept")
	}
	return after
}

// vfC10Observe hands the complete content to the engine/native comparison.
func vfC10Observe(s vfSnap) {
	for i := range s.names {
		verifObserve("row", s.names[i], s.seqs[i])
	}
}

// H_C10_shuffleseqs_invariant: ShuffleSequences is a row permutation.
// bounds: rows n<=4, columns L<=2, residues any printable ASCII byte, names distinct; every outcome of the draws
// outside: n>4, L>2 (rows are moved as a whole, so L is irrelevant to the code), duplicate names (cannot be built through the API)
func H_C10_shuffleseqs_invariant() {
	n := nondetRange(1, 4)
	L := nondetRange(1, 2)
	al, orig := vfSymAlign(AMINOACIDS, n, L, vfC10Res)
	al.ShuffleSequences()
	verifReach("shuffled")
	after := vfSnapshot(al)
	vfC10Observe(after)
	verifAssert(len(after.names) == n, "row count kept")
	verifAssert(al.Length() == L, "alignment length kept")
	seen := make([]bool, n)
	moved := false
	for i := 0; i < n; i++ {
		k := vfC10NameIndex(after.names[i], n)
		verifAssert(k >= 0, "every row carries an original name")
		verifAssert(!seen[k], "no original row appears twice")
		seen[k] = true
		verifAssert(vfC10SameRow(after.seqs[i], orig[k]), "the row keeps the sequence that belongs to its name")
		byname, found := al.GetSequenceChar(vfNames[i])
		verifAssert(found && vfC10SameRow(byname, orig[i]), "lookup by name still gives the original sequence")
		if k != i {
			moved = true
		}
	}
	if moved {
		verifReach("order-changed")
	} else {
		verifReach("order-unchanged")
	}
	if n == 4 && after.names[0] == "s3" && after.names[3] == "s0" {
		verifReach("n=4 first and last exchanged")
	}
}

// H_C10_shufflesites_invariant: ShuffleSites permutes characters within columns only; names are fixed.
// bounds: rows n<=3, columns L<=3, residues any printable ASCII byte, rate and roguerate = k/8 for k in 0..8 (borders 0 and 1 included), both values of randroguefirst; every outcome of the draws
// outside: n>3, L>3, rates outside [0,1] (the documented reaction is a process exit), rates that are not multiples of 1/8
//verif: merge=0
func H_C10_shufflesites_invariant() {
	n := nondetRange(1, 3)
	L := nondetRange(1, 3)
	al, orig := vfSymAlign(AMINOACIDS, n, L, vfC10Res)
	rate := nondetDyadic(8, 0, 8)
	roguerate := nondetDyadic(8, 0, 8)
	first := nondetBool()
	al.ShuffleSites(rate, roguerate, first)
	verifReach("shuffled")
	after := vfC10Shape(al, n, L)
	vfC10Observe(after)
	changed := false
	for j := 0; j < L; j++ {
		verifAssert(vfC10SameMultiset(vfC10Column(orig, j), vfC10Column(after.seqs, j)), "every column keeps its multiset of characters")
		for i := 0; i < n; i++ {
			if after.seqs[i][j] != orig[i][j] {
				changed = true
			}
		}
	}
	if rate == 0 {
		verifReach("rate=0")
		verifAssert(!changed, "rate 0 shuffles nothing")
	}
	if rate == 1 {
		verifReach("rate=1")
	}
	if changed {
		verifReach("some column permuted")
	}
}

// H_C10_bootstrap_invariant: every bootstrap column is an original column taken for all rows at once; the length is floor(frac*L).
// bounds: rows n<=3, columns L<=4, residues any printable ASCII byte, frac = k/8 for k in -1..9 (frac<=0 and frac>1 mean 1, as documented); every outcome of the draws
// outside: n>3, L>4, fractions that are not multiples of 1/8
func H_C10_bootstrap_invariant() {
	n := nondetRange(1, 3)
	L := nondetRange(1, 4)
	al, orig := vfSymAlign(AMINOACIDS, n, L, vfC10Res)
	frac := nondetDyadic(8, -1, 9)
	boot := al.BuildBootstrap(frac)
	verifReach("built")
	eff := frac
	if frac <= 0 || frac > 1 {
		eff = 1
		verifReach("fraction outside (0,1] means full length")
	}
	out := vfSnapshot(boot)
	vfC10Observe(out)
	m := boot.Length()
	verifAssert(len(out.names) == n, "one bootstrap row per original row")
	x := eff * float64(L)
	verifAssert(float64(m) <= x && x < float64(m+1), "bootstrap length is floor(frac*L)")
	if m < L {
		verifReach("partial bootstrap")
	}
	for i := 0; i < n; i++ {
		verifAssert(out.names[i] == vfNames[i], "names and their order are fixed")
		verifAssert(len(out.seqs[i]) == m, "every row has the bootstrap length")
	}
	for j := 0; j < m; j++ {
		found := false
		for c := 0; c < L; c++ {
			match := true
			for i := 0; i < n; i++ {
				match = match && out.seqs[i][j] == orig[i][c]
			}
			found = found || match
		}
		verifAssert(found, "bootstrap column is one original column taken for all rows")
	}
	after := vfSnapshot(al)
	for i := 0; i < n; i++ {
		verifAssert(vfC10SameRow(after.seqs[i], orig[i]), "the input alignment is not modified")
	}
}
