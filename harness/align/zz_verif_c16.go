//go:build verif

package align

// C16 — phasing gives one correctly framed result per sequence for any thread count.

func vfIsACGT(c uint8) bool { return c == 'A' || c == 'C' || c == 'G' || c == 'T' }

func vfBag(alphabet int, seqs ...string) *seqbag {
	sb := NewSeqBag(alphabet)
	for i, s := range seqs {
		if err := sb.AddSequence(vfNames[i], s, ""); err != nil {
			panic("harness: " + err.Error())
		}
	}
	return sb
}

type vfPhaseRes struct {
	name, nt, codon, aa string
	pos                  int
	removed              bool
}

func vfCollect(ch chan PhasedSequence) (out []vfPhaseRes, nerr int) {
	for ph := range ch {
		if ph.Err != nil {
			nerr++
			continue
		}
		r := vfPhaseRes{pos: ph.Position, removed: ph.Removed}
		r.name = ph.NtSeq.Name()
		r.nt = string(ph.NtSeq.SequenceChar())
		r.codon = string(ph.CodonSeq.SequenceChar())
		if ph.AaSeq != nil {
			r.aa = string(ph.AaSeq.SequenceChar())
		}
		out = append(out, r)
	}
	return
}

func vfFindRes(rs []vfPhaseRes, name string) int {
	k := -1
	for i, r := range rs {
		if r.name == name {
			if k >= 0 {
				return -2 // duplicate
			}
			k = i
		}
	}
	return k
}

// vfSchedPhase: Phase under every explored interleaving against the one-thread run.
func vfSchedPhase(translate bool, cpus int) {
	in := []string{"CATGGAAG", "ATGGAGT"}
	seqs := vfBag(NUCLEOTIDS, in...)
	orfs := vfBag(NUCLEOTIDS, "ATGGAA")
	ph := NewPhaser()
	ph.SetCpus(cpus)
	ph.SetTranslate(translate, GENETIC_CODE_STANDARD)
	ch, err := ph.Phase(orfs, seqs)
	verifAssert(err == nil, "no error starting the phasing")
	res, nerr := vfCollect(ch) // terminates only if the stream is closed
	verifReach("closed")
	verifAssert(nerr == 0, "no alignment error on these inputs")
	verifAssert(len(res) == 2, "exactly one result per input sequence")
	// reference: the per-sequence computation done sequentially in this thread (what a single worker
	// does, without goroutines, so that the reference itself adds no interleavings)
	var ref []vfPhaseRes
	for _, sq := range seqs.Sequences() {
		var r PhasedSequence
		var e error
		if translate {
			orfsaa, _ := orfs.CloneSeqBag()
			orfsaa.Translate(0, GENETIC_CODE_STANDARD)
			r, e = ph.(*phaser).alignAgainstRefsAA(sq, orfsaa.Sequences())
		} else {
			r, e = ph.(*phaser).alignAgainstRefsNT(sq, orfs.Sequences())
		}
		verifAssert(e == nil && r.Err == nil, "sequential reference computes")
		x := vfPhaseRes{pos: r.Position, removed: r.Removed, name: r.NtSeq.Name(), nt: string(r.NtSeq.SequenceChar()), codon: string(r.CodonSeq.SequenceChar())}
		if r.AaSeq != nil {
			x.aa = string(r.AaSeq.SequenceChar())
		}
		ref = append(ref, x)
	}
	verifAssert(len(ref) == 2, "sequential reference gives one result per input")
	for i := 0; i < 2; i++ {
		k, k1 := vfFindRes(res, vfNames[i]), vfFindRes(ref, vfNames[i])
		verifAssert(k >= 0 && k1 >= 0, "each input has exactly one result")
		verifAssert(res[k] == ref[k1], "result independent of the number of threads and of the schedule")
		s, _ := seqs.GetSequenceById(i)
		verifAssert(s == in[i], "inputs are not modified")
	}
}

// H_C16_sched_phase: for every interleaving (bounded preemption) of producer, workers and the closing goroutine, the result
// stream is closed, holds exactly one result per input, equal to the 1-thread results; inputs unmodified; no data race.
// bounds: 2 concrete input sequences (8 and 7 nt) embedding copies of the ORF ATGGAA, explicit reference ORF, nucleotide mode, 2 workers, delay bound 2 (at most 2 deviations from the default scheduler: keep the running thread, else lowest-numbered runnable), context switches at synchronisation operations (the reference run with 1 worker is itself explored)
// outside: translated mode and 1 worker (thorough twin), more sequences/workers, symbolic sequence contents (see H_C16_frame_*), preemption between non-synchronising instructions (race check instead)
//verif: sched=1 race=1 preempt=2
func H_C16_sched_phase() { vfSchedPhase(false, 2) }

// H_C16_sched_phase_deep: as H_C16_sched_phase, both modes, 1 or 2 workers.
// bounds: translate on/off, cpus in {1,2}, delay bound 2 (at most 2 deviations from the default scheduler: keep the running thread, else lowest-numbered runnable)
//verif: sched=1 race=1 preempt=3 tier=thorough
func H_C16_sched_phase_deep() { vfSchedPhase(nondetRange(0, 1) == 1, nondetRange(1, 2)) }

// vfFrameCheck asserts the framing relations of one phased sequence against its input.
func vfFrameCheck(ph PhasedSequence, input []uint8, reverse bool, translate bool) {
	vfFrameCheckCode(ph, input, reverse, translate, GENETIC_CODE_STANDARD)
}

// vfFrameCheckCode: as vfFrameCheck; the amino-acid sequence, when one is reported (always in
// translated mode), is the translation of the codon sequence under the configured genetic code.
func vfFrameCheckCode(ph PhasedSequence, input []uint8, reverse bool, translate bool, code int) {
	nt := ph.NtSeq.SequenceChar()
	pos := ph.Position
	verifAssert(pos >= 0 && pos <= len(input), "position inside the input")
	// the trimmed nucleotides are the substring of the input (or its reverse complement) starting at pos
	fw := len(nt) <= len(input)-pos
	for k := 0; fw && k < len(nt); k++ {
		if nt[k] != input[pos+k] {
			fw = false
		}
	}
	rc := false
	if reverse {
		rc = len(nt) <= len(input)-pos
		for k := 0; rc && k < len(nt); k++ {
			if nt[k] != vfRefComplement(input[len(input)-1-(pos+k)]) {
				rc = false
			}
		}
	}
	verifAssert(fw || rc, "trimmed nucleotides are the substring of the input (or of its reverse complement) starting at the reported position")
	codon := ph.CodonSeq.SequenceChar()
	// the codon sequence is in frame with the trimmed nucleotides: a suffix of them, at most 2 bases shorter
	d := len(nt) - len(codon)
	verifAssert(d >= 0 && d <= 2, "codon sequence starts at most two bases after the trimmed nucleotides")
	for k := 0; k < len(codon); k++ {
		verifAssert(codon[k] == nt[k+d], "codon sequence is a suffix of the trimmed nucleotides")
	}
	verifAssert(!translate || ph.AaSeq != nil, "translated mode reports an amino-acid sequence")
	if ph.AaSeq != nil && len(codon) >= 3 {
		aa := ph.AaSeq.SequenceChar()
		tr, err := NewSequence("x", codon, "").Translate(0, code)
		verifAssert(err == nil, "codon sequence translates")
		trc := tr.SequenceChar()
		verifAssert(len(aa) == len(trc), "amino-acid sequence has the length of the translated codon sequence")
		for k := 0; k < len(aa) && k < len(trc); k++ {
			verifAssert(aa[k] == trc[k], "amino-acid sequence is the translation of the codon sequence")
		}
	}
}

// vfMutatedORF embeds a copy of the ORF ATGGAA (its translation ME contains a protein-only letter, so the aligner picks the protein matrix) with one symbolic substitution between 0..1 symbolic flank bases.
func vfMutatedORF() []uint8 {
	lf := nondetRange(0, 1)
	rf := nondetRange(0, 1-lf) // at most one flank base in total (quick tier)
	k := nondetRange(0, 5)
	var in []uint8
	base := func() uint8 {
		c := nondetByte()
		assume(vfIsACGT(c))
		return c
	}
	for j := 0; j < lf; j++ {
		in = append(in, base())
	}
	orf := []uint8("ATGGAA")
	orf[k] = base()
	in = append(in, orf...)
	for j := 0; j < rf; j++ {
		in = append(in, base())
	}
	return in
}

// H_C16_frame_nt: nucleotide mode, mutated copy of the ORF ATGGAA (its translation ME contains a protein-only letter, so the aligner picks the protein matrix) in symbolic flanks.
// bounds: reference ORF ATGGAA (its translation ME contains a protein-only letter, so the aligner picks the protein matrix) (6 nt); input = 0..1 symbolic flank base + the ORF with one symbolic substitution at any position + 0..1 symbolic flank base, bases over {A,C,G,T}; reverse on/off, cut-end on/off, 1 worker
// outside: longer inputs, IUPAC codes, other scoring schemes
func H_C16_frame_nt() {
	reverse := nondetRange(0, 1) == 1
	cutend := nondetRange(0, 1) == 1
	in := vfMutatedORF()
	L := len(in)
	seqs := NewSeqBag(NUCLEOTIDS)
	cp := make([]uint8, L)
	copy(cp, in)
	seqs.AddSequenceChar("s0", cp, "")
	orfs := vfBag(NUCLEOTIDS, "ATGGAA")
	ph := NewPhaser()
	ph.SetCpus(1)
	ph.SetReverse(reverse)
	ph.SetCutEnd(cutend)
	ph.SetTranslate(false, GENETIC_CODE_STANDARD)
	ch, err := ph.Phase(orfs, seqs)
	verifAssert(err == nil, "no error")
	n := 0
	for r := range ch {
		n++
		if r.Err == nil {
			verifReach("framed")
			vfFrameCheck(r, in, reverse, false)
		}
	}
	verifAssert(n == 1, "exactly one result")
	after, _ := seqs.GetSequenceCharById(0)
	for k := range in {
		verifAssert(after[k] == in[k], "input not modified")
	}
}

// H_C16_frame_aa: translated mode, mutated copy of the ORF ATGGAA (its translation ME contains a protein-only letter, so the aligner picks the protein matrix) in symbolic flanks.
// bounds: reference ORF ATGGAA (its translation ME contains a protein-only letter, so the aligner picks the protein matrix); input as in H_C16_frame_nt; reverse off, cut-end on/off, 1 worker
// outside: reverse strand in translated mode (thorough twin), longer inputs
func H_C16_frame_aa() {
	cutend := nondetRange(0, 1) == 1
	in := vfMutatedORF()
	L := len(in)
	seqs := NewSeqBag(NUCLEOTIDS)
	cp := make([]uint8, L)
	copy(cp, in)
	seqs.AddSequenceChar("s0", cp, "")
	orfs := vfBag(NUCLEOTIDS, "ATGGAA")
	ph := NewPhaser()
	ph.SetCpus(1)
	ph.SetCutEnd(cutend)
	ph.SetTranslate(true, GENETIC_CODE_STANDARD)
	ch, err := ph.Phase(orfs, seqs)
	verifAssert(err == nil, "no error")
	n := 0
	for r := range ch {
		n++
		if r.Err == nil {
			verifReach("framed")
			vfFrameCheck(r, in, false, true)
		}
	}
	verifAssert(n == 1, "exactly one result")
}

// H_C16_orf_verbatim: a sequence that contains the reference ORF verbatim once is trimmed exactly at the ORF's start.
// bounds: ORF ATGGAATAA, 0..2 symbolic flank bases over {C,G} on each side (so that the ORF occurs once), both modes, 1 worker
// outside: longer flanks
func H_C16_orf_verbatim() {
	lf := nondetRange(0, 2)
	rf := nondetRange(0, 2)
	translate := nondetRange(0, 1) == 1
	orf := "ATGGAATAA"
	var in []uint8
	for k := 0; k < lf; k++ {
		c := nondetByte()
		assume(c == 'C' || c == 'G')
		in = append(in, c)
	}
	in = append(in, []uint8(orf)...)
	for k := 0; k < rf; k++ {
		c := nondetByte()
		assume(c == 'C' || c == 'G')
		in = append(in, c)
	}
	seqs := NewSeqBag(NUCLEOTIDS)
	seqs.AddSequenceChar("s0", in, "")
	ph := NewPhaser()
	ph.SetTranslate(translate, GENETIC_CODE_STANDARD)
	ch, err := ph.Phase(vfBag(NUCLEOTIDS, orf), seqs)
	verifAssert(err == nil, "no error")
	n := 0
	for r := range ch {
		n++
		verifAssert(r.Err == nil, "no alignment error")
		verifReach("result")
		verifAssert(r.Position == lf, "trimmed exactly at the start of the ORF")
		verifAssert(!r.Removed, "a sequence containing the ORF is kept")
	}
	verifAssert(n == 1, "exactly one result")
}

// vfHasLongerORF reports whether s contains an ATG...stop frame (ATG, then whole codons, the first in-frame stop ends it) longer than n.
func vfLongestFrame(s []uint8) int {
	best := 0
	for i := 0; i+3 <= len(s); i++ {
		if s[i] == 'A' && s[i+1] == 'T' && s[i+2] == 'G' {
			for j := i + 3; j+3 <= len(s); j += 3 {
				if s[j] == 'T' && ((s[j+1] == 'A' && (s[j+2] == 'A' || s[j+2] == 'G')) || (s[j+1] == 'G' && s[j+2] == 'A')) {
					if j+3-i > best {
						best = j + 3 - i
					}
					break
				}
			}
		}
	}
	return best
}

// H_C16_longest_orf: Sequence.LongestORF returns a longest ATG-to-first-in-frame-stop frame of the sequence.
// bounds: one sequence of 6..7 symbolic bases over {A,T,G}, forward strand (the regular-expression engine is interpreted from the Go sources: costly)
// outside: longer sequences (8..9 in the thorough twin), both strands
func H_C16_longest_orf() { vfLongestORF(nondetRange(6, 7)) }

// H_C16_longest_orf_deep: 8..9 symbolic bases.
// bounds: one sequence of 8..9 symbolic bases over {A,T,G}
//verif: tier=thorough
func H_C16_longest_orf_deep() { vfLongestORF(nondetRange(8, 9)) }

func vfLongestORF(L int) {
	in := make([]uint8, L)
	for k := range in {
		in[k] = nondetByte()
		assume(in[k] == 'A' || in[k] == 'T' || in[k] == 'G')
	}
	s := NewSequence("s", in, "")
	start, end := s.LongestORF()
	verifReach("searched")
	want := vfLongestFrame(in)
	if want == 0 {
		verifAssert(start == -1, "no ORF reported when there is none")
		return
	}
	verifReach("has-orf")
	verifAssert(start >= 0 && end <= L && end-start == want, "the reported ORF is as long as the longest ATG...stop frame of the sequence")
}

// H_C16_noref_inputs_kept: without reference ORF (the longest ORF of the input is used), on one or both strands, the result stream is closed, there is one result per input and the input sequences are not modified, whatever nucleotide codes they hold.
// bounds: the two 11-nt sequences of vfOrfBag (one residue at any position replaced by any IUPAC nucleotide code in either case, U/u included), reverse on/off, nucleotide mode, 1 worker, default schedule
// outside: longer inputs, translated mode, more workers (see H_C16_sched_phase)
func H_C16_noref_inputs_kept() {
	sb, saved := vfOrfBag()
	ph := NewPhaser()
	ph.SetReverse(nondetBool())
	ch, err := ph.Phase(nil, sb)
	if err != nil {
		verifReach("no ORF in the input: error")
		verifAssert(vfBagUnchanged(sb, saved), "inputs are not modified when no ORF is found")
		return
	}
	res, nerr := vfCollect(ch)
	verifReach("closed")
	if nerr == 0 {
		verifReach("no alignment error")
		verifAssert(len(res) == 2, "exactly one result per input sequence")
		verifAssert(vfFindRes(res, vfNames[0]) >= 0 && vfFindRes(res, vfNames[1]) >= 0, "each input has exactly one result")
	}
	verifAssert(vfBagUnchanged(sb, saved), "inputs are not modified")
}

// H_C16_workers_exceed: more worker threads than input sequences: the stream is still closed, with one result per input.
// bounds: the 2 concrete inputs of H_C16_sched_phase, 1..5 workers, nucleotide and translated mode, default schedule (the current thread runs until it blocks, then the lowest-numbered runnable one), deadlock detection and race check on
// outside: other schedules for more than 2 workers
//verif: race=1
func H_C16_workers_exceed() {
	vfSchedPhase(nondetBool(), nondetRange(1, 5))
}

// H_C16_frame_codes: under each genetic code, in nucleotide and in translated mode, the reported amino-acid sequence is the translation of the reported codon sequence under THAT code.
// bounds: reference ORF ATGATAGAA (ATA: I in the standard code, M in both mitochondrial codes); input = the ORF with one symbolic substitution over {A,C,G,T} at any position (so TGA, AGA, AGG, ATA variants occur); the three genetic codes; translate on/off; reverse off, 1 worker
// outside: longer inputs, flanks (H_C16_frame_nt/_aa), reverse strand
func H_C16_frame_codes() {
	code := nondetRange(GENETIC_CODE_STANDARD, GENETIC_CODE_INVETEBRATE_MITO)
	translate := nondetBool()
	k := nondetRange(0, 8)
	in := []uint8("ATGATAGAA")
	c := nondetByte()
	assume(vfIsACGT(c))
	in[k] = c
	seqs := NewSeqBag(NUCLEOTIDS)
	seqs.AddSequenceChar("s0", append([]uint8{}, in...), "")
	ph := NewPhaser()
	ph.SetCpus(1)
	verifAssert(ph.SetTranslate(translate, code) == nil, "genetic code accepted")
	ch, err := ph.Phase(vfBag(NUCLEOTIDS, "ATGATAGAA"), seqs)
	verifAssert(err == nil, "no error")
	n := 0
	for r := range ch {
		n++
		if r.Err == nil {
			verifReach("framed")
			vfFrameCheckCode(r, in, false, translate, code)
		}
	}
	verifAssert(n == 1, "exactly one result")
}

// H_C16_longest_orf_bag: without reference, the ORF taken from a sequence set is a longest ATG-to-first-in-frame-stop frame over all sequences, and over both strands when allowed: no sequence (or reverse complement) contains a longer one.
// bounds: two sequences: ATGAAATAATTACAT (a 9-nt ORF forward, a 6-nt one on the reverse strand) and CCATGTAGCC, one base of one of them (any position) replaced by a symbolic base over {A,C,G,T}; reverse on/off
// outside: longer sequences, several symbolic bases (sequence level: H_C16_longest_orf)
func H_C16_longest_orf_bag() {
	in := [][]uint8{[]uint8("ATGAAATAATTACAT"), []uint8("CCATGTAGCC")}
	w := nondetRange(0, 1)
	p := nondetRange(0, len(in[w])-1)
	c := nondetByte()
	assume(vfIsACGT(c))
	in[w][p] = c
	reverse := nondetBool()
	sb := NewSeqBag(NUCLEOTIDS)
	best := 0
	for i := range in {
		sb.AddSequenceChar(vfNames[i], append([]uint8{}, in[i]...), "")
		best = vfMaxI(best, vfLongestFrame(in[i]))
		if reverse {
			rc := make([]uint8, len(in[i]))
			for k := range rc {
				rc[k] = vfRefComplement(in[i][len(rc)-1-k])
			}
			best = vfMaxI(best, vfLongestFrame(rc))
		}
	}
	orf, err := sb.LongestORF(reverse)
	verifReach("searched")
	if best == 0 {
		verifAssert(err != nil, "no ORF anywhere: error")
		return
	}
	verifReach("orf exists")
	verifAssert(err == nil && orf != nil, "an ORF exists: no error")
	verifAssert(orf.Length() == best, "the ORF returned is as long as the longest ATG-to-first-stop frame of any sequence (either strand when allowed)")
}

func vfMaxI(a, b int) int {
	if a > b {
		return a
	}
	return b
}

// H_C16_unrelated: a sequence that has no positive-scoring alignment with the reference ORF (in any frame or strand) is reported as removed, or with an alignment error, in both modes: one result per input, never a crash.
// bounds: reference ORF ATGGAA; input CCCCCC with one base (any position) replaced by a symbolic base over {A,C,G,T}; translate on/off, reverse on/off, 1 worker
// outside: longer inputs
func H_C16_unrelated() {
	translate := nondetBool()
	reverse := nondetBool()
	in := []uint8("CCCCCC")
	k := nondetRange(0, 5)
	c := nondetByte()
	assume(vfIsACGT(c))
	in[k] = c
	seqs := NewSeqBag(NUCLEOTIDS)
	seqs.AddSequenceChar("s0", append([]uint8{}, in...), "")
	ph := NewPhaser()
	ph.SetCpus(1)
	ph.SetReverse(reverse)
	ph.SetTranslate(translate, GENETIC_CODE_STANDARD)
	ch, err := ph.Phase(vfBag(NUCLEOTIDS, "ATGGAA"), seqs)
	verifAssert(err == nil, "no error starting the phasing")
	n := 0
	for r := range ch {
		n++
		if r.Err == nil && !r.Removed {
			verifReach("aligned after all")
			vfFrameCheck(r, in, reverse, translate)
		}
		if r.Err == nil && r.Removed {
			verifReach("removed")
		}
	}
	verifAssert(n == 1, "exactly one result (or one alignment error) for the input")
	after, _ := seqs.GetSequenceCharById(0)
	for j := range in {
		verifAssert(after[j] == in[j], "input not modified")
	}
}
