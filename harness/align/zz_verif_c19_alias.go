//go:build verif

package align

// C19 (white box): a copy shares nothing with its source. The black-box harnesses of
// zz_verif/c19 mutate one side and look at the other; here the object graph itself is
// inspected, so that sharing which only a later, name-addressed or re-indexing operation would
// reveal is seen at once: no sequence object and no residue cell of the copy is one of the
// source, and the name index of the copy points to the copy's own sequence objects.
//
// verif-uses-rand: the replay build overlays math/rand so that the recorded draws are replayed.

func vfBagOf(x interface{}) *seqbag {
	switch v := x.(type) {
	case *align:
		return &v.seqbag
	case *seqbag:
		return v
	}
	panic("harness: unknown container implementation")
}

// vfNoSharing asserts the three facts above for copy cp of source src.
func vfNoSharing(src, cp *seqbag) {
	verifAssert(len(cp.seqmap) == len(cp.seqs), "the name index of the copy has one entry per sequence")
	for _, cs := range cp.seqs {
		verifAssert(cp.seqmap[cs.name] == cs, "the name index of the copy points to the copy's own sequence objects")
		for _, ss := range src.seqs {
			verifAssert(cs != ss, "no sequence object is shared")
			for i := range cs.sequence {
				for j := range ss.sequence {
					verifAssert(&cs.sequence[i] != &ss.sequence[j], "no residue cell is shared")
				}
			}
		}
	}
	for _, m := range cp.seqmap {
		for _, ss := range src.seqs {
			verifAssert(m != ss, "the name index of the copy does not point into the source")
		}
	}
	for _, m := range src.seqmap {
		for _, cs := range cp.seqs {
			verifAssert(m != cs, "the name index of the source does not point into the copy")
		}
	}
}

// H_C19_noalias: Clone, CloneSeqBag, SubAlign, SelectSites, Transpose, Unalign, Sample, BuildBootstrap, RandSubAlign, Translate-on-a-clone and Concat-free copies share no sequence object, no residue cell and no name-index entry with their source.
// bounds: n<=3 rows, L in 1..3, residues IUPAC nucleotides both cases and '-'; SubAlign every window; SelectSites every list of 1..2 sites; Sample every nb; every outcome of the random draws
// outside: n>3, L>3
func H_C19_noalias() {
	n := nondetRange(1, 3)
	L := nondetRange(1, 3)
	al, _ := vfSymAlign(NUCLEOTIDS, n, L, func(c uint8) bool { return vfIsIupacDNA(c, true) })
	before := vfSnapshot(al)
	var cp interface{}
	var err error
	switch nondetRange(0, 9) {
	case 0:
		cp, err = al.Clone()
	case 1:
		cp, err = al.CloneSeqBag()
	case 2:
		start := nondetRange(0, L-1)
		cp, err = al.SubAlign(start, nondetRange(1, L-start))
	case 3:
		sites := make([]int, nondetRange(1, 2))
		for i := range sites {
			sites[i] = nondetRange(0, L-1)
		}
		cp, err = al.SelectSites(sites)
	case 4:
		cp, err = al.Transpose()
	case 5:
		cp = al.Unalign()
	case 6:
		cp, err = al.Sample(nondetRange(1, n))
	case 7:
		cp = al.BuildBootstrap(1)
	case 8:
		cp, err = al.RandSubAlign(nondetRange(1, L), nondetBool())
	default:
		cp, err = al.SampleSeqBag(nondetRange(1, n))
	}
	verifAssert(err == nil && cp != nil, "copy produced")
	verifReach("copied")
	vfNoSharing(&al.seqbag, vfBagOf(cp))
	verifAssert(vfSameSnap(before, vfSnapshot(al)), "making the copy leaves the source unchanged")
}

// H_C19_query_longest_orf: SeqBag.LongestORF (a query) leaves the sequences unchanged, on both strands, whatever nucleotide codes they hold.
// bounds: two sequences of 11 nt (ORF ATGGAATAA forward in one, reverse in the other), one residue at any position replaced by any IUPAC nucleotide code in either case, U/u included; reverse on/off
// outside: longer sequences, several replaced residues
func H_C19_query_longest_orf() {
	sb, saved := vfOrfBag()
	reverse := nondetBool()
	orf, err := sb.LongestORF(reverse)
	verifReach("searched")
	if err == nil {
		verifReach("orf found")
		verifAssert(orf != nil && orf.Length() >= 6, "an ORF holds a start and a stop codon at least")
	}
	verifAssert(vfBagUnchanged(sb, saved), "LongestORF leaves the sequences unchanged")
}

var vfSinkBytes [][]uint8
var vfSinkInts [][]int
var vfSinkStrs [][]string
var vfSinkSeqs [][]*seq

// H_C19_conf_capacity: conformance of the engine's capacity model (append growth and []byte(string) as the gc runtime of the pinned toolchain computes them) with the native build: whether two slices share cells after an append depends on it. Every capacity is handed to verifObserve and compared with the native run.
// bounds: []byte(string) for lengths 0..40; appends one by one up to 70 elements for uint8, int, string and pointer elements; append of 3, 5 and 9 elements at once to slices of length 0..9
// outside: non-escaping conversions (the compiler's 32-byte stack buffer), other element sizes
func H_C19_conf_capacity() {
	k := nondetRange(0, 3)
	switch k {
	case 0:
		s := "0123456789012345678901234567890123456789"
		for n := 0; n <= 40; n++ {
			b := []uint8(s[:n])
			vfSinkBytes = append(vfSinkBytes, b)
			verifObserve("conv", n, cap(b))
		}
	case 1:
		var b []uint8
		var x []int
		for n := 0; n < 70; n++ {
			b = append(b, uint8(n))
			x = append(x, n)
			vfSinkBytes = append(vfSinkBytes, b)
			vfSinkInts = append(vfSinkInts, x)
			verifObserve("grow", n, cap(b), cap(x))
		}
	case 2:
		var st []string
		var ps []*seq
		for n := 0; n < 70; n++ {
			st = append(st, "x")
			ps = append(ps, nil)
			vfSinkStrs = append(vfSinkStrs, st)
			vfSinkSeqs = append(vfSinkSeqs, ps)
			verifObserve("growp", n, cap(st), cap(ps))
		}
	default:
		for n := 0; n <= 9; n++ {
			for _, add := range []int{3, 5, 9} {
				b := make([]uint8, n)
				b = append(b, make([]uint8, add)...)
				x := make([]int, n)
				x = append(x, make([]int, add)...)
				vfSinkBytes = append(vfSinkBytes, b)
				vfSinkInts = append(vfSinkInts, x)
				verifObserve("bulk", n, add, cap(b), cap(x))
			}
		}
	}
	verifReach("observed")
}
