//go:build verif

package align

import "math"

// C14 — column statistics and consensus match their definitions and are deterministic.
//
// All reference models below are naive loops over the original residues, written from the
// documentation of the public interface (align.Alignment / align.SeqBag / align.Sequence) and
// the property statement. Oracle caveats (DESIGN.md, C14): (a) the count profile is only
// checked on residues without lower-case letters; (b) AvgAllelesPerSite is not checked when
// every column is gap-only; (c) the tie rule of MaxCharStats/Consensus is free, only
// agreement of two evaluations is demanded. Statistics whose documentation does not say that
// case is folded (entropy, variable/informative sites, alleles, unique residues, mutations)
// are checked on residues without lower-case letters only.

func vfC14Print(c uint8) bool   { return c >= 0x21 && c <= 0x7e }
func vfC14NoLower(c uint8) bool { return c >= 0x21 && c <= 0x7e && !(c >= 'a' && c <= 'z') }

// vfC14Plain: printable, no lower case, and none of the special symbols '.' and '*' whose
// treatment differs between the statistics and is not documented uniformly.
func vfC14Plain(c uint8) bool { return vfC14NoLower(c) && c != '.' && c != '*' }

func vfC14Upper(c uint8) uint8 {
	if c >= 'a' && c <= 'z' {
		return c - 32
	}
	return c
}

func vfC14Wild(alphabet int) uint8 {
	if alphabet == AMINOACIDS {
		return 'X'
	}
	return 'N'
}

func vfC14Alphabet() int {
	if nondetRange(0, 1) == 0 {
		return AMINOACIDS
	}
	return NUCLEOTIDS
}

// ---------------------------------------------------------------------------------------
// character counts

func vfC14SameIntMap(a, b map[uint8]int) bool {
	if len(a) != len(b) {
		return false
	}
	ok := true
	for k, v := range a {
		w, in := b[k]
		ok = ok && in && w == v
	}
	return ok
}

func vfC14CharStats(nmax, lmax int) {
	n := nondetRange(1, nmax)
	L := nondetRange(1, lmax)
	al, orig := vfSymAlign(NUCLEOTIDS, n, L, vfC14Print)

	// whole alignment
	cs := al.CharStats()
	verifReach("charstats")
	var sum int64
	for _, v := range cs {
		verifAssert(v > 0, "CharStats: only characters that occur")
		sum += v
	}
	verifAssert(sum == int64(n*L), "CharStats: counts sum to the number of residues")
	for i := 0; i < n; i++ {
		for j := 0; j < L; j++ {
			u := vfC14Upper(orig[i][j])
			want := 0
			for i2 := 0; i2 < n; i2++ {
				for j2 := 0; j2 < L; j2++ {
					if vfC14Upper(orig[i2][j2]) == u {
						want++
					}
				}
			}
			verifAssert(cs[u] == int64(want), "CharStats: case-folded count of every character")
		}
	}
	cs2 := al.CharStats()
	verifAssert(len(cs) == len(cs2), "CharStats: same answer twice (size)")
	for k, v := range cs {
		verifAssert(cs2[k] == v, "CharStats: same answer twice")
	}

	// distinct characters
	uc := al.UniqueCharacters()
	for i := 0; i < n; i++ {
		for j := 0; j < L; j++ {
			u := vfC14Upper(orig[i][j])
			cnt := 0
			for _, c := range uc {
				if c == u {
					cnt++
				}
			}
			verifAssert(cnt == 1, "UniqueCharacters: every (case-folded) character listed once")
		}
	}
	for _, c := range uc {
		found := false
		for i := 0; i < n; i++ {
			for j := 0; j < L; j++ {
				if vfC14Upper(orig[i][j]) == c {
					found = true
				}
			}
		}
		verifAssert(found, "UniqueCharacters: only characters that occur")
	}
	uc2 := al.UniqueCharacters()
	verifAssert(len(uc) == len(uc2), "UniqueCharacters: same answer twice (size)")
	for k := range uc {
		verifAssert(k < len(uc2) && uc[k] == uc2[k], "UniqueCharacters: same answer twice")
	}

	// one sequence
	idx := nondetInt()
	ms, err := al.CharStatsSeq(idx)
	if idx < 0 || idx >= n {
		verifReach("sequence index outside")
		verifAssert(err != nil, "CharStatsSeq: index outside the alignment is an error")
	} else {
		verifReach("sequence index inside")
		verifAssert(err == nil, "CharStatsSeq: valid index accepted")
		ms2, _ := al.CharStatsSeq(idx)
		verifAssert(vfC14SameIntMap(ms, ms2), "CharStatsSeq: same answer twice")
		for i := 0; i < n; i++ {
			if idx != i {
				continue
			}
			s := 0
			for _, v := range ms {
				verifAssert(v > 0, "CharStatsSeq: only characters that occur")
				s += v
			}
			verifAssert(s == L, "CharStatsSeq: counts sum to the length")
			for j := 0; j < L; j++ {
				u := vfC14Upper(orig[i][j])
				want := 0
				for j2 := 0; j2 < L; j2++ {
					if vfC14Upper(orig[i][j2]) == u {
						want++
					}
				}
				verifAssert(ms[u] == want, "CharStatsSeq: case-folded count of every character of the row")
			}
		}
	}

	// one site
	site := nondetInt()
	mc, err := al.CharStatsSite(site)
	if site < 0 || site >= L {
		verifReach("site outside")
		verifAssert(err != nil, "CharStatsSite: site outside the alignment is an error")
	} else {
		verifReach("site inside")
		verifAssert(err == nil, "CharStatsSite: valid site accepted")
		mc2, _ := al.CharStatsSite(site)
		verifAssert(vfC14SameIntMap(mc, mc2), "CharStatsSite: same answer twice")
		for j := 0; j < L; j++ {
			if site != j {
				continue
			}
			s := 0
			for _, v := range mc {
				verifAssert(v > 0, "CharStatsSite: only characters that occur")
				s += v
			}
			verifAssert(s == n, "CharStatsSite: counts sum to the number of rows")
			for i := 0; i < n; i++ {
				u := vfC14Upper(orig[i][j])
				want := 0
				for i2 := 0; i2 < n; i2++ {
					if vfC14Upper(orig[i2][j]) == u {
						want++
					}
				}
				verifAssert(mc[u] == want, "CharStatsSite: case-folded count of every character of the column")
			}
		}
	}
}

// H_C14_charstats: CharStats, UniqueCharacters, CharStatsSeq, CharStatsSite are the case-folded counts; bad indices are errors; same answer twice.
// bounds: n<=2 rows, L<=2 columns, residues any printable ASCII byte (mixed case), sequence and site index any 64-bit int
// outside: n>2, L>2, bytes >= 0x80 (count tables have 130 entries)
func H_C14_charstats() { vfC14CharStats(2, 2) }

// H_C14_charstats_deep: as H_C14_charstats, deeper.
// bounds: n<=3 rows, L<=2 columns
// outside: n>3, L>2
//verif: tier=thorough
func H_C14_charstats_deep() { vfC14CharStats(3, 2) }

// vfC14CheckProfile: p must hold, for every residue and every site, the number of rows with that residue at that site.
func vfC14CheckProfile(p *CountProfile, orig [][]uint8, n, L int) {
	verifAssert(p.CheckLength(L), "profile has the alignment length")
	distinct := 0
	for i := 0; i < n; i++ {
		for j := 0; j < L; j++ {
			r := orig[i][j]
			// first occurrence in row-major order?
			seen := false
			for i2 := 0; i2 < n; i2++ {
				for j2 := 0; j2 < L; j2++ {
					if (i2 < i || (i2 == i && j2 < j)) && orig[i2][j2] == r {
						seen = true
					}
				}
			}
			if !seen {
				distinct++
			}
			for s := 0; s < L; s++ {
				want := 0
				for i2 := 0; i2 < n; i2++ {
					if orig[i2][s] == r {
						want++
					}
				}
				got, err := p.Count(r, s)
				verifAssert(err == nil, "profile knows every residue of the alignment")
				verifAssert(got == want, "profile count = number of rows with that residue at that site")
			}
		}
	}
	verifAssert(p.NbCharacters() == distinct, "profile has one entry per distinct residue")
}

// H_C14_profile: NewCountProfileFromAlignment holds the per-site count of every residue; a site outside is an error.
// bounds: n<=2 rows, L<=2 columns, residues printable ASCII without lower-case letters (caveat a), site any 64-bit int
// outside: lower-case residues (documentation silent on case folding of profiles: open question, not asserted), bytes >= 0x80
func H_C14_profile() {
	n := nondetRange(1, 2)
	L := nondetRange(1, 2)
	al, orig := vfSymAlign(NUCLEOTIDS, n, L, vfC14NoLower)
	p := NewCountProfileFromAlignment(al)
	verifReach("profile")
	vfC14CheckProfile(p, orig, n, L)
	site := nondetInt()
	c, err := p.Count(orig[0][0], site)
	if site < 0 || site >= L {
		verifReach("site outside")
		verifAssert(err != nil, "profile: site outside is an error")
	} else {
		verifAssert(err == nil && c >= 0, "profile: site inside accepted")
	}
	p2 := NewCountProfileFromAlignment(al)
	vfC14CheckProfile(p2, orig, n, L)
}

// ---------------------------------------------------------------------------------------
// majority character / consensus

// vfC14CheckMajority checks out (and occur/total when not nil) against the definition of the
// most frequent case-folded character among the characters not excluded. Any of several
// equally frequent characters is accepted (caveat c).
func vfC14CheckMajority(out []uint8, occur, total []int, orig [][]uint8, n, L, alphabet int, ignoreGaps, ignoreNs bool) {
	wild := vfC14Wild(alphabet)
	verifAssert(len(out) == L, "one majority character per site")
	if occur != nil {
		verifAssert(len(occur) == L && len(total) == L, "one count per site")
	}
	for j := 0; j < L; j++ {
		kept := 0
		max := 0
		allSame := true
		for i := 0; i < n; i++ {
			u := vfC14Upper(orig[i][j])
			if u != vfC14Upper(orig[0][j]) {
				allSame = false
			}
			excl := (ignoreGaps && u == '-') || (ignoreNs && u == wild)
			if excl {
				continue
			}
			kept++
			cnt := 0
			for i2 := 0; i2 < n; i2++ {
				if vfC14Upper(orig[i2][j]) == u {
					cnt++
				}
			}
			if cnt > max {
				max = cnt
			}
		}
		if kept > 0 {
			verifReach("majority among kept characters")
			// out[j] must be a kept character with max occurrences
			isMax := false
			for i := 0; i < n; i++ {
				u := vfC14Upper(orig[i][j])
				excl := (ignoreGaps && u == '-') || (ignoreNs && u == wild)
				cnt := 0
				for i2 := 0; i2 < n; i2++ {
					if vfC14Upper(orig[i2][j]) == u {
						cnt++
					}
				}
				if !excl && cnt == max && out[j] == u {
					isMax = true
				}
			}
			verifAssert(isMax, "majority character is a most frequent character among those not excluded")
			if occur != nil {
				verifAssert(occur[j] == max, "occur is the count of the majority character")
				verifAssert(total[j] == kept, "total is the number of residues taken into account")
			}
		} else if allSame {
			verifReach("fallback to the only kind present")
			verifAssert(out[j] == vfC14Upper(orig[0][j]), "only gaps / only Ns: falls back to that character")
			if occur != nil {
				verifAssert(occur[j] == n, "fallback: occur is the count of that character")
			}
		}
		// all residues excluded but of two kinds (gaps and Ns): nothing is stated
	}
}

// H_C14_maxchar_def: MaxCharStats and Consensus return a most frequent non-excluded character with its count, under every map iteration order.
// bounds: (n<=3 rows, L=1 column) or (n<=2 rows, L=2 columns), residues printable ASCII (mixed case), both alphabets, the 4 combinations of ignoreGaps/ignoreNs
// outside: larger shapes; columns whose residues are all excluded but of two kinds (gap and N): nothing is stated, nothing asserted
//verif: maporder=1
func H_C14_maxchar_def() {
	n, L := 0, 1
	if nondetRange(0, 1) == 0 {
		n = nondetRange(1, 3)
	} else {
		n = nondetRange(1, 2)
		L = 2
	}
	alphabet := vfC14Alphabet()
	ig := nondetRange(0, 1) == 1
	in := nondetRange(0, 1) == 1
	al, orig := vfSymAlign(alphabet, n, L, vfC14Print)
	out, occur, total := al.MaxCharStats(ig, in)
	cons := al.Consensus(ig, in)
	verifMapOrder(false)
	verifReach("maxchar")
	vfC14CheckMajority(out, occur, total, orig, n, L, alphabet, ig, in)
	verifAssert(cons.NbSequences() == 1 && cons.Length() == L, "consensus is one sequence of the alignment length")
	verifAssert(cons.Alphabet() == alphabet, "consensus keeps the alphabet")
	cs, _ := cons.GetSequenceCharById(0)
	vfC14CheckMajority(cs, nil, nil, orig, n, L, alphabet, ig, in)
	for i := 0; i < n; i++ {
		got, _ := al.GetSequenceCharById(i)
		for j := 0; j < L; j++ {
			verifAssert(got[j] == orig[i][j], "alignment not modified")
		}
	}
}

func vfC14MaxCharDet(nmax, lmax int) {
	n := nondetRange(1, nmax)
	L := nondetRange(1, lmax)
	alphabet := vfC14Alphabet()
	ig := nondetRange(0, 1) == 1
	in := nondetRange(0, 1) == 1
	al, _ := vfSymAlign(alphabet, n, L, vfC14Print)
	out1, occ1, tot1 := al.MaxCharStats(ig, in)
	out2, occ2, tot2 := al.MaxCharStats(ig, in)
	verifMapOrder(false)
	verifReach("twice")
	for j := 0; j < L; j++ {
		verifAssert(occ1[j] == occ2[j], "MaxCharStats: same count twice")
		verifAssert(tot1[j] == tot2[j], "MaxCharStats: same total twice")
		verifAssert(out1[j] == out2[j], "MaxCharStats: same character twice (ties broken the same way every time)")
	}
}

// H_C14_maxchar_det: two evaluations of MaxCharStats on the same alignment agree (map iteration orders explored independently).
// bounds: n<=3 rows, L=1 column, residues printable ASCII, both alphabets, 4 option combinations
// outside: n>3, L>1
//verif: maporder=1
func H_C14_maxchar_det() { vfC14MaxCharDet(3, 1) }

// H_C14_consensus_det: two evaluations of Consensus on the same alignment give the same sequence.
// bounds: n<=2 rows, L<=2 columns, residues printable ASCII, both alphabets, 4 option combinations
// outside: n>2, L>2
//verif: maporder=1
func H_C14_consensus_det() {
	n := nondetRange(1, 2)
	L := nondetRange(1, 2)
	alphabet := vfC14Alphabet()
	ig := nondetRange(0, 1) == 1
	in := nondetRange(0, 1) == 1
	al, _ := vfSymAlign(alphabet, n, L, vfC14Print)
	c1 := al.Consensus(ig, in)
	c2 := al.Consensus(ig, in)
	verifMapOrder(false)
	verifReach("twice")
	s1, _ := c1.GetSequenceCharById(0)
	s2, _ := c2.GetSequenceCharById(0)
	verifAssert(len(s1) == L && len(s2) == L, "consensus length")
	for j := 0; j < L; j++ {
		verifAssert(s1[j] == s2[j], "Consensus: same sequence twice (ties broken the same way every time)")
	}
}

// ---------------------------------------------------------------------------------------
// entropy

// vfC14RefEntropy: -sum p ln p over the distinct residues of column j ('.' and '*' never
// counted, '-' not counted when removegaps), by the same formula as documented (natural log).
// ok is false when no residue is counted.
func vfC14RefEntropy(orig [][]uint8, n, j int, removegaps bool) (h float64, ok bool) {
	counted := func(c uint8) bool { return c != '*' && c != '.' && (!removegaps || c != '-') }
	total := 0
	for i := 0; i < n; i++ {
		if counted(orig[i][j]) {
			total++
		}
	}
	if total == 0 {
		return 0, false
	}
	for i := 0; i < n; i++ {
		c := orig[i][j]
		if !counted(c) {
			continue
		}
		first := true
		for i2 := 0; i2 < i; i2++ {
			if orig[i2][j] == c {
				first = false
			}
		}
		if !first {
			continue
		}
		cnt := 0
		for i2 := 0; i2 < n; i2++ {
			if orig[i2][j] == c {
				cnt++
			}
		}
		p := float64(cnt) / float64(total)
		h -= p * math.Log(p)
	}
	return h, true
}

// H_C14_entropy_index: Entropy with a site index outside [0,L) is an error, never a panic.
// bounds: n<=2 rows, L<=2 columns, residues printable ASCII, site any 64-bit int, removegaps any
// outside: n>2, L>2
func H_C14_entropy_index() {
	n := nondetRange(1, 2)
	L := nondetRange(1, 2)
	al, _ := vfSymAlign(NUCLEOTIDS, n, L, vfC14Print)
	site := nondetInt()
	rg := nondetBool()
	_, err := al.Entropy(site, rg)
	verifReach("called")
	if site < 0 || site >= L {
		verifReach("site outside")
		verifAssert(err != nil, "Entropy: site outside the alignment is an error")
	} else {
		verifAssert(err == nil, "Entropy: valid site accepted")
	}
}

func vfC14Entropy(nmax, lmax int) {
	n := nondetRange(1, nmax)
	L := nondetRange(1, lmax)
	al, orig := vfSymAlign(NUCLEOTIDS, n, L, vfC14NoLower)
	site := nondetRange(0, L-1)
	rg := nondetRange(0, 1) == 1
	want, ok := vfC14RefEntropy(orig, n, site, rg)
	assume(ok) // a column without any counted residue has no entropy (0/0): nothing asserted
	h1, err1 := al.Entropy(site, rg)
	h2, err2 := al.Entropy(site, rg)
	verifMapOrder(false)
	verifReach("entropy")
	verifAssert(err1 == nil && err2 == nil, "Entropy: valid site accepted")
	verifAssert(h1 == h2, "Entropy: same answer twice")
	verifAssert(h1 == want, "Entropy: equals -sum p ln p over the counted residues")
	same := true
	for i := 1; i < n; i++ {
		same = same && orig[i][site] == orig[0][site]
	}
	if same {
		verifReach("constant column")
		verifAssert(h1 == 0, "Entropy: a constant column has entropy 0")
	}
}

// H_C14_entropy: Entropy(site, removegaps) = -sum p ln p over the residues of the column (ln uninterpreted), same answer twice.
// bounds: n<=3 rows, L<=2 columns, residues printable ASCII without lower-case letters, all sites in [0,L), removegaps any; columns with at least one counted residue
// outside: IEEE rounding (real arithmetic, order of summation irrelevant), lower-case residues (case folding of entropy not documented), columns made only of - . * (0/0)
//verif: maporder=1
func H_C14_entropy() { vfC14Entropy(3, 2) }

// H_C14_entropy_deep: as H_C14_entropy with 4 rows.
// bounds: n<=4 rows, L<=2
// outside: n>4
//verif: maporder=1 tier=thorough
func H_C14_entropy_deep() { vfC14Entropy(4, 2) }

// ---------------------------------------------------------------------------------------
// variable sites, informative sites, alleles

func vfC14SiteMeasures(nmax, lmax int) {
	n := nondetRange(1, nmax)
	L := nondetRange(1, lmax)
	alphabet := vfC14Alphabet()
	wild := vfC14Wild(alphabet)
	al, orig := vfSymAlign(alphabet, n, L, vfC14Plain)
	if alphabet == NUCLEOTIDS {
		// "X, N and gaps are not considered": X in a nucleotide alignment is left out of the claim
		for i := 0; i < n; i++ {
			for j := 0; j < L; j++ {
				assume(orig[i][j] != 'X')
			}
		}
	}
	nvar := al.NbVariableSites()
	inf := al.InformativeSites()
	verifReach("measures")

	wantVar := 0
	alleles := 0
	nongap := 0
	wantInf := make([]bool, L)
	for j := 0; j < L; j++ {
		// distinct non-gap characters of the column
		d := 0
		// characters (other than gap and the wildcard) occurring at least twice
		twice := 0
		for i := 0; i < n; i++ {
			c := orig[i][j]
			if c == '-' {
				continue
			}
			first := true
			for i2 := 0; i2 < i; i2++ {
				if orig[i2][j] == c {
					first = false
				}
			}
			if !first {
				continue
			}
			d++
			cnt := 0
			for i2 := 0; i2 < n; i2++ {
				if orig[i2][j] == c {
					cnt++
				}
			}
			if c != wild && cnt >= 2 {
				twice++
			}
		}
		if d > 1 {
			wantVar++
		}
		if d > 0 {
			nongap++
		}
		alleles += d
		wantInf[j] = twice >= 2
	}
	verifAssert(nvar == wantVar, "NbVariableSites: sites with more than one distinct non-gap character")
	verifAssert(al.NbVariableSites() == nvar, "NbVariableSites: same answer twice")
	k := 0
	for j := 0; j < L; j++ {
		if wantInf[j] {
			verifReach("informative site")
			verifAssert(k < len(inf) && inf[k] == j, "InformativeSites: every site with two characters occurring twice, in order")
			k++
		}
	}
	verifAssert(len(inf) == k, "InformativeSites: nothing but informative sites")
	inf2 := al.InformativeSites()
	verifAssert(len(inf2) == len(inf), "InformativeSites: same answer twice (size)")
	for x := range inf {
		verifAssert(x < len(inf2) && inf[x] == inf2[x], "InformativeSites: same answer twice")
	}
	if nongap > 0 {
		verifReach("alleles")
		avg := al.AvgAllelesPerSite()
		verifAssert(avg == float64(alleles)/float64(nongap), "AvgAllelesPerSite: mean number of distinct non-gap characters over the sites that are not gap-only")
		verifAssert(al.AvgAllelesPerSite() == avg, "AvgAllelesPerSite: same answer twice")
	}
}

// H_C14_site_measures: NbVariableSites, InformativeSites, AvgAllelesPerSite equal their naive definitions; same answer twice.
// bounds: n<=4 rows, L<=2 columns, both alphabets, residues printable ASCII except lower-case letters, '.', '*' (and X in nucleotide alignments)
// outside: n>4, L>2; lower-case residues and . * (treatment not documented uniformly); alignments whose every column is gap-only for AvgAllelesPerSite (0/0, caveat b)
func H_C14_site_measures() { vfC14SiteMeasures(4, 2) }

// H_C14_site_measures_deep: as H_C14_site_measures with 5 rows (three characters twice is impossible below 6; two pairs plus a single).
// bounds: n<=5 rows, L<=2 columns
// outside: n>5
//verif: tier=thorough
func H_C14_site_measures_deep() { vfC14SiteMeasures(5, 2) }

// ---------------------------------------------------------------------------------------
// PSSM

func vfC14Pssm(nmax, lmax int) {
	n := nondetRange(1, nmax)
	L := nondetRange(1, lmax)
	al, orig := vfSymAlign(NUCLEOTIDS, n, L, vfC14Print)
	norm := PSSM_NORM_NONE
	switch nondetRange(0, 3) {
	case 1:
		norm = PSSM_NORM_FREQ
	case 2:
		norm = PSSM_NORM_UNIF
	case 3:
		norm = nondetInt()
		assume(norm < 0 || norm > 4)
	}
	lg := nondetRange(0, 1) == 1
	pc := nondetDyadic(4, 0, 8) // pseudo-count k/4, k in 0..8
	if lg {
		assume(pc > 0) // log2(0) is outside the claim
	}
	m1, err1 := al.Pssm(lg, pc, norm)
	m2, err2 := al.Pssm(lg, pc, norm)
	verifReach("pssm")
	if norm < 0 || norm > 4 {
		verifReach("unknown normalisation")
		verifAssert(err1 != nil && err2 != nil, "Pssm: unknown normalisation is an error")
		return
	}
	verifAssert(err1 == nil && err2 == nil, "Pssm: no error")
	letters := []uint8{'A', 'C', 'G', 'T'}
	verifAssert(len(m1) == 4 && len(m2) == 4, "Pssm: one row per letter of the alphabet")
	for _, c := range letters {
		r1, in1 := m1[c]
		r2, in2 := m2[c]
		verifAssert(in1 && in2 && len(r1) == L && len(r2) == L, "Pssm: one value per site")
		for j := 0; j < L; j++ {
			cnt := 0
			for i := 0; i < n; i++ {
				if vfC14Upper(orig[i][j]) == c {
					cnt++
				}
			}
			want := float64(cnt) + pc
			switch norm {
			case PSSM_NORM_FREQ:
				want = want / (float64(n) + 4*pc)
			case PSSM_NORM_UNIF:
				want = want / (float64(n) + 4*pc) / (1.0 / 4.0)
			}
			if lg {
				want = math.Log(want) / math.Log(2)
			}
			verifAssert(r1[j] == r2[j], "Pssm: same answer twice")
			verifAssert(r1[j] == want, "Pssm: (count+pseudocount), frequency- or uniform-normalised, optionally log2")
		}
	}
}

// H_C14_pssm: Pssm columns are the case-folded counts plus pseudo-count, normalised (none / site frequency / uniform), optionally log2 (ln uninterpreted); unknown normalisation is an error.
// bounds: nucleotide alignment n<=2 rows, L<=2 columns, residues printable ASCII (mixed case), pseudo-count k/4 for k in 0..8 (k>=1 with log), normalisation NONE/FREQ/UNIF or any int outside 0..4
// outside: IEEE rounding (real arithmetic); DATA and LOGO normalisations; amino-acid alignments; log of a zero count; map iteration orders (every value is computed independently of the others)
func H_C14_pssm() { vfC14Pssm(2, 2) }

// H_C14_pssm_deep: as H_C14_pssm with 3 rows.
// bounds: n<=3 rows, L<=2 columns
// outside: n>3
//verif: tier=thorough
func H_C14_pssm_deep() { vfC14Pssm(3, 2) }

// ---------------------------------------------------------------------------------------
// residues and gaps unique in their column

func vfC14Unique(nmax, lmax int) {
	n := nondetRange(1, nmax)
	L := nondetRange(1, lmax)
	alphabet := vfC14Alphabet()
	wild := vfC14Wild(alphabet)
	al, orig := vfSymAlign(alphabet, n, L, vfC14NoLower)
	// optional reference profile, built from a second alignment of m rows
	var prof *CountProfile
	var porig [][]uint8
	m := nondetRange(0, 1)
	plen := L
	if m > 0 {
		if nondetRange(0, 3) == 0 {
			plen = L + 1 // profile of another length: error expected
		}
		pal := NewAlign(alphabet)
		porig = make([][]uint8, m)
		for i := 0; i < m; i++ {
			s := make([]uint8, plen)
			porig[i] = make([]uint8, plen)
			for j := range s {
				s[j] = nondetByte()
				assume(vfC14NoLower(s[j]))
				porig[i][j] = s[j]
			}
			pal.AddSequenceChar(vfNames[i], s, "")
		}
		prof = NewCountProfileFromAlignment(pal)
	}
	gu, gn, gb, gerr := al.NumGapsUniquePerSequence(prof)
	mu, mn, mb, merr := al.NumMutationsUniquePerSequence(prof)
	verifReach("unique")
	if plen != L {
		verifReach("profile length mismatch")
		verifAssert(gerr != nil && merr != nil, "profile of another length is an error")
		return
	}
	verifAssert(gerr == nil && merr == nil, "no error")
	verifAssert(len(gu) == n && len(gn) == n && len(gb) == n && len(mu) == n && len(mn) == n && len(mb) == n, "one value per sequence")
	inProfile := func(c uint8, j int) bool {
		in := false
		for i := 0; i < m; i++ {
			if porig[i][j] == c {
				in = true
			}
		}
		return in
	}
	for i := 0; i < n; i++ {
		wgu, wgn, wgb, wmu, wmn, wmb := 0, 0, 0, 0, 0, 0
		for j := 0; j < L; j++ {
			c := orig[i][j]
			cnt := 0
			for i2 := 0; i2 < n; i2++ {
				if orig[i2][j] == c {
					cnt++
				}
			}
			isNew := m > 0 && !inProfile(c, j)
			if c == '-' {
				if cnt == 1 {
					wgu++
				}
				if isNew {
					wgn++
				}
				if cnt == 1 && isNew {
					wgb++
				}
			} else if c != wild {
				if cnt == 1 {
					wmu++
				}
				if isNew {
					wmn++
				}
				if cnt == 1 && isNew {
					wmb++
				}
			}
		}
		verifAssert(gu[i] == wgu, "NumGapsUniquePerSequence: gaps alone in their column")
		verifAssert(gn[i] == wgn, "NumGapsUniquePerSequence: gaps not seen in the profile at that site")
		verifAssert(gb[i] == wgb, "NumGapsUniquePerSequence: gaps both unique and new")
		verifAssert(mu[i] == wmu, "NumMutationsUniquePerSequence: residues (not gap, not N/X) alone in their column")
		verifAssert(mn[i] == wmn, "NumMutationsUniquePerSequence: residues not seen in the profile at that site")
		verifAssert(mb[i] == wmb, "NumMutationsUniquePerSequence: residues both unique and new")
	}
	gu2, gn2, gb2, _ := al.NumGapsUniquePerSequence(prof)
	mu2, mn2, mb2, _ := al.NumMutationsUniquePerSequence(prof)
	for i := 0; i < n; i++ {
		verifAssert(gu2[i] == gu[i] && gn2[i] == gn[i] && gb2[i] == gb[i], "NumGapsUniquePerSequence: same answer twice")
		verifAssert(mu2[i] == mu[i] && mn2[i] == mn[i] && mb2[i] == mb[i], "NumMutationsUniquePerSequence: same answer twice")
	}
}

// H_C14_unique: per-sequence counts of gaps and residues that are unique in their column, new with respect to a profile, or both.
// bounds: n<=3 rows, L<=2 columns, both alphabets, residues printable ASCII without lower-case letters; profile absent or built from a 1-row alignment of length L or L+1
// outside: n>3, L>2, lower-case residues (n/x as wildcard not documented), bytes >= 0x80
func H_C14_unique() { vfC14Unique(3, 2) }

// ---------------------------------------------------------------------------------------
// differences with the first sequence

// H_C14_countdiff: CountDifferences lists every (first,other) residue pair seen and counts it per sequence.
// bounds: n<=3 rows, L<=2 columns, residues printable ASCII
// outside: n>3, L>2, alignments without rows
func H_C14_countdiff() {
	n := nondetRange(1, 3)
	L := nondetRange(1, 2)
	al, orig := vfSymAlign(NUCLEOTIDS, n, L, vfC14Print)
	all, diffs := al.CountDifferences()
	all2, diffs2 := al.CountDifferences()
	verifReach("countdiff")
	verifAssert(len(diffs) == n-1 && len(diffs2) == n-1, "one table per sequence after the first")
	distinct := 0
	for i := 1; i < n; i++ {
		nd := 0
		for l := 0; l < L; l++ {
			a, b := orig[0][l], orig[i][l]
			if a == b {
				continue
			}
			nd++
			key := string([]uint8{a, b})
			want := 0
			for l2 := 0; l2 < L; l2++ {
				if orig[0][l2] == a && orig[i][l2] == b {
					want++
				}
			}
			verifAssert(diffs[i-1][key] == want, "count of the REF-NEW pair in that sequence")
			verifAssert(diffs2[i-1][key] == want, "same counts twice")
			cnt := 0
			for _, k := range all {
				if k == key {
					cnt++
				}
			}
			verifAssert(cnt == 1, "every pair seen is listed once")
			// first time this pair is seen (over sequences then positions)?
			seen := false
			for i2 := 1; i2 <= i; i2++ {
				for l2 := 0; l2 < L; l2++ {
					if (i2 < i || l2 < l) && orig[0][l2] == a && orig[i2][l2] == b {
						seen = true
					}
				}
			}
			if !seen {
				distinct++
			}
		}
		s := 0
		for _, v := range diffs[i-1] {
			s += v
		}
		verifAssert(s == nd, "counts sum to the number of positions that differ from the first sequence")
		verifAssert(len(diffs2[i-1]) == len(diffs[i-1]), "same tables twice")
	}
	verifAssert(len(all) == distinct, "nothing but pairs seen")
	verifAssert(len(all2) == len(all), "same list twice (size)")
	for k := range all {
		verifAssert(k < len(all2) && all[k] == all2[k], "same list twice")
	}
}

// ---------------------------------------------------------------------------------------
// mutations relative to a reference sequence

func vfC14IupacUpper(c uint8) bool {
	return c == '-' || (c >= 'A' && c <= 'Z' && vfMask(c) != 0 && c != 'U')
}

// vfC14Differs: the residue c of the compared sequence is a difference with respect to
// the reference residue r. Nucleotides: IUPAC codes sharing a nucleotide are compatible;
// '-' is compatible with '-' only.
func vfC14Differs(alphabet int, c, r uint8) bool {
	if c == r {
		return false
	}
	if alphabet == NUCLEOTIDS {
		return vfMask(c)&vfMask(r) == 0
	}
	return true
}

func vfC14RefMut(nmax, lmax int) {
	n := nondetRange(1, nmax)
	L := nondetRange(1, lmax)
	alphabet := vfC14Alphabet()
	wild := vfC14Wild(alphabet)
	ok := vfC14Plain
	if alphabet == NUCLEOTIDS {
		ok = vfC14IupacUpper
	}
	al, orig := vfSymAlign(alphabet, n, L, ok)
	refi := nondetRange(0, n-1)
	cmpi := nondetRange(0, n-1)
	ref, _ := al.Sequence(refi)
	s, _ := al.Sequence(cmpi)
	r, c := orig[refi], orig[cmpi]

	num, err := s.NumMutationsComparedToReferenceSequence(alphabet, ref)
	num2, _ := s.NumMutationsComparedToReferenceSequence(alphabet, ref)
	verifReach("nummut")
	verifAssert(err == nil, "NumMutations: no error on sequences of the same length")
	want := 0
	for j := 0; j < L; j++ {
		if c[j] != '-' && c[j] != wild && vfC14Differs(alphabet, c[j], r[j]) {
			want++
		}
	}
	verifAssert(num == want, "NumMutations: residues (not gap, not N/X) incompatible with the reference residue")
	verifAssert(num2 == num, "NumMutations: same answer twice")
	if refi == cmpi {
		verifAssert(num == 0, "NumMutations: a sequence has no mutation with respect to itself")
	}

	muts, lerr := s.ListMutationsComparedToReferenceSequence(alphabet, ref, false)
	muts2, _ := s.ListMutationsComparedToReferenceSequence(alphabet, ref, false)
	verifReach("listmut")
	verifAssert(lerr == nil, "ListMutations: no error on sequences of the same length")
	// expected list: walk the columns; columns where the reference has a gap extend the
	// current insertion (non-gap residues only); other columns first flush the insertion,
	// then list a substitution or deletion when the residue is not N/X and incompatible.
	k := 0
	pos := 0 // position on the reference without gaps
	var ins []uint8
	flush := func() {
		if len(ins) > 0 {
			verifReach("insertion")
			verifAssert(k < len(muts), "ListMutations: insertion listed")
			if k < len(muts) {
				mu := muts[k]
				verifAssert(mu.Ref == '-' && mu.Pos == pos, "ListMutations: insertion has reference '-' and the position of the next reference residue")
				verifAssert(len(mu.Alt) == len(ins), "ListMutations: consecutive inserted residues are grouped")
				for x := range ins {
					verifAssert(x < len(mu.Alt) && mu.Alt[x] == ins[x], "ListMutations: inserted residues in order")
				}
			}
			k++
			ins = nil
		}
	}
	for j := 0; j < L; j++ {
		if r[j] == '-' {
			if c[j] != '-' {
				ins = append(ins, c[j])
			}
			continue
		}
		flush()
		if c[j] != wild && vfC14Differs(alphabet, c[j], r[j]) {
			verifReach("substitution or deletion")
			verifAssert(k < len(muts), "ListMutations: substitution/deletion listed")
			if k < len(muts) {
				mu := muts[k]
				verifAssert(mu.Ref == r[j] && mu.Pos == pos, "ListMutations: reference residue and ungapped reference position")
				verifAssert(len(mu.Alt) == 1 && mu.Alt[0] == c[j], "ListMutations: alternative residue")
			}
			k++
		}
		pos++
	}
	flush()
	verifAssert(len(muts) == k, "ListMutations: nothing else is listed")
	verifAssert(len(muts2) == len(muts), "ListMutations: same answer twice (size)")
	for x := range muts {
		if x < len(muts2) {
			verifAssert(muts[x].Ref == muts2[x].Ref && muts[x].Pos == muts2[x].Pos && len(muts[x].Alt) == len(muts2[x].Alt), "ListMutations: same answer twice")
		}
	}
}

// H_C14_refmut: NumMutationsComparedToReferenceSequence and ListMutationsComparedToReferenceSequence (nucleotide-wise mode) against a chosen reference row.
// bounds: n<=2 rows, L<=3 columns; nucleotides: upper-case IUPAC codes and '-'; amino acids: printable ASCII without lower-case letters, '.', '*'; reference and compared row any pair (also the same row)
// outside: L>3; lower-case residues, U, X . * in nucleotide sequences (compatibility of non-IUPAC symbols not documented); codon-wise list (aa=true)
func H_C14_refmut() { vfC14RefMut(2, 3) }

// H_C14_refmut_len: sequences of different lengths are an error for both functions.
// bounds: two sequences of lengths 0..2, upper-case IUPAC residues, both alphabets
// outside: longer sequences
func H_C14_refmut_len() {
	alphabet := vfC14Alphabet()
	l1 := nondetRange(0, 2)
	l2 := nondetRange(0, 2)
	mk := func(l int) *seq {
		s := make([]uint8, l)
		for j := range s {
			s[j] = nondetByte()
			assume(vfC14IupacUpper(s[j]))
		}
		return NewSequence("s", s, "")
	}
	a, b := mk(l1), mk(l2)
	_, e1 := a.NumMutationsComparedToReferenceSequence(alphabet, b)
	_, e2 := a.ListMutationsComparedToReferenceSequence(alphabet, b, false)
	verifReach("len")
	if l1 != l2 {
		verifReach("different lengths")
		verifAssert(e1 != nil && e2 != nil, "different lengths are an error")
	} else {
		verifAssert(e1 == nil && e2 == nil, "same length accepted")
	}
}

// H_C14_compatible: EqualOrCompatible on IUPAC bit codes: equal or sharing a nucleotide; codes above 15 are an error.
// bounds: both codes any byte
// outside: nothing
func H_C14_compatible() {
	a, b := nondetByte(), nondetByte()
	ok, err := EqualOrCompatible(a, b)
	ok2, err2 := EqualOrCompatible(a, b)
	verifReach("compat")
	verifAssert(ok == ok2 && (err == nil) == (err2 == nil), "same answer twice")
	if a > 15 || b > 15 {
		verifReach("bad code")
		verifAssert(err != nil, "a code that is no IUPAC set is an error")
		return
	}
	verifAssert(err == nil, "valid codes accepted")
	verifAssert(ok == (a == b || a&b != 0), "compatible iff equal or sharing a nucleotide")
	okr, _ := EqualOrCompatible(b, a)
	verifAssert(ok == okr, "symmetric")
}
