//go:build verif

package align

import "math"

// C14 — column statistics and consensus match their definitions and are deterministic.
//
// All reference models below are naive loops over the original residues, written from the
// documentation of the public interface (align.Alignment / align.SeqBag / align.Sequence) and
// the property statement. Oracle caveats (DESIGN.md, C14): (a) the count profile is only
// checked on residues without lower-case letters; (b) AvgAllelesPerSite is not checked when
// every column is gap-only; (c) the tie rule of MaxCharStats/Consensus is free, only
// agreement of two evaluations is demanded. Statistics whose documentation does not say that
// case is folded (entropy, variable/informative sites, alleles, unique residues, mutations)
// are checked on residues without lower-case letters only.

func vfC14Print(c uint8) bool   { return c >= 0x21 && c <= 0x7e }
func vfC14NoLower(c uint8) bool { return c >= 0x21 && c <= 0x7e && !(c >= 'a' && c <= 'z') }

// vfC14Plain: printable, no lower case, and none of the special symbols '.' and '*' whose
// treatment differs between the statistics and is not documented uniformly.
func vfC14Plain(c uint8) bool { return vfC14NoLower(c) && c != '.' && c != '*' }

func vfC14Upper(c uint8) uint8 {
	if c >= 'a' && c <= 'z' {
		return c - 32
	}
	return c
}

func vfC14Wild(alphabet int) uint8 {
	if alphabet == AMINOACIDS {
		return 'X'
	}
	return 'N'
}

func vfC14Alphabet() int {
	if nondetRange(0, 1) == 0 {
		return AMINOACIDS
	}
	return NUCLEOTIDS
}

// ---------------------------------------------------------------------------------------
// character counts

func vfC14SameIntMap(a, b map[uint8]int) bool {
	if len(a) != len(b) {
		return false
	}
	ok := true
	for k, v := range a {
		w, in := b[k]
		ok = ok && in && w == v
	}
	return ok
}

// vfC14EnumAlign builds an n x L alignment whose residues are enumerated (one path per
// content) over the concrete set alpha. Used for the statistics that are implemented with
// tables indexed by the character (130 entries, scanned entry by entry): with symbolic bytes
// the engine would need one path per set of occurring characters and 130-way ite cells.
func vfC14EnumAlign(alphabet, n, L int, alpha []uint8) (*align, [][]uint8) {
	names := []string{"s0", "s1", "s2", "s3", "s4", "s5", "s6", "s7"}
	al := NewAlign(alphabet)
	orig := make([][]uint8, n)
	for i := 0; i < n; i++ {
		s := make([]uint8, L)
		orig[i] = make([]uint8, L)
		for j := range s {
			s[j] = alpha[nondetRange(0, len(alpha)-1)]
			orig[i][j] = s[j]
		}
		if err := al.AddSequenceChar(names[i], s, ""); err != nil {
			panic("harness: cannot build alignment: " + err.Error())
		}
	}
	return al, orig
}

func vfC14CharStats(nmax, lmax int, alpha []uint8) {
	n := nondetRange(1, nmax)
	L := nondetRange(1, lmax)
	al, orig := vfC14EnumAlign(NUCLEOTIDS, n, L, alpha)

	// whole alignment
	cs := al.CharStats()
	verifReach("charstats")
	var sum int64
	for _, v := range cs {
		verifAssert(v > 0, "CharStats: only characters that occur")
		sum += v
	}
	verifAssert(sum == int64(n*L), "CharStats: counts sum to the number of residues")
	for i := 0; i < n; i++ {
		for j := 0; j < L; j++ {
			u := vfC14Upper(orig[i][j])
			want := 0
			for i2 := 0; i2 < n; i2++ {
				for j2 := 0; j2 < L; j2++ {
					if vfC14Upper(orig[i2][j2]) == u {
						want++
					}
				}
			}
			verifAssert(cs[u] == int64(want), "CharStats: case-folded count of every character")
		}
	}
	cs2 := al.CharStats()
	verifAssert(len(cs) == len(cs2), "CharStats: same answer twice (size)")
	for k, v := range cs {
		verifAssert(cs2[k] == v, "CharStats: same answer twice")
	}

	// distinct characters
	uc := al.UniqueCharacters()
	for i := 0; i < n; i++ {
		for j := 0; j < L; j++ {
			u := vfC14Upper(orig[i][j])
			cnt := 0
			for _, c := range uc {
				if c == u {
					cnt++
				}
			}
			verifAssert(cnt == 1, "UniqueCharacters: every (case-folded) character listed once")
		}
	}
	for _, c := range uc {
		found := false
		for i := 0; i < n; i++ {
			for j := 0; j < L; j++ {
				if vfC14Upper(orig[i][j]) == c {
					found = true
				}
			}
		}
		verifAssert(found, "UniqueCharacters: only characters that occur")
	}
	uc2 := al.UniqueCharacters()
	verifAssert(len(uc) == len(uc2), "UniqueCharacters: same answer twice (size)")
	for k := range uc {
		verifAssert(k < len(uc2) && uc[k] == uc2[k], "UniqueCharacters: same answer twice")
	}
}

func vfC14CharStatsSeqSite(nmax, lmax int) {
	n := nondetRange(1, nmax)
	L := nondetRange(1, lmax)
	al, orig := vfSymAlign(NUCLEOTIDS, n, L, vfC14Print)

	// one sequence
	idx := nondetInt()
	ms, err := al.CharStatsSeq(idx)
	if idx < 0 || idx >= n {
		verifReach("sequence index outside")
		verifAssert(err != nil, "CharStatsSeq: index outside the alignment is an error")
	} else {
		verifReach("sequence index inside")
		verifAssert(err == nil, "CharStatsSeq: valid index accepted")
		ms2, _ := al.CharStatsSeq(idx)
		verifAssert(vfC14SameIntMap(ms, ms2), "CharStatsSeq: same answer twice")
		for i := 0; i < n; i++ {
			if idx != i {
				continue
			}
			s := 0
			for _, v := range ms {
				verifAssert(v > 0, "CharStatsSeq: only characters that occur")
				s += v
			}
			verifAssert(s == L, "CharStatsSeq: counts sum to the length")
			for j := 0; j < L; j++ {
				u := vfC14Upper(orig[i][j])
				want := 0
				for j2 := 0; j2 < L; j2++ {
					if vfC14Upper(orig[i][j2]) == u {
						want++
					}
				}
				verifAssert(ms[u] == want, "CharStatsSeq: case-folded count of every character of the row")
			}
		}
	}

	// one site
	site := nondetInt()
	mc, err := al.CharStatsSite(site)
	if site < 0 || site >= L {
		verifReach("site outside")
		verifAssert(err != nil, "CharStatsSite: site outside the alignment is an error")
	} else {
		verifReach("site inside")
		verifAssert(err == nil, "CharStatsSite: valid site accepted")
		mc2, _ := al.CharStatsSite(site)
		verifAssert(vfC14SameIntMap(mc, mc2), "CharStatsSite: same answer twice")
		for j := 0; j < L; j++ {
			if site != j {
				continue
			}
			s := 0
			for _, v := range mc {
				verifAssert(v > 0, "CharStatsSite: only characters that occur")
				s += v
			}
			verifAssert(s == n, "CharStatsSite: counts sum to the number of rows")
			for i := 0; i < n; i++ {
				u := vfC14Upper(orig[i][j])
				want := 0
				for i2 := 0; i2 < n; i2++ {
					if vfC14Upper(orig[i2][j]) == u {
						want++
					}
				}
				verifAssert(mc[u] == want, "CharStatsSite: case-folded count of every character of the column")
			}
		}
	}
}

// H_C14_charstats: CharStats and UniqueCharacters are the case-folded counts / distinct characters of the whole alignment; same answer twice.
// bounds: n<=2 rows, L<=2 columns, every content over the residues {A,a,c,N,-,~} (mixed case; ~ is the highest printable byte), enumerated
// outside: n>2, L>2, other residues, bytes >= 0x80 (the count tables have 130 entries)
func H_C14_charstats() { vfC14CharStats(2, 2, []uint8{'A', 'a', 'c', 'N', '-', '~'}) }

// H_C14_charstats_deep: as H_C14_charstats, deeper.
// bounds: n<=3 rows, L<=2 columns, every content over {A,a,c,-,~}
// outside: n>3, L>2
//verif: tier=thorough
func H_C14_charstats_deep() { vfC14CharStats(3, 2, []uint8{'A', 'a', 'c', '-', '~'}) }

// H_C14_charstats_seq_site: CharStatsSeq and CharStatsSite are the case-folded counts of one row / one column; an index outside is an error, never a panic; same answer twice.
// bounds: n<=2 rows, L<=2 columns, residues any printable ASCII byte (mixed case), sequence and site index any 64-bit int
// outside: n>2, L>2, bytes >= 0x80
func H_C14_charstats_seq_site() { vfC14CharStatsSeqSite(2, 2) }

// H_C14_charstats_seq_site_deep: as H_C14_charstats_seq_site, deeper.
// bounds: n<=3 rows, L<=3 columns
// outside: n>3, L>3
//verif: tier=thorough
func H_C14_charstats_seq_site_deep() { vfC14CharStatsSeqSite(3, 3) }

// vfC14CheckProfile: p must hold, for every residue and every site, the number of rows with that residue at that site.
func vfC14CheckProfile(p *CountProfile, orig [][]uint8, n, L int) {
	verifAssert(p.CheckLength(L), "profile has the alignment length")
	distinct := 0
	for i := 0; i < n; i++ {
		for j := 0; j < L; j++ {
			r := orig[i][j]
			// first occurrence in row-major order?
			seen := false
			for i2 := 0; i2 < n; i2++ {
				for j2 := 0; j2 < L; j2++ {
					if (i2 < i || (i2 == i && j2 < j)) && orig[i2][j2] == r {
						seen = true
					}
				}
			}
			if !seen {
				distinct++
			}
			for s := 0; s < L; s++ {
				want := 0
				for i2 := 0; i2 < n; i2++ {
					if orig[i2][s] == r {
						want++
					}
				}
				got, err := p.Count(r, s)
				verifAssert(err == nil, "profile knows every residue of the alignment")
				verifAssert(got == want, "profile count = number of rows with that residue at that site")
			}
		}
	}
	verifAssert(p.NbCharacters() == distinct, "profile has one entry per distinct residue")
}

// H_C14_profile: NewCountProfileFromAlignment holds the per-site count of every residue; a site outside is an error, never a panic.
// bounds: n<=2 rows, L<=2 columns, every content over the residues {A,N,-,*,~} (no lower-case letters, caveat a), enumerated; site any 64-bit int
// outside: other residues; lower-case residues (documentation silent on case folding of profiles: open question, not asserted); bytes >= 0x80
func H_C14_profile() {
	n := nondetRange(1, 2)
	L := nondetRange(1, 2)
	al, orig := vfC14EnumAlign(NUCLEOTIDS, n, L, []uint8{'A', 'N', '-', '*', '~'})
	p := NewCountProfileFromAlignment(al)
	verifReach("profile")
	vfC14CheckProfile(p, orig, n, L)
	site := nondetInt()
	c, err := p.Count(orig[0][0], site)
	if site < 0 || site >= L {
		verifReach("site outside")
		verifAssert(err != nil, "profile: site outside is an error")
	} else {
		verifAssert(err == nil && c >= 0, "profile: site inside accepted")
	}
	p2 := NewCountProfileFromAlignment(al)
	vfC14CheckProfile(p2, orig, n, L)
}

// most frequent case-folded character among the characters not excluded. Any of several
// equally frequent characters is accepted (caveat c).
func vfC14CheckMajority(out []uint8, occur, total []int, orig [][]uint8, n, L, alphabet int, ignoreGaps, ignoreNs bool) {
	wild := vfC14Wild(alphabet)
	verifAssert(len(out) == L, "one majority character per site")
	if occur != nil {
		verifAssert(len(occur) == L && len(total) == L, "one count per site")
	}
	for j := 0; j < L; j++ {
		kept := 0
		max := 0
		allSame := true
		for i := 0; i < n; i++ {
			u := vfC14Upper(orig[i][j])
			if u != vfC14Upper(orig[0][j]) {
				allSame = false
			}
			excl := (ignoreGaps && u == '-') || (ignoreNs && u == wild)
			if excl {
				continue
			}
			kept++
			cnt := 0
			for i2 := 0; i2 < n; i2++ {
				if vfC14Upper(orig[i2][j]) == u {
					cnt++
				}
			}
			if cnt > max {
				max = cnt
			}
		}
		if kept > 0 {
			verifReach("majority among kept characters")
			// out[j] must be a kept character with max occurrences
			isMax := false
			for i := 0; i < n; i++ {
				u := vfC14Upper(orig[i][j])
				excl := (ignoreGaps && u == '-') || (ignoreNs && u == wild)
				cnt := 0
				for i2 := 0; i2 < n; i2++ {
					if vfC14Upper(orig[i2][j]) == u {
						cnt++
					}
				}
				if !excl && cnt == max && out[j] == u {
					isMax = true
				}
			}
			verifAssert(isMax, "majority character is a most frequent character among those not excluded")
			if occur != nil {
				verifAssert(occur[j] == max, "occur is the count of the majority character")
				verifAssert(total[j] == kept, "total is the number of residues taken into account")
			}
		} else if allSame {
			verifReach("fallback to the only kind present")
			verifAssert(out[j] == vfC14Upper(orig[0][j]), "only gaps / only Ns: falls back to that character")
			if occur != nil {
				verifAssert(occur[j] == n, "fallback: occur is the count of that character")
			}
		}
		// all residues excluded but of two kinds (gaps and Ns): nothing is stated
	}
}

// H_C14_maxchar_def: MaxCharStats and Consensus return a most frequent non-excluded character with its count, under every map iteration order.
// bounds: (n<=3 rows, L=1 column) or (n<=2 rows, L=2 columns), residues printable ASCII (mixed case), both alphabets, the 4 combinations of ignoreGaps/ignoreNs
// outside: larger shapes; columns whose residues are all excluded but of two kinds (gap and N): nothing is stated, nothing asserted
//verif: maporder=1
func H_C14_maxchar_def() {
	n, L := 0, 1
	if nondetRange(0, 1) == 0 {
		n = nondetRange(1, 3)
	} else {
		n = nondetRange(1, 2)
		L = 2
	}
	alphabet := vfC14Alphabet()
	ig := nondetRange(0, 1) == 1
	in := nondetRange(0, 1) == 1
	al, orig := vfSymAlign(alphabet, n, L, vfC14Print)
	out, occur, total := al.MaxCharStats(ig, in)
	cons := al.Consensus(ig, in)
	verifMapOrder(false)
	verifReach("maxchar")
	vfC14CheckMajority(out, occur, total, orig, n, L, alphabet, ig, in)
	verifAssert(cons.NbSequences() == 1 && cons.Length() == L, "consensus is one sequence of the alignment length")
	verifAssert(cons.Alphabet() == alphabet, "consensus keeps the alphabet")
	cs, _ := cons.GetSequenceCharById(0)
	vfC14CheckMajority(cs, nil, nil, orig, n, L, alphabet, ig, in)
	for i := 0; i < n; i++ {
		got, _ := al.GetSequenceCharById(i)
		for j := 0; j < L; j++ {
			verifAssert(got[j] == orig[i][j], "alignment not modified")
		}
	}
}

func vfC14MaxCharDet(nmax, lmax int) {
	n := nondetRange(1, nmax)
	L := nondetRange(1, lmax)
	alphabet := vfC14Alphabet()
	ig := nondetRange(0, 1) == 1
	in := nondetRange(0, 1) == 1
	al, _ := vfSymAlign(alphabet, n, L, vfC14Print)
	out1, occ1, tot1 := al.MaxCharStats(ig, in)
	out2, occ2, tot2 := al.MaxCharStats(ig, in)
	verifMapOrder(false)
	verifReach("twice")
	for j := 0; j < L; j++ {
		verifAssert(occ1[j] == occ2[j], "MaxCharStats: same count twice")
		verifAssert(tot1[j] == tot2[j], "MaxCharStats: same total twice")
		verifAssert(out1[j] == out2[j], "MaxCharStats: same character twice (ties broken the same way every time)")
	}
}

// H_C14_maxchar_det: two evaluations of MaxCharStats on the same alignment agree (map iteration orders explored independently).
// bounds: n<=3 rows, L=1 column, residues printable ASCII, both alphabets, 4 option combinations
// outside: n>3, L>1
//verif: maporder=1
func H_C14_maxchar_det() { vfC14MaxCharDet(3, 1) }

// H_C14_consensus_det: two evaluations of Consensus on the same alignment give the same sequence.
// bounds: n<=2 rows, L<=2 columns, residues printable ASCII, both alphabets, 4 option combinations
// outside: n>2, L>2
//verif: maporder=1
func H_C14_consensus_det() {
	n := nondetRange(1, 2)
	L := nondetRange(1, 2)
	alphabet := vfC14Alphabet()
	ig := nondetRange(0, 1) == 1
	in := nondetRange(0, 1) == 1
	al, _ := vfSymAlign(alphabet, n, L, vfC14Print)
	c1 := al.Consensus(ig, in)
	c2 := al.Consensus(ig, in)
	verifMapOrder(false)
	verifReach("twice")
	s1, _ := c1.GetSequenceCharById(0)
	s2, _ := c2.GetSequenceCharById(0)
	verifAssert(len(s1) == L && len(s2) == L, "consensus length")
	for j := 0; j < L; j++ {
		verifAssert(s1[j] == s2[j], "Consensus: same sequence twice (ties broken the same way every time)")
	}
}

// ---------------------------------------------------------------------------------------
// entropy

// vfC14Conc returns x. Under the engine a symbolic x is enumerated over its feasible values
// (allocation size), so that the floating-point oracle works on concrete counts.
func vfC14Conc(x int) int { return len(make([]uint8, x)) }

func vfC14EntropyCounted(c uint8, removegaps bool) bool {
	return c != '*' && c != '.' && (!removegaps || c != '-')
}

// vfC14EntropyTotal: number of residues of column j that are counted ('.' and '*' never,
// '-' not when removegaps).
func vfC14EntropyTotal(orig [][]uint8, n, j int, removegaps bool) int {
	total := 0
	for i := 0; i < n; i++ {
		if vfC14EntropyCounted(orig[i][j], removegaps) {
			total++
		}
	}
	return total
}

// vfC14RefEntropy: -sum p ln p over the distinct counted residues of column j, by the
// documented formula (natural log). total must be > 0.
func vfC14RefEntropy(orig [][]uint8, n, j int, removegaps bool) float64 {
	total := vfC14Conc(vfC14EntropyTotal(orig, n, j, removegaps))
	h := 0.0
	for i := 0; i < n; i++ {
		c := orig[i][j]
		first := true
		for i2 := 0; i2 < i; i2++ {
			if orig[i2][j] == c {
				first = false
			}
		}
		cnt := 0
		for i2 := 0; i2 < n; i2++ {
			if orig[i2][j] == c {
				cnt++
			}
		}
		if first && vfC14EntropyCounted(c, removegaps) {
			p := float64(vfC14Conc(cnt)) / float64(total)
			h -= p * math.Log(p)
		}
	}
	return h
}

// H_C14_entropy_index: Entropy with a site index outside [0,L) is an error, never a panic.
// bounds: n<=2 rows, L<=2 columns, residues printable ASCII, site any 64-bit int, removegaps any
// outside: n>2, L>2
func H_C14_entropy_index() {
	n := nondetRange(1, 2)
	L := nondetRange(1, 2)
	al, _ := vfSymAlign(NUCLEOTIDS, n, L, vfC14Print)
	site := nondetInt()
	rg := nondetBool()
	_, err := al.Entropy(site, rg)
	verifReach("called")
	if site < 0 || site >= L {
		verifReach("site outside")
		verifAssert(err != nil, "Entropy: site outside the alignment is an error")
	} else {
		verifAssert(err == nil, "Entropy: valid site accepted")
	}
}

func vfC14Entropy(nmin, nmax, lmax int) {
	n := nondetRange(nmin, nmax)
	L := nondetRange(1, lmax)
	al, orig := vfSymAlign(NUCLEOTIDS, n, L, vfC14NoLower)
	site := nondetRange(0, L-1)
	rg := nondetRange(0, 1) == 1
	total := vfC14EntropyTotal(orig, n, site, rg)
	assume(total > 0) // no counted residue: no entropy (0/0), nothing asserted
	h1, err1 := al.Entropy(site, rg)
	h2, err2 := al.Entropy(site, rg)
	verifMapOrder(false)
	verifReach("entropy")
	verifAssert(err1 == nil && err2 == nil, "Entropy: valid site accepted")
	verifAssert(h1 == h2, "Entropy: same answer twice")
	want := vfC14RefEntropy(orig, n, site, rg)
	verifAssert(h1 == want, "Entropy: equals -sum p ln p over the counted residues")
	same := true
	for i := 1; i < n; i++ {
		if orig[i][site] != orig[0][site] {
			same = false
		}
	}
	if same {
		verifReach("constant column")
		verifAssert(h1 == 0, "Entropy: a constant column has entropy 0")
	}
}

// H_C14_entropy: Entropy(site, removegaps) = -sum p ln p over the residues of the column (ln uninterpreted), same answer twice under independent map iteration orders.
// bounds: n<=3 rows, L<=2 columns, residues printable ASCII without lower-case letters, all sites in [0,L), removegaps any; columns with at least one counted residue
// outside: IEEE rounding (exact real arithmetic, order of summation irrelevant), lower-case residues (case folding of entropy not documented), columns made only of - . * (0/0)
//verif: maporder=1
func H_C14_entropy() { vfC14Entropy(1, 3, 2) }

// H_C14_entropy_deep: as H_C14_entropy with 4 rows.
// bounds: n=4 rows, L<=2; columns with at least one counted residue
// outside: n>4
//verif: maporder=1 tier=thorough
func H_C14_entropy_deep() { vfC14Entropy(4, 4, 2) }

// ---------------------------------------------------------------------------------------
// variable sites, informative sites, alleles

// vfC14ColumnCounts: number of distinct non-gap characters of column j, and number of
// characters other than gap and the wildcard that occur at least twice.
func vfC14ColumnCounts(orig [][]uint8, n, j int, wild uint8) (distinct, twice int) {
	for i := 0; i < n; i++ {
		c := orig[i][j]
		if c == '-' {
			continue
		}
		first := true
		for i2 := 0; i2 < i; i2++ {
			if orig[i2][j] == c {
				first = false
			}
		}
		if !first {
			continue
		}
		distinct++
		cnt := 0
		for i2 := 0; i2 < n; i2++ {
			if orig[i2][j] == c {
				cnt++
			}
		}
		if c != wild && cnt >= 2 {
			twice++
		}
	}
	return
}

func vfC14Variable(nmax, lmax int) {
	n := nondetRange(1, nmax)
	L := nondetRange(1, lmax)
	al, orig := vfSymAlign(NUCLEOTIDS, n, L, vfC14Plain)
	nvar := al.NbVariableSites()
	nvar2 := al.NbVariableSites()
	avg := al.AvgAllelesPerSite()
	avg2 := al.AvgAllelesPerSite()
	verifReach("measures")
	wantVar, alleles, nongap := 0, 0, 0
	for j := 0; j < L; j++ {
		d, _ := vfC14ColumnCounts(orig, n, j, 'N')
		if d > 1 {
			wantVar++
		}
		if d > 0 {
			nongap++
		}
		alleles += d
	}
	verifAssert(nvar == wantVar, "NbVariableSites: sites with more than one distinct non-gap character")
	verifAssert(nvar2 == nvar, "NbVariableSites: same answer twice")
	alleles, nongap = vfC14Conc(alleles), vfC14Conc(nongap)
	if nongap > 0 {
		verifReach("alleles")
		verifAssert(avg == float64(alleles)/float64(nongap), "AvgAllelesPerSite: mean number of distinct non-gap characters over the sites that are not gap-only")
		verifAssert(avg2 == avg, "AvgAllelesPerSite: same answer twice")
	}
}

// H_C14_variable_alleles: NbVariableSites and AvgAllelesPerSite equal their naive definitions; same answer twice.
// bounds: n<=3 rows, L<=2 columns, residues printable ASCII except lower-case letters, '.', '*'
// outside: n>3, L>2; lower-case residues and . * (treatment not documented uniformly); alignments whose every column is gap-only for AvgAllelesPerSite (0/0, caveat b); IEEE rounding
func H_C14_variable_alleles() { vfC14Variable(3, 2) }

// H_C14_variable_alleles_deep: as H_C14_variable_alleles, deeper.
// bounds: n<=4 rows, L<=2 columns
// outside: n>4
//verif: tier=thorough
func H_C14_variable_alleles_deep() { vfC14Variable(4, 2) }

func vfC14Informative(n, L int, alphabet int, alpha []uint8) {
	al, orig := vfC14EnumAlign(alphabet, n, L, alpha)
	inf := al.InformativeSites()
	inf2 := al.InformativeSites()
	verifReach("informative")
	k := 0
	for j := 0; j < L; j++ {
		_, twice := vfC14ColumnCounts(orig, n, j, vfC14Wild(alphabet))
		if twice >= 2 {
			verifReach("informative site")
			verifAssert(k < len(inf) && inf[k] == j, "InformativeSites: every site with two characters occurring twice, in order")
			k++
		}
	}
	verifAssert(len(inf) == k, "InformativeSites: nothing but informative sites")
	verifAssert(len(inf2) == len(inf), "InformativeSites: same answer twice (size)")
	for x := range inf {
		verifAssert(x < len(inf2) && inf[x] == inf2[x], "InformativeSites: same answer twice")
	}
}

// H_C14_informative: InformativeSites lists exactly the sites with at least two characters (gap and the alphabet's wildcard N/X excepted) that occur at least twice.
// bounds: every content enumerated for: nucleotides n in 4..5 rows, L=1 over {A,C,N,-}; amino acids n=4, L=1 over {A,N,X,-} (N is asparagine there); nucleotides n=4, L=2 over {A,C}
// outside: other shapes and residues; X in nucleotide alignments ("X, N and gaps are not considered": not stated per alphabet); lower-case residues, '.', '*'
func H_C14_informative() {
	switch nondetRange(0, 2) {
	case 0:
		vfC14Informative(nondetRange(4, 5), 1, NUCLEOTIDS, []uint8{'A', 'C', 'N', '-'})
	case 1:
		vfC14Informative(4, 1, AMINOACIDS, []uint8{'A', 'N', 'X', '-'})
	case 2:
		vfC14Informative(4, 2, NUCLEOTIDS, []uint8{'A', 'C'})
	}
}

// H_C14_informative_deep: as H_C14_informative, larger contents.
// bounds: every content enumerated for: nucleotides n=6, L=1 over {A,C,G,N,-}; amino acids n=5, L=1 over {A,C,N,X,-}; nucleotides n=4, L=2 over {A,C,-}
// outside: other shapes and residues
//verif: tier=thorough
func H_C14_informative_deep() {
	switch nondetRange(0, 2) {
	case 0:
		vfC14Informative(6, 1, NUCLEOTIDS, []uint8{'A', 'C', 'G', 'N', '-'})
	case 1:
		vfC14Informative(5, 1, AMINOACIDS, []uint8{'A', 'C', 'N', 'X', '-'})
	case 2:
		vfC14Informative(4, 2, NUCLEOTIDS, []uint8{'A', 'C', '-'})
	}
}

// ---------------------------------------------------------------------------------------
// PSSM

func vfC14Pssm(nmax, lmax, cells int) {
	n := nondetRange(1, nmax)
	L := nondetRange(1, lmax)
	assume(n*L <= cells)
	al, orig := vfSymAlign(NUCLEOTIDS, n, L, vfC14Print)
	norm := PSSM_NORM_NONE
	switch nondetRange(0, 3) {
	case 1:
		norm = PSSM_NORM_FREQ
	case 2:
		norm = PSSM_NORM_UNIF
	case 3:
		norm = nondetInt()
		assume(norm < 0 || norm > 4)
		assume(n*L == 1) // the error does not depend on the alignment
	}
	lg := nondetRange(0, 1) == 1
	// pseudo-count: any k/4 (k in 0..8) for plain counts (linear); 0 or 0.75 otherwise
	var pc float64
	if norm == PSSM_NORM_NONE && !lg {
		pc = nondetDyadic(4, 0, 8)
	} else if lg {
		pc = 0.75 // log2(0) is outside the claim
	} else {
		pc = float64(nondetRange(0, 1)) * 0.75
	}
	m1, err1 := al.Pssm(lg, pc, norm)
	m2, err2 := al.Pssm(lg, pc, norm)
	verifReach("pssm")
	if norm < 0 || norm > 4 {
		verifReach("unknown normalisation")
		verifAssert(err1 != nil && err2 != nil, "Pssm: unknown normalisation is an error")
		return
	}
	verifAssert(err1 == nil && err2 == nil, "Pssm: no error")
	letters := []uint8{'A', 'C', 'G', 'T'}
	verifAssert(len(m1) == 4 && len(m2) == 4, "Pssm: one row per letter of the alphabet")
	for _, c := range letters {
		r1, in1 := m1[c]
		r2, in2 := m2[c]
		verifAssert(in1 && in2 && len(r1) == L && len(r2) == L, "Pssm: one value per site")
		for j := 0; j < L; j++ {
			cnt := 0
			for i := 0; i < n; i++ {
				if vfC14Upper(orig[i][j]) == c {
					cnt++
				}
			}
			cnt = vfC14Conc(cnt)
			want := float64(cnt) + pc
			switch norm {
			case PSSM_NORM_FREQ:
				want = want / (float64(n) + 4*pc)
			case PSSM_NORM_UNIF:
				want = want / (float64(n) + 4*pc) / (1.0 / 4.0)
			}
			if lg {
				want = math.Log(want) / math.Log(2)
			}
			verifAssert(r1[j] == r2[j], "Pssm: same answer twice")
			verifAssert(r1[j] == want, "Pssm: (count+pseudocount), frequency- or uniform-normalised, optionally log2")
		}
	}
}

// H_C14_pssm: Pssm columns are the case-folded counts plus pseudo-count, normalised (none / site frequency / uniform), optionally log2 (ln uninterpreted); unknown normalisation is an error.
// bounds: nucleotide alignment with n<=2 rows, L<=2 columns, at most 2 residues in all, residues printable ASCII (mixed case); normalisation NONE/FREQ/UNIF, or any int outside 0..4 (1x1 alignment); pseudo-count any k/4 (k in 0..8) for plain counts, 0 or 0.75 otherwise (0.75 with log)
// outside: IEEE rounding (exact real arithmetic); DATA and LOGO normalisations; amino-acid alignments; log of a zero count; other pseudo-counts; map iteration orders (every value is computed independently of the others)
func H_C14_pssm() { vfC14Pssm(2, 2, 2) }

// H_C14_pssm_deep: as H_C14_pssm with up to 2x2 and 3x1 residues.
// bounds: n<=3 rows, L<=2 columns, at most 4 residues in all
// outside: larger alignments
//verif: tier=thorough
func H_C14_pssm_deep() { vfC14Pssm(3, 2, 4) }
