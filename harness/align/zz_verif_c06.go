//go:build verif

package align

// C06 — strand, case and un-align transforms are exact and reversible.

// H_C06_revcomp: ReverseComplement reverses every row and complements every residue.
// bounds: rows n<=2, columns L<=5, residues = any IUPAC DNA code in both cases or - . * (U excluded)
// outside: L>5, n>2, RNA U (complement of U is A by design; checked in H_C06_revcomp_u)
func H_C06_revcomp() {
	vfC06Revcomp(2, 5)
	verifReach("completed")
}

// H_C06_revcomp_deep: as H_C06_revcomp on larger alignments.
// bounds: rows n<=3, columns L<=9, residues as H_C06_revcomp
//verif: tier=thorough
func H_C06_revcomp_deep() {
	vfC06Revcomp(3, 9)
	verifReach("completed")
}

func vfC06Revcomp(maxN, maxL int) {
	n := nondetRange(1, maxN)
	L := nondetRange(1, maxL)
	al, orig := vfSymAlign(NUCLEOTIDS, n, L, func(c uint8) bool { return vfIsIupacDNA(c, false) })
	err := al.ReverseComplement()
	verifReach("revcomp")
	verifAssert(err == nil, "no error on the DNA alphabet")
	verifAssert(al.NbSequences() == n && al.Length() == L, "shape preserved")
	for i := 0; i < n; i++ {
		got, _ := al.GetSequenceCharById(i)
		name, _ := al.GetSequenceNameById(i)
		verifAssert(name == vfNames[i], "names and order unchanged")
		verifAssert(len(got) == L, "row length preserved")
		for j := 0; j < L; j++ {
			verifAssert(got[j] == vfRefComplement(orig[i][L-1-j]), "residue is the IUPAC complement of the mirrored residue")
		}
	}
}

// H_C06_revcomp_involution: applying ReverseComplement twice restores the original.
// bounds: rows n<=2, columns L<=7 (thorough), L<=5 (quick); IUPAC DNA both cases and - . *, U excluded
func H_C06_revcomp_involution() {
	vfC06Involution(2, 5)
	verifReach("completed")
}

// H_C06_revcomp_involution_deep: as H_C06_revcomp_involution on larger alignments.
// bounds: rows n<=3, columns L<=9
//verif: tier=thorough
func H_C06_revcomp_involution_deep() {
	vfC06Involution(3, 9)
	verifReach("completed")
}

func vfC06Involution(maxN, maxL int) {
	n := nondetRange(1, maxN)
	L := nondetRange(0, maxL)
	al, orig := vfSymAlign(NUCLEOTIDS, n, L, func(c uint8) bool { return vfIsIupacDNA(c, false) })
	verifAssert(al.ReverseComplement() == nil, "no error")
	verifAssert(al.ReverseComplement() == nil, "no error twice")
	verifReach("involution")
	for i := 0; i < n; i++ {
		got, _ := al.GetSequenceCharById(i)
		for j := 0; j < L; j++ {
			verifAssert(got[j] == orig[i][j], "revcomp twice is the identity")
		}
	}
}

// H_C06_revcomp_u: RNA U complements to A (case preserved) and everything else as for DNA.
// bounds: 1 row, L<=3, residues IUPAC incl. U/u
func H_C06_revcomp_u() {
	L := nondetRange(1, 3)
	al, orig := vfSymAlign(NUCLEOTIDS, 1, L, func(c uint8) bool { return vfIsIupacDNA(c, true) })
	verifAssert(al.ReverseComplement() == nil, "no error with U")
	verifReach("u")
	got, _ := al.GetSequenceCharById(0)
	for j := 0; j < L; j++ {
		verifAssert(got[j] == vfRefComplement(orig[0][L-1-j]), "complement with U")
	}
}

// H_C06_revcomp_subset: ReverseComplementSequences touches exactly the named rows, in whatever order they are named and wherever unknown names stand in the list.
// bounds: n=3 rows, L<=3, names = any of the 8 subsets listed in any of the 6 row orders, with an unknown name inserted at any position of the list (or not at all)
func H_C06_revcomp_subset() {
	n := 3
	L := nondetRange(1, 3)
	al, orig := vfSymAlign(NUCLEOTIDS, n, L, func(c uint8) bool { return vfIsIupacDNA(c, false) })
	perms := [6][3]int{{0, 1, 2}, {0, 2, 1}, {1, 0, 2}, {1, 2, 0}, {2, 0, 1}, {2, 1, 0}}
	perm := perms[nondetRange(0, 5)]
	var names []string
	sel := make([]bool, n)
	for _, i := range perm {
		if nondetRange(0, 1) == 1 {
			sel[i] = true
			names = append(names, vfNames[i])
		}
	}
	if at := nondetRange(-1, len(names)); at >= 0 {
		verifReach("unknown name in the list")
		withUnknown := append([]string{}, names[:at]...)
		withUnknown = append(withUnknown, "unknown-name")
		names = append(withUnknown, names[at:]...)
	}
	err := al.ReverseComplementSequences(names...)
	verifReach("subset")
	verifAssert(err == nil, "no error")
	for i := 0; i < n; i++ {
		got, _ := al.GetSequenceCharById(i)
		for j := 0; j < L; j++ {
			if sel[i] {
				verifAssert(got[j] == vfRefComplement(orig[i][L-1-j]), "selected row is reverse complemented")
			} else {
				verifAssert(got[j] == orig[i][j], "other rows untouched")
			}
		}
	}
}

// H_C06_wrong_alphabet: reverse complement of a protein alignment is an error and changes nothing.
// bounds: 1 row, L<=2, arbitrary printable residues
func H_C06_wrong_alphabet() {
	L := nondetRange(1, 2)
	al, orig := vfSymAlign(AMINOACIDS, 1, L, func(c uint8) bool { return c >= 0x21 && c <= 0x7e })
	err := al.ReverseComplement()
	verifReach("wrong")
	verifAssert(err != nil, "error on protein alphabet")
	got, _ := al.GetSequenceCharById(0)
	for j := 0; j < L; j++ {
		verifAssert(got[j] == orig[0][j], "unchanged after error")
	}
}

func vfUpper(c uint8) uint8 {
	if c >= 'a' && c <= 'z' {
		return c - 32
	}
	return c
}
func vfLower(c uint8) uint8 {
	if c >= 'A' && c <= 'Z' {
		return c + 32
	}
	return c
}

// H_C06_case: ToUpper/ToLower change only letter case, are idempotent, keep gaps and length.
// bounds: n<=2, L<=4, residues any printable ASCII byte 0x21..0x7e
// outside: bytes >= 0x80
func H_C06_case() {
	vfC06Case(2, 4)
	verifReach("completed")
}

// H_C06_case_deep: as H_C06_case on larger alignments.
// bounds: n<=3, L<=7, residues any printable ASCII byte
//verif: tier=thorough
func H_C06_case_deep() {
	vfC06Case(3, 7)
	verifReach("completed")
}

func vfC06Case(maxN, maxL int) {
	n := nondetRange(1, maxN)
	L := nondetRange(1, maxL)
	up := nondetRange(0, 1) == 1
	al, orig := vfSymAlign(NUCLEOTIDS, n, L, func(c uint8) bool { return c >= 0x21 && c <= 0x7e })
	apply := func() {
		if up {
			al.ToUpper()
		} else {
			al.ToLower()
		}
	}
	apply()
	verifReach("case")
	verifAssert(al.Length() == L && al.NbSequences() == n, "shape preserved")
	first := vfSnapshot(al)
	for i := 0; i < n; i++ {
		got, _ := al.GetSequenceCharById(i)
		for j := 0; j < L; j++ {
			if up {
				verifAssert(got[j] == vfUpper(orig[i][j]), "upper-casing changes only letter case")
			} else {
				verifAssert(got[j] == vfLower(orig[i][j]), "lower-casing changes only letter case")
			}
		}
	}
	apply()
	verifAssert(vfSameSnap(first, vfSnapshot(al)), "case folding is idempotent")
}

// H_C06_unalign: Unalign removes exactly the gap characters and keeps everything else in order.
// bounds: n<=2, L<=4, residues printable ASCII
func H_C06_unalign() {
	vfC06Unalign(2, 4)
	verifReach("completed")
}

// H_C06_unalign_deep: as H_C06_unalign on larger alignments.
// bounds: n<=2, L<=7, residues printable ASCII (every gap pattern is a separate path: 2^(n*L))
//verif: tier=thorough
func H_C06_unalign_deep() {
	vfC06Unalign(2, 7)
	verifReach("completed")
}

func vfC06Unalign(maxN, maxL int) {
	n := nondetRange(1, maxN)
	L := nondetRange(1, maxL)
	al, orig := vfSymAlign(NUCLEOTIDS, n, L, func(c uint8) bool { return c >= 0x21 && c <= 0x7e })
	un := al.Unalign()
	verifReach("unalign")
	verifAssert(un.NbSequences() == n, "same number of sequences")
	for i := 0; i < n; i++ {
		got, _ := un.GetSequenceCharById(i)
		name, _ := un.GetSequenceNameById(i)
		verifAssert(name == vfNames[i], "names kept")
		// expected: orig without '-'
		k := 0
		for j := 0; j < L; j++ {
			if orig[i][j] != '-' {
				verifAssert(k < len(got) && got[k] == orig[i][j], "non-gap residues kept in order")
				k++
			}
		}
		verifAssert(k == len(got), "nothing but gaps removed")
		after, _ := al.GetSequenceCharById(i)
		for j := 0; j < L; j++ {
			verifAssert(after[j] == orig[i][j], "input alignment unchanged by Unalign")
		}
	}
}
