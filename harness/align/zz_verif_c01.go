//go:build verif

package align

// C01 — alignments stay rectangular, uniquely named and index-consistent over histories of
// operations. Reference model and generic post-state check: zz_verif_c01_model.go.
//
// Shape of every harness: a symbolic PREFIX (k insertions through AddSequenceChar with one of
// the three duplicate-name policies, names drawn from a concrete pool built to collide,
// residues symbolic), then one (or two) OPERATIONS chosen with nondetRange. The model is
// stepped alongside and c01Check runs after every single step.

// Pool built to collide: "a" twice gives a_0001 which collides with the literal "a_0001";
// " a;b " and "a:b" both clean to "a-b"; the 11-character name exercises name trimming.
var c01Pool = []string{"a", "b", "a_0001", " a;b ", "a:b", "abcdefghijk"}

// Small pool for the operations that do not look at the spelling of names.
var c01Small = []string{"a", "b", "a_0001"}

func c01Printable(c uint8) bool { return c >= 0x21 && c <= 0x7e }

// c01AC: two nucleotides are enough to reach codons whose amino acid letter is also a
// nucleotide code (AAA=K, AAC=N, ACA=T, CAC=H) and codons where it is not (CAA=Q, CCA=P).
func c01AC(c uint8) bool { return c == 'A' || c == 'C' }

// c01GenPrintable: l symbolic residues, any printable ASCII byte.
func c01GenPrintable(l int) []uint8 {
	s := make([]uint8, l)
	for j := range s {
		s[j] = nondetByte()
		assume(c01Printable(s[j]))
	}
	return s
}

// c01GenAC: nucleotide rows for Translate. The first residue is symbolic in {A,C}, the others
// are 'A' (the interpreter splits on every symbolic nucleotide it translates): the first codon
// of frame 0 is AAA=K (a letter that is also a nucleotide code) or CAA=Q (a letter that is not).
func c01GenAC(l int) []uint8 {
	s := make([]uint8, l)
	for j := range s {
		s[j] = 'A'
		if j < 1 {
			s[j] = nondetByte()
			assume(c01AC(s[j]))
		}
	}
	return s
}

// c01Lean is set by the two-step harnesses: operations then draw their arguments from the
// first few variants only.
var c01Lean bool

// c01Pick draws a variant in 0..full (0..lean in lean mode).
func c01Pick(full, lean int) int {
	if c01Lean {
		return nondetRange(0, lean)
	}
	return nondetRange(0, full)
}

// c01Insert: one AddSequenceChar step on container and model, followed by the check.
func c01Insert(sb SeqBag, m *refBag, name string, l int, gen func(int) []uint8, ctx string) (rejected bool) {
	s := gen(l)
	err := sb.AddSequenceChar(name, c01Copy(s), "")
	rejected = m.add(name, s)
	if rejected {
		verifAssert(err != nil, ctx+": a sequence of a different length is rejected with an error")
	} else {
		verifAssert(err == nil, ctx+": a valid insertion succeeds")
	}
	c01Check(sb, m, ctx)
	return
}

type c01Cfg struct {
	aligned    bool
	alphabet   int
	pool       []string
	kmin, kmax int
	lmin, lmax int
	gen        func(l int) []uint8
}

// c01Prefix builds container and model with k insertions. In an alignment all rows get the
// same length L; in a SeqBag every row draws its own length.
func c01Prefix(c c01Cfg) (SeqBag, *refBag) {
	var sb SeqBag
	if c.aligned {
		sb = NewAlign(c.alphabet)
	} else {
		sb = NewSeqBag(c.alphabet)
	}
	m := newRefBag(c.aligned, c.alphabet)
	// IGNORE_NONE, IGNORE_NAME or IGNORE_SEQUENCE; symbolic, so that the cases only split where
	// a duplicate name is actually met
	policy := nondetInt()
	assume(policy >= 0 && policy <= 2)
	sb.IgnoreIdentical(policy)
	m.policy = policy
	for _, p := range c.pool {
		m.ghost(p)
	}
	k := nondetRange(c.kmin, c.kmax)
	L := nondetRange(c.lmin, c.lmax)
	for i := 0; i < k; i++ {
		l := L
		if !c.aligned && i > 0 {
			l = nondetRange(c.lmin, c.lmax)
		}
		name := c.pool[nondetRange(0, len(c.pool)-1)]
		c01Insert(sb, m, name, l, c.gen, "prefix insertion")
	}
	return sb, m
}

// c01Other builds a second, well-formed alignment with n rows of width l: first row named by
// the pool, second row "zz".
func c01Other(alphabet, n, l int, pool []string, gen func(int) []uint8) (*align, *refBag) {
	o := NewAlign(alphabet)
	om := newRefBag(true, alphabet)
	for i := 0; i < n; i++ {
		name := "zz"
		if i == 0 {
			name = pool[nondetRange(0, len(pool)-1)]
		}
		s := gen(l)
		if err := o.AddSequenceChar(name, c01Copy(s), ""); err != nil {
			panic("harness: cannot build the second alignment")
		}
		om.add(name, s)
	}
	return o, om
}

// ------------------------------------------------------------------------------ operations

const (
	c01OpAdd = iota
	c01OpAppend
	c01OpConcat
	c01OpRename
	c01OpRenameRegexp
	c01OpAppendId
	c01OpCleanNames
	c01OpTrimNames
	c01OpTrimNamesAuto
	c01OpSort
	c01OpShuffle
	c01OpDedup
	c01OpRemoveGapSeqs
	c01OpRemoveCharSeqs
	c01OpRemoveGapSites
	c01OpTrimSeqs
	c01OpTranslate
	c01OpClone
	c01OpSample
	c01OpClear
	c01OpFilterLength
	c01OpUnalign
	c01NbOps
)

// c01Apply performs operation op on alignment and model and runs the post-state check.
// It returns false when the history must stop here (operation failed in a way that leaves the
// state unspecified, or the caller created duplicate names).
func c01Apply(al *align, m *refBag, op int, pool []string, gen func(int) []uint8) bool {
	switch op {
	case c01OpAdd:
		c01DoAdd(al, m, pool, gen)
	case c01OpAppend:
		c01DoAppend(al, m, pool, gen)
	case c01OpConcat:
		c01DoConcat(al, m, pool, gen)
	case c01OpRename:
		c01DoRename(al, m)
	case c01OpRenameRegexp:
		c01DoRenameRegexp(al, m)
	case c01OpAppendId:
		c01DoAppendId(al, m)
	case c01OpCleanNames:
		c01DoCleanNames(al, m)
	case c01OpTrimNames:
		return c01DoTrimNames(al, m)
	case c01OpTrimNamesAuto:
		c01DoTrimNamesAuto(al, m)
	case c01OpSort:
		c01DoSort(al, m)
	case c01OpShuffle:
		c01DoShuffle(al, m)
	case c01OpDedup:
		c01DoDedup(al, m)
	case c01OpRemoveGapSeqs:
		c01DoRemoveSeqs(al, m, true)
	case c01OpRemoveCharSeqs:
		c01DoRemoveSeqs(al, m, false)
	case c01OpRemoveGapSites:
		c01DoRemoveGapSites(al, m)
	case c01OpTrimSeqs:
		c01DoTrimSeqs(al, m)
	case c01OpTranslate:
		return c01DoTranslate(al, m)
	case c01OpClone:
		c01DoClone(al, m)
	case c01OpSample:
		c01DoSample(al, m)
	case c01OpClear:
		c01DoClear(al, m)
	case c01OpFilterLength:
		c01DoFilterLength(al, m)
	case c01OpUnalign:
		c01DoUnalign(al, m)
	default:
		panic("harness: unknown operation")
	}
	return !m.dupOK
}

func c01Width(m *refBag) int {
	if m.length() < 0 {
		return 1
	}
	return m.length()
}

// AddSequenceChar with the right or with a wrong length.
func c01DoAdd(al *align, m *refBag, pool []string, gen func(int) []uint8) {
	verifReach("op AddSequence")
	l := c01Width(m) + nondetRange(0, 1)
	name := pool[nondetRange(0, len(pool)-1)]
	c01Insert(al, m, name, l, gen, "AddSequence")
}

func c01DoAppend(al *align, m *refBag, pool []string, gen func(int) []uint8) {
	verifReach("op Append")
	l := c01Width(m) + nondetRange(0, 1)
	o, om := c01Other(m.alphabet, 1+c01Pick(1, 0), l, pool, gen)
	err := al.Append(o)
	rejected := m.appendBag(om)
	verifAssert((err != nil) == rejected, "Append: error exactly when a row of a different length has to be added")
	c01Check(al, m, "Append")
}

func c01DoConcat(al *align, m *refBag, pool []string, gen func(int) []uint8) {
	verifReach("op Concat")
	alpha := m.alphabet
	rows, width := 1, 1
	if !c01Lean {
		if nondetRange(0, 3) == 0 {
			alpha = AMINOACIDS + NUCLEOTIDS - m.alphabet // the other one
		}
		rows, width = nondetRange(0, 2), nondetRange(1, 2)
	} else {
		rows = nondetRange(1, 2)
	}
	o, om := c01Other(alpha, rows, width, pool, gen)
	err := al.Concat(o)
	if alpha != m.alphabet {
		verifAssert(err != nil, "Concat: different alphabets are an error")
		c01Check(al, m, "Concat (rejected)")
		return
	}
	verifAssert(err == nil, "Concat: same alphabet succeeds")
	m.concat(om)
	c01Check(al, m, "Concat")
	c01Check(o, om, "Concat: argument unchanged")
}

func c01DoRename(al *align, m *refBag) {
	verifReach("op Rename")
	var nm map[string]string
	switch c01Pick(4, 1) {
	case 0:
		nm = map[string]string{"a": "zz"}
	case 1:
		nm = map[string]string{"a": "b", "b": "a"} // swap
	case 2:
		nm = map[string]string{"a": "b"} // collides when b is present
	case 3:
		nm = map[string]string{"nothere": "a"} // no row concerned
	case 4:
		nm = map[string]string{"a_0001": "a", "a": "a_0001", "a:b": "zz"}
	}
	m.ghost("zz")
	m.ghost("nothere")
	al.Rename(nm)
	m.renameWith(func(old string) string {
		if nn, ok := nm[old]; ok {
			return nn
		}
		return old
	})
	c01Check(al, m, "Rename")
}

// c01ReplaceByte: s with every byte x replaced by y (the meaning of the regexp "x" -> "y").
func c01ReplaceByte(s string, x, y byte) string {
	b := []byte(s)
	for i := range b {
		if b[i] == x {
			b[i] = y
		}
	}
	return string(b)
}

// c01CutAt: s up to (excluding) the first byte x (the meaning of the regexp "x.*$" -> "").
func c01CutAt(s string, x byte) string {
	for i := 0; i < len(s); i++ {
		if s[i] == x {
			return s[:i]
		}
	}
	return s
}

func c01DoRenameRegexp(al *align, m *refBag) {
	verifReach("op RenameRegexp")
	var re, repl string
	var f func(string) string
	switch c01Pick(3, 1) {
	case 0:
		re, repl = "a", "b"
		f = func(s string) string { return c01ReplaceByte(s, 'a', 'b') }
	case 1:
		re, repl = "_.*$", ""
		f = func(s string) string { return c01CutAt(s, '_') }
	case 2:
		re, repl = "^", "p"
		f = func(s string) string { return "p" + s }
	case 3:
		re, repl = "(", "x" // malformed
	}
	namemap := make(map[string]string)
	var olds []string
	for _, r := range m.rows {
		olds = append(olds, r.name)
	}
	err := al.RenameRegexp(re, repl, namemap)
	if f == nil {
		verifAssert(err != nil, "RenameRegexp: malformed expression is an error")
		c01Check(al, m, "RenameRegexp (rejected)")
		return
	}
	verifAssert(err == nil, "RenameRegexp: valid expression succeeds")
	m.renameWith(f)
	for i, old := range olds {
		if c01CountStr(olds, old) == 1 {
			nn, ok := namemap[old]
			verifAssert(ok && nn == m.rows[i].name, "RenameRegexp: namemap records old name => new name")
		}
	}
	c01Check(al, m, "RenameRegexp")
}

func c01CountStr(l []string, s string) int {
	c := 0
	for _, x := range l {
		if x == s {
			c++
		}
	}
	return c
}

func c01DoAppendId(al *align, m *refBag) {
	verifReach("op AppendSeqIdentifier")
	id := "_0001"
	if c01Pick(1, 0) == 1 {
		id = ""
	}
	right := c01Pick(1, 0) == 0
	al.AppendSeqIdentifier(id, right)
	m.renameWith(func(old string) string {
		if right {
			return old + id
		}
		return id + old
	})
	c01Check(al, m, "AppendSeqIdentifier")
}

func c01IsNewickSpecial(c byte) bool {
	switch c {
	case ' ', '\t', '(', ')', '[', ']', ';', ',', '.', ':':
		return true
	}
	return false
}

// c01Clean: the documented meaning of CleanNames on names whose special characters are
// isolated (no two adjacent inside the name): spaces/tabs at both ends removed, every remaining
// newick special character replaced by '-'.
func c01Clean(s string) string {
	i, j := 0, len(s)
	for i < j && (s[i] == ' ' || s[i] == '\t') {
		i++
	}
	for j > i && (s[j-1] == ' ' || s[j-1] == '\t') {
		j--
	}
	b := []byte(s[i:j])
	for k := range b {
		if c01IsNewickSpecial(b[k]) {
			b[k] = '-'
		}
	}
	return string(b)
}

func c01DoCleanNames(al *align, m *refBag) {
	verifReach("op CleanNames")
	var namemap map[string]string
	if c01Pick(1, 0) == 1 {
		namemap = make(map[string]string)
	}
	var olds []string
	for _, r := range m.rows {
		olds = append(olds, r.name)
	}
	al.CleanNames(namemap)
	m.renameWith(c01Clean)
	m.ghost("a-b")
	if namemap != nil {
		for i, old := range olds {
			if c01CountStr(olds, old) == 1 {
				nn, ok := namemap[old]
				verifAssert(ok && nn == m.rows[i].name, "CleanNames: namemap records old name => new name")
			}
		}
	}
	c01Check(al, m, "CleanNames")
}

// TrimNames: the documentation fixes the new names only up to "at most size characters,
// pairwise distinct, recorded in namemap"; the model takes the new names from namemap.
func c01DoTrimNames(al *align, m *refBag) bool {
	verifReach("op TrimNames")
	size := 4
	namemap := make(map[string]string)
	if !c01Lean {
		size = nondetRange(2, 5)
		if nondetRange(0, 1) == 1 {
			namemap["a"] = "zz" // a name decided by an earlier call
		}
	}
	m.ghost("zz")
	err := al.TrimNames(namemap, size)
	if err != nil {
		return false // size too small for this many sequences; state after the error is not specified
	}
	wasDup := m.dupOK
	m.renameWith(func(old string) string {
		nn, ok := namemap[old]
		verifAssert(ok, "TrimNames: namemap records every old name")
		return nn
	})
	for _, r := range m.rows {
		verifAssert(len(r.name) <= size || r.name == "zz", "TrimNames: new names have at most size characters")
	}
	if !wasDup {
		verifAssert(!m.dupOK, "TrimNames: shortened names are pairwise distinct")
	}
	c01Check(al, m, "TrimNames")
	return !m.dupOK
}

func c01DoTrimNamesAuto(al *align, m *refBag) {
	verifReach("op TrimNamesAuto")
	namemap := make(map[string]string)
	pre := 0
	if c01Pick(1, 0) == 1 {
		namemap["a"] = "zz"
		pre = m.count("a")
	}
	m.ghost("zz")
	start := 1
	if c01Pick(1, 0) == 1 {
		start = 9 // number of digits grows during the call
	}
	curid := start
	distinct := 0
	for i, r := range m.rows {
		first := true
		for j := 0; j < i; j++ {
			if m.rows[j].name == r.name {
				first = false
			}
		}
		if first && !(pre > 0 && r.name == "a") {
			distinct++
		}
	}
	err := al.TrimNamesAuto(namemap, &curid)
	verifAssert(err == nil, "TrimNamesAuto: no error")
	verifAssert(curid == start+distinct, "TrimNamesAuto: the identifier is incremented once per newly named sequence")
	wasDup := m.dupOK
	m.renameWith(func(old string) string {
		nn, ok := namemap[old]
		verifAssert(ok, "TrimNamesAuto: namemap records every old name")
		return nn
	})
	if !wasDup {
		verifAssert(!m.dupOK, "TrimNamesAuto: generated names are pairwise distinct")
	}
	c01Check(al, m, "TrimNamesAuto")
}

func c01DoSort(al *align, m *refBag) {
	verifReach("op Sort")
	al.Sort()
	m.sortByName()
	c01Check(al, m, "Sort")
}

// c01Permute reorders the model rows to the observed name order after checking that the
// observed names are a permutation of the model's names (names are pairwise distinct here).
func c01Permute(sb SeqBag, m *refBag, ctx string) {
	n := len(m.rows)
	verifAssert(sb.NbSequences() == n, ctx+": number of rows unchanged")
	used := make([]bool, n)
	var rows []refRow
	for i := 0; i < n; i++ {
		name, _ := sb.GetSequenceNameById(i)
		j := m.find(name)
		verifAssert(j >= 0 && !used[j], ctx+": rows are a permutation of the original rows")
		used[j] = true
		rows = append(rows, m.rows[j])
	}
	m.rows = rows
}

func c01DoShuffle(al *align, m *refBag) {
	verifReach("op ShuffleSequences")
	al.ShuffleSequences()
	c01Permute(al, m, "ShuffleSequences")
	c01Check(al, m, "ShuffleSequences")
}

func c01DoDedup(al *align, m *refBag) {
	verifReach("op Deduplicate")
	nAsGap := c01Pick(1, 0) == 1
	groups, err := al.Deduplicate(nAsGap)
	verifAssert(err == nil, "Deduplicate: no error")
	want := m.dedup(nAsGap)
	verifAssert(len(groups) == len(want), "Deduplicate: one group of identical names per kept row")
	for g := range want {
		verifAssert(len(groups[g]) == len(want[g]), "Deduplicate: group sizes")
		for x := range want[g] {
			verifAssert(groups[g][x] == want[g][x], "Deduplicate: group members in row order")
		}
	}
	c01Check(al, m, "Deduplicate")
}

// c01Cutoff: a cutoff in {0, 0.5, 1}. It is a concrete case split: the cutoff arithmetic itself
// is the subject of C12, C01 only needs rows/columns to disappear in every combination.
func c01Cutoff() (float64, int) {
	k := []int{2, 0, 4}[c01Pick(2, 0)]
	return float64(k) / 4, k
}

// c01Hit: "count of total reaches the cutoff k/4": >= k/4 of total when k>0, > 0 when k == 0.
func c01Hit(count, total, k int) bool {
	return (k > 0 && 4*count >= k*total) || (k == 0 && count > 0)
}

func c01DoRemoveSeqs(al *align, m *refBag, gaps bool) {
	cutoff, k := c01Cutoff()
	var removed int
	c := uint8('-')
	if gaps {
		verifReach("op RemoveGapSeqs")
		removed = al.RemoveGapSeqs(cutoff, false)
	} else {
		verifReach("op RemoveCharacterSeqs")
		c = nondetByte()
		assume(c01Printable(c))
		removed = al.RemoveCharacterSeqs(c, cutoff, false, false, false)
	}
	want := m.removeRows(func(r refRow) bool {
		cnt := 0
		for _, x := range r.seq {
			if x == c {
				cnt++
			}
		}
		return c01Hit(cnt, len(r.seq), k)
	})
	verifAssert(removed == want, "RemoveCharacterSeqs: returns the number of removed sequences")
	c01Check(al, m, "RemoveCharacterSeqs")
}

func c01DoRemoveGapSites(al *align, m *refBag) {
	verifReach("op RemoveGapSites")
	cutoff, k := c01Cutoff()
	ends := nondetRange(0, 1) == 1
	L := m.length()
	n := len(m.rows)
	_, _, kept, rm := al.RemoveGapSites(cutoff, ends)
	if L < 0 {
		L = 0
	}
	match := make([]bool, L)
	for j := 0; j < L; j++ {
		cnt := 0
		for i := 0; i < n; i++ {
			if m.rows[i].seq[j] == '-' {
				cnt++
			}
		}
		match[j] = c01Hit(cnt, n, k)
	}
	keep := make([]bool, L)
	var wantKept, wantRm []int
	for j := 0; j < L; j++ {
		drop := match[j]
		if ends {
			pre, suf := true, true
			for x := 0; x <= j; x++ {
				pre = pre && match[x]
			}
			for x := j; x < L; x++ {
				suf = suf && match[x]
			}
			drop = pre || suf
		}
		keep[j] = !drop
		if drop {
			wantRm = append(wantRm, j)
		} else {
			wantKept = append(wantKept, j)
		}
	}
	m.removeCols(keep)
	verifAssert(len(kept) == len(wantKept) && len(rm) == len(wantRm), "RemoveGapSites: kept/removed site counts")
	for x := range wantKept {
		verifAssert(kept[x] == wantKept[x], "RemoveGapSites: kept site indexes")
	}
	for x := range wantRm {
		verifAssert(rm[x] == wantRm[x], "RemoveGapSites: removed site indexes")
	}
	c01Check(al, m, "RemoveGapSites")
}

func c01DoTrimSeqs(al *align, m *refBag) {
	verifReach("op TrimSequences")
	var t int
	if c01Lean {
		// concrete in histories: a symbolic size makes the cached length symbolic, and the error
		// message of a later TrimSequences formats it (fmt.Sprintf of a symbolic number)
		t = nondetRange(-1, c01Width(m)+1)
	} else {
		t = nondetInt()
		assume(t >= -1 && t <= c01Width(m)+1)
	}
	fromStart := nondetRange(0, 1) == 1
	err := al.TrimSequences(t, fromStart)
	rejected := m.trim(t, fromStart)
	verifAssert((err != nil) == rejected, "TrimSequences: error exactly when the size is negative or not smaller than the length")
	c01Check(al, m, "TrimSequences")
}

// c01NbCodons: number of complete codons of a sequence of length l read from offset phase.
func c01NbCodons(l, phase int) int {
	c := 0
	for i := phase; i+2 < l; i += 3 {
		c++
	}
	return c
}

// Translate: container bookkeeping only (names, number and lengths of rows, Length(),
// alphabet, index). The amino acids themselves are the subject of C05: the model takes them
// from the result.
func c01DoTranslate(sb SeqBag, m *refBag) bool {
	verifReach("op Translate")
	phase := []int{-1, 0, 1, 2}[c01Pick(3, 1)]
	first, last := phase, phase
	if phase == -1 {
		first, last = 0, 2
	}
	// known finding C01-translate-3frames-ragged: translating an ALIGNMENT in the 3 frames at once
	// (phase -1) yields frames of floor(L/3), floor((L-1)/3), floor((L-2)/3) residues, i.e. rows of
	// different lengths unless L%3 == 2, and no error. When listed, exactly that region is excluded
	// here and demonstrated by K_C01_translate_3frames.
	if verifKnown("C01-translate-3frames-ragged") && m.aligned && phase == -1 && m.alphabet == NUCLEOTIDS {
		for _, r := range m.rows {
			assume(len(r.seq)%3 == 2)
		}
	}
	err := sb.Translate(phase, GENETIC_CODE_STANDARD)
	if m.alphabet != NUCLEOTIDS {
		verifAssert(err != nil, "Translate: an alphabet other than nucleotides is an error")
		c01Check(sb, m, "Translate (rejected)")
		return true
	}
	for _, r := range m.rows {
		if len(r.seq) < 3+last {
			verifAssert(err != nil, "Translate: a sequence shorter than 3+phase is an error")
			return false // state after this error is not specified
		}
	}
	verifAssert(err == nil, "Translate: nucleotide sequences of sufficient length are translated")
	verifReach("Translate succeeded")
	t := newRefBag(false, AMINOACIDS) // rows are rebuilt without the alignment's length test:
	t.policy = m.policy               // rectangularity of the result is what c01Check looks at
	x := 0
	for _, r := range m.rows {
		for p := first; p <= last; p++ {
			name := r.name
			if phase == -1 {
				name = r.name + "_" + string([]byte{byte('0' + p)})
			}
			got, ok := sb.GetSequenceCharById(x)
			verifAssert(ok, "Translate: one row per sequence and frame")
			verifAssert(len(got) == c01NbCodons(len(r.seq), p), "Translate: one amino acid per complete codon")
			before := len(t.rows)
			t.add(name, got)
			if len(t.rows) > before {
				x++
			}
		}
	}
	for _, r := range m.rows {
		m.ghost(r.name)
	}
	m.rows = t.rows
	// "Translates nt sequence in aa ... old sequences are replaced with aminoacid sequences"
	m.alphabet = AMINOACIDS
	if len(m.rows) == 0 {
		c01Check(sb, m, "Translate (empty result)")
	} else {
		c01Check(sb, m, "Translate")
	}
	return true
}

func c01DoClone(al *align, m *refBag) {
	verifReach("op Clone")
	if m.dupOK {
		return
	}
	c, err := al.Clone()
	verifAssert(err == nil, "Clone: no error")
	cm := m.clone()
	c01Check(c, cm, "Clone: the copy")
	// the copy is independent of the original
	if len(m.rows) > 0 && m.length() > 0 {
		verifAssert(c.SetSequenceChar(0, 0, '#') == nil, "Clone: the copy can be edited")
		cm.rows[0].seq[0] = '#'
	}
	c.AppendSeqIdentifier("_c", true)
	c01Check(al, m, "Clone: original after editing the copy")
	c.Clear()
	cm.clear()
	c01Check(c, cm, "Clone: the copy after Clear")
	c01Check(al, m, "Clone: original after clearing the copy")
}

func c01DoSample(al *align, m *refBag) {
	verifReach("op Sample")
	n := len(m.rows)
	nb := nondetRange(0, n+1)
	s, err := al.Sample(nb)
	if nb < 1 || nb > n {
		verifAssert(err != nil, "Sample: fewer than 1 or more than NbSequences() is an error")
		c01Check(al, m, "Sample (rejected)")
		return
	}
	verifAssert(err == nil, "Sample: valid size succeeds")
	verifAssert(s.NbSequences() == nb, "Sample: has the requested number of rows")
	sm := newRefBag(true, m.alphabet)
	sm.ghosts = append(sm.ghosts, m.ghosts...)
	used := make([]bool, n)
	for i := 0; i < nb; i++ {
		name, _ := s.GetSequenceNameById(i)
		j := m.find(name)
		verifAssert(j >= 0 && !used[j], "Sample: rows are distinct rows of the original")
		used[j] = true
		sm.rows = append(sm.rows, refRow{m.rows[j].name, c01Copy(m.rows[j].seq)})
	}
	for j := range used {
		if !used[j] {
			sm.ghost(m.rows[j].name)
		}
	}
	c01Check(s, sm, "Sample: the sample")
	c01Check(al, m, "Sample: original unchanged")
}

func c01DoClear(al *align, m *refBag) {
	verifReach("op Clear")
	al.Clear()
	m.clear()
	c01Check(al, m, "Clear")
}

func c01DoFilterLength(sb SeqBag, m *refBag) {
	verifReach("op FilterLength")
	min, max := nondetInt(), nondetInt()
	assume(min >= -2 && min <= 4 && max >= -2 && max <= 4)
	err := sb.FilterLength(min, max)
	verifAssert(err == nil, "FilterLength: no error")
	m.filterLength(min, max)
	c01Check(sb, m, "FilterLength")
}

func c01DoUnalign(sb SeqBag, m *refBag) {
	verifReach("op Unalign")
	u := sb.Unalign()
	um := m.unalign()
	um.ghosts = append(um.ghosts, m.ghosts...)
	c01Check(u, um, "Unalign: the result")
	c01Check(sb, m, "Unalign: the input is unchanged")
}

func c01DoCloneBag(sb SeqBag, m *refBag) {
	verifReach("op CloneSeqBag")
	c, err := sb.CloneSeqBag()
	verifAssert(err == nil, "CloneSeqBag: no error")
	cm := m.clone()
	c01Check(c, cm, "CloneSeqBag: the copy")
	c.Clear()
	cm.clear()
	c01Check(c, cm, "CloneSeqBag: the copy after Clear")
	c01Check(sb, m, "CloneSeqBag: original after clearing the copy")
}

// ------------------------------------------------------------------------------ harnesses

func c01AlignStep(cfg c01Cfg, ops []int) {
	c01Lean = false
	sb, m := c01Prefix(cfg)
	al := sb.(*align)
	op := ops[nondetRange(0, len(ops)-1)]
	c01Apply(al, m, op, cfg.pool, cfg.gen)
}

func c01AllOps() []int {
	ops := make([]int, c01NbOps)
	for i := range ops {
		ops[i] = i
	}
	return ops
}

// c01OpsButTranslate: Translate needs nucleotide rows (it is an error on anything else, and the
// interpreter splits on every symbolic residue it classifies): the histories with Translate
// are in H_C01_twostep_translate and H_C01_twostep_then_translate.
func c01OpsButTranslate() []int {
	var ops []int
	for i := 0; i < c01NbOps; i++ {
		if i != c01OpTranslate {
			ops = append(ops, i)
		}
	}
	return ops
}

// c01AlignTwoSteps: prefix, then two operations (arguments drawn from the lean variants).
func c01AlignTwoSteps(cfg c01Cfg, first, second []int) {
	c01Lean = true
	sb, m := c01Prefix(cfg)
	al := sb.(*align)
	op1 := first[nondetRange(0, len(first)-1)]
	if !c01Apply(al, m, op1, cfg.pool, cfg.gen) {
		return
	}
	verifReach("second step")
	op2 := second[nondetRange(0, len(second)-1)]
	c01Apply(al, m, op2, cfg.pool, cfg.gen)
}

// H_C01_step_add: prefix of insertions under each duplicate-name policy, then one more
// AddSequence (right or wrong length), Append of a second alignment, or Clear.
// bounds: k<=2 prefix insertions (k<=3 and the 6-name pool in H_C01_step_add_deep), small pool {a,b,a_0001}, L in 1..2, residues printable ASCII, policy in {NONE,NAME,SEQUENCE}
// outside: k>3, L>2, names outside the pool, comments
func H_C01_step_add() {
	c01AlignStep(c01Cfg{true, AMINOACIDS, c01Small, 0, 2, 1, 2, c01GenPrintable},
		[]int{c01OpAdd, c01OpAppend, c01OpClear})
}

// H_C01_step_add_deep: H_C01_step_add with the 6-name pool.
// bounds: k<=3 prefix insertions, 6-name colliding pool, L in 1..2, residues printable ASCII, all three policies
// outside: k>3, L>2, names outside the pool, comments
// verif: tier=thorough
func H_C01_step_add_deep() {
	c01AlignStep(c01Cfg{true, AMINOACIDS, c01Pool, 0, 3, 1, 2, c01GenPrintable},
		[]int{c01OpAdd, c01OpAppend, c01OpClear})
}

// H_C01_step_concat: prefix, then Concat with a second alignment (0..2 rows, same or different alphabet).
// bounds: k<=2 prefix insertions, small pool {a,b,a_0001}, L in 1..2, second alignment 0..2 rows of width 1..2, residues printable ASCII
// outside: k>2, wider alignments
func H_C01_step_concat() {
	c01AlignStep(c01Cfg{true, AMINOACIDS, c01Small, 0, 2, 1, 2, c01GenPrintable}, []int{c01OpConcat})
}

// H_C01_step_rename: prefix, then Rename with one of five maps (fresh name, collision, swap, unknown key, three-way).
// bounds: k<=3 prefix insertions, 6-name pool, L=1, residues printable ASCII
// outside: maps other than the five listed in c01DoRename
func H_C01_step_rename() {
	c01AlignStep(c01Cfg{true, AMINOACIDS, c01Pool, 0, 3, 1, 1, c01GenPrintable}, []int{c01OpRename})
}

// H_C01_step_names: prefix, then one of AppendSeqIdentifier, TrimNames, TrimNamesAuto.
// bounds: k<=2 prefix insertions, 6-name pool, L=1, residues printable ASCII, TrimNames size 2..5, TrimNamesAuto start id 1 or 9, namemap empty or {a:zz}
// outside: larger sizes, other identifiers than "" and "_0001"
func H_C01_step_names() {
	c01AlignStep(c01Cfg{true, AMINOACIDS, c01Pool, 0, 2, 1, 1, c01GenPrintable},
		[]int{c01OpAppendId, c01OpTrimNames, c01OpTrimNamesAuto})
}

// H_C01_step_names_deep: H_C01_step_names with up to three rows.
// bounds: k<=3 prefix insertions, 6-name pool, L=1, residues printable ASCII, TrimNames size 2..5, TrimNamesAuto start id 1 or 9, namemap empty or {a:zz}
// outside: larger sizes, other identifiers than "" and "_0001"
// verif: tier=thorough
func H_C01_step_names_deep() {
	c01AlignStep(c01Cfg{true, AMINOACIDS, c01Pool, 0, 3, 1, 1, c01GenPrintable},
		[]int{c01OpAppendId, c01OpTrimNames, c01OpTrimNamesAuto})
}

// H_C01_step_regexp: prefix, then RenameRegexp (a->b, cut at '_', prefix p, malformed) or CleanNames.
// bounds: k<=2 prefix insertions (k<=3 in H_C01_step_regexp_deep), 6-name pool, L=1, residues printable ASCII
// outside: other regular expressions; names with adjacent special characters (documentation does not say whether a run gives one '-')
func H_C01_step_regexp() {
	c01AlignStep(c01Cfg{true, AMINOACIDS, c01Pool, 0, 2, 1, 1, c01GenPrintable},
		[]int{c01OpRenameRegexp, c01OpCleanNames})
}

// H_C01_step_regexp_deep: H_C01_step_regexp with up to three rows.
// bounds: k<=3 prefix insertions, 6-name pool, L=1, residues printable ASCII
// outside: other regular expressions; names with adjacent special characters
// verif: tier=thorough
func H_C01_step_regexp_deep() {
	c01AlignStep(c01Cfg{true, AMINOACIDS, c01Pool, 0, 3, 1, 1, c01GenPrintable},
		[]int{c01OpRenameRegexp, c01OpCleanNames})
}

// H_C01_step_order: prefix, then Sort, ShuffleSequences, Sample or Clone.
// bounds: k<=3 prefix insertions, small pool {a,b,a_0001}, L in 1..2, residues printable ASCII; every outcome of math/rand
// outside: k>3
func H_C01_step_order() {
	c01AlignStep(c01Cfg{true, AMINOACIDS, c01Small, 0, 3, 1, 2, c01GenPrintable},
		[]int{c01OpSort, c01OpShuffle, c01OpSample, c01OpClone})
}

// H_C01_step_order_deep: H_C01_step_order with the 6-name pool (names with blanks and punctuation in the sort).
// bounds: k<=3 prefix insertions, 6-name pool, L in 1..2, residues printable ASCII; every outcome of math/rand
// outside: k>3
// verif: tier=thorough
func H_C01_step_order_deep() {
	c01AlignStep(c01Cfg{true, AMINOACIDS, c01Pool, 0, 3, 1, 2, c01GenPrintable},
		[]int{c01OpSort, c01OpShuffle, c01OpSample, c01OpClone})
}

// H_C01_step_dedup: prefix, then Deduplicate (with and without N/X-as-gap).
// bounds: k<=2 prefix insertions (k<=3 in H_C01_step_dedup_deep), small pool, L in 1..2, residues printable ASCII
// outside: k>3, L>2 (C13 looks at deeper shapes)
func H_C01_step_dedup() {
	c01AlignStep(c01Cfg{true, NUCLEOTIDS, c01Small, 0, 2, 1, 2, c01GenPrintable}, []int{c01OpDedup})
}

// H_C01_step_dedup_deep: H_C01_step_dedup with up to three rows.
// bounds: k<=3 prefix insertions, small pool, L in 1..2, residues printable ASCII
// outside: k>3, L>2
// verif: tier=thorough
func H_C01_step_dedup_deep() {
	c01AlignStep(c01Cfg{true, NUCLEOTIDS, c01Small, 0, 3, 1, 2, c01GenPrintable}, []int{c01OpDedup})
}

// H_C01_step_rmseqs: prefix, then RemoveGapSeqs or RemoveCharacterSeqs.
// bounds: k<=3 prefix insertions, names {a,b}, L in 1..2, residues printable ASCII, cutoff in {0, 0.5, 1}, character any printable byte
// outside: ignoreCase/ignoreGaps/ignoreNs variants and other cutoffs (C12)
func H_C01_step_rmseqs() {
	c01AlignStep(c01Cfg{true, NUCLEOTIDS, c01Small[:2], 0, 3, 1, 2, c01GenPrintable},
		[]int{c01OpRemoveGapSeqs, c01OpRemoveCharSeqs})
}

// H_C01_step_filterlength: prefix, then FilterLength called on the alignment.
// bounds: k<=3 prefix insertions, small pool, L in 1..2, residues printable ASCII, bounds in -2..4
// outside: bounds beyond 4
func H_C01_step_filterlength() {
	c01AlignStep(c01Cfg{true, NUCLEOTIDS, c01Small, 0, 3, 1, 2, c01GenPrintable}, []int{c01OpFilterLength})
}

// H_C01_step_cols: prefix, then RemoveGapSites (length bookkeeping), TrimSequences or Unalign.
// bounds: k<=2 prefix insertions, names {a,b}, L in 1..3, residues printable ASCII, cutoff in {0, 0.5, 1}, ends or not, trim size in -1..L+1
// outside: RemoveCharacterSites options other than those of RemoveGapSites (C12)
func H_C01_step_cols() {
	c01AlignStep(c01Cfg{true, NUCLEOTIDS, c01Small[:2], 0, 2, 1, 3, c01GenPrintable},
		[]int{c01OpRemoveGapSites, c01OpTrimSeqs, c01OpUnalign})
}

// H_C01_step_translate: prefix of nucleotide rows, then Translate in phase 0, 1, 2 or -1 (three
// frames; with 6 columns the three frames hold 2, 1 and 1 complete codons).
// bounds: k<=2 prefix insertions, names {a,b}, L in 3..6, first residue of every row symbolic in {A,C} and the others 'A', standard genetic code
// outside: amino acid content (C05), other genetic codes, other nucleotides, L>6
func H_C01_step_translate() {
	c01AlignStep(c01Cfg{true, NUCLEOTIDS, c01Small[:2], 0, 2, 3, 6, c01GenAC}, []int{c01OpTranslate})
}

// H_C01_two_steps: prefix, then two operations in a row out of the 21 modelled ones other than Translate (rename then
// sort, rename then concat, clear then add, filter then add, deduplicate then lookup, ...),
// post-state check after each. A history stops after a step that the model cannot follow
// (unspecified state after an error, duplicate names created by the caller).
// bounds: k<=2 prefix insertions, names {a,b}, L in 1..2, residues printable ASCII, lean argument variants (first variants of every operation, see c01Pick)
// outside: histories longer than 2, k>2, Translate as a successful step (needs nucleotides: H_C01_twostep_translate)
// verif: tier=thorough
func H_C01_two_steps() {
	c01AlignTwoSteps(c01Cfg{true, NUCLEOTIDS, c01Small[:2], 0, 2, 1, 2, c01GenPrintable}, c01OpsButTranslate(), c01OpsButTranslate())
}

// c01Observers: the operations that depend most on name index and cached length.
var c01Observers = []int{c01OpAdd, c01OpConcat, c01OpSort, c01OpDedup, c01OpClone}

// H_C01_twostep_quick: quick-tier slice of H_C01_two_steps: any first operation but Translate, then one of
// AddSequence, Concat, Sort, Deduplicate, Clone.
// bounds: k<=1 prefix insertions, names {a,b}, L in 1..2, residues printable ASCII, lean argument variants
// outside: see H_C01_two_steps
func H_C01_twostep_quick() {
	c01AlignTwoSteps(c01Cfg{true, NUCLEOTIDS, c01Small[:2], 0, 1, 1, 2, c01GenPrintable}, c01OpsButTranslate(), c01Observers)
}

// H_C01_rename_then: a renaming operation (Rename, RenameRegexp, AppendSeqIdentifier, CleanNames,
// TrimNames, TrimNamesAuto) followed by an operation that relies on names (AddSequence, Concat,
// Sort, Clone, Deduplicate). Between the two only the index-free part of the post-state check
// runs (rows, order, residues, iteration), after the second the full check: this shows what a
// caller sees one operation after a renaming even when by-name lookups themselves are not used.
// bounds: k<=2 prefix insertions, names {a, b, "a:b"}, L=1, residues printable ASCII, lean argument variants
// outside: longer histories
func H_C01_rename_then() {
	c01Lean = true
	cfg := c01Cfg{true, NUCLEOTIDS, []string{"a", "b", "a:b"}, 0, 2, 1, 1, c01GenPrintable}
	sb, m := c01Prefix(cfg)
	al := sb.(*align)
	first := []int{c01OpRename, c01OpRenameRegexp, c01OpAppendId, c01OpCleanNames, c01OpTrimNames, c01OpTrimNamesAuto}
	m.noIndex = true
	if !c01Apply(al, m, first[nondetRange(0, len(first)-1)], cfg.pool, cfg.gen) {
		return
	}
	m.noIndex = false
	verifReach("second step")
	c01Apply(al, m, c01Observers[nondetRange(0, len(c01Observers)-1)], cfg.pool, cfg.gen)
}

// H_C01_twostep_translate: nucleotide prefix, Translate, then a second operation.
// bounds: k<=2 prefix insertions, names {a,b}, L in {3,6}, residues as in H_C01_step_translate, phase -1 or 0
// outside: see H_C01_step_translate
// verif: tier=thorough
func H_C01_twostep_translate() {
	c01Lean = true
	cfg := c01Cfg{true, NUCLEOTIDS, c01Small[:2], 0, 2, 3, 3, c01GenAC}
	if nondetRange(0, 1) == 1 {
		cfg.lmin, cfg.lmax = 6, 6
	}
	sb, m := c01Prefix(cfg)
	al := sb.(*align)
	if !c01Apply(al, m, c01OpTranslate, cfg.pool, cfg.gen) {
		return
	}
	verifReach("second step")
	ops := c01AllOps()
	c01Apply(al, m, ops[nondetRange(0, len(ops)-1)], cfg.pool, c01GenPrintable)
}

// H_C01_twostep_then_translate: nucleotide prefix, one of AddSequence, Concat, Sort, Deduplicate,
// RemoveGapSeqs, TrimSequences, Clear, FilterLength, then Translate.
// bounds: k<=2 prefix insertions, names {a,b}, L in {3,6}, residues as in H_C01_step_translate, phase -1 or 0
// outside: see H_C01_step_translate
// verif: tier=thorough
func H_C01_twostep_then_translate() {
	c01Lean = true
	cfg := c01Cfg{true, NUCLEOTIDS, c01Small[:2], 0, 2, 3, 3, c01GenAC}
	if nondetRange(0, 1) == 1 {
		cfg.lmin, cfg.lmax = 6, 6
	}
	sb, m := c01Prefix(cfg)
	al := sb.(*align)
	ops := []int{c01OpAdd, c01OpConcat, c01OpSort, c01OpDedup, c01OpRemoveGapSeqs, c01OpTrimSeqs, c01OpClear, c01OpFilterLength}
	if !c01Apply(al, m, ops[nondetRange(0, len(ops)-1)], cfg.pool, cfg.gen) {
		return
	}
	verifReach("second step")
	c01Apply(al, m, c01OpTranslate, cfg.pool, cfg.gen)
}

// H_C01_wronglen_rejected: a sequence whose length differs from the alignment's is rejected
// with an error by AddSequence / AddSequenceChar / Append and every observable is unchanged;
// the rejected name is not reserved (a following insertion with the right length behaves as if
// the rejected one had never happened). Exception stated by the documentation of IGNORE_NAME:
// a name that exists already is ignored "whatever the sequence", without error.
// bounds: k in 1..2 prefix insertions (1..3 in H_C01_wronglen_rejected_deep), small pool, L in 1..2, wrong length in 0..3, residues printable ASCII, all three policies
// outside: k>3, L>2
func H_C01_wronglen_rejected() { c01WrongLen(2) }

// H_C01_wronglen_rejected_deep: the same with up to three prefix insertions.
// bounds: k in 1..3 prefix insertions, small pool, L in 1..2, wrong length in 0..3, residues printable ASCII, all three policies
// outside: k>3, L>2
// verif: tier=thorough
func H_C01_wronglen_rejected_deep() { c01WrongLen(3) }

func c01WrongLen(kmax int) {
	c01Lean = false
	cfg := c01Cfg{true, AMINOACIDS, c01Small, 1, kmax, 1, 2, c01GenPrintable}
	sb, m := c01Prefix(cfg)
	al := sb.(*align)
	L := m.length()
	wrong := nondetRange(0, 3)
	assume(wrong != L)
	name := cfg.pool[nondetRange(0, len(cfg.pool)-1)]
	before := vfSnapshot(al)
	s := c01GenPrintable(wrong)
	ignored := m.policy == IGNORE_NAME && m.find(name) >= 0
	var err error
	switch nondetRange(0, 2) {
	case 0:
		err = al.AddSequenceChar(name, c01Copy(s), "")
	case 1:
		err = al.AddSequence(name, string(s), "")
	case 2:
		o := NewAlign(AMINOACIDS)
		if o.AddSequenceChar(name, c01Copy(s), "") != nil {
			panic("harness: cannot build the second alignment")
		}
		err = al.Append(o)
	}
	verifReach("wrong length offered")
	if ignored {
		verifReach("ignored by name")
		verifAssert(err == nil, "IGNORE_NAME: an existing name is ignored without error whatever the sequence")
	} else {
		verifAssert(err != nil, "a sequence of a different length is rejected with an error")
	}
	verifAssert(m.add(name, s) == !ignored, "harness: the model rejects the same insertions")
	verifAssert(vfSameSnap(before, vfSnapshot(al)), "names, residues, length and alphabet unchanged after the rejected insertion")
	c01Check(al, m, "rejected insertion")
	// the failed insertion left no trace
	c01Insert(al, m, name, L, c01GenPrintable, "insertion after a rejected one")
}

// c01BagStep: prefix on an unaligned SeqBag (every row its own length), then one operation.
func c01BagStep(cfg c01Cfg, ops []int) {
	c01Lean = false
	sb, m := c01Prefix(cfg)
	switch ops[nondetRange(0, len(ops)-1)] {
	case c01OpFilterLength:
		c01DoFilterLength(sb, m)
	case c01OpUnalign:
		c01DoUnalign(sb, m)
	case c01OpTranslate:
		c01DoTranslate(sb, m)
	case c01OpClone:
		c01DoCloneBag(sb, m)
	default:
		panic("harness: unknown operation")
	}
}

// H_C01_seqbag_step: unaligned container: prefix of rows of different lengths, then FilterLength
// (both bounds symbolic, negative = not considered) or CloneSeqBag.
// bounds: k<=2 prefix insertions (k<=3 in H_C01_seqbag_step_deep), names {a,b}, every row length in 0..3, residues printable ASCII, FilterLength bounds in -2..4, all three policies
// outside: rows longer than 3, bounds beyond 4
func H_C01_seqbag_step() {
	c01BagStep(c01Cfg{false, NUCLEOTIDS, c01Small[:2], 0, 2, 0, 3, c01GenPrintable},
		[]int{c01OpFilterLength, c01OpClone})
}

// H_C01_seqbag_step_unalign: unaligned container (rows may hold '-'), then Unalign.
// bounds: k<=2 prefix insertions, names {a,b}, every row length in 0..2, residues printable ASCII, all three policies
// outside: rows longer than 2
func H_C01_seqbag_step_unalign() {
	c01BagStep(c01Cfg{false, NUCLEOTIDS, c01Small[:2], 0, 2, 0, 2, c01GenPrintable}, []int{c01OpUnalign})
}

// H_C01_seqbag_step_deep: FilterLength, Unalign, CloneSeqBag on up to three rows.
// bounds: k<=3 prefix insertions, names {a,b}, every row length in 0..2, residues printable ASCII, FilterLength bounds in -2..4, all three policies
// outside: rows longer than 2, bounds beyond 4
// verif: tier=thorough
func H_C01_seqbag_step_deep() {
	c01BagStep(c01Cfg{false, NUCLEOTIDS, c01Small[:2], 0, 3, 0, 2, c01GenPrintable},
		[]int{c01OpFilterLength, c01OpUnalign, c01OpClone})
}

// H_C01_seqbag_step_translate: unaligned container of nucleotide rows, then Translate in phase
// -1 (three frames, names suffixed _0 _1 _2, three times as many sequences), 0, 1 or 2.
// bounds: k<=2 prefix insertions, names {a,b}, every row length in 3..6, first residue of every row symbolic in {A,C} and the others 'A', standard genetic code
// outside: amino acid content (C05), rows longer than 6
func H_C01_seqbag_step_translate() {
	c01BagStep(c01Cfg{false, NUCLEOTIDS, c01Small[:2], 0, 2, 3, 6, c01GenAC}, []int{c01OpTranslate})
}

// K_C01_translate_3frames: demonstrates the known finding: Alignment.Translate(-1) on 6 columns succeeds and leaves rows of 2, 1 and 1 residues.
// bounds: one row AAAAAA
//verif: known=C01-translate-3frames-ragged expect=violation
func K_C01_translate_3frames() {
	al := NewAlign(NUCLEOTIDS)
	if err := al.AddSequence("a", "AAAAAA", ""); err != nil {
		panic("harness: " + err.Error())
	}
	err := al.Translate(-1, GENETIC_CODE_STANDARD)
	verifReach("translated")
	if err == nil {
		L := al.Length()
		for i := 0; i < al.NbSequences(); i++ {
			s, _ := al.GetSequenceCharById(i)
			verifAssert(len(s) == L, "Translate: rectangular, every row has Length() columns")
		}
	}
}
