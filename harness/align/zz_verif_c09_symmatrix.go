//go:build verif

package align

// C09 with an arbitrary substitution matrix: "for any two sequences and scoring scheme
// (substitution matrix or match/mismatch, affine gap penalties)". The two built-in tables have
// few distinct positive scores, and a match/mismatch scheme has one; here every residue pair of
// the two sequences has its own symbolic score, so that graded positive scores (as between W/Y/F
// in BLOSUM62 or between a base and an ambiguity code in EDNAFULL) are covered in general. The
// matrix is installed in the aligner's own table fields; the aligner code is unchanged.

var vfSymLetters1 = []uint8{'A', 'C', 'G', 'T'}
var vfSymLetters2 = []uint8{'R', 'Y', 'K', 'M'}

// vfSWSymMatrixRun: sequences of pairwise distinct letters, one independent score per pair.
func vfSWSymMatrixRun(l1, l2 int) {
	var sc vfSWScheme
	vfSWSymGaps(&sc)
	s1 := vfSymLetters1[:l1]
	s2 := vfSymLetters2[:l2]
	pos := map[uint8]int{}
	for k, c := range vfSymLetters1 {
		pos[c] = k
	}
	for k, c := range vfSymLetters2 {
		pos[c] = 4 + k
	}
	table := make([][]float64, 8)
	for k := range table {
		table[k] = make([]float64, 8)
	}
	sub := make([][]float64, l1)
	for i := 0; i < l1; i++ {
		sub[i] = make([]float64, l2)
		for j := 0; j < l2; j++ {
			v := nondetDyadic(2, -16, 16)
			sub[i][j] = v
			table[pos[s1[i]]][pos[s2[j]]] = v
			table[pos[s2[j]]][pos[s1[i]]] = v
		}
	}
	opt, _ := vfSWGotoh(sub, sc.open, sc.ext)
	q1 := NewSequence("s1", append([]uint8{}, s1...), "")
	q2 := NewSequence("s2", append([]uint8{}, s2...), "")
	a := NewPwAligner(q1, q2, ALIGN_ALGO_SW)
	a.submatrix = table
	a.chartopos = pos
	a.SetGapOpenScore(sc.open)
	a.SetGapExtendScore(sc.ext)
	_, err := a.Alignment()
	verifAssert(err == nil, "alignment succeeds")
	verifReach("aligned")
	var r vfSWResult
	r.r1, r.r2 = a.Seq1Ali(), a.Seq2Ali()
	r.st1, r.st2 = a.AlignStarts()
	r.en1, r.en2 = a.AlignEnds()
	r.max = a.MaxScore()
	r.nm, r.nmm, r.ng, r.n = a.NbMatches(), a.NbMisMatches(), a.NbGaps(), a.Length()
	verifObserve("rows, starts, ends", r.r1, r.r2, r.st1, r.st2, r.en1, r.en2)
	if opt > 0 {
		verifReach("positive optimum")
		vfSWStructure(r, s1, s2)
		// re-score the returned rows under the symbolic matrix
		score, ok := 0.0, len(r.r1) == len(r.r2)
		prevGap := 0
		for k := 0; ok && k < len(r.r1); k++ {
			g := 0
			if r.r1[k] == '-' {
				g = 1
			} else if r.r2[k] == '-' {
				g = 2
			}
			switch {
			case g == 0:
				score += table[pos[r.r1[k]]][pos[r.r2[k]]]
			case g == prevGap:
				score += sc.ext
			default:
				score += sc.open
			}
			prevGap = g
		}
		verifAssert(ok, "rows can be re-scored")
		verifAssert(r.max <= opt, "MaxScore() <= optimum: the reported score is attainable")
		verifAssert(score == r.max, "score of the returned rows == MaxScore()")
		verifAssert(r.max >= opt, "MaxScore() >= optimum: no other local alignment scores higher")
	}
}

// H_C09_sw_symmatrix: all claims of C09 for an arbitrary substitution matrix.
// bounds: lengths (l1,l2) in {(2,3),(3,2),(2,4),(4,2)}; sequences of pairwise distinct letters, every pair score an independent multiple of 1/2 in [-8,8]; gapopen<=gapextend<0 multiples of 1/2 in [-8,0)
// outside: longer sequences (3x3, 3x4, 4x3 in the thorough twin); repeated letters (covered for the built-in tables by H_C09_sw_dnafull/_blosum)
func H_C09_sw_symmatrix() {
	k := nondetRange(0, 3)
	ls := [4][2]int{{2, 3}, {3, 2}, {2, 4}, {4, 2}}
	vfSWSymMatrixRun(ls[k][0], ls[k][1])
}

// H_C09_sw_symmatrix_deep: as H_C09_sw_symmatrix for the larger shapes.
// bounds: lengths (l1,l2) in {(3,3),(3,4),(4,3)}; otherwise as H_C09_sw_symmatrix
//verif: tier=thorough
func H_C09_sw_symmatrix_deep() {
	k := nondetRange(0, 2)
	ls := [3][2]int{{3, 3}, {3, 4}, {4, 3}}
	vfSWSymMatrixRun(ls[k][0], ls[k][1])
}
