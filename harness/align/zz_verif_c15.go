//go:build verif

package align

// C15 — masking rewrites exactly the selected residues and nothing else.
//
// Reference model (from the documentation of Mask / MaskOccurences / MaskUnique and the property):
//
//   Mask(ref, start, length, replace, nogap, noref): column j is requested iff
//   start <= j < start+length (mathematically; the part past the end is dropped). A requested cell
//   is protected iff it is a gap and nogap is set, or noref is set, a reference is given and the
//   cell equals the reference residue of its column. Requested, unprotected cells receive the
//   replacement character: N (nucleotides) or X (proteins) for "" and "AMBIG", '-' for "GAP", the
//   character itself for a one-character string, a most frequent character of the column (before
//   masking; any one when tied, the same one for the whole column) for "MAJ". Everything else
//   (other cells, names, order, length) is unchanged. A negative start, an unknown replacement
//   keyword, or an unknown reference that must be consulted is an error and changes nothing.
//
//   MaskOccurences(ref, max, replace): a cell is *counted* iff no reference is given, or it is not in
//   the reference row and differs from the reference residue of its column (or that residue is a
//   gap). A counted non-gap cell is masked iff the number of counted cells of its column holding the
//   same character is at most max. MaskUnique is max = 1.
//
// Known findings are excluded from the main harnesses only when listed in known_findings.txt:
//   C15-noref-without-reference-protects-dot  Mask(noref=true, refseq="") leaves '.' residues unmasked
//   C15-window-end-overflow                   Mask computes start+length in int: a huge length wraps
//                                             around and nothing is masked
//   C15-maskocc-maj-not-column-majority       MaskOccurences("MAJ") with a reference takes the most
//                                             frequent of the *counted* cells, not of the column

const (
	vfC15KeyDot      = "C15-noref-without-reference-protects-dot"
	vfC15KeyOverflow = "C15-window-end-overflow"
	vfC15KeyMaj      = "C15-maskocc-maj-not-column-majority"
)

// vfC15Known reports whether the finding is listed in known_findings.txt.
func vfC15Known(key string) bool { return verifKnown(key) }

func vfC15Printable(c uint8) bool { return c >= 0x21 && c <= 0x7e }

// vfC15SymAlign builds an n x L alignment of fresh symbolic residues; the caller assumes dom.
func vfC15SymAlign(alphabet, n, L int, ok func(uint8) bool) (*align, [][]uint8, bool) {
	al := NewAlign(alphabet)
	orig := make([][]uint8, n)
	dom := true
	for i := 0; i < n; i++ {
		s := make([]uint8, L)
		orig[i] = make([]uint8, L)
		for j := range s {
			s[j] = nondetByte()
			d := ok(s[j])
			dom = dom && d
			orig[i][j] = s[j]
		}
		if err := al.AddSequenceChar(vfNames[i], s, ""); err != nil {
			panic("harness: cannot build alignment: " + err.Error())
		}
	}
	return al, orig, dom
}

// vfC15EnumAlign builds an n x L alignment whose residues are enumerated over chars (one case per
// content): the 130-entry occurrence tables of the library are then concrete on every path.
func vfC15EnumAlign(alphabet, n, L int, chars []uint8) (*align, [][]uint8) {
	al := NewAlign(alphabet)
	orig := make([][]uint8, n)
	for i := 0; i < n; i++ {
		s := make([]uint8, L)
		orig[i] = make([]uint8, L)
		for j := range s {
			s[j] = chars[nondetRange(0, len(chars)-1)]
			orig[i][j] = s[j]
		}
		if err := al.AddSequenceChar(vfNames[i], s, ""); err != nil {
			panic("harness: cannot build alignment: " + err.Error())
		}
	}
	return al, orig
}

// vfC15Ref picks the reference: none, a row (every row if allRows, else the first or the last
// one), or (if withUnknown) a name that is not in the alignment. Returns the name, the row index
// (-1 if none/unknown) and whether it is unknown.
func vfC15Ref(n int, allRows, withUnknown bool) (string, int, bool) {
	rows := []int{0}
	if allRows {
		for i := 1; i < n; i++ {
			rows = append(rows, i)
		}
	} else if n > 1 {
		rows = append(rows, n-1)
	}
	hi := len(rows)
	if withUnknown {
		hi++
	}
	sel := nondetRange(0, hi)
	switch {
	case sel == 0:
		return "", -1, false
	case sel <= len(rows):
		return vfNames[rows[sel-1]], rows[sel-1], false
	}
	return "no-such-sequence", -1, true
}

const (
	vfC15RepEmpty = iota // ""
	vfC15RepAmbig        // "AMBIG"
	vfC15RepGap          // "GAP"
	vfC15RepChar         // one symbolic printable character
	vfC15RepMaj          // "MAJ"
	vfC15RepBad          // an unknown keyword
)

// vfC15Replacement returns the maskreplace argument, the replacement character it stands for
// (meaningless for MAJ/bad) and the domain condition of the symbolic character.
func vfC15Replacement(sel, alphabet int) (string, uint8, bool) {
	ambig := uint8('N')
	if alphabet == AMINOACIDS {
		ambig = 'X'
	}
	switch sel {
	case vfC15RepEmpty:
		return "", ambig, true
	case vfC15RepAmbig:
		return "AMBIG", ambig, true
	case vfC15RepGap:
		return "GAP", '-', true
	case vfC15RepChar:
		ch := nondetByte()
		return string([]byte{ch}), ch, vfC15Printable(ch)
	case vfC15RepMaj:
		return "MAJ", 0, true
	}
	return "NN", 0, true
}

// vfC15CheckCells compares the alignment with the expected content and checks names, order, row
// count and length. where is appended to the label of the cell assertion.
func vfC15CheckCells(al *align, n, L int, want [][]uint8, where string) {
	verifAssert(al.NbSequences() == n, "number of sequences unchanged")
	verifAssert(al.Length() == L, "alignment length unchanged")
	for i := 0; i < n; i++ {
		name, _ := al.GetSequenceNameById(i)
		verifAssert(name == vfNames[i], "names and order unchanged")
		got, _ := al.GetSequenceCharById(i)
		verifAssert(len(got) == L, "row length unchanged")
		for j := 0; j < L && j < len(got); j++ {
			verifAssert(got[j] == want[i][j], "cell holds the replacement if selected and unprotected, its old residue otherwise"+where)
		}
	}
}

// vfC15MaskBody drives Mask with a fixed-character replacement.
// mode 0: main; 1: only inputs of vfC15KeyDot; 2: only inputs of vfC15KeyOverflow.
func vfC15MaskBody(shapes [][2]int, reps []int, mode int) {
	sh := shapes[nondetRange(0, len(shapes)-1)]
	n, L := sh[0], sh[1]
	repSel := reps[nondetRange(0, len(reps)-1)]
	alphabet := NUCLEOTIDS
	if repSel <= vfC15RepAmbig && nondetRange(0, 1) == 1 {
		// the alphabet only matters for the N/X replacement
		alphabet = AMINOACIDS
	}
	refseq, refRow, refUnknown := vfC15Ref(n, true, true)
	al, orig, dom := vfC15SymAlign(alphabet, n, L, vfC15Printable)
	maskreplace, rep, d := vfC15Replacement(repSel, alphabet)
	dom = dom && d
	nogap, noref := nondetBool(), nondetBool()
	start, length := nondetInt(), nondetInt()

	// oracle, before the call
	wantErr := start < 0 || repSel == vfC15RepBad || (refUnknown && noref)
	active := !wantErr && start <= L
	want := make([][]uint8, n)
	hasDot := false
	for i := 0; i < n; i++ {
		want[i] = make([]uint8, L)
		for j := 0; j < L; j++ {
			r := orig[i][j]
			// j-start cannot overflow when active (0 <= start <= L)
			requested := active && j >= start && j-start < length
			protected := (nogap && r == '-') || (noref && refRow >= 0 && r == orig[refRow][j])
			want[i][j] = r
			if requested && !protected {
				want[i][j] = rep
			}
			if r == '.' {
				hasDot = true
			}
		}
	}
	dotRegion := noref && refseq == "" && hasDot
	overflowRegion := start >= 0 && length > 0 && start+length < 0
	switch mode {
	case 0:
		if vfC15Known(vfC15KeyDot) {
			dom = dom && !dotRegion
		}
		if vfC15Known(vfC15KeyOverflow) {
			dom = dom && !overflowRegion
		}
	case 1:
		dom = dom && dotRegion && !overflowRegion
	case 2:
		dom = dom && overflowRegion && !dotRegion
	}
	assume(dom)
	// The two input regions of the known findings get their own assertion label. The constant
	// assertions inside the arms only force a real case split here (an assertion cannot be part of
	// a merged region), so that `where` is concrete afterwards.
	where := ""
	if overflowRegion {
		verifAssert(true, "case split")
		where = " [window end start+length exceeds the int range]"
	} else if dotRegion {
		verifAssert(true, "case split")
		where = " [noref without a reference, '.' residue present]"
	}
	okErr := wantErr || start > L // a start past the end may be rejected or be an empty window
	okNoErr := !wantErr

	err := al.Mask(refseq, start, length, maskreplace, nogap, noref)
	verifReach("called")
	if err != nil {
		verifReach("rejected")
		verifAssert(okErr, "an error is reported only for a negative start, a start past the end, an unknown replacement or an unknown reference that must be consulted")
	} else {
		verifReach("masked")
		verifAssert(okNoErr, "a negative start, an unknown replacement and an unknown reference that must be consulted are rejected")
	}
	vfC15CheckCells(al, n, L, want, where)
}

var vfC15RepsFixed = []int{vfC15RepEmpty, vfC15RepAmbig, vfC15RepGap, vfC15RepChar, vfC15RepBad}

// H_C15_mask_window: Mask with a fixed replacement character rewrites exactly the requested, unprotected cells.
// bounds: shapes 1x1, 2x2, 3x2 (rows x columns), residues any printable ASCII, start and length arbitrary 64-bit integers (empty, overhanging, negative), replacement in {"", "AMBIG" (both alphabets), "GAP", one printable character, an unknown keyword}, nogap/noref all 4 combinations, reference in {none, each row, a name not in the alignment}
// outside: L>2 (thorough twin: 3x3, 2x4), n>3, residues >= 0x80, the MAJ replacement (H_C15_mask_maj)
func H_C15_mask_window() {
	vfC15MaskBody([][2]int{{1, 1}, {2, 2}, {3, 2}}, vfC15RepsFixed, 0)
}

// H_C15_mask_window_deep: as H_C15_mask_window on larger shapes.
// bounds: as H_C15_mask_window with shapes 3x3 and 2x4
// outside: n>3, L>4
// verif: tier=thorough
func H_C15_mask_window_deep() {
	vfC15MaskBody([][2]int{{3, 3}, {2, 4}}, vfC15RepsFixed, 0)
}

// K_C15_mask_dot: demonstrates that Mask with noref=true and no reference leaves '.' residues unmasked.
// bounds: 1x1 and 2x2, replacement "" or "GAP"
// verif: known=C15-noref-without-reference-protects-dot expect=violation
func K_C15_mask_dot() {
	vfC15MaskBody([][2]int{{1, 1}, {2, 2}}, []int{vfC15RepEmpty, vfC15RepGap}, 1)
}

// K_C15_mask_overflow: demonstrates that a window whose end start+length exceeds the int range is not masked at all.
// bounds: 1x1 and 2x2, replacement "" or "GAP"
// verif: known=C15-window-end-overflow expect=violation
func K_C15_mask_overflow() {
	vfC15MaskBody([][2]int{{1, 1}, {2, 2}}, []int{vfC15RepEmpty, vfC15RepGap}, 2)
}

// vfC15Majority returns the characters with the highest number of occurrences among the cells
// col[i] with use[i], and that number.
func vfC15Majority(col []uint8, use []bool) ([]uint8, int) {
	best := 0
	var ties []uint8
	for i := range col {
		if !use[i] {
			continue
		}
		occ := 0
		for i2 := range col {
			if use[i2] && col[i2] == col[i] {
				occ++
			}
		}
		if occ > best {
			best = occ
			ties = ties[:0]
		}
		if occ == best {
			dup := false
			for _, t := range ties {
				if t == col[i] {
					dup = true
				}
			}
			if !dup {
				ties = append(ties, col[i])
			}
		}
	}
	return ties, best
}

// vfC15CheckMajColumn checks column j after a MAJ masking: unmasked cells keep their residue,
// masked cells all hold one and the same character, which is one of ties.
func vfC15CheckMajColumn(al *align, orig [][]uint8, n, j int, masked []bool, ties []uint8) {
	g := make([]uint8, n)
	for i := 0; i < n; i++ {
		got, _ := al.GetSequenceCharById(i)
		g[i] = got[j]
	}
	for i := 0; i < n; i++ {
		verifAssert(masked[i] || g[i] == orig[i][j], "an unselected or protected cell keeps its residue")
		in := false
		for _, t := range ties {
			if g[i] == t {
				in = true
			}
		}
		verifAssert(!masked[i] || in, "a masked cell holds a most frequent character of its column")
		for i2 := 0; i2 < i; i2++ {
			verifAssert(!(masked[i] && masked[i2]) || g[i] == g[i2], "all masked cells of a column hold the same character")
		}
	}
}

// vfC15MaskMajBody drives Mask with the MAJ replacement on enumerated residues and a concrete window.
func vfC15MaskMajBody(n, L int, chars []uint8, maxLen int) {
	refseq, refRow, _ := vfC15Ref(n, false, false)
	start := nondetRange(0, L-1)
	length := nondetRange(1, maxLen)
	al, orig := vfC15EnumAlign(NUCLEOTIDS, n, L, chars)
	nogap, noref := nondetBool(), nondetBool()
	if vfC15Known(vfC15KeyDot) {
		hasDot := false
		for i := 0; i < n; i++ {
			for j := 0; j < L; j++ {
				if orig[i][j] == '.' {
					hasDot = true
				}
			}
		}
		assume(!(noref && refseq == "" && hasDot))
	}
	masked := make([][]bool, L)
	tiesOf := make([][]uint8, L)
	all := make([]bool, n)
	for i := range all {
		all[i] = true
	}
	for j := 0; j < L; j++ {
		col := make([]uint8, n)
		masked[j] = make([]bool, n)
		for i := 0; i < n; i++ {
			col[i] = orig[i][j]
			requested := j >= start && j-start < length
			protected := (nogap && col[i] == '-') || (noref && refRow >= 0 && col[i] == orig[refRow][j])
			masked[j][i] = requested && !protected
		}
		tiesOf[j], _ = vfC15Majority(col, all)
	}
	err := al.Mask(refseq, start, length, "MAJ", nogap, noref)
	verifReach("called")
	verifAssert(err == nil, "a window starting inside 0..L with the MAJ replacement is accepted")
	verifAssert(al.NbSequences() == n && al.Length() == L, "shape unchanged")
	for i := 0; i < n; i++ {
		name, _ := al.GetSequenceNameById(i)
		verifAssert(name == vfNames[i], "names and order unchanged")
	}
	for j := 0; j < L; j++ {
		if len(tiesOf[j]) > 1 {
			verifReach("tied majority")
		}
		vfC15CheckMajColumn(al, orig, n, j, masked[j], tiesOf[j])
	}
}

// H_C15_mask_maj: Mask with the MAJ replacement writes a most frequent character of the column into exactly the requested, unprotected cells.
// bounds: nucleotide alignments; 3x1 over residues {- A a C} and 2x2 over {- A C}, every content enumerated; start in 0..L-1, length in 1..2 (inside and overhanging windows); nogap/noref all 4 combinations; reference none, the first or the last row
// outside: n>3, L>2, other residues, protein alphabet (MAJ does not depend on it), empty windows and invalid starts (H_C15_mask_window)
func H_C15_mask_maj() {
	if nondetRange(0, 1) == 0 {
		vfC15MaskMajBody(3, 1, []uint8{'-', 'A', 'a', 'C'}, 2)
	} else {
		vfC15MaskMajBody(2, 2, []uint8{'-', 'A', 'C'}, 2)
	}
}

// H_C15_mask_maj_deep: as H_C15_mask_maj on 3x2 and 4x1.
// bounds: 3x2 over {- A C}, 4x1 over {- A a C}; otherwise as H_C15_mask_maj with length in 1..3
// outside: n>4, L>2
// verif: tier=thorough
func H_C15_mask_maj_deep() {
	if nondetRange(0, 1) == 0 {
		vfC15MaskMajBody(4, 1, []uint8{'-', 'A', 'a', 'C'}, 3)
	} else {
		vfC15MaskMajBody(3, 2, []uint8{'-', 'A', 'C'}, 3)
	}
}

// vfC15OccBody drives MaskOccurences (unique=false) or MaskUnique (unique=true) on enumerated residues.
// mode 0: main; 3: only inputs of vfC15KeyMaj.
func vfC15OccBody(unique bool, shapes [][2]int, chars []uint8, reps []int, withUnknown bool, mode int) {
	sh := shapes[nondetRange(0, len(shapes)-1)]
	n, L := sh[0], sh[1]
	repSel := reps[nondetRange(0, len(reps)-1)]
	alphabet := NUCLEOTIDS
	if repSel <= vfC15RepAmbig && nondetRange(0, 1) == 1 {
		alphabet = AMINOACIDS
	}
	refseq, refRow, refUnknown := vfC15Ref(n, false, withUnknown)
	al, orig := vfC15EnumAlign(alphabet, n, L, chars)
	maskreplace, rep, dom := vfC15Replacement(repSel, alphabet)
	assume(dom)
	thr := 1
	if !unique {
		thr = nondetInt()
	}
	wantErr := repSel == vfC15RepBad || refUnknown

	// oracle: which cells are masked (symbolic in thr only), per column
	masked := make([][]bool, L)
	counted := make([][]bool, L)
	cols := make([][]uint8, L)
	for j := 0; j < L; j++ {
		cols[j] = make([]uint8, n)
		counted[j] = make([]bool, n)
		masked[j] = make([]bool, n)
		for i := 0; i < n; i++ {
			cols[j][i] = orig[i][j]
			counted[j][i] = refRow < 0 || (i != refRow && (orig[i][j] != orig[refRow][j] || orig[refRow][j] == '-'))
		}
		for i := 0; i < n; i++ {
			occ := 0
			for i2 := 0; i2 < n; i2++ {
				if counted[j][i2] && cols[j][i2] == cols[j][i] {
					occ++
				}
			}
			masked[j][i] = !wantErr && counted[j][i] && cols[j][i] != '-' && occ <= thr
		}
	}
	all := make([]bool, n)
	for i := range all {
		all[i] = true
	}
	// MAJ: the documented replacement is the most frequent character of the column
	majRegion := false
	tiesOf := make([][]uint8, L)
	if repSel == vfC15RepMaj {
		for j := 0; j < L; j++ {
			tiesCol, _ := vfC15Majority(cols[j], all)
			tiesCounted, _ := vfC15Majority(cols[j], counted[j])
			tiesOf[j] = tiesCol
			// the two readings differ on this column iff some counted-majority character is not a column-majority character
			differ := false
			for _, t := range tiesCounted {
				in := false
				for _, u := range tiesCol {
					if t == u {
						in = true
					}
				}
				if !in {
					differ = true
				}
			}
			if differ {
				majRegion = true
				if mode == 0 {
					// The property does not fix the replacement character of rare-residue masking
					// (only which cells are masked): both readings of "most frequent character" are
					// accepted - of the whole column (function documentation) or of the counted
					// cells (implementation)
					tiesOf[j] = append(append([]uint8{}, tiesCol...), tiesCounted...)
				}
			}
		}
	}
	if mode == 3 {
		assume(majRegion)
	}

	var err error
	if unique {
		err = al.MaskUnique(refseq, maskreplace)
	} else {
		err = al.MaskOccurences(refseq, thr, maskreplace)
	}
	verifReach("called")
	if wantErr {
		verifAssert(err != nil, "an unknown replacement or an unknown reference is rejected")
		verifReach("rejected")
	} else {
		verifAssert(err == nil, "valid arguments are accepted")
		verifReach("masked")
	}
	verifAssert(al.NbSequences() == n && al.Length() == L, "shape unchanged")
	for i := 0; i < n; i++ {
		name, _ := al.GetSequenceNameById(i)
		verifAssert(name == vfNames[i], "names and order unchanged")
	}
	for j := 0; j < L; j++ {
		if repSel == vfC15RepMaj && !wantErr {
			vfC15CheckMajColumn(al, orig, n, j, masked[j], tiesOf[j])
			continue
		}
		for i := 0; i < n; i++ {
			got, _ := al.GetSequenceCharById(i)
			want := orig[i][j]
			if masked[j][i] {
				want = rep
			}
			verifAssert(got[j] == want, "cell holds the replacement if it is a rare counted non-gap residue, its old residue otherwise")
		}
	}
}

var vfC15RepsOcc = []int{vfC15RepEmpty, vfC15RepGap, vfC15RepChar, vfC15RepMaj}

// H_C15_maskocc: MaskOccurences masks exactly the counted non-gap residues whose column count is at most the threshold.
// bounds: shapes 3x1 over residues {- A C N}, 4x1 and 2x2 over {- A C}, every content enumerated; threshold an arbitrary 64-bit integer; replacement in {"" (both alphabets), "GAP", one printable character, "MAJ"}; reference none, the first or the last row
// outside: n>4, L>2, other residues (>= 0x80 in particular: the library's 130-entry tables); rejected arguments (H_C15_maskocc_errors)
func H_C15_maskocc() {
	switch nondetRange(0, 2) {
	case 0:
		vfC15OccBody(false, [][2]int{{3, 1}}, []uint8{'-', 'A', 'C', 'N'}, vfC15RepsOcc, false, 0)
	case 1:
		vfC15OccBody(false, [][2]int{{4, 1}}, []uint8{'-', 'A', 'C'}, vfC15RepsOcc, false, 0)
	default:
		vfC15OccBody(false, [][2]int{{2, 2}}, []uint8{'-', 'A', 'C'}, vfC15RepsOcc, false, 0)
	}
}

// H_C15_maskocc_deep: as H_C15_maskocc on larger shapes.
// bounds: 4x1 over {- A C N}, 3x2 over {- A C}; otherwise as H_C15_maskocc
// outside: n>4, L>2
// verif: tier=thorough
func H_C15_maskocc_deep() {
	if nondetRange(0, 1) == 0 {
		vfC15OccBody(false, [][2]int{{4, 1}}, []uint8{'-', 'A', 'C', 'N'}, vfC15RepsOcc, false, 0)
	} else {
		vfC15OccBody(false, [][2]int{{3, 2}}, []uint8{'-', 'A', 'C'}, vfC15RepsOcc, false, 0)
	}
}

// H_C15_maskocc_errors: MaskOccurences / MaskUnique reject an unknown replacement keyword and an unknown reference and then change nothing; "AMBIG" is the same as "".
// bounds: 2x1 over {- A C}; replacement in {"AMBIG" (both alphabets), an unknown keyword, "GAP"}; reference none, a row, or a name not in the alignment; threshold arbitrary
// outside: larger shapes (the checks do not depend on the content)
func H_C15_maskocc_errors() {
	unique := nondetRange(0, 1) == 1
	vfC15OccBody(unique, [][2]int{{2, 1}}, []uint8{'-', 'A', 'C'}, []int{vfC15RepAmbig, vfC15RepBad, vfC15RepGap}, true, 0)
}

// H_C15_maskunique: MaskUnique is MaskOccurences with threshold 1.
// bounds: shapes 3x1 over {- A C N} and 2x2 over {- A C}, every content enumerated; replacement in {"" (both alphabets), "GAP", "MAJ", one printable character}; reference none, the first or the last row
// outside: n>3, L>2
func H_C15_maskunique() {
	if nondetRange(0, 1) == 0 {
		vfC15OccBody(true, [][2]int{{3, 1}}, []uint8{'-', 'A', 'C', 'N'}, vfC15RepsOcc, false, 0)
	} else {
		vfC15OccBody(true, [][2]int{{2, 2}}, []uint8{'-', 'A', 'C'}, vfC15RepsOcc, false, 0)
	}
}

// K_C15_maskocc_maj: demonstrates that MaskOccurences("MAJ") with a reference does not use the most frequent character of the column.
// bounds: 3x1 and 4x1 over {- A C}, replacement MAJ
// verif: known=C15-maskocc-maj-not-column-majority expect=violation
func K_C15_maskocc_maj() {
	vfC15OccBody(false, [][2]int{{3, 1}, {4, 1}}, []uint8{'-', 'A', 'C'}, []int{vfC15RepMaj}, false, 3)
}
