//go:build verif

package align

// C05 — translation follows the genetic code for every codon, frame and ambiguity.
//
// Oracle data (transcribed from the NCBI genetic code tables, transl_table format,
// base order T,C,A,G, index = 16*b1 + 4*b2 + b3). Not derived from align/const.go.
const (
	vfNCBI1 = "FFLLSSSSYY**CC*WLLLLPPPPHHQQRRRRIIIMTTTTNNKKSSRRVVVVAAAADDEEGGGG" // standard
	vfNCBI2 = "FFLLSSSSYY**CCWWLLLLPPPPHHQQRRRRIIMMTTTTNNKKSS**VVVVAAAADDEEGGGG" // vertebrate mitochondrial
	vfNCBI5 = "FFLLSSSSYY**CCWWLLLLPPPPHHQQRRRRIIMMTTTTNNKKSSSSVVVVAAAADDEEGGGG" // invertebrate mitochondrial
)

// IUPAC bit of the k-th base in NCBI order T,C,A,G (A=1, C=2, G=4, T=8 as in vfMask).
var vfNCBIBit = [4]uint8{8, 2, 1, 4}

// vfNCBITable maps goalign's genetic code constant to the NCBI table string.
func vfNCBITable(code int) string {
	switch code {
	case GENETIC_CODE_STANDARD:
		return vfNCBI1
	case GENETIC_CODE_VETEBRATE_MITO:
		return vfNCBI2
	case GENETIC_CODE_INVETEBRATE_MITO:
		return vfNCBI5
	}
	panic("harness: unknown genetic code")
}

// vfFoldMask: IUPAC mask of a residue after case folding and U->T; 0 for anything that is
// not a nucleotide code (gap included).
func vfFoldMask(c uint8) uint8 {
	if c >= 'a' && c <= 'z' {
		c -= 32
	}
	return vfMask(c) // vfMask gives U the mask of T
}

// vfRefCodon is the reference translation of one codon:
// full-gap codon -> '-'; a codon of three nucleotide codes -> the amino acid shared by all
// its expansions, 'X' if they disagree; any other codon -> 'X'.
func vfRefCodon(c1, c2, c3 uint8, table string) uint8 {
	m1, m2, m3 := vfFoldMask(c1), vfFoldMask(c2), vfFoldMask(c3)
	var first uint8
	conflict := false
	for i := 0; i < 4; i++ {
		for j := 0; j < 4; j++ {
			for k := 0; k < 4; k++ {
				e := table[16*i+4*j+k]
				if m1&vfNCBIBit[i] != 0 && m2&vfNCBIBit[j] != 0 && m3&vfNCBIBit[k] != 0 {
					if first == 0 {
						first = e
					} else if first != e {
						conflict = true
					}
				}
			}
		}
	}
	var out uint8 = 'X'
	if c1 == '-' && c2 == '-' && c3 == '-' {
		out = '-'
	} else if m1 != 0 && m2 != 0 && m3 != 0 && !conflict {
		out = first
	}
	return out
}

// vfQuickCodonClass: the sub-alphabet used for codon positions 1 and 2 in the quick tier.
func vfQuickCodonClass(c uint8) bool {
	switch c {
	case 'A', 'C', 'G', 'T', 'U', 'R', 'Y', 'N', '-', 'a', 'c', 'g', 't', 'u', 'r', 'y', 'n':
		return true
	}
	return false
}

// vfCodonQuick: codon-level check for one genetic code on the quick sub-alphabet.
func vfCodonQuick(sel int) {
	code, err := geneticCode(sel)
	verifAssert(err == nil, "genetic code exists")
	c1, c2, c3 := nondetByte(), nondetByte(), nondetByte()
	assume(vfQuickCodonClass(c1) && vfQuickCodonClass(c2))
	got := translateCodon(c1, c2, c3, code)
	verifReach("codon")
	want := vfRefCodon(c1, c2, c3, vfNCBITable(sel))
	verifAssert(got == want, "codon translation equals the NCBI table entry / IUPAC consensus / gap / X")
}

// H_C05_codon_std: translateCodon (standard code) equals NCBI table 1 with the IUPAC consensus, gap and X rules.
// bounds: standard code; positions 1,2: one of A C G T U R Y N (both cases) or '-'; position 3: any of the 256 byte values
// outside: remaining IUPAC codes and unknown bytes in positions 1,2 (covered by H_C05_codon_full, thorough tier)
func H_C05_codon_std() { vfCodonQuick(GENETIC_CODE_STANDARD) }

// H_C05_codon_vmito: translateCodon (vertebrate mitochondrial code) equals NCBI table 2 with the IUPAC consensus, gap and X rules.
// bounds: vertebrate mitochondrial code; positions 1,2: one of A C G T U R Y N (both cases) or '-'; position 3: any byte
// outside: remaining IUPAC codes and unknown bytes in positions 1,2 (covered by H_C05_codon_full, thorough tier)
func H_C05_codon_vmito() { vfCodonQuick(GENETIC_CODE_VETEBRATE_MITO) }

// H_C05_codon_imito: translateCodon (invertebrate mitochondrial code) equals NCBI table 5 with the IUPAC consensus, gap and X rules.
// bounds: invertebrate mitochondrial code; positions 1,2: one of A C G T U R Y N (both cases) or '-'; position 3: any byte
// outside: remaining IUPAC codes and unknown bytes in positions 1,2 (covered by H_C05_codon_full, thorough tier)
func H_C05_codon_imito() { vfCodonQuick(GENETIC_CODE_INVETEBRATE_MITO) }

// H_C05_codon_full: translateCodon for all three genetic codes and all 256^3 byte triples.
// bounds: codes standard / vertebrate mito / invertebrate mito; c1,c2,c3 any byte value 0..255
// outside: nothing at codon level
//verif: tier=thorough
func H_C05_codon_full() {
	sel := nondetRange(0, 2)
	code, err := geneticCode(sel)
	verifAssert(err == nil, "genetic code exists")
	c1, c2, c3 := nondetByte(), nondetByte(), nondetByte()
	got := translateCodon(c1, c2, c3, code)
	verifReach("codon")
	want := vfRefCodon(c1, c2, c3, vfNCBITable(sel))
	verifAssert(got == want, "codon translation equals the NCBI table entry / IUPAC consensus / gap / X")
}

func vfPop4(m uint8) int {
	n := 0
	for b := uint8(1); b <= 8; b <<= 1 {
		if m&b != 0 {
			n++
		}
	}
	return n
}

func vfBaseBit(c uint8) uint8 {
	switch c {
	case 'A':
		return 1
	case 'C':
		return 2
	case 'G':
		return 4
	case 'T':
		return 8
	}
	return 0
}

// vfGenCodons: GenAllPossibleCodons returns exactly the expansions of an IUPAC codon (upper case, U as T),
// and nothing for a triple containing a character that is neither a nucleotide code nor a gap.
func vfGenCodons(quick bool) {
	c1, c2, c3 := nondetByte(), nondetByte(), nondetByte()
	if quick {
		assume(vfQuickCodonClass(c1) && vfQuickCodonClass(c2))
	}
	codons := GenAllPossibleCodons(c1, c2, c3)
	verifReach("expanded")
	m := [3]uint8{vfFoldMask(c1), vfFoldMask(c2), vfFoldMask(c3)}
	unknown := (m[0] == 0 && c1 != '-') || (m[1] == 0 && c2 != '-') || (m[2] == 0 && c3 != '-')
	if unknown {
		verifReach("unknown character")
		verifAssert(len(codons) == 0, "no codon for a triple with an unknown character")
		return
	}
	if m[0] == 0 || m[1] == 0 || m[2] == 0 {
		// triple with at least one gap: the property only speaks about its translation (H_C05_codon_*)
		verifReach("gap")
		return
	}
	verifReach("nucleotide codes")
	verifAssert(len(codons) == vfPop4(m[0])*vfPop4(m[1])*vfPop4(m[2]), "number of expansions is the product of the ambiguity degrees")
	for i, cd := range codons {
		verifAssert(len(cd) == 3, "a codon has three letters")
		if len(cd) != 3 {
			continue
		}
		for p := 0; p < 3; p++ {
			b := vfBaseBit(cd[p])
			verifAssert(b != 0 && m[p]&b != 0, "every letter of an expansion is one of A C G T allowed by the IUPAC code at its position")
		}
		for j := 0; j < i; j++ {
			verifAssert(codons[j] != cd, "expansions are pairwise different")
		}
	}
}

// H_C05_gencodons: GenAllPossibleCodons yields exactly the IUPAC expansions of a codon (case folded, U as T).
// bounds: positions 1,2: one of A C G T U R Y N (both cases) or '-'; position 3: any of the 256 byte values
// outside: remaining codes in positions 1,2 (H_C05_gencodons_full); triples containing '-' (only their translation is claimed)
func H_C05_gencodons() { vfGenCodons(true) }

// H_C05_gencodons_full: as H_C05_gencodons for all 256^3 byte triples.
// bounds: c1,c2,c3 any byte value
// outside: triples containing '-' (only their translation is claimed)
//verif: tier=thorough
func H_C05_gencodons_full() { vfGenCodons(false) }

// H_C05_unknown_code: a genetic code number other than the three supported ones is rejected.
// bounds: code any 64-bit int outside {0,1,2}; sequence ATG
// outside: -
func H_C05_unknown_code() {
	c := nondetInt()
	assume(c != GENETIC_CODE_STANDARD && c != GENETIC_CODE_VETEBRATE_MITO && c != GENETIC_CODE_INVETEBRATE_MITO)
	s := NewSequence("s0", []uint8("ATG"), "")
	_, err := s.Translate(0, c)
	verifReach("unknown code")
	verifAssert(err != nil, "unsupported genetic code is an error")
}

// ---------------------------------------------------------------------------------------
// Sequence level: frames and lengths.

// Residues for sequence-level harnesses. The codon-level harnesses cover the whole alphabet with
// fully symbolic bytes. At sequence level the implementation forks once per IUPAC class and
// position anyway, so the class of a codon residue is chosen as a concrete shape parameter from a
// short alphabet string and only its letter case stays symbolic; residues that do not belong to
// any codon of the frame are fully symbolic over vfNtWide.
func vfClassByte(alpha string) uint8 {
	c := alpha[nondetRange(0, len(alpha)-1)]
	if c >= 'A' && c <= 'Z' && nondetBool() {
		c += 32
	}
	return c
}

// vfNtWide: what goalign accepts in a nucleotide sequence besides U: IUPAC codes in both cases, gap,
// and the "unknown" characters . * ? X.
func vfNtWide(c uint8) bool {
	return vfIsIupacDNA(c, false) || c == '?' || c == 'X' || c == 'x'
}

// vfRow: L residues; positions in [from,to) are class bytes over alpha, the others symbolic over vfNtWide.
func vfRow(L, from, to int, alpha string) []uint8 {
	s := make([]uint8, L)
	for j := range s {
		if j >= from && j < to {
			s[j] = vfClassByte(alpha)
		} else {
			s[j] = nondetByte()
			assume(vfNtWide(s[j]))
		}
	}
	return s
}

// vfClsAlign builds an n x L nucleotide alignment of class bytes over alpha.
func vfClsAlign(n, L int, alpha string) (*align, [][]uint8) {
	al := NewAlign(NUCLEOTIDS)
	orig := make([][]uint8, n)
	for i := 0; i < n; i++ {
		orig[i] = vfRow(L, 0, L, alpha)
		if err := al.AddSequenceChar(vfNames[i], vfCopy(orig[i]), ""); err != nil {
			panic("harness: cannot build alignment: " + err.Error())
		}
	}
	return al, orig
}

func vfCopy(s []uint8) []uint8 {
	c := make([]uint8, len(s))
	copy(c, s)
	return c
}

// vfFrameLen is floor((L-frame)/3) for L >= frame, else 0.
func vfFrameLen(L, frame int) int {
	if L < frame {
		return 0
	}
	return (L - frame) / 3
}

// vfCheckTranslation asserts that got is the translation of nt in the given frame.
func vfCheckTranslation(got []uint8, nt []uint8, frame int, table string) {
	k := vfFrameLen(len(nt), frame)
	verifAssert(len(got) == k, "translation has floor((L-frame)/3) residues")
	for i := 0; i < k && i < len(got); i++ {
		p := frame + 3*i
		verifAssert(got[i] == vfRefCodon(nt[p], nt[p+1], nt[p+2], table), "residue i is the translation of codon i of the frame")
	}
}

func vfSeqFrames(maxL int, alpha string, sel int) {
	L := nondetRange(0, maxL)
	frame := nondetRange(0, 2)
	k := vfFrameLen(L, frame)
	nt := vfRow(L, frame, frame+3*k, alpha)
	s := NewSequence("s0", vfCopy(nt), "c")
	tr, err := s.Translate(frame, sel)
	verifReach("translated")
	if k == 0 {
		verifReach("too short")
		verifAssert(err != nil, "no complete codon in the frame is an error")
		return
	}
	verifReach("ok")
	verifAssert(err == nil, "sequence with a complete codon is translated")
	verifAssert(tr.Length() == k, "Length() is floor((L-frame)/3)")
	verifAssert(tr.Name() == "s0", "name kept")
	vfCheckTranslation(tr.SequenceChar(), nt, frame, vfNCBITable(sel))
	for j := 0; j < L; j++ {
		verifAssert(s.SequenceChar()[j] == nt[j], "input sequence unchanged")
	}
}

// H_C05_seq_frames: Sequence.Translate in frames 0,1,2 gives floor((L-frame)/3) residues, residue i = codon i; error when zero.
// bounds: L<=7, frame 0..2, standard code; codon residues A/U (both cases) or '-'; residues outside the frame's codons: any IUPAC code, - . * ? X
// outside: L>7, other codes (H_C05_seq_frames_deep), other residues inside codons (covered per codon by H_C05_codon_*)
func H_C05_seq_frames() { vfSeqFrames(7, "AU-", GENETIC_CODE_STANDARD) }

// H_C05_seq_frames_deep: as H_C05_seq_frames with T next to U and all three codes.
// bounds: L<=8, frame 0..2, all 3 codes; codon residues A/T/U (both cases) or '-'
// outside: L>8
//verif: tier=thorough
func H_C05_seq_frames_deep() { vfSeqFrames(8, "ATU-", nondetRange(0, 2)) }

// H_C05_seq_wrong_alphabet: a sequence that can only be a protein is not translated.
// bounds: L=3..4, one residue is one of E F I L P Q Z (both cases), the others arbitrary printable ASCII; frame 0
// outside: -
func H_C05_seq_wrong_alphabet() {
	L := nondetRange(3, 4)
	at := nondetRange(0, L-1)
	nt := make([]uint8, L)
	for j := range nt {
		nt[j] = nondetByte()
		assume(nt[j] >= 0x21 && nt[j] <= 0x7e)
	}
	u := nt[at]
	if u >= 'a' && u <= 'z' {
		u -= 32
	}
	assume(u == 'E' || u == 'F' || u == 'I' || u == 'L' || u == 'P' || u == 'Q' || u == 'Z')
	_, err := NewSequence("s0", nt, "").Translate(0, GENETIC_CODE_STANDARD)
	verifReach("protein")
	verifAssert(err != nil, "a protein-only sequence is rejected")
}

// H_C05_seq_symbolic: Sequence.Translate in frame 1 of a 4-residue sequence whose residues are symbolic bytes (not class-enumerated).
// bounds: L=4, frame 1, standard code; leading residue and codon position 3: any IUPAC code, U, - . * ? X (both cases); codon positions 1,2: A C G T U (both cases)
// outside: longer sequences (class-enumerated in H_C05_seq_frames), ambiguity codes in codon positions 1,2 (H_C05_seq_symbolic_deep)
func H_C05_seq_symbolic() { vfSeqSymbolic(true, GENETIC_CODE_STANDARD) }

// H_C05_seq_symbolic_deep: as H_C05_seq_symbolic with all codon positions over the whole nucleotide alphabet.
// bounds: L=4, frame 1, vertebrate mitochondrial code; every residue: any IUPAC code, U, - . * ? X in both cases
// outside: longer sequences
//verif: tier=thorough
func H_C05_seq_symbolic_deep() { vfSeqSymbolic(false, GENETIC_CODE_VETEBRATE_MITO) }

func vfIsBase(c uint8) bool {
	switch c {
	case 'A', 'C', 'G', 'T', 'U', 'a', 'c', 'g', 't', 'u':
		return true
	}
	return false
}

func vfSeqSymbolic(quick bool, sel int) {
	frame := 1
	L := 3 + frame
	nt := make([]uint8, L)
	for j := range nt {
		nt[j] = nondetByte()
		assume(vfNtWide(nt[j]) || nt[j] == 'U' || nt[j] == 'u')
		if quick && j >= frame && j < frame+2 {
			assume(vfIsBase(nt[j]))
		}
	}
	tr, err := NewSequence("s0", vfCopy(nt), "").Translate(frame, sel)
	verifReach("translated")
	verifAssert(err == nil, "a nucleotide sequence with one complete codon is translated")
	vfCheckTranslation(tr.SequenceChar(), nt, frame, vfNCBITable(sel))
}

// H_C05_bag_wrong_alphabet: a sequence bag declared as amino acids is not translated.
// bounds: one row ATGAAA, bag alphabet AMINOACIDS, phase -1..2, all 3 codes
// outside: -
func H_C05_bag_wrong_alphabet() {
	sb := NewSeqBag(AMINOACIDS)
	sb.AddSequenceChar("s0", []uint8("ATGAAA"), "")
	err := sb.Translate(nondetRange(-1, 2), nondetRange(0, 2))
	verifReach("protein bag")
	verifAssert(err != nil, "a bag whose alphabet is not nucleotide is rejected")
}

// vfSymBagRows builds n rows of the given lengths of class bytes over alpha and adds them to sb.
func vfSymBagRows(sb SeqBag, lens []int, alpha string) [][]uint8 {
	orig := make([][]uint8, len(lens))
	for i, L := range lens {
		orig[i] = vfRow(L, 0, L, alpha)
		if err := sb.AddSequenceChar(vfNames[i], vfCopy(orig[i]), ""); err != nil {
			panic("harness: cannot build the input: " + err.Error())
		}
	}
	return orig
}

func vfBagFrames(maxL1, maxL2 int, alpha1, alpha2 string, sel int) {
	n := nondetRange(1, 2)
	lens := make([]int, n)
	for i := range lens {
		if n == 1 {
			lens[i] = nondetRange(2, maxL1)
		} else {
			lens[i] = nondetRange(2, maxL2)
		}
	}
	frame := nondetRange(0, 2)
	sb := NewSeqBag(NUCLEOTIDS)
	alpha := alpha1
	if n == 2 {
		alpha = alpha2
	}
	orig := vfSymBagRows(sb, lens, alpha)
	err := sb.Translate(frame, sel)
	verifReach("translated")
	short := false
	for _, L := range lens {
		if vfFrameLen(L, frame) == 0 {
			short = true
		}
	}
	if short {
		verifReach("too short")
		verifAssert(err != nil, "a row without a complete codon in the frame is an error")
		return
	}
	verifReach("ok")
	verifAssert(err == nil, "rows with a complete codon are translated")
	verifAssert(sb.NbSequences() == n, "one protein per nucleotide row")
	for i := 0; i < n && i < sb.NbSequences(); i++ {
		name, _ := sb.GetSequenceNameById(i)
		verifAssert(name == vfNames[i], "names and order kept")
		got, _ := sb.GetSequenceCharById(i)
		vfCheckTranslation(got, orig[i], frame, vfNCBITable(sel))
	}
}

// H_C05_bag_frames: SeqBag.Translate in frames 0,1,2 translates every row (rows of different lengths) with floor((L_i-frame)/3) residues; error when zero for some row.
// bounds: n=1: L in 2..6, residues A/U (both cases) or '-'; n=2: L_i in 2..5 independently, residues A/U (both cases); frame 0..2; standard code
// outside: longer rows, n>2, other residues (codon level), other codes (H_C05_bag_frames_deep)
func H_C05_bag_frames() { vfBagFrames(6, 5, "AU-", "AU", GENETIC_CODE_STANDARD) }

// H_C05_bag_frames_deep: as H_C05_bag_frames, up to two codons per row for n=2.
// bounds: n=1: L in 2..8, residues A/U (both cases) or '-'; n=2: L_i in 2..6 independently, residues A/U (both cases); frame 0..2; vertebrate mitochondrial code
// outside: longer rows, n>2
//verif: tier=thorough
func H_C05_bag_frames_deep() { vfBagFrames(8, 6, "AU-", "AU", GENETIC_CODE_VETEBRATE_MITO) }

var vfFrameSuffix = []string{"_0", "_1", "_2"}

// vfCheck3Frames: rows 3i, 3i+1, 3i+2 of sb are the translations of orig[i] in frames 0,1,2, named <name>_<frame>.
func vfCheck3Frames(sb SeqBag, orig [][]uint8, table string) {
	n := len(orig)
	verifAssert(sb.NbSequences() == 3*n, "three proteins per nucleotide row")
	for i := 0; i < n; i++ {
		for f := 0; f < 3; f++ {
			if 3*i+f >= sb.NbSequences() {
				continue
			}
			name, _ := sb.GetSequenceNameById(3*i + f)
			verifAssert(name == vfNames[i]+vfFrameSuffix[f], "3-frame translation is named <name>_<frame>, frames in order")
			got, _ := sb.GetSequenceCharById(3*i + f)
			vfCheckTranslation(got, orig[i], f, table)
		}
	}
}

func vfBag3Frames(maxL1, maxL2 int, alpha1, alpha2 string, sel int) {
	n := nondetRange(1, 2)
	lens := make([]int, n)
	for i := range lens {
		if n == 1 {
			lens[i] = nondetRange(3, maxL1)
		} else {
			lens[i] = nondetRange(4, maxL2)
		}
	}
	sb := NewSeqBag(NUCLEOTIDS)
	alpha := alpha1
	if n == 2 {
		alpha = alpha2
	}
	orig := vfSymBagRows(sb, lens, alpha)
	err := sb.Translate(-1, sel)
	verifReach("translated")
	short := false
	for _, L := range lens {
		if vfFrameLen(L, 2) == 0 {
			short = true
		}
	}
	if short {
		verifReach("too short")
		verifAssert(err != nil, "a row without a complete codon in one of the three frames is an error")
		return
	}
	verifReach("ok")
	verifAssert(err == nil, "rows with a complete codon in every frame are translated")
	vfCheck3Frames(sb, orig, vfNCBITable(sel))
}

// H_C05_bag_3frames: SeqBag.Translate(-1) gives, per row, the three frame translations named name_0, name_1, name_2.
// bounds: n=1: L in 3..7, residues A/U (both cases) or '-'; n=2: L_i in 4..5, residues A/U (both cases); standard code
// outside: longer rows, n>2, other codes (H_C05_bag_3frames_deep)
func H_C05_bag_3frames() { vfBag3Frames(7, 5, "AU-", "AU", GENETIC_CODE_STANDARD) }

// H_C05_bag_3frames_deep: as H_C05_bag_3frames, longer rows.
// bounds: n=1: L in 3..9, residues A/U (both cases) or '-'; n=2: L_i in 4..6, residues A/U (both cases); invertebrate mitochondrial code
// outside: longer rows
//verif: tier=thorough
func H_C05_bag_3frames_deep() { vfBag3Frames(9, 6, "AU-", "AU", GENETIC_CODE_INVETEBRATE_MITO) }

func vfAlignFrames(maxL1, maxL2 int, alpha1, alpha2 string, sel int) {
	n := nondetRange(1, 2)
	L := 0
	if n == 1 {
		L = nondetRange(2, maxL1)
	} else {
		L = nondetRange(2, maxL2)
	}
	phase := nondetRange(-1, 2)
	alpha := alpha1
	if n == 2 {
		alpha = alpha2
	}
	al, orig := vfClsAlign(n, L, alpha)
	err := al.Translate(phase, sel)
	verifReach("translated")
	last := phase
	if phase == -1 {
		last = 2
	}
	if vfFrameLen(L, last) == 0 {
		verifReach("too short")
		verifAssert(err != nil, "an alignment without a complete codon in the frame is an error")
		return
	}
	verifAssert(err == nil, "alignment with a complete codon is translated")
	if phase == -1 {
		verifReach("three frames")
		vfCheck3Frames(al, orig, vfNCBITable(sel))
		return
	}
	verifReach("one frame")
	k := vfFrameLen(L, phase)
	verifAssert(al.Length() == k, "alignment length updated to floor((L-frame)/3)")
	verifAssert(al.NbSequences() == n, "row count kept")
	for i := 0; i < n && i < al.NbSequences(); i++ {
		name, _ := al.GetSequenceNameById(i)
		verifAssert(name == vfNames[i], "names and order kept")
		got, _ := al.GetSequenceCharById(i)
		vfCheckTranslation(got, orig[i], phase, vfNCBITable(sel))
	}
}

// H_C05_align_frames: Alignment.Translate in frames 0,1,2 updates Length() to floor((L-frame)/3) and translates every row; frame -1 gives the three frame translations per row.
// bounds: n=1: L in 2..6, residues A/U (both cases) or '-'; n=2: L in 2..5, residues A/U (both cases); phase -1..2; standard code
// outside: longer alignments, n>2, other codes (H_C05_align_frames_deep); for phase -1 nothing is asserted about Length() (rows of the three frames differ in length when L mod 3 != 2)
func H_C05_align_frames() { vfAlignFrames(6, 5, "AU-", "AU", GENETIC_CODE_STANDARD) }

// H_C05_align_frames_deep: as H_C05_align_frames with longer rows.
// bounds: n=1: L in 2..8, residues A/U (both cases) or '-'; n=2: L in 2..6, residues A/U (both cases); phase -1..2; vertebrate mitochondrial code
// outside: longer alignments
//verif: tier=thorough
func H_C05_align_frames_deep() { vfAlignFrames(8, 6, "AU-", "AU", GENETIC_CODE_VETEBRATE_MITO) }

// ---------------------------------------------------------------------------------------
// CodonAlign

// vfGapPattern chooses (as a concrete shape) which of W columns carry the k residues of a row: true = residue.
func vfGapPattern(W, k int) []bool {
	pat := make([]bool, W)
	left := k
	for j := 0; j < W; j++ {
		rest := W - j
		switch {
		case left == 0:
			pat[j] = false
		case left == rest:
			pat[j] = true
		default:
			pat[j] = nondetRange(0, 1) == 1
		}
		if pat[j] {
			left--
		}
	}
	return pat
}

func vfCodonAlign(maxW1, maxK1, maxW2, maxK2 int, alpha string, sel int) {
	table := vfNCBITable(sel)
	n := nondetRange(1, 2)
	W, maxK := 0, 0
	if n == 1 {
		W, maxK = nondetRange(1, maxW1), maxK1
	} else {
		W, maxK = nondetRange(1, maxW2), maxK2
	}
	if maxK > W {
		maxK = W
	}
	r := 1
	if n == 1 || maxK == 1 {
		r = nondetRange(0, 2)
	}
	nts := NewSeqBag(NUCLEOTIDS)
	prot := NewAlign(AMINOACIDS)
	orig := make([][]uint8, n)
	ks := make([]int, n)
	protRows := make([][]uint8, n)
	for i := 0; i < n; i++ {
		k := nondetRange(1, maxK)
		ks[i] = k
		L := 3*k + (r+i)%3
		orig[i] = vfRow(L, 0, 3*k, alpha)
		for j := 3 * k; j < L; j++ {
			assume(orig[i][j] != '-')
		}
		if err := nts.AddSequenceChar(vfNames[i], vfCopy(orig[i]), ""); err != nil {
			panic("harness: " + err.Error())
		}
		pat := vfGapPattern(W, k)
		row := make([]uint8, W)
		c := 0
		for j := 0; j < W; j++ {
			if pat[j] {
				row[j] = vfRefCodon(orig[i][3*c], orig[i][3*c+1], orig[i][3*c+2], table)
				c++
			} else {
				row[j] = '-'
			}
		}
		protRows[i] = row
		if err := prot.AddSequenceChar(vfNames[i], vfCopy(row), ""); err != nil {
			panic("harness: " + err.Error())
		}
	}
	ca, err := prot.CodonAlign(nts)
	verifReach("threaded")
	verifAssert(err == nil, "nucleotide rows are threaded onto the alignment of their translations")
	verifAssert(ca.NbSequences() == n, "one codon row per protein row")
	verifAssert(ca.Length() == 3*W, "codon alignment is three times as long as the protein alignment")
	for i := 0; i < n && i < ca.NbSequences(); i++ {
		name, _ := ca.GetSequenceNameById(i)
		verifAssert(name == vfNames[i], "names and order kept")
		got, _ := ca.GetSequenceCharById(i)
		verifAssert(len(got) == 3*W, "row is three times as long")
		c := 0
		for j := 0; j < len(got); j++ {
			if got[j] != '-' {
				verifAssert(c < 3*ks[i] && got[j] == orig[i][c], "ungapped codon row is the original nucleotide row")
				c++
			}
		}
		verifAssert(c == 3*ks[i], "only the (at most two) trailing bases beyond the last codon are dropped")
	}
	// ... and its translation is the protein alignment again.
	err = ca.Translate(0, sel)
	verifReach("translated back")
	verifAssert(err == nil, "codon alignment can be translated")
	verifAssert(ca.Length() == W && ca.NbSequences() == n, "translation has the shape of the protein alignment")
	for i := 0; i < n && i < ca.NbSequences(); i++ {
		got, _ := ca.GetSequenceCharById(i)
		verifAssert(len(got) == W, "translated row has the protein alignment length")
		for j := 0; j < W && j < len(got); j++ {
			verifAssert(got[j] == protRows[i][j], "translation of the codon alignment is the protein alignment")
		}
	}
}

// H_C05_codonalign: threading gap-free nucleotide rows onto a (declared amino-acid) alignment of their translations with arbitrary gap columns.
// bounds: n=1: protein width W<=3, k<=2 codons; n=2: W<=2, k=1 codon per row; r=0..2 trailing bases in row 0 and (r+1) mod 3 in row 1; every placement of the W-k gaps; standard code; codon nucleotides A/U in both cases, trailing bases any IUPAC code or . * ? X
// outside: nucleotide rows that contain '-' (a full-gap codon translates to '-', which the protein alignment cannot distinguish from an alignment gap), wider alignments, n>2; protein alignments whose alphabet was auto-detected (H_C05_codonalign_roundtrip)
func H_C05_codonalign() { vfCodonAlign(3, 2, 2, 1, "AU", GENETIC_CODE_STANDARD) }

// H_C05_codonalign_deep: as H_C05_codonalign, wider.
// bounds: n=1: W<=4, k<=3, 0..2 trailing bases; n=2: W<=3, k<=2, 1 trailing base in row 0 and 2 in row 1 (W=1: r and (r+1) mod 3 for r=0..2); invertebrate mitochondrial code; codon nucleotides A/U in both cases, trailing bases any IUPAC code
// outside: as H_C05_codonalign
//verif: tier=thorough
func H_C05_codonalign_deep() { vfCodonAlign(4, 3, 3, 2, "AU", GENETIC_CODE_INVETEBRATE_MITO) }

// H_C05_codonalign_roundtrip: Translate an alignment with goalign, then thread the original rows onto that very result.
// bounds: n=1, L=3 (one codon), residues A C G T (both cases), standard code
// outside: more codons/rows
// assumes: the protein alignment is the object returned by Alignment.Translate (its alphabet is whatever Translate sets)
func H_C05_codonalign_roundtrip() {
	L := 3
	al, orig := vfClsAlign(1, L, "ACGT")
	nts := NewSeqBag(NUCLEOTIDS)
	if err := nts.AddSequenceChar(vfNames[0], vfCopy(orig[0]), ""); err != nil {
		panic("harness: " + err.Error())
	}
	verifAssert(al.Translate(0, GENETIC_CODE_STANDARD) == nil, "translated")
	prot := vfCopy(al.seqs[0].sequence)
	ca, err := al.CodonAlign(nts)
	verifReach("threaded")
	verifAssert(err == nil, "rows are threaded onto goalign's own translation of them")
	verifAssert(ca.Length() == 3 && ca.NbSequences() == 1, "one codon")
	got, _ := ca.GetSequenceCharById(0)
	for j := 0; j < 3 && j < len(got); j++ {
		verifAssert(got[j] == orig[0][j], "codon row is the original row")
	}
	verifAssert(ca.Translate(0, GENETIC_CODE_STANDARD) == nil, "translated back")
	back, _ := ca.GetSequenceCharById(0)
	verifAssert(len(back) == 1 && back[0] == prot[0], "same protein")
}

// H_C05_codonalign_errors: documented error cases of CodonAlign.
// bounds: one row, protein width 2 with one gap, nucleotides A/U; cases: protein alignment declared nucleotide, nucleotide bag declared amino acid, row name missing, nucleotide row shorter than its codons, nucleotide row with 3 bases too many
// outside: -
func H_C05_codonalign_errors() {
	which := nondetRange(0, 4)
	pa, na := AMINOACIDS, NUCLEOTIDS
	ntName := vfNames[0]
	L := 3
	switch which {
	case 0:
		pa = NUCLEOTIDS
	case 1:
		na = AMINOACIDS
	case 2:
		ntName = "other"
	case 3:
		L = 2
	case 4:
		L = 6
	}
	nt := vfRow(L, 0, L, "AU")
	nts := NewSeqBag(na)
	nts.AddSequenceChar(ntName, vfCopy(nt), "")
	prot := NewAlign(pa)
	gapFirst := nondetRange(0, 1) == 1
	aa := nondetByte()
	assume(aa >= 'A' && aa <= 'Z')
	row := []uint8{aa, '-'}
	if gapFirst {
		row = []uint8{'-', aa}
	}
	prot.AddSequenceChar(vfNames[0], row, "")
	_, err := prot.CodonAlign(nts)
	verifReach("error case")
	verifAssert(err != nil, "CodonAlign rejects wrong alphabets, missing rows and rows that do not match the protein length")
}

// ---------------------------------------------------------------------------------------
// TranslateByReference

func vfByRefNoGap(minL, maxL int, bothRefs bool, alpha string, sel int) {
	n := 2
	L := nondetRange(minL, maxL)
	frame := nondetRange(0, 2)
	ref := n - 1
	if bothRefs {
		ref = nondetRange(0, n-1)
	}
	al, orig := vfClsAlign(n, L, alpha)
	plainA, cerr := al.Clone()
	if cerr != nil {
		panic("harness: clone failed")
	}
	perr := plainA.Translate(frame, sel)
	err := al.TranslateByReference(frame, sel, vfNames[ref])
	verifReach("called")
	if vfFrameLen(L, frame) == 0 {
		verifReach("too short")
		verifAssert(perr != nil, "plain translation is an error when there is no complete codon")
		if err == nil {
			for i := 0; i < al.NbSequences(); i++ {
				got, _ := al.GetSequenceCharById(i)
				verifAssert(len(got) == 0, "no residue without a complete codon")
			}
		}
		return
	}
	verifReach("ok")
	verifAssert(perr == nil && err == nil, "both translations succeed")
	verifAssert(al.NbSequences() == n && plainA.NbSequences() == n, "row count kept")
	verifAssert(al.Length() == plainA.Length(), "same length as plain translation")
	for i := 0; i < n && i < al.NbSequences(); i++ {
		name, _ := al.GetSequenceNameById(i)
		verifAssert(name == vfNames[i], "names and order kept")
		got, _ := al.GetSequenceCharById(i)
		want, _ := plainA.GetSequenceCharById(i)
		verifAssert(len(got) == len(want), "same row length as plain translation")
		for j := 0; j < len(got) && j < len(want); j++ {
			verifAssert(got[j] == want[j], "gap-free alignment: reference-guided translation equals plain translation")
		}
		vfCheckTranslation(got, orig[i], frame, vfNCBITable(sel))
	}
}

// H_C05_byref_nogap: on a gap-free alignment TranslateByReference equals Translate in frames 0,1,2, whichever row is the reference.
// bounds: n=2, L in 2..5, frame 0..2, reference = row 0 or 1, standard code, residues A/U in both cases
// outside: L>5 (H_C05_byref_nogap_deep), n>2
func H_C05_byref_nogap() { vfByRefNoGap(2, 5, true, "AU", GENETIC_CODE_STANDARD) }

// H_C05_byref_nogap_deep: as H_C05_byref_nogap with two codons per row.
// bounds: n=2, L in 6..7, frame 0..2, reference = row 1, vertebrate mitochondrial code, residues A/U in both cases
// outside: L>7
//verif: tier=thorough
func H_C05_byref_nogap_deep() { vfByRefNoGap(6, 7, false, "AU", GENETIC_CODE_VETEBRATE_MITO) }

// vfGapOrLetterRow: column j is either a gap (chosen as a concrete shape) or the letter letters[j mod len] in
// symbolic case. With a single letter this is "every gap placement over one residue class"; with a
// longer string of A/U the codons that can be formed differ from column to column, so that a
// mis-grouped reference codon changes the amino acid (AAA K, AAU N, AUA I, AUU I, UAA *, UAU Y, UUA L, UUU F).
func vfGapOrLetterRow(L int, letters string) []uint8 {
	s := make([]uint8, L)
	for j := range s {
		if nondetRange(0, 1) == 1 {
			s[j] = '-'
		} else {
			c := letters[j%len(letters)]
			if nondetBool() {
				c += 32
			}
			s[j] = c
		}
	}
	return s
}

// vfByRefFrame0 checks TranslateByReference(frame 0) on the alignment with rows orig; ref is the index of the reference row.
func vfByRefFrame0(L int, orig [][]uint8, ref int, sel int) {
	n := len(orig)
	al := NewAlign(NUCLEOTIDS)
	for i := 0; i < n; i++ {
		if err := al.AddSequenceChar(vfNames[i], vfCopy(orig[i]), ""); err != nil {
			panic("harness: " + err.Error())
		}
	}
	err := al.TranslateByReference(0, sel, vfNames[ref])
	verifReach("called")
	verifAssert(err == nil, "reference-guided translation in frame 0 succeeds")
	verifAssert(al.NbSequences() == n, "row count kept")
	W := al.Length()
	for i := 0; i < n && i < al.NbSequences(); i++ {
		name, _ := al.GetSequenceNameById(i)
		verifAssert(name == vfNames[i], "names and order kept")
		got, _ := al.GetSequenceCharById(i)
		verifAssert(len(got) == W, "rectangular: every row has the alignment length")
	}
	// reference row without gaps is a prefix of the translation of the ungapped reference
	var ung []uint8
	for _, c := range orig[ref] {
		if c != '-' {
			ung = append(ung, c)
		}
	}
	refRow, _ := al.GetSequenceCharById(ref)
	c := 0
	table := vfNCBITable(sel)
	for j := 0; j < len(refRow); j++ {
		if refRow[j] != '-' {
			verifAssert(3*c+2 < len(ung), "reference row has no more residues than the ungapped reference has codons")
			if 3*c+2 < len(ung) {
				verifAssert(refRow[j] == vfRefCodon(ung[3*c], ung[3*c+1], ung[3*c+2], table), "reference row without gaps is a prefix of the translation of the ungapped reference")
			}
			c++
		}
	}
	if c > 0 {
		verifReach("reference residues")
	}
	if W > c {
		verifReach("gap in the reference protein row")
	}
}

// H_C05_byref_frame0: TranslateByReference in frame 0 with arbitrary gap placement: rectangular result, reference row degapped = prefix of the translation of the ungapped reference.
// bounds: n=2, reference = row 0, L in 3..6, every gap placement in both rows; the non-gap residue of column j is fixed up to case: reference AUUAUA, other row UAAUUA; standard code
// outside: L>6 (H_C05_byref_frame0_deep), other residues (H_C05_byref_frame0_rich), n>2, reference not the first row (deep)
func H_C05_byref_frame0() {
	L := nondetRange(3, 6)
	orig := [][]uint8{vfGapOrLetterRow(L, "AUUAUAA"), vfGapOrLetterRow(L, "UAAUUAU")}
	vfByRefFrame0(L, orig, 0, GENETIC_CODE_STANDARD)
}

// H_C05_byref_frame0_rich: as H_C05_byref_frame0 on shorter rows with every A/U/gap reference row.
// bounds: n=2, reference = row 0, L in 3..4, reference residues A/U (both cases) or '-' in every combination, other row A or '-'; standard code
// outside: L>4 (H_C05_byref_frame0_rich_deep)
func H_C05_byref_frame0_rich() {
	L := nondetRange(3, 4)
	orig := [][]uint8{vfRow(L, 0, L, "AU-"), vfRow(L, 0, L, "A-")}
	vfByRefFrame0(L, orig, 0, GENETIC_CODE_STANDARD)
}

// H_C05_byref_frame0_deep: as H_C05_byref_frame0 for L=7 and with either row as the reference.
// bounds: n=2, reference = row 0 or 1, L = 7, every gap placement in both rows; non-gap residue of column j fixed up to case: row 0 AUUAUAA, row 1 UAAUUAU; invertebrate mitochondrial code
// outside: L>7
//verif: tier=thorough
func H_C05_byref_frame0_deep() {
	L := 7
	ref := nondetRange(0, 1)
	orig := [][]uint8{vfGapOrLetterRow(L, "AUUAUAA"), vfGapOrLetterRow(L, "UAAUUAU")}
	vfByRefFrame0(L, orig, ref, GENETIC_CODE_INVETEBRATE_MITO)
}

// H_C05_byref_frame0_rich_deep: as H_C05_byref_frame0_rich up to L=6.
// bounds: n=2, reference = row 0, L in 5..6, reference residues A/U (both cases) or '-' in every combination, other row A or '-'; standard code
// outside: L>6
//verif: tier=thorough
func H_C05_byref_frame0_rich_deep() {
	L := nondetRange(5, 6)
	orig := [][]uint8{vfRow(L, 0, L, "AU-"), vfRow(L, 0, L, "A-")}
	vfByRefFrame0(L, orig, 0, GENETIC_CODE_STANDARD)
}
