//go:build verif

package align

// Shared helpers for the align-package harnesses. Reference models are written from the
// documentation of the public interface, not from the implementation.

var vfNames = []string{"s0", "s1", "s2", "s3", "s4"}

// vfIsIupacDNA: the IUPAC nucleotide alphabet in both cases plus '-', '.', '*'.
func vfIsIupacDNA(c uint8, allowU bool) bool {
	u := c
	if u >= 'a' && u <= 'z' {
		u -= 32
	}
	switch u {
	case 'A', 'C', 'G', 'T', 'R', 'Y', 'S', 'W', 'K', 'M', 'B', 'D', 'H', 'V', 'N':
		return true
	case 'U':
		return allowU
	}
	return c == '-' || c == '.' || c == '*'
}

// vfMask gives the IUPAC bit mask (A=1, C=2, G=4, T=8) of an upper-case nucleotide code, 0 otherwise.
func vfMask(u uint8) uint8 {
	switch u {
	case 'A':
		return 1
	case 'C':
		return 2
	case 'G':
		return 4
	case 'T', 'U':
		return 8
	case 'R':
		return 1 | 4
	case 'Y':
		return 2 | 8
	case 'S':
		return 2 | 4
	case 'W':
		return 1 | 8
	case 'K':
		return 4 | 8
	case 'M':
		return 1 | 2
	case 'B':
		return 2 | 4 | 8
	case 'D':
		return 1 | 4 | 8
	case 'H':
		return 1 | 2 | 8
	case 'V':
		return 1 | 2 | 4
	case 'N':
		return 15
	}
	return 0
}

// vfCodeOfMask is the inverse of vfMask on DNA codes.
func vfCodeOfMask(m uint8) uint8 {
	switch m {
	case 1:
		return 'A'
	case 2:
		return 'C'
	case 4:
		return 'G'
	case 8:
		return 'T'
	case 1 | 4:
		return 'R'
	case 2 | 8:
		return 'Y'
	case 2 | 4:
		return 'S'
	case 1 | 8:
		return 'W'
	case 4 | 8:
		return 'K'
	case 1 | 2:
		return 'M'
	case 2 | 4 | 8:
		return 'B'
	case 1 | 4 | 8:
		return 'D'
	case 1 | 2 | 8:
		return 'H'
	case 1 | 2 | 4:
		return 'V'
	case 15:
		return 'N'
	}
	return 0
}

// vfRefComplement: IUPAC complement as the set complement-by-pairing on bit masks
// (swap A<->T and C<->G), case preserved; '-', '.', '*' map to themselves.
func vfRefComplement(c uint8) uint8 {
	if c == '-' || c == '.' || c == '*' {
		return c
	}
	lower := c >= 'a' && c <= 'z'
	u := c
	if lower {
		u -= 32
	}
	m := vfMask(u)
	var r uint8
	if m&1 != 0 {
		r |= 8
	}
	if m&8 != 0 {
		r |= 1
	}
	if m&2 != 0 {
		r |= 4
	}
	if m&4 != 0 {
		r |= 2
	}
	out := vfCodeOfMask(r)
	if lower {
		out += 32
	}
	return out
}

// vfSnapshot copies names and residues through the public interface.
type vfSnap struct {
	names []string
	seqs  [][]uint8
	length int
	alphabet int
}

func vfSnapshotBag(sb SeqBag) vfSnap {
	var s vfSnap
	n := sb.NbSequences()
	for i := 0; i < n; i++ {
		name, _ := sb.GetSequenceNameById(i)
		chars, _ := sb.GetSequenceCharById(i)
		cp := make([]uint8, len(chars))
		copy(cp, chars)
		s.names = append(s.names, name)
		s.seqs = append(s.seqs, cp)
	}
	s.alphabet = sb.Alphabet()
	return s
}

func vfSnapshot(al Alignment) vfSnap {
	s := vfSnapshotBag(al)
	s.length = al.Length()
	return s
}

func vfSameSnap(a, b vfSnap) bool {
	if len(a.names) != len(b.names) || a.length != b.length || a.alphabet != b.alphabet {
		return false
	}
	ok := true
	for i := range a.names {
		if a.names[i] != b.names[i] || len(a.seqs[i]) != len(b.seqs[i]) {
			return false
		}
		for j := range a.seqs[i] {
			ok = ok && a.seqs[i][j] == b.seqs[i][j]
		}
	}
	return ok
}

// vfSymAlign builds an n x L alignment whose residues are symbolic bytes satisfying ok.
func vfSymAlign(alphabet, n, L int, ok func(uint8) bool) (*align, [][]uint8) {
	al := NewAlign(alphabet)
	orig := make([][]uint8, n)
	for i := 0; i < n; i++ {
		s := make([]uint8, L)
		for j := range s {
			s[j] = nondetByte()
			assume(ok(s[j]))
		}
		orig[i] = make([]uint8, L)
		copy(orig[i], s)
		if err := al.AddSequenceChar(vfNames[i], s, ""); err != nil {
			panic("harness: cannot build alignment: " + err.Error())
		}
	}
	return al, orig
}

// vfOrfBag: two nucleotide sequences, the first with an ORF on the forward strand, the second
// with one on the reverse strand; one residue of one of them (symbolic position) is an
// arbitrary nucleotide code, RNA's U/u included.
func vfOrfBag() (*seqbag, []string) {
	in := [][]uint8{[]uint8("CATGGAATAAG"), []uint8("TTTATTCCATA")}
	w := nondetRange(0, 1)
	p := nondetRange(0, len(in[w])-1)
	c := nondetByte()
	assume(vfIsIupacDNA(c, true) && c != '-' && c != '.' && c != '*')
	in[w][p] = c
	sb := NewSeqBag(NUCLEOTIDS)
	saved := make([]string, 2)
	for i := range in {
		if err := sb.AddSequenceChar(vfNames[i], in[i], ""); err != nil {
			panic("harness: " + err.Error())
		}
		saved[i] = string(in[i])
	}
	return sb, saved
}

func vfBagUnchanged(sb *seqbag, saved []string) bool {
	ok := sb.NbSequences() == len(saved)
	for i := range saved {
		s, found := sb.GetSequenceById(i)
		name, _ := sb.GetSequenceNameById(i)
		ok = ok && found && s == saved[i] && name == vfNames[i]
	}
	return ok
}

