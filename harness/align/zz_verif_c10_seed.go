//go:build verif

package align

// C10, last clause: "re-running any of them with the same random seed reproduces the result
// exactly". The generator re-seeded with the same seed delivers the same outcomes for the same
// sequence of requests: verifRandMark() / verifRandRewind() model exactly that (the outcomes of
// the first run, themselves arbitrary, are delivered again to the second run for as long as the
// requests are the same). Everything else that may differ between two runs of one process is
// explored: the iteration order of every map (maporder=1).
//
// verif-uses-rand: the replay build overlays math/rand so that the recorded draws are replayed.

// vfC10SameSnap: two results are the same, byte for byte and name for name.
func vfC10SameSnap(a, b vfSnap) bool {
	if len(a.names) != len(b.names) || a.length != b.length {
		return false
	}
	ok := true
	for i := range a.names {
		ok = ok && a.names[i] == b.names[i] && vfC10SameRow(a.seqs[i], b.seqs[i])
	}
	return ok
}

func vfC10SameNames(a, b []string) bool {
	if len(a) != len(b) {
		return false
	}
	ok := true
	for i := range a {
		ok = ok && a[i] == b[i]
	}
	return ok
}

// vfC10Twice runs op on two identical alignments, the second time with the generator rewound.
func vfC10Twice(n, L int, op func(al *align) (vfSnap, []string)) {
	a1 := vfC10Concrete(n, L)
	a2 := vfC10Concrete(n, L)
	verifRandMark()
	r1, x1 := op(a1)
	verifRandRewind()
	r2, x2 := op(a2)
	verifReach("ran twice")
	vfC10Observe(r1)
	verifAssert(vfC10SameSnap(r1, r2), "same seed, same input: same result")
	verifAssert(vfC10SameNames(x1, x2), "same seed, same input: same reported names")
}

// H_C10_seed_inplace: the in-place randomised operations give the same alignment again when the generator is re-seeded with the same seed.
// bounds: 3x3 alignment of pairwise distinct concrete residues (4x2 for Swap/Recombine: two pairs); ShuffleSequences, ShuffleSites(1/2,1/2,both), Swap(1/2,-1), Recombine(1/4,1/2,both), AddGaps(1/2,1/2), Mutate(1/2), SimulateRogue(1/2,1/2); every outcome of the draws of the first run; every map iteration order in both runs
// outside: other shapes and rates (the invariants over these are in the _invariant harnesses); sources of nondeterminism other than math/rand and map order (none is used by the code)
//verif: maporder=1 maxsteps=3000000
func H_C10_seed_inplace() {
	which := nondetRange(0, 6)
	flag := nondetBool()
	switch which {
	case 0:
		vfC10Twice(3, 3, func(al *align) (vfSnap, []string) { al.ShuffleSequences(); return vfSnapshot(al), nil })
	case 1:
		vfC10Twice(3, 3, func(al *align) (vfSnap, []string) {
			rogues := al.ShuffleSites(0.5, 0.5, flag)
			return vfSnapshot(al), rogues
		})
	case 2:
		vfC10Twice(4, 2, func(al *align) (vfSnap, []string) {
			err := al.Swap(0.5, -1)
			verifAssert(err == nil, "swap accepted")
			return vfSnapshot(al), nil
		})
	case 3:
		vfC10Twice(4, 2, func(al *align) (vfSnap, []string) {
			err := al.Recombine(0.25, 0.5, flag)
			verifAssert(err == nil, "recombine accepted")
			return vfSnapshot(al), nil
		})
	case 4:
		vfC10Twice(3, 3, func(al *align) (vfSnap, []string) { al.AddGaps(0.5, 0.5); return vfSnapshot(al), nil })
	case 5:
		vfC10Twice(2, 2, func(al *align) (vfSnap, []string) { al.Mutate(0.5); return vfSnapshot(al), nil })
	default:
		vfC10Twice(3, 3, func(al *align) (vfSnap, []string) {
			rogues, intacts := al.SimulateRogue(0.5, 0.5)
			return vfSnapshot(al), append(append([]string{}, rogues...), intacts...)
		})
	}
}

// H_C10_seed_derived: the randomised operations that build a new alignment give the same one again when the generator is re-seeded with the same seed.
// bounds: 3x4 alignment of pairwise distinct concrete residues; BuildBootstrap(1), BuildBootstrap(1/2), Sample(2), RandSubAlign(2, both modes), Rarefy(1|2, counts 1,2,1); every outcome of the draws of the first run; every iteration order of the counts map (and any other map) in both runs
// outside: other shapes, sizes and counts
//verif: maporder=1 maxsteps=3000000
func H_C10_seed_derived() {
	which := nondetRange(0, 4)
	flag := nondetBool()
	switch which {
	case 0:
		frac := 1.0
		if flag {
			frac = 0.5
		}
		vfC10Twice(3, 4, func(al *align) (vfSnap, []string) { return vfSnapshot(al.BuildBootstrap(frac)), nil })
	case 1:
		vfC10Twice(3, 4, func(al *align) (vfSnap, []string) {
			s, err := al.Sample(2)
			verifAssert(err == nil, "sample accepted")
			return vfSnapshot(s), nil
		})
	case 2:
		vfC10Twice(3, 4, func(al *align) (vfSnap, []string) {
			s, err := al.RandSubAlign(2, flag)
			verifAssert(err == nil, "sub-alignment accepted")
			return vfSnapshot(s), nil
		})
	default:
		nb := which - 2 // 1 or 2
		vfC10Twice(3, 2, func(al *align) (vfSnap, []string) {
			s, err := al.Rarefy(nb, map[string]int{vfNames[0]: 1, vfNames[1]: 2, vfNames[2]: 1})
			verifAssert(err == nil, "rarefaction accepted")
			return vfSnapshot(s), nil
		})
	}
}

// vfC10TwiceSame runs a non-mutating op twice on ONE alignment, the second time with the generator rewound.
func vfC10TwiceSame(n, L int, op func(al *align) vfSnap) {
	a := vfC10Concrete(n, L)
	before := vfSnapshot(a)
	verifRandMark()
	r1 := op(a)
	verifRandRewind()
	r2 := op(a)
	verifReach("ran twice on the same object")
	verifAssert(vfC10SameSnap(r1, r2), "same seed, same object: same result")
	verifAssert(vfC10SameSnap(before, vfSnapshot(a)), "the source is unchanged by both runs")
}

// H_C10_seed_same_object: the operations that build a new alignment give the same one again when they are re-run on the very same source object with the generator re-seeded (no state is carried from one call to the next).
// bounds: 3x4 alignment of pairwise distinct concrete residues; BuildBootstrap(1), BuildBootstrap(1/2), Sample(2), RandSubAlign(2, both modes), Rarefy(1|2, counts 1,2,1); every outcome of the draws of the first run; every map iteration order in both runs
// outside: other shapes, sizes and counts; more than two runs
//verif: maporder=1 maxsteps=3000000
func H_C10_seed_same_object() {
	which := nondetRange(0, 4)
	flag := nondetBool()
	switch which {
	case 0:
		frac := 1.0
		if flag {
			frac = 0.5
		}
		vfC10TwiceSame(3, 4, func(al *align) vfSnap { return vfSnapshot(al.BuildBootstrap(frac)) })
	case 1:
		vfC10TwiceSame(3, 4, func(al *align) vfSnap {
			s, err := al.Sample(2)
			verifAssert(err == nil, "sample accepted")
			return vfSnapshot(s)
		})
	case 2:
		vfC10TwiceSame(3, 4, func(al *align) vfSnap {
			s, err := al.RandSubAlign(2, flag)
			verifAssert(err == nil, "sub-alignment accepted")
			return vfSnapshot(s)
		})
	default:
		nb := which - 2
		vfC10TwiceSame(3, 2, func(al *align) vfSnap {
			s, err := al.Rarefy(nb, map[string]int{vfNames[0]: 1, vfNames[1]: 2, vfNames[2]: 1})
			verifAssert(err == nil, "rarefaction accepted")
			return vfSnapshot(s)
		})
	}
}

// H_C10_bootstrap_partial_support: in a partial bootstrap (frac<1) every site of the alignment, the last one included, can still be drawn, at every position of the result.
// bounds: n=2, L=4, concrete distinct columns, frac in {1/4, 1/2, 3/4}; reachability over all outcomes of the draws
// outside: L>4, other fractions
func H_C10_bootstrap_partial_support() {
	k := nondetRange(1, 3)
	al := vfC10Concrete(2, 4)
	boot := al.BuildBootstrap(float64(k) / 4)
	r, _ := boot.GetSequenceCharById(0)
	verifAssert(len(r) == k, "partial bootstrap has floor(frac*L) columns")
	f, l := int(r[0]-'A'), int(r[k-1]-'A')
	verifAssert(f >= 0 && f < 4 && l >= 0 && l < 4, "drawn sites are sites of the alignment")
	switch k*10 + f {
	case 10:
		verifSupport("frac=1/4 site 0 first")
	case 11:
		verifSupport("frac=1/4 site 1 first")
	case 12:
		verifSupport("frac=1/4 site 2 first")
	case 13:
		verifSupport("frac=1/4 site 3 first")
	case 20:
		verifSupport("frac=1/2 site 0 first")
	case 21:
		verifSupport("frac=1/2 site 1 first")
	case 22:
		verifSupport("frac=1/2 site 2 first")
	case 23:
		verifSupport("frac=1/2 site 3 first")
	case 30:
		verifSupport("frac=3/4 site 0 first")
	case 31:
		verifSupport("frac=3/4 site 1 first")
	case 32:
		verifSupport("frac=3/4 site 2 first")
	case 33:
		verifSupport("frac=3/4 site 3 first")
	}
	switch k*10 + l {
	case 20:
		verifSupport("frac=1/2 site 0 last")
	case 21:
		verifSupport("frac=1/2 site 1 last")
	case 22:
		verifSupport("frac=1/2 site 2 last")
	case 23:
		verifSupport("frac=1/2 site 3 last")
	case 30:
		verifSupport("frac=3/4 site 0 last")
	case 31:
		verifSupport("frac=3/4 site 1 last")
	case 32:
		verifSupport("frac=3/4 site 2 last")
	case 33:
		verifSupport("frac=3/4 site 3 last")
	}
}
