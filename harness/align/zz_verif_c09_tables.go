//go:build verif

package align

// C09 — the built-in substitution matrices and the character-to-index maps, checked entry by
// entry against the published tables: EDNAFULL (= NCBI NUC.4.4, as shipped with EMBOSS) and
// NCBI BLOSUM62. The tables below are transcribed from those publications, not from
// align/const.go. With two sequences of one residue each, the optimal local alignment is the
// single pair when its score is positive, and nothing (score 0) otherwise.

const vfC09DnaOrder = "ATGCSWRYKMBVHDNU"

var vfC09Ednafull = [16][16]int{
	//A   T   G   C   S   W   R   Y   K   M   B   V   H   D   N   U
	{5, -4, -4, -4, -4, 1, 1, -4, -4, 1, -4, -1, -1, -1, -2, -4},
	{-4, 5, -4, -4, -4, 1, -4, 1, 1, -4, -1, -4, -1, -1, -2, 5},
	{-4, -4, 5, -4, 1, -4, 1, -4, 1, -4, -1, -1, -4, -1, -2, -4},
	{-4, -4, -4, 5, 1, -4, -4, 1, -4, 1, -1, -1, -1, -4, -2, -4},
	{-4, -4, 1, 1, -1, -4, -2, -2, -2, -2, -1, -1, -3, -3, -1, -4},
	{1, 1, -4, -4, -4, -1, -2, -2, -2, -2, -3, -3, -1, -1, -1, 1},
	{1, -4, 1, -4, -2, -2, -1, -4, -2, -2, -3, -1, -3, -1, -1, -4},
	{-4, 1, -4, 1, -2, -2, -4, -1, -2, -2, -1, -3, -1, -3, -1, 1},
	{-4, 1, 1, -4, -2, -2, -2, -2, -1, -4, -1, -3, -3, -1, -1, 1},
	{1, -4, -4, 1, -2, -2, -2, -2, -4, -1, -3, -1, -1, -3, -1, -4},
	{-4, -1, -1, -1, -1, -3, -3, -1, -1, -3, -1, -2, -2, -2, -1, -1},
	{-1, -4, -1, -1, -1, -3, -1, -3, -3, -1, -2, -1, -2, -2, -1, -4},
	{-1, -1, -4, -1, -3, -1, -3, -1, -3, -1, -2, -2, -1, -2, -1, -1},
	{-1, -1, -1, -4, -3, -1, -1, -3, -1, -3, -2, -2, -2, -1, -1, -1},
	{-2, -2, -2, -2, -1, -1, -1, -1, -1, -1, -1, -1, -1, -1, -1, -2},
	{-4, 5, -4, -4, -4, 1, -4, 1, 1, -4, -1, -4, -1, -1, -2, 5},
}

const vfC09ProtOrder = "ARNDCQEGHILKMFPSTWYVBZX*"

var vfC09Blosum62 = [24][24]int{
	//A   R   N   D   C   Q   E   G   H   I   L   K   M   F   P   S   T   W   Y   V   B   Z   X   *
	{4, -1, -2, -2, 0, -1, -1, 0, -2, -1, -1, -1, -1, -2, -1, 1, 0, -3, -2, 0, -2, -1, 0, -4},
	{-1, 5, 0, -2, -3, 1, 0, -2, 0, -3, -2, 2, -1, -3, -2, -1, -1, -3, -2, -3, -1, 0, -1, -4},
	{-2, 0, 6, 1, -3, 0, 0, 0, 1, -3, -3, 0, -2, -3, -2, 1, 0, -4, -2, -3, 3, 0, -1, -4},
	{-2, -2, 1, 6, -3, 0, 2, -1, -1, -3, -4, -1, -3, -3, -1, 0, -1, -4, -3, -3, 4, 1, -1, -4},
	{0, -3, -3, -3, 9, -3, -4, -3, -3, -1, -1, -3, -1, -2, -3, -1, -1, -2, -2, -1, -3, -3, -2, -4},
	{-1, 1, 0, 0, -3, 5, 2, -2, 0, -3, -2, 1, 0, -3, -1, 0, -1, -2, -1, -2, 0, 3, -1, -4},
	{-1, 0, 0, 2, -4, 2, 5, -2, 0, -3, -3, 1, -2, -3, -1, 0, -1, -3, -2, -2, 1, 4, -1, -4},
	{0, -2, 0, -1, -3, -2, -2, 6, -2, -4, -4, -2, -3, -3, -2, 0, -2, -2, -3, -3, -1, -2, -1, -4},
	{-2, 0, 1, -1, -3, 0, 0, -2, 8, -3, -3, -1, -2, -1, -2, -1, -2, -2, 2, -3, 0, 0, -1, -4},
	{-1, -3, -3, -3, -1, -3, -3, -4, -3, 4, 2, -3, 1, 0, -3, -2, -1, -3, -1, 3, -3, -3, -1, -4},
	{-1, -2, -3, -4, -1, -2, -3, -4, -3, 2, 4, -2, 2, 0, -3, -2, -1, -2, -1, 1, -4, -3, -1, -4},
	{-1, 2, 0, -1, -3, 1, 1, -2, -1, -3, -2, 5, -1, -3, -1, 0, -1, -3, -2, -2, 0, 1, -1, -4},
	{-1, -1, -2, -3, -1, 0, -2, -3, -2, 1, 2, -1, 5, 0, -2, -1, -1, -1, -1, 1, -3, -1, -1, -4},
	{-2, -3, -3, -3, -2, -3, -3, -3, -1, 0, 0, -3, 0, 6, -4, -2, -2, 1, 3, -1, -3, -3, -1, -4},
	{-1, -2, -2, -1, -3, -1, -1, -2, -2, -3, -3, -1, -2, -4, 7, -1, -1, -4, -3, -2, -2, -1, -2, -4},
	{1, -1, 1, 0, -1, 0, 0, 0, -1, -2, -2, 0, -1, -2, -1, 4, 1, -3, -2, -2, 0, 0, 0, -4},
	{0, -1, 0, -1, -1, -1, -1, -2, -2, -1, -1, -1, -1, -2, -1, 1, 5, -2, -2, 0, -1, -1, 0, -4},
	{-3, -3, -4, -4, -2, -2, -3, -2, -2, -3, -2, -3, -1, 1, -4, -3, -2, 11, 2, -3, -4, -3, -2, -4},
	{-2, -2, -2, -3, -2, -1, -2, -3, 2, -1, -1, -2, -1, 3, -3, -2, -2, 2, 7, -1, -3, -2, -1, -4},
	{0, -3, -3, -3, -1, -2, -2, -3, -3, 3, 1, -2, 1, -1, -2, -2, 0, -3, -1, 4, -3, -2, -1, -4},
	{-2, -1, 3, 4, -3, 0, 1, -1, 0, -3, -4, 0, -3, -3, -2, 0, -1, -4, -3, -3, 4, 1, -1, -4},
	{-1, 0, 0, 1, -3, 3, 4, -2, 0, -3, -3, 1, -1, -3, -1, 0, -1, -3, -2, -2, 1, 4, -1, -4},
	{0, -1, -1, -1, -2, -1, -1, -1, -1, -1, -1, -1, -1, -1, -2, 0, 0, -2, -1, -1, -1, -1, -1, -4},
	{-4, -4, -4, -4, -4, -4, -4, -4, -4, -4, -4, -4, -4, -4, -4, -4, -4, -4, -4, -4, -4, -4, -4, 1},
}

func vfC09Pos(order string, c uint8) int {
	if c >= 'a' && c <= 'z' {
		c -= 32
	}
	for k := 0; k < len(order); k++ {
		if order[k] == c {
			return k
		}
	}
	return -1
}

// vfC09Pair runs the aligner on two one-residue sequences and checks score and alignment against want.
func vfC09Pair(c1, c2 uint8, want int) {
	al := NewPwAligner(NewSequence("s1", []uint8{c1}, ""), NewSequence("s2", []uint8{c2}, ""), ALIGN_ALGO_SW)
	_, err := al.Alignment()
	verifReach("aligned")
	verifAssert(err == nil, "letters of the built-in matrix are accepted")
	if want > 0 {
		verifAssert(al.MaxScore() == float64(want), "score of a single pair is the published substitution score")
		verifAssert(len(al.Seq1Ali()) == 1 && len(al.Seq2Ali()) == 1 && al.Seq1Ali()[0] == c1 && al.Seq2Ali()[0] == c2, "the single positive pair is the returned alignment")
	} else {
		verifAssert(al.MaxScore() == 0, "no alignment reported when the only pair does not score positively")
	}
}

// H_C09_table_dnafull: every entry of the built-in nucleotide matrix, through the character index map, equals EDNAFULL.
// bounds: two sequences of one residue; first residue any of the 16 EDNAFULL letters A T G C S W R Y K M B V H D N U (enumerated, upper or lower case), second residue symbolic over the same letters in both cases
// outside: longer sequences (other harnesses), the extra letter X that goalign maps to N, letters outside the matrix
func H_C09_table_dnafull() {
	k1 := nondetRange(0, 15)
	lower := nondetRange(0, 1) == 1
	c1 := vfC09DnaOrder[k1]
	if lower {
		c1 += 32
	}
	c2 := nondetByte()
	k2 := vfC09Pos(vfC09DnaOrder, c2)
	assume(k2 >= 0)
	// alphabet detection must see nucleotides: U is nucleotide-only; with two residues of the
	// shared letters the detection says BOTH and goalign picks the nucleotide matrix first
	vfC09Pair(c1, c2, vfC09Ednafull[k1][k2])
}

// H_C09_table_blosum62: every entry of the built-in protein matrix equals NCBI BLOSUM62.
// bounds: two sequences of one residue; first residue one of the protein-only letters Q E I L F P Z (so that the protein matrix is selected), second residue symbolic over the 23 letters A R N D C Q E G H I L K M F P S T W Y V B Z X in both cases; then the symmetric call
// outside: pairs in which neither residue is protein-only (alphabet detection then selects the nucleotide matrix or none), '*', longer sequences
func H_C09_table_blosum62() {
	only := "QEILFPZ"
	c1 := only[nondetRange(0, len(only)-1)]
	if nondetRange(0, 1) == 1 {
		c1 += 32
	}
	c2 := nondetByte()
	k2 := vfC09Pos(vfC09ProtOrder, c2)
	assume(k2 >= 0 && c2 != '*')
	k1 := vfC09Pos(vfC09ProtOrder, c1)
	if nondetRange(0, 1) == 1 {
		vfC09Pair(c1, c2, vfC09Blosum62[k1][k2])
	} else {
		vfC09Pair(c2, c1, vfC09Blosum62[k2][k1])
	}
}

// H_C09_table_dnafull_flanked: every EDNAFULL entry (also the negative ones, which a single pair cannot
// show) through complete alignments: A x A against A y A, default penalties; all claims of C09.
// bounds: sequences A x A and A y A; x one of the 16 EDNAFULL letters (enumerated), y symbolic over the 16 letters, upper case; gap penalties -10/-0.5
// outside: other flanks, lower case (H_C09_table_dnafull), longer sequences
func H_C09_table_dnafull_flanked() {
	x := vfC09DnaOrder[nondetRange(0, 15)]
	y := nondetByte()
	assume(vfSWLetterOK(vfSWModeDNAfullAll, y))
	sc := vfSWDefaults(vfSWModeDNAfull)
	sc.mode = vfSWModeDNAfullAll
	vfSWCheck(sc, []uint8{'A', x, 'A'}, []uint8{'A', y, 'A'}, false, false, false)
}

// H_C09_table_blosum62_flanked: every BLOSUM62 entry through complete alignments: E x E against E y E, default penalties.
// bounds: sequences E x E and E y E (E is a protein-only letter, so the protein matrix is selected); x one of the 23 letters (enumerated), y symbolic over the 23 letters, upper case; gap penalties -10/-0.5
// outside: '*', other flanks, lower case, longer sequences
func H_C09_table_blosum62_flanked() {
	x := vfC09ProtOrder[nondetRange(0, 22)]
	y := nondetByte()
	assume(vfSWLetterOK(vfSWModeBlosumAll, y))
	sc := vfSWDefaults(vfSWModeBlosum)
	sc.mode = vfSWModeBlosumAll
	vfSWCheck(sc, []uint8{'E', x, 'E'}, []uint8{'E', y, 'E'}, false, false, false)
}
