//go:build verif

package dna

// C20 — random site weights for the weighted bootstrap: BuildWeightsDirichlet, BuildWeightsGamma.
//
// verif-uses-rand: the replay build overlays math/rand so that the recorded draws are replayed.
//
// Every outcome of math/rand that its contract allows is covered (Float64: any real in [0,1)),
// with the length of the rejection runs of the gamma sampler bounded by a draw budget.

import (
	"math"

	"github.com/evolbioinfo/goalign/align"
)

func vfC20Close(a, b float64) bool {
	if verifSymbolic() {
		return a == b
	}
	return math.Abs(a-b) <= 1e-9*math.Max(1, math.Abs(a))
}

// vfC20Align: a nucleotide alignment with 2 rows of L sites (the builders only use the length).
func vfC20Align(L int) align.Alignment {
	al := align.NewAlign(align.NUCLEOTIDS)
	r1 := make([]uint8, L)
	r2 := make([]uint8, L)
	for i := 0; i < L; i++ {
		r1[i] = "ACGT"[i%4]
		r2[i] = "TGCA"[i%4]
	}
	if err := al.AddSequenceChar("s1", r1, ""); err != nil {
		panic("harness: cannot build alignment: " + err.Error())
	}
	if err := al.AddSequenceChar("s2", r2, ""); err != nil {
		panic("harness: cannot build alignment: " + err.Error())
	}
	return al
}

func vfC20CheckWeights(w []float64, L int) {
	verifAssert(len(w) == L, "one weight per site")
	sum := 0.0
	for i := 0; i < L; i++ {
		verifAssert(!math.IsNaN(w[i]) && !math.IsInf(w[i], 0), "weight is finite")
		verifAssert(w[i] > 0, "weight is strictly positive")
		sum += w[i]
	}
	verifAssert(vfC20Close(sum, float64(L)), "weights sum to the alignment length")
	verifReach("weights")
}

// H_C20_weights_dirichlet: BuildWeightsDirichlet: one strictly positive finite weight per site, summing to the alignment length.
// bounds: L in {3,4}; every outcome of the draws with at most 6 draws of math/rand per path (L needed; the rejection loop "u <= 1e-7" cut after 6-L extra draws in total: longer rejection runs repeat the same body on fresh draws)
// outside: L > 4 and more rejections (thorough twin); IEEE rounding is outside the claim: floats are exact reals; ln uninterpreted (ln u < 0 on (0,1))
//verif: maxrand=6 maxsteps=200000 timeout=60000
func H_C20_weights_dirichlet() {
	L := nondetRange(3, 4)
	vfC20CheckWeights(BuildWeightsDirichlet(vfC20Align(L)), L)
}

// H_C20_weights_dirichlet_deep: as H_C20_weights_dirichlet for L = 3..5 with at most 8 draws.
// bounds: L in {3,4,5}; at most 8 draws per path
// outside: IEEE rounding is outside the claim: floats are exact reals
//verif: tier=thorough maxrand=8 maxsteps=200000 timeout=60000
func H_C20_weights_dirichlet_deep() {
	L := nondetRange(3, 5)
	vfC20CheckWeights(BuildWeightsDirichlet(vfC20Align(L)), L)
}

// H_C20_weights_gamma: BuildWeightsGamma (gamma variates fitted to the binomial of the bootstrap, shape L/(L-1) > 1: Cheng's sampler): one strictly positive finite weight per site, summing to the alignment length.
// bounds: L = 3, at most 6 draws of math/rand per path (6 needed: every variate accepted at its first proposal, through either acceptance test; a rejected proposal repeats the same body on fresh draws: thorough twin and, for the sampler alone, stats H_C20_gamma)
// outside: L = 4 (8 draws: the exploration does not finish, measured 16 min, 6 x solver unknown) and rejections (thorough twin); IEEE rounding is outside the claim: floats are exact reals; ln/exp/sqrt uninterpreted
//verif: maxrand=6 maxsteps=200000 timeout=120000
func H_C20_weights_gamma() {
	vfC20CheckWeights(BuildWeightsGamma(vfC20Align(3)), 3)
}

// H_C20_weights_gamma_rej: as H_C20_weights_gamma with one extra draw (one out-of-range first uniform in one of the three samplers).
// bounds: L = 3; at most 7 draws per path
// outside: a completely rejected proposal inside BuildWeightsGamma (the nonlinear path conditions make the solver give up: measured 24 x unknown with 8 draws); IEEE rounding is outside the claim: floats are exact reals
//verif: tier=thorough maxrand=7 maxsteps=200000 timeout=90000
func H_C20_weights_gamma_rej() {
	vfC20CheckWeights(BuildWeightsGamma(vfC20Align(3)), 3)
}
