//go:build verif

package dna

// C07 — nucleotide distances equal the published estimators and form sane matrices.
//
// This file: shared helpers and part (A), the pairwise counters.
// Other parts: zz_verif_c07_est.go (B), zz_verif_c07_freq.go (C, D), zz_verif_c07_matrix.go (E).
//
// Reference models are written from the documentation (`goalign compute distance --help`:
// "differences are counted if nucleotides are incompatible; R and Y give a difference, N and A
// do not"; --gap-mut 0/1/2; --rm-ambiguous) and from DESIGN.md §9.4 (IUPAC masks, published
// estimators), never from the implementation.

import "math"

// IUPAC masks as produced by alignmentToCodes: A=1 C=2 G=4 T=8, ambiguity codes are unions,
// 0 is "not a nucleotide" (gap, '*', '.', 'X').
const (
	vfA uint8 = 1
	vfC uint8 = 2
	vfG uint8 = 4
	vfT uint8 = 8
)

// vfClose: float equality. Under the engine floats are exact reals (no rounding) and the
// comparison is exact; natively the same harness is the replay test and compares with a
// relative tolerance of 1e-9.
func vfClose(a, b float64) bool {
	if verifSymbolic() {
		return a == b
	}
	return math.Abs(a-b) <= 1e-9*math.Max(1, math.Abs(a)) || (math.IsNaN(a) && math.IsNaN(b)) || (math.IsInf(a, 0) && a == b)
}

func vfFinite(x float64) bool { return !math.IsNaN(x) && !math.IsInf(x, 0) }

func vfIsNucCode(c uint8) bool { return c >= 1 && c <= 15 }

// vfCard: number of nucleotides a code stands for.
func vfCard(c uint8) int {
	n := 0
	if c&vfA != 0 {
		n++
	}
	if c&vfC != 0 {
		n++
	}
	if c&vfG != 0 {
		n++
	}
	if c&vfT != 0 {
		n++
	}
	return n
}

func vfAmbiguous(c uint8) bool { return vfCard(c) > 1 }

// vfDifferent: two residues are a counted difference iff they are incompatible, i.e. they have
// no nucleotide in common (a gap has none, so gap vs nucleotide is a difference where gaps count).
func vfDifferent(a, b uint8) bool { return a&b == 0 }

// vfKinds classifies a pair of nucleotide codes by looking at every resolution (x in a, y in b)
// of the ambiguity codes: the pair is a transition / transversion / A<->G / C<->T when every
// resolution is one. (A<->G and C<->T are the transitions; purine<->pyrimidine are the
// transversions.)
func vfKinds(a, b uint8) (ts, tv, ag, ct bool) {
	ts, tv, ag, ct = true, true, true, true
	any := false
	for _, x := range []uint8{vfA, vfC, vfG, vfT} {
		for _, y := range []uint8{vfA, vfC, vfG, vfT} {
			in := a&x != 0 && b&y != 0
			if in {
				any = true
			}
			isAG := (x == vfA && y == vfG) || (x == vfG && y == vfA)
			isCT := (x == vfC && y == vfT) || (x == vfT && y == vfC)
			xPur, yPur := x == vfA || x == vfG, y == vfA || y == vfG
			isTv := xPur != yPur
			if !isAG {
				ag = ag && !in
			}
			if !isCT {
				ct = ct && !in
			}
			if !(isAG || isCT) {
				ts = ts && !in
			}
			if !isTv {
				tv = tv && !in
			}
		}
	}
	return ts && any, tv && any, ag && any, ct && any
}

// vfCodes: L symbolic codes in 0..15 (everything alignmentToCodes can produce).
func vfCodes(L int) []uint8 {
	s := make([]uint8, L)
	for i := range s {
		s[i] = nondetByte()
		assume(s[i] <= 15)
	}
	return s
}

func vfSelSym(L int) []bool {
	s := make([]bool, L)
	for i := range s {
		s[i] = nondetBool()
	}
	return s
}

func vfSelAll(L int) []bool {
	s := make([]bool, L)
	for i := range s {
		s[i] = true
	}
	return s
}

// vfWeights: nil (all weights 1) or L positive dyadic weights k/2, k in 1..8.
func vfWeights(L int) []float64 {
	if nondetRange(0, 1) == 0 {
		return nil
	}
	w := make([]float64, L)
	for i := range w {
		w[i] = nondetDyadic(2, 1, 8)
	}
	return w
}

func vfW(w []float64, i int) float64 {
	if w == nil {
		return 1
	}
	return w[i]
}

func vfCopyCodes(s []uint8) []uint8 {
	c := make([]uint8, len(s))
	copy(c, s)
	return c
}

// ---------------------------------------------------------------------------------------------
// (A) counters

func vfCountMutations(L int) {
	s1, s2 := vfCodes(L), vfCodes(L)
	sel := vfSelSym(L)
	w := vfWeights(L)
	ts, tv, ag, ct, tot := countMutations(s1, s2, sel, w)
	verifReach("called")
	var rts, rtv, rag, rct, rtot float64
	for i := 0; i < L; i++ {
		if vfIsNucCode(s1[i]) && vfIsNucCode(s2[i]) && sel[i] {
			wi := vfW(w, i)
			rtot += wi
			kts, ktv, kag, kct := vfKinds(s1[i], s2[i])
			if kts {
				rts += wi
			}
			if ktv {
				rtv += wi
			}
			if kag {
				rag += wi
			}
			if kct {
				rct += wi
			}
		}
	}
	verifAssert(tot == rtot, "total = weight of selected sites where both residues are nucleotides")
	verifAssert(ts == rts, "transitions = weight of comparable sites that are A<->G or C<->T")
	verifAssert(tv == rtv, "transversions = weight of comparable sites that are purine<->pyrimidine")
	verifAssert(ag == rag, "A<->G count")
	verifAssert(ct == rct, "C<->T count")
	verifAssert(ts == ag+ct, "transitions = A<->G + C<->T")
	verifAssert(ts+tv <= tot, "counted mutations do not exceed the comparable sites")
}

// H_C07_count_mutations: countMutations equals the per-site definition of transitions, transversions, A<->G, C<->T and comparable sites.
// bounds: two encoded rows of L<=3 symbolic codes 0..15, symbolic selectedSites, weights nil or dyadic k/2 (k=1..8)
// outside: L>3 (thorough twin: 4), codes > 15 (never produced by alignmentToCodes), non-dyadic or non-positive weights; IEEE rounding is outside the claim: floats are exact reals
func H_C07_count_mutations() {
	vfCountMutations(nondetRange(1, 3))
}

// H_C07_count_mutations_L4: as H_C07_count_mutations with 4 sites.
// bounds: L=4, codes 0..15, symbolic selectedSites, weights nil or dyadic k/2 (k=1..8)
// outside: L>4; IEEE rounding is outside the claim: floats are exact reals
//verif: tier=thorough
func H_C07_count_mutations_L4() {
	vfCountMutations(4)
}

// vfRefDiffs: differences and normalising length of a pair, per-site definition.
// gapmode 0: sites where both residues are nucleotides; 2: sites where at least one is;
// 1: as 2 but a site inside the leading or trailing gap run of either row is not counted.
// removeAmbiguous: a site that is not a difference and carries an ambiguity code does not
// count in the length.
func vfRefDiffs(s1, s2 []uint8, sel []bool, w []float64, gapmode int, rmAmb bool) (diffs, total float64) {
	L := len(s1)
	for i := 0; i < L; i++ {
		n1, n2 := vfIsNucCode(s1[i]), vfIsNucCode(s2[i])
		counted := sel[i]
		if gapmode == 0 {
			counted = counted && n1 && n2
		} else {
			counted = counted && (n1 || n2)
		}
		if gapmode == 1 {
			// leading / trailing gap runs of each row
			lead1, lead2, trail1, trail2 := true, true, true, true
			for j := 0; j <= i; j++ {
				lead1 = lead1 && !vfIsNucCode(s1[j])
				lead2 = lead2 && !vfIsNucCode(s2[j])
			}
			for j := i; j < L; j++ {
				trail1 = trail1 && !vfIsNucCode(s1[j])
				trail2 = trail2 && !vfIsNucCode(s2[j])
			}
			counted = counted && !lead1 && !lead2 && !trail1 && !trail2
		}
		if counted {
			wi := vfW(w, i)
			d := vfDifferent(s1[i], s2[i])
			if d {
				diffs += wi
			}
			if !(rmAmb && !d && (vfAmbiguous(s1[i]) || vfAmbiguous(s2[i]))) {
				total += wi
			}
		}
	}
	return
}

func vfCountDiffs(L int, gapmode int, symsel bool) {
	s1, s2 := vfCodes(L), vfCodes(L)
	var sel []bool
	if symsel {
		sel = vfSelSym(L)
	} else {
		sel = vfSelAll(L)
	}
	w := vfWeights(L)
	rmAmb := nondetBool()
	if gapmode == 1 && symsel {
		// Sites are only ever unselected by the gap-site removal, which drops every site holding a
		// gap in some row: so either all sites are selected, or the selected ones hold no gap in
		// these two rows (whether an unselected site interrupts a leading gap run is then moot).
		all, nogap := true, true
		for k := 0; k < L; k++ {
			all = all && sel[k]
			if sel[k] && (!isNuc(s1[k]) || !isNuc(s2[k])) {
				nogap = false
			}
		}
		assume(all || nogap)
	}
	var d, t float64
	switch gapmode {
	case 0:
		d, t = countDiffs(s1, s2, sel, w, rmAmb)
	case 1:
		d, t = countDiffsWithInternalGaps(s1, s2, sel, w, rmAmb)
	default:
		d, t = countDiffsWithGaps(s1, s2, sel, w, rmAmb)
	}
	verifReach("called")
	rd, rt := vfRefDiffs(s1, s2, sel, w, gapmode, rmAmb)
	verifAssert(d == rd, "differences = weight of counted sites with incompatible residues")
	verifAssert(t == rt, "length = weight of counted sites (minus compatible ambiguous sites under rm-ambiguous)")
	verifAssert(d <= t, "differences do not exceed the length")
}

// H_C07_count_diffs: countDiffs (gap-mut 0) equals the per-site definition: a difference is a pair of incompatible nucleotide codes, gaps are skipped.
// bounds: two encoded rows of L<=3 symbolic codes 0..15, symbolic selectedSites, weights nil or dyadic k/2 (k=1..8), removeAmbiguous symbolic
// outside: L>3 (thorough twin: 4), codes > 15; IEEE rounding is outside the claim: floats are exact reals
func H_C07_count_diffs() {
	vfCountDiffs(nondetRange(1, 3), 0, true)
}

// H_C07_count_diffs_L4: as H_C07_count_diffs with 4 sites.
// bounds: L=4
// outside: L>4; IEEE rounding is outside the claim: floats are exact reals
//verif: tier=thorough
func H_C07_count_diffs_L4() {
	vfCountDiffs(4, 0, true)
}

// H_C07_count_diffs_gaps: countDiffsWithGaps (gap-mut 2) additionally counts gap vs nucleotide as a difference on every selected site.
// bounds: two encoded rows of L<=3 symbolic codes 0..15, symbolic selectedSites, weights nil or dyadic k/2 (k=1..8), removeAmbiguous symbolic
// outside: L>3 (thorough twin: 4), codes > 15; IEEE rounding is outside the claim: floats are exact reals
func H_C07_count_diffs_gaps() {
	vfCountDiffs(nondetRange(1, 3), 2, true)
}

// H_C07_count_diffs_gaps_L4: as H_C07_count_diffs_gaps with 4 sites.
// bounds: L=4
// outside: L>4; IEEE rounding is outside the claim: floats are exact reals
//verif: tier=thorough
func H_C07_count_diffs_gaps_L4() {
	vfCountDiffs(4, 2, true)
}

// H_C07_count_diffs_internal: countDiffsWithInternalGaps (gap-mut 1) counts gap vs nucleotide only outside the leading/trailing gap runs of both rows, on the selected sites.
// bounds: two encoded rows of L<=3 symbolic codes 0..15, symbolic selectedSites as the gap-site removal can produce them (all selected, or no gap on the selected sites), weights nil or dyadic k/2 (k=1..8), removeAmbiguous symbolic
// outside: L>3, codes > 15; selections that rm-gaps cannot produce; IEEE rounding is outside the claim: floats are exact reals
func H_C07_count_diffs_internal() {
	vfCountDiffs(nondetRange(1, 3), 1, true)
}

// H_C07_count_diffs_internal_allsel: as H_C07_count_diffs_internal with every site selected (excludes exactly the region where the counter ignores selectedSites).
// bounds: two encoded rows of L<=3 symbolic codes 0..15, all sites selected (no rm-gaps), weights nil or dyadic k/2 (k=1..8), removeAmbiguous symbolic
// outside: unselected sites (see H_C07_count_diffs_internal), L>3 (thorough twin: 4); IEEE rounding is outside the claim: floats are exact reals
func H_C07_count_diffs_internal_allsel() {
	vfCountDiffs(nondetRange(1, 3), 1, false)
}

// H_C07_count_diffs_internal_allsel_L4: as H_C07_count_diffs_internal_allsel with 4 sites.
// bounds: L=4, all sites selected
// outside: L>4; IEEE rounding is outside the claim: floats are exact reals
//verif: tier=thorough
func H_C07_count_diffs_internal_allsel_L4() {
	vfCountDiffs(4, 1, false)
}
