//go:build verif

package dna

// C08 (relations): distances depend only on column content, not on column order, replication vs
// integer weights, explicit unit weights, strand, or row order. Every harness runs the code
// twice, on two presentations of the same data, inside one symbolic path ("two runs in one
// query") and asserts the relation between the two results.
//
// The relations are checked on the counters and frequency estimates the models are made of,
// and lifted to the models' Distance at rational sample points of the frequencies / alpha: a
// Distance is a function of the counts, equal counts give equal arguments of the uninterpreted
// ln / pow and hence equal distances.
//
// The internal-gap counting mode (--gap-mut 1) depends on the column order by definition and is
// exempt from the permutation and replication relations (property text).
//
// (Helpers carry the prefix vfC08: `-prop C08` does not load the C07 files.)

import (
	"math"

	"github.com/evolbioinfo/goalign/align"
)

func vfC08Close(a, b float64) bool {
	if verifSymbolic() {
		return a == b
	}
	return math.Abs(a-b) <= 1e-9*math.Max(1, math.Abs(a)) || (math.IsNaN(a) && math.IsNaN(b)) || (math.IsInf(a, 0) && a == b)
}

// vfC08SameXR: equal as extended reals (NaN equals NaN).
func vfC08SameXR(a, b float64) bool {
	return vfC08Close(a, b) || (math.IsNaN(a) && math.IsNaN(b))
}

// vfC08Codes: L symbolic IUPAC masks 0..15 (A=1 C=2 G=4 T=8, 0 = gap), as produced by alignmentToCodes.
func vfC08Codes(L int) []uint8 {
	s := make([]uint8, L)
	for i := range s {
		s[i] = nondetByte()
		assume(s[i] <= 15)
	}
	return s
}

// vfC08CodesIn: L symbolic codes out of a small set (for the code that indexes tables with the
// code, where the engine enumerates every cell).
func vfC08CodesIn(L int, set []uint8) []uint8 {
	s := vfC08Codes(L)
	for i := range s {
		in := false
		for _, c := range set {
			in = in || s[i] == c
		}
		assume(in)
	}
	return s
}

func vfC08Sel(L int) []bool {
	s := make([]bool, L)
	for i := range s {
		s[i] = nondetBool()
	}
	return s
}

func vfC08AllSel(L int) []bool {
	s := make([]bool, L)
	for i := range s {
		s[i] = true
	}
	return s
}

// vfC08Weights: nil or L positive dyadic weights k/2, k in 1..8.
func vfC08Weights(L int) []float64 {
	if nondetRange(0, 1) == 0 {
		return nil
	}
	w := make([]float64, L)
	for i := range w {
		w[i] = nondetDyadic(2, 1, 8)
	}
	return w
}

var vfC08Perms = [][][]int{
	nil,
	{{0}},
	{{0, 1}, {1, 0}},
	{{0, 1, 2}, {0, 2, 1}, {1, 0, 2}, {1, 2, 0}, {2, 0, 1}, {2, 1, 0}},
}

func vfC08PickPerm(L int) []int {
	ps := vfC08Perms[L]
	return ps[nondetRange(0, len(ps)-1)]
}

func vfC08PermCodes(s []uint8, p []int) []uint8 {
	o := make([]uint8, len(s))
	for i := range o {
		o[i] = s[p[i]]
	}
	return o
}

func vfC08PermBools(s []bool, p []int) []bool {
	o := make([]bool, len(s))
	for i := range o {
		o[i] = s[p[i]]
	}
	return o
}

func vfC08PermFloats(s []float64, p []int) []float64 {
	if s == nil {
		return nil
	}
	o := make([]float64, len(s))
	for i := range o {
		o[i] = s[p[i]]
	}
	return o
}

// vfC08RepIndex: source column of column j of the k-fold replication of L columns.
// layout 0: the alignment concatenated k times with itself; layout 1: every column repeated k
// times in place.
func vfC08RepIndex(j, L, k, layout int) int {
	if layout == 0 {
		return j % L
	}
	return j / k
}

// vfC08Complement: IUPAC complement on masks: swap A<->T (1<->8) and C<->G (2<->4).
func vfC08Complement(c uint8) uint8 {
	var r uint8
	if c&1 != 0 {
		r |= 8
	}
	if c&8 != 0 {
		r |= 1
	}
	if c&2 != 0 {
		r |= 4
	}
	if c&4 != 0 {
		r |= 2
	}
	return r
}

func vfC08RevComp(s []uint8) []uint8 {
	o := make([]uint8, len(s))
	for i := range o {
		o[i] = vfC08Complement(s[len(s)-1-i])
	}
	return o
}

func vfC08RevBools(s []bool) []bool {
	o := make([]bool, len(s))
	for i := range o {
		o[i] = s[len(s)-1-i]
	}
	return o
}

func vfC08RevFloats(s []float64) []float64 {
	if s == nil {
		return nil
	}
	o := make([]float64, len(s))
	for i := range o {
		o[i] = s[len(s)-1-i]
	}
	return o
}

// --------------------------------------------------------------------------- column permutation

func vfC08PermColumns(L int) {
	s1, s2 := vfC08Codes(L), vfC08Codes(L)
	sel := vfC08Sel(L)
	w := vfC08Weights(L)
	rmAmb := nondetBool()
	p := vfC08PickPerm(L)
	t1, t2, tsel, tw := vfC08PermCodes(s1, p), vfC08PermCodes(s2, p), vfC08PermBools(sel, p), vfC08PermFloats(w, p)

	ts, tv, ag, ct, tot := countMutations(s1, s2, sel, w)
	pts, ptv, pag, pct, ptot := countMutations(t1, t2, tsel, tw)
	verifReach("called")
	verifAssert(ts == pts && tv == ptv && ag == pag && ct == pct && tot == ptot, "countMutations is invariant under a column permutation")

	d, n := countDiffs(s1, s2, sel, w, rmAmb)
	pd, pn := countDiffs(t1, t2, tsel, tw, rmAmb)
	verifAssert(d == pd && n == pn, "countDiffs is invariant under a column permutation")

	d, n = countDiffsWithGaps(s1, s2, sel, w, rmAmb)
	pd, pn = countDiffsWithGaps(t1, t2, tsel, tw, rmAmb)
	verifAssert(d == pd && n == pn, "countDiffsWithGaps is invariant under a column permutation")
}

// H_C08_perm_columns: the counters (transitions, transversions, A<->G, C<->T, differences without and with gaps, lengths) are invariant under every permutation of the columns (sites, selection flags and weights permuted together).
// bounds: two encoded rows of L<=3 symbolic codes 0..15, symbolic selectedSites, weights nil or dyadic k/2 (k=1..8), removeAmbiguous symbolic, all L! permutations
// outside: L>3 (thorough twin: L=4 with 8 of the 24 permutations), the internal-gap mode (order dependent by definition); IEEE rounding is outside the claim: floats are exact reals (dyadic weights: the sums are exact in float64 too)
func H_C08_perm_columns() {
	vfC08PermColumns(nondetRange(1, 3))
}

func vfC08FreqPair(rows [][]uint8, sel []bool, w []float64, trows [][]uint8, tsel []bool, tw []float64, label string) {
	pi, err := probaNt(rows, sel, w)
	tpi, terr := probaNt(trows, tsel, tw)
	verifAssert(err == nil && terr == nil && len(pi) == 4 && len(tpi) == 4, "four frequencies, no error")
	for x := 0; x < 4; x++ {
		verifAssert(vfC08SameXR(pi[x], tpi[x]), label)
	}
}

var vfC08SetA = []uint8{0, 1, 1 | 4, 15}  // gap, A, R, N
var vfC08SetB = []uint8{2, 2 | 8, 14}     // C, Y, B
var vfC08SetC = []uint8{0, 4}             // gap, G
var vfC08SetD = []uint8{2, 2 | 8}         // C, Y

// H_C08_perm_columns_freq: the base frequencies estimated by probaNt are invariant under every permutation of the columns.
// bounds: 2 rows; L=2 with codes in {gap, A, R, N}; L=3 with row 1 in {C, Y} and row 2 in {gap, G}; symbolic selectedSites, weights nil or dyadic k/2 (k=1..8); all L! permutations
// outside: other codes at these shapes (probaNt indexes a table with the code: the engine enumerates every cell), L>3; IEEE rounding is outside the claim: floats are exact reals
func H_C08_perm_columns_freq() {
	L := nondetRange(2, 3)
	var r1, r2 []uint8
	if L == 2 {
		r1, r2 = vfC08CodesIn(L, vfC08SetA), vfC08CodesIn(L, vfC08SetA)
	} else {
		r1, r2 = vfC08CodesIn(L, vfC08SetD), vfC08CodesIn(L, vfC08SetC)
	}
	sel := vfC08Sel(L)
	w := vfC08Weights(L)
	p := vfC08PickPerm(L)
	verifReach("called")
	vfC08FreqPair([][]uint8{r1, r2}, sel, w,
		[][]uint8{vfC08PermCodes(r1, p), vfC08PermCodes(r2, p)}, vfC08PermBools(sel, p), vfC08PermFloats(w, p),
		"base frequencies are invariant under a column permutation")
}

// ------------------------------------------------------------------- replication / integer weight

func vfC08Replicate(L int) {
	k := nondetRange(1, 3)
	layout := nondetRange(0, 1)
	s1, s2 := vfC08Codes(L), vfC08Codes(L)
	sel := vfC08Sel(L)
	w := vfC08Weights(L)
	rmAmb := nondetBool()
	kf := float64(k)

	// presentation 1: every column k times, same weights
	R := L * k
	r1, r2, rsel := make([]uint8, R), make([]uint8, R), make([]bool, R)
	var rw []float64
	if w != nil {
		rw = make([]float64, R)
	}
	for j := 0; j < R; j++ {
		i := vfC08RepIndex(j, L, k, layout)
		r1[j], r2[j], rsel[j] = s1[i], s2[i], sel[i]
		if w != nil {
			rw[j] = w[i]
		}
	}
	// presentation 2: the columns once, weights multiplied by k
	kw := make([]float64, L)
	for i := range kw {
		if w != nil {
			kw[i] = kf * w[i]
		} else {
			kw[i] = kf
		}
	}

	ts, tv, ag, ct, tot := countMutations(s1, s2, sel, w)
	ats, atv, aag, act, atot := countMutations(r1, r2, rsel, rw)
	bts, btv, bag, bct, btot := countMutations(s1, s2, sel, kw)
	verifReach("called")
	verifAssert(ats == bts && atv == btv && aag == bag && act == bct && atot == btot, "countMutations: k-fold replication == integer weight k")
	verifAssert(ats == kf*ts && atv == kf*tv && aag == kf*ag && act == kf*ct && atot == kf*tot, "countMutations: the counts scale by k")

	d, n := countDiffs(s1, s2, sel, w, rmAmb)
	ad, an := countDiffs(r1, r2, rsel, rw, rmAmb)
	bd, bn := countDiffs(s1, s2, sel, kw, rmAmb)
	verifAssert(ad == bd && an == bn, "countDiffs: k-fold replication == integer weight k")
	verifAssert(ad == kf*d && an == kf*n, "countDiffs: the counts scale by k")

	d, n = countDiffsWithGaps(s1, s2, sel, w, rmAmb)
	ad, an = countDiffsWithGaps(r1, r2, rsel, rw, rmAmb)
	bd, bn = countDiffsWithGaps(s1, s2, sel, kw, rmAmb)
	verifAssert(ad == bd && an == bn, "countDiffsWithGaps: k-fold replication == integer weight k")
	verifAssert(ad == kf*d && an == kf*n, "countDiffsWithGaps: the counts scale by k")

	// raw distance scales linearly (gap modes "none" and "all")
	for _, mode := range []int{GAP_COUNT_NONE, GAP_COUNT_ALL} {
		m0 := &RawDistModel{selectedSites: sel, countgapmut: mode}
		m1 := &RawDistModel{selectedSites: rsel, countgapmut: mode}
		raw, e0 := m0.Distance(s1, s2, w)
		rawRep, e1 := m1.Distance(r1, r2, rw)
		rawW, e2 := m0.Distance(s1, s2, kw)
		verifAssert(e0 == nil && e1 == nil && e2 == nil, "no error")
		verifAssert(rawRep == kf*raw && rawW == kf*raw, "raw distance scales linearly with replication / integer weight")
	}
}

// H_C08_replicate_weight: replicating every column k times (as k-fold self-concatenation or in place) == giving every column the integer weight k == k times the counts; the raw distance scales linearly.
// bounds: two encoded rows of L<=3 symbolic codes 0..15, k in 1..3 (up to 9 columns), both replication layouts, symbolic selectedSites, weights nil or dyadic k/2 (k=1..8), removeAmbiguous symbolic
// outside: L>3, k>3, the internal-gap mode; IEEE rounding is outside the claim: floats are exact reals (dyadic weights: exact in float64 too)
func H_C08_replicate_weight() {
	vfC08Replicate(nondetRange(1, 3))
}

// H_C08_replicate_weight_freq: the base frequencies of the k-fold replicated alignment equal those of the alignment with integer weight k and those of the original.
// bounds: 2 rows x L=2 sites with codes in {gap, A, R, N}, k in 1..3, self-concatenation layout, symbolic selectedSites, weights nil or dyadic k/2 (k=1..8)
// outside: other codes / shapes; IEEE rounding is outside the claim: floats are exact reals
func H_C08_replicate_weight_freq() {
	L := 2
	k := nondetRange(1, 3)
	r1, r2 := vfC08CodesIn(L, vfC08SetA), vfC08CodesIn(L, vfC08SetA)
	sel := vfC08Sel(L)
	w := vfC08Weights(L)
	R := L * k
	a1, a2, asel := make([]uint8, R), make([]uint8, R), make([]bool, R)
	var aw []float64
	if w != nil {
		aw = make([]float64, R)
	}
	for j := 0; j < R; j++ {
		i := j % L
		a1[j], a2[j], asel[j] = r1[i], r2[i], sel[i]
		if w != nil {
			aw[j] = w[i]
		}
	}
	kw := make([]float64, L)
	for i := range kw {
		if w != nil {
			kw[i] = float64(k) * w[i]
		} else {
			kw[i] = float64(k)
		}
	}
	verifReach("called")
	vfC08FreqPair([][]uint8{r1, r2}, sel, w, [][]uint8{a1, a2}, asel, aw, "base frequencies are unchanged by k-fold replication")
	vfC08FreqPair([][]uint8{r1, r2}, sel, w, [][]uint8{r1, r2}, sel, kw, "base frequencies are unchanged by the integer weight k")
}

// --------------------------------------------------------------------------------- unit weights

// H_C08_unit_weights: explicit unit weights give the same counts, frequencies and number of sites as nil weights (all counters, the internal-gap mode included).
// bounds: two encoded rows of L<=3 symbolic codes 0..15 (counters), symbolic selectedSites, removeAmbiguous symbolic; frequencies: 2 rows x 2 sites with codes in {gap, A, R, N}
// outside: L>3; IEEE rounding is outside the claim: floats are exact reals
func H_C08_unit_weights() {
	L := nondetRange(1, 3)
	s1, s2 := vfC08Codes(L), vfC08Codes(L)
	sel := vfC08Sel(L)
	rmAmb := nondetBool()
	ones := make([]float64, L)
	for i := range ones {
		ones[i] = 1
	}
	ts, tv, ag, ct, tot := countMutations(s1, s2, sel, nil)
	uts, utv, uag, uct, utot := countMutations(s1, s2, sel, ones)
	verifReach("called")
	verifAssert(ts == uts && tv == utv && ag == uag && ct == uct && tot == utot, "countMutations: unit weights == nil")
	d, n := countDiffs(s1, s2, sel, nil, rmAmb)
	ud, un := countDiffs(s1, s2, sel, ones, rmAmb)
	verifAssert(d == ud && n == un, "countDiffs: unit weights == nil")
	d, n = countDiffsWithGaps(s1, s2, sel, nil, rmAmb)
	ud, un = countDiffsWithGaps(s1, s2, sel, ones, rmAmb)
	verifAssert(d == ud && n == un, "countDiffsWithGaps: unit weights == nil")
	d, n = countDiffsWithInternalGaps(s1, s2, sel, nil, rmAmb)
	ud, un = countDiffsWithInternalGaps(s1, s2, sel, ones, rmAmb)
	verifAssert(d == ud && n == un, "countDiffsWithInternalGaps: unit weights == nil")
}

// H_C08_unit_weights_freq: explicit unit weights give the same base frequencies and the same selected sites / number of sites as nil weights.
// bounds: probaNt: 2 rows x 2 sites with codes in {gap, A, R, N}, symbolic selectedSites; selectedSites(): 2 rows x 2 sites over {A, c, N, -}, rm-gaps on/off
// outside: other codes / shapes; IEEE rounding is outside the claim: floats are exact reals
func H_C08_unit_weights_freq() {
	L := 2
	ones := []float64{1, 1}
	if nondetRange(0, 1) == 0 {
		r1, r2 := vfC08CodesIn(L, vfC08SetA), vfC08CodesIn(L, vfC08SetA)
		sel := vfC08Sel(L)
		verifReach("called")
		vfC08FreqPair([][]uint8{r1, r2}, sel, nil, [][]uint8{r1, r2}, sel, ones, "base frequencies: unit weights == nil")
		return
	}
	al := align.NewAlign(align.NUCLEOTIDS)
	names := []string{"s0", "s1"}
	for r := 0; r < 2; r++ {
		s := make([]uint8, L)
		for j := range s {
			s[j] = nondetByte()
			assume(s[j] == 'A' || s[j] == 'c' || s[j] == 'N' || s[j] == '-')
		}
		if err := al.AddSequenceChar(names[r], s, ""); err != nil {
			panic("harness: cannot build alignment: " + err.Error())
		}
	}
	rmgaps := nondetRange(0, 1) == 1
	n0, sel0 := selectedSites(al, nil, rmgaps)
	n1, sel1 := selectedSites(al, ones, rmgaps)
	verifReach("sites")
	verifAssert(n0 == n1 && len(sel0) == L && len(sel1) == L, "number of sites: unit weights == nil")
	for j := 0; j < L; j++ {
		verifAssert(sel0[j] == sel1[j], "selected sites do not depend on the weights")
	}
}

// --------------------------------------------------------------------------- reverse complement

func vfC08RevCompCounts(L int) {
	s1, s2 := vfC08Codes(L), vfC08Codes(L)
	sel := vfC08Sel(L)
	w := vfC08Weights(L)
	rmAmb := nondetBool()
	c1, c2, csel, cw := vfC08RevComp(s1), vfC08RevComp(s2), vfC08RevBools(sel), vfC08RevFloats(w)

	ts, tv, ag, ct, tot := countMutations(s1, s2, sel, w)
	cts, ctv, cag, cct, ctot := countMutations(c1, c2, csel, cw)
	verifReach("called")
	verifAssert(tot == ctot, "reverse complement: comparable sites unchanged")
	verifAssert(ts == cts && tv == ctv, "reverse complement: transitions and transversions unchanged")
	verifAssert(ag == cct && ct == cag, "reverse complement: A<->G and C<->T counts are exchanged")

	d, n := countDiffs(s1, s2, sel, w, rmAmb)
	cd, cn := countDiffs(c1, c2, csel, cw, rmAmb)
	verifAssert(d == cd && n == cn, "reverse complement: countDiffs unchanged")
	d, n = countDiffsWithGaps(s1, s2, sel, w, rmAmb)
	cd, cn = countDiffsWithGaps(c1, c2, csel, cw, rmAmb)
	verifAssert(d == cd && n == cn, "reverse complement: countDiffsWithGaps unchanged")
	// internal-gap mode: leading and trailing gap runs are exchanged by the reversal, the set
	// of internal sites is the same. (All sites selected: this counter ignores selectedSites,
	// see C07 H_C07_count_diffs_internal.)
	all := vfC08AllSel(L)
	d, n = countDiffsWithInternalGaps(s1, s2, all, w, rmAmb)
	cd, cn = countDiffsWithInternalGaps(c1, c2, all, cw, rmAmb)
	verifAssert(d == cd && n == cn, "reverse complement: countDiffsWithInternalGaps unchanged")
}

// H_C08_revcomp_counts: reverse-complementing both rows leaves differences, lengths, transitions and transversions unchanged and exchanges the A<->G and C<->T counts (all gap modes).
// bounds: two encoded rows of L<=3 symbolic codes 0..15, symbolic selectedSites (internal-gap mode: all selected), weights nil or dyadic k/2 (k=1..8), removeAmbiguous symbolic
// outside: L>3 (thorough twin: 4); IEEE rounding is outside the claim: floats are exact reals
func H_C08_revcomp_counts() {
	vfC08RevCompCounts(nondetRange(1, 3))
}

// H_C08_revcomp_counts_L4: as H_C08_revcomp_counts with 4 sites.
// bounds: L=4
// outside: L>4; IEEE rounding is outside the claim: floats are exact reals
//verif: tier=thorough
func H_C08_revcomp_counts_L4() {
	vfC08RevCompCounts(4)
}

// H_C08_perm_columns_L4: as H_C08_perm_columns with 4 sites and 8 of the 24 permutations (identity, reversal, the 3 adjacent transpositions, 2 rotations, one double transposition).
// bounds: L=4
// outside: the other 16 permutations of 4 columns (generated by the adjacent transpositions, which are included), L>4; IEEE rounding is outside the claim: floats are exact reals
//verif: tier=thorough
func H_C08_perm_columns_L4() {
	L := 4
	perms := [][]int{{0, 1, 2, 3}, {3, 2, 1, 0}, {1, 0, 2, 3}, {0, 2, 1, 3}, {0, 1, 3, 2}, {1, 2, 3, 0}, {3, 0, 1, 2}, {1, 0, 3, 2}}
	s1, s2 := vfC08Codes(L), vfC08Codes(L)
	sel := vfC08Sel(L)
	w := vfC08Weights(L)
	rmAmb := nondetBool()
	p := perms[nondetRange(0, len(perms)-1)]
	t1, t2, tsel, tw := vfC08PermCodes(s1, p), vfC08PermCodes(s2, p), vfC08PermBools(sel, p), vfC08PermFloats(w, p)
	ts, tv, ag, ct, tot := countMutations(s1, s2, sel, w)
	pts, ptv, pag, pct, ptot := countMutations(t1, t2, tsel, tw)
	verifReach("called")
	verifAssert(ts == pts && tv == ptv && ag == pag && ct == pct && tot == ptot, "countMutations is invariant under a column permutation")
	d, n := countDiffs(s1, s2, sel, w, rmAmb)
	pd, pn := countDiffs(t1, t2, tsel, tw, rmAmb)
	verifAssert(d == pd && n == pn, "countDiffs is invariant under a column permutation")
	d, n = countDiffsWithGaps(s1, s2, sel, w, rmAmb)
	pd, pn = countDiffsWithGaps(t1, t2, tsel, tw, rmAmb)
	verifAssert(d == pd && n == pn, "countDiffsWithGaps is invariant under a column permutation")
}

// H_C08_revcomp_freq: the base frequencies of the reverse-complemented alignment are those of the original with pi_A <-> pi_T and pi_C <-> pi_G exchanged.
// bounds: 2 rows x 2 sites, row 1 with codes in {gap, A, R, N}, row 2 with codes in {C, Y, B}; symbolic selectedSites, weights nil or dyadic k/2 (k=1..8)
// outside: other codes / shapes; IEEE rounding is outside the claim: floats are exact reals
func H_C08_revcomp_freq() {
	L := 2
	r1, r2 := vfC08CodesIn(L, vfC08SetA), vfC08CodesIn(L, vfC08SetB)
	sel := vfC08Sel(L)
	w := vfC08Weights(L)
	pi, err := probaNt([][]uint8{r1, r2}, sel, w)
	cpi, cerr := probaNt([][]uint8{vfC08RevComp(r1), vfC08RevComp(r2)}, vfC08RevBools(sel), vfC08RevFloats(w))
	verifReach("called")
	verifAssert(err == nil && cerr == nil && len(pi) == 4 && len(cpi) == 4, "four frequencies, no error")
	// order A C G T
	verifAssert(vfC08SameXR(pi[0], cpi[3]) && vfC08SameXR(pi[3], cpi[0]), "reverse complement exchanges pi_A and pi_T")
	verifAssert(vfC08SameXR(pi[1], cpi[2]) && vfC08SameXR(pi[2], cpi[1]), "reverse complement exchanges pi_C and pi_G")
}

// ------------------------------------------------------------- the relations on the models' Distance

// vfC08Model builds model number k with frequencies pi (order A C G T) and its parameters derived
// as published; gap mode / rm-ambiguous only concern pdist.
func vfC08Model(k int, pi []float64, sel []bool, gamma bool, alpha float64, gapmode int, rmAmb bool) DistModel {
	a, c, g, t := pi[0], pi[1], pi[2], pi[3]
	piR, piY := a+g, c+t
	switch k {
	case 0:
		return &JCModel{selectedSites: sel, gamma: gamma, alpha: alpha}
	case 1:
		return &K2PModel{selectedSites: sel, gamma: gamma, alpha: alpha}
	case 2:
		return &F81Model{pi: pi, b1: 1 - (a*a + c*c + g*g + t*t), selectedSites: sel, gamma: gamma, alpha: alpha}
	case 3:
		return &F84Model{pi: pi, a: a*g/piR + c*t/piY, b: a*g + c*t, c: piR * piY, selectedSites: sel, gamma: gamma, alpha: alpha}
	case 4:
		return &TN93Model{pi: pi, selectedSites: sel, gamma: gamma, alpha: alpha}
	}
	return &PDistModel{selectedSites: sel, countgapmut: gapmode, removeAmbiguous: rmAmb}
}

func vfC08ModelRelations(L int) {
	s1, s2 := vfC08Codes(L), vfC08Codes(L)
	sel := vfC08Sel(L)
	w := vfC08Weights(L)
	k := nondetRange(0, 5)
	gamma := nondetRange(0, 1) == 1
	alpha := 2.0
	rmAmb := false
	gapmode := GAP_COUNT_NONE
	if k == 5 {
		rmAmb = nondetBool()
		if nondetRange(0, 1) == 1 {
			gapmode = GAP_COUNT_ALL
		}
		gamma = false
	}
	pi := []float64{0.5, 0.25, 0.125, 0.125}
	m := vfC08Model(k, pi, sel, gamma, alpha, gapmode, rmAmb)
	d, err := m.Distance(s1, s2, w)
	verifReach("called")
	verifAssert(err == nil, "no error")

	switch nondetRange(0, 4) {
	case 4: // the two rows exchanged (the matrix of a row-permuted alignment holds d(j,i) where it held d(i,j))
		sd, serr := m.Distance(s2, s1, w)
		verifReach("swap")
		verifAssert(serr == nil && vfC08SameXR(d, sd), "Distance does not depend on which of the two rows comes first")
	case 0: // column permutation
		p := vfC08PickPerm(L)
		tm := vfC08Model(k, pi, vfC08PermBools(sel, p), gamma, alpha, gapmode, rmAmb)
		td, terr := tm.Distance(vfC08PermCodes(s1, p), vfC08PermCodes(s2, p), vfC08PermFloats(w, p))
		verifReach("perm")
		verifAssert(terr == nil && vfC08SameXR(d, td), "Distance is invariant under a column permutation")
	case 1: // 2-fold self-concatenation == integer weight 2 == original
		R := 2 * L
		r1, r2, rsel := make([]uint8, R), make([]uint8, R), make([]bool, R)
		var rw []float64
		if w != nil {
			rw = make([]float64, R)
		}
		kw := make([]float64, L)
		for j := 0; j < R; j++ {
			r1[j], r2[j], rsel[j] = s1[j%L], s2[j%L], sel[j%L]
			if w != nil {
				rw[j] = w[j%L]
			}
		}
		for i := range kw {
			if w != nil {
				kw[i] = 2 * w[i]
			} else {
				kw[i] = 2
			}
		}
		rm := vfC08Model(k, pi, rsel, gamma, alpha, gapmode, rmAmb)
		rd, rerr := rm.Distance(r1, r2, rw)
		wd, werr := m.Distance(s1, s2, kw)
		verifReach("replicate")
		verifAssert(rerr == nil && werr == nil, "no error")
		verifAssert(vfC08SameXR(rd, wd), "Distance: 2-fold replication == integer weight 2")
		verifAssert(vfC08SameXR(rd, d), "Distance is unchanged by replicating every column")
	case 2: // unit weights
		if w == nil {
			ones := make([]float64, L)
			for i := range ones {
				ones[i] = 1
			}
			ud, uerr := m.Distance(s1, s2, ones)
			verifReach("unit")
			verifAssert(uerr == nil && vfC08SameXR(d, ud), "Distance: unit weights == nil")
		}
	default: // reverse complement, frequencies exchanged accordingly
		cpi := []float64{pi[3], pi[2], pi[1], pi[0]}
		cm := vfC08Model(k, cpi, vfC08RevBools(sel), gamma, alpha, gapmode, rmAmb)
		cd, cerr := cm.Distance(vfC08RevComp(s1), vfC08RevComp(s2), vfC08RevFloats(w))
		verifReach("revcomp")
		verifAssert(cerr == nil && vfC08SameXR(d, cd), "Distance is invariant under reverse complement (frequencies exchanged A<->T, C<->G)")
	}
}

// H_C08_model_distance_relations: for JC, K2P, F81, F84, TN93 (plain and gamma) and pdist, the Distance of a column-permuted / 2-fold replicated / integer-weighted / unit-weighted / reverse-complemented / row-exchanged pair equals the Distance of the original pair.
// bounds: two encoded rows of L<=2 symbolic codes 0..15, symbolic selectedSites, weights nil or dyadic k/2 (k=1..8); frequencies (1/2,1/4,1/8,1/8) set in the model (exchanged for the reverse complement), gamma off / alpha=2; pdist with gap modes none/all and rm-ambiguous
// outside: L>2 (thorough twin: 3), other frequencies and alpha, the internal-gap mode; IEEE rounding is outside the claim: floats are exact reals; ln/pow are uninterpreted (equal arguments give equal values)
func H_C08_model_distance_relations() {
	vfC08ModelRelations(nondetRange(1, 2))
}

// H_C08_model_distance_relations_L3: as H_C08_model_distance_relations with 3 sites.
// bounds: L=3
// outside: L>3; IEEE rounding is outside the claim: floats are exact reals
//verif: tier=thorough
func H_C08_model_distance_relations_L3() {
	vfC08ModelRelations(3)
}

// ------------------------------------------------------------------------------ row permutation

var vfC08ModelNames = []string{"jc", "k2p", "pdist", "rawdist", "f81", "f84", "tn93"}

func vfC08RowPerm(L int, letters []uint8, gammas bool) {
	n := 3
	rows := make([][]uint8, n)
	for r := 0; r < n; r++ {
		rows[r] = make([]uint8, L)
		for j := range rows[r] {
			rows[r][j] = nondetByte()
			in := false
			for _, c := range letters {
				in = in || rows[r][j] == c
			}
			assume(in)
		}
	}
	p := vfC08Perms[3][nondetRange(1, 5)] // the 5 non-identity permutations of 3 rows
	names := []string{"s0", "s1", "s2"}
	build := func(order []int) align.Alignment {
		al := align.NewAlign(align.NUCLEOTIDS)
		for _, r := range order {
			s := make([]uint8, L)
			copy(s, rows[r])
			if err := al.AddSequenceChar(names[r], s, ""); err != nil {
				panic("harness: cannot build alignment: " + err.Error())
			}
		}
		return al
	}
	name := vfC08ModelNames[nondetRange(0, len(vfC08ModelNames)-1)]
	rmgaps := nondetRange(0, 1) == 1
	gamma := false
	if gammas {
		gamma = nondetRange(0, 1) == 1
	}
	m1, e1 := Model(name, rmgaps)
	m2, e2 := Model(name, rmgaps)
	verifAssert(e1 == nil && e2 == nil, "model exists")
	mat, err := DistMatrix(build([]int{0, 1, 2}), nil, m1, -1, -1, -1, -1, gamma, 2, 1)
	pmat, perr := DistMatrix(build(p), nil, m2, -1, -1, -1, -1, gamma, 2, 1)
	verifReach("called")
	verifAssert(err == nil && perr == nil, "no error")
	verifAssert(len(mat) == n && len(pmat) == n, "3x3 matrices")
	// row i of the permuted alignment is row p[i] of the original
	for i := 0; i < n; i++ {
		for j := 0; j < n; j++ {
			verifAssert(vfC08SameXR(pmat[i][j], mat[p[i]][p[j]]), "the matrix of the row-permuted alignment is the permuted matrix")
		}
	}
}

// H_C08_row_perm: DistMatrix (Model() + InitModel + assembly) of a row-permuted 3-row alignment is the correspondingly permuted matrix, for the 7 models.
// bounds: 3 rows x 1 site over {A,G,C,-}, the 5 non-identity row permutations, 7 models, rm-gaps on/off, no gamma, no weights, cpus=1
// outside: L>1 (thorough twin: 3 rows x 2 sites over {A,G,-}, gamma alpha=2), weights, n>3, cpus>1 (schedules: H_C08_sched_*); IEEE rounding is outside the claim: floats are exact reals
func H_C08_row_perm() {
	vfC08RowPerm(1, []uint8{'A', 'G', 'C', '-'}, false)
}

// H_C08_row_perm_deep: as H_C08_row_perm with 2 sites and the gamma variants.
// bounds: 3 rows x 2 sites over {A,G,-}, 5 row permutations, 7 models, rm-gaps on/off, gamma off / alpha=2
// outside: IEEE rounding is outside the claim: floats are exact reals
//verif: tier=thorough
func H_C08_row_perm_deep() {
	vfC08RowPerm(2, []uint8{'A', 'G', '-'}, true)
}

// H_C08_row_perm_stub: with a model returning arbitrary extended reals, permuting the rows permutes the matrix (the substitute for undefined pairs does not depend on the order in which the pairs are evaluated).
// bounds: n=3 rows, pair distances arbitrary finite reals, +Inf, -Inf or NaN, the 5 non-identity permutations, cpus=1
// outside: n>3, cpus>1 (H_C08_sched_*); IEEE rounding is outside the claim: floats are exact reals
func H_C08_row_perm_stub() {
	var v [3]float64
	for k := range v {
		switch nondetRange(0, 3) {
		case 0:
			v[k] = nondetFloat()
		case 1:
			v[k] = math.Inf(1)
		case 2:
			v[k] = math.Inf(-1)
		default:
			v[k] = math.NaN()
		}
	}
	p := vfC08Perms[3][nondetRange(1, 5)]
	m := &vfStubModel{n: 3, failAt: -1, vals: v}
	// the permuted model: the pair (i,j) of the permuted alignment is the pair (p[i],p[j])
	var pv [3]float64
	for i := 0; i < 3; i++ {
		for j := i + 1; j < 3; j++ {
			pv[vfPairIndex(i, j)] = v[vfPairIndex(p[i], p[j])]
		}
	}
	pm := &vfStubModel{n: 3, failAt: -1, vals: pv}
	mat, err := DistMatrix(vfThreeRows(), nil, m, -1, -1, -1, -1, false, 0, 1)
	pmat, perr := DistMatrix(vfThreeRows(), nil, pm, -1, -1, -1, -1, false, 0, 1)
	verifReach("called")
	verifAssert(err == nil && perr == nil, "no error")
	for i := 0; i < 3; i++ {
		for j := 0; j < 3; j++ {
			verifAssert(vfC08SameXR(pmat[i][j], mat[p[i]][p[j]]), "the matrix of the row-permuted model is the permuted matrix")
		}
	}
}
