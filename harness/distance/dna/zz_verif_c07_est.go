//go:build verif

package dna

// C07 part (B): the estimators JC69, K80, F81, F84, TN93, plain and gamma corrected, against the
// published closed forms (DESIGN.md §9.4), on a pair of rows whose observed proportions are
// symbolic.
//
// The pair: four sites, one of each kind
//     row 1:  A A C A
//     row 2:  A G T C        (identical, A<->G, C<->T, transversion)
// each site is selected or not (symbolic boolean) and carries a symbolic positive dyadic weight,
// so (P1, P2, Q) ranges over a grid of the closed simplex, including "no difference",
// "saturated" and "no comparable site at all".
// Frequencies and alpha are set directly in the model at rational sample points (fully symbolic
// frequencies are out of reach of the solvers, DESIGN.md §2.4).

import "math"

type vfFreq struct{ a, c, g, t float64 }

// sample points of the frequency simplex: uniform, two skewed dyadic points.
var vfFreqPts = []vfFreq{
	{0.25, 0.25, 0.25, 0.25},
	{0.5, 0.25, 0.125, 0.125},
	{0.125, 0.125, 0.25, 0.5},
}

// extra points of the thorough tier (4/10 etc. are the doubles nearest to these decimals: the
// formula is an identity in the frequencies, they need not sum to exactly 1).
var vfFreqPtsThorough = []vfFreq{
	{0.1, 0.2, 0.3, 0.4},
	{0.0625, 0.0625, 0.125, 0.75},
	{0.375, 0.125, 0.375, 0.125},
}

var vfAlphas = []float64{0.5, 1, 2}
var vfAlphasThorough = []float64{7.0 / 3.0, 0.25, 5}

// vfObs: observed proportions of the 4-site pair, computed from the definition.
type vfObs struct {
	s1, s2     []uint8
	sel        []bool
	w          []float64
	tot        float64 // weight of comparable sites
	p1, p2, q  float64 // A<->G, C<->T, transversions (proportions; NaN if tot == 0)
	p          float64 // proportion of differing sites
	anydiff    bool
}

func vfPair(wlo, whi int) vfObs {
	var o vfObs
	o.s1 = []uint8{vfA, vfA, vfC, vfA}
	o.s2 = []uint8{vfA, vfG, vfT, vfC}
	o.sel = make([]bool, 4)
	o.w = make([]float64, 4)
	var n [4]float64
	for i := 0; i < 4; i++ {
		o.sel[i] = nondetBool()
		o.w[i] = nondetDyadic(2, wlo, whi)
		if o.sel[i] {
			n[i] = o.w[i]
		}
	}
	o.tot = n[0] + n[1] + n[2] + n[3]
	o.p1 = n[1] / o.tot
	o.p2 = n[2] / o.tot
	o.q = n[3] / o.tot
	o.p = (n[1] + n[2] + n[3]) / o.tot
	o.anydiff = n[1]+n[2]+n[3] > 0
	return o
}

// vfPairNorm: the same pair for the models whose coefficients mix the three proportions (F84,
// TN93): with a free total weight the division by the symbolic total makes the solver time out
// (measured), so here the weights of the selected sites are constrained to sum to `total`: the
// proportions range over the grid of multiples of 1/(2*total) of the simplex (faces included
// through the unselected sites). Pairs without comparable site: H_C07_est_nocomparable.
func vfPairNorm(total int) vfObs {
	o := vfPair(1, 2*total)
	assume(o.tot == float64(total))
	return o
}

// vfNegLog is "-ln x", or its gamma replacement alpha*(x^(-1/alpha) - 1) (Jin & Nei 1990).
func vfNegLog(x float64, gamma bool, alpha float64) float64 {
	if gamma {
		return alpha * (math.Pow(x, -1/alpha) - 1)
	}
	return -math.Log(x)
}

// vfPowGuard: ENGINE LIMITATION. gosym cannot evaluate math.Pow(negative base, integer exponent)
// ("unsupported: math.Pow of negative base with integer exponent"). With alpha = 1/2, 1, 1/4 the
// exponent -1/alpha is an integer, so for these alphas the saturated region with a negative
// argument is excluded; it is covered at the alphas whose exponent is not an integer (2, 7/3, 5).
func vfPowGuard(gamma bool, alpha float64, xs ...float64) {
	if !gamma {
		return
	}
	e := -1 / alpha
	if e != math.Trunc(e) {
		return
	}
	for _, x := range xs {
		assume(!(x < 0))
	}
}

func vfGe(a, b float64) bool {
	if verifSymbolic() {
		return a >= b
	}
	return a >= b-1e-9*math.Max(1, math.Abs(b))
}

// vfJudge: the assertions common to all estimators.
// d: value returned by the model; ref: published closed form; defined: there is a comparable
// site and every argument of ln / x^(-1/alpha) is positive.
// (Written as implications, not branches: every branch on a symbolic condition costs solver
// queries, and the engine keeps the ln/pow axioms of every path it has seen.)
func vfJudge(o vfObs, d float64, err error, ref float64, defined bool) {
	verifAssert(err == nil, "no error")
	comparable := o.tot > 0
	verifAssert(!(comparable && !o.anydiff) || d == 0, "no counted difference => distance 0")
	verifAssert(!defined || vfClose(d, ref), "distance equals the published closed form")
	verifAssert(!defined || (vfFinite(d) && vfGe(d, o.p)), "corrected distance is finite and >= the observed proportion of differing sites")
	verifAssert(!(comparable && !defined) || !(vfFinite(d) && d >= 0 && d <= o.p), "saturated pair (argument of ln <= 0) is not reported as a finite distance in [0, observed proportion]")
	verifAssert(comparable || !(vfFinite(d) && d >= 0), "pair without comparable site is not reported as a finite non-negative distance")
	// vacuity guards
	if defined {
		if o.anydiff {
			verifReach("defined")
		} else {
			verifReach("nodiff")
		}
	} else if comparable {
		verifReach("saturated")
	}
}

// vfGammaAlpha enumerates plain + gamma at every alpha of the list.
func vfGammaAlpha(alphas []float64) (bool, float64) {
	k := nondetRange(0, len(alphas))
	if k == 0 {
		return false, 0
	}
	return true, alphas[k-1]
}

func vfPickFreq(pts []vfFreq) vfFreq { return pts[nondetRange(0, len(pts)-1)] }

// ------------------------------------------------------------------------------------------ JC69

func vfEstJC(alphas []float64, o vfObs) {
	gamma, alpha := vfGammaAlpha(alphas)
	// JC69: d = -3/4 ln(1 - 4p/3)
	x := 1 - 4*o.p/3
	vfPowGuard(gamma, alpha, x)
	ref := 0.75 * vfNegLog(x, gamma, alpha)
	m := &JCModel{selectedSites: o.sel, gamma: gamma, alpha: alpha}
	d, err := m.Distance(o.s1, o.s2, o.w)
	verifReach("called")
	vfJudge(o, d, err, ref, o.tot > 0 && x > 0)
}

// H_C07_est_jc: JCModel.Distance equals -3/4 ln(1-4p/3) (gamma: 3/4 a((1-4p/3)^(-1/a)-1)); zero without differences; >= p; undefined never reported as a small finite value.
// bounds: the 4-kind pair, each site selected or not, weights dyadic k/2 (k=1..8); plain and gamma with alpha in {1/2, 1, 2}
// outside: other alpha (thorough twin: 7/3, 1/4, 5), weights off the grid; IEEE rounding is outside the claim: floats are exact reals; ln/pow are uninterpreted with the axioms of DESIGN.md §2.4
func H_C07_est_jc() {
	vfEstJC(vfAlphas, vfPair(1, 8))
}

// H_C07_est_jc_deep: as H_C07_est_jc at more alphas and a finer weight grid.
// bounds: weights k/2 (k=1..40), alpha in {7/3, 1/4, 5}
// outside: IEEE rounding is outside the claim: floats are exact reals
//verif: tier=thorough
func H_C07_est_jc_deep() {
	vfEstJC(vfAlphasThorough, vfPair(1, 40))
}

// ------------------------------------------------------------------------------------------- K80

func vfEstK2P(alphas []float64, o vfObs) {
	gamma, alpha := vfGammaAlpha(alphas)
	// K80: d = -1/2 ln(1 - 2P - Q) - 1/4 ln(1 - 2Q), P = transitions, Q = transversions
	P := o.p1 + o.p2
	x1 := 1 - 2*P - o.q
	x2 := 1 - 2*o.q
	vfPowGuard(gamma, alpha, x1, x2)
	ref := 0.5*vfNegLog(x1, gamma, alpha) + 0.25*vfNegLog(x2, gamma, alpha)
	m := &K2PModel{selectedSites: o.sel, gamma: gamma, alpha: alpha}
	d, err := m.Distance(o.s1, o.s2, o.w)
	verifReach("called")
	vfJudge(o, d, err, ref, o.tot > 0 && x1 > 0 && x2 > 0)
}

// H_C07_est_k2p: K2PModel.Distance equals -1/2 ln(1-2P-Q) - 1/4 ln(1-2Q) and its gamma variant.
// bounds: the 4-kind pair, each site selected or not, weights dyadic k/2 (k=1..8); plain and gamma with alpha in {1/2, 1, 2}
// outside: other alpha (thorough twin), weights off the grid; IEEE rounding is outside the claim: floats are exact reals; ln/pow uninterpreted (DESIGN.md §2.4)
func H_C07_est_k2p() {
	vfEstK2P(vfAlphas, vfPair(1, 8))
}

// H_C07_est_k2p_deep: as H_C07_est_k2p at more alphas and a finer weight grid.
// bounds: weights k/2 (k=1..40), alpha in {7/3, 1/4, 5}
// outside: IEEE rounding is outside the claim: floats are exact reals
//verif: tier=thorough
func H_C07_est_k2p_deep() {
	vfEstK2P(vfAlphasThorough, vfPair(1, 40))
}

// ------------------------------------------------------------------------------------------- F81

func vfEstF81(pts []vfFreq, alphas []float64, o vfObs) {
	f := vfPickFreq(pts)
	gamma, alpha := vfGammaAlpha(alphas)
	// F81: d = -B ln(1 - p/B), B = 1 - sum pi^2
	B := 1 - (f.a*f.a + f.c*f.c + f.g*f.g + f.t*f.t)
	x := 1 - o.p/B
	vfPowGuard(gamma, alpha, x)
	ref := B * vfNegLog(x, gamma, alpha)
	m := &F81Model{pi: []float64{f.a, f.c, f.g, f.t}, b1: B, selectedSites: o.sel, gamma: gamma, alpha: alpha}
	d, err := m.Distance(o.s1, o.s2, o.w)
	verifReach("called")
	vfJudge(o, d, err, ref, o.tot > 0 && x > 0)
}

// H_C07_est_f81: F81Model.Distance equals -B ln(1-p/B), B = 1 - sum pi^2, and its gamma variant.
// bounds: the 4-kind pair, each site selected or not, weights dyadic k/2 (k=1..8); frequencies at 3 sample points (uniform, (1/2,1/4,1/8,1/8), (1/8,1/8,1/4,1/2)); plain and gamma with alpha in {1/2, 1, 2}
// outside: frequencies and alpha off the sample points (thorough twin adds 3+3), weights off the grid; IEEE rounding is outside the claim: floats are exact reals; ln/pow uninterpreted (DESIGN.md §2.4)
func H_C07_est_f81() {
	vfEstF81(vfFreqPts, vfAlphas, vfPair(1, 8))
}

// H_C07_est_f81_deep: as H_C07_est_f81 at more sample points.
// bounds: frequencies (1/10,2/10,3/10,4/10), (1/16,1/16,1/8,3/4), (3/8,1/8,3/8,1/8); alpha in {7/3, 1/4, 5}; weights k/2 (k=1..40)
// outside: IEEE rounding is outside the claim: floats are exact reals
//verif: tier=thorough
func H_C07_est_f81_deep() {
	vfEstF81(vfFreqPtsThorough, vfAlphasThorough, vfPair(1, 40))
}

// ------------------------------------------------------------------------------------------- F84

func vfEstF84(pts []vfFreq, alphas []float64, o vfObs) {
	f := vfPickFreq(pts)
	gamma, alpha := vfGammaAlpha(alphas)
	// F84 (Felsenstein & Churchill 1996, as in PHYLIP dnadist):
	//   A = piA piG/piR + piC piT/piY, B = piA piG + piC piT, C = piR piY
	//   d = -2A ln(1 - P/(2A) - (A-B)Q/(2AC)) + 2(A-B-C) ln(1 - Q/(2C))
	piR, piY := f.a+f.g, f.c+f.t
	A := f.a*f.g/piR + f.c*f.t/piY
	B := f.a*f.g + f.c*f.t
	C := piR * piY
	P := o.p1 + o.p2
	x1 := 1 - P/(2*A) - (A-B)*o.q/(2*A*C)
	x2 := 1 - o.q/(2*C)
	vfPowGuard(gamma, alpha, x1, x2)
	ref := 2*A*vfNegLog(x1, gamma, alpha) - 2*(A-B-C)*vfNegLog(x2, gamma, alpha)
	m := &F84Model{pi: []float64{f.a, f.c, f.g, f.t}, a: A, b: B, c: C, selectedSites: o.sel, gamma: gamma, alpha: alpha}
	d, err := m.Distance(o.s1, o.s2, o.w)
	verifReach("called")
	vfJudge(o, d, err, ref, o.tot > 0 && x1 > 0 && x2 > 0)
}

// H_C07_est_f84: F84Model.Distance equals the Felsenstein-Churchill closed form and its gamma variant.
// bounds: the 4-kind pair, each site selected or not, weights dyadic k/2 (k=1..8); frequencies at 3 sample points; plain and gamma with alpha in {1/2, 1, 2}; model parameters a,b,c set as published from the frequencies (their derivation by InitModel: H_C07_init_params)
// outside: frequencies and alpha off the sample points (thorough twin adds 3+3); IEEE rounding is outside the claim: floats are exact reals; ln/pow uninterpreted (DESIGN.md §2.4)
func H_C07_est_f84() {
	vfEstF84(vfFreqPts, vfAlphas, vfPairNorm(8))
}

// H_C07_est_f84_deep: as H_C07_est_f84 at more sample points.
// bounds: frequencies (1/10,2/10,3/10,4/10), (1/16,1/16,1/8,3/4), (3/8,1/8,3/8,1/8); alpha in {7/3, 1/4, 5}; weights k/2 (k=1..40)
// outside: IEEE rounding is outside the claim: floats are exact reals
//verif: tier=thorough
func H_C07_est_f84_deep() {
	vfEstF84(vfFreqPtsThorough, vfAlphasThorough, vfPairNorm(20))
}

// ------------------------------------------------------------------------------------------ TN93

func vfEstTN93(pts []vfFreq, alphas []float64, o vfObs) {
	f := vfPickFreq(pts)
	gamma, alpha := vfGammaAlpha(alphas)
	// Tamura & Nei 1993:
	//   d = -(2 piA piG/piR) ln(1 - piR P1/(2 piA piG) - Q/(2 piR))
	//       -(2 piC piT/piY) ln(1 - piY P2/(2 piC piT) - Q/(2 piY))
	//       -2(piR piY - piA piG piY/piR - piC piT piR/piY) ln(1 - Q/(2 piR piY))
	piR, piY := f.a+f.g, f.c+f.t
	x1 := 1 - piR*o.p1/(2*f.a*f.g) - o.q/(2*piR)
	x2 := 1 - piY*o.p2/(2*f.c*f.t) - o.q/(2*piY)
	x3 := 1 - o.q/(2*piR*piY)
	vfPowGuard(gamma, alpha, x1, x2, x3)
	ref := (2*f.a*f.g/piR)*vfNegLog(x1, gamma, alpha) +
		(2*f.c*f.t/piY)*vfNegLog(x2, gamma, alpha) +
		2*(piR*piY-f.a*f.g*piY/piR-f.c*f.t*piR/piY)*vfNegLog(x3, gamma, alpha)
	m := &TN93Model{pi: []float64{f.a, f.c, f.g, f.t}, selectedSites: o.sel, gamma: gamma, alpha: alpha}
	d, err := m.Distance(o.s1, o.s2, o.w)
	verifReach("called")
	vfJudge(o, d, err, ref, o.tot > 0 && x1 > 0 && x2 > 0 && x3 > 0)
}

// H_C07_est_tn93: TN93Model.Distance equals the Tamura-Nei closed form and its gamma variant.
// bounds: the 4-kind pair, each site selected or not, weights dyadic k/2 (k=1..8); frequencies at 3 sample points; plain and gamma with alpha in {1/2, 1, 2}
// outside: frequencies and alpha off the sample points (thorough twin adds 3+3); IEEE rounding is outside the claim: floats are exact reals; ln/pow uninterpreted (DESIGN.md §2.4)
func H_C07_est_tn93() {
	vfEstTN93(vfFreqPts, vfAlphas, vfPairNorm(8))
}

// H_C07_est_tn93_deep: as H_C07_est_tn93 at more sample points.
// bounds: frequencies (1/10,2/10,3/10,4/10), (1/16,1/16,1/8,3/4), (3/8,1/8,3/8,1/8); alpha in {7/3, 1/4, 5}; weights k/2 (k=1..40)
// outside: IEEE rounding is outside the claim: floats are exact reals
//verif: tier=thorough
func H_C07_est_tn93_deep() {
	vfEstTN93(vfFreqPtsThorough, vfAlphasThorough, vfPairNorm(20))
}
