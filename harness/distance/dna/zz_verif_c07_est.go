//go:build verif

package dna

// C07 part (B): the estimators JC69, K80, F81, F84, TN93, plain and gamma corrected, against the
// published closed forms (DESIGN.md §9.4), on a pair of rows whose observed proportions are
// symbolic.
//
// The pair: four sites, one of each kind
//     row 1:  A A C A
//     row 2:  A G T C        (identical, A<->G, C<->T, transversion)
// each site is selected or not (symbolic boolean) and carries a symbolic positive dyadic weight,
// so (P1, P2, Q) ranges over a grid of the closed simplex, including "no difference",
// "saturated" and "no comparable site at all".
// Frequencies and alpha are set directly in the model at rational sample points (fully symbolic
// frequencies are out of reach of the solvers, DESIGN.md §2.4).

import "math"

type vfFreq struct{ a, c, g, t float64 }

// sample points of the frequency simplex: uniform, two skewed dyadic points.
var vfFreqPts = []vfFreq{
	{0.25, 0.25, 0.25, 0.25},
	{0.5, 0.25, 0.125, 0.125},
	{0.125, 0.125, 0.25, 0.5},
}

// extra points of the thorough tier (4/10 etc. are the doubles nearest to these decimals: the
// formula is an identity in the frequencies, they need not sum to exactly 1).
var vfFreqPtsThorough = []vfFreq{
	{0.1, 0.2, 0.3, 0.4},
	{0.0625, 0.0625, 0.125, 0.75},
	{0.375, 0.125, 0.375, 0.125},
}

var vfAlphas = []float64{0.5, 1, 2}
var vfAlphasThorough = []float64{7.0 / 3.0, 4, 5}

// vfObs: observed proportions of the 4-site pair, computed from the definition.
type vfObs struct {
	s1, s2     []uint8
	sel        []bool
	w          []float64
	tot        float64 // weight of comparable sites
	p1, p2, q  float64 // A<->G, C<->T, transversions (proportions; NaN if tot == 0)
	p          float64 // proportion of differing sites
	anydiff    bool
}

func vfPair(wlo, whi int) vfObs {
	var o vfObs
	o.s1 = []uint8{vfA, vfA, vfC, vfA}
	o.s2 = []uint8{vfA, vfG, vfT, vfC}
	o.sel = make([]bool, 4)
	o.w = make([]float64, 4)
	var n [4]float64
	for i := 0; i < 4; i++ {
		o.sel[i] = nondetBool()
		o.w[i] = nondetDyadic(2, wlo, whi)
		if o.sel[i] {
			n[i] = o.w[i]
		}
	}
	o.tot = n[0] + n[1] + n[2] + n[3]
	o.p1 = n[1] / o.tot
	o.p2 = n[2] / o.tot
	o.q = n[3] / o.tot
	o.p = (n[1] + n[2] + n[3]) / o.tot
	o.anydiff = n[1]+n[2]+n[3] > 0
	return o
}

// vfPairNorm: the same pair with a total weight that is constant BY CONSTRUCTION, for the models
// whose coefficients mix the three proportions (K80, F84, TN93). With a free total the division by
// the symbolic total makes the solver time out (measured), and a mere assume(total == c) is
// not propagated into the divisions. So: the subset of selected sites is enumerated (15
// non-empty subsets, concrete), every selected site but the first has a free positive dyadic
// weight k/2, and the first selected site takes the remainder total - (sum of the others),
// assumed >= 1/2. The weights are still arbitrary positive multiples of 1/2 with sum `total`:
// the proportions range over the grid of multiples of 1/(2*total) of the simplex, its faces
// included through the unselected sites. Pairs without comparable site: H_C07_est_nocomparable.
func vfPairNorm(total int) vfObs {
	var o vfObs
	o.s1 = []uint8{vfA, vfA, vfC, vfA}
	o.s2 = []uint8{vfA, vfG, vfT, vfC}
	o.sel = make([]bool, 4)
	o.w = make([]float64, 4)
	subset := nondetRange(1, 15)
	first := -1
	others := 0.0
	for i := 0; i < 4; i++ {
		o.sel[i] = subset&(1<<uint(i)) != 0
		o.w[i] = nondetDyadic(2, 1, 2*total)
		if o.sel[i] {
			if first < 0 {
				first = i
			} else {
				others += o.w[i]
			}
		}
	}
	o.w[first] = float64(total) - others
	assume(o.w[first] >= 0.5)
	var n [4]float64
	for i := 0; i < 4; i++ {
		if o.sel[i] {
			n[i] = o.w[i]
		}
	}
	T := float64(total)
	o.tot = T
	o.p1 = n[1] / T
	o.p2 = n[2] / T
	o.q = n[3] / T
	o.p = (n[1] + n[2] + n[3]) / T
	o.anydiff = n[1]+n[2]+n[3] > 0
	return o
}

// vfNegLog is "-ln x", or its gamma replacement alpha*(x^(-1/alpha) - 1) (Jin & Nei 1990).
func vfNegLog(x float64, gamma bool, alpha float64) float64 {
	if gamma {
		return alpha * (math.Pow(x, -1/alpha) - 1)
	}
	return -math.Log(x)
}

func vfGe(a, b float64) bool {
	if verifSymbolic() {
		return a >= b
	}
	return a >= b-1e-9*math.Max(1, math.Abs(b))
}

// vfJudge: the assertions common to all estimators.
// d: value returned by the model; ref: published closed form; defined: there is a comparable
// site and every argument of ln / x^(-1/alpha) is positive.
// (Written as implications, not branches: every branch on a symbolic condition costs solver
// queries, and the engine keeps the ln/pow axioms of every path it has seen.)
func vfJudge(o vfObs, d float64, err error, ref float64, defined bool, gamma bool, alpha float64) {
	verifAssert(err == nil, "no error")
	comparable := o.tot > 0
	verifAssert(!(comparable && !o.anydiff) || vfClose(d, 0), "no counted difference => distance 0")
	verifAssert(!defined || vfClose(d, ref), "distance equals the published closed form")
	verifAssert(!defined || vfFinite(d), "defined estimator is finite")
	// d >= p is a consequence of ln x <= x-1 resp. Bernoulli's inequality (axioms of the
	// uninterpreted ln/pow). For alpha = 1/2, 1, 1/4 the engine computes x^(-1/alpha) exactly
	// (integer exponent) and the inequality becomes a nonlinear real problem on which the solver
	// gives up (measured: unknown); there it follows from the proved equality with the closed form.
	if !(gamma && -1/alpha == math.Trunc(-1/alpha)) {
		verifAssert(!defined || vfGe(d, o.p), "corrected distance is >= the observed proportion of differing sites")
	}
	intexp := gamma && -1/alpha == math.Trunc(-1/alpha)
	if !intexp {
		// (with an integer exponent this is a nonlinear inequality the solver gives up on; the
		// stronger assertion below is decided and implies it when it holds)
		verifAssert(!(comparable && !defined) || !(vfFinite(d) && d >= 0 && d <= o.p), "saturated pair (argument of ln <= 0) is not reported as a finite distance in [0, observed proportion]")
	}
	verifAssert(!(comparable && !defined) || !(vfFinite(d) && d >= 0), "saturated pair is reported as undefined (NaN, +-Inf, or a negative value that DistMatrix replaces), not as a finite non-negative distance")
	verifAssert(comparable || !(vfFinite(d) && d >= 0), "pair without comparable site is not reported as a finite non-negative distance")
	// vacuity guards
	if defined {
		if o.anydiff {
			verifReach("defined")
		} else {
			verifReach("nodiff")
		}
	} else if comparable {
		verifReach("saturated")
	}
}

// vfGammaAlpha enumerates plain + gamma at every alpha of the list.
func vfGammaAlpha(alphas []float64) (bool, float64) {
	k := nondetRange(0, len(alphas))
	if k == 0 {
		return false, 0
	}
	return true, alphas[k-1]
}

func vfPickFreq(pts []vfFreq) vfFreq { return pts[nondetRange(0, len(pts)-1)] }

// ------------------------------------------------------------------------------------------ JC69

func vfEstJC(alphas []float64, o vfObs) {
	gamma, alpha := vfGammaAlpha(alphas)
	// JC69: d = -3/4 ln(1 - 4p/3)
	x := 1 - 4*o.p/3
	ref := 0.75 * vfNegLog(x, gamma, alpha)
	m := &JCModel{selectedSites: o.sel, gamma: gamma, alpha: alpha}
	d, err := m.Distance(o.s1, o.s2, o.w)
	verifReach("called")
	vfJudge(o, d, err, ref, o.tot > 0 && x > 0, gamma, alpha)
}

// H_C07_est_jc: JCModel.Distance equals -3/4 ln(1-4p/3) (gamma: 3/4 a((1-4p/3)^(-1/a)-1)); zero without differences; >= p; undefined never reported as a small finite value.
// bounds: the 4-kind pair, each site selected or not (symbolic), free positive dyadic weights k/2 (k=1..8) (so also: no comparable site); plain and gamma with alpha in {1/2, 1, 2}
// outside: other alpha (thorough twin: 7/3, 4, 5), weights off the grid; for alpha = 1/2 and 1 the engine computes x^(-1/alpha) exactly and "d >= p" / the graded saturation assertion are not stated separately (nonlinear; they follow from the closed form resp. the stronger saturation assertion); IEEE rounding is outside the claim: floats are exact reals; ln/pow are uninterpreted with the axioms of DESIGN.md §2.4
func H_C07_est_jc() {
	vfEstJC(vfAlphas, vfPair(1, 8))
}

// H_C07_est_jc_deep: as H_C07_est_jc at more alphas and a finer weight grid.
// bounds: weights k/2 (k=1..40), alpha in {7/3, 4, 5}
// outside: IEEE rounding is outside the claim: floats are exact reals
//verif: tier=thorough
func H_C07_est_jc_deep() {
	vfEstJC(vfAlphasThorough, vfPair(1, 40))
}

// ------------------------------------------------------------------------------------------- K80

func vfEstK2P(alphas []float64, o vfObs) {
	gamma, alpha := vfGammaAlpha(alphas)
	// K80: d = -1/2 ln(1 - 2P - Q) - 1/4 ln(1 - 2Q), P = transitions, Q = transversions
	P := o.p1 + o.p2
	x1 := 1 - 2*P - o.q
	x2 := 1 - 2*o.q
	ref := 0.5*vfNegLog(x1, gamma, alpha) + 0.25*vfNegLog(x2, gamma, alpha)
	m := &K2PModel{selectedSites: o.sel, gamma: gamma, alpha: alpha}
	d, err := m.Distance(o.s1, o.s2, o.w)
	verifReach("called")
	vfJudge(o, d, err, ref, o.tot > 0 && x1 > 0 && x2 > 0, gamma, alpha)
}

// H_C07_est_k2p: K2PModel.Distance equals -1/2 ln(1-2P-Q) - 1/4 ln(1-2Q) and its gamma variant.
// bounds: the 4-kind pair, every non-empty subset of its sites selected (enumerated), positive dyadic weights k/2 summing to 8 (proportions = all multiples of 1/16 compatible with the subset); plain and gamma with alpha in {1/2, 1, 2}
// outside: other alpha (thorough twin), weights off the grid, pairs without comparable site (H_C07_est_nocomparable); for alpha = 1/2 and 1 the engine computes x^(-1/alpha) exactly and "d >= p" / the graded saturation assertion are not stated separately (nonlinear; they follow from the closed form resp. the stronger saturation assertion); IEEE rounding is outside the claim: floats are exact reals; ln/pow uninterpreted (DESIGN.md §2.4)
func H_C07_est_k2p() {
	vfEstK2P(vfAlphas, vfPairNorm(8))
}

// H_C07_est_k2p_deep: as H_C07_est_k2p at more alphas and a finer weight grid.
// bounds: weights k/2 summing to 20, alpha in {7/3, 4, 5}
// outside: IEEE rounding is outside the claim: floats are exact reals
//verif: tier=thorough
func H_C07_est_k2p_deep() {
	vfEstK2P(vfAlphasThorough, vfPairNorm(20))
}

// ------------------------------------------------------------------------------------------- F81

func vfEstF81(pts []vfFreq, alphas []float64, o vfObs) {
	f := vfPickFreq(pts)
	gamma, alpha := vfGammaAlpha(alphas)
	// F81: d = -B ln(1 - p/B), B = 1 - sum pi^2
	B := 1 - (f.a*f.a + f.c*f.c + f.g*f.g + f.t*f.t)
	x := 1 - o.p/B
	ref := B * vfNegLog(x, gamma, alpha)
	m := &F81Model{pi: []float64{f.a, f.c, f.g, f.t}, b1: B, selectedSites: o.sel, gamma: gamma, alpha: alpha}
	d, err := m.Distance(o.s1, o.s2, o.w)
	verifReach("called")
	vfJudge(o, d, err, ref, o.tot > 0 && x > 0, gamma, alpha)
}

// H_C07_est_f81: F81Model.Distance equals -B ln(1-p/B), B = 1 - sum pi^2, and its gamma variant.
// bounds: the 4-kind pair, each site selected or not (symbolic), free positive dyadic weights k/2 (k=1..8) (so also: no comparable site); frequencies at 3 sample points (uniform, (1/2,1/4,1/8,1/8), (1/8,1/8,1/4,1/2)); plain and gamma with alpha in {1/2, 1, 2}
// outside: frequencies and alpha off the sample points (thorough twin adds 3+3), weights off the grid; for alpha = 1/2 and 1 the engine computes x^(-1/alpha) exactly and "d >= p" / the graded saturation assertion are not stated separately (nonlinear; they follow from the closed form resp. the stronger saturation assertion); IEEE rounding is outside the claim: floats are exact reals; ln/pow uninterpreted (DESIGN.md §2.4)
func H_C07_est_f81() {
	vfEstF81(vfFreqPts, vfAlphas, vfPair(1, 8))
}

// H_C07_est_f81_deep: as H_C07_est_f81 at more sample points.
// bounds: frequencies (1/10,2/10,3/10,4/10), (1/16,1/16,1/8,3/4), (3/8,1/8,3/8,1/8); alpha in {7/3, 4, 5}; weights k/2 summing to 20
// outside: IEEE rounding is outside the claim: floats are exact reals
//verif: tier=thorough
func H_C07_est_f81_deep() {
	vfEstF81(vfFreqPtsThorough, vfAlphasThorough, vfPairNorm(20))
}

// ------------------------------------------------------------------------------------------- F84

func vfEstF84(pts []vfFreq, alphas []float64, o vfObs) {
	f := vfPickFreq(pts)
	gamma, alpha := vfGammaAlpha(alphas)
	// F84 (Felsenstein & Churchill 1996, as in PHYLIP dnadist):
	//   A = piA piG/piR + piC piT/piY, B = piA piG + piC piT, C = piR piY
	//   d = -2A ln(1 - P/(2A) - (A-B)Q/(2AC)) + 2(A-B-C) ln(1 - Q/(2C))
	piR, piY := f.a+f.g, f.c+f.t
	A := f.a*f.g/piR + f.c*f.t/piY
	B := f.a*f.g + f.c*f.t
	C := piR * piY
	P := o.p1 + o.p2
	x1 := 1 - P/(2*A) - (A-B)*o.q/(2*A*C)
	x2 := 1 - o.q/(2*C)
	ref := 2*A*vfNegLog(x1, gamma, alpha) - 2*(A-B-C)*vfNegLog(x2, gamma, alpha)
	m := &F84Model{pi: []float64{f.a, f.c, f.g, f.t}, a: A, b: B, c: C, selectedSites: o.sel, gamma: gamma, alpha: alpha}
	d, err := m.Distance(o.s1, o.s2, o.w)
	verifReach("called")
	vfJudge(o, d, err, ref, o.tot > 0 && x1 > 0 && x2 > 0, gamma, alpha)
}

// H_C07_est_f84: F84Model.Distance equals the Felsenstein-Churchill closed form and its gamma variant.
// bounds: the 4-kind pair, every non-empty subset of its sites selected (enumerated), positive dyadic weights k/2 summing to 8 (proportions = all multiples of 1/16 compatible with the subset); frequencies at 3 sample points (uniform, (1/2,1/4,1/8,1/8), (1/8,1/8,1/4,1/2)); plain and gamma with alpha in {1/2, 1, 2}; model parameters a,b,c set as published from the frequencies (their derivation by InitModel: H_C07_init_params)
// outside: frequencies and alpha off the sample points (thorough twin adds 3+3), pairs without comparable site (H_C07_est_nocomparable); for alpha = 1/2 and 1 the engine computes x^(-1/alpha) exactly and "d >= p" / the graded saturation assertion are not stated separately (nonlinear; they follow from the closed form resp. the stronger saturation assertion); IEEE rounding is outside the claim: floats are exact reals; ln/pow uninterpreted (DESIGN.md §2.4)
func H_C07_est_f84() {
	vfEstF84(vfFreqPts, vfAlphas, vfPairNorm(8))
}

// H_C07_est_f84_deep: as H_C07_est_f84 at more sample points.
// bounds: frequencies (1/10,2/10,3/10,4/10), (1/16,1/16,1/8,3/4), (3/8,1/8,3/8,1/8); alpha in {7/3, 4, 5}; weights k/2 summing to 20
// outside: IEEE rounding is outside the claim: floats are exact reals
//verif: tier=thorough
func H_C07_est_f84_deep() {
	vfEstF84(vfFreqPtsThorough, vfAlphasThorough, vfPairNorm(20))
}

// ------------------------------------------------------------------------------------------ TN93

func vfEstTN93(pts []vfFreq, alphas []float64, o vfObs) {
	f := vfPickFreq(pts)
	gamma, alpha := vfGammaAlpha(alphas)
	// Tamura & Nei 1993:
	//   d = -(2 piA piG/piR) ln(1 - piR P1/(2 piA piG) - Q/(2 piR))
	//       -(2 piC piT/piY) ln(1 - piY P2/(2 piC piT) - Q/(2 piY))
	//       -2(piR piY - piA piG piY/piR - piC piT piR/piY) ln(1 - Q/(2 piR piY))
	piR, piY := f.a+f.g, f.c+f.t
	x1 := 1 - piR*o.p1/(2*f.a*f.g) - o.q/(2*piR)
	x2 := 1 - piY*o.p2/(2*f.c*f.t) - o.q/(2*piY)
	x3 := 1 - o.q/(2*piR*piY)
	ref := (2*f.a*f.g/piR)*vfNegLog(x1, gamma, alpha) +
		(2*f.c*f.t/piY)*vfNegLog(x2, gamma, alpha) +
		2*(piR*piY-f.a*f.g*piY/piR-f.c*f.t*piR/piY)*vfNegLog(x3, gamma, alpha)
	m := &TN93Model{pi: []float64{f.a, f.c, f.g, f.t}, selectedSites: o.sel, gamma: gamma, alpha: alpha}
	d, err := m.Distance(o.s1, o.s2, o.w)
	verifReach("called")
	vfJudge(o, d, err, ref, o.tot > 0 && x1 > 0 && x2 > 0 && x3 > 0, gamma, alpha)
}

// H_C07_est_tn93: TN93Model.Distance equals the Tamura-Nei closed form and its gamma variant.
// bounds: the 4-kind pair, every non-empty subset of its sites selected (enumerated), positive dyadic weights k/2 summing to 8 (proportions = all multiples of 1/16 compatible with the subset); frequencies at 3 sample points (uniform, (1/2,1/4,1/8,1/8), (1/8,1/8,1/4,1/2)); plain and gamma with alpha in {1/2, 1, 2}
// outside: frequencies and alpha off the sample points (thorough twin adds 3+3), pairs without comparable site (H_C07_est_nocomparable); for alpha = 1/2 and 1 the engine computes x^(-1/alpha) exactly and "d >= p" / the graded saturation assertion are not stated separately (nonlinear; they follow from the closed form resp. the stronger saturation assertion); IEEE rounding is outside the claim: floats are exact reals; ln/pow uninterpreted (DESIGN.md §2.4)
func H_C07_est_tn93() {
	vfEstTN93(vfFreqPts, vfAlphas, vfPairNorm(8))
}

// H_C07_est_tn93_deep: as H_C07_est_tn93 at more sample points.
// bounds: frequencies (1/10,2/10,3/10,4/10), (1/16,1/16,1/8,3/4), (3/8,1/8,3/8,1/8); alpha in {7/3, 4, 5}; weights k/2 summing to 20
// outside: IEEE rounding is outside the claim: floats are exact reals
//verif: tier=thorough
func H_C07_est_tn93_deep() {
	vfEstTN93(vfFreqPtsThorough, vfAlphasThorough, vfPairNorm(20))
}

// ------------------------------------------------------------------------- no comparable site

// H_C07_est_nocomparable: a pair without any comparable site (every site unselected or carrying a gap in one of the two rows) has an undefined corrected distance: never a finite non-negative value.
// bounds: two encoded rows of L=2 symbolic codes 0..15, symbolic selectedSites, such that no selected site has two nucleotides; weights nil or dyadic k/2 (k=1..8); models JC, K2P, F81, F84, TN93 (frequencies (1/2,1/4,1/8,1/8)), plain and gamma alpha=2, and pdist
// outside: L>2; IEEE rounding is outside the claim: floats are exact reals
func H_C07_est_nocomparable() {
	L := 2
	s1, s2 := vfCodes(L), vfCodes(L)
	sel := vfSelSym(L)
	for i := 0; i < L; i++ {
		assume(!sel[i] || s1[i] == 0 || s2[i] == 0)
	}
	w := vfWeights(L)
	gamma, alpha := vfGammaAlpha([]float64{2})
	f := vfFreqPts[1]
	pi := []float64{f.a, f.c, f.g, f.t}
	piR, piY := f.a+f.g, f.c+f.t
	var m DistModel
	switch nondetRange(0, 5) {
	case 0:
		m = &JCModel{selectedSites: sel, gamma: gamma, alpha: alpha}
	case 1:
		m = &K2PModel{selectedSites: sel, gamma: gamma, alpha: alpha}
	case 2:
		m = &F81Model{pi: pi, b1: 1 - (f.a*f.a + f.c*f.c + f.g*f.g + f.t*f.t), selectedSites: sel, gamma: gamma, alpha: alpha}
	case 3:
		m = &F84Model{pi: pi, a: f.a*f.g/piR + f.c*f.t/piY, b: f.a*f.g + f.c*f.t, c: piR * piY, selectedSites: sel, gamma: gamma, alpha: alpha}
	case 4:
		m = &TN93Model{pi: pi, selectedSites: sel, gamma: gamma, alpha: alpha}
	default:
		m = &PDistModel{selectedSites: sel}
	}
	d, err := m.Distance(s1, s2, w)
	verifReach("called")
	verifAssert(err == nil, "no error")
	verifAssert(!(vfFinite(d) && d >= 0), "pair without comparable site is not reported as a finite non-negative distance")
}

// ------------------------------------------------------------------------------ pdist, rawdist

func vfEstPdistRaw(L int) {
	s1, s2 := vfCodes(L), vfCodes(L)
	gapmode := nondetRange(0, 2) // --gap-mut: 0 gaps never count, 1 only internal gaps, 2 all gaps
	var sel []bool
	if gapmode == 1 {
		// the internal-gap counter ignores selectedSites (H_C07_count_diffs_internal): that region
		// is excluded here so that the rest of the claim is checked
		sel = vfSelAll(L)
	} else {
		sel = vfSelSym(L)
	}
	w := vfWeights(L)
	raw := nondetRange(0, 1) == 1
	if raw {
		m := NewRawDistModel(false)
		verifAssert(m.SetCountGapMutations(gapmode) == nil, "gap mode accepted")
		m.selectedSites = sel
		d, err := m.Distance(s1, s2, w)
		verifReach("raw")
		rd, _ := vfRefDiffs(s1, s2, sel, w, gapmode, false)
		verifAssert(err == nil && d == rd, "rawdist = weighted number of differing sites")
		return
	}
	rmAmb := nondetBool()
	m := NewPDistModel(false)
	verifAssert(m.SetCountGapMutations(gapmode) == nil, "gap mode accepted")
	m.SetRemoveAmbiguous(rmAmb)
	m.selectedSites = sel
	d, err := m.Distance(s1, s2, w)
	verifReach("pdist")
	rd, rt := vfRefDiffs(s1, s2, sel, w, gapmode, rmAmb)
	verifAssert(err == nil, "no error")
	// Two steps, because "d * length == differences" is a nonlinear query on which the solver
	// gives up under load: (1) the counter documented for this gap mode equals the reference
	// counts (linear), (2) the distance is the quotient of exactly these two counts.
	var cd, ct float64
	switch gapmode {
	case 0:
		cd, ct = countDiffs(s1, s2, sel, w, rmAmb)
	case 1:
		cd, ct = countDiffsWithInternalGaps(s1, s2, sel, w, rmAmb)
	default:
		cd, ct = countDiffsWithGaps(s1, s2, sel, w, rmAmb)
	}
	verifAssert(cd == rd && ct == rt, "the counter of the gap mode equals the per-site definition")
	if rt > 0 {
		verifReach("pdist-defined")
		verifAssert(vfClose(d, cd/ct), "pdist = differing sites / counted sites")
		verifAssert(d >= 0 && d <= 1, "pdist is a proportion")
	} else {
		verifAssert(!(vfFinite(d) && d >= 0), "pdist without counted site is undefined")
	}
}

// H_C07_est_pdist_raw: PDistModel/RawDistModel.Distance equal differing/counted sites resp. the number of differing sites, for the three --gap-mut modes (0 none, 1 internal, 2 all) and --rm-ambiguous.
// bounds: two encoded rows of L<=3 symbolic codes 0..15; selectedSites symbolic (gap modes 0, 2) or all selected (gap mode 1); weights nil or dyadic k/2 (k=1..8); removeAmbiguous symbolic
// outside: gap mode 1 with unselected sites (H_C07_count_diffs_internal), L>3 (thorough twin: 4); IEEE rounding is outside the claim: floats are exact reals
func H_C07_est_pdist_raw() {
	vfEstPdistRaw(nondetRange(1, 3))
}

// H_C07_est_pdist_raw_L4: as H_C07_est_pdist_raw with 4 sites.
// bounds: L=4
// outside: L>4; IEEE rounding is outside the claim: floats are exact reals
//verif: tier=thorough
func H_C07_est_pdist_raw_L4() {
	vfEstPdistRaw(4)
}
