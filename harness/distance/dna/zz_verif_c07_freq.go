//go:build verif

package dna

// C07 parts (C) base frequencies with ambiguity sharing, derivation of the model parameters by
// InitModel, and (D) site selection under rm-gaps.
//
// Definition used as oracle (ambiguity sharing): the frequency of nucleotide x is the weighted
// number of residues that are x, a residue with an ambiguity code standing for k nucleotides
// counting 1/k for each of them, divided by the weighted number of nucleotide residues. Gaps are
// not bases: they count neither above nor below the line, so the four frequencies sum to 1 (the
// published F81/F84/TN93 formulas assume this: B = 1 - sum pi^2, pi_R + pi_Y = 1).

import (
	"math"

	"github.com/evolbioinfo/goalign/align"
)

var vfNts = []uint8{vfA, vfC, vfG, vfT}

// vfRefFreq: num[x] and den of the definition over the cells of the sites i with sel[i] (and
// use[i] when use != nil).
func vfRefFreq(rows [][]uint8, sel []bool, w []float64, use []bool) (num [4]float64, den float64) {
	if len(rows) == 0 {
		return
	}
	for i := 0; i < len(rows[0]); i++ {
		wi := vfW(w, i)
		site := sel[i]
		if use != nil {
			site = site && use[i]
		}
		for r := range rows {
			c := rows[r][i]
			if site && vfIsNucCode(c) {
				den += wi
				k := float64(vfCard(c))
				for x := 0; x < 4; x++ {
					if c&vfNts[x] != 0 {
						num[x] += wi / k
					}
				}
			}
		}
	}
	return
}

// vfCodesIn: L symbolic codes taken from `set` (nil: every code 0..15); without gaps: code 0 excluded.
// probaNt indexes the table of possible nucleotides with the code: the engine enumerates the
// code of every cell (16 cases per cell), so the shapes are kept at <= 2 cells with all codes
// and 4 cells with a set of 4 codes.
func vfCodesIn(L int, set []uint8, gaps bool) []uint8 {
	s := vfCodes(L)
	for i := range s {
		if set != nil {
			in := false
			for _, c := range set {
				in = in || s[i] == c
			}
			assume(in)
		}
		if !gaps {
			assume(s[i] >= 1)
		}
	}
	return s
}

// code sets for the 4-cell shapes: gap, one base, a two-fold and the four-fold ambiguity code.
var vfSetA = []uint8{0, vfA, vfA | vfG, 15}
var vfSetB = []uint8{0, vfC, vfC | vfT, vfC | vfG | vfT}

// vfShape enumerates the quick shapes: (1x1, 2x1, 1x2) with all codes, 2x2 with a code set.
func vfShape() (n, L int, set []uint8) {
	switch nondetRange(0, 3) {
	case 0:
		return 1, 1, nil
	case 1:
		return 2, 1, nil
	case 2:
		return 1, 2, nil
	}
	return 2, 2, vfSetA
}

func vfProbaNt(n, L int, set []uint8, gaps bool) {
	rows := make([][]uint8, n)
	for r := range rows {
		rows[r] = vfCodesIn(L, set, gaps)
	}
	sel := vfSelSym(L)
	w := vfWeights(L)
	pi, err := probaNt(rows, sel, w)
	verifReach("called")
	verifAssert(err == nil && len(pi) == 4, "four frequencies, no error")
	num, den := vfRefFreq(rows, sel, w, nil)
	if den > 0 {
		verifReach("defined")
		for x := 0; x < 4; x++ {
			verifAssert(vfClose(pi[x]*den, num[x]), "frequency = shared count / number of nucleotide residues")
		}
		verifAssert(vfClose(pi[0]+pi[1]+pi[2]+pi[3], 1), "frequencies sum to 1")
	}
}

// H_C07_proba_nt: probaNt equals the ambiguity-sharing base frequencies of the selected sites (gaps are not bases).
// bounds: shapes 1x1, 2x1, 1x2 with codes 0..15 (gaps included) and 2x2 with codes in {gap, A, R, N}; symbolic selectedSites, weights nil or dyadic k/2 (k=1..8)
// outside: larger shapes; IEEE rounding is outside the claim: floats are exact reals
func H_C07_proba_nt() {
	n, L, set := vfShape()
	vfProbaNt(n, L, set, true)
}

// H_C07_proba_nt_nogap: as H_C07_proba_nt on alignments without gaps (excludes exactly the region where gap cells enter the denominator).
// bounds: shapes 1x1, 2x1, 1x2 with codes 1..15 and 2x2 with codes in {A, R, N}; symbolic selectedSites, weights nil or dyadic k/2 (k=1..8)
// outside: gaps (H_C07_proba_nt), larger shapes; IEEE rounding is outside the claim: floats are exact reals
func H_C07_proba_nt_nogap() {
	n, L, set := vfShape()
	vfProbaNt(n, L, set, false)
}

// H_C07_proba_nt_nogap_deep: as H_C07_proba_nt_nogap, 2x2 with 8 codes, 3x2 with 3 codes.
// bounds: 2 rows x 2 sites, codes in {A,C,G,T,R,Y,B,N}; 3 rows x 2 sites, codes in {C, Y, B}
// outside: IEEE rounding is outside the claim: floats are exact reals
//verif: tier=thorough
func H_C07_proba_nt_nogap_deep() {
	if nondetRange(0, 1) == 0 {
		vfProbaNt(2, 2, []uint8{vfA, vfC, vfG, vfT, vfA | vfG, vfC | vfT, vfC | vfG | vfT, 15}, false)
	} else {
		vfProbaNt(3, 2, vfSetB, false)
	}
}

func vfProbaNt2(L int, set []uint8, gaps bool) {
	s1, s2 := vfCodesIn(L, set, gaps), vfCodesIn(L, set, gaps)
	sel := vfSelSym(L)
	w := vfWeights(L)
	pi, err := probaNt2Seqs(s1, s2, sel, w)
	verifReach("called")
	verifAssert(err == nil && len(pi) == 4, "four frequencies, no error")
	// the pair's comparable sites: both residues are nucleotides
	both := make([]bool, L)
	for i := range both {
		both[i] = vfIsNucCode(s1[i]) && vfIsNucCode(s2[i])
	}
	num, den := vfRefFreq([][]uint8{s1, s2}, sel, w, both)
	if den > 0 {
		verifReach("defined")
		for x := 0; x < 4; x++ {
			verifAssert(vfClose(pi[x]*den, num[x]), "pair frequency = shared count / number of residues on the comparable sites")
		}
		verifAssert(vfClose(pi[0]+pi[1]+pi[2]+pi[3], 1), "frequencies sum to 1")
	}
}

// X_C07_proba_nt2_deadcode (not run: probaNt2Seqs is dead code, its gap-denominator defect has no observable effect): probaNt2Seqs equals the ambiguity-sharing base frequencies of the pair on its comparable sites.
// bounds: L=1 with codes 0..15 (gaps included), L=2 with codes in {gap, C, Y, B}; symbolic selectedSites, weights nil or dyadic k/2 (k=1..8)
// outside: L>2; IEEE rounding is outside the claim: floats are exact reals
// assumes: probaNt2Seqs is not called by any model of this version (dead code); a failure has no visible effect on distances
//verif: tier=thorough
func X_C07_proba_nt2_deadcode() {
	if nondetRange(1, 2) == 1 {
		vfProbaNt2(1, nil, true)
	} else {
		vfProbaNt2(2, vfSetB, true)
	}
}

// H_C07_proba_nt2_nogap: as H_C07_proba_nt2 on pairs without gaps.
// bounds: L=1 with codes 1..15, L=2 with codes in {C, Y, B}; symbolic selectedSites, weights nil or dyadic k/2 (k=1..8)
// outside: gaps (H_C07_proba_nt2), L>2; IEEE rounding is outside the claim: floats are exact reals
func H_C07_proba_nt2_nogap() {
	if nondetRange(1, 2) == 1 {
		vfProbaNt2(1, nil, false)
	} else {
		vfProbaNt2(2, vfSetB, false)
	}
}

// ---------------------------------------------------------------------------------------------
// InitModel

var vfRowNames = []string{"s0", "s1", "s2"}

// residues used for alignments built through the public API: the four bases, some ambiguity
// codes in both cases, the gap.
var vfLetters = []uint8{'A', 'C', 'G', 'T', 'a', 'R', 'y', 'N', 'B', '-'}

func vfMaskOfLetter(c uint8) uint8 {
	switch c {
	case 'A', 'a':
		return vfA
	case 'C', 'c':
		return vfC
	case 'G', 'g':
		return vfG
	case 'T', 't':
		return vfT
	case 'R', 'r':
		return vfA | vfG
	case 'Y', 'y':
		return vfC | vfT
	case 'N', 'n':
		return 15
	case 'B', 'b':
		return vfC | vfG | vfT
	}
	return 0
}

func vfIsLetter(c uint8, letters []uint8) bool {
	ok := false
	for _, l := range letters {
		ok = ok || c == l
	}
	return ok
}

// vfSymDNA builds an n x L nucleotide alignment through the public API; residues symbolic in `letters`.
func vfSymDNA(n, L int, letters []uint8) (align.Alignment, [][]uint8) {
	al := align.NewAlign(align.NUCLEOTIDS)
	orig := make([][]uint8, n)
	for r := 0; r < n; r++ {
		s := make([]uint8, L)
		for j := range s {
			s[j] = nondetByte()
			assume(vfIsLetter(s[j], letters))
		}
		orig[r] = make([]uint8, L)
		copy(orig[r], s)
		if err := al.AddSequenceChar(vfRowNames[r], s, ""); err != nil {
			panic("harness: cannot build alignment: " + err.Error())
		}
	}
	return al, orig
}

func vfMasks(orig [][]uint8) [][]uint8 {
	out := make([][]uint8, len(orig))
	for r := range orig {
		out[r] = make([]uint8, len(orig[r]))
		for j := range orig[r] {
			out[r][j] = vfMaskOfLetter(orig[r][j])
		}
	}
	return out
}

func vfInitParams(n, L int, letters []uint8) {
	if L == 2 {
		// 4 cells: 3 letters (the encoder and probaNt enumerate every cell)
		if letters[len(letters)-1] == '-' {
			letters = []uint8{'A', 'y', '-'}
		} else {
			letters = []uint8{'A', 'y', 'N'}
		}
	}
	al, orig := vfSymDNA(n, L, letters)
	masks := vfMasks(orig)
	w := vfWeights(L)
	rmgaps := nondetRange(0, 1) == 1
	gamma := nondetBool()
	alpha := 0.5
	which := nondetRange(0, 2)

	var pi []float64
	var sel []bool
	var codes [][]uint8
	switch which {
	case 0:
		m := NewF81Model(rmgaps)
		verifAssert(m.InitModel(al, w, gamma, alpha) == nil, "InitModel succeeds")
		verifReach("f81")
		pi, sel, codes = m.pi, m.selectedSites, m.sequenceCodes
		verifAssert(m.gamma == gamma && m.alpha == alpha, "gamma and alpha recorded")
		// Felsenstein 1981: B = 1 - sum pi^2
		B := 1 - (pi[0]*pi[0] + pi[1]*pi[1] + pi[2]*pi[2] + pi[3]*pi[3])
		verifAssert(vfClose(m.b1, B) || (math.IsNaN(B) && math.IsNaN(m.b1)), "F81: B = 1 - sum pi^2")
	case 1:
		m := NewF84Model(rmgaps)
		verifAssert(m.InitModel(al, w, gamma, alpha) == nil, "InitModel succeeds")
		verifReach("f84")
		pi, sel, codes = m.pi, m.selectedSites, m.sequenceCodes
		verifAssert(m.gamma == gamma && m.alpha == alpha, "gamma and alpha recorded")
		// pi order: A C G T
		piR, piY := pi[0]+pi[2], pi[1]+pi[3]
		A := pi[0]*pi[2]/piR + pi[1]*pi[3]/piY
		B := pi[0]*pi[2] + pi[1]*pi[3]
		C := piR * piY
		verifAssert(vfClose(m.a, A) || (math.IsNaN(A) && math.IsNaN(m.a)), "F84: A = piA piG/piR + piC piT/piY")
		verifAssert(vfClose(m.b, B) || (math.IsNaN(B) && math.IsNaN(m.b)), "F84: B = piA piG + piC piT")
		verifAssert(vfClose(m.c, C) || (math.IsNaN(C) && math.IsNaN(m.c)), "F84: C = piR piY")
	default:
		m := NewTN93Model(rmgaps)
		verifAssert(m.InitModel(al, w, gamma, alpha) == nil, "InitModel succeeds")
		verifReach("tn93")
		pi, sel, codes = m.pi, m.selectedSites, m.sequenceCodes
		verifAssert(m.gamma == gamma && m.alpha == alpha, "gamma and alpha recorded")
	}
	verifAssert(len(pi) == 4 && len(sel) == L && len(codes) == n, "shapes")
	for r := 0; r < n; r++ {
		verifAssert(len(codes[r]) == L, "encoded row length")
		for j := 0; j < L; j++ {
			verifAssert(codes[r][j] == masks[r][j], "encoded residue is the IUPAC mask of the letter (case-insensitive), 0 for a gap")
		}
	}
	// the frequencies are those of the alignment on the sites the model selected
	num, den := vfRefFreq(masks, sel, w, nil)
	if den > 0 {
		verifReach("defined")
		for x := 0; x < 4; x++ {
			verifAssert(vfClose(pi[x]*den, num[x]), "model frequencies are the alignment's ambiguity-sharing base frequencies")
		}
	}
}

// H_C07_init_params: InitModel of F81/F84/TN93 encodes the rows, records gamma/alpha, estimates the base frequencies and derives B (F81) and A,B,C (F84) from them as published.
// bounds: n=2 rows; L=1 with residues in {A,C,G,T,a,R,y,N,B,-}, L=2 with residues in {A,y,-}; rm-gaps on/off, weights nil or dyadic k/2 (k=1..8), gamma on/off
// outside: other residues, n>2, L>2; IEEE rounding is outside the claim: floats are exact reals
func H_C07_init_params() {
	vfInitParams(2, nondetRange(1, 2), vfLetters)
}

// H_C07_init_params_nogap: as H_C07_init_params on alignments without gaps (excludes the region where probaNt counts gap cells in its denominator).
// bounds: n=2 rows; L=1 with residues in {A,C,G,T,a,R,y,N,B}, L=2 with residues in {A,y,N}; rm-gaps on/off, weights nil or dyadic k/2 (k=1..8), gamma on/off
// outside: gaps (H_C07_init_params), n>2, L>2; IEEE rounding is outside the claim: floats are exact reals
func H_C07_init_params_nogap() {
	vfInitParams(2, nondetRange(1, 2), vfLetters[:len(vfLetters)-1])
}

// ---------------------------------------------------------------------------------------------
// (D) selectedSites

// H_C07_selected_sites: selectedSites keeps every site without rm-gaps; with rm-gaps it drops exactly the sites containing >= 1 gap (documentation of --rm-gaps); numSites is the weight of the kept sites.
// bounds: n<=2 rows, L<=2 sites, residues in {A,C,G,T,a,R,y,N,B,-}, weights nil or dyadic k/2 (k=1..8)
// outside: other residues (*, ?, X, .), n>2, L>2 (thorough twin: n=2, L=3); IEEE rounding is outside the claim: floats are exact reals
func H_C07_selected_sites() {
	vfSelectedSites(nondetRange(1, 2), nondetRange(1, 2))
}

// H_C07_selected_sites_L3: as H_C07_selected_sites with 2 rows and 3 sites.
// bounds: n=2, L=3
// outside: IEEE rounding is outside the claim: floats are exact reals
//verif: tier=thorough
func H_C07_selected_sites_L3() {
	vfSelectedSites(2, 3)
}

func vfSelectedSites(n, L int) {
	al, orig := vfSymDNA(n, L, vfLetters)
	w := vfWeights(L)
	rmgaps := nondetRange(0, 1) == 1
	num, sel := selectedSites(al, w, rmgaps)
	verifReach("called")
	verifAssert(len(sel) == L, "one flag per site")
	ref := 0.0
	anyAmbigNoGap := false
	for j := 0; j < L; j++ {
		gap, ambig := false, false
		for r := 0; r < n; r++ {
			gap = gap || orig[r][j] == '-'
			ambig = ambig || vfAmbiguous(vfMaskOfLetter(orig[r][j]))
		}
		// (implications instead of branches: fewer paths)
		verifAssert(rmgaps || sel[j], "without rm-gaps every site is selected")
		verifAssert(!(rmgaps && gap) || !sel[j], "rm-gaps: a site with a gap is not selected")
		verifAssert(!(rmgaps && !gap && !ambig) || sel[j], "rm-gaps: a site of A,C,G,T only is selected")
		// (a gap-free site carrying an ambiguity code: the option's help text says only positions with
		// gaps are dropped, the code also drops these; property C07 does not say which, so nothing
		// is asserted about them)
		anyAmbigNoGap = anyAmbigNoGap || (rmgaps && !gap && ambig)
		if sel[j] {
			ref += vfW(w, j)
		}
	}
	verifAssert(num == ref, "numSites = weight of the selected sites")
	if anyAmbigNoGap {
		verifReach("ambiguous-no-gap")
	}
}
