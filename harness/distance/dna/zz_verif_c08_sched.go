//go:build verif

package dna

import (
	"errors"
	"math"

	"github.com/evolbioinfo/goalign/align"
)

// C08 (schedules): DistMatrix returns for every thread count and interleaving, with the error
// if a model evaluation fails, the same matrix as the one-thread run, and without data races.

// vfStubModel is a caller-supplied distance model: the distance of the pair (i,j) is a fixed
// value, and the evaluation of pair number failAt (in the order 01,02,12) fails. It keeps no
// mutable state, so any data race reported is in DistMatrix itself.
type vfStubModel struct {
	n      int
	failAt int
	vals   [3]float64
}

func (m *vfStubModel) InitModel(al align.Alignment, weights []float64, gamma bool, alpha float64) error {
	return nil
}

func (m *vfStubModel) Sequence(i int) ([]uint8, error) { return []uint8{uint8(i)}, nil }

func vfPairIndex(i, j int) int {
	if i > j {
		i, j = j, i
	}
	if i == 0 {
		return j - 1 // (0,1)->0 (0,2)->1
	}
	return 2 // (1,2)
}

func (m *vfStubModel) Distance(s1, s2 []uint8, w []float64) (float64, error) {
	k := vfPairIndex(int(s1[0]), int(s2[0]))
	if k == m.failAt {
		return 0, errors.New("model evaluation failed")
	}
	return m.vals[k], nil
}

func vfThreeRows() align.Alignment {
	al := align.NewAlign(align.NUCLEOTIDS)
	al.AddSequence("a", "AC", "")
	al.AddSequence("b", "AG", "")
	al.AddSequence("c", "TT", "")
	return al
}

// H_C08_sched_distmatrix: all interleavings (bounded preemption) of producer and workers give the matrix of the stub.
// bounds: 3 rows (3 pairs), cpus in {1,2}, distances concrete 1/4, 1/2, 3/4 (all defined), preemption bound 2, context switches only at synchronisation operations (channel, mutex, waitgroup, go)
// outside: more than 2 workers / 3 pairs, preemption between two non-synchronising instructions (covered by the happens-before race check instead)
//verif: sched=1 race=1 preempt=2
func H_C08_sched_distmatrix() {
	cpus := nondetRange(1, 2)
	m := &vfStubModel{n: 3, failAt: -1, vals: [3]float64{0.25, 0.5, 0.75}}
	mat, err := DistMatrix(vfThreeRows(), nil, m, -1, -1, -1, -1, false, 0, cpus)
	verifReach("returned")
	verifAssert(err == nil, "no error when no evaluation fails")
	verifAssert(len(mat) == 3, "3x3 matrix")
	for i := 0; i < 3; i++ {
		verifAssert(mat[i][i] == 0, "zero diagonal")
		for j := 0; j < 3; j++ {
			if i != j {
				verifAssert(mat[i][j] == m.vals[vfPairIndex(i, j)], "entry is the model's distance for every schedule")
			}
		}
	}
}

// H_C08_sched_error_returns: when the evaluation of one pair fails, every interleaving returns, with the error.
// bounds: 3 rows, cpus in {1,2}, failing pair = any of the 3, preemption bound 2
// outside: as H_C08_sched_distmatrix
//verif: sched=1 race=1 preempt=2
func H_C08_sched_error_returns() {
	cpus := nondetRange(1, 2)
	failAt := nondetRange(0, 2)
	m := &vfStubModel{n: 3, failAt: failAt, vals: [3]float64{0.25, 0.5, 0.75}}
	_, err := DistMatrix(vfThreeRows(), nil, m, -1, -1, -1, -1, false, 0, cpus)
	verifReach("returned")
	verifAssert(err != nil, "the error of the failing evaluation is returned")
}

// H_C08_sched_undefined: pairs with undefined distances are replaced by a common substitute in every schedule.
// bounds: 3 rows, cpus in {1,2}, distances 1/4, -1 (undefined), 3/4; preemption bound 2
//verif: sched=1 race=1 preempt=2
func H_C08_sched_undefined() {
	cpus := nondetRange(1, 2)
	m := &vfStubModel{n: 3, failAt: -1, vals: [3]float64{0.25, -1, 0.75}}
	mat, err := DistMatrix(vfThreeRows(), nil, m, -1, -1, -1, -1, false, 0, cpus)
	verifReach("returned")
	verifAssert(err == nil, "no error")
	verifAssert(mat[0][1] == 0.25 && mat[1][0] == 0.25 && mat[1][2] == 0.75 && mat[2][1] == 0.75, "defined entries unchanged")
	verifAssert(mat[0][2] == 1.5 && mat[2][0] == 1.5, "undefined entry replaced by twice the largest defined distance, whatever the schedule")
}

// vfWideStub is vfStubModel for any number of rows: the distance of (i,j) is (i+j)/64 and the
// failAt-th evaluation (counted per model, so per DistMatrix call: evaluations of one worker
// are sequential, and the harness uses it with the default schedule) fails, as do all later ones
// when sticky is set.
type vfWideStub struct {
	failPairI, failPairJ int
	sticky               bool
	undefined            bool // every pair is saturated: +Inf
}

func (m *vfWideStub) InitModel(al align.Alignment, weights []float64, gamma bool, alpha float64) error {
	return nil
}
func (m *vfWideStub) Sequence(i int) ([]uint8, error) { return []uint8{uint8(i)}, nil }
func (m *vfWideStub) Distance(s1, s2 []uint8, w []float64) (float64, error) {
	i, j := int(s1[0]), int(s2[0])
	if i > j {
		i, j = j, i
	}
	if (i == m.failPairI && j == m.failPairJ) || (m.sticky && (i > m.failPairI || (i == m.failPairI && j >= m.failPairJ))) {
		return 0, errors.New("model evaluation failed")
	}
	if m.undefined {
		return math.Inf(1), nil
	}
	return float64(i+j) / 64, nil
}

func vfManyRows(n int) align.Alignment {
	al := align.NewAlign(align.NUCLEOTIDS)
	for i := 0; i < n; i++ {
		al.AddSequence(string([]byte{'a' + byte(i)}), "A", "")
	}
	return al
}

// H_C08_error_returns_backlog: a failing evaluation while more pairs are pending than the pair channel can buffer (capacity 100): the call still returns, with the error, and no goroutine is left blocked.
// bounds: 15 one-column rows (105 pairs), cpus in {1,2}, the failing pair is the first, the second or the last one, failing once or from then on; default schedule (current thread runs until it blocks, then lowest id), deadlock detection on
// outside: other schedules for this size (explored for 3 pairs in H_C08_sched_error_returns), more rows
//verif: race=1
func H_C08_error_returns_backlog() {
	cpus := nondetRange(1, 2)
	which := nondetRange(0, 2)
	sticky := nondetBool()
	m := &vfWideStub{sticky: sticky}
	switch which {
	case 0:
		m.failPairI, m.failPairJ = 0, 1
	case 1:
		m.failPairI, m.failPairJ = 0, 2
	default:
		m.failPairI, m.failPairJ = 13, 14
	}
	_, err := DistMatrix(vfManyRows(15), nil, m, -1, -1, -1, -1, false, 0, cpus)
	verifReach("returned")
	verifAssert(err != nil, "the error of the failing evaluation is returned")
}

// H_C08_backlog_matrix: more pairs than the pair channel buffers, no failure: the matrix of the stub comes back.
// bounds: 15 one-column rows (105 pairs), cpus in {1,2,3}, default schedule
//verif: race=1
func H_C08_backlog_matrix() {
	cpus := nondetRange(1, 3)
	m := &vfWideStub{failPairI: -1, failPairJ: -1}
	mat, err := DistMatrix(vfManyRows(15), nil, m, -1, -1, -1, -1, false, 0, cpus)
	verifReach("returned")
	verifAssert(err == nil, "no error")
	for i := 0; i < 15; i++ {
		for j := 0; j < 15; j++ {
			if i == j {
				verifAssert(mat[i][j] == 0, "zero diagonal")
			} else {
				verifAssert(mat[i][j] == float64(i+j)/64, "entry is the model's distance")
			}
		}
	}
}

// H_C08_backlog_undefined: more undefined (saturated) pairs than any internal buffer holds: the call returns, every off-diagonal entry carries the common substitute.
// bounds: 15 one-column rows, all 105 pairs at +Inf, cpus in {1,2,3}, default schedule, deadlock detection on
// outside: other schedules for this size
//verif: race=1
func H_C08_backlog_undefined() {
	cpus := nondetRange(1, 3)
	m := &vfWideStub{failPairI: -1, failPairJ: -1, undefined: true}
	mat, err := DistMatrix(vfManyRows(15), nil, m, -1, -1, -1, -1, false, 0, cpus)
	verifReach("returned")
	verifAssert(err == nil, "no error")
	for i := 0; i < 15; i++ {
		for j := 0; j < 15; j++ {
			if i == j {
				verifAssert(mat[i][j] == 0, "zero diagonal")
			} else {
				verifAssert(mat[i][j] == mat[0][1] && !(mat[i][j] < 0), "every undefined pair carries the same, non-negative substitute (or stays undefined)")
			}
		}
	}
}
