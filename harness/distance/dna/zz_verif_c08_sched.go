//go:build verif

package dna

import (
	"errors"

	"github.com/evolbioinfo/goalign/align"
)

// C08 (schedules): DistMatrix returns for every thread count and interleaving, with the error
// if a model evaluation fails, the same matrix as the one-thread run, and without data races.

// vfStubModel is a caller-supplied distance model: the distance of the pair (i,j) is a fixed
// value, and the evaluation of pair number failAt (in the order 01,02,12) fails. It keeps no
// mutable state, so any data race reported is in DistMatrix itself.
type vfStubModel struct {
	n      int
	failAt int
	vals   [3]float64
}

func (m *vfStubModel) InitModel(al align.Alignment, weights []float64, gamma bool, alpha float64) error {
	return nil
}

func (m *vfStubModel) Sequence(i int) ([]uint8, error) { return []uint8{uint8(i)}, nil }

func vfPairIndex(i, j int) int {
	if i > j {
		i, j = j, i
	}
	if i == 0 {
		return j - 1 // (0,1)->0 (0,2)->1
	}
	return 2 // (1,2)
}

func (m *vfStubModel) Distance(s1, s2 []uint8, w []float64) (float64, error) {
	k := vfPairIndex(int(s1[0]), int(s2[0]))
	if k == m.failAt {
		return 0, errors.New("model evaluation failed")
	}
	return m.vals[k], nil
}

func vfThreeRows() align.Alignment {
	al := align.NewAlign(align.NUCLEOTIDS)
	al.AddSequence("a", "AC", "")
	al.AddSequence("b", "AG", "")
	al.AddSequence("c", "TT", "")
	return al
}

// H_C08_sched_distmatrix: all interleavings (bounded preemption) of producer and workers give the matrix of the stub.
// bounds: 3 rows (3 pairs), cpus in {1,2}, distances concrete 1/4, 1/2, 3/4 (all defined), preemption bound 2, context switches only at synchronisation operations (channel, mutex, waitgroup, go)
// outside: more than 2 workers / 3 pairs, preemption between two non-synchronising instructions (covered by the happens-before race check instead)
//verif: sched=1 race=1 preempt=2
func H_C08_sched_distmatrix() {
	cpus := nondetRange(1, 2)
	m := &vfStubModel{n: 3, failAt: -1, vals: [3]float64{0.25, 0.5, 0.75}}
	mat, err := DistMatrix(vfThreeRows(), nil, m, -1, -1, -1, -1, false, 0, cpus)
	verifReach("returned")
	verifAssert(err == nil, "no error when no evaluation fails")
	verifAssert(len(mat) == 3, "3x3 matrix")
	for i := 0; i < 3; i++ {
		verifAssert(mat[i][i] == 0, "zero diagonal")
		for j := 0; j < 3; j++ {
			if i != j {
				verifAssert(mat[i][j] == m.vals[vfPairIndex(i, j)], "entry is the model's distance for every schedule")
			}
		}
	}
}

// H_C08_sched_error_returns: when the evaluation of one pair fails, every interleaving returns, with the error.
// bounds: 3 rows, cpus in {1,2}, failing pair = any of the 3, preemption bound 2
// outside: as H_C08_sched_distmatrix
//verif: sched=1 race=1 preempt=2
func H_C08_sched_error_returns() {
	cpus := nondetRange(1, 2)
	failAt := nondetRange(0, 2)
	m := &vfStubModel{n: 3, failAt: failAt, vals: [3]float64{0.25, 0.5, 0.75}}
	_, err := DistMatrix(vfThreeRows(), nil, m, -1, -1, -1, -1, false, 0, cpus)
	verifReach("returned")
	verifAssert(err != nil, "the error of the failing evaluation is returned")
}

// H_C08_sched_undefined: pairs with undefined distances are replaced by a common substitute in every schedule.
// bounds: 3 rows, cpus in {1,2}, distances 1/4, -1 (undefined), 3/4; preemption bound 2
//verif: sched=1 race=1 preempt=2
func H_C08_sched_undefined() {
	cpus := nondetRange(1, 2)
	m := &vfStubModel{n: 3, failAt: -1, vals: [3]float64{0.25, -1, 0.75}}
	mat, err := DistMatrix(vfThreeRows(), nil, m, -1, -1, -1, -1, false, 0, cpus)
	verifReach("returned")
	verifAssert(err == nil, "no error")
	verifAssert(mat[0][1] == 0.25 && mat[1][0] == 0.25 && mat[1][2] == 0.75 && mat[2][1] == 0.75, "defined entries unchanged")
	verifAssert(mat[0][2] == 1.5 && mat[2][0] == 1.5, "undefined entry replaced by twice the largest defined distance, whatever the schedule")
}
