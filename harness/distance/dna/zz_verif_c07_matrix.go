//go:build verif

package dna

// C07 part (E): assembly of the distance matrix by DistMatrix. One worker (cpus=1); the engine
// runs the goroutines deterministically; thread schedules are the subject of C08.

import (
	"errors"
	"math"

	"github.com/evolbioinfo/goalign/align"
)

// vfStub is a DistModel whose pairwise distances are chosen by the harness: Sequence(i) returns
// the one-element row {i}, Distance looks the pair up in a symmetric table.
type vfStub struct {
	n     int
	d     [][]float64
	calls int
}

func (m *vfStub) InitModel(al align.Alignment, weights []float64, gamma bool, alpha float64) error {
	return nil
}

func (m *vfStub) Sequence(i int) ([]uint8, error) {
	if i < 0 || i >= m.n {
		return nil, errors.New("no such sequence")
	}
	return []uint8{uint8(i)}, nil
}

func (m *vfStub) Distance(s1, s2 []uint8, weights []float64) (float64, error) {
	m.calls++
	return m.d[s1[0]][s2[0]], nil
}

// vfXR: an arbitrary extended real: any finite real, +Inf, -Inf or NaN.
func vfXR() float64 {
	switch nondetRange(0, 3) {
	case 0:
		return nondetFloat()
	case 1:
		return math.Inf(1)
	case 2:
		return math.Inf(-1)
	}
	return math.NaN()
}

func vfConcreteDNA(rows ...string) align.Alignment {
	al := align.NewAlign(align.NUCLEOTIDS)
	for i, r := range rows {
		if err := al.AddSequenceChar(vfRowNames[i], []uint8(r), ""); err != nil {
			panic("harness: cannot build alignment: " + err.Error())
		}
	}
	return al
}

func vfSameXR(a, b float64) bool {
	return a == b || (math.IsNaN(a) && math.IsNaN(b))
}

// vfUndefinedValue: what DistMatrix is documented to treat as "not computable": negative,
// infinite or huge (> NT_DIST_OVER = 1e5); NaN is undefined as well.
func vfUndefinedValue(d float64) bool {
	return math.IsNaN(d) || math.IsInf(d, 0) || d < 0 || d > 100000
}

// vfCheckMatrix: the assertions on a full matrix given the raw model value of every pair.
func vfCheckMatrix(mat [][]float64, raw [][]float64, n int) {
	verifAssert(len(mat) == n, "n rows")
	for i := 0; i < n; i++ {
		verifAssert(len(mat[i]) == n, "n columns")
		verifAssert(mat[i][i] == 0, "zero diagonal")
	}
	// the largest defined model value
	maxDefined := 0.0
	for i := 0; i < n; i++ {
		for j := i + 1; j < n; j++ {
			if !vfUndefinedValue(raw[i][j]) && raw[i][j] > maxDefined {
				maxDefined = raw[i][j]
			}
		}
	}
	haveSub := false
	sub := 0.0
	for i := 0; i < n; i++ {
		for j := i + 1; j < n; j++ {
			verifAssert(vfSameXR(mat[i][j], mat[j][i]), "symmetric")
			if !vfUndefinedValue(raw[i][j]) {
				verifAssert(mat[i][j] == raw[i][j], "a defined distance is passed through unchanged")
			} else if vfFinite(mat[i][j]) {
				verifReach("substituted")
				if !haveSub {
					haveSub, sub = true, mat[i][j]
				}
				verifAssert(mat[i][j] == sub, "all substituted entries carry one common value")
				verifAssert(mat[i][j] >= maxDefined, "the substitute is >= every defined entry of the matrix")
				verifAssert(mat[i][j] > 0, "an undefined pair is never reported at distance 0 (or below)")
			}
		}
	}
}

// H_C07_matrix_stub: DistMatrix with a model returning arbitrary extended reals: symmetric, zero diagonal, defined values unchanged, undefined values (negative, +-Inf, NaN, > 1e5) stay undefined or become one common substitute that is >= every defined entry and not 0.
// bounds: n=3 rows, each of the 3 pair distances an arbitrary finite real, +Inf, -Inf or NaN; cpus=1; no ranges
// outside: n>3, cpus>1 and thread schedules (C08); IEEE rounding is outside the claim: floats are exact reals
func H_C07_matrix_stub() {
	n := 3
	m := &vfStub{n: n, d: init2DFloat(n, n)}
	for i := 0; i < n; i++ {
		for j := i + 1; j < n; j++ {
			m.d[i][j] = vfXR()
			m.d[j][i] = m.d[i][j]
		}
	}
	al := vfConcreteDNA("A", "C", "G")
	mat, err := DistMatrix(al, nil, m, -1, -1, -1, -1, false, 0, 1)
	verifReach("called")
	verifAssert(err == nil, "no error")
	verifAssert(m.calls == 3, "each pair evaluated once")
	vfCheckMatrix(mat, m.d, n)
}

// H_C07_matrix_stub_positive_max: as H_C07_matrix_stub when at least one pair has a defined positive distance (excludes exactly the region where the substitute 2*max degenerates to 0).
// bounds: n=3 rows, pair distances arbitrary extended reals, at least one of them in (0, 1e5]; cpus=1; no ranges
// outside: matrices without any positive defined entry (H_C07_matrix_stub); IEEE rounding is outside the claim: floats are exact reals
func H_C07_matrix_stub_positive_max() {
	n := 3
	m := &vfStub{n: n, d: init2DFloat(n, n)}
	anyPos := false
	for i := 0; i < n; i++ {
		for j := i + 1; j < n; j++ {
			m.d[i][j] = vfXR()
			m.d[j][i] = m.d[i][j]
			anyPos = anyPos || (!vfUndefinedValue(m.d[i][j]) && m.d[i][j] > 0)
		}
	}
	assume(anyPos)
	al := vfConcreteDNA("A", "C", "G")
	mat, err := DistMatrix(al, nil, m, -1, -1, -1, -1, false, 0, 1)
	verifReach("called")
	verifAssert(err == nil, "no error")
	vfCheckMatrix(mat, m.d, n)
}

// H_C07_matrix_ranges: range mode fills exactly the block range1 x range2 (and its mirror), leaves everything else 0, passes defined values through.
// bounds: n=3 rows; 0 <= min <= 2, min <= max <= 3 for both ranges (max = 3 exercises the clamp to n-1); pair distances arbitrary reals in [0, 1e5]; cpus=1
// outside: invalid ranges (min > max: error path, C08), undefined distances in range mode, n>3; IEEE rounding is outside the claim: floats are exact reals
func H_C07_matrix_ranges() {
	n := 3
	m := &vfStub{n: n, d: init2DFloat(n, n)}
	for i := 0; i < n; i++ {
		for j := i + 1; j < n; j++ {
			m.d[i][j] = nondetFloat()
			assume(m.d[i][j] >= 0 && m.d[i][j] <= 100000)
			m.d[j][i] = m.d[i][j]
		}
	}
	r1min := nondetRange(0, 2)
	r1max := nondetRange(r1min, 3)
	r2min := nondetRange(0, 2)
	r2max := nondetRange(r2min, 3)
	al := vfConcreteDNA("A", "C", "G")
	mat, err := DistMatrix(al, nil, m, r1min, r1max, r2min, r2max, false, 0, 1)
	verifReach("called")
	verifAssert(err == nil, "no error")
	verifAssert(len(mat) == n, "n rows")
	in1 := func(i int) bool { return i >= r1min && i <= r1max }
	in2 := func(i int) bool { return i >= r2min && i <= r2max }
	for i := 0; i < n; i++ {
		verifAssert(len(mat[i]) == n, "n columns")
		for j := 0; j < n; j++ {
			requested := i != j && ((in1(i) && in2(j)) || (in1(j) && in2(i)))
			if requested {
				verifAssert(mat[i][j] == m.d[i][j], "requested pair carries its distance (both triangles)")
			} else {
				verifAssert(mat[i][j] == 0, "pairs outside the requested block and the diagonal are 0")
			}
		}
	}
}

var vfModelNames = []string{"jc", "k2p", "pdist", "rawdist", "f81", "f84", "tn93"}

// vfEnd2End: the real models through Model() + DistMatrix on an alignment whose third row repeats the first.
func vfEnd2End(letters0, letters1 []uint8, L int, gammas bool) {
	n := 3
	al := align.NewAlign(align.NUCLEOTIDS)
	orig := make([][]uint8, n)
	for r := 0; r < n; r++ {
		s := make([]uint8, L)
		for j := range s {
			if r == 2 {
				s[j] = orig[0][j]
			} else {
				s[j] = nondetByte()
				if r == 0 {
					assume(vfIsLetter(s[j], letters0))
				} else {
					assume(vfIsLetter(s[j], letters1))
				}
			}
		}
		orig[r] = make([]uint8, L)
		copy(orig[r], s)
		if err := al.AddSequenceChar(vfRowNames[r], s, ""); err != nil {
			panic("harness: cannot build alignment: " + err.Error())
		}
	}
	name := vfModelNames[nondetRange(0, len(vfModelNames)-1)]
	rmgaps := nondetRange(0, 1) == 1
	gamma := false
	if gammas {
		gamma = nondetRange(0, 1) == 1
	}
	model, err := Model(name, rmgaps)
	verifAssert(err == nil, "model exists")
	mat, err := DistMatrix(al, nil, model, -1, -1, -1, -1, gamma, 2, 1)
	verifReach("called")
	verifAssert(err == nil, "no error")
	// raw model values of the pairs, from the initialised model
	raw := init2DFloat(n, n)
	comparable02 := false
	for i := 0; i < n; i++ {
		si, e1 := model.Sequence(i)
		verifAssert(e1 == nil, "row available")
		for j := i + 1; j < n; j++ {
			sj, _ := model.Sequence(j)
			d, e := model.Distance(si, sj, nil)
			verifAssert(e == nil, "no error")
			raw[i][j], raw[j][i] = d, d
		}
	}
	vfCheckMatrix(mat, raw, n)
	// rows 0 and 2 are identical: no counted difference. They are comparable when some kept site
	// carries a nucleotide. Under rm-gaps a site is surely kept when every row holds one of
	// A, C, G, T there (whether a gap-free site with an ambiguity code is kept is not fixed by the
	// property: the implementation drops it, and NN / AA / NN then has no comparable site at all).
	for j := 0; j < L; j++ {
		kept := true
		if rmgaps {
			for r := 0; r < n; r++ {
				c := orig[r][j]
				kept = kept && (c == 'A' || c == 'C' || c == 'G' || c == 'T')
			}
		}
		if kept && vfMaskOfLetter(orig[0][j]) != 0 {
			comparable02 = true
		}
	}
	if comparable02 {
		verifReach("identical")
		verifAssert(mat[0][2] == 0 && mat[2][0] == 0, "identical rows with a comparable site are at distance 0")
	}
	verifAssert(vfSameXR(mat[0][1], mat[1][2]), "identical rows are at the same distance from a third row")
}

// H_C07_matrix_end2end: Model() + DistMatrix for the 7 models: symmetric, zero diagonal, identical rows at distance 0, entries equal the model's pair values or the common substitute.
// bounds: 3 rows x 2 sites, row 0 symbolic over {A,C,-}, row 1 symbolic over {G,T,-} (transitions, transversions and gaps all occur), row 2 = row 0; 7 models, rm-gaps on/off, no gamma, no weights, cpus=1
// outside: other residues (thorough twin: both rows over {A,G,N,-}, gamma alpha=2), weights, L>2, n>3; IEEE rounding is outside the claim: floats are exact reals
func H_C07_matrix_end2end() {
	vfEnd2End([]uint8{'A', 'C', '-'}, []uint8{'G', 'T', '-'}, 2, false)
}

// H_C07_matrix_end2end_deep: as H_C07_matrix_end2end on more residues and with the gamma variants.
// bounds: 3 rows x 2 sites over {A,G,N,-}, row 2 = row 0; 7 models, rm-gaps on/off, gamma off / alpha=2
// outside: IEEE rounding is outside the claim: floats are exact reals
//verif: tier=thorough
func H_C07_matrix_end2end_deep() {
	l := []uint8{'A', 'G', 'N', '-'}
	vfEnd2End(l, l, 2, true)
}
